/-
  C04 — Redaction keeps exactly the spec's keys per room version and is idempotent.
  Property theorems only; helper lemmas live in `Lemmas/Redact.lean`.

  Reading guide. `redact r o because` is the model of `redact`/`redact_in_place`
  (`Model/Redact.lean`), `rulesOf v` the rules the spec implies for room version `v`
  (`Spec/RedactionRules.lean`), `topKept`/`contentKept`/`contentEntry`/`redactedContent` the spec
  tables (`Spec/Redaction.lean`). `rules_table_eq_spec` ties the implementation's
  `RoomVersionId::rules()` table (regenerated on every run) to `rulesOf`.
-/
import RumaModel.Lemmas.Redact
import RumaModel.Generated.C04
namespace Ruma.Props.C04
open Ruma Ruma.Redact Ruma.Spec.Redaction

/-- T1: the rules the implementation reaches through `RoomVersionId::rules()` for versions 1–11
(extracted on this run) are the rules the spec table implies. -/
theorem rules_table_eq_spec :
    Generated.C04.rulesTable = versions.map (fun v => (v, rulesOf v)) := by decide

/-- Top level: the model's key predicate under the spec rules is the spec's table, for every
version number and every key string. -/
theorem top_key_eq_spec (v : Nat) (k : Str) : isEventKeyRetained (rulesOf v) k = topKept v k := by
  have hA : topAlwaysKeys = topAlways := by decide
  have hL : topRuleKeys = topLegacy := by decide
  simp only [isEventKeyRetained, topKept, rulesOf_origin, hA, hL]
  cases topAlways.contains k <;> cases topLegacy.contains k <;> simp

theorem redactContent_eq_spec (v : Nat) (ty : Str) (c c' : Obj)
    (h : redactContent (rulesOf v) ty c = .ok c') : c' = redactedContent v ty c := by
  unfold redactContent retainedContentKeys at h
  by_cases h1 : ty = bs "m.room.member"
  · subst h1
    simp only [if_true, Retained.apply] at h
    rw [applySome_ok _ _ _ h]
    unfold redactedContent
    congr 1
    funext e
    exact member_entry v e.1 e.2
  simp only [h1, if_false] at h
  by_cases h2 : ty = bs "m.room.create"
  · subst h2
    simp only [if_true, rulesOf_create] at h
    by_cases hv : 11 ≤ v
    · simp only [hv, decide_true, if_true, Retained.apply] at h
      injection h with h; subst h
      exact all_case v _ _ h1 (fun k => by simp [contentKept, bs, hv])
    · simp only [hv, decide_false, Retained.apply] at h
      exact byKey_case v _ _ _ _ h1 h (fun k => by simp [contentKept, bs, hv])
  simp only [h2, if_false] at h
  by_cases h3 : ty = bs "m.room.join_rules"
  · subst h3
    simp only [if_true, Retained.apply] at h
    exact byKey_case v _ _ _ _ h1 h (fun k => by simp [contentKept, bs, joinRulesKey, Bool.and_comm])
  simp only [h3, if_false] at h
  by_cases h4 : ty = bs "m.room.power_levels"
  · subst h4
    simp only [if_true, Retained.apply] at h
    exact byKey_case v _ _ _ _ h1 h
      (fun k => by simp [contentKept, bs, powerLevelsKey, powerLevelsAlwaysKeys, Bool.and_comm])
  simp only [h4, if_false] at h
  by_cases h5 : ty = bs "m.room.history_visibility"
  · subst h5
    simp only [if_true, Retained.apply] at h
    exact byKey_case v _ _ _ _ h1 h (fun k => by simp [contentKept, bs])
  simp only [h5, if_false] at h
  by_cases h6 : ty = bs "m.room.redaction"
  · subst h6
    simp only [if_true, rulesOf_redacts] at h
    by_cases hv : 11 ≤ v
    · simp only [hv, decide_true, if_true, Retained.apply] at h
      exact byKey_case v _ _ _ _ h1 h (fun k => by simp [contentKept, bs, hv])
    · simp only [hv, decide_false, Retained.apply] at h
      injection h with h; subst h
      exact none_case v _ _ h1 (fun k => by simp [contentKept, bs, hv])
  simp only [h6, if_false] at h
  by_cases h7 : ty = bs "m.room.aliases"
  · subst h7
    simp only [if_true, rulesOf_aliases] at h
    by_cases hv : v ≤ 5
    · simp only [hv, decide_true, if_true, Retained.apply] at h
      exact byKey_case v _ _ _ _ h1 h (fun k => by simp [contentKept, bs, hv])
    · simp only [hv, decide_false, Retained.apply] at h
      injection h with h; subst h
      exact none_case v _ _ h1 (fun k => by simp [contentKept, bs, hv])
  simp only [h7, if_false, Retained.apply] at h
  injection h with h; subst h
  exact none_case v _ _ h1 (fun k => by simp [contentKept, h1, h2, h3, h4, h5, h6, h7])

/-- What a successful redaction (without `redacted_because`) returns: the event type is a string,
`content` (if present) is an object and was redacted by the content rules, and the top level is the
input filtered by the top-level key predicate. -/
theorem redact_ok_shape (r : Rules) (o res : Obj) (h : redact r o none = .ok res) :
    ∃ ty, Obj.get o (bs "type") = some (.str ty) ∧
      ((Obj.get o (bs "content") = none ∧ res = o.filter (fun e => isEventKeyRetained r e.1)) ∨
       (∃ c c', Obj.get o (bs "content") = some (.obj c) ∧ redactContent r ty c = .ok c' ∧
          res = (setVal o (bs "content") (.obj c')).filter (fun e => isEventKeyRetained r e.1))) := by
  unfold redact at h
  cases hty : Obj.get o (bs "type") with
  | none => rw [hty] at h; cases h
  | some x =>
    rw [hty] at h
    cases x with
    | str ty =>
      refine ⟨ty, rfl, ?_⟩
      simp only at h
      cases hf : redactContentField r ty o with
      | error e => rw [hf] at h; cases h
      | ok o1 =>
        rw [hf] at h
        simp only [finish] at h
        injection h with h
        subst h
        unfold redactContentField at hf
        cases hc : Obj.get o (bs "content") with
        | none =>
          rw [hc] at hf
          injection hf with hf
          subst hf
          exact Or.inl ⟨rfl, rfl⟩
        | some y =>
          rw [hc] at hf
          cases y with
          | obj c =>
            simp only at hf
            cases hr : redactContent r ty c with
            | error e => rw [hr] at hf; cases hf
            | ok c' =>
              rw [hr] at hf
              injection hf with hf
              subst hf
              exact Or.inr ⟨c, c', rfl, hr, rfl⟩
          | _ => cases hf
    | _ => cases h

/-- **Top-level keys are exactly the spec's.** A key is in the redacted event iff it was in the
input and the spec keeps it in that room version. Nothing is added. -/
theorem redact_top_keys_exact (v : Nat) (o res : Obj) (h : redact (rulesOf v) o none = .ok res)
    (k : Str) : k ∈ Obj.keys res ↔ k ∈ Obj.keys o ∧ topKept v k = true := by
  obtain ⟨ty, _, hcase⟩ := redact_ok_shape _ _ _ h
  rcases hcase with ⟨_, rfl⟩ | ⟨c, c', _, _, rfl⟩
  · rw [keys_filter_mem, top_key_eq_spec]
  · rw [keys_filter_mem, keys_setVal, top_key_eq_spec]

/-- **Values are untouched.** Every kept top-level key other than `content` maps to the identical
value; dropped keys are absent. -/
theorem redact_values_untouched (v : Nat) (o res : Obj) (h : redact (rulesOf v) o none = .ok res)
    (k : Str) (hk : k ≠ bs "content") :
    Obj.get res k = if topKept v k then Obj.get o k else none := by
  obtain ⟨ty, _, hcase⟩ := redact_ok_shape _ _ _ h
  rcases hcase with ⟨_, rfl⟩ | ⟨c, c', _, _, rfl⟩
  · rw [get_filter, top_key_eq_spec]
  · rw [get_filter, top_key_eq_spec, get_setVal_ne _ _ _ _ hk]

/-- **Content keys are exactly the spec's**, with kept values untouched (the v11
`third_party_invite` narrowing included): the redacted `content` is the spec's `redactedContent`. -/
theorem redact_content_eq_spec (v : Nat) (o res : Obj) (ty : Str) (c : Obj)
    (h : redact (rulesOf v) o none = .ok res)
    (hty : Obj.get o (bs "type") = some (.str ty)) (hc : Obj.get o (bs "content") = some (.obj c)) :
    Obj.get res (bs "content") = some (.obj (redactedContent v ty c)) := by
  obtain ⟨ty', hty', hcase⟩ := redact_ok_shape _ _ _ h
  rw [hty] at hty'
  injection hty' with hty'; injection hty' with hty'; subst hty'
  rcases hcase with ⟨hnone, _⟩ | ⟨c0, c', hc0, hred, rfl⟩
  · rw [hc] at hnone; cases hnone
  · rw [hc] at hc0
    injection hc0 with hc0; injection hc0 with hc0; subst hc0
    rw [get_filter]
    have : isEventKeyRetained (rulesOf v) (bs "content") = true := by
      simp [isEventKeyRetained, topAlwaysKeys, bs]
    rw [this, if_pos rfl, get_setVal_eq _ _ _ (by rw [hc]; simp)]
    rw [redactContent_eq_spec v ty c c' hred]

/-- The content-only entry point agrees with what `redact` does to `content`
(`redact_content_in_place` vs `redact`). True by construction of the model (`redact` calls
`redactContent`; the copying `redact` and `redact_in_place` are one model function), stated for the
record: that the three Rust entry points agree is checked by the differential correspondence (T2:
every random event goes through all three) and not by this theorem. -/
theorem entry_points_agree (r : Rules) (o res : Obj) (ty : Str) (c : Obj)
    (h : redact r o none = .ok res)
    (hty : Obj.get o (bs "type") = some (.str ty)) (hc : Obj.get o (bs "content") = some (.obj c)) :
    ∃ c', redactContent r ty c = .ok c' ∧ Obj.get res (bs "content") = some (.obj c') := by
  obtain ⟨ty', hty', hcase⟩ := redact_ok_shape _ _ _ h
  rw [hty] at hty'
  injection hty' with hty'; injection hty' with hty'; subst hty'
  rcases hcase with ⟨hnone, _⟩ | ⟨c0, c', hc0, hred, rfl⟩
  · rw [hc] at hnone; cases hnone
  · rw [hc] at hc0
    injection hc0 with hc0; injection hc0 with hc0; subst hc0
    refine ⟨c', hred, ?_⟩
    rw [get_filter]
    have : isEventKeyRetained r (bs "content") = true := by
      simp [isEventKeyRetained, topAlwaysKeys, bs]
    rw [this, if_pos rfl, get_setVal_eq _ _ _ (by rw [hc]; simp)]

/-- **Idempotence**: redacting a redacted event changes nothing, for every rules value (hence every
room version), every event and every content. -/
theorem redact_idempotent (r : Rules) (o res : Obj) (h : redact r o none = .ok res) :
    redact r res none = .ok res := by
  obtain ⟨ty, hty, hcase⟩ := redact_ok_shape _ _ _ h
  have htop : isEventKeyRetained r (bs "type") = true := by
    simp [isEventKeyRetained, topAlwaysKeys, bs]
  have hcont : isEventKeyRetained r (bs "content") = true := by
    simp [isEventKeyRetained, topAlwaysKeys, bs]
  have hne : bs "type" ≠ bs "content" := by decide
  rcases hcase with ⟨hnone, rfl⟩ | ⟨c, c', hc, hred, rfl⟩
  · have h1 : Obj.get (o.filter (fun e => isEventKeyRetained r e.1)) (bs "type") = some (.str ty) := by
      rw [get_filter, htop, if_pos rfl, hty]
    have h2 : Obj.get (o.filter (fun e => isEventKeyRetained r e.1)) (bs "content") = none := by
      rw [get_filter, hcont, if_pos rfl, hnone]
    simp only [redact, h1, redactContentField, h2, finish, List.filter_filter, Bool.and_self]
  · have h1 : Obj.get ((setVal o (bs "content") (.obj c')).filter
        (fun e => isEventKeyRetained r e.1)) (bs "type") = some (.str ty) := by
      rw [get_filter, htop, if_pos rfl, get_setVal_ne _ _ _ _ hne, hty]
    have h2 : Obj.get ((setVal o (bs "content") (.obj c')).filter
        (fun e => isEventKeyRetained r e.1)) (bs "content") = some (.obj c') := by
      rw [get_filter, hcont, if_pos rfl, get_setVal_eq _ _ _ (by rw [hc]; simp)]
    have hidem : redactContent r ty c' = .ok c' := retained_idem ty r c c' hred
    simp only [redact, h1, redactContentField, h2, hidem, finish, setVal_filter, setVal_setVal,
      List.filter_filter, Bool.and_self]

/-- `redacted_because` only adds `unsigned.redacted_because` on top of the plain redaction. -/
theorem redact_because (r : Rules) (o : Obj) (b : Obj) :
    redact r o (some b) = (redact r o none).map
      (fun res => Obj.insert res (bs "unsigned") (.obj [(bs "redacted_because", .obj b)])) := by
  unfold redact
  cases Obj.get o (bs "type") with
  | none => rfl
  | some x =>
    cases x with
    | str ty =>
      simp only
      cases redactContentField r ty o <;> rfl
    | _ => rfl

/-- **Errors are exactly the documented shape errors**: `type` missing or not a string, `content`
present but not an object, or the content function `redactContent` fails — which happens exactly
(`redactContent_error_iff`, both directions) where the rules keep `third_party_invite.signed`, i.e.
v11, on a non-object `third_party_invite` in an `m.room.member` content. `redact_error_iff_input`
below puts the two together into a condition on the input alone. -/
theorem redact_error_iff (r : Rules) (o : Obj) (because : Option Obj) :
    (∃ e, redact r o because = .error e) ↔
      (Obj.get o (bs "type") = none) ∨
      (∃ x, Obj.get o (bs "type") = some x ∧ ∀ s, x ≠ .str s) ∨
      (∃ ty x, Obj.get o (bs "type") = some (.str ty) ∧ Obj.get o (bs "content") = some x ∧
        ((∀ c, x ≠ .obj c) ∨ ∃ c e, x = .obj c ∧ redactContent r ty c = .error e)) := by
  unfold redact
  cases hty : Obj.get o (bs "type") with
  | none => simp
  | some x =>
    cases x with
    | str ty =>
      simp only [redactContentField]
      cases hc : Obj.get o (bs "content") with
      | none => simp
      | some y =>
        cases y with
        | obj c =>
          simp only
          cases hr : redactContent r ty c with
          | error e => simp [hr]
          | ok c' => simp [hr]
        | _ => simp
    | _ => simp

/-- `redactContent` fails only on a non-object `third_party_invite` of an `m.room.member` content
under rules that keep `third_party_invite.signed` (one direction; `redactContent_error_iff` below has
both). -/
theorem redactContent_error_only (r : Rules) (ty : Str) (c : Obj) (e : Err)
    (h : redactContent r ty c = .error e) :
    e = .tpiNotObject ∧ ty = bs "m.room.member" ∧ r.keepMemberTpiSigned = true ∧
      ∃ x, (bs "third_party_invite", x) ∈ c ∧ ∀ t, x ≠ .obj t := by
  unfold redactContent retainedContentKeys at h
  by_cases hm : ty = bs "m.room.member"
  · subst hm
    simp only [if_true, Retained.apply] at h
    induction c with
    | nil => simp [applySome] at h
    | cons p t ih =>
      obtain ⟨k, x⟩ := p
      simp only [applySome] at h
      cases hf : memberKey r k x with
      | error e' =>
        rw [hf] at h
        injection h with h; subst h
        simp only [memberKey] at hf
        split at hf
        · cases hf
        · split at hf
          · cases hf
          · split at hf
            · rename_i hk
              obtain ⟨rfl, hr⟩ := hk
              split at hf
              · cases hf
              · rename_i hno
                injection hf with hf
                refine ⟨hf.symm, rfl, hr, x, by simp, ?_⟩
                intro t ht; subst ht; exact hno t rfl
            · cases hf
      | ok ov =>
        rw [hf] at h
        cases ov with
        | none =>
          simp only at h
          obtain ⟨a, b, c', x', hx, hno⟩ := ih h
          exact ⟨a, b, c', x', by simp [hx], hno⟩
        | some v' =>
          simp only at h
          cases ht : applySome (memberKey r) t with
          | error e' =>
            rw [ht] at h
            injection h with h; subst h
            obtain ⟨a, b, c', x', hx, hno⟩ := ih ht
            exact ⟨a, b, c', x', by simp [hx], hno⟩
          | ok t' => rw [ht] at h; cases h
  · simp only [hm, if_false] at h
    repeat' split at h
    all_goals simp only [Retained.apply, applySome_byKey] at h
    all_goals cases h

/-- The only error the member-content retain function can return is `tpiNotObject`, and it returns
it exactly on a non-object `third_party_invite` under rules that keep `third_party_invite.signed`. -/
theorem memberKey_error_iff (r : Rules) (k : Str) (x : JVal) (e : Err) :
    memberKey r k x = .error e ↔
      e = .tpiNotObject ∧ k = bs "third_party_invite" ∧ r.keepMemberTpiSigned = true ∧ ∀ t, x ≠ .obj t := by
  constructor
  · intro hf
    simp only [memberKey] at hf
    split at hf
    · cases hf
    · split at hf
      · cases hf
      · split at hf
        · rename_i hk
          obtain ⟨rfl, hr⟩ := hk
          split at hf
          · cases hf
          · rename_i hno
            injection hf with hf
            exact ⟨hf.symm, rfl, hr, fun t ht => hno t ht⟩
        · cases hf
  · rintro ⟨rfl, rfl, hr, hno⟩
    have h1 : bs "third_party_invite" ≠ bs "membership" := by decide
    have h2 : bs "third_party_invite" ≠ bs "join_authorised_via_users_server" := by decide
    cases x with
    | obj t => exact absurd rfl (hno t)
    | _ => simp only [memberKey, h1, h2, if_false, hr, and_self, if_true]

/-- **`redactContent` fails exactly** on an `m.room.member` content with a non-object
`third_party_invite` entry under rules that keep `third_party_invite.signed` (room version 11), and
the error is then `tpiNotObject`. Both directions. -/
theorem redactContent_error_iff (r : Rules) (ty : Str) (c : Obj) (e : Err) :
    redactContent r ty c = .error e ↔
      e = .tpiNotObject ∧ ty = bs "m.room.member" ∧ r.keepMemberTpiSigned = true ∧
        ∃ x, (bs "third_party_invite", x) ∈ c ∧ ∀ t, x ≠ .obj t := by
  constructor
  · exact redactContent_error_only r ty c e
  · rintro ⟨rfl, rfl, hr, x, hx, hno⟩
    unfold redactContent retainedContentKeys
    simp only [if_true, Retained.apply]
    induction c with
    | nil => simp at hx
    | cons p t ih =>
      obtain ⟨k, y⟩ := p
      simp only [applySome]
      cases hf : memberKey r k y with
      | error e' =>
        rw [((memberKey_error_iff r k y e').mp hf).1]
      | ok ov =>
        have hxt : (bs "third_party_invite", x) ∈ t := by
          rcases List.mem_cons.mp hx with heq | hmem
          · injection heq with h1 h2
            subst h1; subst h2
            rw [(memberKey_error_iff r _ x .tpiNotObject).mpr ⟨rfl, rfl, hr, hno⟩] at hf
            cases hf
          · exact hmem
        cases ov with
        | none => exact ih hxt
        | some v' => simp only [ih hxt]

/-- **Errors, said on the input alone** (no reference to the content function): `redact` fails iff
`type` is missing or not a string, or `content` is present and not an object, or — only under rules
that keep `third_party_invite.signed` — the event is an `m.room.member` whose content has a
non-object `third_party_invite` entry. In every other case it succeeds. -/
theorem redact_error_iff_input (r : Rules) (o : Obj) (because : Option Obj) :
    (∃ e, redact r o because = .error e) ↔
      (Obj.get o (bs "type") = none) ∨
      (∃ x, Obj.get o (bs "type") = some x ∧ ∀ s, x ≠ .str s) ∨
      (∃ ty x, Obj.get o (bs "type") = some (.str ty) ∧ Obj.get o (bs "content") = some x ∧
        ((∀ c, x ≠ .obj c) ∨
         ∃ c, x = .obj c ∧ ty = bs "m.room.member" ∧ r.keepMemberTpiSigned = true ∧
           ∃ y, (bs "third_party_invite", y) ∈ c ∧ ∀ t, y ≠ .obj t)) := by
  rw [redact_error_iff]
  constructor
  · rintro (h | h | ⟨ty, x, h1, h2, h3 | ⟨c, e, rfl, he⟩⟩)
    · exact Or.inl h
    · exact Or.inr (Or.inl h)
    · exact Or.inr (Or.inr ⟨ty, x, h1, h2, Or.inl h3⟩)
    · obtain ⟨_, hm, hr, hy⟩ := (redactContent_error_iff r ty c e).mp he
      exact Or.inr (Or.inr ⟨ty, _, h1, h2, Or.inr ⟨c, rfl, hm, hr, hy⟩⟩)
  · rintro (h | h | ⟨ty, x, h1, h2, h3 | ⟨c, rfl, hm, hr, hy⟩⟩)
    · exact Or.inl h
    · exact Or.inr (Or.inl h)
    · exact Or.inr (Or.inr ⟨ty, x, h1, h2, Or.inl h3⟩)
    · exact Or.inr (Or.inr ⟨ty, _, h1, h2, Or.inr ⟨c, .tpiNotObject, rfl,
        (redactContent_error_iff r ty c .tpiNotObject).mpr ⟨rfl, hm, hr, hy⟩⟩⟩)

/-- The error case is reachable: a v11 member event whose `third_party_invite` is a string. -/
example :
    redact (rulesOf 11)
      [(bs "content", .obj [(bs "membership", .str (bs "invite")), (bs "third_party_invite", .str (bs "x"))]),
       (bs "type", .str (bs "m.room.member"))] none = .error .tpiNotObject ∧
    redact (rulesOf 10)
      [(bs "content", .obj [(bs "membership", .str (bs "invite")), (bs "third_party_invite", .str (bs "x"))]),
       (bs "type", .str (bs "m.room.member"))] none
      = .ok [(bs "content", .obj [(bs "membership", .str (bs "invite"))]), (bs "type", .str (bs "m.room.member"))] :=
  ⟨rfl, rfl⟩

/-- Redaction keeps the `BTreeMap` invariant (strictly ascending keys). -/
theorem redact_sorted (r : Rules) (o res : Obj) (hs : Obj.Sorted o) (h : redact r o none = .ok res) :
    Obj.Sorted res := by
  obtain ⟨ty, _, hcase⟩ := redact_ok_shape _ _ _ h
  have key : ∀ o' : Obj, Obj.keys o' = Obj.keys o →
      Obj.Sorted (o'.filter (fun e => isEventKeyRetained r e.1)) := by
    intro o' hk
    unfold Obj.Sorted at hs ⊢
    have : Obj.keys (o'.filter (fun e => isEventKeyRetained r e.1))
        = (Obj.keys o').filter (fun k => isEventKeyRetained r k) := by
      simp [Obj.keys, List.filter_map, Function.comp_def]
    rw [this, hk]
    exact List.Pairwise.filter _ hs
  rcases hcase with ⟨_, rfl⟩ | ⟨c, c', _, _, rfl⟩
  · exact key o rfl
  · exact key _ (keys_setVal _ _ _)

/-- Non-vacuity: a concrete v11 member event redacts successfully, so the hypotheses above are
satisfiable, and the result is the spec's. -/
example :
    redact (rulesOf 11)
      [(bs "content", .obj [(bs "displayname", .str (bs "x")), (bs "membership", .str (bs "join")),
          (bs "third_party_invite", .obj [(bs "display_name", .null), (bs "signed", .int 1)])]),
       (bs "origin", .int 1), (bs "sender", .str (bs "@a:b")), (bs "type", .str (bs "m.room.member"))]
      none
    = .ok [(bs "content", .obj [(bs "membership", .str (bs "join")),
          (bs "third_party_invite", .obj [(bs "signed", .int 1)])]),
       (bs "sender", .str (bs "@a:b")), (bs "type", .str (bs "m.room.member"))] := by
  rfl

#print axioms rules_table_eq_spec
#print axioms top_key_eq_spec
#print axioms redactContent_eq_spec
#print axioms redact_ok_shape
#print axioms redact_top_keys_exact
#print axioms redact_values_untouched
#print axioms redact_content_eq_spec
#print axioms entry_points_agree
#print axioms redact_idempotent
#print axioms redact_because
#print axioms redact_error_iff
#print axioms redactContent_error_only
#print axioms memberKey_error_iff
#print axioms redactContent_error_iff
#print axioms redact_error_iff_input
#print axioms redact_sorted
end Ruma.Props.C04
