/-
  C18, per-type part — the serde-derived content code, for every WELL-FORMED schema (`WF`) and EVERY
  JSON value. Property theorems only (helper lemmas: `Lemmas/ContentSchema*.lean`; model:
  `Model/ContentSchema.lean`, `Model/ContentSchemaLeaves.lean`; the predicates used in the statements:
  `Spec/ContentSchema.lean`).

  Reading guide. `project s j` is what `serde_json::to_string(&serde_json::from_str::<C>(j)?)` yields
  for a content type `C` described by schema `s` (`none`: rejected). A schema lists, per struct, the
  fields with the facts the harness extracts from the running code on every run (what is written
  when the field is absent, whether `null` / an ill-typed value is read as absent, which values the
  serialiser leaves out, which keys are serialise-only constants) — `h-c18 extract` writes them to
  `Generated/C18.lean` as Lean terms.

  `WF s` is a side condition ON THE MODEL's schema language, not part of the specification: field
  spellings are distinct, a written-back default is readable by the field, `skip_serializing_if` is
  only on fields that may be absent, scalar readers are idempotent and write `null` only for `null`,
  every case of a tagged choice writes its tag, a struct with a catch-all has no serialise-only
  constant. The fixpoint and duplicate-key theorems need it (non-`WF` schemas refute them: a
  required field with a skip predicate gives `{"a":"x"} ↦ {}` and then `{} ↦` rejected). It is
  DISCHARGED, by kernel evaluation of the total check `wfb` (`wfb_decides_wf`), for every schema
  extracted from the running code: `Props/C18.lean`, `generated_schemas_wf`. The key-order and
  unknown-field theorems hold for every schema, well-formed or not.
-/
import RumaModel.Lemmas.ContentSchemaThm2
import RumaModel.Lemmas.ContentSchemaWF
namespace Ruma.Props.C18Schema
open Ruma Ruma.Canonical Ruma.ContentSchema

/-! ## Fixpoint -/

/-- **Serialising the typed content and deserialising it again under the same type is a fixpoint.**
With the typed value identified with its normal form `t = project s j` (`deser := project`,
`ser := id` on normal forms, see the model's header): `deser s (ser s t) = some t` for every `t` in
the image of `deser s`. Every well-formed schema (`WF s`, a side condition on the model's schema,
discharged for the extracted schemas by `Props.C18.generated_schemas_wf`), every JSON value, any
nesting depth.
What this is and is not: it is idempotence of `project` on JSON — what was written is read back and
written again unchanged. The typed Rust value is not an object of the model, so information a type
might hold without writing it (a non-injective `Serialize`) is invisible to this theorem; on the
implementation that part is sampled by the T3 oracle of `c18.content`, which compares the `Debug`
rendering of the first and the re-read typed value. -/
theorem roundtrip_fixpoint (s : Schema) (hs : WF s) (j t : JVal) (h : project s j = some t) :
    project s t = some t :=
  project_idem s hs j t h

/-- Hence `ser ∘ deser` is idempotent on JSON: a second round trip changes nothing and fails never. -/
theorem ser_deser_idempotent (s : Schema) (hs : WF s) (j : JVal) :
    (project s j).bind (project s) = project s j := by
  cases h : project s j with
  | none => rfl
  | some t => exact project_idem s hs j t h

/-! ## Valid JSON without duplicate keys -/

/-- **Every object of the output, at every depth, has pairwise distinct keys** — whatever the input
was (duplicate keys in the input either fail the content or are resolved). For every well-formed
schema (`WF s`). -/
theorem ser_no_duplicate_keys (s : Schema) (hs : WF s) (j t : JVal) (h : project s j = some t) :
    NoDupKeys t :=
  project_noDup s hs j t h

/-! ## Values that were present -/

/-- Full-strength reading of "changes no value that was present", one struct level: a field the
struct knows, given once with a value `v` of the field's type, is in the output with the value
`nv` the field's type makes of `v`. FALSE as it stands, because a serialiser may leave a field out
when it holds its default (`skip_serializing_if`): see `present_values_preserved_partial` and the
witness below. -/
def PresentValuesPreservedStatement : Prop :=
  ∀ (fields : List Field) (keep : Bool) (o : Obj) (t : JVal) (f : Field) (v nv : JVal),
    Distinct fields → project (.obj fields keep) (.obj o) = some t → f ∈ fields → f.ghost = false →
    f.look o = .one v → (f.nullAbsent && isNull v) = false → project f.schema v = some nv →
    ∃ o', t = .obj o' ∧ (f.name, nv) ∈ o'

/-- **A known field that is present (once, not a `null` that the field reads as absence) with a value
of its type is either written with the value its type makes of it, or — exactly when the serialiser
skips that value — not written at all; it is never written with another value.** What "the value
its type makes of it" is: `present_leaf_verbatim` (scalars that are written back as read),
recursively this same theorem for structs, `roundtrip_fixpoint` in general (re-reading `nv` gives
`nv`). -/
theorem present_values_preserved_partial (fields : List Field) (keep : Bool) (o : Obj) (t : JVal)
    (f : Field) (v nv : JVal) (hd : Distinct fields)
    (h : project (.obj fields keep) (.obj o) = some t) (hf : f ∈ fields) (hg : f.ghost = false)
    (hl : f.look o = .one v) (hna : (f.nullAbsent && isNull v) = false)
    (hp : project f.schema v = some nv) :
    ∃ o', t = .obj o' ∧ (f.skip nv = false → (f.name, nv) ∈ o') ∧
      (f.skip nv = true → ∀ e ∈ o', e.1 ≠ f.name) :=
  obj_preserves hd h hf hg hl hna hp

/-- A scalar type that writes back what it read (`Verbatim`) leaves the value as it was. This only
spells out the definition of `Verbatim`; WHICH scalar types of the modelled content types are
`Verbatim` is `leaves_verbatim` below. -/
theorem present_leaf_verbatim (norm : JVal → Option JVal) (hv : Verbatim norm) (v nv : JVal)
    (h : project (.scalar norm) v = some nv) : nv = v :=
  scalar_verbatim hv h

/-- **Every scalar type that occurs in a modelled content type** (`Leaf`: `String`, `Int`, `UInt`,
`bool`, `VoipVersionId`, the identifier types, string enums and constants) **except `Base64`
(re-encodes without padding), `f64` (an integer is written as a float) and the lenient power-level
reader (a decimal string is written as the number) writes back exactly the scalar it read.** -/
theorem leaves_verbatim (l : Leaf) (h1 : l ≠ .base64) (h2 : l ≠ .float) (h3 : l ≠ .intLax) (v nv : JVal)
    (h : project l.schema v = some nv) : nv = v := by
  obtain ⟨norm, hs, hv⟩ := leaf_verbatim l h1 h2 h3
  rw [hs] at h
  exact scalar_verbatim hv h

/-- **Every scalar type that occurs meets the scalar clauses of `WF`**: what it writes back it reads
back unchanged, and it writes `null` only for `null` — `Base64` (decode, clear trailing bits, re-encode
unpadded) included, without a shape hypothesis; stated for the names the harness uses (`leafOf`). -/
theorem leaves_well_formed (n : String) (s : Schema) (h : leafOf n = some s) :
    WF s ∧ ∃ norm, s = .scalar norm ∧ (∀ a b, norm a = some b → norm b = some b) ∧
      (∀ a, norm a = some .null → a = .null) :=
  leafOf_wf n s h

/-- **The total check `wfb` decides the side condition**: a description on which it evaluates to
`true` denotes a well-formed schema (all clauses of `WF`, `TagFixed` included). -/
theorem wfb_decides_wf (d : Desc) (h : wfb d = true) : WF d.toSchema :=
  wfb_sound d h

theorem str_verbatim_of (norm : Str → Option Str) (h : ∀ a b, norm a = some b → b = a) (v nv : JVal)
    (hp : project (Schema.str norm) v = some nv) : nv = v := by
  apply scalar_verbatim (norm := _) _ hp
  intro a b hab
  cases a <;> simp only [reduceCtorEq] at hab
  rename_i x
  cases hx : norm x with
  | none => rw [hx] at hab; cases hab
  | some y => rw [hx] at hab; simp only [Option.some.injEq] at hab; rw [← hab, h x y hx]

theorem int_verbatim (lo hi : Int) (v nv : JVal) (hp : project (Schema.int lo hi) v = some nv) : nv = v := by
  apply scalar_verbatim (norm := _) _ hp
  intro a b hab
  cases a <;> simp only [reduceCtorEq] at hab
  split at hab <;> simp at hab
  exact hab.symm

theorem bool_verbatim (v nv : JVal) (hp : project Schema.bool v = some nv) : nv = v := by
  apply scalar_verbatim (norm := _) _ hp
  intro a b hab
  cases a <;> simp only [reduceCtorEq] at hab
  cases hab; rfl

/-! ## Key order -/

/-- **The result does not depend on the input's key order**: reordering the entries of any objects
of the input, at any depth, changes neither acceptance nor the output — FOR INPUTS WHOSE REORDERED
OBJECTS HAVE DISTINCT KEYS (`Shuffled`, the relation of C01, carries `(Obj.keys kvs).Nodup` for every
object it reorders: with a duplicated key the order decides which duplicate is reported or kept).
No hypothesis on the schema. -/
theorem key_order_independent (s : Schema) (j j' : JVal) (h : Shuffled j j') :
    project s j = project s j' :=
  shuffled_project s j j' h

/-! ## Unknown extra fields -/

/-- **Unknown extra fields never cause failure and do not change the output**: if two inputs agree,
wherever the schema has a struct, on the entries whose keys spell a field of that struct (`Ext`;
at any depth, through arrays, maps, optional values and tagged choices), then both are accepted or
both rejected and the outputs are equal — however many other entries were added, removed, duplicated
or changed, and wherever they stand. (For a struct that KEEPS unknown keys the relation asks those
to be the same; adding some is `unknown_fields_never_fail_catch_all`.) No hypothesis on the schema. -/
theorem unknown_fields_never_fail (s : Schema) (j j' : JVal) (h : Ext s j j') :
    project s j = project s j' :=
  ext_project h

/-- A struct with a catch-all (`#[serde(flatten)]` map) accepts or rejects by its known entries alone:
adding unknown keys never turns success into failure. -/
theorem unknown_fields_never_fail_catch_all (fields : List Field) (keep : Bool) (o o' : Obj)
    (h : o.filter (fun e => known fields e.1) = o'.filter (fun e => known fields e.1)) :
    (project (.obj fields keep) (.obj o)).isSome = (project (.obj fields keep) (.obj o')).isSome :=
  obj_accepts_known_only h

/-- **A struct with a catch-all keeps an unknown key as its `serde_json::Value`**: a key no field
claims, given once, is in the output with `serdeValue v` — the value given, with the entries of every
object inside it sorted by key and deduplicated (last wins), as `serde_json::Map` (a `BTreeMap`)
holds them; equal to `v` itself exactly when `v` is already in that form. -/
theorem catch_all_keeps_unknown (fields : List Field) (o : Obj) (t : JVal) (k : Str) (v : JVal)
    (h : project (.obj fields true) (.obj o) = some t) (hk : known fields k = false)
    (hone : o.filter (fun e => e.1 == k) = [(k, v)]) :
    ∃ o', t = .obj o' ∧ (k, serdeValue v) ∈ o' :=
  catch_all_keeps fields o t k v h hk hone

/-! ## Non-vacuity: realistic schemas -/

namespace Examples

def anyStr : Schema := Schema.str (fun s => some s)
def const (c : String) : Schema := Schema.str (fun s => if s = bs c then some s else none)
def js : Schema := Schema.int (-maxInt) maxInt
def noSkip : JVal → Bool := fun _ => false
/-- `Int` through `deserialize_v1_powerlevel`; strings are not needed for these examples. -/
def pl : Schema := Schema.intLax (-maxInt) maxInt (fun s => if s = bs "50" then some 50 else none)

def req (name : String) (s : Schema) : Field := .mk (bs name) [] s true none false false noSkip false
/-- `Option<T>` with `skip_serializing_if = "Option::is_none"`. -/
def opt (name : String) (s : Schema) : Field := .mk (bs name) [] s false none true false noSkip false
/-- `#[serde(default, skip_serializing_if = "is_default")]` with the given default. -/
def dfl (name : String) (s : Schema) (isDefault : JVal → Bool) : Field :=
  .mk (bs name) [] s false none false false isDefault false

def is50 : JVal → Bool
  | .int 50 => true
  | _ => false
def is0 : JVal → Bool
  | .int 0 => true
  | _ => false
def isEmptyObj : JVal → Bool
  | .obj [] => true
  | _ => false

/-- `m.room.message`, `msgtype: m.text` (`TextMessageEventContent` under its tag). -/
def text : Schema :=
  .obj [req "msgtype" (const "m.text"), req "body" anyStr, opt "format" anyStr, opt "formatted_body" anyStr] false

/-- `m.room.power_levels` (`RoomPowerLevelsEventContent`). -/
def powerLevels : Schema :=
  .obj [dfl "ban" pl is50, dfl "events" (.map (fun _ => true) pl) isEmptyObj, dfl "events_default" pl is0,
        dfl "invite" pl is0, dfl "kick" pl is50,
        dfl "notifications" (.obj [dfl "room" pl is50] false) isEmptyObj,
        dfl "redact" pl is50, dfl "state_default" pl is50,
        dfl "users" (.map (fun _ => true) pl) isEmptyObj, dfl "users_default" pl is0] false

/-- `m.room.member` (`RoomMemberEventContent`). -/
def member : Schema :=
  .obj [opt "avatar_url" anyStr, opt "displayname" anyStr, opt "is_direct" Schema.bool,
        req "membership" anyStr,
        opt "third_party_invite" (.obj [req "display_name" anyStr,
          req "signed" (.obj [req "mxid" anyStr, req "signatures" (.map (fun _ => true) (.map (fun _ => true) anyStr)),
                              req "token" anyStr] false)] false),
        opt "reason" anyStr, opt "join_authorised_via_users_server" anyStr] false

theorem wf_anyStr : WF anyStr := wf_str (fun _ _ _ => rfl)
theorem wf_const (c : String) : WF (const c) := wf_str (fun a b h => by
  by_cases hc : a = bs c
  · simp only [hc, if_true, Option.some.injEq] at h ⊢; subst h; simp
  · simp [hc] at h)
theorem wf_pl : WF pl := wf_intLax _ _ _

theorem ok_req (n : String) (s : Schema) : (req n s).Ok := field_ok_plain (fun _ => rfl) rfl
theorem ok_opt (n : String) (s : Schema) : (opt n s).Ok := field_ok_plain (fun _ => rfl) rfl
theorem ok_dfl (n : String) (s : Schema) (d : JVal → Bool) : (dfl n s d).Ok :=
  ⟨fun h => by simp [dfl, Field.req, Field.dflt] at h, fun d h => by simp [dfl, Field.dflt] at h⟩

theorem wf_text : WF text := by
  refine .obj ?_ ?_ (by decide) (by intro h; cases h)
  · intro f hf
    simp only [List.mem_cons, List.mem_nil_iff, or_false] at hf
    rcases hf with rfl | rfl | rfl | rfl
    · exact wf_const _
    all_goals exact wf_anyStr
  · intro f hf
    simp only [List.mem_cons, List.mem_nil_iff, or_false] at hf
    rcases hf with rfl | rfl | rfl | rfl
    · exact ok_req _ _
    · exact ok_req _ _
    · exact ok_opt _ _
    · exact ok_opt _ _

theorem wf_powerLevels : WF powerLevels := by
  have hn : WF (.obj [dfl "room" pl is50] false) := by
    refine .obj ?_ ?_ (by decide) (by intro h; cases h)
    · intro f hf
      simp only [List.mem_cons, List.mem_nil_iff, or_false] at hf
      subst hf; exact wf_pl
    · intro f hf
      simp only [List.mem_cons, List.mem_nil_iff, or_false] at hf
      subst hf; exact ok_dfl _ _ _
  refine .obj ?_ ?_ (by decide) (by intro h; cases h)
  · intro f hf
    simp only [List.mem_cons, List.mem_nil_iff, or_false] at hf
    rcases hf with rfl | rfl | rfl | rfl | rfl | rfl | rfl | rfl | rfl | rfl
    · exact wf_pl
    · exact .map wf_pl
    · exact wf_pl
    · exact wf_pl
    · exact wf_pl
    · exact hn
    · exact wf_pl
    · exact wf_pl
    · exact .map wf_pl
    · exact wf_pl
  · intro f hf
    simp only [List.mem_cons, List.mem_nil_iff, or_false] at hf
    rcases hf with rfl | rfl | rfl | rfl | rfl | rfl | rfl | rfl | rfl | rfl <;> exact ok_dfl _ _ _

theorem wf_member : WF member := by
  have hsigned : WF (.obj [req "mxid" anyStr, req "signatures" (.map (fun _ => true) (.map (fun _ => true) anyStr)),
      req "token" anyStr] false) := by
    refine .obj ?_ ?_ (by decide) (by intro h; cases h)
    · intro f hf
      simp only [List.mem_cons, List.mem_nil_iff, or_false] at hf
      rcases hf with rfl | rfl | rfl
      · exact wf_anyStr
      · exact .map (.map wf_anyStr)
      · exact wf_anyStr
    · intro f hf
      simp only [List.mem_cons, List.mem_nil_iff, or_false] at hf
      rcases hf with rfl | rfl | rfl <;> exact ok_req _ _
  have htpi : WF (.obj [req "display_name" anyStr, req "signed" (.obj [req "mxid" anyStr,
      req "signatures" (.map (fun _ => true) (.map (fun _ => true) anyStr)), req "token" anyStr] false)] false) := by
    refine .obj ?_ ?_ (by decide) (by intro h; cases h)
    · intro f hf
      simp only [List.mem_cons, List.mem_nil_iff, or_false] at hf
      rcases hf with rfl | rfl
      · exact wf_anyStr
      · exact hsigned
    · intro f hf
      simp only [List.mem_cons, List.mem_nil_iff, or_false] at hf
      rcases hf with rfl | rfl <;> exact ok_req _ _
  refine .obj ?_ ?_ (by decide) (by intro h; cases h)
  · intro f hf
    simp only [List.mem_cons, List.mem_nil_iff, or_false] at hf
    rcases hf with rfl | rfl | rfl | rfl | rfl | rfl | rfl
    · exact wf_anyStr
    · exact wf_anyStr
    · exact wf_bool
    · exact wf_anyStr
    · exact htpi
    · exact wf_anyStr
    · exact wf_anyStr
  · intro f hf
    simp only [List.mem_cons, List.mem_nil_iff, or_false] at hf
    rcases hf with rfl | rfl | rfl | rfl | rfl | rfl | rfl
    · exact ok_opt _ _
    · exact ok_opt _ _
    · exact ok_opt _ _
    · exact ok_req _ _
    · exact ok_opt _ _
    · exact ok_opt _ _
    · exact ok_opt _ _

/-- A text message with an unknown key, keys out of declaration order: read, the unknown key dropped,
the fields written in declaration order; the output is its own fixpoint. -/
example : project text (.obj [(bs "zz.extra", .arr [.null]), (bs "body", .str (bs "hi")), (bs "msgtype", .str (bs "m.text"))])
    = some (.obj [(bs "msgtype", .str (bs "m.text")), (bs "body", .str (bs "hi"))]) := by rfl
example : project text (.obj [(bs "msgtype", .str (bs "m.text")), (bs "body", .str (bs "hi"))])
    = some (.obj [(bs "msgtype", .str (bs "m.text")), (bs "body", .str (bs "hi"))]) :=
  roundtrip_fixpoint text wf_text
    (.obj [(bs "zz.extra", .arr [.null]), (bs "body", .str (bs "hi")), (bs "msgtype", .str (bs "m.text"))]) _ (by rfl)
/-- A duplicated known key fails the content; a wrong `msgtype` fails it. -/
example : project text (.obj [(bs "body", .str (bs "a")), (bs "msgtype", .str (bs "m.text")), (bs "body", .str (bs "b"))]) = none := by rfl
example : project text (.obj [(bs "body", .str (bs "a")), (bs "msgtype", .str (bs "m.emote"))]) = none := by rfl

/-- Power levels: defaults are left out on output, non-defaults kept, the string `"50"` is read as 50,
the `users` map comes out in key order; a later duplicate inside the map wins. -/
example : project powerLevels (.obj [(bs "users", .obj [(bs "@b:x", .int 100), (bs "@a:x", .int 1), (bs "@b:x", .int 7)]),
      (bs "ban", .int 50), (bs "kick", .str (bs "50")), (bs "invite", .int 50), (bs "notifications", .obj [(bs "room", .int 50)])])
    = some (.obj [(bs "invite", .int 50), (bs "users", .obj [(bs "@a:x", .int 1), (bs "@b:x", .int 7)])]) := by rfl
example : NoDupKeys (.obj [(bs "invite", .int 50), (bs "users", .obj [(bs "@a:x", .int 1), (bs "@b:x", .int 7)])]) :=
  ser_no_duplicate_keys powerLevels wf_powerLevels
    (.obj [(bs "users", .obj [(bs "@b:x", .int 100), (bs "@a:x", .int 1), (bs "@b:x", .int 7)]), (bs "invite", .int 50)]) _ (by rfl)

/-- **Witness against `PresentValuesPreservedStatement`**: `{"ban": 50}` is a known field, present,
of the field's type — and the output is `{}` (the real `RoomPowerLevelsEventContent` does the same:
`skip_serializing_if = "is_default_power_level"`; replayed by `corpus/C18/schema-witnesses.req`). -/
example : project powerLevels (.obj [(bs "ban", .int 50)]) = some (.obj []) := by rfl

theorem presentValuesPreservedStatement_false : ¬ PresentValuesPreservedStatement := by
  intro h
  obtain ⟨o', h1, h2⟩ := h [dfl "ban" pl is50] false [(bs "ban", .int 50)] (.obj [])
    (dfl "ban" pl is50) (.int 50) (.int 50) (by decide) (by rfl) (List.mem_cons_self ..) rfl (by rfl) (by rfl) (by rfl)
  simp only [JVal.obj.injEq] at h1
  subst h1
  cases h2

/-- The leaf kinds that are not `Verbatim`: the lenient power-level reader writes the number. -/
example : project pl (.str (bs "50")) = some (.int 50) := by rfl

/-- Member: `displayname: null` is read as absent (and left out), the nested struct keeps its fields,
unknown keys at both levels vanish. -/
example : project member (.obj [(bs "membership", .str (bs "invite")), (bs "displayname", .null), (bs "x", .int 1),
      (bs "third_party_invite", .obj [(bs "signed", .obj [(bs "token", .str (bs "t")), (bs "mxid", .str (bs "@a:b")),
          (bs "signatures", .obj [(bs "b", .obj [(bs "ed25519:1", .str (bs "sig"))])]), (bs "y", .null)]),
        (bs "display_name", .str (bs "A"))])])
    = some (.obj [(bs "membership", .str (bs "invite")),
      (bs "third_party_invite", .obj [(bs "display_name", .str (bs "A")),
        (bs "signed", .obj [(bs "mxid", .str (bs "@a:b")), (bs "signatures", .obj [(bs "b", .obj [(bs "ed25519:1", .str (bs "sig"))])]),
          (bs "token", .str (bs "t"))])])]) := by rfl

/-- A struct with a catch-all (`CustomEventContent`-like): the unknown key is kept, as a map. -/
example : project (.obj [req "body" anyStr] true)
      (.obj [(bs "x", .obj [(bs "b", .int 1), (bs "a", .null), (bs "b", .int 2)]), (bs "body", .str (bs "hi"))])
    = some (.obj [(bs "body", .str (bs "hi")), (bs "x", .obj [(bs "a", .null), (bs "b", .int 2)])]) := by rfl

/-- Key order, two levels deep (the hypothesis of `key_order_independent` is satisfiable). -/
example : Shuffled
    (.obj [(bs "membership", .str (bs "join")), (bs "third_party_invite", .obj [(bs "a", .null), (bs "b", .null)])])
    (.obj [(bs "third_party_invite", .obj [(bs "b", .null), (bs "a", .null)]), (bs "membership", .str (bs "join"))]) := by
  refine .obj (mid := [(bs "membership", .str (bs "join")), (bs "third_party_invite", .obj [(bs "b", .null), (bs "a", .null)])])
    (.cons (.atom _) (.cons (.obj (mid := [(bs "a", .null), (bs "b", .null)])
      (.cons (.atom _) (.cons (.atom _) .nil)) (List.Perm.swap ..) (by decide)) .nil)) (List.Perm.swap ..) (by decide)

/-- Unknown fields, two levels deep (the hypothesis of `unknown_fields_never_fail` is satisfiable):
an unknown key at the top and one inside `third_party_invite.signed`. -/
example : Ext member
    (.obj [(bs "membership", .str (bs "join")), (bs "reason", .str (bs "r"))])
    (.obj [(bs "zz", .int 1), (bs "membership", .str (bs "join")), (bs "zz", .null), (bs "reason", .str (bs "r"))]) :=
  .obj (.cons (fun _ _ _ => .refl _ _) (.cons (fun _ _ _ => .refl _ _) (.nil _))) (fun h => by cases h)

/-- `wfb` is not vacuous: it accepts a realistic struct and rejects each kind of ill-formed one —
a required field with a skip predicate (the counterexample to the fixpoint), two fields with one
spelling, a default the field cannot read, a tagged case that does not write its tag, a
serialise-only constant next to a catch-all. -/
example : wfb (.obj [.mk (bs "a") [] (.leaf .str) true none false false [] false,
    .mk (bs "b") [bs "bb"] (.leaf .uint) false (some (.int 0)) false false [] false] false) = true := by decide
example : wfb (.obj [.mk (bs "a") [] (.leaf .str) true none false false [.str (bs "x")] false] false) = false := by decide
example : wfb (.obj [.mk (bs "a") [] (.leaf .str) true none false false [] false,
    .mk (bs "b") [bs "a"] (.leaf .str) true none false false [] false] false) = false := by decide
example : wfb (.obj [.mk (bs "b") [] (.leaf .uint) false (some (.int (-1))) false false [] false] false) = false := by decide
example : wfb (.tagged (bs "t") [.mk (bs "x") (.obj [.mk (bs "t") [] (.leaf (.const (bs "x"))) true none false false [] false] false)]) = true := by decide
example : wfb (.tagged (bs "t") [.mk (bs "x") (.obj [.mk (bs "t") [] (.leaf .str) true none false false [] false] false)]) = false := by decide
example : wfb (.obj [.mk (bs "rel_type") [] (.leaf .str) false (some (.str (bs "m.x"))) true true [] true] true) = false := by decide
/-- The model is tidier than serde on that last combination, which is why `WF` excludes it: the model
drops the input's `rel_type`, serde would also collect it into the flatten map and write the key twice. -/
example : project (Desc.toSchema (.obj [.mk (bs "rel_type") [] (.leaf .str) false (some (.str (bs "m.x"))) true true [] true] true))
    (.obj [(bs "rel_type", .str (bs "zzz")), (bs "u", .int 1)])
    = some (.obj [(bs "rel_type", .str (bs "m.x")), (bs "u", .int 1)]) := by rfl
/-- `Base64`: padding and trailing bits are dropped, and the result is read back unchanged. -/
example : base64Norm (bs "YWJ=") = some (bs "YWI") := by decide
example : base64Norm (bs "YWI") = some (bs "YWI") := by decide

end Examples

#print axioms roundtrip_fixpoint
#print axioms ser_deser_idempotent
#print axioms ser_no_duplicate_keys
#print axioms present_values_preserved_partial
#print axioms present_leaf_verbatim
#print axioms key_order_independent
#print axioms unknown_fields_never_fail
#print axioms unknown_fields_never_fail_catch_all
#print axioms catch_all_keeps_unknown
#print axioms Examples.presentValuesPreservedStatement_false
#print axioms Examples.wf_powerLevels
#print axioms Examples.wf_member

end Ruma.Props.C18Schema
