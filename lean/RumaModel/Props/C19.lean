/-
  C19 — String-valued protocol enums are lossless and forward compatible.
  Property theorems only; helper lemmas live in `Lemmas/StringEnum.lean`.

  Reading guide. A `Table` is the list of known variants of one enum (spelling, declared aliases,
  wildcard flag). `fromStr tbl s` is the model of `From<&str>` (first matching arm, else the hidden
  custom variant), `asStr` of `as_str`/`Display`, `cmpVal` of the string-based `Ord`, `serialize` /
  `deserialize` of the serde impls (`Model/StringEnum.lean`). `Denotes`, `written`, `canon`,
  `Aliased`, `strLt` are the specification (`Spec/StringEnum.lean`, part 1); `all` lists the
  specified spellings of the 80 covered enums (part 2). `Generated.C19.tables` are the tables
  extracted from the running implementation on this run (T1). `WF tbl`: spellings pairwise distinct,
  aliases disjoint from spellings and from each other, wildcard prefixes not prefixes of fixed
  strings or of each other.
-/
import RumaModel.Lemmas.StringEnum
import RumaModel.Generated.C19
namespace Ruma.Props.C19
open Ruma Ruma.StringEnum Ruma.Spec.StringEnum

/-! ### The generic derive semantics, for every well-formed table -/

/-- The conversion never rejects and returns a value the specification says the string denotes:
a specified spelling or alias gives its dedicated variant, a wildcard prefix gives the wildcard
variant with the suffix, anything else is kept verbatim in the custom variant. (No hypothesis.) -/
theorem fromStr_denotes (tbl : Table) (s : Str) : Denotes tbl s (fromStr tbl s) :=
  fromStr_denotes' tbl s

/-- On a well-formed table the order of the match arms is irrelevant: the conversion is the unique
value the string denotes. -/
theorem fromStr_unique {tbl : Table} (h : WF tbl) {s : Str} {v : Val} (hv : Denotes tbl s v) :
    fromStr tbl s = v :=
  fromStr_eq_of_denotes h hv

/-- `as_str` is the specification's written form. -/
theorem asStr_eq_written (v : Val) : asStr v = written v := by cases v <;> rfl

/-- What `canon` computes: an alias goes to the spelling of its variant, an alias prefix of a
wildcard type to the canonical prefix with the suffix kept, and a string that is not aliased is
left alone. (No hypothesis.) -/
theorem canon_spec (tbl : Table) (s : Str) :
    (∃ r ∈ tbl, r.wildcard = false ∧ s ∈ r.aliases ∧ canon tbl s = r.spelling) ∨
    (∃ r ∈ tbl, r.wildcard = true ∧ ∃ p ∈ r.aliases, ∃ suf, s = p ++ suf ∧
        canon tbl s = r.spelling ++ suf) ∨
    (¬ Aliased tbl s ∧ canon tbl s = s) := by
  induction tbl with
  | nil => exact Or.inr (Or.inr ⟨by simp [Aliased], rfl⟩)
  | cons r t ih =>
    unfold canon
    by_cases hw : r.wildcard = true
    · rw [if_pos hw]
      cases hf : r.aliases.find? (fun p => p.isPrefixOf s) with
      | some p =>
        have hp := List.find?_some hf
        have hm := List.mem_of_find?_eq_some hf
        have hpre := List.isPrefixOf_iff_prefix.mp hp
        exact Or.inr (Or.inl ⟨r, List.mem_cons_self, hw, p, hm, s.drop p.length,
          (List.prefix_iff_eq_append.mp hpre).symm, rfl⟩)
      | none =>
        have hn : ∀ p ∈ r.aliases, ¬ p <+: s := fun p hp hpre =>
          by simpa [List.isPrefixOf_iff_prefix.mpr hpre] using List.find?_eq_none.mp hf p hp
        rcases ih with ⟨r', hr', h⟩ | ⟨r', hr', h⟩ | ⟨hna, hc⟩
        · exact Or.inl ⟨r', List.mem_cons_of_mem _ hr', h⟩
        · exact Or.inr (Or.inl ⟨r', List.mem_cons_of_mem _ hr', h⟩)
        · refine Or.inr (Or.inr ⟨?_, hc⟩)
          rintro (⟨r', hr', hf', hs'⟩ | ⟨r', hr', hw', p, hp, hpre⟩)
          · rcases List.mem_cons.mp hr' with rfl | hr'
            · rw [hw] at hf'; cases hf'
            · exact hna (Or.inl ⟨r', hr', hf', hs'⟩)
          · rcases List.mem_cons.mp hr' with rfl | hr'
            · exact hn p hp hpre
            · exact hna (Or.inr ⟨r', hr', hw', p, hp, hpre⟩)
    · rw [if_neg hw]
      have hwf : r.wildcard = false := by simpa using hw
      by_cases hc : r.aliases.contains s = true
      · rw [if_pos hc]
        exact Or.inl ⟨r, List.mem_cons_self, hwf, List.contains_iff_mem.mp hc, rfl⟩
      · rw [if_neg hc]
        have hns : s ∉ r.aliases := fun h => hc (List.contains_iff_mem.mpr h)
        rcases ih with ⟨r', hr', h⟩ | ⟨r', hr', h⟩ | ⟨hna, hcn⟩
        · exact Or.inl ⟨r', List.mem_cons_of_mem _ hr', h⟩
        · exact Or.inr (Or.inl ⟨r', List.mem_cons_of_mem _ hr', h⟩)
        · refine Or.inr (Or.inr ⟨?_, hcn⟩)
          rintro (⟨r', hr', hf', hs'⟩ | ⟨r', hr', hw', p, hp, hpre⟩)
          · rcases List.mem_cons.mp hr' with rfl | hr'
            · exact hns hs'
            · exact hna (Or.inl ⟨r', hr', hf', hs'⟩)
          · rcases List.mem_cons.mp hr' with rfl | hr'
            · exact absurd hw' hw
            · exact hna (Or.inr ⟨r', hr', hw', p, hp, hpre⟩)

/-- **Lossless.** String → enum → string returns the canonical form of the string: a declared
alias becomes the canonical spelling, every other string comes back unchanged. -/
theorem asStr_fromStr_eq_canon {tbl : Table} (h : WF tbl) (s : Str) :
    asStr (fromStr tbl s) = canon tbl s := by
  rcases canon_spec tbl s with ⟨r, hr, hf, hs, hc⟩ | ⟨r, hr, hw, p, hp, suf, e, hc⟩ | ⟨hna, hc⟩
  · rw [fromStr_unique h (Denotes.unit r hr hf (Or.inr hs)), hc]; rfl
  · rw [fromStr_unique h (Denotes.frag r p suf hr hw (Or.inr hp) e), hc]; rfl
  · rw [hc]
    cases hd : fromStr tbl s with
    | unit r =>
      have := fromStr_denotes tbl s; rw [hd] at this
      cases this with
      | unit _ hr hf hs =>
        rcases hs with hs | hs
        · exact hs.symm
        · exact absurd (Or.inl ⟨r, hr, hf, hs⟩) hna
    | frag r suf =>
      have := fromStr_denotes tbl s; rw [hd] at this
      cases this with
      | frag _ p _ hr hw hp e =>
        rcases hp with hp | hp
        · rw [e, hp]; rfl
        · exact absurd (Or.inr ⟨r, hr, hw, p, hp, e ▸ List.prefix_append p suf⟩) hna
    | custom s' =>
      have := fromStr_denotes tbl s; rw [hd] at this
      cases this with
      | custom _ _ => rfl

/-- **Forward compatible.** A string that is not a declared alias — in particular every string the
specification does not know yet — survives the round trip exactly. -/
theorem roundtrip_identity {tbl : Table} (h : WF tbl) {s : Str} (hs : ¬ Aliased tbl s) :
    asStr (fromStr tbl s) = s := by
  rw [asStr_fromStr_eq_canon h]
  rcases canon_spec tbl s with ⟨r, hr, hf, hm, _⟩ | ⟨r, hr, hw, p, hp, suf, e, _⟩ | ⟨_, hc⟩
  · exact absurd (Or.inl ⟨r, hr, hf, hm⟩) hs
  · exact absurd (Or.inr ⟨r, hr, hw, p, hp, e ▸ List.prefix_append p suf⟩) hs
  · exact hc

/-- **Dedicated variants.** Each specified spelling, and each declared alias, converts to the
variant of its own row — never to the custom variant, never to another row's variant — and two
different rows' spellings give different values. -/
theorem fromStr_spelling_dedicated {tbl : Table} (h : WF tbl) {r : Row} (hr : r ∈ tbl)
    (hf : r.wildcard = false) :
    fromStr tbl r.spelling = .unit r ∧ (∀ a ∈ r.aliases, fromStr tbl a = .unit r) ∧
    (∀ r' ∈ tbl, r'.wildcard = false → fromStr tbl r'.spelling = fromStr tbl r.spelling → r' = r) := by
  refine ⟨fromStr_unique h (Denotes.unit r hr hf (Or.inl rfl)),
    fun a ha => fromStr_unique h (Denotes.unit r hr hf (Or.inr ha)), fun r' hr' hf' e => ?_⟩
  rw [fromStr_unique h (Denotes.unit r hr hf (Or.inl rfl)),
    fromStr_unique h (Denotes.unit r' hr' hf' (Or.inl rfl))] at e
  injection e

/-- **Idempotent.** Converting the string form of a converted value gives the same value. -/
theorem fromStr_idempotent {tbl : Table} (h : WF tbl) (s : Str) :
    fromStr tbl (asStr (fromStr tbl s)) = fromStr tbl s := by
  have hd := fromStr_denotes tbl s
  cases hv : fromStr tbl s with
  | unit r =>
    rw [hv] at hd
    cases hd with
    | unit _ hr hf _ => exact fromStr_unique h (Denotes.unit r hr hf (Or.inl rfl))
  | frag r suf =>
    rw [hv] at hd
    cases hd with
    | frag _ p _ hr hw _ _ => exact fromStr_unique h (Denotes.frag r r.spelling suf hr hw (Or.inl rfl) rfl)
  | custom s' =>
    rw [hv] at hd
    cases hd with
    | custom h1 h2 => exact fromStr_unique h (Denotes.custom h1 h2)

/-- **Equality agrees with the string form.** For converted values, structural equality (the std
`PartialEq` derive), string equality (`PartialEqAsRefStr`) and equality of the written strings are
the same relation. -/
theorem eq_iff_str_eq {tbl : Table} (h : WF tbl) (s t : Str) :
    (fromStr tbl s = fromStr tbl t ↔ asStr (fromStr tbl s) = asStr (fromStr tbl t)) ∧
    (eqAsRef (fromStr tbl s) (fromStr tbl t) = true ↔ fromStr tbl s = fromStr tbl t) := by
  have key : asStr (fromStr tbl s) = asStr (fromStr tbl t) → fromStr tbl s = fromStr tbl t := by
    intro e
    rw [← fromStr_idempotent h s, ← fromStr_idempotent h t, e]
  refine ⟨⟨fun e => by rw [e], key⟩, ?_⟩
  simp only [eqAsRef, beq_iff_eq]
  exact ⟨key, fun e => by rw [e]⟩

/-- **Ordering agrees with the string form** (the `PartialOrdAsRefStr`/`OrdAsRefStr` derives and the
event-type enums): `cmp` is `Less`/`Greater`/`Equal` exactly when the written strings are in byte
order / reverse order / equal; on converted values `Equal` coincides with equality of the values,
so `Ord` is consistent with `Eq`.
Reading note: the model's `cmpVal v w` is DEFINED as `cmpBytes (asStr v) (asStr w)` (the derive
expands to `self.as_ref().cmp(other.as_ref())`), so this theorem is a statement about `cmpBytes`
against the specification's `strLt`; that the real `Ord` impls order values like their strings is
carried by the T1 table `ord_agrees_with_strings` and the T2 comparison. -/
theorem ord_iff_str_ord (v w : Val) :
    (cmpVal v w = .lt ↔ strLt (asStr v) (asStr w)) ∧
    (cmpVal v w = .gt ↔ strLt (asStr w) (asStr v)) ∧
    (cmpVal v w = .eq ↔ asStr v = asStr w) ∧
    cmpVal w v = (cmpVal v w).swap :=
  ⟨cmpBytes_lt, cmpBytes_gt, cmpBytes_eq, cmpBytes_swap _ _⟩

/-- `Ord` is consistent with `Eq` on converted values. -/
theorem ord_eq_iff_eq {tbl : Table} (h : WF tbl) (s t : Str) :
    cmpVal (fromStr tbl s) (fromStr tbl t) = .eq ↔ fromStr tbl s = fromStr tbl t := by
  rw [(ord_iff_str_ord _ _).2.2.1, (eq_iff_str_eq h s t).1]

/-- **Wildcard types keep their suffix**: `prefix ++ suffix` converts to the wildcard variant
carrying exactly `suffix` (also through an alias prefix), and is written back as the canonical
prefix followed by the same suffix — for every suffix, the empty one included. -/
theorem wildcard_keeps_suffix {tbl : Table} (h : WF tbl) {r : Row} (hr : r ∈ tbl)
    (hw : r.wildcard = true) (suf : Str) :
    fromStr tbl (r.spelling ++ suf) = .frag r suf ∧
    asStr (fromStr tbl (r.spelling ++ suf)) = r.spelling ++ suf ∧
    (∀ p ∈ r.aliases, fromStr tbl (p ++ suf) = .frag r suf) := by
  have h1 := fromStr_unique h (Denotes.frag r r.spelling suf hr hw (Or.inl rfl) rfl)
  exact ⟨h1, by rw [h1]; rfl,
    fun p hp => fromStr_unique h (Denotes.frag r p suf hr hw (Or.inr hp) rfl)⟩

/-- **JSON agrees with string conversion** (as modelled: serde_json's string escaping and parsing
are outside the model): serialization is the JSON string of `as_str`; deserializing a JSON string
is `From`; anything but a string is an error; deserialize ∘ serialize is the identity on converted
values and serialize ∘ deserialize returns the canonical form. -/
theorem serde_agrees {tbl : Table} (h : WF tbl) (s : Str) :
    serialize (fromStr tbl s) = .str (canon tbl s) ∧
    deserialize tbl (.str s) = some (fromStr tbl s) ∧
    deserialize tbl (serialize (fromStr tbl s)) = some (fromStr tbl s) ∧
    (∀ j, (∀ x, j ≠ .str x) → deserialize tbl j = none) := by
  refine ⟨by rw [serialize, asStr_fromStr_eq_canon h], rfl, ?_, ?_⟩
  · simp only [serialize, deserialize, fromStr_idempotent h]
  · intro j hj
    cases j with
    | str x => exact absurd rfl (hj x)
    | _ => rfl

/-- **The custom variant never collides with a known one**: it holds exactly the input string, and
that string is neither a spelling nor an alias of any fixed row nor does it start with a wildcard
prefix — so no custom value is written like a known variant. (No hypothesis.) -/
theorem custom_never_collides (tbl : Table) (s s' : Str) (hc : fromStr tbl s = .custom s') :
    s' = s ∧
    (∀ r ∈ tbl, r.wildcard = false → s' ≠ r.spelling ∧ s' ∉ r.aliases) ∧
    (∀ r ∈ tbl, r.wildcard = true → ¬ r.spelling <+: s' ∧ ∀ p ∈ r.aliases, ¬ p <+: s') := by
  have hd := fromStr_denotes tbl s
  rw [hc] at hd
  cases hd with
  | custom h1 h2 =>
    exact ⟨rfl, fun r hr hf => ⟨fun e => h1 r hr hf (Or.inl e), fun e => h1 r hr hf (Or.inr e)⟩,
      fun r hr hw => ⟨h2 r hr hw _ (Or.inl rfl), fun p hp => h2 r hr hw p (Or.inr hp)⟩⟩

/-! ### The real enums (T1) -/

/-- The spec lists are well-formed (aliases name listed variants, wildcard patterns end in `.*`,
no variant listed twice). -/
theorem spec_entries_ok : ∀ e ∈ all, entriesOk e.entries [] = true := by decide +kernel

/-- T1: the table of every covered enum, as extracted from the running implementation on this run
(every specified spelling, every declared alias, every near-miss through the real `From<&str>`),
is exactly the table the specification describes: each specified spelling lands in its dedicated
variant, each declared alias in the variant it belongs to, each wildcard prefix in its wildcard
variant, and nothing else (no near-miss, no other rename-rule result) lands in a known variant. -/
theorem tables_eq_spec :
    Generated.C19.tables.map (fun e => (e.name, e.tbl)) = all.map (fun e => (e.name, e.table)) := by
  decide +kernel

/-- Every specified spelling is in the implementation's table with its dedicated variant
(the containment half of `tables_eq_spec`, stated entry by entry). -/
theorem tbl_has_spec_spellings :
    ∀ e ∈ all, ∃ g ∈ Generated.C19.tables, g.name = e.name ∧ ∀ ent ∈ e.entries, EntryIn g.tbl ent := by
  decide +kernel

/-- Every extracted table is well-formed, so all theorems above apply to every covered enum. -/
theorem tbl_wf : ∀ e ∈ Generated.C19.tables, WF e.tbl := by decide +kernel

/-- No covered enum orders its values differently from their string form: the harness compared
every pair of specified strings (and custom probes) both ways through the real `Ord`. -/
theorem ord_agrees_with_strings : ∀ e ∈ Generated.C19.tables, e.ord ≠ .structural := by
  decide +kernel

/-! ### Hypotheses are satisfiable; they are needed -/

/-- A non-trivial well-formed table: fixed rows, aliases and a wildcard row. -/
example : WF Generated.C19.tbl_GlobalAccountDataEventType ∧
    fromStr Generated.C19.tbl_GlobalAccountDataEventType (bs "m.image_pack") ≠ .custom (bs "m.image_pack") ∧
    asStr (fromStr Generated.C19.tbl_GlobalAccountDataEventType (bs "m.secret_storage.key.abc")) =
      bs "m.secret_storage.key.abc" := by
  decide +kernel

/-- Without well-formedness the conversion need not be idempotent: an alias of one row that is the
spelling of a later row. -/
example : ∃ tbl s, fromStr tbl (asStr (fromStr tbl s)) ≠ fromStr tbl s :=
  ⟨[⟨"A", bs "x", [bs "y"], false⟩, ⟨"B", bs "y", [bs "w"], false⟩], bs "w", by decide⟩

#print axioms fromStr_denotes
#print axioms fromStr_unique
#print axioms asStr_eq_written
#print axioms canon_spec
#print axioms asStr_fromStr_eq_canon
#print axioms roundtrip_identity
#print axioms fromStr_spelling_dedicated
#print axioms fromStr_idempotent
#print axioms eq_iff_str_eq
#print axioms ord_iff_str_ord
#print axioms ord_eq_iff_eq
#print axioms wildcard_keeps_suffix
#print axioms serde_agrees
#print axioms custom_never_collides
#print axioms spec_entries_ok
#print axioms tables_eq_spec
#print axioms tbl_has_spec_spellings
#print axioms tbl_wf
#print axioms ord_agrees_with_strings

end Ruma.Props.C19
