/-
  C05 — Content hash, reference hash and event IDs are the spec's functions of the event.
  Property theorems only; helper lemmas live in `Lemmas/Hash.lean`.

  Reading guide. `contentHash sha256 o` / `referenceHash sha256 r fmt o` are the models of
  `ruma_signatures::{content_hash, reference_hash}` (`Model/Hash.lean`); `sha256` is a PARAMETER of
  every theorem (the `sha2` crate is not ruma's code). `contentPreimage`, `referencePreimage`,
  `redacted`, `without`, `urlSafeFrom`, `eventIdFormat` are the spec side (`Spec/Hash.lean`),
  `rulesOf v` the redaction rules the spec implies for room version `v` (C04), `encodeObj`
  canonical JSON (C01). `specFormat` / `specAlphabet` turn the spec's per-version answers into the
  model's enums. Objects are association lists; `Obj.Sorted` is the `BTreeMap` invariant of
  `CanonicalJsonObject`.

  What is *not* proven (recorded assumptions, always explicit hypotheses, never axioms):
  * SHA-256 does not collide on the two inputs at hand (`covered_change_changes_*_hash`);
  * canonical-JSON encoding is injective on the two objects at hand (`EncInj`, hypothesis of the
    older `covered_change_changes_*_preimage` theorems). For canonical events this is C01's
    `encode_injective`, and the `*_canonical` corollaries below have no such hypothesis left.
-/
import RumaModel.Lemmas.Hash
import RumaModel.Lemmas.HashCanonical
import RumaModel.Spec.EventSign
import RumaModel.Generated.C05
namespace Ruma.Props.C05
open Ruma Ruma.Hash Ruma.Redact Ruma.Canonical Ruma.Spec.Redaction
open Ruma.Spec.CanonicalJson (IsCanonical)
open Ruma.Spec.Hash (without contentPreimage referencePreimage redacted maxPdu)

/-! ### T1: the per-version tables reached through `RoomVersionId::rules()` -/

/-- T1: `event_id_format` and the two `signatures` flags extracted on this run for versions 1–11 are
the spec's: `$id:server` IDs and event-ID-server check in v1–2, standard-base64 hash IDs in v3,
URL-safe from v4, authorising-server check from v8. -/
theorem format_table_eq_spec :
    Generated.C05.formatTable = versions.map (fun v =>
      (v, specFormat v, Spec.EventSign.checkEventIdServer v, Spec.EventSign.checkJoinAuthorised v)) := by
  decide

/-- T1: the redaction rules `reference_hash` receives (`rules.redaction` of the same
`RoomVersionRules`) are the spec's for versions 1–11. -/
theorem redaction_table_eq_spec :
    Generated.C05.redactionTable = versions.map (fun v => (v, rulesOf v)) := by decide

/-- **Alphabet by version**, on the extracted table: for every one of the eleven room versions the
alphabet `reference_hash` selects is the standard one up to version 3 and the URL-safe one from 4. -/
theorem alphabet_by_version :
    ∀ row ∈ Generated.C05.formatTable,
      alphabetOf row.2.1 = if row.1 ≤ 3 then Alphabet.standard else Alphabet.urlSafe := by decide

/-- The same for every version number, through the spec's format table: the code's `match` on the
event-ID format picks exactly the alphabet the spec names. -/
theorem alphabet_of_spec_format (v : Nat) : alphabetOf (specFormat v) = specAlphabet v := by
  unfold specFormat specAlphabet Spec.Hash.eventIdFormat Spec.Hash.urlSafeFrom
  by_cases h2 : v ≤ 2
  · have : ¬ 4 ≤ v := by omega
    simp [h2, this, alphabetOf]
  · by_cases h3 : v = 3
    · subst h3; simp [alphabetOf]
    · have : 4 ≤ v := by omega
      simp [h2, h3, this, alphabetOf]

/-! ### Definitional shape -/

/-- **Content hash**: for every object, the result is `PduSize` when the canonical JSON of the event
without `unsigned`, `signatures` and `hashes` is longer than 65 535 bytes, and the SHA-256 of exactly
those bytes otherwise. There is no other outcome. -/
theorem content_hash_def (sha256 : List Nat → List Nat) (o : Obj) :
    contentHash sha256 o =
      if (contentPreimage o).length > maxPdu then .error .pduSize
      else .ok (sha256 (contentPreimage o)) := by
  simp only [contentHash, canonicalWithout, removeFields_content, contentPreimage]
  rfl

/-- **Reference hash**: for every room version number `v`, every event (a `BTreeMap`, i.e. sorted)
that redacts successfully: the result is `PduSize` when the canonical JSON of the *spec's* redacted
event without `signatures` and `unsigned` is longer than 65 535 bytes, and otherwise the unpadded
base64 — standard alphabet up to v3, URL-safe from v4 — of the SHA-256 of exactly those bytes. -/
theorem reference_hash_def (sha256 : List Nat → List Nat) (v : Nat) (e res : Obj)
    (hs : Obj.Sorted e) (hred : redact (rulesOf v) e none = .ok res) :
    ∃ ty, Obj.get e (bs "type") = some (.str ty) ∧
      referenceHash sha256 (rulesOf v) (specFormat v) e =
        if (referencePreimage v ty e).length > maxPdu then .error .pduSize
        else .ok (b64 (specAlphabet v) (sha256 (referencePreimage v ty e))) := by
  obtain ⟨ty, hty, hres⟩ := redact_eq_spec v e res hs hred
  refine ⟨ty, hty, ?_⟩
  rw [referenceHash_eq_refTail, hred]
  subst hres
  simp only [Except.map, refTail, alphabet_of_spec_format]
  rfl

/-- When redaction fails (`type` missing or not a string, `content` not an object, malformed
`third_party_invite` under v11 rules — see C04 `redact_error_iff`) so does the reference hash, with
that error; it never fails in any other way except `PduSize`. -/
theorem reference_hash_error (sha256 : List Nat → List Nat) (r : Rules) (fmt : EventIdFormat)
    (e : Obj) (err : Redact.Err) (h : redact r e none = .error err) :
    referenceHash sha256 r fmt e = .error (.redact err) := by
  simp only [referenceHash, h]

/-! ### What the hashes ignore -/

/-- **Both hashes ignore `unsigned` and `signatures`**: two events that are equal once these two
keys are removed have the same content hash and, for every rules value and format, the same
reference hash (same value or same error). -/
theorem hash_ignores_unsigned_signatures (sha256 : List Nat → List Nat) (r : Rules)
    (fmt : EventIdFormat) (o o' : Obj)
    (h : without o [bs "signatures", bs "unsigned"] = without o' [bs "signatures", bs "unsigned"]) :
    contentHash sha256 o = contentHash sha256 o' ∧
      referenceHash sha256 r fmt o = referenceHash sha256 r fmt o' := by
  constructor
  · have key : ∀ x : Obj, contentPreimage x
        = encodeObj (without (without x [bs "signatures", bs "unsigned"]) [bs "hashes"]) := by
      intro x
      simp only [contentPreimage, without, List.filter_filter]
      congr 1
      apply List.filter_congr
      intro p _
      simp only [List.contains_cons, List.contains_nil, Bool.or_false]
      cases (p.1 == bs "hashes") <;> cases (p.1 == bs "signatures") <;> cases (p.1 == bs "unsigned") <;> rfl
    rw [content_hash_def, content_hash_def, key o, key o', h]
  · rw [referenceHash_strip, referenceHash_strip sha256 r fmt o', h]

/-- **The content hash also ignores `hashes`.** -/
theorem content_hash_ignores_hashes (sha256 : List Nat → List Nat) (o o' : Obj)
    (h : without o [bs "unsigned", bs "signatures", bs "hashes"]
        = without o' [bs "unsigned", bs "signatures", bs "hashes"]) :
    contentHash sha256 o = contentHash sha256 o' := by
  rw [content_hash_def, content_hash_def, contentPreimage, contentPreimage, h]

/-- Concrete form: setting (inserting or replacing) or deleting `unsigned`, `signatures` — and for
the content hash also `hashes` — to any value whatsoever leaves the hashes unchanged. -/
theorem hash_ignores_set_or_delete (sha256 : List Nat → List Nat) (r : Rules) (fmt : EventIdFormat)
    (o : Obj) (k : Str) (x : JVal) :
    (k ∈ [bs "unsigned", bs "signatures", bs "hashes"] →
        contentHash sha256 (Obj.insert o k x) = contentHash sha256 o ∧
        contentHash sha256 (Obj.erase o k) = contentHash sha256 o) ∧
    (k ∈ [bs "signatures", bs "unsigned"] →
        referenceHash sha256 r fmt (Obj.insert o k x) = referenceHash sha256 r fmt o ∧
        referenceHash sha256 r fmt (Obj.erase o k) = referenceHash sha256 r fmt o) := by
  constructor
  · intro hk
    have hq : (fun k => ![bs "unsigned", bs "signatures", bs "hashes"].contains k) k = false := by
      simp only [List.contains_eq_mem, hk, decide_true, Bool.not_true]
    exact ⟨content_hash_ignores_hashes sha256 _ _
             (filter_insert_dropped o k x
               (fun k => ![bs "unsigned", bs "signatures", bs "hashes"].contains k) hq),
           content_hash_ignores_hashes sha256 _ _
             (filter_erase_dropped o k
               (fun k => ![bs "unsigned", bs "signatures", bs "hashes"].contains k) hq)⟩
  · intro hk
    have hq : (fun k => ![bs "signatures", bs "unsigned"].contains k) k = false := by
      simp only [List.contains_eq_mem, hk, decide_true, Bool.not_true]
    exact ⟨(hash_ignores_unsigned_signatures sha256 r fmt _ _
             (filter_insert_dropped o k x
               (fun k => ![bs "signatures", bs "unsigned"].contains k) hq)).2,
           (hash_ignores_unsigned_signatures sha256 r fmt _ _
             (filter_erase_dropped o k
               (fun k => ![bs "signatures", bs "unsigned"].contains k) hq)).2⟩

/-- **The reference hash is unchanged by redaction**: for every rules value (hence every room
version), every event and its redacted copy have the same reference hash (from C04's
`redact_idempotent`). -/
theorem reference_hash_redact_invariant (sha256 : List Nat → List Nat) (r : Rules)
    (fmt : EventIdFormat) (e e' : Obj) (h : redact r e none = .ok e') :
    referenceHash sha256 r fmt e' = referenceHash sha256 r fmt e := by
  simp only [referenceHash, Props.C04.redact_idempotent r e e' h, h]

/-- The same for the redacted copy that carries `unsigned.redacted_because`. -/
theorem reference_hash_redact_because_invariant (sha256 : List Nat → List Nat) (r : Rules)
    (fmt : EventIdFormat) (e e' because : Obj) (h : redact r e (some because) = .ok e') :
    referenceHash sha256 r fmt e' = referenceHash sha256 r fmt e := by
  rw [Props.C04.redact_because] at h
  cases h0 : redact r e none with
  | error err => rw [h0] at h; cases h
  | ok e0 =>
    rw [h0] at h
    simp only [Except.map] at h
    injection h with h
    subst h
    rw [((hash_ignores_set_or_delete sha256 r fmt e0 (bs "unsigned") _).2 (by simp)).1]
    exact reference_hash_redact_invariant sha256 r fmt e e0 h0

/-! ### The size limit -/

/-- **Content hash refuses exactly the oversize events**: `PduSize` iff the hashed canonical form is
longer than 65 535 bytes; at 65 535 bytes it still succeeds. -/
theorem pdu_size_iff (sha256 : List Nat → List Nat) (o : Obj) :
    (contentHash sha256 o = .error .pduSize ↔ (contentPreimage o).length > 65535) ∧
    ((∃ h, contentHash sha256 o = .ok h) ↔ (contentPreimage o).length ≤ 65535) := by
  rw [content_hash_def]
  have hmax : maxPdu = 65535 := rfl
  by_cases hl : (contentPreimage o).length > 65535
  · rw [if_pos (by rw [hmax]; exact hl)]
    refine ⟨⟨fun _ => hl, fun _ => rfl⟩, ⟨?_, ?_⟩⟩
    · rintro ⟨h, hh⟩; cases hh
    · intro h; omega
  · rw [if_neg (by rw [hmax]; exact hl)]
    refine ⟨⟨?_, fun h => absurd h hl⟩, ⟨fun _ => by omega, fun _ => ⟨_, rfl⟩⟩⟩
    intro h; cases h

/-- **Reference hash refuses exactly the events whose redacted form is oversize**: `PduSize` iff
redaction succeeds and the canonical form of the redacted event without `signatures`/`unsigned` is
longer than 65 535 bytes. -/
theorem pdu_size_iff_reference (sha256 : List Nat → List Nat) (r : Rules) (fmt : EventIdFormat)
    (o : Obj) :
    referenceHash sha256 r fmt o = .error .pduSize ↔
      ∃ res, redact r o none = .ok res ∧
        (encodeObj (without res [bs "signatures", bs "unsigned"])).length > 65535 := by
  rw [referenceHash_eq_refTail]
  cases redact r o none with
  | error e =>
    simp only [Except.map, refTail]
    constructor
    · intro h; cases h
    · rintro ⟨res, h, _⟩; cases h
  | ok res =>
    simp only [Except.map, refTail, maxPduBytes]
    by_cases hl : (encodeObj (without res [bs "signatures", bs "unsigned"])).length > 65535
    · simp only [hl, if_true, true_iff]
      exact ⟨res, rfl, hl⟩
    · simp only [hl, if_false]
      constructor
      · intro h; cases h
      · rintro ⟨res', h, hl'⟩
        injection h with h
        subst h
        exact absurd hl' hl

/-! ### Covered changes change the hashed bytes -/

/-- Canonical-JSON encoding does not identify these two objects. This is C01's injectivity of
`encode` on canonical values, taken here as a hypothesis about the two objects concerned. -/
def EncInj (a b : Obj) : Prop := encodeObj a = encodeObj b → a = b

/-- **Content hash, covered change**: if two events differ (value changed, key added or key removed)
at any top-level key other than `unsigned`, `signatures`, `hashes`, the bytes that are hashed differ. -/
theorem covered_change_changes_preimage (o o' : Obj) (k : Str)
    (hk : k ∉ [bs "unsigned", bs "signatures", bs "hashes"])
    (hne : Obj.get o k ≠ Obj.get o' k)
    (hinj : EncInj (without o [bs "unsigned", bs "signatures", bs "hashes"])
                   (without o' [bs "unsigned", bs "signatures", bs "hashes"])) :
    contentPreimage o ≠ contentPreimage o' := by
  intro heq
  have := congrArg (fun x => Obj.get x k) (hinj heq)
  simp only [get_without] at this
  have hc : [bs "unsigned", bs "signatures", bs "hashes"].contains k = false := by
    simpa [List.contains_eq_mem] using hk
  rw [hc] at this
  exact hne this

/-- **Reference hash, covered top-level change**: if two events (same room version, both redactable)
differ at a top-level key that the version's redaction keeps — other than `content` (next theorem)
and `signatures` — the bytes that are hashed differ. `hashes` is such a key. -/
theorem covered_change_changes_reference_preimage (v : Nat) (e e' res res' : Obj) (ty ty' : Str)
    (hs : Obj.Sorted e) (hs' : Obj.Sorted e')
    (hred : redact (rulesOf v) e none = .ok res) (hred' : redact (rulesOf v) e' none = .ok res')
    (hty : Obj.get e (bs "type") = some (.str ty)) (hty' : Obj.get e' (bs "type") = some (.str ty'))
    (k : Str) (hkept : topKept v k = true) (hk1 : k ≠ bs "content") (hk2 : k ≠ bs "signatures")
    (hk3 : k ≠ bs "unsigned")
    (hne : Obj.get e k ≠ Obj.get e' k)
    (hinj : EncInj (without res [bs "signatures", bs "unsigned"])
                   (without res' [bs "signatures", bs "unsigned"])) :
    referencePreimage v ty e ≠ referencePreimage v ty' e' := by
  obtain ⟨t, ht, hres⟩ := redact_eq_spec v e res hs hred
  obtain ⟨t', ht', hres'⟩ := redact_eq_spec v e' res' hs' hred'
  rw [hty] at ht; rw [hty'] at ht'
  injection ht with ht; injection ht with ht; subst ht
  injection ht' with ht'; injection ht' with ht'; subst ht'
  intro heq
  simp only [referencePreimage, ← hres, ← hres'] at heq
  have := congrArg (fun x => Obj.get x k) (hinj heq)
  simp only [get_without] at this
  have hc : [bs "signatures", bs "unsigned"].contains k = false := by
    simp [List.contains_eq_mem, hk2, hk3]
  rw [hc] at this
  simp only [Bool.false_eq_true, if_false] at this
  rw [Props.C04.redact_values_untouched v e res hred k hk1,
      Props.C04.redact_values_untouched v e' res' hred' k hk1, hkept] at this
  exact hne this

/-- **Reference hash, covered content change**: if two events of the same type differ at a content
key the version's redaction keeps unchanged, the bytes that are hashed differ. -/
theorem covered_content_change_changes_reference_preimage (v : Nat) (e e' res res' : Obj) (ty : Str)
    (c c' : Obj) (hs : Obj.Sorted e) (hs' : Obj.Sorted e')
    (hred : redact (rulesOf v) e none = .ok res) (hred' : redact (rulesOf v) e' none = .ok res')
    (hty : Obj.get e (bs "type") = some (.str ty)) (hty' : Obj.get e' (bs "type") = some (.str ty))
    (hc : Obj.get e (bs "content") = some (.obj c)) (hc' : Obj.get e' (bs "content") = some (.obj c'))
    (k : Str) (hkept : contentKept v ty k = true)
    (hn : ¬ (ty = bs "m.room.member" ∧ k = bs "third_party_invite"))
    (hne : Obj.get c k ≠ Obj.get c' k)
    (hinj : EncInj (without res [bs "signatures", bs "unsigned"])
                   (without res' [bs "signatures", bs "unsigned"])) :
    referencePreimage v ty e ≠ referencePreimage v ty e' := by
  obtain ⟨t, ht, hres⟩ := redact_eq_spec v e res hs hred
  obtain ⟨t', ht', hres'⟩ := redact_eq_spec v e' res' hs' hred'
  rw [hty] at ht; rw [hty'] at ht'
  injection ht with ht; injection ht with ht; subst ht
  injection ht' with ht'; injection ht' with ht'; subst ht'
  intro heq
  simp only [referencePreimage, ← hres, ← hres'] at heq
  have := congrArg (fun x => Obj.get x (bs "content")) (hinj heq)
  simp only [get_without] at this
  have hcc : [bs "signatures", bs "unsigned"].contains (bs "content") = false := by decide
  rw [hcc] at this
  simp only [Bool.false_eq_true, if_false] at this
  rw [Props.C04.redact_content_eq_spec v e res ty c hred hty hc,
      Props.C04.redact_content_eq_spec v e' res' ty c' hred' hty' hc'] at this
  injection this with this
  injection this with this
  have h2 := congrArg (fun x => Obj.get x k) this
  simp only [get_redactedContent v ty k _ hkept hn] at h2
  exact hne h2

/-- "Hence the hash" for the content hash: under the recorded assumption that SHA-256 does not
collide on these two byte strings, different hashed bytes give different content hashes. -/
theorem covered_change_changes_content_hash (sha256 : List Nat → List Nat) (o o' : Obj)
    (h h' : List Nat) (hpre : contentPreimage o ≠ contentPreimage o')
    (hnc : sha256 (contentPreimage o) = sha256 (contentPreimage o') →
           contentPreimage o = contentPreimage o')
    (ho : contentHash sha256 o = .ok h) (ho' : contentHash sha256 o' = .ok h') : h ≠ h' := by
  rw [content_hash_def] at ho ho'
  split at ho
  · cases ho
  · split at ho'
    · cases ho'
    · injection ho with ho; injection ho' with ho'
      subst ho; subst ho'
      exact fun heq => hpre (hnc heq)

/-- "Hence the hash" for the reference hash (and so for the event ID from room version 3): under
the no-collision assumption on the two byte strings, different hashed bytes give different base64
strings — base64 itself is injective (`b64_url_roundtrip`). Digests are byte strings. -/
theorem covered_change_changes_reference_hash (sha256 : List Nat → List Nat)
    (hbytes : ∀ m, ∀ b ∈ sha256 m, b < 256) (a : Alphabet) (p p' : List Nat) (hpre : p ≠ p')
    (hnc : sha256 p = sha256 p' → p = p') :
    b64 a (sha256 p) ≠ b64 a (sha256 p') := by
  intro heq
  have h1 := unb64_b64 a (sha256 p) (hbytes p)
  have h2 := unb64_b64 a (sha256 p') (hbytes p')
  rw [heq, h2] at h1
  injection h1 with h1
  exact hpre (hnc h1.symm)

/-! ### The same without `EncInj`: canonical events (C01's injectivity of `encode`) -/

/-- `EncInj` holds for any two canonical objects: this is C01's `encode_injective`. -/
theorem encInj_of_canonical (a b : Obj) (ha : IsCanonical (.obj a)) (hb : IsCanonical (.obj b)) :
    EncInj a b :=
  encodeObj_injective a b ha hb

/-- **Content hash, covered change, for canonical events** (a `CanonicalJsonObject` is one: keys
ascending at every depth, integers in range): if two events differ at any top-level key other than
`unsigned`, `signatures`, `hashes`, the bytes that are hashed differ. No hypothesis about the
encoding is left: injectivity is C01's theorem. -/
theorem covered_change_changes_preimage_canonical (o o' : Obj) (k : Str)
    (hc : IsCanonical (.obj o)) (hc' : IsCanonical (.obj o'))
    (hk : k ∉ [bs "unsigned", bs "signatures", bs "hashes"])
    (hne : Obj.get o k ≠ Obj.get o' k) :
    contentPreimage o ≠ contentPreimage o' :=
  covered_change_changes_preimage o o' k hk hne
    (encInj_of_canonical _ _ (isCanonical_without o _ hc) (isCanonical_without o' _ hc'))

/-- The redacted form of a canonical event is canonical (so `EncInj` holds for the objects the
reference hash encodes). -/
theorem encInj_of_redacted (v : Nat) (e e' res res' : Obj)
    (hc : IsCanonical (.obj e)) (hc' : IsCanonical (.obj e'))
    (hred : redact (rulesOf v) e none = .ok res) (hred' : redact (rulesOf v) e' none = .ok res') :
    EncInj (without res [bs "signatures", bs "unsigned"]) (without res' [bs "signatures", bs "unsigned"]) := by
  obtain ⟨t, _, hres⟩ := redact_eq_spec v e res hc.1 hred
  obtain ⟨t', _, hres'⟩ := redact_eq_spec v e' res' hc'.1 hred'
  subst hres; subst hres'
  exact encInj_of_canonical _ _ (isCanonical_without _ _ (redacted_isCanonical v t e hc))
    (isCanonical_without _ _ (redacted_isCanonical v t' e' hc'))

/-- **Reference hash, covered top-level change, for canonical events.** -/
theorem covered_change_changes_reference_preimage_canonical (v : Nat) (e e' res res' : Obj) (ty ty' : Str)
    (hc : IsCanonical (.obj e)) (hc' : IsCanonical (.obj e'))
    (hred : redact (rulesOf v) e none = .ok res) (hred' : redact (rulesOf v) e' none = .ok res')
    (hty : Obj.get e (bs "type") = some (.str ty)) (hty' : Obj.get e' (bs "type") = some (.str ty'))
    (k : Str) (hkept : topKept v k = true) (hk1 : k ≠ bs "content") (hk2 : k ≠ bs "signatures")
    (hk3 : k ≠ bs "unsigned")
    (hne : Obj.get e k ≠ Obj.get e' k) :
    referencePreimage v ty e ≠ referencePreimage v ty' e' :=
  covered_change_changes_reference_preimage v e e' res res' ty ty' hc.1 hc'.1 hred hred' hty hty' k
    hkept hk1 hk2 hk3 hne (encInj_of_redacted v e e' res res' hc hc' hred hred')

/-- **Reference hash, covered content change, for canonical events** (every kept content key except
the narrowed `third_party_invite` of a member event, which is the next theorem). -/
theorem covered_content_change_changes_reference_preimage_canonical (v : Nat) (e e' res res' : Obj)
    (ty : Str) (c c' : Obj) (hce : IsCanonical (.obj e)) (hce' : IsCanonical (.obj e'))
    (hred : redact (rulesOf v) e none = .ok res) (hred' : redact (rulesOf v) e' none = .ok res')
    (hty : Obj.get e (bs "type") = some (.str ty)) (hty' : Obj.get e' (bs "type") = some (.str ty))
    (hc : Obj.get e (bs "content") = some (.obj c)) (hc' : Obj.get e' (bs "content") = some (.obj c'))
    (k : Str) (hkept : contentKept v ty k = true)
    (hn : ¬ (ty = bs "m.room.member" ∧ k = bs "third_party_invite"))
    (hne : Obj.get c k ≠ Obj.get c' k) :
    referencePreimage v ty e ≠ referencePreimage v ty e' :=
  covered_content_change_changes_reference_preimage v e e' res res' ty c c' hce.1 hce'.1 hred hred'
    hty hty' hc hc' k hkept hn hne (encInj_of_redacted v e e' res res' hce hce' hred hred')

/-- **Reference hash, the excluded content key: `third_party_invite` of `m.room.member`.** Where the
version keeps it (room version 11 onwards) only its `signed` member is covered: if the two events'
`third_party_invite` objects differ in `signed` (changed, added or removed), the bytes that are hashed
differ. (A change to any *other* member of `third_party_invite` is not covered — redaction drops it —
which is why the previous theorem excludes this key.) -/
theorem covered_tpi_signed_change_changes_reference_preimage (v : Nat) (e e' res res' : Obj)
    (c c' t t' : Obj) (hce : IsCanonical (.obj e)) (hce' : IsCanonical (.obj e'))
    (hred : redact (rulesOf v) e none = .ok res) (hred' : redact (rulesOf v) e' none = .ok res')
    (hty : Obj.get e (bs "type") = some (.str (bs "m.room.member")))
    (hty' : Obj.get e' (bs "type") = some (.str (bs "m.room.member")))
    (hc : Obj.get e (bs "content") = some (.obj c)) (hc' : Obj.get e' (bs "content") = some (.obj c'))
    (hkept : contentKept v (bs "m.room.member") (bs "third_party_invite") = true)
    (ht : Obj.get c (bs "third_party_invite") = some (.obj t))
    (ht' : Obj.get c' (bs "third_party_invite") = some (.obj t'))
    (hne : Obj.get t (bs "signed") ≠ Obj.get t' (bs "signed")) :
    referencePreimage v (bs "m.room.member") e ≠ referencePreimage v (bs "m.room.member") e' := by
  have hinj := encInj_of_redacted v e e' res res' hce hce' hred hred'
  obtain ⟨ty1, ht1, hres⟩ := redact_eq_spec v e res hce.1 hred
  obtain ⟨ty2, ht2, hres'⟩ := redact_eq_spec v e' res' hce'.1 hred'
  rw [hty] at ht1; rw [hty'] at ht2
  injection ht1 with ht1; injection ht1 with ht1; subst ht1
  injection ht2 with ht2; injection ht2 with ht2; subst ht2
  intro heq
  simp only [referencePreimage, ← hres, ← hres'] at heq
  have := congrArg (fun x => Obj.get x (bs "content")) (hinj heq)
  simp only [get_without] at this
  have hcc : [bs "signatures", bs "unsigned"].contains (bs "content") = false := by decide
  rw [hcc] at this
  simp only [Bool.false_eq_true, if_false] at this
  rw [Props.C04.redact_content_eq_spec v e res _ c hred hty hc,
      Props.C04.redact_content_eq_spec v e' res' _ c' hred' hty' hc'] at this
  injection this with this
  injection this with this
  have hsc : Obj.Sorted c := (isCanonical_of_get e _ _ hce hc).1
  have hsc' : Obj.Sorted c' := (isCanonical_of_get e' _ _ hce' hc').1
  have h2 := congrArg (fun x => Obj.get x (bs "third_party_invite")) this
  simp only [get_redactedContent_sorted _ _ _ _ hsc, get_redactedContent_sorted _ _ _ _ hsc', ht, ht',
    Option.bind_some, contentEntry, hkept, and_self, if_true] at h2
  -- both sides: `if (filter signed).isEmpty then none else some (obj (filter signed))`
  have hfe : t.filter (fun p => tpiKept p.1) = t'.filter (fun p => tpiKept p.1) := by
    by_cases h1 : (t.filter (fun p => tpiKept p.1)).isEmpty = true <;>
    by_cases h1' : (t'.filter (fun p => tpiKept p.1)).isEmpty = true
    · rw [List.isEmpty_iff.mp h1, List.isEmpty_iff.mp h1']
    · simp [h1, h1'] at h2
    · simp [h1, h1'] at h2
    · simp only [h1, h1'] at h2
      simpa using h2
  have hg := congrArg (fun x => Obj.get x (bs "signed")) hfe
  simp only [get_filter (p := tpiKept)] at hg
  have hk : tpiKept (bs "signed") = true := by decide
  rw [hk] at hg
  exact hne hg

/-! ### Base64 facts -/

/-- **Round trip, both alphabets**: decoding the unpadded encoding of any byte string gives the byte
string back; hence the encoding is injective and the event ID determines the digest. -/
theorem b64_url_roundtrip (a : Alphabet) (x : List Nat) (hx : ∀ b ∈ x, b < 256) :
    unb64 a (b64 a x) = some x := unb64_b64 a x hx

/-- The model's alphabets are RFC 4648's (§4 and §5), character for character. -/
theorem alphabet_tables :
    alphabetChars .standard = Spec.Hash.rfc4648Standard ∧
    alphabetChars .urlSafe = Spec.Hash.rfc4648UrlSafe := by decide

/-- The two alphabets agree on sextets 0–61 and differ exactly in the last two characters:
`+ /` versus `- _`. -/
theorem alphabets_differ_only_in_62_63 :
    (∀ i, i < 62 → charOf .standard i = charOf .urlSafe i) ∧
    charOf .standard 62 = 43 ∧ charOf .standard 63 = 47 ∧
    charOf .urlSafe 62 = 45 ∧ charOf .urlSafe 63 = 95 := by decide

/-- A URL-safe reference hash contains neither `+` nor `/` (nor `=`: there is no padding), and a
32-byte digest always encodes to 43 characters. -/
theorem url_safe_output (x : List Nat) (hx : ∀ b ∈ x, b < 256) :
    (∀ c ∈ b64 .urlSafe x, c ≠ 43 ∧ c ≠ 47 ∧ c ≠ 61) ∧
    (x.length = 32 → ∀ a, (b64 a x).length = 43) := by
  constructor
  · intro c hc
    have hmem := b64_chars .urlSafe x hx c hc
    have : ∀ c ∈ alphabetChars .urlSafe, c ≠ 43 ∧ c ≠ 47 ∧ c ≠ 61 := by decide
    exact this c hmem
  · intro hl a
    rw [b64_length, hl]

/-! ### Event IDs (room version 3 onwards) -/

/-- **The event ID is `$` + the reference hash.** For every format other than `V1`, `eventId` is the
reference hash prefixed with `$` (byte 36), with the same errors. (This is how the model defines it —
ruma has no function for this step, callers write `format!("${}", reference_hash(..)?)`; the tie to
the code is the harness op `c05.eventid`, which does that with the real `reference_hash` and parses
the result with the real `EventId` parser.) -/
theorem event_id_of_reference_hash (sha256 : List Nat → List Nat) (r : Rules) (fmt : EventIdFormat)
    (o : Obj) (hf : fmt ≠ .v1) :
    eventId sha256 r fmt o = (referenceHash sha256 r fmt o).map (fun h => some (36 :: h)) := by
  cases fmt with
  | v1 => exact absurd rfl hf
  | v2 => simp only [eventId]; cases referenceHash sha256 r .v2 o <;> rfl
  | v3 => simp only [eventId]; cases referenceHash sha256 r .v3 o <;> rfl

/-- **Event ID, spec form**: for every room version number `v ≥ 3` and every redactable sorted
event, the event ID is `PduSize` when the canonical JSON of the spec's redacted event without
`signatures`/`unsigned` exceeds 65 535 bytes, and otherwise the specification's `eventIdOf`: `$`
followed by the unpadded base64 (standard alphabet in v3, URL-safe from v4) of the SHA-256 of exactly
those bytes. In room versions 1 and 2 there is no hash-derived event ID. -/
theorem event_id_def (sha256 : List Nat → List Nat) (v : Nat) (e res : Obj)
    (hs : Obj.Sorted e) (hred : redact (rulesOf v) e none = .ok res) :
    ∃ ty, Obj.get e (bs "type") = some (.str ty) ∧
      eventId sha256 (rulesOf v) (specFormat v) e =
        if v ≤ 2 then .ok none
        else if (referencePreimage v ty e).length > maxPdu then .error .pduSize
        else .ok (Spec.Hash.eventIdOf v (b64 (specAlphabet v) (sha256 (referencePreimage v ty e)))) := by
  obtain ⟨ty, hty, href⟩ := reference_hash_def sha256 v e res hs hred
  refine ⟨ty, hty, ?_⟩
  by_cases h2 : v ≤ 2
  · have hf : specFormat v = .v1 := by simp [specFormat, Spec.Hash.eventIdFormat, h2]
    rw [hf, if_pos h2]
    rfl
  · have h1 : Spec.Hash.eventIdFormat v ≠ 1 := by
      unfold Spec.Hash.eventIdFormat
      rw [if_neg h2]
      split <;> decide
    have hf : specFormat v ≠ .v1 := by
      unfold specFormat
      rw [if_neg h1]
      split <;> simp
    rw [event_id_of_reference_hash sha256 _ _ e hf, href, if_neg h2]
    split
    · rfl
    · simp only [Except.map, Spec.Hash.eventIdOf, if_neg h1]

/-- **The event ID determines the digest** (it is injective in the reference hash): two event IDs
formed with the same alphabet from byte strings are equal only if the digests are equal. -/
theorem event_id_injective (a : Alphabet) (h h' : List Nat) (hb : ∀ b ∈ h, b < 256)
    (hb' : ∀ b ∈ h', b < 256) (heq : 36 :: b64 a h = 36 :: b64 a h') : h = h' := by
  injection heq with _ heq
  have h1 := unb64_b64 a h hb
  rw [heq, unb64_b64 a h' hb'] at h1
  injection h1 with h1
  exact h1.symm

/-- "Hence the event ID": under the no-collision assumption on the two hashed byte strings, different
hashed bytes give different event IDs. -/
theorem covered_change_changes_event_id (sha256 : List Nat → List Nat)
    (hbytes : ∀ m, ∀ b ∈ sha256 m, b < 256) (a : Alphabet) (p p' : List Nat) (hpre : p ≠ p')
    (hnc : sha256 p = sha256 p' → p = p') :
    (36 :: b64 a (sha256 p)) ≠ 36 :: b64 a (sha256 p') :=
  fun heq => hpre (hnc (event_id_injective a _ _ (hbytes p) (hbytes p') heq))

/-- **The event ID ignores `unsigned` and `signatures` and survives redaction**: the redacted copy of
an event has the event's ID, for every rules value and format. -/
theorem event_id_invariant (sha256 : List Nat → List Nat) (r : Rules) (fmt : EventIdFormat)
    (e e' o o' : Obj) (h : redact r e none = .ok e')
    (hw : without o [bs "signatures", bs "unsigned"] = without o' [bs "signatures", bs "unsigned"]) :
    eventId sha256 r fmt e' = eventId sha256 r fmt e ∧
    eventId sha256 r fmt o = eventId sha256 r fmt o' := by
  cases fmt <;>
    simp only [eventId, reference_hash_redact_invariant sha256 r _ e e' h,
      (hash_ignores_unsigned_signatures sha256 r _ o o' hw).2, and_self]

/-- **Shape of a hash event ID**: for a 32-byte digest it is `$` followed by 43 characters of the
alphabet; it contains no `:` (so it has no server part, unlike the IDs of room versions 1 and 2), and
with the URL-safe alphabet (room version 4 onwards) none of `+ / =`. -/
theorem event_id_shape (a : Alphabet) (x : List Nat) (hx : ∀ b ∈ x, b < 256) :
    (x.length = 32 → (36 :: b64 a x).length = 44) ∧ (∀ c ∈ b64 a x, c ≠ 58 ∧ c ≠ 36) ∧
    (a = .urlSafe → ∀ c ∈ b64 a x, c ≠ 43 ∧ c ≠ 47 ∧ c ≠ 61) := by
  refine ⟨fun hl => by rw [List.length_cons, b64_length, hl], ?_, ?_⟩
  · intro c hc
    have hmem := b64_chars a x hx c hc
    have : ∀ c ∈ alphabetChars a, c ≠ 58 ∧ c ≠ 36 := by cases a <;> decide
    exact this c hmem
  · rintro rfl
    exact (url_safe_output x hx).1

/-! ### Non-vacuity: the hypotheses above are satisfiable on a concrete event -/

/-- A v4 message event: sorted, redactable; its redacted form drops `origin`-less extras and the body. -/
example :
    let e : Obj := [(bs "content", .obj [(bs "body", .str (bs "hi"))]), (bs "depth", .int 3),
      (bs "hashes", .obj [(bs "sha256", .str (bs "x"))]), (bs "sender", .str (bs "@a:b")),
      (bs "signatures", .obj []), (bs "type", .str (bs "m.room.message")),
      (bs "unsigned", .obj [(bs "age", .int 1)])]
    Obj.Sorted e ∧
    redact (rulesOf 4) e none = .ok [(bs "content", .obj []), (bs "depth", .int 3),
      (bs "hashes", .obj [(bs "sha256", .str (bs "x"))]), (bs "sender", .str (bs "@a:b")),
      (bs "signatures", .obj []), (bs "type", .str (bs "m.room.message"))] ∧
    referencePreimage 4 (bs "m.room.message") e
      = bs "{\"content\":{},\"depth\":3,\"hashes\":{\"sha256\":\"x\"},\"sender\":\"@a:b\",\"type\":\"m.room.message\"}" ∧
    contentPreimage e
      = bs "{\"content\":{\"body\":\"hi\"},\"depth\":3,\"sender\":\"@a:b\",\"type\":\"m.room.message\"}" := by
  dsimp only
  refine ⟨by unfold Obj.Sorted; decide, rfl, by decide, by decide⟩

/-- Two events differing in the covered key `depth` (hypotheses of
`covered_change_changes_preimage`, with the injectivity instance provable outright because the
encodings differ). -/
example :
    let o : Obj := [(bs "depth", .int 3), (bs "type", .str (bs "m"))]
    let o' : Obj := [(bs "depth", .int 4), (bs "type", .str (bs "m"))]
    bs "depth" ∉ [bs "unsigned", bs "signatures", bs "hashes"] ∧
    Obj.get o (bs "depth") ≠ Obj.get o' (bs "depth") ∧
    EncInj (without o [bs "unsigned", bs "signatures", bs "hashes"])
           (without o' [bs "unsigned", bs "signatures", bs "hashes"]) := by
  refine ⟨by decide, by simp [Obj.get, bs], ?_⟩
  intro h
  exact absurd h (by decide)

/-- An invite created from a third-party invite whose `signed` member is the number `n` (example data). -/
def exInvite (n : Int) : Obj :=
  [(bs "content", .obj [(bs "membership", .str (bs "invite")),
      (bs "third_party_invite", .obj [(bs "display_name", .str (bs "n")), (bs "signed", .int n)])]),
   (bs "type", .str (bs "m.room.member"))]

/-- `covered_tpi_signed_change_changes_reference_preimage` (and the `*_canonical` corollaries): the
hypotheses hold on two canonical v11 invites that differ only in `third_party_invite.signed`; both
redact; the hashed bytes differ. Under the version 10 rules the same two events have the *same*
hashed bytes (`third_party_invite` is stripped), which is why the key is treated separately. -/
example :
    IsCanonical (.obj (exInvite 1)) ∧ IsCanonical (.obj (exInvite 2)) ∧
    (∃ res res', redact (rulesOf 11) (exInvite 1) none = .ok res ∧ redact (rulesOf 11) (exInvite 2) none = .ok res') ∧
    contentKept 11 (bs "m.room.member") (bs "third_party_invite") = true ∧
    referencePreimage 11 (bs "m.room.member") (exInvite 1) ≠ referencePreimage 11 (bs "m.room.member") (exInvite 2) ∧
    referencePreimage 10 (bs "m.room.member") (exInvite 1) = referencePreimage 10 (bs "m.room.member") (exInvite 2) :=
  ⟨Props.C01.normalize_sorted (.obj (exInvite 1)) _ (by rfl), Props.C01.normalize_sorted (.obj (exInvite 2)) _ (by rfl),
    ⟨_, _, rfl, rfl⟩, by decide, by decide, by decide⟩

/-- `event_id_def` on the v4 message event above with a toy digest: the ID is `$` + URL-safe base64. -/
example :
    let e : Obj := [(bs "content", .obj [(bs "body", .str (bs "hi"))]), (bs "depth", .int 3),
      (bs "sender", .str (bs "@a:b")), (bs "type", .str (bs "m.room.message"))]
    eventId (fun m => [251, 255, m.length % 256]) (rulesOf 4) (specFormat 4) e = .ok (some (bs "$-_9A")) ∧
    eventId (fun m => [251, 255, m.length % 256]) (rulesOf 3) (specFormat 3) e = .ok (some (bs "$+/9A")) ∧
    eventId (fun m => [251, 255, m.length % 256]) (rulesOf 2) (specFormat 2) e = .ok none := by
  dsimp only
  exact ⟨rfl, rfl, rfl⟩

#print axioms format_table_eq_spec
#print axioms redaction_table_eq_spec
#print axioms alphabet_by_version
#print axioms alphabet_of_spec_format
#print axioms content_hash_def
#print axioms reference_hash_def
#print axioms reference_hash_error
#print axioms hash_ignores_unsigned_signatures
#print axioms content_hash_ignores_hashes
#print axioms hash_ignores_set_or_delete
#print axioms reference_hash_redact_invariant
#print axioms reference_hash_redact_because_invariant
#print axioms pdu_size_iff
#print axioms pdu_size_iff_reference
#print axioms covered_change_changes_preimage
#print axioms covered_change_changes_reference_preimage
#print axioms covered_content_change_changes_reference_preimage
#print axioms covered_change_changes_content_hash
#print axioms covered_change_changes_reference_hash
#print axioms encInj_of_canonical
#print axioms covered_change_changes_preimage_canonical
#print axioms encInj_of_redacted
#print axioms covered_change_changes_reference_preimage_canonical
#print axioms covered_content_change_changes_reference_preimage_canonical
#print axioms covered_tpi_signed_change_changes_reference_preimage
#print axioms event_id_of_reference_hash
#print axioms event_id_def
#print axioms event_id_injective
#print axioms covered_change_changes_event_id
#print axioms event_id_invariant
#print axioms event_id_shape
#print axioms b64_url_roundtrip
#print axioms alphabet_tables
#print axioms alphabets_differ_only_in_62_63
#print axioms url_safe_output
end Ruma.Props.C05
