/-
  C18 — Typed event (de)serialization dispatches by type and is a stable fixpoint.
  Property theorems only (helper lemmas: `Lemmas/EventDispatch.lean`).

  What is proven here, for every input of the model: the type dispatch of the event enums
  (`dispatch`, generated `match` of `event_enum!`), redaction detection, the state/message-like
  split of the timeline enums, `Raw::get_field` against a full parse, `Raw`'s text. What is NOT
  here but in `Props/C18Schema.lean` (imported; its theorems are listed at the end of this file): the
  per-type field code that runs after the dispatch, as a schema-driven model of serde's derive
  (`Model/ContentSchema.lean`) — fixpoint, no duplicate keys, value preservation, key-order and
  unknown-field independence for every well-formed schema and every JSON value; tied to the content
  types whose (de)serialisation is derived by the `c18.schema` correspondence. At the end of THIS file:
  the schemas extracted from the running code (`Generated.C18.schemas`, closed Lean terms) are
  well-formed (`generated_schemas_wf`, by kernel evaluation of the total check `wfb`), and the
  fixpoint / idempotence / duplicate-key theorems instantiated at them. Content types with hand-written
  (de)serialisation stay under the T3 oracles only, see `props/C18.json`.

  Reading guide. `dispatch tbl e o`: the model of `serde_json::from_str::<e>` up to the choice of
  the variant, for the event object `o` (entry list in text order, duplicates possible).
  `Spec.EventTypes.table`: the dispatch table the Matrix specification's type list implies.
  `Generated.C18.observed`: what the running code selected on every cell of the probe universe,
  regenerated on every run.
-/
import RumaModel.Lemmas.EventDispatch
import RumaModel.Spec.EventTypes
import RumaModel.Generated.C18
import RumaModel.Props.C18Schema
namespace Ruma.Props.C18
open Ruma Ruma.EventDispatch Ruma.Spec.EventTypes

/-! ## T1 -/

/-- **T1.** On the whole probe universe (13 enums × every type string and alias of the specification,
`.*` instances, near misses, foreign and unknown types × with/without `state_key` × original and
redacted form) the running code selected exactly what the model with the specification's table
selects: same kind, same variant name (or custom), same `Redacted`/`Original`, same reported
`event_type()`. -/
theorem dispatch_table_eq_spec : Generated.C18.observed = expectedCells := by decide +kernel

/-- The specification's tables are well-formed: no string is accepted by two arms, so the order of
the arms (the order of declarations in `enums.rs`) cannot matter. -/
theorem spec_table_wf (k : Kind) : Table.wf (table k) = true := by
  cases k <;> decide +kernel

/-! ## Envelope: when dispatch succeeds -/

def count (o : Obj) (k : Str) : Nat := (o.filter (fun e => e.1 == k)).length

/-- What `UnsignedDeHelper` accepts for the value of `unsigned` (besides `null`): an object with at
most one `redacted_because`, or — serde's positional form of a one-field struct — a one-element
array. -/
def UnsignedOk : JVal → Prop
  | .null => True
  | .obj u => count u (bs "redacted_because") ≤ 1
  | .arr [_] => True
  | _ => False

/-- The dispatch-relevant part of the envelope is well-formed: exactly one `type`, a string; for
the timeline enums at most one `state_key`; for enums with a redacted form at most one `unsigned`
of an acceptable shape. Nothing is asked of the type string itself, of `content`, or of any other
key. -/
def EnvelopeWF (e : Enum) (o : Obj) : Prop :=
  (∃ s, o.filter (fun x => x.1 == bs "type") = [(bs "type", .str s)]) ∧
  (e.isTimeline = true → count o (bs "state_key") ≤ 1) ∧
  (e.maybeRedacted = true →
    count o (bs "unsigned") ≤ 1 ∧ ∀ u, (bs "unsigned", u) ∈ o → UnsignedOk u)

theorem field1_ok_iff (o : Obj) (k : Str) : (∃ v, field1 o k = .ok v) ↔ count o k ≤ 1 := by
  rw [field1_eq]; unfold count
  generalize o.filter (fun e => e.1 == k) = l
  match l with
  | [] => simp [pick1]
  | [_] => simp [pick1]
  | _ :: _ :: _ => simp [pick1]

theorem typeHelper_ok_iff (o : Obj) (s : Str) :
    typeHelper o = .ok s ↔ o.filter (fun x => x.1 == bs "type") = [(bs "type", .str s)] := by
  unfold typeHelper; rw [field1_eq]
  have hkey : ∀ e ∈ o.filter (fun x => x.1 == bs "type"), e.1 = bs "type" := by
    intro e he; simpa using (List.mem_filter.mp he).2
  generalize o.filter (fun x => x.1 == bs "type") = l at hkey
  match l with
  | [] => simp [pick1]
  | [(k, v)] =>
    have hk : k = bs "type" := hkey (k, v) (by simp)
    subst hk
    cases v <;> simp [pick1]
  | _ :: _ :: _ => simp [pick1]

theorem redactionHelper_ok_iff (o : Obj) :
    (∃ b, redactionHelper o = .ok b) ↔
      count o (bs "unsigned") ≤ 1 ∧ ∀ u, (bs "unsigned", u) ∈ o → UnsignedOk u := by
  unfold redactionHelper
  cases hf : field1 o (bs "unsigned") with
  | error e =>
    have : ¬ count o (bs "unsigned") ≤ 1 := by
      rw [← field1_ok_iff]; rintro ⟨v, hv⟩; rw [hf] at hv; cases hv
    simp [this]
  | ok v =>
    have hc : count o (bs "unsigned") ≤ 1 := (field1_ok_iff _ _).mp ⟨v, hf⟩
    cases v with
    | none =>
      have := field1_none_not_mem hf
      simp only [hc, true_and]
      constructor
      · intro _ u hu; exact absurd hu (this u)
      · intro _; exact ⟨false, rfl⟩
    | some u =>
      obtain ⟨hmem, huniq⟩ := field1_some_mem hf
      simp only [hc, true_and]
      have key : (∃ b, (if isNull u = true then Except.ok false else unsignedHelper u) = Except.ok b) ↔ UnsignedOk u := by
        cases u with
        | null => simp [isNull, UnsignedOk]
        | obj kvs =>
          simp only [isNull, Bool.false_eq_true, if_false, unsignedHelper, UnsignedOk]
          rw [← field1_ok_iff]
          cases field1 kvs (bs "redacted_because") <;> simp
        | arr xs =>
          match xs with
          | [] => simp [isNull, unsignedHelper, UnsignedOk]
          | [_] => simp [isNull, unsignedHelper, UnsignedOk]
          | _ :: _ :: _ => simp [isNull, unsignedHelper, UnsignedOk]
        | bool _ => simp [isNull, unsignedHelper, UnsignedOk]
        | int _ => simp [isNull, unsignedHelper, UnsignedOk]
        | float => simp [isNull, unsignedHelper, UnsignedOk]
        | str _ => simp [isNull, unsignedHelper, UnsignedOk]
      rw [key]
      constructor
      · intro h u' hu'; rw [huniq u' hu']; exact h
      · intro h; exact h u hmem

theorem dispatchKind_ok_iff (tbl : Kind → Table) (k : Kind) (mr : Bool) (o : Obj) :
    (∃ sel, dispatchKind tbl k mr o = .ok sel) ↔
      (∃ s, typeHelper o = .ok s) ∧ (mr = true → ∃ b, redactionHelper o = .ok b) := by
  unfold dispatchKind
  cases typeHelper o with
  | error e => simp
  | ok t =>
    cases mr with
    | false => simp
    | true =>
      cases redactionHelper o with
      | error e => simp
      | ok b => simp

/-- **Dispatch is total on well-formed envelopes, and only there.** For every table (hence every
set of known types), every enum and every event object: the typed deserialiser gets past the
dispatch stage — for *any* type string, known or not — exactly when the envelope is well-formed. In
particular an unknown `type`, unknown extra fields, duplicated unknown fields and any entry order
never make it fail. -/
theorem dispatch_total (tbl : Kind → Table) (e : Enum) (o : Obj) :
    (∃ sel, dispatch tbl e o = .ok sel) ↔ EnvelopeWF e o := by
  have hty : (∃ s, typeHelper o = .ok s) ↔
      ∃ s, o.filter (fun x => x.1 == bs "type") = [(bs "type", .str s)] := by
    constructor
    · rintro ⟨s, h⟩; exact ⟨s, (typeHelper_ok_iff o s).mp h⟩
    · rintro ⟨s, h⟩; exact ⟨s, (typeHelper_ok_iff o s).mpr h⟩
  unfold dispatch EnvelopeWF Enum.isTimeline Enum.maybeRedacted
  cases hs : e.shape with
  | single k mr =>
    simp only [Bool.false_eq_true, false_implies, true_and]
    rw [dispatchKind_ok_iff, hty, redactionHelper_ok_iff]
  | timeline =>
    simp only [true_implies]
    unfold dispatchTimeline
    cases hf : field1 o (bs "state_key") with
    | error err =>
      have : ¬ count o (bs "state_key") ≤ 1 := by
        rw [← field1_ok_iff]; rintro ⟨v, hv⟩; rw [hf] at hv; cases hv
      simp [this]
    | ok sk =>
      have hc : count o (bs "state_key") ≤ 1 := (field1_ok_iff _ _).mp ⟨sk, hf⟩
      simp only [hc, true_and]
      cases optSome sk <;>
        simp only [Bool.false_eq_true, if_false, if_true] <;>
        rw [dispatchKind_ok_iff, hty, redactionHelper_ok_iff] <;> simp

/-! ## Which variant -/

/-- What a successful dispatch returns, in terms of the generated `match` alone: the kind is the
enum's kind (or, for the timeline enums, decided by a non-null `state_key`), and variant and
reported type are those the `match` gives for the value of `type`. -/
theorem dispatch_sel (tbl : Kind → Table) (e : Enum) (o : Obj) (sel : Sel)
    (h : dispatch tbl e o = .ok sel) :
    ∃ t, typeHelper o = .ok t ∧ (sel.variant, sel.ty) = contentDispatch tbl sel.kind t := by
  have hk : ∀ k mr, dispatchKind tbl k mr o = .ok sel →
      ∃ t, typeHelper o = .ok t ∧ (sel.variant, sel.ty) = contentDispatch tbl sel.kind t := by
    intro k mr h
    unfold dispatchKind at h
    cases ht : typeHelper o with
    | error e => rw [ht] at h; cases h
    | ok t =>
      rw [ht] at h
      refine ⟨t, rfl, ?_⟩
      simp only at h
      cases mr with
      | false =>
        simp only [Bool.false_eq_true, if_false] at h
        injection h with h; subst h
        unfold contentDispatch; cases selectRow (tbl k) t <;> rfl
      | true =>
        simp only [if_true] at h
        cases hr : redactionHelper o with
        | error e => rw [hr] at h; cases h
        | ok b =>
          rw [hr] at h
          injection h with h; subst h
          unfold contentDispatch; cases selectRow (tbl k) t <;> rfl
  unfold dispatch at h
  cases hs : e.shape with
  | single k mr => simp only [hs] at h; exact hk k mr h
  | timeline =>
    simp only [hs, dispatchTimeline] at h
    cases hf : field1 o (bs "state_key") with
    | error err => simp only [hf] at h; cases h
    | ok sk =>
      simp only [hf] at h
      cases ho : optSome sk <;> simp only [ho, Bool.false_eq_true, if_false, if_true] at h
      · exact hk _ _ h
      · exact hk _ _ h

/-- **Known type → its variant.** In a well-formed table, an event whose `type` is the declared
type of an arm without fragment gets that arm's variant and reports that type — wherever the arm
stands in the table. -/
theorem dispatch_known (tbl : Kind → Table) (e : Enum) (o : Obj) (sel : Sel) (r : Row)
    (h : dispatch tbl e o = .ok sel) (hwf : Table.wf (tbl sel.kind) = true)
    (hr : r ∈ tbl sel.kind) (hfrag : r.hasFragment = false) (ht : typeHelper o = .ok r.ty) :
    sel.variant = some r.variant ∧ sel.ty = r.ty := by
  obtain ⟨t, ht', hsel⟩ := dispatch_sel tbl e o sel h
  rw [ht] at ht'; injection ht' with ht'; subst ht'
  have hs : r.select r.ty = some r.ty := by
    unfold Row.select; simp [hfrag, Row.patterns]
  unfold contentDispatch at hsel
  rw [selectRow_of_wf hwf hr hs] at hsel
  simp only [Prod.mk.injEq] at hsel
  exact hsel

/-- **Alias → the same variant, reported under the stable type.** -/
theorem dispatch_alias (tbl : Kind → Table) (e : Enum) (o : Obj) (sel : Sel) (r : Row) (a : Str)
    (h : dispatch tbl e o = .ok sel) (hwf : Table.wf (tbl sel.kind) = true)
    (hr : r ∈ tbl sel.kind) (hfrag : r.hasFragment = false) (ha : a ∈ r.aliases)
    (ht : typeHelper o = .ok a) :
    sel.variant = some r.variant ∧ sel.ty = r.ty := by
  obtain ⟨t, ht', hsel⟩ := dispatch_sel tbl e o sel h
  rw [ht] at ht'; injection ht' with ht'; subst ht'
  have hs : r.select a = some r.ty := by
    unfold Row.select; simp [hfrag, Row.patterns, ha]
  unfold contentDispatch at hsel
  rw [selectRow_of_wf hwf hr hs] at hsel
  simp only [Prod.mk.injEq] at hsel
  exact hsel

/-- **Wildcard type keeps its suffix.** For an arm `prefix.*` (no aliases), every type
`prefix.` ++ suffix — any suffix, the empty one included — gets that arm's variant and
`event_type()` reports the full type, suffix included. -/
theorem dispatch_prefix (tbl : Kind → Table) (e : Enum) (o : Obj) (sel : Sel) (r : Row) (sfx : Str)
    (h : dispatch tbl e o = .ok sel) (hwf : Table.wf (tbl sel.kind) = true)
    (hr : r ∈ tbl sel.kind) (hfrag : r.hasFragment = true) (hal : r.aliases = [])
    (ht : typeHelper o = .ok (stripStar r.ty ++ sfx)) :
    sel.variant = some r.variant ∧ sel.ty = stripStar r.ty ++ sfx := by
  obtain ⟨t, ht', hsel⟩ := dispatch_sel tbl e o sel h
  rw [ht] at ht'; injection ht' with ht'; subst ht'
  have hp : (stripStar r.ty).isPrefixOf (stripStar r.ty ++ sfx) = true :=
    List.isPrefixOf_iff_prefix.mpr (List.prefix_append _ _)
  have hs : r.select (stripStar r.ty ++ sfx) = some (stripStar r.ty ++ sfx) := by
    unfold Row.select
    simp only [hfrag, if_true, Row.patterns, hal, List.nil_append, List.find?_cons, hp,
      Option.map_some, List.drop_left]
  unfold contentDispatch at hsel
  rw [selectRow_of_wf hwf hr hs] at hsel
  simp only [Prod.mk.injEq] at hsel
  exact hsel

/-- **Unknown type → custom, type kept.** If no arm of the kind's table accepts the type string,
the custom variant is selected and reports the type string unchanged. -/
theorem dispatch_unknown_custom (tbl : Kind → Table) (e : Enum) (o : Obj) (sel : Sel) (t : Str)
    (h : dispatch tbl e o = .ok sel) (ht : typeHelper o = .ok t)
    (hno : ∀ r ∈ tbl sel.kind, r.select t = none) :
    sel.variant = none ∧ sel.ty = t := by
  obtain ⟨t', ht', hsel⟩ := dispatch_sel tbl e o sel h
  rw [ht] at ht'; injection ht' with ht'; subst ht'
  unfold contentDispatch at hsel
  rw [selectRow_none.mpr hno] at hsel
  simp only [Prod.mk.injEq] at hsel
  exact hsel

/-! ### The specification's table against the declarative classification -/

/-- `P s t`: the spec type `s` is spelled by `t` (as in `classify`). -/
def spells (s : SpecType) (t : Str) : Bool :=
  let ty := bs s.ty
  if (bs ".*").isSuffixOf ty then (ty.dropLast).isPrefixOf t
  else ty == t || (s.aliases.map bs).contains t

theorem stripStar_of_suffix (ty : Str) (h : (bs ".*").isSuffixOf ty = true) : stripStar ty = ty.dropLast := by
  have hs : bs ".*" <:+ ty := List.isSuffixOf_iff_suffix.mp h
  obtain ⟨pre, rfl⟩ := hs
  have h42 : (bs ".*").getLast? = some 42 := by decide
  have : (pre ++ bs ".*").getLast? = some 42 := by
    rw [List.getLast?_append, h42]; rfl
  unfold stripStar; rw [if_pos this]

theorem select_rowOf (s : SpecType) (t : Str)
    (hal : (bs ".*").isSuffixOf (bs s.ty) = true → s.aliases = []) :
    (rowOf s).select t =
      if spells s t then some (if (bs ".*").isSuffixOf (bs s.ty) then t else bs s.ty) else none := by
  unfold Row.select spells rowOf Row.hasFragment Row.patterns
  simp only
  by_cases hf : (bs ".*").isSuffixOf (bs s.ty) = true
  · have hst := stripStar_of_suffix _ hf
    simp only [hf, if_true, hal hf, List.map_nil, List.nil_append, List.find?_cons, hst]
    by_cases hp : (bs s.ty).dropLast.isPrefixOf t = true
    · simp only [hp, Option.map_some, if_true]
      obtain ⟨r, rfl⟩ := List.isPrefixOf_iff_prefix.mp hp
      simp [hst]
    · simp [hp]
  · have hcontains : (List.map bs s.aliases ++ [bs s.ty]).contains t
        = (bs s.ty == t || (s.aliases.map bs).contains t) := by
      rw [Bool.eq_iff_iff]
      simp only [List.contains_eq_mem, List.mem_append, List.mem_singleton, decide_eq_true_eq,
        Bool.or_eq_true, beq_iff_eq]
      constructor
      · rintro (h | h)
        · exact Or.inr h
        · exact Or.inl h.symm
      · rintro (h | h)
        · exact Or.inr h.symm
        · exact Or.inl h
    simp only [hf, Bool.false_eq_true, if_false, hcontains]

theorem selectRow_map_rowOf (l : List SpecType) (t : Str)
    (hal : ∀ s ∈ l, (bs ".*").isSuffixOf (bs s.ty) = true → s.aliases = []) :
    selectRow (l.map rowOf) t =
      match l.filter (fun s => spells s t) with
      | s :: _ => some (rowOf s, if (bs ".*").isSuffixOf (bs s.ty) then t else bs s.ty)
      | [] => none := by
  induction l with
  | nil => rfl
  | cons s rest ih =>
    simp only [List.map_cons, selectRow, List.filter_cons]
    rw [select_rowOf s t (hal s List.mem_cons_self)]
    by_cases hp : spells s t = true
    · simp [hp]
    · simp only [hp, Bool.false_eq_true, if_false]
      exact ih (fun s' hs' => hal s' (List.mem_cons_of_mem _ hs'))

theorem spec_fragment_rows_have_no_aliases (k : Kind) :
    ∀ s ∈ types k, (bs ".*").isSuffixOf (bs s.ty) = true → s.aliases = [] := by
  cases k <;> decide +kernel

/-- **The table-driven dispatch is the specification's classification**, for every kind and every
type string whatsoever: a listed type, a declared alias or an instance of a `.*` type is `known`
with the variant named after the stable type (reported as the stable type, resp. with its suffix);
anything else is custom and keeps its string. -/
theorem dispatch_eq_classify (k : Kind) (t : Str) :
    contentDispatch table k t =
      match classify k t with
      | .known canon reported => (some (variantName canon), reported)
      | .custom => (none, t) := by
  unfold contentDispatch table classify
  rw [selectRow_map_rowOf _ _ (spec_fragment_rows_have_no_aliases k)]
  have : (fun s : SpecType => spells s t) = (fun s : SpecType =>
      let ty := bs s.ty
      if (bs ".*").isSuffixOf ty then (ty.dropLast).isPrefixOf t
      else ty == t || (s.aliases.map bs).contains t) := rfl
  rw [← this]
  cases (types k).filter (fun s => spells s t) with
  | nil => rfl
  | cons s _ =>
    simp only [rowOf]
    by_cases hf : (bs ".*").isSuffixOf (bs s.ty) = true <;> simp [hf]

/-! ## Key order -/

/-- **Dispatch ignores the order of the entries.** For every permutation of the event's top-level
entries — duplicates allowed, no distinctness assumption — the outcome (selection or failure) is
the same: it depends only on the value of `type`, on whether `state_key` is present (non-null) and
on `unsigned.redacted_because`. -/
theorem dispatch_ignores_key_order (tbl : Kind → Table) (e : Enum) (o o' : Obj) (h : o.Perm o') :
    dispatch tbl e o = dispatch tbl e o' := by
  unfold dispatch
  cases e.shape with
  | single k mr => exact dispatchKind_perm tbl k mr h
  | timeline => exact dispatchTimeline_perm tbl h

/-- … and the order of the entries inside `unsigned`. -/
theorem dispatch_ignores_unsigned_key_order (tbl : Kind → Table) (e : Enum) (pre post u u' : Obj)
    (h : u.Perm u') :
    dispatch tbl e (pre ++ (bs "unsigned", .obj u) :: post)
      = dispatch tbl e (pre ++ (bs "unsigned", .obj u') :: post) := by
  have hr := redactionHelper_mid pre post (.obj u) (.obj u') rfl (unsignedHelper_perm h)
  have hty : typeHelper (pre ++ (bs "unsigned", .obj u) :: post)
      = typeHelper (pre ++ (bs "unsigned", .obj u') :: post) := by
    unfold typeHelper; rw [field1_mid_ne _ _ _ _ _ (.obj u') (by decide)]
  have hsk : field1 (pre ++ (bs "unsigned", .obj u) :: post) (bs "state_key")
      = field1 (pre ++ (bs "unsigned", .obj u') :: post) (bs "state_key") :=
    field1_mid_ne _ _ _ _ _ _ (by decide)
  have hk : ∀ k mr, dispatchKind tbl k mr (pre ++ (bs "unsigned", .obj u) :: post)
      = dispatchKind tbl k mr (pre ++ (bs "unsigned", .obj u') :: post) := by
    intro k mr; unfold dispatchKind; rw [hty, hr]
  unfold dispatch
  cases e.shape with
  | single k mr => exact hk k mr
  | timeline => unfold dispatchTimeline; rw [hsk, hk, hk]

/-! ## Redaction detection, timeline split -/

/-- `unsigned` carries a `redacted_because` that is not `null`. -/
def RedactedBecausePresent : JVal → Prop
  | .obj u => ∃ v, (bs "redacted_because", v) ∈ u ∧ isNull v = false
  | .arr [x] => isNull x = false
  | _ => False

theorem dispatch_redacted (tbl : Kind → Table) (e : Enum) (o : Obj) (sel : Sel)
    (h : dispatch tbl e o = .ok sel) :
    if e.maybeRedacted then redactionHelper o = .ok sel.redacted else sel.redacted = false := by
  have hk : ∀ k mr, dispatchKind tbl k mr o = .ok sel →
      if mr then redactionHelper o = .ok sel.redacted else sel.redacted = false := by
    intro k mr h
    unfold dispatchKind at h
    cases ht : typeHelper o with
    | error e => rw [ht] at h; cases h
    | ok t =>
      rw [ht] at h
      simp only at h
      cases mr with
      | false => simp only [Bool.false_eq_true, if_false] at h ⊢; injection h with h; subst h; rfl
      | true =>
        simp only [if_true] at h ⊢
        cases hr : redactionHelper o with
        | error e => rw [hr] at h; cases h
        | ok b => rw [hr] at h; injection h with h; subst h; rfl
  unfold dispatch at h
  unfold Enum.maybeRedacted
  cases hs : e.shape with
  | single k mr => simp only [hs] at h ⊢; exact hk k mr h
  | timeline =>
    simp only [hs, dispatchTimeline] at h ⊢
    cases hf : field1 o (bs "state_key") with
    | error err => simp only [hf] at h; cases h
    | ok sk =>
      simp only [hf] at h
      cases ho : optSome sk <;> simp only [ho, Bool.false_eq_true, if_false, if_true] at h
      · exact hk _ true h
      · exact hk _ true h

/-- **Redaction is detected exactly by `unsigned.redacted_because`.** For the enums that have a
redacted form, a successful dispatch chooses `Redacted` iff the event's `unsigned` carries a
non-null `redacted_because`; nothing else in the event (not `content`, not `redacts`, not
`unsigned.redacted_by`, not the type) takes part. Enums without a redacted form never choose it. -/
theorem redaction_detected_iff (tbl : Kind → Table) (e : Enum) (o : Obj) (sel : Sel)
    (h : dispatch tbl e o = .ok sel) :
    sel.redacted = true ↔
      e.maybeRedacted = true ∧ ∃ u, (bs "unsigned", u) ∈ o ∧ RedactedBecausePresent u := by
  have hd := dispatch_redacted tbl e o sel h
  cases hm : e.maybeRedacted with
  | false => rw [hm] at hd; simp at hd; simp [hd]
  | true =>
    rw [hm] at hd; simp only [if_true] at hd
    simp only [true_and]
    unfold redactionHelper at hd
    cases hf : field1 o (bs "unsigned") with
    | error err => rw [hf] at hd; cases hd
    | ok v =>
      rw [hf] at hd
      cases v with
      | none =>
        simp only at hd; injection hd with hd
        have := field1_none_not_mem hf
        rw [← hd]
        simp only [Bool.false_eq_true, false_iff]
        rintro ⟨u, hu, _⟩; exact this u hu
      | some u =>
        obtain ⟨hmem, huniq⟩ := field1_some_mem hf
        simp only at hd
        have key : sel.redacted = true ↔ RedactedBecausePresent u := by
          cases u with
          | null => simp [isNull] at hd; simp [← hd, RedactedBecausePresent]
          | obj kvs =>
            simp only [isNull, Bool.false_eq_true, if_false, unsignedHelper] at hd
            cases hr : field1 kvs (bs "redacted_because") with
            | error err => rw [hr] at hd; cases hd
            | ok rb =>
              rw [hr] at hd; simp only at hd; injection hd with hd
              rw [← hd]
              cases rb with
              | none =>
                have := field1_none_not_mem hr
                simp only [optSome, Bool.false_eq_true, RedactedBecausePresent, false_iff]
                rintro ⟨v, hv, _⟩; exact this v hv
              | some v =>
                obtain ⟨hm2, hu2⟩ := field1_some_mem hr
                simp only [optSome, RedactedBecausePresent, Bool.not_eq_true']
                constructor
                · intro hn; exact ⟨v, hm2, hn⟩
                · rintro ⟨v', hv', hn⟩; rw [← hu2 v' hv']; exact hn
          | arr xs =>
            match xs, hd with
            | [], hd => simp [isNull, unsignedHelper] at hd
            | [x], hd =>
              have hnn : isNull (JVal.arr [x]) = false := rfl
              simp only [hnn, Bool.false_eq_true, if_false, unsignedHelper] at hd
              injection hd with hd
              simp [← hd, RedactedBecausePresent]
            | _ :: _ :: _, hd => simp [isNull, unsignedHelper] at hd
          | bool _ => simp [isNull, unsignedHelper] at hd
          | int _ => simp [isNull, unsignedHelper] at hd
          | float => simp [isNull, unsignedHelper] at hd
          | str _ => simp [isNull, unsignedHelper] at hd
        rw [key]
        constructor
        · intro hp; exact ⟨u, hmem, hp⟩
        · rintro ⟨u', hu', hp⟩; rw [huniq u' hu'] at hp; exact hp

/-- **Timeline split.** `AnyTimelineEvent` / `AnySyncTimelineEvent` choose the state enum iff the
event has a non-null `state_key`, the message-like enum otherwise. -/
theorem timeline_split (tbl : Kind → Table) (e : Enum) (o : Obj) (sel : Sel)
    (he : e.isTimeline = true) (h : dispatch tbl e o = .ok sel) :
    (sel.kind = .state ↔ ∃ v, (bs "state_key", v) ∈ o ∧ isNull v = false) ∧
    (sel.kind = .state ∨ sel.kind = .messageLike) := by
  have hkind : ∀ k mr, dispatchKind tbl k mr o = .ok sel → sel.kind = k := by
    intro k mr h
    unfold dispatchKind at h
    cases ht : typeHelper o with
    | error e => rw [ht] at h; cases h
    | ok t =>
      rw [ht] at h; simp only at h
      cases mr with
      | false => simp only [Bool.false_eq_true, if_false] at h; injection h with h; subst h; rfl
      | true =>
        simp only [if_true] at h
        cases hr : redactionHelper o with
        | error e => rw [hr] at h; cases h
        | ok b => rw [hr] at h; injection h with h; subst h; rfl
  unfold Enum.isTimeline at he
  unfold dispatch at h
  cases hs : e.shape with
  | single k mr => simp [hs] at he
  | timeline =>
    simp only [hs, dispatchTimeline] at h
    cases hf : field1 o (bs "state_key") with
    | error err => simp only [hf] at h; cases h
    | ok sk =>
      simp only [hf] at h
      cases sk with
      | none =>
        simp only [optSome, Bool.false_eq_true, if_false] at h
        have hk := hkind _ _ h
        have := field1_none_not_mem hf
        refine ⟨?_, Or.inr hk⟩
        rw [hk]
        constructor
        · intro hc; cases hc
        · rintro ⟨v, hv, _⟩; exact absurd hv (this v)
      | some v =>
        obtain ⟨hmem, huniq⟩ := field1_some_mem hf
        cases hn : isNull v with
        | true =>
          simp only [optSome, hn, Bool.not_true, Bool.false_eq_true, if_false] at h
          have hk := hkind _ _ h
          refine ⟨?_, Or.inr hk⟩
          rw [hk]
          constructor
          · intro hc; cases hc
          · rintro ⟨v', hv', hn'⟩; rw [huniq v' hv', hn] at hn'; cases hn'
        | false =>
          simp only [optSome, hn, Bool.not_false, if_true] at h
          have hk := hkind _ _ h
          refine ⟨?_, Or.inl hk⟩
          rw [hk]
          simp only [true_iff]
          exact ⟨v, hmem, hn⟩

/-! ## `Raw<T>` -/

/-- **`Raw::get_field` agrees with a full parse**, for every entry list (duplicates, any order,
any nesting): parsing what `get_field` returns gives exactly what a full `serde_json::Value` parse
of the whole object has under that key — in particular both take the LAST of duplicate keys.
Stated on the entry list of the top-level object in text order: JSON text parsing (tokenising,
escapes, numbers) is serde_json's and a parameter here; the tie is `c18.getfield`. -/
theorem getField_eq_full_parse (o : Obj) (k : Str) :
    (getField o k).map fullParse = Obj.get (fullParseO [] o) k := by
  rw [fullParseO_get, getField_eq_from]
  have := getFieldFrom_map none o k fullParse
  simpa [Obj.get] using this.symm

/-- What `get_field` returns, without a fold: the value of the last entry with that key … -/
theorem getField_last (a b : Obj) (k : Str) (v : JVal) (h : ∀ e ∈ b, e.1 ≠ k) :
    getField (a ++ (k, v) :: b) k = some v := by
  rw [getField_eq_from, getFieldFrom_append]
  simp only [getFieldFrom, List.foldl_cons, beq_self_eq_true, if_true]
  exact getFieldFrom_no_key (some v) b k h

/-- … and `None` exactly when no entry has that key. -/
theorem getField_none_iff (o : Obj) (k : Str) : getField o k = none ↔ ∀ e ∈ o, e.1 ≠ k := by
  constructor
  · intro h e he hk
    obtain ⟨a, b, rfl⟩ := List.append_of_mem he
    -- take the last entry with key k in b, if any
    have : ∀ (b : Obj) (a : Obj) (e : Str × JVal), e.1 = k → getField (a ++ e :: b) k ≠ none := by
      intro b
      induction b with
      | nil =>
        intro a e hk
        obtain ⟨k', v⟩ := e; simp only at hk; subst hk
        rw [getField_last a [] _ v (by simp)]; simp
      | cons x t ih =>
        intro a e hk
        by_cases hx : x.1 = k
        · have := ih (a ++ [e]) x hx
          simpa [List.append_assoc] using this
        · obtain ⟨k', v⟩ := e; simp only at hk; subst hk
          rw [getField_eq_from, getFieldFrom_append]
          simp only [getFieldFrom, List.foldl_cons, beq_self_eq_true, if_true]
          have hxb : (x.1 == k') = false := by simpa using hx
          simp only [hxb, Bool.false_eq_true, if_false]
          intro hc
          have := ih (a ++ [(k', v)])
          -- the fold from `some v` over `t` can never return `none`
          have hsome : ∀ (t : Obj) (w : JVal), getFieldFrom (some w) t k' ≠ none := by
            intro t
            induction t with
            | nil => intro w; simp [getFieldFrom]
            | cons y t' ih' =>
              intro w
              simp only [getFieldFrom, List.foldl_cons]
              by_cases hy : (y.1 == k') = true
              · simp only [hy, if_true]; exact ih' y.2
              · simp only [hy]; exact ih' w
          exact hsome t v hc
    exact this b a e hk h
  · intro h
    rw [getField_eq_from]
    exact getFieldFrom_no_key none o k h

/-- **`Raw` holds the text verbatim — as modelled.** `rawText` IS the model of what serde_json's
`RawValue` keeps (the input without the JSON whitespace around the value); this theorem only spells
that definition out (whitespace trimmed at both ends, every byte in between untouched, an input
without surrounding whitespace comes back byte-for-byte). That the real `Raw` does this rests on the
T2 correspondence `c18.raw`, not on a proof. -/
theorem raw_text_verbatim (text : Str) :
    (∃ pre post, text = pre ++ rawText text ++ post ∧
        (∀ b ∈ pre, isWs b = true) ∧ (∀ b ∈ post, isWs b = true)) ∧
    ((∀ a, text.head? = some a → isWs a = false) → (∀ a, text.getLast? = some a → isWs a = false) →
        rawText text = text) := by
  constructor
  · obtain ⟨pre, h1, h2⟩ := dropWhile_suffix isWs text
    obtain ⟨post, h3, h4⟩ := dropWhile_suffix isWs (text.dropWhile isWs).reverse
    refine ⟨pre, post.reverse, ?_, h2, ?_⟩
    · unfold rawText
      have : text.dropWhile isWs = ((text.dropWhile isWs).reverse.dropWhile isWs).reverse ++ post.reverse := by
        have := congrArg List.reverse h3
        simpa using this
      rw [List.append_assoc, ← this, ← h1]
    · intro b hb; exact h4 b (List.mem_reverse.mp hb)
  · intro hh hl
    unfold rawText
    rw [dropWhile_id_of_head isWs text hh]
    rw [dropWhile_id_of_head isWs text.reverse (by
      intro a ha; rw [List.head?_reverse] at ha; exact hl a ha)]
    simp

/-! ## Non-vacuity -/

/-- The hypotheses of the dispatch theorems are satisfiable: a redacted `m.room.member` sync event
with unknown extra keys is dispatched to `RoomMember`, `Redacted`, in the state enum. -/
example :
    dispatch table .anySyncTimeline
      [(bs "zz.extra", .int 1), (bs "unsigned", .obj [(bs "age", .int 3),
          (bs "redacted_because", .obj [(bs "type", .str (bs "m.room.redaction"))])]),
       (bs "state_key", .str (bs "@a:b")), (bs "content", .obj [(bs "membership", .str (bs "join"))]),
       (bs "type", .str (bs "m.room.member")), (bs "zz.extra", .null)]
    = .ok ⟨.state, some (bs "RoomMember"), true, bs "m.room.member"⟩ := by rfl

/-- The alias hypothesis is satisfiable on the specification's table. -/
example :
    dispatch table .anyMessageLike
      [(bs "type", .str (bs "org.matrix.call.sdp_stream_metadata_changed"))]
    = .ok ⟨.messageLike, some (bs "CallSdpStreamMetadataChanged"), false,
        bs "m.call.sdp_stream_metadata_changed"⟩ := by rfl

/-- The wildcard hypothesis is satisfiable: `m.secret_storage.key.abc`. -/
example :
    dispatch table .anyGlobalAccountData [(bs "type", .str (bs "m.secret_storage.key.abc"))]
    = .ok ⟨.globalAccountData, some (bs "SecretStorageKey"), false, bs "m.secret_storage.key.abc"⟩ := by
  rfl

/-- A duplicated `type` is rejected whatever the order; a `null` `state_key` is no state key; a
`null` `redacted_because` is no redaction. -/
example : dispatch table .anyTimeline
    [(bs "type", .str (bs "m.room.message")), (bs "type", .str (bs "m.room.message"))]
    = .error .duplicateField := by rfl
example : dispatch table .anyTimeline
    [(bs "type", .str (bs "m.room.name")), (bs "state_key", .null),
     (bs "unsigned", .obj [(bs "redacted_because", .null)])]
    = .ok ⟨.messageLike, none, false, bs "m.room.name"⟩ := by rfl

/-- Last duplicate wins, in `get_field` and in the full parse alike. -/
example : getField [(bs "a", .int 1), (bs "b", .null), (bs "a", .int 2)] (bs "a") = some (.int 2) := by
  rfl

example : rawText (bs " \n{\"a\" : 1 }\t") = bs "{\"a\" : 1 }" := by rfl

/-! ## The schemas of the real content types -/

section Generated
open Ruma.ContentSchema Ruma.Generated.C18

/-- The total well-formedness check evaluates to `true` on every extracted description (kernel
evaluation; regenerated and re-checked on every run). -/
theorem generated_descs_wfb : descs.all (fun p => wfb p.2) = true := by decide +kernel

/-- **Every schema extracted from the running code is well-formed**: the side condition `WF` of the
fixpoint and duplicate-key theorems holds for each of the modelled content types' schemas, with the
per-field facts probed on this very tree. -/
theorem generated_schemas_wf : ∀ p ∈ schemas, WF p.2 := by
  intro p hp
  obtain ⟨q, hq, rfl⟩ := List.mem_map.mp hp
  exact wfb_sound q.2 (List.all_eq_true.mp generated_descs_wfb q hq)

/-- `roundtrip_fixpoint` at the real schemas: for every modelled content type and every JSON value,
what serialise-after-deserialise yields is read back and written again unchanged. -/
theorem generated_roundtrip_fixpoint : ∀ p ∈ schemas, ∀ j t : JVal,
    project p.2 j = some t → project p.2 t = some t :=
  fun p hp j t h => C18Schema.roundtrip_fixpoint p.2 (generated_schemas_wf p hp) j t h

/-- `ser_deser_idempotent` at the real schemas. -/
theorem generated_ser_deser_idempotent : ∀ p ∈ schemas, ∀ j : JVal,
    (project p.2 j).bind (project p.2) = project p.2 j :=
  fun p hp j => C18Schema.ser_deser_idempotent p.2 (generated_schemas_wf p hp) j

/-- `ser_no_duplicate_keys` at the real schemas. -/
theorem generated_ser_no_duplicate_keys : ∀ p ∈ schemas, ∀ j t : JVal,
    project p.2 j = some t → NoDupKeys t :=
  fun p hp j t h => C18Schema.ser_no_duplicate_keys p.2 (generated_schemas_wf p hp) j t h

/-- The list is not empty and has one entry per modelled content type, under distinct names. -/
example : schemas.length = schemaModelled ∧ 0 < schemaModelled := by decide +kernel
example : (descs.map (·.1)).Nodup := by decide +kernel

end Generated

#print axioms dispatch_table_eq_spec
#print axioms spec_table_wf
#print axioms dispatch_total
#print axioms dispatch_sel
#print axioms dispatch_known
#print axioms dispatch_alias
#print axioms dispatch_prefix
#print axioms dispatch_unknown_custom
#print axioms dispatch_eq_classify
#print axioms dispatch_ignores_key_order
#print axioms dispatch_ignores_unsigned_key_order
#print axioms redaction_detected_iff
#print axioms timeline_split
#print axioms getField_eq_full_parse
#print axioms getField_last
#print axioms getField_none_iff
#print axioms raw_text_verbatim
#print axioms field1_ok_iff
#print axioms typeHelper_ok_iff
#print axioms redactionHelper_ok_iff
#print axioms dispatchKind_ok_iff
#print axioms stripStar_of_suffix
#print axioms select_rowOf
#print axioms selectRow_map_rowOf
#print axioms spec_fragment_rows_have_no_aliases
#print axioms dispatch_redacted
#print axioms Ruma.Props.C18Schema.roundtrip_fixpoint
#print axioms Ruma.Props.C18Schema.ser_deser_idempotent
#print axioms Ruma.Props.C18Schema.ser_no_duplicate_keys
#print axioms Ruma.Props.C18Schema.present_values_preserved_partial
#print axioms Ruma.Props.C18Schema.present_leaf_verbatim
#print axioms Ruma.Props.C18Schema.str_verbatim_of
#print axioms Ruma.Props.C18Schema.int_verbatim
#print axioms Ruma.Props.C18Schema.bool_verbatim
#print axioms Ruma.Props.C18Schema.leaves_verbatim
#print axioms Ruma.Props.C18Schema.leaves_well_formed
#print axioms Ruma.Props.C18Schema.wfb_decides_wf
#print axioms generated_descs_wfb
#print axioms generated_schemas_wf
#print axioms generated_roundtrip_fixpoint
#print axioms generated_ser_deser_idempotent
#print axioms generated_ser_no_duplicate_keys
#print axioms Ruma.Props.C18Schema.key_order_independent
#print axioms Ruma.Props.C18Schema.unknown_fields_never_fail
#print axioms Ruma.Props.C18Schema.unknown_fields_never_fail_catch_all
#print axioms Ruma.Props.C18Schema.catch_all_keeps_unknown
#print axioms Ruma.Props.C18Schema.Examples.presentValuesPreservedStatement_false
end Ruma.Props.C18
