/-
  C12 — push evaluation picks the first matching enabled rule under spec semantics.
  Property theorems only; helper lemmas live in `Lemmas/Push*.lean`.

  Reading guide.
  * Spec (`Spec/Glob.lean`, `Spec/Push.lean`): `Glob p s` (inductive glob relation), `WordMatch p s`
    (a run between word boundaries matches the glob), `Spec.Push.getMatch` (first enabled rule in the
    order override, content, room, sender, underride all of whose conditions hold; nothing for the
    user's own events), `lookup` (dot-path addressing with backslash escapes).
  * Model (`Model/Glob.lean`, `Model/FlattenedJson.lean`, `Model/Push.lean`): `matchesPattern`,
    `matchesWord` / `containsWord` (hand-written scanner `scanLit` / chunked regular expression
    `chunks`), `flatten`,
    `Cond.applies`, `Iter.next`, `getMatch` — the Rust code branch for branch; panics are the
    `Except.error` outcome.
  * External code is the parameter `E : Ext`; `ExtOk E` states what is assumed of `wildmatch` (it
    decides `Glob`) and of `regex` (`is_match` has the standard meaning `RegexMatches` of the
    generated expression). `reference_matchers_ok` shows the assumptions are satisfiable: the small
    Lean matchers the driver runs (and T2 compares with the real crates) satisfy them.
-/
import RumaModel.Lemmas.PushMatch
import RumaModel.Lemmas.PushPath
import RumaModel.Lemmas.PushCount
import RumaModel.Lemmas.PushCond
import RumaModel.Lemmas.PushUnique
import RumaModel.Lemmas.PushUtf8
namespace Ruma.Props.C12
open Ruma.Push
open Ruma.Spec.Glob (Glob WordMatch globDecide wordDecide wordMatches valueMatches)
open Ruma.Spec.Push (CondHolds JsonIs kindRank orderedRules ruleHolds MemberCountDenotes MemberCountHolds
  memberCountDecide hasMentions lookupStr lookup sentBySelf KeysUnique KeysUniqueFields leaves pathString)

/-- The decision procedure `globDecide` is sound and complete for the inductive glob relation, for
every pattern and every text. -/
theorem globDecide_iff_Glob (p s : Text) : globDecide p s = true ↔ Glob p s :=
  Ruma.Spec.Glob.globDecide_iff_Glob p s

/-- The decision procedure `wordDecide` (which answers `c12.spec.word`) is sound and complete for
the spec's word-boundary matching `∃ i j, Glob p s[i,j) ∧ boundary s i ∧ boundary s j`. -/
theorem wordDecide_iff_WordMatch (p s : Text) : wordDecide p s = true ↔ WordMatch p s :=
  Ruma.Spec.Glob.wordDecide_iff_WordMatch p s

/-- The hand-written scanner: for a pattern without wildcards (including the empty one),
`matches_word` never panics and answers exactly the spec's word-boundary matching — in particular
the "find next word and recurse" restart after a failed boundary loses no match and invents none. -/
theorem matchesWord_literal_iff_spec (E : Ext) (p s : Text) (hlit : p.any isWild = false) :
    ∃ b, matchesWord E p s = .ok b ∧ (b = true ↔ WordMatch p s) :=
  matchesWord_literal E p s hlit

example : ("foo bar".toList).any isWild = false := by decide

/-- The wildcard path: the chunk list that `matches_word` builds from ANY pattern (escaped literals,
`(?s:.){n}` for a run of `?`, `(?s:.){n,}` for a run containing `*`) denotes exactly the language of
the glob, and the whole generated expression `(^|\W|\b) chunks (\b|\W|$)` — with the standard
meaning `RegexMatches` of such an expression — matches a text iff the spec's word matching holds.
No hypothesis about newlines is needed: the groups are built with `(?s:.)` (F13 is fixed). -/
theorem wildcard_chunks_iff_spec (p : Text) :
    (∀ t, ChunksMatch (chunks p) t ↔ Glob p t) ∧
    (p ≠ [] → ∀ s, RegexMatches (chunks p) s ↔ WordMatch p s) :=
  ⟨chunks_spec p, fun hp s => RegexMatches_chunks_iff p s hp⟩

example : "a*b".toList ≠ [] := by decide

/-- The edge groups of the generated expression are the spec's word boundaries:
`(?-u:^|\W|\b)` can end at position `i` iff `boundary s i`, `(?-u:\b|\W|$)` can start at `j` iff
`boundary s j`. -/
theorem regex_edges_are_boundaries (s : Text) (k : Nat) (hk : k ≤ s.length) :
    (startEdge s k = true ↔ Ruma.Spec.Glob.boundary s k) ∧
    (endEdge s k = true ↔ Ruma.Spec.Glob.boundary s k) :=
  ⟨startEdge_iff s k hk, endEdge_iff s k hk⟩

/-- `matches_pattern` never panics and is the spec's case-insensitive matching, for every value and
pattern: word-boundary matching if `match_words`, whole-value glob matching otherwise (given the
assumptions about `wildmatch` and `regex`). -/
theorem matchesPattern_iff_spec (E : Ext) (hE : ExtOk E) (value pattern : Text) (matchWords : Bool) :
    ∃ b, matchesPattern E value pattern matchWords = .ok b ∧
      (b = true ↔ if matchWords then Ruma.Spec.Glob.wordMatches E.lower pattern value
                  else Ruma.Spec.Glob.valueMatches E.lower pattern value) := by
  refine ⟨_, matchesPattern_spec E hE value pattern matchWords, ?_⟩
  cases matchWords
  · simp only [Bool.false_eq_true, if_false, Ruma.Spec.Glob.valueDecide, Ruma.Spec.Glob.valueMatches]
    exact Ruma.Spec.Glob.globDecide_iff_Glob _ _
  · simp only [if_true, Ruma.Spec.Glob.wordMatchDecide, Ruma.Spec.Glob.wordMatches]
    exact Ruma.Spec.Glob.wordDecide_iff_WordMatch _ _

/-- `contains_display_name` — "`content.body` contains the owner's display name": `contains_word`
never panics and holds iff the display name occurs in the body as LITERAL text (a `*` or `?` in a
display name is an ordinary character, unlike in an `event_match` pattern) between word boundaries,
case-insensitively; for EVERY display name and body. A name without `*` / `?` is matched exactly as
the same text used as an `event_match` pattern on `content.body` would be. -/
theorem containsDisplayName_literal (E : Ext) (body name : Text) :
    (∃ b, containsWord E body name = .ok b ∧
      (b = true ↔ Ruma.Spec.Glob.containsWordMatches E.lower name body)) ∧
    ((∀ c ∈ E.lower name, c ≠ '*' ∧ c ≠ '?') →
      (Ruma.Spec.Glob.containsWordMatches E.lower name body ↔ wordMatches E.lower name body)) :=
  ⟨⟨_, containsWord_spec E body name, Ruma.Spec.Glob.literalWordDecide_iff _ _⟩,
   fun h => Ruma.Spec.Glob.LiteralWordMatch_iff_WordMatch h _⟩

/-- The display name `*` does not match everything: it has to occur, as the character `*`. -/
example : Ruma.Spec.Glob.literalWordDecide "*".toList "hello".toList = false ∧
    Ruma.Spec.Glob.literalWordDecide "*".toList "a * b".toList = true ∧
    wordDecide "*".toList "hello".toList = true := by decide

/-- The assumptions `ExtOk` are satisfiable: the reference matchers of the driver (`globDecide` for
`wildmatch`, `rxDecide` for the generated regular expression) satisfy them, for any `lower` and
`isUserId`. -/
theorem reference_matchers_ok (lower : Text → Text) (isUserId : Text → Bool) :
    ExtOk { lower := lower, wild := globDecide, rxMatch := rxDecide, isUserId := isUserId } :=
  refExt_ok lower isUserId

/-- A concrete instance of the external functions satisfying `ExtOk` (hypothesis of the theorems
below), and a concrete non-trivial evaluation: a disabled override rule is skipped and the
underride rule with a member-count condition matches somebody else's event. -/
private def exE : Ext := { lower := id, wild := globDecide, rxMatch := rxDecide, isUserId := fun _ => true }
private def exRule : CondRule := ⟨true, "r".toList, [.roomMemberCount ⟨.ge, 2⟩]⟩
private def exRs : Ruleset := ⟨[⟨false, "off".toList, []⟩], [], [], [], [exRule]⟩
private def exCtx : Ctx := ⟨"!r:h".toList, 3, "@me:h".toList, "me".toList, none⟩
private def exEv : PJ := .obj [("sender".toList, .str "@you:h".toList)]

example : ExtOk exE := reference_matchers_ok _ _

example : getMatch exE exRs exEv exCtx = .ok (some (.underride exRule)) := by
  rw [getMatch_spec exE (reference_matchers_ok _ _)]
  rfl

/-- `RoomMemberCountIs::contains` (through `RangeBounds`) is the comparison the prefix names. -/
theorem memberCount_iff (is : MemberCountIs) (x : Nat) :
    is.contains x = true ↔
      match is.prefix_ with
      | .eq => x = is.count
      | .lt => x < is.count
      | .gt => x > is.count
      | .ge => x ≥ is.count
      | .le => x ≤ is.count := by
  rw [memberCount_eq]
  obtain ⟨op, n⟩ := is
  cases op <;> simp [Ruma.Spec.Push.compare]

/-- FULL-STRENGTH statement about the `is` string of `room_member_count` as it arrives in JSON: the
code's reading (`RoomMemberCountIs::from_str`, then `contains`) is the spec's — "a decimal integer
optionally prefixed by one of `==`, `<`, `>`, `>=` or `<=`", anything else is not a condition the
spec defines (`none`). FALSE of the code: see `memberCountStringStatement_refuted`. -/
def MemberCountStringStatement : Prop :=
  ∀ (s : Text) (x : Nat), memberCountStr s x = Ruma.Spec.Push.memberCountDecide s x

/-- Known finding (findings/C12.json, replayed on the real deserializer on every run): the statement
above is false. `RoomMemberCountIs::from_str` hands the count to `u64::from_str`, which skips one
leading `+`: `"+3"` is read as `==3` and holds in a room of 3 members, while the spec's grammar has
no `+` (the condition is not one the spec defines). -/
theorem memberCountStringStatement_refuted : ¬ MemberCountStringStatement := by
  intro h
  have := h "+3".toList 3
  revert this
  decide

/-- What does hold: for every `is` string without a `+` and every member count, the code reads the
string exactly as the spec does — same strings rejected, same comparison and number otherwise
(including the arm order `<=` before `<`, `>=` before `>`, the `2^53 − 1` limit, leading zeros,
non-ASCII digits rejected). Missing for the full statement: exactly the strings containing `+`. -/
theorem memberCount_string_iff_partial (s : Text) (x : Nat) (hplus : '+' ∉ s) :
    memberCountStr s x = Ruma.Spec.Push.memberCountDecide s x := by
  unfold memberCountStr Ruma.Spec.Push.memberCountDecide
  rw [fromStr_noplus s hplus]
  cases List.findSome? (Ruma.Spec.Push.readAs s) Ruma.Spec.Push.opSpellings with
  | none => rfl
  | some r => simp [memberCount_eq]

example : '+' ∉ ">=10".toList ∧ memberCountStr ">=10".toList 10 = some true := by decide

/-- `sender_notification_permission` holds iff there is a power-levels context, the event's sender
is a user id, the key is `room`, and the sender's level (own entry, else `users_default`) is at
least `notifications.room`. -/
theorem notificationPermission_iff (E : Ext) (ev : FMap) (ctx : Ctx) (key : Text) :
    senderMayNotify E ev ctx key = true ↔
      ∃ pl sender, ctx.powerLevels = some pl ∧ ev.getStr kSender = some sender ∧
        E.isUserId sender = true ∧ key = kRoom ∧ userLevel pl sender ≥ pl.room := by
  unfold senderMayNotify notificationsGet
  cases hpl : ctx.powerLevels with
  | none => simp
  | some pl =>
    cases hs : ev.getStr kSender with
    | none => simp
    | some v =>
      cases hu : E.isUserId v
      · simp [hu]
      · by_cases hk : key = kRoom
        · simp [hu, hk]
        · simp [hu, hk]

/-- Distinct key paths (with any `.` and `\` inside keys, empty keys included) have distinct
escaped property paths: `pathString` is injective on non-empty key paths — `parsePath` is a left
inverse. -/
theorem flatten_path_injective {ks ks' : List Text} (h : ks ≠ []) (h' : ks' ≠ [])
    (heq : Ruma.Spec.Push.pathString ks = Ruma.Spec.Push.pathString ks') : ks = ks' :=
  pathString_injective h h' heq

/-- `FlattenedJson::from_raw` inserts exactly the leaves of the event under their escaped property
paths; hence `get` is the spec's dot-path lookup (`toF` = the flattened form of a leaf value), and
`get_str` / `contains_mentions` are `lookupStr` / `hasMentions`. -/
theorem flatten_get_eq_lookup (ev : PJ) (key : Text) :
    (flatten ev).get key = (Ruma.Spec.Push.lookup ev key).map toF ∧
    (flatten ev).getStr key = Ruma.Spec.Push.lookupStr ev key ∧
    containsMentions (flatten ev) = Ruma.Spec.Push.hasMentions ev :=
  ⟨flatten_get ev key, flatten_getStr ev key, flatten_containsMentions ev⟩

/-- Main theorem. For every ruleset, event and room context, `Ruleset::get_match` never panics and
returns the spec's match: nothing if the user sent the event themselves, otherwise the first rule —
kinds in the order override, content, room, sender, underride, list order within a kind — that is
enabled and all of whose conditions hold under the spec's semantics (given the assumptions about
`wildmatch` and `regex`). -/
theorem getMatch_first_enabled (E : Ext) (hE : ExtOk E) (rs : Ruleset) (ev : PJ) (ctx : Ctx) :
    getMatch E rs ev ctx = .ok (Ruma.Spec.Push.getMatch (paramsOf E) rs ev ctx) :=
  getMatch_spec E hE rs ev ctx

/-- Stated outright: the returned rule `r` splits the priority-ordered rule list as
`before ++ r :: after` with `r` holding and no rule of `before` holding. -/
theorem getMatch_is_first (E : Ext) (hE : ExtOk E) (rs : Ruleset) (ev : PJ) (ctx : Ctx) (r : AnyRule)
    (h : getMatch E rs ev ctx = .ok (some r)) :
    ∃ before after, Ruma.Spec.Push.orderedRules rs = before ++ r :: after ∧
      Ruma.Spec.Push.ruleHolds (paramsOf E) ev ctx r = true ∧
      ∀ x ∈ before, Ruma.Spec.Push.ruleHolds (paramsOf E) ev ctx x = false := by
  rw [getMatch_spec E hE] at h
  simp only [Except.ok.injEq] at h
  unfold Ruma.Spec.Push.getMatch at h
  split at h
  · cases h
  · obtain ⟨hr, as, bs, hsplit, hno⟩ := List.find?_eq_some_iff_append.1 h
    exact ⟨as, bs, hsplit, hr, fun x hx => by simpa using hno x hx⟩

/-- Stated outright: an event sent by the user themselves matches nothing. -/
theorem getMatch_self_sent (E : Ext) (hE : ExtOk E) (rs : Ruleset) (ev : PJ) (ctx : Ctx)
    (h : Ruma.Spec.Push.lookupStr ev Ruma.Spec.Push.keySender = some ctx.userId) :
    getMatch E rs ev ctx = .ok none := by
  rw [getMatch_spec E hE]
  simp [Ruma.Spec.Push.getMatch, Ruma.Spec.Push.sentBySelf, h]

/-- Stated outright: a disabled rule is never returned. -/
theorem getMatch_never_disabled (E : Ext) (hE : ExtOk E) (rs : Ruleset) (ev : PJ) (ctx : Ctx)
    (r : AnyRule) (h : getMatch E rs ev ctx = .ok (some r)) : Ruma.Spec.Push.enabled r = true := by
  obtain ⟨_, _, _, hr, _⟩ := getMatch_is_first E hE rs ev ctx r h
  unfold Ruma.Spec.Push.ruleHolds at hr
  simp only [Bool.and_eq_true] at hr
  exact hr.1.1

/-- Stated outright: if nothing is returned for somebody else's event, no rule holds. -/
theorem getMatch_none (E : Ext) (hE : ExtOk E) (rs : Ruleset) (ev : PJ) (ctx : Ctx)
    (hother : Ruma.Spec.Push.sentBySelf ev ctx = false) (h : getMatch E rs ev ctx = .ok none) :
    ∀ r ∈ Ruma.Spec.Push.orderedRules rs, Ruma.Spec.Push.ruleHolds (paramsOf E) ev ctx r = false := by
  rw [getMatch_spec E hE] at h
  simp only [Except.ok.injEq, Ruma.Spec.Push.getMatch, hother, Bool.false_eq_true, if_false] at h
  intro r hr
  simpa using List.find?_eq_none.1 h r hr

/-- `matches_word` as a whole — the `self == pattern` shortcut, the empty pattern, the wildcard path
(chunked regular expression) and the literal path (hand-written scanner) together: for every
pattern and every text it never panics and answers exactly the spec's word-boundary matching
(given the assumption about `regex`). -/
theorem matchesWord_iff_spec (E : Ext) (hE : ExtOk E) (p s : Text) :
    ∃ b, matchesWord E p s = .ok b ∧ (b = true ↔ WordMatch p s) :=
  ⟨_, matchesWord_spec E hE p s, Ruma.Spec.Glob.wordDecide_iff_WordMatch p s⟩

/-- The six spellings of `is`: for every count up to `2^53 − 1`, `n`, `==n`, `<n`, `>n`, `>=n`,
`<=n` (`n` in decimal) are read by `RoomMemberCountIs::from_str` as the comparison they name with
`n`; and what `Display` writes is read back as the same value. -/
theorem memberCount_spellings (n : Nat) (hn : n ≤ maxSafeUInt) :
    let d := Nat.toDigits 10 n
    MemberCountIs.fromStr d = some ⟨.eq, n⟩ ∧
    MemberCountIs.fromStr ("==".toList ++ d) = some ⟨.eq, n⟩ ∧
    MemberCountIs.fromStr ("<".toList ++ d) = some ⟨.lt, n⟩ ∧
    MemberCountIs.fromStr (">".toList ++ d) = some ⟨.gt, n⟩ ∧
    MemberCountIs.fromStr (">=".toList ++ d) = some ⟨.ge, n⟩ ∧
    MemberCountIs.fromStr ("<=".toList ++ d) = some ⟨.le, n⟩ ∧
    ∀ op, MemberCountIs.fromStr (MemberCountIs.display ⟨op, n⟩) = some ⟨op, n⟩ :=
  ⟨fromStr_spelling ([], .eq) (by decide) n hn, fromStr_spelling ("==".toList, .eq) (by decide) n hn,
   fromStr_spelling ("<".toList, .lt) (by decide) n hn, fromStr_spelling (">".toList, .gt) (by decide) n hn,
   fromStr_spelling (">=".toList, .ge) (by decide) n hn, fromStr_spelling ("<=".toList, .le) (by decide) n hn,
   fun op => fromStr_display ⟨op, n⟩ hn⟩

example : (9007199254740991 : Nat) ≤ maxSafeUInt := by decide

/-- The decision procedure that answers `c12.spec.count` is sound and complete for the spec's
grammar of `is` (`MemberCountDenotes`: one of the spellings `==`, `<`, `>`, `>=`, `<=` or none,
followed by a non-empty string of ASCII digits denoting a number ≤ 2^53 − 1): it says `true` iff the
condition holds, and `none` iff the string is not a well-formed `is`; a well-formed string denotes
exactly one comparison. -/
theorem memberCountDecide_iff_Holds (s : Text) (x : Nat) :
    (memberCountDecide s x = some true ↔ MemberCountHolds s x) ∧
    (memberCountDecide s x = none ↔ ¬ ∃ op n, MemberCountDenotes s op n) ∧
    (∀ op n op' n', MemberCountDenotes s op n → MemberCountDenotes s op' n' → op = op' ∧ n = n') :=
  ⟨memberCountDecide_true_iff s x, memberCountDecide_none_iff s x,
   fun _ _ _ _ h h' => MemberCountDenotes_unique h h'⟩

/-- Every `PushCondition` variant: `PushCondition::applies` never panics and holds iff the event was
not sent by the user and the condition holds in the spec's reading `CondHolds` — `event_match`
(string property, or the context's room id for `room_id`; word-boundary glob for `content.body`,
whole-value glob otherwise), `contains_display_name` (the name as literal text on word boundaries), `room_member_count`,
`sender_notification_permission`, `event_property_is`, `event_property_contains`; an unknown
condition never holds. -/
theorem condition_iff_spec (E : Ext) (hE : ExtOk E) (ev : PJ) (ctx : Ctx) (c : Cond) :
    ∃ b, c.applies E (flatten ev) ctx = .ok b ∧
      (b = true ↔ sentBySelf ev ctx = false ∧ CondHolds (paramsOf E) ev ctx c) := by
  cases hself : selfSent (flatten ev) ctx
  · refine ⟨_, Cond_applies_eq E hE ev ctx hself c, ?_⟩
    rw [condHolds_iff, ← selfSent_eq, hself]
    simp
  · refine ⟨false, by simp [Cond.applies, hself], ?_⟩
    rw [← selfSent_eq, hself]
    simp

/-- Stated outright: an unknown condition kind never holds (so a rule containing one never
matches). -/
theorem condition_unknown_false (E : Ext) (ev : FMap) (ctx : Ctx) :
    Cond.custom.applies E ev ctx = .ok false := by
  unfold Cond.applies
  split <;> rfl

/-- `event_property_is`: holds iff the event has a property at exactly that (escaped) path whose
value is exactly the given scalar — same JSON type, same value; integers are compared as
canonical-JSON integers; arrays, objects and floats never match. -/
theorem eventPropertyIs_iff (E : Ext) (hE : ExtOk E) (ev : PJ) (ctx : Ctx) (key : Text) (value : Scalar)
    (hother : sentBySelf ev ctx = false) :
    (Cond.eventPropertyIs key value).applies E (flatten ev) ctx = .ok true ↔
      ∃ v, lookup ev key = some v ∧ v = Ruma.Spec.Push.scalarJson value ∧
        ∀ i, value = .int i → Ruma.Spec.Push.canonicalInt i = true := by
  obtain ⟨b, hb, hiff⟩ := condition_iff_spec E hE ev ctx (.eventPropertyIs key value)
  rw [hb]
  simp only [Except.ok.injEq, hiff, hother, true_and]
  rfl

/-- `event_property_contains`: holds iff the property at that path is an array one of whose
elements is exactly the given scalar. -/
theorem eventPropertyContains_iff (E : Ext) (hE : ExtOk E) (ev : PJ) (ctx : Ctx) (key : Text)
    (value : Scalar) (hother : sentBySelf ev ctx = false) :
    (Cond.eventPropertyContains key value).applies E (flatten ev) ctx = .ok true ↔
      ∃ xs, lookup ev key = some (.arr xs) ∧ ∃ x ∈ xs, x = Ruma.Spec.Push.scalarJson value ∧
        ∀ i, value = .int i → Ruma.Spec.Push.canonicalInt i = true := by
  obtain ⟨b, hb, hiff⟩ := condition_iff_spec E hE ev ctx (.eventPropertyContains key value)
  rw [hb]
  simp only [Except.ok.injEq, hiff, hother, true_and]
  rfl

/-- Kind priority, stated outright: the returned rule's kind is the most important kind
(override < content < room < sender < underride) that has a holding rule — no rule that holds
belongs to a more important kind than the rule returned. -/
theorem getMatch_kind_priority (E : Ext) (hE : ExtOk E) (rs : Ruleset) (ev : PJ) (ctx : Ctx)
    (r : AnyRule) (h : getMatch E rs ev ctx = .ok (some r)) :
    ∀ x ∈ orderedRules rs, ruleHolds (paramsOf E) ev ctx x = true → kindRank r ≤ kindRank x := by
  obtain ⟨before, after, hsplit, hr, hno⟩ := getMatch_is_first E hE rs ev ctx r h
  intro x hx hxh
  have hs := orderedRules_sorted rs
  rw [hsplit] at hs hx
  rcases List.mem_append.1 hx with hb | hb
  · rw [hno x hb] at hxh; cases hxh
  · rcases List.mem_cons.1 hb with rfl | ha
    · exact Nat.le_refl _
    · have := (List.pairwise_append.1 hs).2.1
      exact List.rel_of_pairwise_cons this ha

/-- The rule holds in the spec's sense, as a proposition: enabled, not a legacy mention rule
switched off by `m.mentions`, and every condition it stands for holds. -/
theorem ruleHolds_iff (E : Ext) (ev : PJ) (ctx : Ctx) (r : AnyRule) :
    ruleHolds (paramsOf E) ev ctx r = true ↔
      Ruma.Spec.Push.enabled r = true ∧
      ¬ (Ruma.Spec.Push.legacyMention r = true ∧ hasMentions ev = true) ∧
      ∀ c ∈ Ruma.Spec.Push.conditions r, CondHolds (paramsOf E) ev ctx c := by
  unfold ruleHolds
  simp only [Bool.and_eq_true, Bool.not_eq_true', List.all_eq_true, condHolds_iff, and_assoc]
  constructor
  · rintro ⟨h1, h2, h3⟩
    refine ⟨h1, ?_, h3⟩
    rintro ⟨a, b⟩; simp [a, b] at h2
  · rintro ⟨h1, h2, h3⟩
    refine ⟨h1, ?_, h3⟩
    cases ha : Ruma.Spec.Push.legacyMention r <;> cases hb : hasMentions ev <;> simp_all

/-- Per-kind shape of `AnyPushRuleRef::applies` for somebody else's event (never a panic):
* override / underride: enabled, all conditions hold, and the rule is not `.m.rule.roomnotif` /
  `.m.rule.contains_display_name` on an event carrying `content.m.mentions`;
* content: enabled, `content.body` is a string that the rule's pattern matches on word boundaries,
  and the rule is not `.m.rule.contains_user_name` on an event carrying `content.m.mentions`;
* room: enabled and the rule id, as a glob, matches the room id of the context (not of the event);
* sender: enabled and `sender` is a string that the rule id, as a glob, matches. -/
theorem rule_applies_shapes (E : Ext) (hE : ExtOk E) (ev : PJ) (ctx : Ctx)
    (hother : sentBySelf ev ctx = false) :
    (∀ r : CondRule, ∀ k ∈ [AnyRule.override_, AnyRule.underride],
      (k r).applies E (flatten ev) ctx = .ok true ↔
        r.enabled = true ∧
        ¬ ((r.ruleId = Ruma.Spec.Push.ruleRoomNotif ∨ r.ruleId = Ruma.Spec.Push.ruleContainsDisplayName) ∧
            hasMentions ev = true) ∧
        ∀ c ∈ r.conditions, CondHolds (paramsOf E) ev ctx c) ∧
    (∀ r : PatRule, (AnyRule.content r).applies E (flatten ev) ctx = .ok true ↔
        r.enabled = true ∧
        ¬ (r.ruleId = Ruma.Spec.Push.ruleContainsUserName ∧ hasMentions ev = true) ∧
        ∃ body, lookupStr ev Ruma.Spec.Push.keyContentBody = some body ∧
          wordMatches E.lower r.pattern body) ∧
    (∀ r : SimpleRule, (AnyRule.room r).applies E (flatten ev) ctx = .ok true ↔
        r.enabled = true ∧ valueMatches E.lower r.ruleId ctx.roomId) ∧
    (∀ r : SimpleRule, (AnyRule.sender r).applies E (flatten ev) ctx = .ok true ↔
        r.enabled = true ∧
        ∃ s, lookupStr ev Ruma.Spec.Push.keySender = some s ∧ valueMatches E.lower r.ruleId s) := by
  have hself : selfSent (flatten ev) ctx = false := by rw [selfSent_eq]; exact hother
  have key : ∀ r : AnyRule, r.applies E (flatten ev) ctx = .ok true ↔ ruleHolds (paramsOf E) ev ctx r = true := by
    intro r; rw [AnyRule_applies_eq E hE ev ctx hself]; simp
  have n1 : ¬ Ruma.Spec.Push.keyContentBody = Ruma.Spec.Push.keyRoomId := by decide
  have n2 : ¬ Ruma.Spec.Push.keyRoomId = Ruma.Spec.Push.keyContentBody := by decide
  have n3 : ¬ Ruma.Spec.Push.keySender = Ruma.Spec.Push.keyRoomId := by decide
  have n4 : ¬ Ruma.Spec.Push.keySender = Ruma.Spec.Push.keyContentBody := by decide
  refine ⟨?_, ?_, ?_, ?_⟩
  · intro r k hk
    simp only [List.mem_cons, List.not_mem_nil, or_false] at hk
    rcases hk with rfl | rfl <;>
    · rw [key, ruleHolds_iff]
      simp only [Ruma.Spec.Push.enabled, Ruma.Spec.Push.legacyMention, Ruma.Spec.Push.conditions,
        Bool.or_eq_true, decide_eq_true_eq]
  · intro r
    rw [key, ruleHolds_iff]
    simp only [Ruma.Spec.Push.enabled, Ruma.Spec.Push.legacyMention, Ruma.Spec.Push.conditions,
      decide_eq_true_eq, List.mem_singleton, forall_eq, CondHolds, n1, if_false, if_true, paramsOf]
  · intro r
    rw [key, ruleHolds_iff]
    simp only [Ruma.Spec.Push.enabled, Ruma.Spec.Push.legacyMention, Ruma.Spec.Push.conditions,
      List.mem_singleton, forall_eq, CondHolds, n2, if_false, if_true, paramsOf, Bool.false_eq_true,
      false_and, not_false_eq_true, true_and]
    constructor
    · rintro ⟨h, v, rfl, hv⟩; exact ⟨h, hv⟩
    · rintro ⟨h, hv⟩; exact ⟨h, _, rfl, hv⟩
  · intro r
    rw [key, ruleHolds_iff]
    simp only [Ruma.Spec.Push.enabled, Ruma.Spec.Push.legacyMention, Ruma.Spec.Push.conditions,
      List.mem_singleton, forall_eq, CondHolds, n3, n4, if_false, paramsOf, Bool.false_eq_true,
      false_and, not_false_eq_true, true_and]

/-- Room and sender rules whose id has no glob character after case folding are plain
case-insensitive equality tests: of the context's room id, resp. of the event's `sender`. -/
theorem room_sender_rule_equality (E : Ext) (hE : ExtOk E) (ev : PJ) (ctx : Ctx)
    (hother : sentBySelf ev ctx = false) (r : SimpleRule)
    (hlit : ∀ c ∈ E.lower r.ruleId, c ≠ '*' ∧ c ≠ '?') :
    ((AnyRule.room r).applies E (flatten ev) ctx = .ok true ↔
        r.enabled = true ∧ E.lower ctx.roomId = E.lower r.ruleId) ∧
    ((AnyRule.sender r).applies E (flatten ev) ctx = .ok true ↔
        r.enabled = true ∧
        ∃ s, lookupStr ev Ruma.Spec.Push.keySender = some s ∧ E.lower s = E.lower r.ruleId) := by
  obtain ⟨_, _, hroom, hsender⟩ := rule_applies_shapes E hE ev ctx hother
  refine ⟨?_, ?_⟩
  · rw [hroom r]; unfold valueMatches; rw [Ruma.Spec.Glob.Glob_literal hlit]
  · rw [hsender r]; unfold valueMatches; simp only [Ruma.Spec.Glob.Glob_literal hlit]

/-- `Ruleset::get_actions` never panics and returns the actions of the rule `get_match` returns —
the spec's first matching enabled rule — or nothing when no rule matches (in particular for the
user's own events). -/
theorem getActions_eq {α : Type} (acts : AnyRule → List α) (E : Ext) (hE : ExtOk E) (rs : Ruleset)
    (ev : PJ) (ctx : Ctx) :
    getActions acts E rs ev ctx =
      .ok (match Ruma.Spec.Push.getMatch (paramsOf E) rs ev ctx with
           | some r => acts r
           | none => []) := by
  unfold getActions
  rw [getMatch_spec E hE]
  cases Ruma.Spec.Push.getMatch (paramsOf E) rs ev ctx <;> rfl

/-- Reading aid for the spec's word matching: for a non-empty pattern without wildcards it says
exactly "the pattern occurs in the text, and neither end of the occurrence is in the middle of a
word" (`bnd l r`: the last character of `l` and the first of `r` are not both in `[A-Za-z0-9_]`). -/
theorem wordMatch_literal_is_occurrence (p s : Text) (hp : p ≠ []) (hlit : ∀ c ∈ p, c ≠ '*' ∧ c ≠ '?') :
    WordMatch p s ↔ ∃ a b, s = a ++ p ++ b ∧ bnd a (p ++ b) = true ∧ bnd (a ++ p) b = true :=
  WordMatch_literal hp hlit s

example : "foo".toList ≠ [] ∧ ∀ c ∈ "foo".toList, c ≠ '*' ∧ c ≠ '?' := by decide

/-- The examples of the Matrix specification ("Conditions": `lunc?*` on `content.body`-like values,
`ex*ple` word matching) and of the upstream test-suite, evaluated with the spec's decision
procedures (lower-casing already applied). -/
example : wordDecide "ex*ple".toList "an example event.".toList = true := by decide
example : wordDecide "ex*ple".toList "exple".toList = true := by decide
example : wordDecide "ex*ple".toList "an exciting triple-whammy".toList = true := by decide
example : globDecide "lunc?*".toList "lunch plans".toList = true := by decide
example : globDecide "lunc?*".toList "lunch".toList = true := by decide
example : globDecide "lunc?*".toList " lunch".toList = false := by decide
example : globDecide "lunc?*".toList "lunc".toList = false := by decide
example : wordDecide "foo".toList "foobar foo".toList = true := by decide
example : wordDecide "foo".toList "foobar foobar".toList = false := by decide
example : wordDecide "bar bar".toList "foobar bar bar".toList = true := by decide
example : wordDecide "a*b".toList "a\nb".toList = true := by decide
example : wordDecide [] [] = true ∧ wordDecide [] "foo".toList = false := by decide

/-- Disabled rules are irrelevant, stated outright: deleting every disabled rule from the ruleset
does not change what `get_match` returns, for any event and context. -/
theorem getMatch_ignores_disabled (E : Ext) (hE : ExtOk E) (rs : Ruleset) (ev : PJ) (ctx : Ctx) :
    getMatch E
        { override_ := rs.override_.filter (·.enabled), content := rs.content.filter (·.enabled),
          room := rs.room.filter (·.enabled), sender := rs.sender.filter (·.enabled),
          underride := rs.underride.filter (·.enabled) } ev ctx =
      getMatch E rs ev ctx := by
  rw [getMatch_spec E hE, getMatch_spec E hE]
  unfold Ruma.Spec.Push.getMatch
  congr 1
  split
  · rfl
  · have key : ∀ (l : List AnyRule), (l.filter Ruma.Spec.Push.enabled).find? (ruleHolds (paramsOf E) ev ctx) =
        l.find? (ruleHolds (paramsOf E) ev ctx) := by
      intro l
      induction l with
      | nil => rfl
      | cons a t ih =>
        by_cases ha : Ruma.Spec.Push.enabled a = true
        · rw [List.filter_cons_of_pos ha, List.find?_cons, List.find?_cons, ih]
        · have hf : ruleHolds (paramsOf E) ev ctx a = false := by
            unfold ruleHolds; simp [ha]
          rw [List.filter_cons_of_neg ha, List.find?_cons, hf, ih]
    rw [← key (orderedRules rs)]
    congr 1
    simp only [orderedRules, List.filter_append, List.filter_map]
    rfl

/-- The sender-is-self shortcut exists at all three levels: for an event the user sent themselves
every condition and every rule answers `false` on its own, not only `get_match`. -/
theorem self_sent_nothing_applies (E : Ext) (ev : FMap) (ctx : Ctx) (h : selfSent ev ctx = true) :
    (∀ c : Cond, c.applies E ev ctx = .ok false) ∧ (∀ r : AnyRule, r.applies E ev ctx = .ok false) := by
  refine ⟨fun c => ?_, fun r => ?_⟩
  · simp [Cond.applies, h]
  · simp [AnyRule.applies, h]

/-- Dot-path addressing is unambiguous: in an event no object of which has a key twice (every
`serde_json::Value`), distinct leaves have distinct escaped property paths — whatever `.` and `\`
the keys contain — and every leaf is exactly what its own path looks up (so "the last leaf with
that path" in `lookup` is "the leaf with that path"). -/
theorem property_paths_unambiguous (ev : PJ) (h : KeysUnique ev) :
    ((leaves ev []).map fun e => pathString e.1).Nodup ∧
    ∀ e ∈ leaves ev [], lookup ev (pathString e.1) = some e.2 ∧
      (flatten ev).get (pathString e.1) = some (toF e.2) :=
  ⟨leaves_paths_nodup ev h, fun e he =>
    ⟨lookup_leaf ev h e he, by rw [flatten_get, lookup_leaf ev h e he]; rfl⟩⟩

example : KeysUnique (.obj [("a.b".toList, .obj [("c".toList, .int 1)]), ("a".toList, .obj [("b.c".toList, .int 2)])]) := by
  simp [KeysUnique, KeysUniqueFields]

/-- Why a model over code points is faithful to code that indexes `&str` by bytes. The scanner
starts from `self.find(pattern)`, a search in the UTF-8 BYTES. UTF-8 is self-synchronising: wherever
the bytes of a non-empty text occur in the bytes of another, they occur on character boundaries and
as an occurrence of the characters (`utf8_occurrence`). Hence the model's code-point-level `findSub`
IS the byte-level `str::find`: its split `(before, from)` is at the byte offset of the first
byte-level occurrence — `cs = before ++ from`, so that offset is a character boundary and
`char_at` / `find_prev_char` read whole characters there —, and it is `none` exactly when the
needle's bytes occur nowhere. -/
theorem find_on_bytes_is_find_on_chars (cp cs : List Char) (hcp : cp ≠ []) :
    (∀ pre post : ByteArray, cs.utf8Encode = pre ++ cp.utf8Encode ++ post →
        ∃ a b : List Char, cs = a ++ cp ++ b ∧ a.utf8Encode = pre ∧ b.utf8Encode = post) ∧
    (∀ before from_, findSub cp cs = some (before, from_) →
        cs = before ++ from_ ∧ IsFirstByteOcc cp cs before.utf8Encode.size) ∧
    (findSub cp cs = none → ¬ ∃ pre post : ByteArray, cs.utf8Encode = pre ++ cp.utf8Encode ++ post) :=
  ⟨utf8_occurrence cs cp hcp, (findSub_is_byte_find cp cs hcp).1, (findSub_is_byte_find cp cs hcp).2⟩

example : "é⚡".toList ≠ [] := by decide

end Ruma.Props.C12

#print axioms Ruma.Props.C12.globDecide_iff_Glob
#print axioms Ruma.Props.C12.wordDecide_iff_WordMatch
#print axioms Ruma.Props.C12.matchesWord_literal_iff_spec
#print axioms Ruma.Props.C12.wildcard_chunks_iff_spec
#print axioms Ruma.Props.C12.regex_edges_are_boundaries
#print axioms Ruma.Props.C12.matchesPattern_iff_spec
#print axioms Ruma.Props.C12.containsDisplayName_literal
#print axioms Ruma.Props.C12.reference_matchers_ok
#print axioms Ruma.Props.C12.memberCount_iff
#print axioms Ruma.Props.C12.notificationPermission_iff
#print axioms Ruma.Props.C12.memberCountStringStatement_refuted
#print axioms Ruma.Props.C12.memberCount_string_iff_partial
#print axioms Ruma.Props.C12.flatten_path_injective
#print axioms Ruma.Props.C12.flatten_get_eq_lookup
#print axioms Ruma.Props.C12.getMatch_first_enabled
#print axioms Ruma.Props.C12.getMatch_is_first
#print axioms Ruma.Props.C12.getMatch_self_sent
#print axioms Ruma.Props.C12.getMatch_never_disabled
#print axioms Ruma.Props.C12.getMatch_none
#print axioms Ruma.Props.C12.matchesWord_iff_spec
#print axioms Ruma.Props.C12.memberCount_spellings
#print axioms Ruma.Props.C12.memberCountDecide_iff_Holds
#print axioms Ruma.Props.C12.condition_iff_spec
#print axioms Ruma.Props.C12.condition_unknown_false
#print axioms Ruma.Props.C12.eventPropertyIs_iff
#print axioms Ruma.Props.C12.eventPropertyContains_iff
#print axioms Ruma.Props.C12.getMatch_kind_priority
#print axioms Ruma.Props.C12.ruleHolds_iff
#print axioms Ruma.Props.C12.rule_applies_shapes
#print axioms Ruma.Props.C12.room_sender_rule_equality
#print axioms Ruma.Props.C12.getActions_eq
#print axioms Ruma.Props.C12.wordMatch_literal_is_occurrence
#print axioms Ruma.Props.C12.getMatch_ignores_disabled
#print axioms Ruma.Props.C12.self_sent_nothing_applies
#print axioms Ruma.Props.C12.property_paths_unambiguous
#print axioms Ruma.Props.C12.find_on_bytes_is_find_on_chars
