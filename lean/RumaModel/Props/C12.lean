/-
  C12 — push evaluation picks the first matching enabled rule under spec semantics.
  Property theorems only; helper lemmas live in `Lemmas/Push*.lean`.
-/
import RumaModel.Lemmas.PushGlob
namespace Ruma.Props.C12
open Ruma.Spec.Glob

/-- The decision procedure `globDecide` is sound and complete for the inductive glob relation, for
every pattern and every text. -/
theorem globDecide_iff_Glob (p s : Text) : globDecide p s = true ↔ Glob p s :=
  Ruma.Spec.Glob.globDecide_iff_Glob p s

end Ruma.Props.C12

#print axioms Ruma.Props.C12.globDecide_iff_Glob
