/-
  C12 — push evaluation picks the first matching enabled rule under spec semantics.
  Property theorems only; helper lemmas live in `Lemmas/Push*.lean`.

  Reading guide.
  * Spec (`Spec/Glob.lean`, `Spec/Push.lean`): `Glob p s` (inductive glob relation), `WordMatch p s`
    (a run between word boundaries matches the glob), `Spec.Push.getMatch` (first enabled rule in the
    order override, content, room, sender, underride all of whose conditions hold; nothing for the
    user's own events), `lookup` (dot-path addressing with backslash escapes).
  * Model (`Model/Glob.lean`, `Model/FlattenedJson.lean`, `Model/Push.lean`): `matchesPattern`,
    `matchesWord` (hand-written scanner `scanLit` / chunked regular expression `chunks`), `flatten`,
    `Cond.applies`, `Iter.next`, `getMatch` — the Rust code branch for branch; panics are the
    `Except.error` outcome.
  * External code is the parameter `E : Ext`; `ExtOk E` states what is assumed of `wildmatch` (it
    decides `Glob`) and of `regex` (`is_match` has the standard meaning `RegexMatches` of the
    generated expression). `reference_matchers_ok` shows the assumptions are satisfiable: the small
    Lean matchers the driver runs (and T2 compares with the real crates) satisfy them.
-/
import RumaModel.Lemmas.PushMatch
import RumaModel.Lemmas.PushPath
import RumaModel.Lemmas.PushCount
namespace Ruma.Props.C12
open Ruma.Push
open Ruma.Spec.Glob (Glob WordMatch globDecide wordDecide)

/-- The decision procedure `globDecide` is sound and complete for the inductive glob relation, for
every pattern and every text. -/
theorem globDecide_iff_Glob (p s : Text) : globDecide p s = true ↔ Glob p s :=
  Ruma.Spec.Glob.globDecide_iff_Glob p s

/-- The decision procedure `wordDecide` (which answers `c12.spec.word`) is sound and complete for
the spec's word-boundary matching `∃ i j, Glob p s[i,j) ∧ boundary s i ∧ boundary s j`. -/
theorem wordDecide_iff_WordMatch (p s : Text) : wordDecide p s = true ↔ WordMatch p s :=
  Ruma.Spec.Glob.wordDecide_iff_WordMatch p s

/-- The hand-written scanner: for a pattern without wildcards (including the empty one),
`matches_word` never panics and answers exactly the spec's word-boundary matching — in particular
the "find next word and recurse" restart after a failed boundary loses no match and invents none. -/
theorem matchesWord_literal_iff_spec (E : Ext) (p s : Text) (hlit : p.any isWild = false) :
    ∃ b, matchesWord E p s = .ok b ∧ (b = true ↔ WordMatch p s) :=
  matchesWord_literal E p s hlit

example : ("foo bar".toList).any isWild = false := by decide

/-- The wildcard path: the chunk list that `matches_word` builds from ANY pattern (escaped literals,
`(?s:.){n}` for a run of `?`, `(?s:.){n,}` for a run containing `*`) denotes exactly the language of
the glob, and the whole generated expression `(^|\W|\b) chunks (\b|\W|$)` — with the standard
meaning `RegexMatches` of such an expression — matches a text iff the spec's word matching holds.
No hypothesis about newlines is needed: the groups are built with `(?s:.)` (F13 is fixed). -/
theorem wildcard_chunks_iff_spec (p : Text) :
    (∀ t, ChunksMatch (chunks p) t ↔ Glob p t) ∧
    (p ≠ [] → ∀ s, RegexMatches (chunks p) s ↔ WordMatch p s) :=
  ⟨chunks_spec p, fun hp s => RegexMatches_chunks_iff p s hp⟩

example : "a*b".toList ≠ [] := by decide

/-- The edge groups of the generated expression are the spec's word boundaries:
`(?-u:^|\W|\b)` can end at position `i` iff `boundary s i`, `(?-u:\b|\W|$)` can start at `j` iff
`boundary s j`. -/
theorem regex_edges_are_boundaries (s : Text) (k : Nat) (hk : k ≤ s.length) :
    (startEdge s k = true ↔ Ruma.Spec.Glob.boundary s k) ∧
    (endEdge s k = true ↔ Ruma.Spec.Glob.boundary s k) :=
  ⟨startEdge_iff s k hk, endEdge_iff s k hk⟩

/-- `matches_pattern` never panics and is the spec's case-insensitive matching, for every value and
pattern: word-boundary matching if `match_words`, whole-value glob matching otherwise (given the
assumptions about `wildmatch` and `regex`). -/
theorem matchesPattern_iff_spec (E : Ext) (hE : ExtOk E) (value pattern : Text) (matchWords : Bool) :
    ∃ b, matchesPattern E value pattern matchWords = .ok b ∧
      (b = true ↔ if matchWords then Ruma.Spec.Glob.wordMatches E.lower pattern value
                  else Ruma.Spec.Glob.valueMatches E.lower pattern value) := by
  refine ⟨_, matchesPattern_spec E hE value pattern matchWords, ?_⟩
  cases matchWords
  · simp only [Bool.false_eq_true, if_false, Ruma.Spec.Glob.valueDecide, Ruma.Spec.Glob.valueMatches]
    exact Ruma.Spec.Glob.globDecide_iff_Glob _ _
  · simp only [if_true, Ruma.Spec.Glob.wordMatchDecide, Ruma.Spec.Glob.wordMatches]
    exact Ruma.Spec.Glob.wordDecide_iff_WordMatch _ _

/-- The assumptions `ExtOk` are satisfiable: the reference matchers of the driver (`globDecide` for
`wildmatch`, `rxDecide` for the generated regular expression) satisfy them, for any `lower` and
`isUserId`. -/
theorem reference_matchers_ok (lower : Text → Text) (isUserId : Text → Bool) :
    ExtOk { lower := lower, wild := globDecide, rxMatch := rxDecide, isUserId := isUserId } :=
  refExt_ok lower isUserId

/-- A concrete instance of the external functions satisfying `ExtOk` (hypothesis of the theorems
below), and a concrete non-trivial evaluation: a disabled override rule is skipped and the
underride rule with a member-count condition matches somebody else's event. -/
private def exE : Ext := { lower := id, wild := globDecide, rxMatch := rxDecide, isUserId := fun _ => true }
private def exRule : CondRule := ⟨true, "r".toList, [.roomMemberCount ⟨.ge, 2⟩]⟩
private def exRs : Ruleset := ⟨[⟨false, "off".toList, []⟩], [], [], [], [exRule]⟩
private def exCtx : Ctx := ⟨"!r:h".toList, 3, "@me:h".toList, "me".toList, none⟩
private def exEv : PJ := .obj [("sender".toList, .str "@you:h".toList)]

example : ExtOk exE := reference_matchers_ok _ _

example : getMatch exE exRs exEv exCtx = .ok (some (.underride exRule)) := by
  rw [getMatch_spec exE (reference_matchers_ok _ _)]
  rfl

/-- `RoomMemberCountIs::contains` (through `RangeBounds`) is the comparison the prefix names. -/
theorem memberCount_iff (is : MemberCountIs) (x : Nat) :
    is.contains x = true ↔
      match is.prefix_ with
      | .eq => x = is.count
      | .lt => x < is.count
      | .gt => x > is.count
      | .ge => x ≥ is.count
      | .le => x ≤ is.count := by
  rw [memberCount_eq]
  obtain ⟨op, n⟩ := is
  cases op <;> simp [Ruma.Spec.Push.compare]

/-- FULL-STRENGTH statement about the `is` string of `room_member_count` as it arrives in JSON: the
code's reading (`RoomMemberCountIs::from_str`, then `contains`) is the spec's — "a decimal integer
optionally prefixed by one of `==`, `<`, `>`, `>=` or `<=`", anything else is not a condition the
spec defines (`none`). FALSE of the code: see `memberCountStringStatement_refuted`. -/
def MemberCountStringStatement : Prop :=
  ∀ (s : Text) (x : Nat), memberCountStr s x = Ruma.Spec.Push.memberCountDecide s x

/-- Known finding (findings/C12.json, replayed on the real deserializer on every run): the statement
above is false. `RoomMemberCountIs::from_str` hands the count to `u64::from_str`, which skips one
leading `+`: `"+3"` is read as `==3` and holds in a room of 3 members, while the spec's grammar has
no `+` (the condition is not one the spec defines). -/
theorem memberCountStringStatement_refuted : ¬ MemberCountStringStatement := by
  intro h
  have := h "+3".toList 3
  revert this
  decide

/-- What does hold: for every `is` string without a `+` and every member count, the code reads the
string exactly as the spec does — same strings rejected, same comparison and number otherwise
(including the arm order `<=` before `<`, `>=` before `>`, the `2^53 − 1` limit, leading zeros,
non-ASCII digits rejected). Missing for the full statement: exactly the strings containing `+`. -/
theorem memberCount_string_iff_partial (s : Text) (x : Nat) (hplus : '+' ∉ s) :
    memberCountStr s x = Ruma.Spec.Push.memberCountDecide s x := by
  unfold memberCountStr Ruma.Spec.Push.memberCountDecide
  rw [fromStr_noplus s hplus]
  cases List.findSome? (Ruma.Spec.Push.readAs s) Ruma.Spec.Push.opSpellings with
  | none => rfl
  | some r => simp [memberCount_eq]

example : '+' ∉ ">=10".toList ∧ memberCountStr ">=10".toList 10 = some true := by decide

/-- `sender_notification_permission` holds iff there is a power-levels context, the event's sender
is a user id, the key is `room`, and the sender's level (own entry, else `users_default`) is at
least `notifications.room`. -/
theorem notificationPermission_iff (E : Ext) (ev : FMap) (ctx : Ctx) (key : Text) :
    senderMayNotify E ev ctx key = true ↔
      ∃ pl sender, ctx.powerLevels = some pl ∧ ev.getStr kSender = some sender ∧
        E.isUserId sender = true ∧ key = kRoom ∧ userLevel pl sender ≥ pl.room := by
  unfold senderMayNotify notificationsGet
  cases hpl : ctx.powerLevels with
  | none => simp
  | some pl =>
    cases hs : ev.getStr kSender with
    | none => simp
    | some v =>
      cases hu : E.isUserId v
      · simp [hu]
      · by_cases hk : key = kRoom
        · simp [hu, hk]
        · simp [hu, hk]

/-- Distinct key paths (with any `.` and `\` inside keys, empty keys included) have distinct
escaped property paths: `pathString` is injective on non-empty key paths — `parsePath` is a left
inverse. -/
theorem flatten_path_injective {ks ks' : List Text} (h : ks ≠ []) (h' : ks' ≠ [])
    (heq : Ruma.Spec.Push.pathString ks = Ruma.Spec.Push.pathString ks') : ks = ks' :=
  pathString_injective h h' heq

/-- `FlattenedJson::from_raw` inserts exactly the leaves of the event under their escaped property
paths; hence `get` is the spec's dot-path lookup (`toF` = the flattened form of a leaf value), and
`get_str` / `contains_mentions` are `lookupStr` / `hasMentions`. -/
theorem flatten_get_eq_lookup (ev : PJ) (key : Text) :
    (flatten ev).get key = (Ruma.Spec.Push.lookup ev key).map toF ∧
    (flatten ev).getStr key = Ruma.Spec.Push.lookupStr ev key ∧
    containsMentions (flatten ev) = Ruma.Spec.Push.hasMentions ev :=
  ⟨flatten_get ev key, flatten_getStr ev key, flatten_containsMentions ev⟩

/-- Main theorem. For every ruleset, event and room context, `Ruleset::get_match` never panics and
returns the spec's match: nothing if the user sent the event themselves, otherwise the first rule —
kinds in the order override, content, room, sender, underride, list order within a kind — that is
enabled and all of whose conditions hold under the spec's semantics (given the assumptions about
`wildmatch` and `regex`). -/
theorem getMatch_first_enabled (E : Ext) (hE : ExtOk E) (rs : Ruleset) (ev : PJ) (ctx : Ctx) :
    getMatch E rs ev ctx = .ok (Ruma.Spec.Push.getMatch (paramsOf E) rs ev ctx) :=
  getMatch_spec E hE rs ev ctx

/-- Stated outright: the returned rule `r` splits the priority-ordered rule list as
`before ++ r :: after` with `r` holding and no rule of `before` holding. -/
theorem getMatch_is_first (E : Ext) (hE : ExtOk E) (rs : Ruleset) (ev : PJ) (ctx : Ctx) (r : AnyRule)
    (h : getMatch E rs ev ctx = .ok (some r)) :
    ∃ before after, Ruma.Spec.Push.orderedRules rs = before ++ r :: after ∧
      Ruma.Spec.Push.ruleHolds (paramsOf E) ev ctx r = true ∧
      ∀ x ∈ before, Ruma.Spec.Push.ruleHolds (paramsOf E) ev ctx x = false := by
  rw [getMatch_spec E hE] at h
  simp only [Except.ok.injEq] at h
  unfold Ruma.Spec.Push.getMatch at h
  split at h
  · cases h
  · obtain ⟨hr, as, bs, hsplit, hno⟩ := List.find?_eq_some_iff_append.1 h
    exact ⟨as, bs, hsplit, hr, fun x hx => by simpa using hno x hx⟩

/-- Stated outright: an event sent by the user themselves matches nothing. -/
theorem getMatch_self_sent (E : Ext) (hE : ExtOk E) (rs : Ruleset) (ev : PJ) (ctx : Ctx)
    (h : Ruma.Spec.Push.lookupStr ev Ruma.Spec.Push.keySender = some ctx.userId) :
    getMatch E rs ev ctx = .ok none := by
  rw [getMatch_spec E hE]
  simp [Ruma.Spec.Push.getMatch, Ruma.Spec.Push.sentBySelf, h]

/-- Stated outright: a disabled rule is never returned. -/
theorem getMatch_never_disabled (E : Ext) (hE : ExtOk E) (rs : Ruleset) (ev : PJ) (ctx : Ctx)
    (r : AnyRule) (h : getMatch E rs ev ctx = .ok (some r)) : Ruma.Spec.Push.enabled r = true := by
  obtain ⟨_, _, _, hr, _⟩ := getMatch_is_first E hE rs ev ctx r h
  unfold Ruma.Spec.Push.ruleHolds at hr
  simp only [Bool.and_eq_true] at hr
  exact hr.1.1

/-- Stated outright: if nothing is returned for somebody else's event, no rule holds. -/
theorem getMatch_none (E : Ext) (hE : ExtOk E) (rs : Ruleset) (ev : PJ) (ctx : Ctx)
    (hother : Ruma.Spec.Push.sentBySelf ev ctx = false) (h : getMatch E rs ev ctx = .ok none) :
    ∀ r ∈ Ruma.Spec.Push.orderedRules rs, Ruma.Spec.Push.ruleHolds (paramsOf E) ev ctx r = false := by
  rw [getMatch_spec E hE] at h
  simp only [Except.ok.injEq, Ruma.Spec.Push.getMatch, hother, Bool.false_eq_true, if_false] at h
  intro r hr
  simpa using List.find?_eq_none.1 h r hr

end Ruma.Props.C12

#print axioms Ruma.Props.C12.globDecide_iff_Glob
#print axioms Ruma.Props.C12.wordDecide_iff_WordMatch
#print axioms Ruma.Props.C12.matchesWord_literal_iff_spec
#print axioms Ruma.Props.C12.wildcard_chunks_iff_spec
#print axioms Ruma.Props.C12.regex_edges_are_boundaries
#print axioms Ruma.Props.C12.matchesPattern_iff_spec
#print axioms Ruma.Props.C12.reference_matchers_ok
#print axioms Ruma.Props.C12.memberCount_iff
#print axioms Ruma.Props.C12.notificationPermission_iff
#print axioms Ruma.Props.C12.memberCountStringStatement_refuted
#print axioms Ruma.Props.C12.memberCount_string_iff_partial
#print axioms Ruma.Props.C12.flatten_path_injective
#print axioms Ruma.Props.C12.flatten_get_eq_lookup
#print axioms Ruma.Props.C12.getMatch_first_enabled
#print axioms Ruma.Props.C12.getMatch_is_first
#print axioms Ruma.Props.C12.getMatch_self_sent
#print axioms Ruma.Props.C12.getMatch_never_disabled
#print axioms Ruma.Props.C12.getMatch_none
