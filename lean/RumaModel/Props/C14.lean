import RumaModel.Lemmas.HtmlTables
namespace Ruma.Props.C14
open Ruma Ruma.Html

theorem strict_lists_eq_spec :
    Generated.C14.strict = Spec.HtmlAllow.expected .strict Generated.C14.univ :=
  Lemmas.HtmlTables.strict_table

theorem compat_lists_eq_spec :
    Generated.C14.compat = Spec.HtmlAllow.expected .compat Generated.C14.univ :=
  Lemmas.HtmlTables.compat_table

theorem spec_within_universe : Spec.HtmlAllow.withinUniverse Generated.C14.univ = true :=
  Lemmas.HtmlTables.within

end Ruma.Props.C14
#print axioms Ruma.Props.C14.strict_lists_eq_spec
#print axioms Ruma.Props.C14.compat_lists_eq_spec
#print axioms Ruma.Props.C14.spec_within_universe
