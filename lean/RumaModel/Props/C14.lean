/-
  C14 — Sanitized HTML has only allow-listed elements, attributes, schemes and classes.
  Property theorems only; helper lemmas live in `Lemmas/Html*.lean`.

  Reading guide. `clean L c roots` is the model of `SanitizerConfig::clean` on the children of a
  parsed fragment (`Model/Html.lean`); `L` are the private static lists of `clean.rs`, `c` is a
  `SanitizerConfig` with every builder field. The predicates `elemOk`, `attrOk`, `valueOk`,
  `classOk`, `AllElemsL`, `NoOtherL`, `depthOfL`, `textOfL`, `keptTextL` are the vocabulary of
  `Spec/HtmlPolicy.lean` (what a configuration promises); `Spec/HtmlAllow.lean` holds the Matrix
  spec's lists. `valueOk` (with `denied`, `schemeList`), `classOk`, `renamed`, `renamedAttr`,
  `tooDeep`, `keptText` and the selection in `keptElems` are written there with `mapGet`, list
  operations and the glob relation `GlobCp` of `Spec/HtmlGlob.lean` only — they call no function of
  the model; `Lemmas/HtmlPolicy.lean` proves that the model's `node_action` /
  `clean_element_attributes` / `apply_replacements` compute them (`*_eq_model`), and
  `Lemmas/HtmlGlob.lean` that the model of `WildMatch::matches` decides `GlobCp`, which on strings
  of Unicode scalar values is the relation `Glob` of `Spec/Glob.lean`. The one place where a
  statement still contains a model function on its specification side is the attribute SET that
  `keptElems` attaches to a kept element (`cleanAttrs … (replaceAttrsOf …)`, see there).
  The first block of theorems holds for EVERY configuration, every choice of static
  lists and every tree. The second block evaluates the promises for `strict()`/`compat()` with and
  without `remove_reply_fallback()` at the spec's lists: there they are the spec's tables. The
  third block (T1) ties the lists the running implementation uses to the spec's.
-/
import RumaModel.Lemmas.HtmlTree
import RumaModel.Lemmas.HtmlTables
import RumaModel.Lemmas.HtmlPlain
import RumaModel.Lemmas.HtmlBuilder
namespace Ruma.Props.C14
open Ruma Ruma.Html Ruma.Spec.HtmlPolicy Ruma.Spec.HtmlGlob Ruma.Lemmas.Html

/-! ## For every configuration and every tree -/

/-- Every element of the output is allowed by the configuration: not removed by name, not
ignored by name, and on the allow list if there is one. -/
theorem clean_elements_allowed (L : Lists) (c : Cfg) (roots : List Node) :
    AllElemsL (fun _ n _ => elemOk L c n = true) 0 (clean L c roots) :=
  cleanList_all L c _ (fun _ _ n as _ h => elemOk_of_none L c n as _ h) roots 0 0 (Nat.le_refl 0)

/-- On every element of the output, every attribute is allowed for that element: its name is
not removed and is on the element's allow list if there is one — and then it is an HTML attribute
(no namespace), so that a parser reading the serialized output sees the same name. -/
theorem clean_attrs_allowed (L : Lists) (c : Cfg) (roots : List Node) :
    AllElemsL (fun _ n as => ∀ a ∈ as, attrOkA L c n a) 0 (clean L c roots) :=
  cleanList_all L c _
    (fun _ _ n as _ _ a ha => ((attrGood_iff L c n a).1 (cleanAttrs_good L c n as a ha)).1)
    roots 0 0 (Nat.le_refl 0)

/-- On every element of the output, EVERY attribute (other than `class`, whose value is a class
list and is rewritten by the class filter) carries an acceptable value: no denied scheme, and if
the attribute has a scheme list the value starts with `scheme:` for a scheme of the list —
whatever other attributes accompany it. (`valueOk` is stated in `Spec/HtmlPolicy.lean` without
functions of the model; read as a statement: `policy_values_read`.) -/
theorem clean_schemes_allowed (L : Lists) (c : Cfg) (roots : List Node) :
    AllElemsL (fun _ n as => ∀ a ∈ as, a.name ≠ className → valueOk L c n a.name a.value = true)
      0 (clean L c roots) :=
  cleanList_all L c _
    (fun _ _ n as _ h a ha hc =>
      ((nodeAction_none_iff L c n as _).1 h).2.2.2 a (cleanAttrs_origin L c n as a ha hc))
    roots 0 0 (Nat.le_refl 0)

/-- Why `class` is excluded above: a configuration may put a scheme list on `class` itself; the
class filter then rewrites the value after the scheme check. (Not reachable in the standard
configurations, see `plain_class_unrestricted`.) -/
example :
    let c : Cfg := { allowSchemes := some ⟨false, [(bs "p", [(className, [bs "a"])])]⟩,
                     removeClasses := some [(bs "p", [bs "a:*"])] }
    clean Spec.HtmlAllow.lists c [.elem (bs "p") [⟨none, [], className, bs "a:x b"⟩] []]
      = [.elem (bs "p") [⟨none, [], className, bs "b"⟩] []] := by decide +kernel

/-- Every class left in a `class` attribute of the output is allowed for its element. (`classOk`
is stated in `Spec/HtmlPolicy.lean` with the glob relation, without functions of the model; read
as a statement: `policy_classes_read`.) -/
theorem clean_classes_allowed (L : Lists) (c : Cfg) (roots : List Node) :
    AllElemsL (fun _ n as => ∀ a ∈ as, a.name = className →
      ∀ cl ∈ splitWs a.value, classOk L c n cl = true) 0 (clean L c roots) :=
  cleanList_all L c _
    (fun _ _ n as _ _ a ha => ((attrGood_iff L c n a).1 (cleanAttrs_good L c n as a ha)).2)
    roots 0 0 (Nat.le_refl 0)

/-- The output consists of elements and text only: no comments or other node kinds. -/
theorem clean_no_other_nodes (L : Lists) (c : Cfg) (roots : List Node) :
    NoOtherL (clean L c roots) :=
  cleanList_noOther L c roots 0

/-- With a maximum depth `m` (100 in strict and compat mode), the output nests at most `m`
levels of elements. -/
theorem clean_depth_le (L : Lists) (c : Cfg) (roots : List Node) (m : Nat)
    (hm : maxDepthValue L c = some m) : depthOfL (clean L c roots) ≤ m := by
  have h := cleanList_all L c (fun d _ _ => d < m)
    (fun dOut dIn n as hle h => Nat.lt_of_le_of_lt hle (depth_of_none L c n as dIn m h hm))
    roots 0 0 (Nat.le_refl 0)
  have := depth_of_allElemsL m _ 0 h (Nat.zero_le m)
  simpa [clean] using this

/-- `valueOk`, read as a statement: no scheme of the element's and attribute's entry in the
`deny_schemes` list starts the value, and if the attribute is restricted (`schemeList`: the entries
of the given list and of the mode's tables, chained) some scheme of that list does. -/
theorem policy_values_read (L : Lists) (c : Cfg) (el a v : Str) :
    valueOk L c el a v = true ↔
      (∀ l, c.denySchemes.bind (cell · el a) = some l → ∀ s ∈ l, hasScheme v s = false) ∧
      (∀ l, Spec.HtmlPolicy.schemeList L c el a = some l → ∃ s ∈ l, hasScheme v s = true) :=
  valueOk_iff_schemes L c el a v

/-- `classOk`, read as a statement with the glob RELATION: no pattern of the element's
`remove_classes` entry matches the class, and if there is an allow list (a list was given or a
mode is set) some pattern of the element's entry in the given list matches it, or — where the
mode's list counts — some pattern of the mode's entry. -/
theorem policy_classes_read (L : Lists) (c : Cfg) (el cl : Str) :
    classOk L c el cl = true ↔
      (∀ pats, c.removeClasses.bind (mapGet · el) = some pats → ∀ p ∈ pats, ¬ GlobCp p cl) ∧
      ((c.allowClasses.isSome ∨ c.mode.isSome) →
        (∃ pats, c.allowClasses.bind (fun l => mapGet l.content el) = some pats ∧
          ∃ p ∈ pats, GlobCp p cl) ∨
        (modeCounts c.allowClasses = true ∧ c.mode.isSome ∧
          ∃ pats, mapGet L.classes el = some pats ∧ ∃ p ∈ pats, GlobCp p cl)) :=
  classOk_iff_glob L c el cl

/-- The glob relation on code points is the glob relation of `Spec/Glob.lean` (Matrix spec,
"Glob-style matching") on strings of Unicode scalar values — which is what a Rust `str` holds —;
the spec-side procedure `globCp` decides it, and so does the model of `WildMatch::matches`. -/
theorem glob_is_spec_glob (p s : Str) :
    (Lemmas.HtmlGlob.Scalars p → Lemmas.HtmlGlob.Scalars s →
      (GlobCp p s ↔ Spec.Glob.Glob (Lemmas.HtmlGlob.toText p) (Lemmas.HtmlGlob.toText s))) ∧
    (globCp p s = true ↔ GlobCp p s) ∧ (globMatch p s = true ↔ GlobCp p s) :=
  ⟨Lemmas.HtmlGlob.globCp_iff_Glob p s, Lemmas.HtmlGlob.globCp_iff p s,
    Lemmas.HtmlGlob.globMatch_iff _ p s (Nat.le_refl _)⟩

/-- The hypotheses of the first part are satisfiable: ASCII and non-ASCII text is scalar values. -/
example : Lemmas.HtmlGlob.Scalars (bs "language-*") ∧ Lemmas.HtmlGlob.Scalars [0x6C, 0xE9, 0x1F600] := by
  constructor <;> (unfold Lemmas.HtmlGlob.Scalars; decide)

/-- `glob_is_spec_glob` on a concrete pattern: `language-*` matches `language-rust`, not `rust`. -/
example : GlobCp (bs "language-*") (bs "language-rust") ∧ ¬ GlobCp (bs "language-*") (bs "rust") :=
  ⟨(Lemmas.HtmlGlob.globCp_iff _ _).1 (by decide), fun h => by
    have := (Lemmas.HtmlGlob.globCp_iff _ _).2 h; revert this; decide⟩

/-- With reply-fallback removal, no `mx-reply` element remains (its content is gone as well:
`clean_keeps_text_in_order` with `keptText` skipping it). -/
theorem clean_no_mx_reply (L : Lists) (c : Cfg) (roots : List Node)
    (h : c.removeReplyFallback = true) :
    AllElemsL (fun _ n _ => n ≠ replyName) 0 (clean L c roots) :=
  cleanList_all L c _
    (fun _ _ n as _ hact hn => by
      have := elemOk_of_none L c n as _ hact
      simp [elemOk, elemRemoved, h, hn] at this)
    roots 0 0 (Nat.le_refl 0)

/-- The text of the output is exactly the text outside dropped subtrees (removed element names,
`mx-reply` under reply-fallback removal, nesting beyond the maximum depth, comments), in document
order: text and descendants of elements that are merely not allowed are kept. -/
theorem clean_keeps_text_in_order (L : Lists) (c : Cfg) (roots : List Node) :
    textOfL (clean L c roots) = keptTextL L c 0 roots :=
  cleanList_text L c roots 0

/-! ## What is dropped, what is hoisted -/

/-- A removed element leaves nothing — neither itself nor any descendant, text or element:
removed by name (after the documented replacements), `mx-reply` under reply-fallback removal, or
nested at or beyond the maximum depth. -/
theorem clean_drops_subtree (L : Lists) (c : Cfg) (d : Nat) (n : Str) (as : List Attr) (cs : List Node)
    (h : elemRemoved c (renamed L c n) = true ∨ tooDeep L c d = true) :
    cleanNode L c d (.elem n as cs) = [] := by
  apply cleanNode_removed
  rw [removeCheck_eq, ← renamed_eq_model, ← tooDeep_eq_model]
  rcases h with h | h <;> simp [h]

/-- With reply-fallback removal, an `mx-reply` element (or one the configuration renames to
`mx-reply`) disappears with everything inside it, wherever it stands — also below elements that
are themselves kept or ignored — and whatever other lists say about it. -/
theorem clean_drops_mx_reply (L : Lists) (c : Cfg) (d : Nat) (n : Str) (as : List Attr) (cs : List Node)
    (h : c.removeReplyFallback = true) (hn : renamed L c n = replyName) :
    cleanNode L c d (.elem n as cs) = [] :=
  clean_drops_subtree L c d n as cs (.inl (by simp [elemRemoved, h, hn]))

/-- The elements of the output, in document order, are exactly the elements of the input that
stand outside dropped subtrees, whose name is allowed and whose attribute values are all
acceptable (`keptElemsL`), each with its filtered attribute set: allowed descendants of elements
that are merely not allowed are kept, in order, and nothing else appears.
Which elements, under which names, in which order: `keptElemsL` says that without functions of the
model (`clean_keeps_allowed_names` states just this part). The attribute set beside each name is
the model's own `cleanAttrs … (replaceAttrsOf …)` on both sides of the equation — for that
component this theorem says nothing beyond the model; what the specification says about it is
`clean_attrs_allowed`, `clean_schemes_allowed`, `clean_classes_allowed`. -/
theorem clean_keeps_allowed_descendants (L : Lists) (c : Cfg) (roots : List Node) :
    elemsOfL (clean L c roots) = keptElemsL L c 0 roots :=
  cleanList_elems L c roots 0

/-- The names of the output's elements, in document order, are the names (after the documented
replacements) of the input's elements that stand outside dropped subtrees, are allowed and carry
only acceptable values — `keptNamesL` (`Spec/HtmlPolicy.lean`) contains no function of the model. -/
theorem clean_keeps_allowed_names (L : Lists) (c : Cfg) (roots : List Node) :
    (elemsOfL (clean L c roots)).map (·.1) = keptNamesL L c 0 roots := by
  rw [clean_keeps_allowed_descendants, keptElemsL_names]

/-- … and an element that is merely not allowed (ignored by name, not on the allow list, or
carrying a value with a scheme that is denied / not allowed) is replaced by its cleaned children,
which count one level deeper. -/
theorem clean_hoists_children (L : Lists) (c : Cfg) (d : Nat) (n : Str) (as : List Attr) (cs : List Node)
    (hr : elemRemoved c (renamed L c n) = false) (hd : tooDeep L c d = false)
    (h : elemOk L c (renamed L c n) = false ∨
      ∃ a ∈ as, valueOk L c (renamed L c n) (renamedAttr L c n a.name) a.value = false) :
    cleanNode L c d (.elem n as cs) = cleanList L c (d + 1) cs := by
  rw [renamed_eq_model] at hr h
  rw [tooDeep_eq_model] at hd
  have h : elemOk L c (replaceNameOf L c n) = false ∨
      ∃ a ∈ replaceAttrsOf L c n as, valueOk L c (replaceNameOf L c n) a.name a.value = false := by
    rcases h with h | ⟨a, ha, hv⟩
    · exact .inl h
    · right
      have := replaceAttrsOf_all L c n as (fun x v => valueOk L c (replaceNameOf L c n) x v)
      have hf : (as.all fun a => valueOk L c (replaceNameOf L c n) (renamedAttr L c n a.name) a.value) = false := by
        rw [List.all_eq_false]; exact ⟨a, ha, by simp [hv]⟩
      rw [← this, List.all_eq_false] at hf
      obtain ⟨b, hb, hbv⟩ := hf
      exact ⟨b, hb, by simpa using hbv⟩
  have : nodeAction L c (replaceNameOf L c n) (replaceAttrsOf L c n as) d = .ignore := by
    rw [nodeAction_ignore_iff, removeCheck_eq, hr, hd]
    refine ⟨rfl, ?_⟩
    rintro ⟨h1, h2, h3⟩
    rcases h with h | ⟨a, ha, hv⟩
    · simp [elemOk, hr, h1, ← allowCheck_eq, h2] at h
    · rw [h3 a ha] at hv; cases hv
  simp [cleanNode, this]

/-! ## The public builder -/

/-- "For every `c : Cfg`" is "for every configuration reachable through the public builder":
every configuration value is the result of `new()` / `strict()` / `compat()` followed by one call
per field that is set; and each call overwrites exactly its own field (a later call of the same
method replaces the earlier one). -/
theorem builder_reaches_every_cfg (c : Cfg) :
    (∃ calls, build c.mode calls = c) ∧
    ∀ m calls call, build m (calls ++ [call]) = call.apply (build m calls) :=
  ⟨builder_reaches c, build_snoc⟩

/-- Removing beats ignoring beats allowing, as the builder documents: an element on the remove
list goes with its content whatever the ignore and allow lists say; an element on the ignore list
(not removed, within the depth limit) is replaced by its children even if an allow list names it. -/
theorem builder_precedence (L : Lists) (c : Cfg) (d : Nat) (n : Str) (as : List Attr) (cs : List Node) :
    (optContains c.removeElements (renamed L c n) = true →
      cleanNode L c d (.elem n as cs) = []) ∧
    (elemRemoved c (renamed L c n) = false → tooDeep L c d = false →
      optContains c.ignoreElements (renamed L c n) = true →
      cleanNode L c d (.elem n as cs) = cleanList L c (d + 1) cs) := by
  constructor
  · intro h
    exact clean_drops_subtree L c d n as cs (.inl (by simp [elemRemoved, h]))
  · intro hr hd hi
    exact clean_hoists_children L c d n as cs hr hd (.inl (by simp [elemOk, hi]))

/-- The element allow list of a configuration: without `allow_elements`, the mode's list (no
mode: everything); with `Override`, exactly the given list; with `Add`, the given list and the
mode's. -/
theorem builder_elements (L : Lists) (c : Cfg) (n : Str) :
    elemListed L c n =
      match c.allowElements with
      | none => c.mode.isNone || L.elements.contains n
      | some ⟨true, l⟩ => l.contains n
      | some ⟨false, l⟩ => l.contains n || (c.mode.isSome && L.elements.contains n) :=
  elemListed_cases L c n

/-- The attribute allow list per element, likewise; `remove_attributes` beats it. -/
theorem builder_attrs (L : Lists) (c : Cfg) (el a : Str) :
    attrOk L c el a =
      (!optContains (c.removeAttrs.bind (mapGet · el)) a &&
      match c.allowAttrs with
      | none => c.mode.isNone || optContains (mapGet L.attrs el) a
      | some ⟨true, l⟩ => optContains (mapGet l el) a
      | some ⟨false, l⟩ => optContains (mapGet l el) a || (c.mode.isSome && optContains (mapGet L.attrs el) a)) :=
  attrOk_cases L c el a

/-- The class allow list per element, likewise (patterns); `remove_classes` beats it. -/
theorem builder_classes (L : Lists) (c : Cfg) (el cl : Str) :
    classOk L c el cl =
      (!matchesAny ((c.removeClasses.bind (mapGet · el)).getD []) cl &&
      match c.allowClasses with
      | none => c.mode.isNone || matchesAny ((mapGet L.classes el).getD []) cl
      | some ⟨true, l⟩ => matchesAny ((mapGet l el).getD []) cl
      | some ⟨false, l⟩ => matchesAny ((mapGet l el).getD []) cl ||
          (c.mode.isSome && matchesAny ((mapGet L.classes el).getD []) cl)) :=
  classOk_cases L c el cl

/-- `allow_schemes(…, Override)`: an attribute is restricted exactly to the schemes the given
list names for it; the mode's lists (also compat's `matrix`) no longer count. -/
theorem builder_schemes_override (L : Lists) (c : Cfg) (l : SchemeMap) (el a : Str)
    (h : c.allowSchemes = some ⟨true, l⟩) :
    Spec.HtmlPolicy.schemeList L c el a = (mapGet l el).bind (mapGet · a) :=
  schemeList_override L c l el a h

/-- `allow_schemes(…, Add)` and no `allow_schemes` at all: the schemes of the given list (if any),
of the strict list when a mode is set, and of the compat list in compat mode, chained; an
attribute none of them names is unrestricted. -/
theorem builder_schemes_strict (L : Lists) (c : Cfg) (el a : Str) :
    (∀ l, c.allowSchemes = some ⟨false, l⟩ →
      Spec.HtmlPolicy.schemeList L c el a = chain3 ((mapGet l el).bind (mapGet · a))
        (if c.mode.isSome then (mapGet L.schemesStrict el).bind (mapGet · a) else none)
        (if c.mode = some .compat then (mapGet L.schemesCompat el).bind (mapGet · a) else none)) ∧
    (c.allowSchemes = none →
      Spec.HtmlPolicy.schemeList L c el a = chain3 none
        (if c.mode.isSome then (mapGet L.schemesStrict el).bind (mapGet · a) else none)
        (if c.mode = some .compat then (mapGet L.schemesCompat el).bind (mapGet · a) else none)) :=
  ⟨fun l h => schemeList_add L c l el a h, schemeList_mode L c el a⟩

/-- The builder theorems on a concrete configuration: compat mode, `allow_elements([center],
Add)`, `remove_elements([center, u])`, `ignore_elements([b])`, `allow_schemes(a[href]: [tel],
Override)`: `center` is removed although allowed, `b` is replaced by its children, `tel:` links
stay and `https:`/`matrix:` links no longer do. -/
example :
    let c := build (some .compat)
      [.allowElements [bs "center"] false, .removeElements [bs "center", bs "u"],
       .ignoreElements [bs "b"], .allowSchemes [(bs "a", [(bs "href", [bs "tel"])])] true]
    clean Spec.HtmlAllow.lists c
      [.elem (bs "center") [] [.text (bs "x")],
       .elem (bs "b") [] [.elem (bs "a") [⟨none, [], bs "href", bs "tel:1"⟩] [.text (bs "y")]],
       .elem (bs "a") [⟨none, [], bs "href", bs "matrix:u/a"⟩] [.text (bs "z")]] =
      [.elem (bs "a") [⟨none, [], bs "href", bs "tel:1"⟩] [.text (bs "y")], .text (bs "z")] := by
  decide +kernel

/-! ## The standard configurations at the spec's lists -/

section spec
open Spec.HtmlAllow

/-- In strict and compat mode, with or without reply-fallback removal, the allowed elements are
the spec's list — minus `mx-reply` under reply-fallback removal. -/
theorem plain_elemOk_spec (m : Mode) (rrf : Bool) (n : Str) :
    elemOk lists (plain (some m) rrf) n = (elemAllowed n && !(rrf && n == replyName)) :=
  Lemmas.Html.plain_elemOk_spec m rrf n

/-- … the allowed attributes are the spec's rows. -/
theorem plain_attrOk_spec (m : Mode) (rrf : Bool) (el a : Str) :
    attrOk lists (plain (some m) rrf) el a = attrAllowed el a :=
  Lemmas.Html.plain_attrOk_spec m rrf el a

/-- … the value restrictions are the spec's scheme lists (`matrix:` only in compat mode). -/
theorem plain_schemeList_spec (m : Mode) (rrf : Bool) (el a : Str) :
    Spec.HtmlPolicy.schemeList lists (plain (some m) rrf) el a = Spec.HtmlAllow.schemeList m el a :=
  Lemmas.Html.plain_schemeList_spec m rrf el a

/-- … the value restrictions are the spec's scheme lists (`matrix:` only in compat mode). -/
theorem plain_valueOk_spec (m : Mode) (rrf : Bool) (el a v : Str) :
    valueOk lists (plain (some m) rrf) el a v = valueAllowed m el a v :=
  Lemmas.Html.plain_valueOk_spec m rrf el a v

/-- … the allowed classes are `language-*` on `code`. -/
theorem plain_classOk_spec (m : Mode) (rrf : Bool) (el cl : Str) :
    classOk lists (plain (some m) rrf) el cl = classAllowed el cl :=
  Lemmas.Html.plain_classOk_spec m rrf el cl

/-- … the maximum depth is 100. -/
theorem plain_maxDepth_spec (m : Mode) (rrf : Bool) :
    maxDepthValue lists (plain (some m) rrf) = some 100 := rfl

/-- … and `class` carries no URI restriction, so `clean_schemes_allowed` loses nothing there. -/
theorem plain_class_unrestricted (m : Mode) (rrf : Bool) (el v : Str) :
    valueOk lists (plain (some m) rrf) el className v = true :=
  Lemmas.Html.plain_class_unrestricted m rrf el v

/-- The property, in the spec's words, for `sanitize_html(_, mode, reply_fallback)`: every element
of the output is on the spec's list (and is not `mx-reply` under reply-fallback removal), every
attribute is an HTML attribute (no namespace) in the element's row, every attribute value satisfies the spec's scheme restriction
whatever other attributes accompany it, every class on `code` matches `language-*`; there are no
comments; nesting is at most 100; the text outside dropped subtrees is kept in order. -/
theorem standard_output_spec (m : Mode) (rrf : Bool) (roots : List Node) :
    let out := clean lists (plain (some m) rrf) roots
    AllElemsL (fun _ n as =>
        elemAllowed n = true ∧ (rrf = true → n ≠ replyName) ∧
        ∀ a ∈ as, a.ns = [] ∧ attrAllowed n a.name = true ∧
          valueAllowed m n a.name a.value = true ∧
          (a.name = className → ∀ cl ∈ splitWs a.value, classAllowed n cl = true)) 0 out ∧
    NoOtherL out ∧ depthOfL out ≤ 100 ∧
    textOfL out = keptTextL lists (plain (some m) rrf) 0 roots := by
  refine ⟨?_, clean_no_other_nodes .., clean_depth_le _ _ _ 100 (plain_maxDepth_spec m rrf),
    clean_keeps_text_in_order ..⟩
  apply cleanList_all lists (plain (some m) rrf) _ _ roots 0 0 (Nat.le_refl 0)
  intro _ dIn n as _ hact
  have he := elemOk_of_none _ _ n as _ hact
  rw [plain_elemOk_spec] at he
  simp only [Bool.and_eq_true, Bool.not_eq_true', Bool.and_eq_false_iff] at he
  refine ⟨he.1, ?_, ?_⟩
  · intro hr hn
    rcases he.2 with h | h
    · rw [hr] at h; cases h
    · simp [hn] at h
  · intro a ha
    have hg := (attrGood_iff _ _ n a).1 (cleanAttrs_good _ _ n as a ha)
    refine ⟨hg.1.2 (by simp [attrListed, plain, Cfg.useStrict]),
      by rw [← plain_attrOk_spec m rrf]; exact hg.1.1, ?_, ?_⟩
    · rw [← plain_valueOk_spec m rrf]
      by_cases hc : a.name = className
      · rw [hc]; exact plain_class_unrestricted m rrf n a.value
      · exact ((nodeAction_none_iff _ _ n as _).1 hact).2.2.2 a (cleanAttrs_origin _ _ n as a ha hc)
    · intro hc cl hcl
      rw [← plain_classOk_spec m rrf]; exact hg.2 hc cl hcl

/-- The F3 witnesses on the model of the repaired code: the link and the image are dropped. -/
example :
    clean lists (plain (some .strict) false)
      [.elem (bs "a") [⟨none, [], className, bs "x"⟩, ⟨none, [], bs "href", bs "javascript:alert(1)"⟩]
        [.text (bs "t")]] = [.text (bs "t")] := by decide +kernel
example :
    clean lists (plain (some .strict) false)
      [.elem (bs "img") [⟨none, [], bs "alt", bs "a"⟩, ⟨none, [], bs "src", bs "http://x/y"⟩] []] = [] := by
  decide +kernel

end spec

/-! ## T1: the lists of the running implementation are the spec's -/

/-- What `SanitizerConfig::strict()` does on every point of the stated universes (extracted on
this run by one-element probes) is what the spec's lists say. -/
theorem strict_lists_eq_spec :
    Generated.C14.strict = Spec.HtmlAllow.expected .strict Generated.C14.univ :=
  Lemmas.HtmlTables.strict_table

/-- The same for `SanitizerConfig::compat()`. -/
theorem compat_lists_eq_spec :
    Generated.C14.compat = Spec.HtmlAllow.expected .compat Generated.C14.univ :=
  Lemmas.HtmlTables.compat_table

/-- The static lists assembled from the extraction — the lists the model runs with when it is
compared with the running code (T2) — are, as data, the spec's lists. -/
theorem impl_lists_eq_spec : Lemmas.HtmlTables.implLists = Spec.HtmlAllow.lists :=
  Lemmas.HtmlTables.impl_eq_spec

/-- Hence the property in the spec's words (`standard_output_spec`) holds of the very model
instance that is run side by side with the implementation. -/
theorem standard_output_impl (m : Mode) (rrf : Bool) (roots : List Node) :
    let out := clean Lemmas.HtmlTables.implLists (plain (some m) rrf) roots
    AllElemsL (fun _ n as =>
        Spec.HtmlAllow.elemAllowed n = true ∧ (rrf = true → n ≠ replyName) ∧
        ∀ a ∈ as, a.ns = [] ∧ Spec.HtmlAllow.attrAllowed n a.name = true ∧
          Spec.HtmlAllow.valueAllowed m n a.name a.value = true ∧
          (a.name = className → ∀ cl ∈ splitWs a.value, Spec.HtmlAllow.classAllowed n cl = true)) 0 out ∧
    NoOtherL out ∧ depthOfL out ≤ 100 ∧
    textOfL out = keptTextL Lemmas.HtmlTables.implLists (plain (some m) rrf) 0 roots := by
  rw [impl_lists_eq_spec]
  exact standard_output_spec m rrf roots

/-- Every name the spec lists is inside the universes, so the comparison misses nothing. -/
theorem spec_within_universe : Spec.HtmlAllow.withinUniverse Generated.C14.univ = true :=
  Lemmas.HtmlTables.within

end Ruma.Props.C14
#print axioms Ruma.Props.C14.clean_elements_allowed
#print axioms Ruma.Props.C14.clean_attrs_allowed
#print axioms Ruma.Props.C14.clean_schemes_allowed
#print axioms Ruma.Props.C14.clean_classes_allowed
#print axioms Ruma.Props.C14.policy_values_read
#print axioms Ruma.Props.C14.policy_classes_read
#print axioms Ruma.Props.C14.glob_is_spec_glob
#print axioms Ruma.Props.C14.clean_no_other_nodes
#print axioms Ruma.Props.C14.clean_depth_le
#print axioms Ruma.Props.C14.clean_no_mx_reply
#print axioms Ruma.Props.C14.clean_keeps_text_in_order
#print axioms Ruma.Props.C14.clean_drops_subtree
#print axioms Ruma.Props.C14.clean_drops_mx_reply
#print axioms Ruma.Props.C14.clean_keeps_allowed_descendants
#print axioms Ruma.Props.C14.clean_keeps_allowed_names
#print axioms Ruma.Props.C14.clean_hoists_children
#print axioms Ruma.Props.C14.builder_reaches_every_cfg
#print axioms Ruma.Props.C14.builder_precedence
#print axioms Ruma.Props.C14.builder_elements
#print axioms Ruma.Props.C14.builder_attrs
#print axioms Ruma.Props.C14.builder_classes
#print axioms Ruma.Props.C14.builder_schemes_override
#print axioms Ruma.Props.C14.builder_schemes_strict
#print axioms Ruma.Props.C14.plain_elemOk_spec
#print axioms Ruma.Props.C14.plain_attrOk_spec
#print axioms Ruma.Props.C14.plain_schemeList_spec
#print axioms Ruma.Props.C14.plain_valueOk_spec
#print axioms Ruma.Props.C14.plain_classOk_spec
#print axioms Ruma.Props.C14.plain_maxDepth_spec
#print axioms Ruma.Props.C14.plain_class_unrestricted
#print axioms Ruma.Props.C14.standard_output_spec
#print axioms Ruma.Props.C14.strict_lists_eq_spec
#print axioms Ruma.Props.C14.compat_lists_eq_spec
#print axioms Ruma.Props.C14.impl_lists_eq_spec
#print axioms Ruma.Props.C14.standard_output_impl
#print axioms Ruma.Props.C14.spec_within_universe
