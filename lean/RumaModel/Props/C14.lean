/-
  C14 — Sanitized HTML has only allow-listed elements, attributes, schemes and classes.
  Property theorems only; helper lemmas live in `Lemmas/Html*.lean`.

  Reading guide. `clean L c roots` is the model of `SanitizerConfig::clean` on the children of a
  parsed fragment (`Model/Html.lean`); `L` are the private static lists of `clean.rs`, `c` is a
  `SanitizerConfig` with every builder field. The predicates `elemOk`, `attrOk`, `valueOk`,
  `classOk`, `AllElemsL`, `NoOtherL`, `depthOfL`, `textOfL`, `keptTextL` are the vocabulary of
  `Spec/HtmlPolicy.lean` (what a configuration promises); `Spec/HtmlAllow.lean` holds the Matrix
  spec's lists. The first block of theorems holds for EVERY configuration, every choice of static
  lists and every tree. The second block evaluates the promises for `strict()`/`compat()` with and
  without `remove_reply_fallback()` at the spec's lists: there they are the spec's tables. The
  third block (T1) ties the lists the running implementation uses to the spec's.
-/
import RumaModel.Lemmas.HtmlTree
import RumaModel.Lemmas.HtmlTables
import RumaModel.Lemmas.HtmlPlain
namespace Ruma.Props.C14
open Ruma Ruma.Html Ruma.Spec.HtmlPolicy Ruma.Lemmas.Html

/-! ## For every configuration and every tree -/

/-- Every element of the output is allowed by the configuration: not removed by name, not
ignored by name, and on the allow list if there is one. -/
theorem clean_elements_allowed (L : Lists) (c : Cfg) (roots : List Node) :
    AllElemsL (fun _ n _ => elemOk L c n = true) 0 (clean L c roots) :=
  cleanList_all L c _ (fun _ _ n as _ h => elemOk_of_none L c n as _ h) roots 0 0 (Nat.le_refl 0)

/-- On every element of the output, every attribute is allowed for that element: its name is
not removed and is on the element's allow list if there is one — and then it is an HTML attribute
(no namespace), so that a parser reading the serialized output sees the same name. -/
theorem clean_attrs_allowed (L : Lists) (c : Cfg) (roots : List Node) :
    AllElemsL (fun _ n as => ∀ a ∈ as, attrOkA L c n a) 0 (clean L c roots) :=
  cleanList_all L c _
    (fun _ _ n as _ _ a ha => ((attrGood_iff L c n a).1 (cleanAttrs_good L c n as a ha)).1)
    roots 0 0 (Nat.le_refl 0)

/-- On every element of the output, EVERY attribute (other than `class`, whose value is a class
list and is rewritten by the class filter) carries an acceptable value: no denied scheme, and if
the attribute has a scheme list the value starts with `scheme:` for a scheme of the list —
whatever other attributes accompany it. -/
theorem clean_schemes_allowed (L : Lists) (c : Cfg) (roots : List Node) :
    AllElemsL (fun _ n as => ∀ a ∈ as, a.name ≠ className → valueOk L c n a.name a.value = true)
      0 (clean L c roots) :=
  cleanList_all L c _
    (fun _ _ n as _ h a ha hc =>
      ((nodeAction_none_iff L c n as _).1 h).2.2.2 a (cleanAttrs_origin L c n as a ha hc))
    roots 0 0 (Nat.le_refl 0)

/-- Why `class` is excluded above: a configuration may put a scheme list on `class` itself; the
class filter then rewrites the value after the scheme check. (Not reachable in the standard
configurations, see `plain_class_unrestricted`.) -/
example :
    let c : Cfg := { allowSchemes := some ⟨false, [(bs "p", [(className, [bs "a"])])]⟩,
                     removeClasses := some [(bs "p", [bs "a:*"])] }
    clean Spec.HtmlAllow.lists c [.elem (bs "p") [⟨none, [], className, bs "a:x b"⟩] []]
      = [.elem (bs "p") [⟨none, [], className, bs "b"⟩] []] := by decide +kernel

/-- Every class left in a `class` attribute of the output is allowed for its element. -/
theorem clean_classes_allowed (L : Lists) (c : Cfg) (roots : List Node) :
    AllElemsL (fun _ n as => ∀ a ∈ as, a.name = className →
      ∀ cl ∈ splitWs a.value, classOk L c n cl = true) 0 (clean L c roots) :=
  cleanList_all L c _
    (fun _ _ n as _ _ a ha => ((attrGood_iff L c n a).1 (cleanAttrs_good L c n as a ha)).2)
    roots 0 0 (Nat.le_refl 0)

/-- The output consists of elements and text only: no comments or other node kinds. -/
theorem clean_no_other_nodes (L : Lists) (c : Cfg) (roots : List Node) :
    NoOtherL (clean L c roots) :=
  cleanList_noOther L c roots 0

/-- With a maximum depth `m` (100 in strict and compat mode), the output nests at most `m`
levels of elements. -/
theorem clean_depth_le (L : Lists) (c : Cfg) (roots : List Node) (m : Nat)
    (hm : maxDepthValue L c = some m) : depthOfL (clean L c roots) ≤ m := by
  have h := cleanList_all L c (fun d _ _ => d < m)
    (fun dOut dIn n as hle h => Nat.lt_of_le_of_lt hle (depth_of_none L c n as dIn m h hm))
    roots 0 0 (Nat.le_refl 0)
  have := depth_of_allElemsL m _ 0 h (Nat.zero_le m)
  simpa [clean] using this

/-- With reply-fallback removal, no `mx-reply` element remains (its content is gone as well:
`clean_keeps_text_in_order` with `keptText` skipping it). -/
theorem clean_no_mx_reply (L : Lists) (c : Cfg) (roots : List Node)
    (h : c.removeReplyFallback = true) :
    AllElemsL (fun _ n _ => n ≠ replyName) 0 (clean L c roots) :=
  cleanList_all L c _
    (fun _ _ n as _ hact hn => by
      have := elemOk_of_none L c n as _ hact
      simp [elemOk, elemRemoved, h, hn] at this)
    roots 0 0 (Nat.le_refl 0)

/-- The text of the output is exactly the text outside dropped subtrees (removed element names,
`mx-reply` under reply-fallback removal, nesting beyond the maximum depth, comments), in document
order: text and descendants of elements that are merely not allowed are kept. -/
theorem clean_keeps_text_in_order (L : Lists) (c : Cfg) (roots : List Node) :
    textOfL (clean L c roots) = keptTextL L c 0 roots :=
  cleanList_text L c roots 0

/-! ## The standard configurations at the spec's lists -/

section spec
open Spec.HtmlAllow

/-- In strict and compat mode, with or without reply-fallback removal, the allowed elements are
the spec's list — minus `mx-reply` under reply-fallback removal. -/
theorem plain_elemOk_spec (m : Mode) (rrf : Bool) (n : Str) :
    elemOk lists (plain (some m) rrf) n = (elemAllowed n && !(rrf && n == replyName)) :=
  Lemmas.Html.plain_elemOk_spec m rrf n

/-- … the allowed attributes are the spec's rows. -/
theorem plain_attrOk_spec (m : Mode) (rrf : Bool) (el a : Str) :
    attrOk lists (plain (some m) rrf) el a = attrAllowed el a :=
  Lemmas.Html.plain_attrOk_spec m rrf el a

/-- … the value restrictions are the spec's scheme lists (`matrix:` only in compat mode). -/
theorem plain_schemeList_spec (m : Mode) (rrf : Bool) (el a : Str) :
    Spec.HtmlPolicy.schemeList lists (plain (some m) rrf) el a = Spec.HtmlAllow.schemeList m el a :=
  Lemmas.Html.plain_schemeList_spec m rrf el a

/-- … the value restrictions are the spec's scheme lists (`matrix:` only in compat mode). -/
theorem plain_valueOk_spec (m : Mode) (rrf : Bool) (el a v : Str) :
    valueOk lists (plain (some m) rrf) el a v = valueAllowed m el a v :=
  Lemmas.Html.plain_valueOk_spec m rrf el a v

/-- … the allowed classes are `language-*` on `code`. -/
theorem plain_classOk_spec (m : Mode) (rrf : Bool) (el cl : Str) :
    classOk lists (plain (some m) rrf) el cl = classAllowed el cl :=
  Lemmas.Html.plain_classOk_spec m rrf el cl

/-- … the maximum depth is 100. -/
theorem plain_maxDepth_spec (m : Mode) (rrf : Bool) :
    maxDepthValue lists (plain (some m) rrf) = some 100 := rfl

/-- … and `class` carries no URI restriction, so `clean_schemes_allowed` loses nothing there. -/
theorem plain_class_unrestricted (m : Mode) (rrf : Bool) (el v : Str) :
    valueOk lists (plain (some m) rrf) el className v = true :=
  Lemmas.Html.plain_class_unrestricted m rrf el v

/-- The property, in the spec's words, for `sanitize_html(_, mode, reply_fallback)`: every element
of the output is on the spec's list (and is not `mx-reply` under reply-fallback removal), every
attribute is an HTML attribute (no namespace) in the element's row, every attribute value satisfies the spec's scheme restriction
whatever other attributes accompany it, every class on `code` matches `language-*`; there are no
comments; nesting is at most 100; the text outside dropped subtrees is kept in order. -/
theorem standard_output_spec (m : Mode) (rrf : Bool) (roots : List Node) :
    let out := clean lists (plain (some m) rrf) roots
    AllElemsL (fun _ n as =>
        elemAllowed n = true ∧ (rrf = true → n ≠ replyName) ∧
        ∀ a ∈ as, a.ns = [] ∧ attrAllowed n a.name = true ∧
          valueAllowed m n a.name a.value = true ∧
          (a.name = className → ∀ cl ∈ splitWs a.value, classAllowed n cl = true)) 0 out ∧
    NoOtherL out ∧ depthOfL out ≤ 100 ∧
    textOfL out = keptTextL lists (plain (some m) rrf) 0 roots := by
  refine ⟨?_, clean_no_other_nodes .., clean_depth_le _ _ _ 100 (plain_maxDepth_spec m rrf),
    clean_keeps_text_in_order ..⟩
  apply cleanList_all lists (plain (some m) rrf) _ _ roots 0 0 (Nat.le_refl 0)
  intro _ dIn n as _ hact
  have he := elemOk_of_none _ _ n as _ hact
  rw [plain_elemOk_spec] at he
  simp only [Bool.and_eq_true, Bool.not_eq_true', Bool.and_eq_false_iff] at he
  refine ⟨he.1, ?_, ?_⟩
  · intro hr hn
    rcases he.2 with h | h
    · rw [hr] at h; cases h
    · simp [hn] at h
  · intro a ha
    have hg := (attrGood_iff _ _ n a).1 (cleanAttrs_good _ _ n as a ha)
    refine ⟨hg.1.2 (by simp [attrListed, plain, Cfg.useStrict]),
      by rw [← plain_attrOk_spec m rrf]; exact hg.1.1, ?_, ?_⟩
    · rw [← plain_valueOk_spec m rrf]
      by_cases hc : a.name = className
      · rw [hc]; exact plain_class_unrestricted m rrf n a.value
      · exact ((nodeAction_none_iff _ _ n as _).1 hact).2.2.2 a (cleanAttrs_origin _ _ n as a ha hc)
    · intro hc cl hcl
      rw [← plain_classOk_spec m rrf]; exact hg.2 hc cl hcl

/-- The F3 witnesses on the model of the repaired code: the link and the image are dropped. -/
example :
    clean lists (plain (some .strict) false)
      [.elem (bs "a") [⟨none, [], className, bs "x"⟩, ⟨none, [], bs "href", bs "javascript:alert(1)"⟩]
        [.text (bs "t")]] = [.text (bs "t")] := by decide +kernel
example :
    clean lists (plain (some .strict) false)
      [.elem (bs "img") [⟨none, [], bs "alt", bs "a"⟩, ⟨none, [], bs "src", bs "http://x/y"⟩] []] = [] := by
  decide +kernel

end spec

/-! ## T1: the lists of the running implementation are the spec's -/

/-- What `SanitizerConfig::strict()` does on every point of the stated universes (extracted on
this run by one-element probes) is what the spec's lists say. -/
theorem strict_lists_eq_spec :
    Generated.C14.strict = Spec.HtmlAllow.expected .strict Generated.C14.univ :=
  Lemmas.HtmlTables.strict_table

/-- The same for `SanitizerConfig::compat()`. -/
theorem compat_lists_eq_spec :
    Generated.C14.compat = Spec.HtmlAllow.expected .compat Generated.C14.univ :=
  Lemmas.HtmlTables.compat_table

/-- Every name the spec lists is inside the universes, so the comparison misses nothing. -/
theorem spec_within_universe : Spec.HtmlAllow.withinUniverse Generated.C14.univ = true :=
  Lemmas.HtmlTables.within

end Ruma.Props.C14
#print axioms Ruma.Props.C14.clean_elements_allowed
#print axioms Ruma.Props.C14.clean_attrs_allowed
#print axioms Ruma.Props.C14.clean_schemes_allowed
#print axioms Ruma.Props.C14.clean_classes_allowed
#print axioms Ruma.Props.C14.clean_no_other_nodes
#print axioms Ruma.Props.C14.clean_depth_le
#print axioms Ruma.Props.C14.clean_no_mx_reply
#print axioms Ruma.Props.C14.clean_keeps_text_in_order
#print axioms Ruma.Props.C14.plain_elemOk_spec
#print axioms Ruma.Props.C14.plain_attrOk_spec
#print axioms Ruma.Props.C14.plain_valueOk_spec
#print axioms Ruma.Props.C14.plain_classOk_spec
#print axioms Ruma.Props.C14.plain_maxDepth_spec
#print axioms Ruma.Props.C14.plain_class_unrestricted
#print axioms Ruma.Props.C14.standard_output_spec
#print axioms Ruma.Props.C14.strict_lists_eq_spec
#print axioms Ruma.Props.C14.compat_lists_eq_spec
#print axioms Ruma.Props.C14.spec_within_universe
