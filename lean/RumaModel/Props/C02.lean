/-
  C02 — JSON signing is interoperable Ed25519 and verification is sound.
  Property theorems only; helper lemmas live in `Lemmas/Sign.lean`, `Lemmas/SignObj.lean`,
  `Lemmas/SignB64.lean`.

  Reading guide. `signJson S entity kp obj` is the model of `sign_json` (returns the `Result` and
  the object after the call), `verifyJson S keys obj` of `verify_json`, `verifyCanonicalJsonBytes`
  of `verify_canonical_json_bytes` (`Model/Sign.lean`). `S : SigScheme` is Ed25519 as a parameter;
  `S.Lawful` is the assumption "a signature verifies under the matching public key; keys are 32 and
  signatures 64 bytes". The specification side (`Spec/Sign.lean`): `signedBytes obj` = canonical
  JSON of `obj` without `signatures`/`unsigned`; `signed S entity secret version obj` = `obj` with
  `signatures[entity]["ed25519:<version>"]` set to the unpadded base64 signature of those bytes;
  `Verifies S keys obj` = every entity named in `signatures` has a key set, at least one Ed25519
  signature, and every Ed25519 signature of it is valid for `signedBytes obj`.
  Unforgeability of Ed25519 is not used and not assumed in Lean: `verify_tamper*` reduce acceptance
  of a changed object to the scheme accepting the old signature on the new bytes.
-/
import RumaModel.Lemmas.Sign
namespace Ruma.Props.C02
open Ruma Ruma.Sign Ruma.Spec.Sign

/-- Decoding unpadded standard base64 inverts encoding, for every byte string. -/
theorem b64_roundtrip (x : List Nat) (h : ∀ b ∈ x, b < 256) : unb64 (b64 x) = some x :=
  unb64_b64 x h

/-- The bytes `canonical_json` produces (and `sign_json` signs, `verify_json` verifies) are the
canonical JSON of the object without `signatures` and `unsigned`. -/
theorem canonical_json_spec (obj : Obj) : canonicalJson obj = signedBytes obj :=
  canonicalJson_eq_signedBytes obj

/-- `sign_json` succeeds exactly when `signatures` is absent or an object in which the signer's
entry is absent or an object. -/
theorem sign_ok_iff (S : SigScheme) (entity : Str) (kp : KeyPair) (obj : Obj) :
    (signJson S entity kp obj).1 = .ok () ↔ Signable obj entity :=
  signJson_ok_iff S entity kp obj

/-- A signing call that reports an error leaves the object as it was (F11, repaired code). In the
model this holds by the shape of `signJson` (validation up front, `signCore` only afterwards); that
the Rust function has this shape is what the differential correspondence (T2) and the direct oracle
(T3: object after a failing `sign_json` equals the object before) check on every run. -/
theorem sign_error_atomic (S : SigScheme) (entity : Str) (kp : KeyPair) (obj : Obj) (e : Err)
    (h : (signJson S entity kp obj).1 = .error e) : (signJson S entity kp obj).2 = obj := by
  by_cases hs : Signable obj entity
  · rw [signJson_of_signable S entity kp obj hs] at h; cases h
  · obtain ⟨e', he⟩ := signJson_of_not_signable S entity kp obj hs
    rw [he]

/-- Exact shape of the result: for a `CanonicalJsonObject` (sorted keys) that can be signed, the
object after `sign_json` is the input with `signatures[entity]["ed25519:<version>"]` = unpadded
base64 of the scheme's signature over the canonical JSON without `signatures`/`unsigned`, and
nothing else differs. -/
theorem sign_stores_signature (S : SigScheme) (entity : Str) (kp : KeyPair) (obj : Obj)
    (hsorted : Obj.Sorted obj) (hs : Signable obj entity) :
    signJson S entity kp obj = (.ok (), signed S entity kp.secret kp.version obj) := by
  rw [signJson_of_signable S entity kp obj hs, signResult_eq_signed S entity kp obj hsorted]

/-- Signing leaves everything else intact, for every association list (sorted or not): every
field other than `signatures` (in particular `unsigned`) has its old value; in `signatures` every
other entity has its old value; in the signer's set every other key id has its old value; and the
signer's key id holds the new signature. -/
theorem sign_preserves_other (S : SigScheme) (entity : Str) (kp : KeyPair) (obj : Obj)
    (hs : Signable obj entity) :
    let obj' := (signJson S entity kp obj).2
    (∀ k, k ≠ bs "signatures" → Obj.get obj' k = Obj.get obj k) ∧
    ∃ sigs' set', Obj.get obj' (bs "signatures") = some (.obj sigs') ∧
      (∀ e, e ≠ entity → Obj.get sigs' e = Obj.get (signaturesOf obj) e) ∧
      Obj.get sigs' entity = some (.obj set') ∧
      (∀ kid, kid ≠ bs "ed25519:" ++ kp.version →
        Obj.get set' kid = Obj.get (signatureSetOf obj entity) kid) ∧
      Obj.get set' (bs "ed25519:" ++ kp.version)
        = some (.str (b64 (S.sign kp.secret (signedBytes obj)))) := by
  rw [signJson_of_signable S entity kp obj hs]
  intro obj'
  refine ⟨fun k hk => get_signResult_ne S entity kp obj k hk, newSignatures S entity kp obj,
    Obj.insert (signatureSetOf obj entity) (bs "ed25519:" ++ kp.version)
      (.str (b64 (S.sign kp.secret (signedBytes obj)))),
    get_signResult_sig S entity kp obj, ?_⟩
  rw [newSignatures_eq]
  exact ⟨fun e he => Obj.get_insert_ne _ _ _ _ he, Obj.get_insert_self _ _ _,
    fun kid hk => Obj.get_insert_ne _ _ _ _ hk, Obj.get_insert_self _ _ _⟩

/-- Sign then verify: if the object had no `signatures` (or verified already) and the key map holds
the signer's public key under `ed25519:<version>`, the signed object verifies. -/
theorem sign_then_verify (S : SigScheme) (hS : S.Lawful) (keys : KeyMap) (entity : Str) (kp : KeyPair)
    (obj : Obj) (h0 : Obj.get obj (bs "signatures") = none ∨ verifyJson S keys obj = .ok ())
    (hk : HasKey S keys entity kp) :
    (signJson S entity kp obj).1 = .ok () ∧ verifyJson S keys (signJson S entity kp obj).2 = .ok () := by
  rw [signJson_of_signable S entity kp obj (signable_of_inv S keys obj entity h0)]
  exact ⟨rfl, verify_signResult S hS keys entity kp obj h0 hk⟩

/-- Any non-empty list of signings, by any entities and keys in any order (repeats and
overwrites included), starting from an object without `signatures` (or one that verifies): every
call succeeds and the final object verifies against all the keys. The induction uses that the signed
bytes never include `signatures` (`canonicalJson_signResult`). -/
theorem sign_sequence_all_verify (S : SigScheme) (hS : S.Lawful) (keys : KeyMap)
    (steps : List (Str × KeyPair)) (obj : Obj) (hne : steps ≠ [])
    (h0 : Obj.get obj (bs "signatures") = none ∨ verifyJson S keys obj = .ok ())
    (hk : ∀ st ∈ steps, HasKey S keys st.1 st.2) :
    (signAll S steps obj).1 = .ok () ∧ verifyJson S keys (signAll S steps obj).2 = .ok () :=
  signAll_fresh S hS keys steps obj hne h0 hk

/-- Signing does not change the signed bytes (they never include `signatures` or `unsigned`). -/
theorem sign_keeps_signed_bytes (S : SigScheme) (entity : Str) (kp : KeyPair) (obj : Obj)
    (hs : Signable obj entity) :
    signedBytes (signJson S entity kp obj).2 = signedBytes obj := by
  rw [signJson_of_signable S entity kp obj hs, ← canonicalJson_eq_signedBytes,
    ← canonicalJson_eq_signedBytes, canonicalJson_signResult]

/-- Soundness and completeness of `verify_json`, exactly as the code behaves: it returns `Ok` iff
`signatures` is an object and every entity named in it has a signature set that is an object, a key
set in the key map, at least one `ed25519:` signature, and every `ed25519:` signature of it has a
key, is a base64 string of a 64-byte signature, and the scheme accepts it for the 32-byte key over
the canonical JSON of the object without `signatures`/`unsigned`. -/
theorem verify_sound (S : SigScheme) (keys : KeyMap) (obj : Obj) :
    verifyJson S keys obj = .ok () ↔ Verifies S keys obj :=
  verifyJson_ok_iff_spec S keys obj

/-- `verify_canonical_json_bytes` accepts iff the algorithm is `ed25519`, the key is 32 bytes, the
signature 64 bytes, and the scheme accepts. -/
theorem verify_bytes_spec (S : SigScheme) (alg : Str) (pk sig msg : List Nat) :
    verifyCanonicalJsonBytes S alg pk sig msg = .ok () ↔
      alg = bs "ed25519" ∧ pk.length = 32 ∧ sig.length = 64 ∧ S.verify pk msg sig = true := by
  unfold verifyCanonicalJsonBytes
  by_cases h : alg = bs "ed25519"
  · simp [h, verifyBytes_ok_iff]
  · simp [h]

/-- Changes confined to `unsigned` (setting it to anything, or removing it) do not change the
verdict. -/
theorem verify_ignores_unsigned (S : SigScheme) (keys : KeyMap) (obj : Obj) (u : JVal) :
    verifyJson S keys (Obj.insert obj (bs "unsigned") u) = verifyJson S keys obj ∧
    verifyJson S keys (Obj.erase obj (bs "unsigned")) = verifyJson S keys obj := by
  constructor
  · exact verifyJson_congr S keys _ _ (Obj.get_insert_ne _ _ _ _ sigKey_ne_unsKey)
      (canonicalJson_insert_unsigned obj u)
  · exact verifyJson_congr S keys _ _ (Obj.get_erase_ne _ _ _ sigKey_ne_unsKey)
      (canonicalJson_erase_unsigned obj)

/-- The verdict depends only on the `signatures` field and the signed bytes: two objects that agree
on both get the same verdict (so any difference confined to `unsigned`, or to how the same fields
are ordered before they become a `CanonicalJsonObject` — C01 `normalize_perm` — is invisible). -/
theorem verify_depends_only_on (S : SigScheme) (keys : KeyMap) (obj obj' : Obj)
    (h1 : Obj.get obj (bs "signatures") = Obj.get obj' (bs "signatures"))
    (h2 : signedBytes obj = signedBytes obj') :
    verifyJson S keys obj = verifyJson S keys obj' :=
  verifyJson_congr S keys obj obj' h1
    (by rw [canonicalJson_eq_signedBytes, canonicalJson_eq_signedBytes, h2])

/-- Soundness reduced exactly to the scheme: if `verify_json` accepts `obj'`, then for every
Ed25519 signature entry found in its `signatures`, the key map has a key for it and the scheme
accepts that signature *on the current signed bytes of `obj'`*. So an object whose signed content
was changed after signing is accepted only if the scheme accepts the old signature on the new bytes
(a forgery, excluded by the unforgeability assumption of the trusted base). -/
theorem verify_tamper (S : SigScheme) (keys : KeyMap) (obj' : Obj) (sigs set : Obj) (entity keyId : Str)
    (v : JVal) (h : verifyJson S keys obj' = .ok ())
    (hs : Obj.get obj' (bs "signatures") = some (.obj sigs))
    (he : Obj.get sigs entity = some (.obj set)) (hp : (keyId, v) ∈ set) (hk : IsEd25519KeyId keyId) :
    ∃ pks pk s raw, Obj.get keys entity = some pks ∧ Obj.get pks keyId = some pk ∧ v = .str s ∧
      unb64 s = some raw ∧ S.verify pk (signedBytes obj') raw = true := by
  obtain ⟨sigs', h1, h2⟩ := (verify_sound S keys obj').mp h
  rw [hs] at h1; cases h1
  obtain ⟨set', pks, h3, h4, _, h6⟩ := h2 entity (Obj.mem_keys_of_get _ _ _ he)
  rw [he] at h3; cases h3
  obtain ⟨pk, h7, s, raw, h8, h9, _, _, h12⟩ := h6 (keyId, v) hp hk
  exact ⟨pks, pk, s, raw, h4, h7, h8, h9, h12⟩

/-- The same, spelled out for a signed object: take any `obj'` that carries the `signatures` of
the object `entity` signed (content, `unsigned`, anything else arbitrary). If `verify_json` accepts
`obj'` under the signer's public key, then the scheme accepts the signature made over the ORIGINAL
signed bytes as a signature of the signed bytes of `obj'`. -/
theorem verify_tamper_signed (S : SigScheme) (hS : S.Lawful) (keys : KeyMap) (entity : Str)
    (kp : KeyPair) (obj obj' : Obj) (hsig : Signable obj entity) (hk : HasKey S keys entity kp)
    (hsame : Obj.get obj' (bs "signatures") = Obj.get (signJson S entity kp obj).2 (bs "signatures"))
    (h : verifyJson S keys obj' = .ok ()) :
    S.verify (S.pub kp.secret) (signedBytes obj') (S.sign kp.secret (signedBytes obj)) = true := by
  rw [signJson_of_signable S entity kp obj hsig] at hsame
  have hs : Obj.get obj' (bs "signatures") = some (.obj (newSignatures S entity kp obj)) := by
    rw [hsame]; exact get_signResult_sig S entity kp obj
  obtain ⟨pks, hpks, hpk⟩ := hk
  obtain ⟨pks', pk, s, raw, h1, h2, h3, h4, h5⟩ :=
    verify_tamper S keys obj' _ _ entity (ed25519KeyId kp.version) _ h hs
      (Obj.get_insert_self _ _ _) (Obj.mem_insert_self _ _ _)
      ((supportedKeyId_iff _).mp (supported_ed25519KeyId _))
  rw [hpks] at h1; cases h1
  rw [hpk] at h2; cases h2
  cases h3
  unfold signatureString at h4
  rw [unb64_b64 _ (hS.sig_bytes _ _)] at h4
  cases h4
  rw [canonicalJson_eq_signedBytes] at h5
  exact h5

/-- Contrapositive form: if the scheme rejects the old signature on the new signed bytes, then
`verify_json` rejects the changed object. -/
theorem verify_tamper_rejects (S : SigScheme) (hS : S.Lawful) (keys : KeyMap) (entity : Str)
    (kp : KeyPair) (obj obj' : Obj) (hsig : Signable obj entity) (hk : HasKey S keys entity kp)
    (hsame : Obj.get obj' (bs "signatures") = Obj.get (signJson S entity kp obj).2 (bs "signatures"))
    (hrej : S.verify (S.pub kp.secret) (signedBytes obj') (S.sign kp.secret (signedBytes obj)) = false) :
    verifyJson S keys obj' ≠ .ok () := by
  intro h
  rw [verify_tamper_signed S hS keys entity kp obj obj' hsig hk hsame h] at hrej
  cases hrej

/-! ### Non-vacuity: the hypotheses are satisfiable on concrete inputs -/

/-- A toy scheme satisfying `Lawful` (not secure; it only shows the assumption is consistent). -/
def toy : SigScheme where
  sign k m := List.replicate 64 ((k.sum % 256 + m.sum) % 256)
  pub k := (k.sum % 256) :: List.replicate 31 0
  verify pk m s := s == List.replicate 64 ((pk.sum + m.sum) % 256)

/-- The toy scheme satisfies every law of `SigScheme.Lawful`. Not a property theorem of C02 but a
consistency witness; it is used by the refutations in `Props/C03.lean`, so its axioms are printed
below like those of the property theorems. -/
theorem toy_lawful : toy.Lawful where
  verify_sign k m := by simp [toy]
  pub_len k := by simp [toy]
  sig_len k m := by simp [toy]
  sig_bytes k m b hb := by
    simp only [toy, List.mem_replicate] at hb
    rw [hb.2]; exact Nat.mod_lt _ (by decide)

def exObj : Obj := [(bs "a", .int 1), (bs "unsigned", .obj [(bs "age_ts", .int 5)])]
def exKp : KeyPair := ⟨[1, 2, 3], bs "1"⟩
def exKeys : KeyMap := [(bs "domain", [(bs "ed25519:1", toy.pub [1, 2, 3])])]

/-- `sign_then_verify` / `sign_stores_signature` / `sign_sequence_all_verify`: the hypotheses hold
for this object, key and key map, and the conclusions compute. -/
example : Obj.get exObj (bs "signatures") = none ∧ HasKey toy exKeys (bs "domain") exKp ∧
    Obj.Sorted exObj ∧ Signable exObj (bs "domain") := by
  refine ⟨by decide, ⟨_, rfl, by decide⟩, ?_, Or.inl (by decide)⟩
  unfold Obj.Sorted Obj.keys exObj
  decide

example : (signJson toy (bs "domain") exKp exObj).1 = .ok () ∧
    verifyJson toy exKeys (signJson toy (bs "domain") exKp exObj).2 = .ok () :=
  ⟨rfl, rfl⟩

/-- `sign_sequence_all_verify`: three signings by two entities (one of them twice, with two key
versions); the key map knows all three keys; every call succeeds and the result verifies. -/
example :
    let steps := [(bs "domain", exKp), (bs "b", ⟨[9], bs "v2"⟩), (bs "domain", ⟨[7, 7], bs "2"⟩)]
    let keys : KeyMap := [(bs "b", [(bs "ed25519:v2", toy.pub [9])]),
      (bs "domain", [(bs "ed25519:1", toy.pub [1, 2, 3]), (bs "ed25519:2", toy.pub [7, 7])])]
    (∀ st ∈ steps, HasKey toy keys st.1 st.2) ∧ (signAll toy steps exObj).1 = .ok () ∧
      verifyJson toy keys (signAll toy steps exObj).2 = .ok () := by
  refine ⟨?_, rfl, rfl⟩
  intro st hst
  simp only [List.mem_cons, List.not_mem_nil, or_false] at hst
  rcases hst with h | h | h <;> subst h
  · exact ⟨_, rfl, rfl⟩
  · exact ⟨[(bs "ed25519:v2", toy.pub [9])], rfl, rfl⟩
  · exact ⟨_, rfl, rfl⟩

/-- `verify_tamper_rejects`: changing `a` from 1 to 2 after signing is rejected (the toy scheme
rejects the old signature on the new bytes). -/
example :
    verifyJson toy exKeys
      (Obj.insert (signJson toy (bs "domain") exKp exObj).2 (bs "a") (.int 2))
    = .error .signatureInvalid := rfl

/-- `sign_error_atomic` is about a reachable case: this call does fail. -/
example : (signJson toy (bs "domain") exKp [(bs "a", .int 1), (bs "signatures", .int 5)]).1
    = .error .signaturesNotObject := rfl

/-- F11, machine-checked on the model: without the up-front validation, the body of `sign_json`
(`signCore`, which is what the code before the fix ran) returns an error with `signatures` and
`unsigned` already removed. -/
example :
    signCore toy (bs "d") exKp
      [(bs "a", .int 1), (bs "signatures", .obj [(bs "d", .int 5)]), (bs "unsigned", .obj [])]
      [(bs "d", .int 5)]
    = (.error .signatureSetNotObject, [(bs "a", .int 1)]) := rfl

#print axioms b64_roundtrip
#print axioms canonical_json_spec
#print axioms sign_ok_iff
#print axioms sign_error_atomic
#print axioms sign_stores_signature
#print axioms sign_preserves_other
#print axioms sign_then_verify
#print axioms sign_sequence_all_verify
#print axioms sign_keeps_signed_bytes
#print axioms verify_sound
#print axioms verify_bytes_spec
#print axioms verify_ignores_unsigned
#print axioms verify_depends_only_on
#print axioms verify_tamper
#print axioms verify_tamper_signed
#print axioms verify_tamper_rejects
#print axioms toy_lawful
end Ruma.Props.C02
