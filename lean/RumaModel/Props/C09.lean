/-
  C09 — auth-event selection matches the spec; authorization reads nothing else.
-/
import RumaModel.Lemmas.AuthRestrict
import RumaModel.Lemmas.AuthTypesSpec
import RumaModel.Props.C08
namespace Ruma.Props.C09
open Ruma Ruma.Auth Ruma.Ident
open Ruma.Spec.Auth (rulesOf)

/-- Every real room version has consistent flags (`knock_restricted` support implies `restricted`
support) — the fact `auth_types_for_event` relies on when it selects the authorising user's
membership only under `restricted_join_rule`. -/
theorem versions_consistent : ∀ v ∈ Spec.Auth.versions, (rulesOf v).Consistent := by decide

/-- **The selection is the specification's.** For every room version 1–11 and every event (all
types, memberships, third-party-invite and restricted-join contents, malformed contents):
`auth_types_for_event` fails exactly when the spec's selection meets an unreadable property, and
otherwise returns exactly the spec's set of `(type, state_key)` pairs. -/
theorem authTypes_eq_spec (v : Nat) (hv : v ∈ Spec.Auth.versions) (rules : AuthRules)
    (hr : AuthRules.ofVersion? v = some rules) (ev : Event) :
    AuthSpec.SameSelection (authTypesForEvent rules ev) (Spec.AuthTypes.selection v ev) := by
  have : rules = rulesOf v := by
    have := C08.ofVersion_eq_spec v hv
    rw [hr] at this
    exact Option.some.inj this
  subst this
  exact AuthSpec.authTypes_eq_spec v ev

/-- **Authorization reads nothing but the selected auth events.** If the selection for `ev` is `S`,
the decision against any state equals the decision against that state with every entry outside `S`
removed. (`rules.Consistent` holds for every room version, `versions_consistent`.) -/
theorem authCheck_reads_subset (rules : AuthRules) (hc : rules.Consistent) (ev : Event) (f : Fetch)
    (S : List (Str × Str)) (hS : authTypesForEvent rules ev = .ok S) :
    authCheck rules ev f = authCheck rules ev (restrict f S) :=
  authCheck_restrict rules hc ev f S hS

/-- **Non-interference.** Two states that agree on the selected pairs give the same decision:
adding, removing or replacing any other state entry never changes it. -/
theorem authCheck_agree_on_selection (rules : AuthRules) (hc : rules.Consistent) (ev : Event) (f g : Fetch)
    (S : List (Str × Str)) (hS : authTypesForEvent rules ev = .ok S)
    (hfg : ∀ k ∈ S, f k.1 k.2 = g k.1 k.2) :
    authCheck rules ev f = authCheck rules ev g := by
  rw [authCheck_reads_subset rules hc ev f S hS, authCheck_reads_subset rules hc ev g S hS,
    restrict_congr hfg]

/-- The state reads of the model (the read set compared with the recorded reads of the real
`auth_check` on every run) lie inside the selection. -/
theorem model_reads_within_selection (rules : AuthRules) (hc : rules.Consistent) (ev : Event) (f : Fetch)
    (S : List (Str × Str)) (hS : authTypesForEvent rules ev = .ok S) :
    ∀ k ∈ authReads rules ev f, k ∈ S :=
  authReads_subset rules hc ev f S hS

/-- The full-strength statement planned in DESIGN.md: when the selection itself fails, the event is
rejected whatever the state. -/
def authCheck_types_errorStatement : Prop :=
  ∀ (rules : AuthRules) (ev : Event) (f : Fetch),
    authTypesForEvent rules ev = .error () → authCheck rules ev f = false

/-- The class the statement fails on: a `join` whose `join_authorised_via_users_server` is unreadable,
under rules with restricted joins (the selection needs the property, `auth_check` reads it only
when the join rule is `restricted` / `knock_restricted`). -/
def UnreadAuthorisingUser (rules : AuthRules) (ev : Event) : Prop :=
  contentMembership ev.content = .ok mJoin ∧ rules.restrictedJoinRule = true ∧
    contentJoinAuthorised ev.content = .error ()

/-- When the selection fails the event is rejected whatever the state — except in the class
`UnreadAuthorisingUser` (see `types_error_but_allowed`, findings/C09.json). -/
theorem authCheck_types_error_partial (rules : AuthRules) (ev : Event) (f : Fetch)
    (hS : authTypesForEvent rules ev = .error ()) (hx : ¬ UnreadAuthorisingUser rules ev) :
    authCheck rules ev f = false := by
  rw [authCheck_false]
  intro h
  by_cases hcr : ev.type = tCreate
  · simp [authTypesForEvent, hcr] at hS
  · have e1 : (ev.type == tCreate) = false := by simpa using hcr
    by_cases hm : ev.type = tMember
    · obtain ⟨create, -, h⟩ := authCheckR_member hm h
      have e2 : (tMember == tCreate) = false := by decide
      simp only [authTypesForEvent, hm, e2, Bool.false_eq_true, if_false, beq_self_eq_true, if_true] at hS
      cases hsk : ev.stateKey with
      | none => simp [checkRoomMember, hsk] at h
      | some sk =>
        cases hmem : contentMembership ev.content with
        | error e => simp [checkRoomMember, hsk, hmem, bind, Except.bind, require] at h; split at h <;> simp at h
        | ok m =>
          rw [checkRoomMember_eq hsk hmem] at h
          simp only [hsk, hmem, bind, Except.bind] at hS
          by_cases hi : m = mInvite
          · subst hi
            have c2 : (mInvite == mJoin) = false := by decide
            simp only [beq_self_eq_true, if_true, c2, Bool.false_and, Bool.false_eq_true, if_false] at hS
            have htp : tpiAuthType ev.content
                (if (false || true || mInvite == mKnock) = true then
                  pushNew (pushNew [(tPowerLevels, []), (tMember, ev.sender), (tCreate, [])] (tMember, sk)) (tJoinRules, [])
                else pushNew [(tPowerLevels, []), (tMember, ev.sender), (tCreate, [])] (tMember, sk)) = .error () := by
              split at hS
              · rename_i e he; cases e; exact he
              · simp at hS
            simp only [bind_eq_ok, require_eq_ok, c2, Bool.false_eq_true, if_false, beq_self_eq_true, if_true] at h
            obtain ⟨-, -, h⟩ := h
            unfold tpiAuthType at htp
            unfold checkMemberInvite at h
            cases hc : contentThirdPartyInvite ev.content with
            | error e => simp [hc, bind, Except.bind] at h
            | ok t =>
              cases t with
              | none => simp [hc, bind, Except.bind] at htp
              | some signed =>
                simp only [hc, bind, Except.bind] at htp h
                cases htok : tpiToken signed with
                | ok tok => simp [htok] at htp
                | error e =>
                  simp [checkThirdPartyInvite, htok, bind, Except.bind] at h
                  split at h <;> try simp at h
                  split at h <;> simp at h
          · have c1 : (m == mInvite) = false := by simpa using hi
            simp only [c1, Bool.false_eq_true, if_false] at hS
            by_cases hj : (m == mJoin && rules.restrictedJoinRule) = true
            · simp only [hj, if_true] at hS
              apply hx
              simp only [Bool.and_eq_true, beq_iff_eq] at hj
              refine ⟨hj.1 ▸ hmem, hj.2, ?_⟩
              unfold authorisedAuthType at hS
              cases hv : contentJoinAuthorised ev.content with
              | error e => rfl
              | ok via => cases via <;> simp [hv, bind, Except.bind] at hS
            · simp [hj] at hS
    · have e2 : (ev.type == tMember) = false := by simpa using hm
      simp [authTypesForEvent, e1, e2] at hS

/-! ### Concrete rooms -/

section Examples
open Ruma.Props.C08

/-- A `join` into a public v8 room whose `join_authorised_via_users_server` is the number 1. -/
def exOddJoin : Event :=
  { eventId := bs "$ev", roomId := bs "!room:s1", sender := exAlice, type := tMember, stateKey := some exAlice,
    content := [(bs "join_authorised_via_users_server", .int 1), (bs "membership", .str mJoin)],
    authEvents := [bs "$create"], prevEvents := [bs "$x"] }

/-- The negation witness: the selection fails, yet the event is allowed. -/
theorem types_error_but_allowed :
    authTypesForEvent AuthRules.v8 exOddJoin = .error () ∧
    authCheck AuthRules.v8 exOddJoin exPublicState = true := by
  constructor
  · rfl
  · decide +kernel

theorem authCheck_types_errorStatement_refuted : ¬ authCheck_types_errorStatement := by
  intro h
  have := h AuthRules.v8 exOddJoin exPublicState types_error_but_allowed.1
  rw [types_error_but_allowed.2] at this
  exact absurd this (by decide)

/-- The hypotheses of `authCheck_reads_subset` are satisfiable: the selection of a knock. -/
example : authTypesForEvent AuthRules.v7 exKnock =
    .ok [(tPowerLevels, []), (tMember, exAlice), (tCreate, []), (tJoinRules, [])] := rfl

/-- … and removing an unselected entry (Bob's membership) does not change the decision, as the theorem says. -/
example :
    authCheck AuthRules.v7 exKnock (exState [exCreate, exJoinRules jrKnock, exMember exBob mBan]) =
    authCheck AuthRules.v7 exKnock (exState [exCreate, exJoinRules jrKnock]) := by decide +kernel

/-- A selection failure outside the excluded class: a member event without `membership`. -/
def exNoMembership : Event := { exOddJoin with content := [] }

example : authTypesForEvent AuthRules.v8 exNoMembership = .error () ∧
    ¬ UnreadAuthorisingUser AuthRules.v8 exNoMembership := by
  refine ⟨rfl, ?_⟩
  intro h
  have h1 : contentMembership exNoMembership.content = .ok mJoin := h.1
  have h2 : contentMembership exNoMembership.content = .error () := rfl
  rw [h2] at h1
  exact absurd h1 (by simp)

end Examples

end Ruma.Props.C09

#print axioms Ruma.Props.C09.versions_consistent
#print axioms Ruma.Props.C09.authTypes_eq_spec
#print axioms Ruma.Props.C09.authCheck_reads_subset
#print axioms Ruma.Props.C09.authCheck_agree_on_selection
#print axioms Ruma.Props.C09.model_reads_within_selection
#print axioms Ruma.Props.C09.authCheck_types_error_partial
#print axioms Ruma.Props.C09.types_error_but_allowed
#print axioms Ruma.Props.C09.authCheck_types_errorStatement_refuted
