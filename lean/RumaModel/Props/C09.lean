/-
  C09 — auth-event selection matches the spec; authorization reads nothing else. (work in progress)
-/
import RumaModel.Model.Auth
import RumaModel.Model.AuthReads
import RumaModel.Spec.AuthTypes
namespace Ruma.Props.C09
open Ruma Ruma.Auth

/-- `m.room.create` events select no auth events. -/
theorem create_selects_nothing (rules : AuthRules) (ev : Event) (h : ev.type = tCreate) :
    authTypesForEvent rules ev = .ok [] := by
  simp [authTypesForEvent, h]

end Ruma.Props.C09

#print axioms Ruma.Props.C09.create_selects_nothing
