/-
  C13 — Push ruleset edits follow the documented placement semantics, never panic, fail atomically.
  Property theorems only; helper lemmas live in `Lemmas/Ruleset.lean`, `Lemmas/RulesetInv.lean`.

  Reading guide. `step s op` is the model of one `Ruleset::{insert, remove, set_enabled,
  set_actions, get}` call on ruleset `s` (`Model/Ruleset.lean`, mirrors `push.rs`): the new ruleset
  and the outcome (`ok`, `err class`, `panic`, `got rule?`). `exec s ops` is the ruleset after the
  operation sequence `ops`, `run s ops` additionally lists the outcomes. `Reachable s` says that `s`
  is produced by SOME operation sequence (any length, any operations, any ids) from the empty
  ruleset or from `Ruleset::server_default`; every theorem below quantifies over all of them — the
  proofs go by induction on the operation list through the invariants of `Lemmas/RulesetInv.lean`.
  `position l id` is the index of the rule `id` in the priority list `l` (0 = most important),
  `lookup` the rule itself, `others l id` the list without that rule, `s.get k` the list of kind `k`.
-/
import RumaModel.Lemmas.RulesetInv
namespace Ruma.Props.C13
open Ruma Ruma.Ruleset
open Ruma.Spec.RulesetPlacement (position lookup others isServerDefaultId anchorIsServerDefault
  hasInvalidChar defaultPosition insertRule newRule replaceInPlace)

/-- The two start states of the property. -/
inductive Start where
  | empty
  | serverDefault

def Start.state : Start → State
  | .empty => State.empty
  | .serverDefault => State.serverDefault

/-- `s` is the ruleset after some operation sequence from one of the two start states. -/
def Reachable (s : State) : Prop := ∃ (st : Start) (ops : List Op), s = exec st.state ops

theorem reachable_start (st : Start) : Reachable st.state := ⟨st, [], rfl⟩

/-- Reachability is closed under one more operation (so every theorem about `Reachable s` and one
further `step` is a theorem about every position in every operation sequence). -/
theorem reachable_step {s : State} (h : Reachable s) (op : Op) : Reachable (step s op).1 := by
  obtain ⟨st, ops, rfl⟩ := h
  exact ⟨st, ops ++ [op], by rw [exec_append, exec_cons, exec_nil]⟩

theorem reachable_inv {s : State} (h : Reachable s) : Inv s ∧ DefaultIffDot s := by
  obtain ⟨st, ops, rfl⟩ := h
  cases st with
  | empty => exact ⟨exec_inv inv_empty ops, exec_defaultIffDot inv_empty defaultIffDot_empty ops⟩
  | serverDefault =>
    exact ⟨exec_inv inv_serverDefault ops,
      exec_defaultIffDot inv_serverDefault defaultIffDot_serverDefault ops⟩

/-- **Rule ids stay unique per kind**, after every operation sequence from either start state. -/
theorem inv_unique_ids (st : Start) (ops : List Op) (k : Kind) :
    (((exec st.state ops).get k).map (·.id)).Nodup :=
  (reachable_inv ⟨st, ops, rfl⟩).1 k

/-- **The model of the code does what the specification prescribes**: in every reachable ruleset,
one step of the model (`push.rs`, indexmap operations) equals one step of
`Spec/RulesetPlacement.lean` (placement described on plain lists) — same new ruleset, same outcome. -/
theorem step_refines_spec {s : State} (h : Reachable s) (op : Op) :
    step s op = Spec.RulesetPlacement.step s op :=
  step_eq_spec (reachable_inv h).1 op

/-- The same for whole sequences: final ruleset and list of outcomes agree with the specification. -/
theorem run_refines_spec (st : Start) (ops : List Op) :
    run st.state ops = Spec.RulesetPlacement.run st.state ops := by
  have key : ∀ (ops : List Op) (s : State), Inv s → run s ops = Spec.RulesetPlacement.run s ops := by
    intro ops
    induction ops with
    | nil => intro s _; rfl
    | cons op t ih =>
      intro s hs
      have h1 := step_eq_spec hs op
      have h2 := ih (step s op).1 (step_inv hs op)
      simp only [run, Spec.RulesetPlacement.run]
      rw [← h1, h2]
  exact key ops _ (reachable_inv (reachable_start st)).1

private theorem spec_step_ne_panic (s : State) (op : Op) :
    (Spec.RulesetPlacement.step s op).2 ≠ .panic := by
  cases op with
  | insert k id actions a b =>
    simp only [Spec.RulesetPlacement.step]
    cases insertRule k (s.get k) id actions a b <;> simp
  | remove k id =>
    cases k with
    | custom => simp [Spec.RulesetPlacement.step]
    | known k =>
      simp only [Spec.RulesetPlacement.step]
      cases lookup (s.get k) id with
      | none => simp
      | some r => by_cases hd : r.dflt = true <;> simp [hd]
  | setEnabled k id on =>
    cases k with
    | custom => simp [Spec.RulesetPlacement.step]
    | known k =>
      simp only [Spec.RulesetPlacement.step]
      cases lookup (s.get k) id <;> simp
  | setActions k id actions =>
    cases k with
    | custom => simp [Spec.RulesetPlacement.step]
    | known k =>
      simp only [Spec.RulesetPlacement.step]
      cases lookup (s.get k) id <;> simp
  | get k id => cases k <;> simp [Spec.RulesetPlacement.step]

/-- **No operation panics**: in every reachable ruleset, no `insert`, `remove`, `set_enabled`,
`set_actions` or `get` call — with any kind, id, anchors — reaches `move_index` with an index out of
bounds or the `unreachable!()` of `remove`. -/
theorem no_panic {s : State} (h : Reachable s) (op : Op) : (step s op).2 ≠ .panic := by
  rw [step_refines_spec h]; exact spec_step_ne_panic s op

/-- The same, for the whole trace of any operation sequence from either start state. -/
theorem trace_no_panic (st : Start) (ops : List Op) : Outcome.panic ∉ (run st.state ops).2 := by
  rw [run_refines_spec]
  generalize st.state = s
  induction ops generalizing s with
  | nil => simp [Spec.RulesetPlacement.run]
  | cons op t ih =>
    simp only [Spec.RulesetPlacement.run, List.mem_cons, not_or]
    exact ⟨fun e => spec_step_ne_panic s op e.symm, ih _⟩

private theorem spec_step_not_ok_unchanged (s : State) (op : Op)
    (h : (Spec.RulesetPlacement.step s op).2 ≠ .ok) : (Spec.RulesetPlacement.step s op).1 = s := by
  cases op with
  | insert k id actions a b =>
    simp only [Spec.RulesetPlacement.step] at h ⊢
    cases hi : insertRule k (s.get k) id actions a b with
    | ok l => simp [hi] at h
    | error e => rfl
  | remove k id =>
    cases k with
    | custom => rfl
    | known k =>
      simp only [Spec.RulesetPlacement.step] at h ⊢
      cases hl : lookup (s.get k) id with
      | none => rfl
      | some r =>
        by_cases hd : r.dflt = true
        · simp [hd]
        · simp [hl, hd] at h
  | setEnabled k id on =>
    cases k with
    | custom => rfl
    | known k =>
      simp only [Spec.RulesetPlacement.step] at h ⊢
      cases hl : lookup (s.get k) id with
      | none => rfl
      | some r => simp [hl] at h
  | setActions k id actions =>
    cases k with
    | custom => rfl
    | known k =>
      simp only [Spec.RulesetPlacement.step] at h ⊢
      cases hl : lookup (s.get k) id with
      | none => rfl
      | some r => simp [hl] at h
  | get k id => cases k <;> rfl

/-- **An operation that returns an error leaves the ruleset unchanged** (every kind, every field
of every rule, every position) — and so does a lookup. -/
theorem error_leaves_unchanged {s : State} (h : Reachable s) (op : Op)
    (herr : (step s op).2 ≠ .ok) : (step s op).1 = s := by
  rw [step_refines_spec h] at herr ⊢
  exact spec_step_not_ok_unchanged s op herr

/-- What a successful insert does, as one normal form used by the placement theorems below. -/
private theorem insert_ok_form {s s' : State} (hs : Reachable s) {k : Kind} {id : Str}
    {actions : Nat} {a b : Option Str} (h : step s (.insert k id actions a b) = (s', .ok)) :
    ∃ l', insertRule k (s.get k) id actions a b = .ok l' ∧ s' = s.set k l' ∧ s'.get k = l' := by
  rw [step_refines_spec hs] at h
  simp only [Spec.RulesetPlacement.step] at h
  cases hi : insertRule k (s.get k) id actions a b with
  | error e => simp [hi] at h
  | ok l' =>
    simp only [hi, Prod.mk.injEq, and_true] at h
    exact ⟨l', rfl, h.symm, h ▸ State.get_set_same s k l'⟩

/-- **A new rule without anchors goes to the default position**: index 0 — the most important
rule of its kind — and index 1 among the overrides (index 0 when there is no other override
rule). It is enabled, not a server-default rule, and has the given actions. -/
theorem insert_new_unpositioned {s s' : State} (hs : Reachable s) {k : Kind} {id : Str}
    {actions : Nat} (hnew : lookup (s.get k) id = none)
    (h : step s (.insert k id actions none none) = (s', .ok)) :
    position (s'.get k) id = some (min (defaultPosition k) (s.get k).length)
      ∧ lookup (s'.get k) id
          = some { id := id, enabled := true, dflt := false, actions := actions } := by
  obtain ⟨l', hi, _, hget⟩ := insert_ok_form hs h
  obtain ⟨n, hn, rfl, _, _, _, hN, _⟩ := insertRule_form ((reachable_inv hs).1 k) hi
  have hp := lookup_none_position hnew
  rw [hget, hN rfl rfl hp]
  rw [hN rfl rfl hp] at hn
  have hnr : (newRule (s.get k) id actions) = { id := id, enabled := true, dflt := false, actions := actions } := by
    unfold newRule; rw [hnew]
  refine ⟨?_, ?_⟩
  · have := position_insertIdx_self (r := newRule (s.get k) id actions) hn (not_mem_ids_others _ _)
    exact this
  · have := lookup_insertIdx_self (r := newRule (s.get k) id actions) hn (not_mem_ids_others _ _)
    rw [newRule_id, hnr] at this
    rw [hnr]; exact this

/-- Among the overrides of a ruleset that started as the server-default ruleset, `.m.rule.master`
is and stays the first rule, whatever operations are applied … -/
theorem master_stays_first (ops : List Op) :
    position ((exec State.serverDefault ops).get .override) masterId = some 0 := by
  obtain ⟨m, t, hs, hid, _⟩ := exec_headMaster inv_serverDefault headMaster_serverDefault ops
  show position (exec State.serverDefault ops).override masterId = some 0
  rw [hs]; simp [position, hid]

/-- … and a new unpositioned override rule becomes the second rule, right after it; in every
other kind a new unpositioned rule becomes the first. -/
theorem insert_new_unpositioned_default_ruleset (ops : List Op) {s' : State} {id : Str}
    {actions : Nat} (hnew : lookup ((exec State.serverDefault ops).get .override) id = none)
    (h : step (exec State.serverDefault ops) (.insert .override id actions none none) = (s', .ok)) :
    position (s'.get .override) masterId = some 0 ∧ position (s'.get .override) id = some 1 := by
  have hr : Reachable (exec State.serverDefault ops) := ⟨.serverDefault, ops, rfl⟩
  refine ⟨?_, ?_⟩
  · have := master_stays_first (ops ++ [.insert .override id actions none none])
    rw [exec_append, exec_cons, exec_nil, h] at this
    exact this
  · rw [(insert_new_unpositioned hr hnew h).1]
    obtain ⟨m, t, hs, _, _⟩ := exec_headMaster inv_serverDefault headMaster_serverDefault ops
    have : (exec State.serverDefault ops).get .override = m :: t := hs
    rw [this]; simp [defaultPosition]

theorem insert_new_unpositioned_first {s s' : State} (hs : Reachable s) {k : Kind} {id : Str}
    {actions : Nat} (hk : k ≠ .override) (hnew : lookup (s.get k) id = none)
    (h : step s (.insert k id actions none none) = (s', .ok)) :
    position (s'.get k) id = some 0 := by
  rw [(insert_new_unpositioned hs hnew h).1]
  cases k <;> first | exact absurd rfl hk | simp [defaultPosition]

/-- **`after` puts the rule immediately after the referenced rule.** For every reachable ruleset,
whether the rule is new or exists, and wherever it was relative to its anchor (before it, after
it, adjacent or not): after a successful insert with `after = x` only, the rule's index is the
index of `x` plus one. -/
theorem insert_after_immediately_after {s s' : State} (hs : Reachable s) {k : Kind} {id x : Str}
    {actions : Nat} (h : step s (.insert k id actions (some x) none) = (s', .ok)) :
    ∃ i, position (s'.get k) x = some i ∧ position (s'.get k) id = some (i + 1) := by
  obtain ⟨l', hi, _, hget⟩ := insert_ok_form hs h
  obtain ⟨n, hn, rfl, hA, _⟩ := insertRule_form ((reachable_inv hs).1 k) hi
  obtain ⟨hx, hpos⟩ := hA x rfl rfl
  have hne : x ≠ (newRule (s.get k) id actions).id := by
    intro e
    rw [newRule_id] at e
    rw [e, position_others_self] at hx; cases hx
  refine ⟨n - 1, ?_, ?_⟩
  · rw [hget, position_insertIdx_other hn hne, hx]
    simp; omega
  · rw [hget]
    have := position_insertIdx_self (r := newRule (s.get k) id actions) hn (not_mem_ids_others _ _)
    rw [newRule_id] at this
    rw [this]; congr 1; omega

/-- **`before` puts the rule immediately before the referenced rule** (also when `after` is given
as well: then the rule additionally comes after the `after` rule). For every reachable ruleset and
every previous position of the rule relative to its anchors. -/
theorem insert_before_immediately_before {s s' : State} (hs : Reachable s) {k : Kind} {id y : Str}
    {actions : Nat} {a : Option Str} (h : step s (.insert k id actions a (some y)) = (s', .ok)) :
    ∃ i, position (s'.get k) id = some i ∧ position (s'.get k) y = some (i + 1)
      ∧ ∀ x, a = some x → ∃ j, position (s'.get k) x = some j ∧ j < i := by
  obtain ⟨l', hi, _, hget⟩ := insert_ok_form hs h
  obtain ⟨n, hn, rfl, _, hB, hAB, _⟩ := insertRule_form ((reachable_inv hs).1 k) hi
  have hy := hB y rfl
  have hself := position_insertIdx_self (r := newRule (s.get k) id actions) hn (not_mem_ids_others _ _)
  rw [newRule_id] at hself
  have hne : ∀ z i, position (others (s.get k) id) z = some i → z ≠ (newRule (s.get k) id actions).id := by
    intro z i hz e
    rw [newRule_id] at e
    rw [e, position_others_self] at hz; cases hz
  refine ⟨n, by rw [hget]; exact hself, ?_, ?_⟩
  · rw [hget, position_insertIdx_other hn (hne y n hy), hy]; simp
  · intro x hx
    obtain ⟨i, hxi, hlt⟩ := hAB x y hx rfl
    refine ⟨i, ?_, hlt⟩
    rw [hget, position_insertIdx_other hn (hne x i hxi), hxi]; simp [hlt]

/-- **Replacing a rule keeps its `enabled` flag and, if unpositioned, its place.** Inserting a
rule whose id exists yields a rule with the old `enabled` flag, the new actions, not
server-default; without anchors it stays at its index and the order of ids is unchanged. -/
theorem replace_keeps_enabled_and_place {s s' : State} (hs : Reachable s) {k : Kind} {id : Str}
    {actions : Nat} {a b : Option Str} {old : Rule} (hold : lookup (s.get k) id = some old)
    (h : step s (.insert k id actions a b) = (s', .ok)) :
    lookup (s'.get k) id
        = some { id := id, enabled := old.enabled, dflt := false, actions := actions }
      ∧ (a = none → b = none →
          position (s'.get k) id = position (s.get k) id
            ∧ (s'.get k).map (·.id) = (s.get k).map (·.id)) := by
  have hu := (reachable_inv hs).1 k
  obtain ⟨l', hi, _, hget⟩ := insert_ok_form hs h
  obtain ⟨n, hn, rfl, _, _, _, _, hC⟩ := insertRule_form hu hi
  have hnr : (newRule (s.get k) id actions)
      = { id := id, enabled := old.enabled, dflt := false, actions := actions } := by
    unfold newRule; rw [hold]
  refine ⟨?_, ?_⟩
  · have := lookup_insertIdx_self (r := newRule (s.get k) id actions) hn (not_mem_ids_others _ _)
    rw [newRule_id] at this
    rw [hget, this, hnr]
  · intro ha hb
    obtain ⟨c, hc⟩ := lookup_some_position hold
    have hnc := hC ha hb c hc
    subst hnc
    have hself := position_insertIdx_self (r := newRule (s.get k) id actions) hn (not_mem_ids_others _ _)
    rw [newRule_id] at hself
    refine ⟨by rw [hget, hself, hc], ?_⟩
    have hc' : position (s.get k) (newRule (s.get k) id actions).id = some n := hc
    have := replaceInPlace_eq_insertIdx hu hc'
    rw [newRule_id] at this
    rw [hget, ← this]
    exact ids_replaceInPlace _ _

/-- **Server-default rules are protected** (1): a rule whose id starts with `.` cannot be created
or overwritten — the insert fails and changes nothing. -/
theorem server_default_protected_create {s : State} (hs : Reachable s) (k : Kind) {id : Str}
    (actions : Nat) (a b : Option Str) (hid : isServerDefaultId id = true) :
    step s (.insert k id actions a b) = (s, .err .prot) := by
  rw [step_refines_spec hs]
  simp [Spec.RulesetPlacement.step, insertRule, hid]

/-- (2): a server-default rule cannot be used as `after` / `before` anchor — the insert fails and
changes nothing. -/
theorem server_default_protected_anchor {s : State} (hs : Reachable s) (k : Kind) (id : Str)
    (actions : Nat) {a b : Option Str}
    (hab : anchorIsServerDefault a = true ∨ anchorIsServerDefault b = true) :
    ∃ c, step s (.insert k id actions a b) = (s, .err c) := by
  rw [step_refines_spec hs]
  simp only [Spec.RulesetPlacement.step, insertRule]
  by_cases h1 : isServerDefaultId id = true
  · exact ⟨.prot, by simp [h1]⟩
  by_cases h2 : hasInvalidChar id = true
  · exact ⟨.invalid, by simp [h1, h2]⟩
  have : (anchorIsServerDefault a || anchorIsServerDefault b) = true := by
    rcases hab with h | h <;> simp [h]
  exact ⟨.prot, by simp [h1, h2, this]⟩

/-- (3): a server-default rule cannot be removed: `remove` with an id starting with `.` fails in
every reachable ruleset and changes nothing; … -/
theorem server_default_protected_remove {s : State} (hs : Reachable s) (k : KindArg) {id : Str}
    (hid : isServerDefaultId id = true) :
    ∃ c, step s (.remove k id) = (s, .err c) := by
  rw [step_refines_spec hs]
  cases k with
  | custom => exact ⟨.unknown, rfl⟩
  | known k =>
    simp only [Spec.RulesetPlacement.step]
    cases hl : lookup (s.get k) id with
    | none => exact ⟨.unknown, rfl⟩
    | some r =>
      have : r.dflt = true := by
        rw [(reachable_inv hs).2 k r (lookup_mem hl), lookup_id hl]; exact hid
      exact ⟨.prot, by simp [this]⟩

/-- … and (4), outright: after ANY operation sequence the server-default rules of every kind are
the ones of the start state, in the same order — none was removed, created or moved past another. -/
theorem server_default_protected (st : Start) (ops : List Op) (k : Kind) :
    defaultIds ((exec st.state ops).get k) = defaultIds (st.state.get k) := by
  cases st with
  | empty => exact exec_defaultIds inv_empty defaultIffDot_empty ops k
  | serverDefault => exact exec_defaultIds inv_serverDefault defaultIffDot_serverDefault ops k

/-- The kind and rule an operation is about (`none`: a custom kind). -/
def target : Op → Option (Kind × Str)
  | .insert k id _ _ _ => some (k, id)
  | .remove (.known k) id => some (k, id)
  | .setEnabled (.known k) id _ => some (k, id)
  | .setActions (.known k) id _ => some (k, id)
  | .get (.known k) id => some (k, id)
  | _ => none

private theorem spec_step_others (s : State) (hu : Inv s) (op : Op) :
    match target op with
    | some (k, id) =>
      (∀ k', k' ≠ k → (Spec.RulesetPlacement.step s op).1.get k' = s.get k')
        ∧ others ((Spec.RulesetPlacement.step s op).1.get k) id = others (s.get k) id
    | none => (Spec.RulesetPlacement.step s op).1 = s := by
  have set_k : ∀ k id l, others l id = others (s.get k) id →
      (∀ k', k' ≠ k → (s.set k l).get k' = s.get k') ∧ others ((s.set k l).get k) id = others (s.get k) id :=
    fun k id l hl => ⟨fun k' hk => State.get_set_ne s l hk, by rw [State.get_set_same]; exact hl⟩
  cases op with
  | insert k id actions a b =>
    simp only [target, Spec.RulesetPlacement.step]
    cases hi : insertRule k (s.get k) id actions a b with
    | error e => exact ⟨fun _ _ => rfl, rfl⟩
    | ok l' =>
      obtain ⟨n, hn, rfl, _⟩ := insertRule_form (hu k) hi
      refine set_k k id _ ?_
      have := others_insertIdx_self (r := newRule (s.get k) id actions) hn (not_mem_ids_others _ _)
      rw [newRule_id] at this
      exact this
  | remove k id =>
    cases k with
    | custom => rfl
    | known k =>
      simp only [target, Spec.RulesetPlacement.step]
      cases hl : lookup (s.get k) id with
      | none => exact ⟨fun _ _ => rfl, rfl⟩
      | some r =>
        by_cases hd : r.dflt = true
        · simp [hd]
        · simp only [hd, if_false, Bool.false_eq_true]
          exact set_k k id _ (others_others _ _)
  | setEnabled k id on =>
    cases k with
    | custom => rfl
    | known k =>
      simp only [target, Spec.RulesetPlacement.step]
      cases hl : lookup (s.get k) id with
      | none => exact ⟨fun _ _ => rfl, rfl⟩
      | some r =>
        refine set_k k id _ ?_
        have hid : r.id = id := lookup_id hl
        subst hid
        exact others_replaceInPlace ({ r with enabled := on }) (s.get k)
  | setActions k id actions =>
    cases k with
    | custom => rfl
    | known k =>
      simp only [target, Spec.RulesetPlacement.step]
      cases hl : lookup (s.get k) id with
      | none => exact ⟨fun _ _ => rfl, rfl⟩
      | some r =>
        refine set_k k id _ ?_
        have hid : r.id = id := lookup_id hl
        subst hid
        exact others_replaceInPlace ({ r with actions := actions }) (s.get k)
  | get k id =>
    cases k with
    | custom => rfl
    | known k => exact ⟨fun _ _ => rfl, rfl⟩

/-- **The other rules keep their relative order** (and everything else about them): whatever an
operation on rule `id` of kind `k` does and returns, the rules of the other kinds are untouched,
and the list of kind `k` without rule `id` is exactly what it was — same rules, same fields, same
order. An operation on a custom kind changes nothing at all. -/
theorem other_rules_keep_relative_order {s : State} (hs : Reachable s) (op : Op) :
    match target op with
    | some (k, id) =>
      (∀ k', k' ≠ k → (step s op).1.get k' = s.get k')
        ∧ others ((step s op).1.get k) id = others (s.get k) id
    | none => (step s op).1 = s := by
  rw [step_refines_spec hs]; exact spec_step_others s (reachable_inv hs).1 op

/-- What the three remaining operations do to the rule itself: `remove` deletes exactly that rule;
`set_enabled` / `set_actions` change exactly that field and keep the place. -/
theorem remove_ok {s s' : State} (hs : Reachable s) {k : Kind} {id : Str}
    (h : step s (.remove (.known k) id) = (s', .ok)) :
    s'.get k = others (s.get k) id ∧ lookup (s'.get k) id = none := by
  rw [step_refines_spec hs] at h
  simp only [Spec.RulesetPlacement.step] at h
  cases hl : lookup (s.get k) id with
  | none => simp [hl] at h
  | some r =>
    by_cases hd : r.dflt = true
    · simp [hl, hd] at h
    · simp only [hl, hd, if_false, Bool.false_eq_true, Prod.mk.injEq, and_true] at h
      have hg : s'.get k = others (s.get k) id := h ▸ State.get_set_same s k _
      refine ⟨hg, ?_⟩
      rw [hg]
      cases hl2 : lookup (others (s.get k) id) id with
      | none => rfl
      | some r2 =>
        obtain ⟨c, hc⟩ := lookup_some_position hl2
        rw [position_others_self] at hc; cases hc

theorem set_enabled_ok {s s' : State} (hs : Reachable s) {k : Kind} {id : Str} {on : Bool}
    (h : step s (.setEnabled (.known k) id on) = (s', .ok)) :
    ∃ r, lookup (s.get k) id = some r ∧ lookup (s'.get k) id = some { r with enabled := on }
      ∧ position (s'.get k) id = position (s.get k) id := by
  have hu := (reachable_inv hs).1 k
  rw [step_refines_spec hs] at h
  simp only [Spec.RulesetPlacement.step] at h
  cases hl : lookup (s.get k) id with
  | none => simp [hl] at h
  | some r =>
    simp only [hl, Prod.mk.injEq, and_true] at h
    have hg : s'.get k = replaceInPlace { r with enabled := on } (s.get k) := h ▸ State.get_set_same s k _
    obtain ⟨c, hc⟩ := lookup_some_position hl
    have hid0 : r.id = id := lookup_id hl
    have hid : ({ r with enabled := on } : Rule).id = id := hid0
    have hc' : position (s.get k) ({ r with enabled := on } : Rule).id = some c := hid ▸ hc
    have hform := replaceInPlace_eq_insertIdx hu hc'
    have hn : c ≤ (others (s.get k) ({ r with enabled := on } : Rule).id).length := by
      rw [others_eq_eraseIdx hu hc', List.length_eraseIdx]; have := position_lt hc'; simp [this]; omega
    refine ⟨r, rfl, ?_, ?_⟩
    · rw [hg, hform, ← hid]; exact lookup_insertIdx_self hn (not_mem_ids_others _ _)
    · rw [hg, hform, hc, ← hid]; exact position_insertIdx_self hn (not_mem_ids_others _ _)

theorem set_actions_ok {s s' : State} (hs : Reachable s) {k : Kind} {id : Str} {actions : Nat}
    (h : step s (.setActions (.known k) id actions) = (s', .ok)) :
    ∃ r, lookup (s.get k) id = some r ∧ lookup (s'.get k) id = some { r with actions := actions }
      ∧ position (s'.get k) id = position (s.get k) id := by
  have hu := (reachable_inv hs).1 k
  rw [step_refines_spec hs] at h
  simp only [Spec.RulesetPlacement.step] at h
  cases hl : lookup (s.get k) id with
  | none => simp [hl] at h
  | some r =>
    simp only [hl, Prod.mk.injEq, and_true] at h
    have hg : s'.get k = replaceInPlace { r with actions := actions } (s.get k) :=
      h ▸ State.get_set_same s k _
    obtain ⟨c, hc⟩ := lookup_some_position hl
    have hid0 : r.id = id := lookup_id hl
    have hid : ({ r with actions := actions } : Rule).id = id := hid0
    have hc' : position (s.get k) ({ r with actions := actions } : Rule).id = some c := hid ▸ hc
    have hform := replaceInPlace_eq_insertIdx hu hc'
    have hn : c ≤ (others (s.get k) ({ r with actions := actions } : Rule).id).length := by
      rw [others_eq_eraseIdx hu hc', List.length_eraseIdx]; have := position_lt hc'; simp [this]; omega
    refine ⟨r, rfl, ?_, ?_⟩
    · rw [hg, hform, ← hid]; exact lookup_insertIdx_self hn (not_mem_ids_others _ _)
    · rw [hg, hform, hc, ← hid]; exact position_insertIdx_self hn (not_mem_ids_others _ _)

/-! ### Non-vacuity: the hypotheses above are satisfiable, on the witnesses of defect F5 -/

section Examples
def a := bs "a"
def b := bs "b"
def c := bs "c"
def mk (id : Str) : Rule := { id := id, enabled := true, dflt := false, actions := 1 }

/-- An override rule can be inserted into the empty ruleset (F5: used to panic). -/
example : step State.empty (.insert .override a 1 none none)
    = ({ State.empty with override := [mk a] }, .ok) := by decide

/-- `[c, b, a]`, insert `c` after `b`: a rule moved FORWARD lands immediately after its anchor
(F5: used to give `[b, a, c]`). -/
example : (run State.empty [.insert .content a 1 none none, .insert .content b 1 none none,
      .insert .content c 1 none none, .insert .content c 1 (some b) none]).1.content
    = [mk b, mk c, mk a] := by decide

/-- A rule moved BACKWARD: `[c, b, a]`, insert `a` after `c` gives `[c, a, b]`. -/
example : (run State.empty [.insert .content a 1 none none, .insert .content b 1 none none,
      .insert .content c 1 none none, .insert .content a 1 (some c) none]).1.content
    = [mk c, mk a, mk b] := by decide

/-- Re-inserting a rule after the LAST rule (F5: used to panic): `[b, a]`, `b` after `a`. -/
example : (run State.empty [.insert .content a 1 none none, .insert .content b 1 none none,
      .insert .content b 1 (some a) none])
    = ({ State.empty with content := [mk a, mk b] }, [.ok, .ok, .ok]) := by decide

/-- `before` in both directions: `[c, b, a]`: `c` before `a` gives `[b, c, a]`; `a` before `c`
gives `[a, c, b]`. -/
example : (run State.empty [.insert .content a 1 none none, .insert .content b 1 none none,
      .insert .content c 1 none none, .insert .content c 1 none (some a)]).1.content
    = [mk b, mk c, mk a] := by decide
example : (run State.empty [.insert .content a 1 none none, .insert .content b 1 none none,
      .insert .content c 1 none none, .insert .content a 1 none (some c)]).1.content
    = [mk a, mk c, mk b] := by decide

/-- A failed insert (unknown anchor; `before` above `after`) changes nothing (F5: used to leave the
new rule appended / the old rule overwritten); a disabled rule stays disabled when replaced. -/
example : run State.empty [.insert .content a 1 none none, .insert .content b 1 (some (bs "zz")) none]
    = ({ State.empty with content := [mk a] }, [.ok, .err .unknown]) := by decide
example : run State.empty [.insert .content a 1 none none, .insert .content b 1 none none,
      .setEnabled (.known .content) a false, .insert .content a 3 (some b) (some b),
      .insert .content a 3 none none]
    = ({ State.empty with content := [mk b, { mk a with enabled := false, actions := 3 }] },
        [.ok, .ok, .ok, .err .order, .ok]) := by decide

/-- From the server-default ruleset: a new override goes to index 1, behind `.m.rule.master`;
`.m.rule.master` can be neither removed nor used as anchor nor re-created. -/
example : ((run State.serverDefault [.insert .override a 1 none none]).1.override.take 2).map (·.id)
    = [masterId, a] := by decide
example : (run State.serverDefault [.remove (.known .override) masterId,
      .insert .override a 1 (some masterId) none, .insert .override masterId 1 none none])
    = (State.serverDefault, [.err .prot, .err .prot, .err .prot]) := by decide

/-- The hypotheses of the placement theorems are satisfiable in every relative position of rule
and anchor. `cba` is the reachable content list `[c, b, a]`. -/
def cba : State := exec State.empty [.insert .content a 1 none none, .insert .content b 1 none none,
  .insert .content c 1 none none]
theorem cba_reachable : Reachable cba := ⟨.empty, _, rfl⟩

/-- `insert_after_immediately_after`, rule before its anchor (moves forward), adjacent: -/
example : step cba (.insert .content c 1 (some b) none) = ((step cba (.insert .content c 1 (some b) none)).1, .ok)
    ∧ position (cba.get .content) c = some 0 ∧ position (cba.get .content) b = some 1 := by decide
/-- … not adjacent (`c` after `a`), rule after its anchor (`a` after `c`), and a new rule: -/
example : (step cba (.insert .content c 1 (some a) none)).2 = .ok
    ∧ (step cba (.insert .content a 1 (some c) none)).2 = .ok
    ∧ (step cba (.insert .content (bs "n") 1 (some b) none)).2 = .ok := by decide
/-- `insert_before_immediately_before`, rule after / before its anchor, with and without `after`: -/
example : (step cba (.insert .content a 1 none (some c))).2 = .ok
    ∧ (step cba (.insert .content c 1 none (some a))).2 = .ok
    ∧ (step cba (.insert .content a 1 (some c) (some b))).2 = .ok
    ∧ (step cba (.insert .content (bs "n") 1 (some c) (some b))).2 = .ok := by decide
/-- `replace_keeps_enabled_and_place` and `insert_new_unpositioned`: -/
example : lookup (cba.get .content) b = some (mk b)
    ∧ (step cba (.insert .content b 2 none none)).2 = .ok
    ∧ lookup (cba.get .content) (bs "n") = none
    ∧ (step cba (.insert .content (bs "n") 2 none none)).2 = .ok := by decide
/-- `error_leaves_unchanged`: errors of every class occur in reachable states. -/
example : (step cba (.insert .content a 1 (some b) (some c))).2 = .err .order
    ∧ (step cba (.insert .content a 1 (some a) none)).2 = .err .unknown
    ∧ (step cba (.insert .content (bs "a/b") 1 none none)).2 = .err .invalid
    ∧ (step cba (.remove (.known .content) (bs ".x"))).2 = .err .unknown
    ∧ (step State.serverDefault (.remove (.known .content) (bs ".m.rule.contains_user_name"))).2
        = .err .prot := by decide

/-- `Reachable` is inhabited by non-trivial rulesets. -/
example : Reachable { State.empty with content := [mk b, mk c, mk a] } :=
  ⟨.empty, [.insert .content a 1 none none, .insert .content b 1 none none,
      .insert .content c 1 none none, .insert .content c 1 (some b) none], by decide⟩
end Examples

#print axioms inv_unique_ids
#print axioms step_refines_spec
#print axioms run_refines_spec
#print axioms no_panic
#print axioms trace_no_panic
#print axioms error_leaves_unchanged
#print axioms insert_new_unpositioned
#print axioms master_stays_first
#print axioms insert_new_unpositioned_default_ruleset
#print axioms insert_new_unpositioned_first
#print axioms insert_after_immediately_after
#print axioms insert_before_immediately_before
#print axioms replace_keeps_enabled_and_place
#print axioms server_default_protected_create
#print axioms server_default_protected_anchor
#print axioms server_default_protected_remove
#print axioms server_default_protected
#print axioms other_rules_keep_relative_order
#print axioms remove_ok
#print axioms set_enabled_ok
#print axioms set_actions_ok
end Ruma.Props.C13
