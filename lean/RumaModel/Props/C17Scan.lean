/-
  C17 — hand-written scanners of untrusted input, part 2 (staging file: the theorems below are also
  obligations of `Props/C17.lean`, which imports this module and lists them).

  Each theorem is about a branch-for-branch model (`Model/Scan*.lean`) in which every index, slice,
  `unwrap`/`expect`, subtraction and loop of the Rust code is an explicit `panic` / `hang` outcome;
  `Returns` = the outcome is a value or an error. Strings (`&str` arguments) are arbitrary well-formed
  UTF-8 byte strings of any length; byte slices (`&[u8]`) are arbitrary byte strings.
-/
import RumaModel.Lemmas.ScanMultipart
import RumaModel.Lemmas.ScanCallMember
import RumaModel.Lemmas.ScanLang
import RumaModel.Lemmas.ScanTag
import RumaModel.Lemmas.ScanPlainReply
import RumaModel.Lemmas.ScanWordBytes
namespace Ruma.Props.C17
open Ruma Ruma.Scan

/-! ## Federation media: `multipart/mixed` body splitter -/

/-- **The `multipart/mixed` splitter of the federation media responses returns for every body**:
for every boundary without a CR (it went through `HeaderValue::to_str`, which only lets visible
ASCII, space and tab through), every body of any length and every behaviour of the external stages
(`serde_json` on the metadata, `httparse` and the header loop on the content headers), none of the
slices `bytes[a..b]` is out of range, the `unwrap` cannot fail and the empty-line loop ends within its
fuel `end − headers_start + 1`. -/
theorem multipart_split_returns (E : ScanMultipart.Ext) (boundary body : Str) (hcr : 13 ∉ boundary) :
    (ScanMultipart.split E boundary body).Returns :=
  ScanMultipart.split_returns E boundary body hcr

/-- `parse_multipart_body_part` itself returns whenever it is called with `start ≤ end ≤ len`
(and panics in its first slice otherwise: `ScanMultipart.parsePart_panics_of_gt`). -/
theorem multipart_part_returns (bytes : Str) (start end_ : Nat) (h1 : start ≤ end_) (h2 : end_ ≤ bytes.length) :
    (ScanMultipart.parsePart bytes start end_).Returns :=
  ScanMultipart.parsePart_returns bytes start end_ h1 h2

/-- The hypothesis on the boundary is needed: with a CR in the boundary the metadata part would be
sliced with `start > end` (not reachable through `HeaderValue::to_str`). -/
example : ScanMultipart.split ⟨fun _ => true, fun _ => .file⟩ [13, 10, 45, 45]
    [45, 45, 13, 10, 45, 45, 13, 10, 45, 45, 13, 10, 45, 45] = .panic := by decide

/-- Non-vacuity: a well-formed response is split into metadata and file. -/
example : ScanMultipart.split ⟨fun m => m == bs "{}", fun _ => .file⟩ (bs "abc")
    (bs "\r\n--abc\r\nContent-Type: application/json\r\n\r\n{}\r\n--abc\r\nContent-Type: text/plain\r\n\r\nsome text\r\n--abc--")
    = .ok (.file (bs "some text")) := by decide

/-- The code before the fix (`memchr(b'\n', &bytes[start..end]).expect(..)`): the first scan of a part
without any newline panicked. Kept as the machine-checked witness of finding F17. -/
def parsePartBeforeFix (bytes : Str) (start end_ : Nat) : ScanMultipart.Res (Str × Str) :=
  match bytesSlice bytes start end_ with
  | none => .panic
  | some sl =>
    match findByte 10 sl with
    | none => .panic
    | some k =>
      ScanMultipart.lineLoop bytes end_ (k + start + 1) (end_ - (k + start + 1) + 1) (k + start + 1)

/-- F17 on the model: two adjacent boundaries (`\r\n--abc\r\n--abc…`) — the metadata part is
`bytes[7..7]`. -/
example : parsePartBeforeFix (bs "\r\n--abc\r\n--abc\r\n\r\nx\r\n--abc--") 7 7 = .panic := by decide
example : ScanMultipart.parsePart (bs "\r\n--abc\r\n--abc\r\n\r\nx\r\n--abc--") 7 7 = .err .sep := by decide

/-! ## `m.call.member` state keys -/

/-- **`CallMemberStateKey::from_str` returns for every string**: the three slices around the first
colon and the first underscore behind it are in range and on char boundaries, and `UserId::parse` on
the pieces does not panic (C10's model, for every behaviour of the IP-literal parsers). -/
theorem call_member_key_returns (x : Ids.Ext) (s : Str) (h : Ids.utf8Valid s = true) :
    (ScanCallMember.fromStr x s).Returns :=
  ScanCallMember.fromStr_returns x s (Ids.sep_of_utf8Valid s h)

/-- What it accepts formats back to the input (`Display` of the parsed enum is the raw string that
`CallMemberStateKey` stores beside it). -/
theorem call_member_key_display (x : Ids.Ext) (s : Str) (h : Ids.utf8Valid s = true)
    {k : ScanCallMember.Key} (hk : ScanCallMember.fromStr x s = .ok k) : k.display = s :=
  ScanCallMember.fromStr_display x s (Ids.sep_of_utf8Valid s h) hk

/-! ## `<code class="language-…">` -/

/-- **The `language-` scan of `CodeData::parse` returns for every attribute value**: the byte before a
match exists, the slice behind the prefix and the sub-tendril `[language_start, language_end)` are in
range and on char boundaries, and `language_end − language_start` cannot underflow. -/
theorem code_language_scan_returns (v : Str) (h : Ids.utf8Valid v = true) :
    (ScanLang.scanClass v).Returns :=
  ScanLang.scanClass_returns v (Ids.sep_of_utf8Valid v h)

example : ScanLang.scanClass (bs "hljs language-rust x") = .ok ⟨some (bs "rust"), true⟩ := by decide
example : ScanLang.scanClass (bs "language-rust") = .ok ⟨some (bs "rust"), false⟩ := by decide
example : ScanLang.scanClass (bs "xlanguage-a language- b") = .ok ⟨none, true⟩ := by decide

/-! ## `m.tag` tag names -/

/-- **`TagName::display_name` returns for every tag name**, and what it returns is a suffix of the
name. -/
theorem tag_display_name_returns (s : Str) (h : Ids.utf8Valid s = true) :
    (ScanTag.displayNameOf s).Returns ∧ ∀ r, ScanTag.displayNameOf s = .ok r → r <:+ s :=
  ⟨ScanTag.displayNameOf_returns s (Ids.sep_of_utf8Valid s h),
   fun _ hr => ScanTag.displayNameOf_suffix s (Ids.sep_of_utf8Valid s h) hr⟩

example : ScanTag.displayNameOf (bs "org.example.work") = .ok (bs "work") := by decide
example : ScanTag.displayNameOf (bs "u.") = .ok [] := by decide

/-! ## Plain-text reply fallback -/

/-- **`remove_plain_reply_fallback` terminates on every string** (the `while s.starts_with("> ")` loop
ends within `len + 1` iterations) and returns a suffix of its argument. -/
theorem plain_reply_fallback_terminates (s : Str) :
    ∃ r, ScanPlainReply.removeFallback s = .ok r ∧ r <:+ s :=
  ScanPlainReply.removeFallback_ok s

example : ScanPlainReply.removeFallback (bs "> <@a:h> one\n> two\n\n\nreply") = .ok (bs "\nreply") := by decide

/-! ## Push rules: word matching on `content.body`, at byte level -/

/-- **The literal branch of `matches_word_impl` returns for every text and pattern** (well-formed
UTF-8 of any length): `char_len`'s loop ends (it is only ever called on an index inside the text),
`char_at`'s slice is exactly one character so that `char::from_str` cannot fail, `find_prev_char`
cannot run below index 0, `find_prev_char(end).unwrap()` has a character, the three slices of "find
next word" are on char boundaries, and the recursion on the rest of the text ends within `len + 1`
calls. This is the byte-index side of what C12's code-point model takes for granted. -/
theorem word_match_bytes_returns (s p : Str) (hs : Ids.utf8Valid s = true) (hp : Ids.utf8Valid p = true) :
    ∃ r, ScanWordBytes.matchesWord s p = .ok r :=
  ScanWordBytes.matchesWord_ok s p hs hp

/-- `char_at` on a char boundary inside a well-formed text returns one character. -/
theorem char_at_returns (s : Str) (hs : Ids.utf8Valid s = true) (i : Nat)
    (hb : Ids.isBoundary s i = true) (hi : i < s.length) : ∃ cs, ScanWordBytes.charAt s i = .ok cs :=
  ScanWordBytes.charAt_ok hs hb hi

/-- `char_len(index)` with `index = len` does not terminate (the site the callers must and do avoid:
`word_boundary_end` tests `end == self.len()` first). -/
example : ScanWordBytes.charLen (bs "ab") 2 = .hang := by decide

example : ScanWordBytes.matchesWord (bs "hi me, you") (bs "me") = .ok true := by decide
example : ScanWordBytes.matchesWord (bs "home_me") (bs "me") = .ok false := by decide
example : ScanWordBytes.matchesWord [0xc3, 0xa9, 109, 101] (bs "me") = .ok true := by decide

#print axioms multipart_split_returns
#print axioms multipart_part_returns
#print axioms call_member_key_returns
#print axioms call_member_key_display
#print axioms code_language_scan_returns
#print axioms tag_display_name_returns
#print axioms plain_reply_fallback_terminates
#print axioms word_match_bytes_returns
#print axioms char_at_returns
end Ruma.Props.C17
