/-
  C07 — Resolved state equals the spec's state resolution v2; the exposed topological sort is the
  spec's. Property theorems only; helper lemmas live in `Lemmas/StateRes*.lean`.

  Reading guide. `lexTopoSort psh g key` is the model of `lexicographical_topological_sort`
  (`Model/TopoSort.lean`; `psh` = iteration orders of the `reverse_graph` hash sets), `resolve p o …`
  the model of `resolve` (`Model/StateRes.lean`; `o` = iteration orders of all hash containers,
  `p` = the authorization functions of C08/C09, `realParams r` = those of the repository for the
  rule set `r`). `Spec/StateResV2.lean` is the specification: `resolveV2 = resolveWith false`;
  `resolveV2F4 = resolveWith true` is the specification carrying exactly the one known deviation F4.
  State maps are compared up to lookup (`StEq`), outcomes by `ResEq` (same failure, or `StEq`).

  Every stage theorem stands on its own; `resolve_refines_spec_*` assemble them.
  The room hypothesis `RoomOk` (`Lemmas/StateResSpec.lean`) is C06's `RoomWF` plus: state maps and
  auth chains are maps/sets (`SetsWF`, duplicate-free chains), no event of the full conflicted set
  is itself an `m.room.create` event, the store is closed under `auth_events` and acyclic, the state
  sets mention known events only. `SpecWF p …` is `RoomOk` plus: authorization reads only the
  selected auth types (`AuthLocal p`, C09 — a theorem for `realParams`, see `authLocal_real`).
-/
import RumaModel.Lemmas.StateResWitness
import RumaModel.Lemmas.StateResHyp
namespace Ruma.Props.C07
open Ruma Ruma.StateRes Ruma.Spec.StateResV2

/-! ## The topological sort -/

/-- The code's `TieBreaker` order is the comparison the spec words: greater power level first, then
earlier `origin_server_ts`, then smaller event id. -/
theorem tieBreaker_eq_spec (a b : TB) : TB.lt a b = powerLt a b := tb_lt_eq_powerLt a b

/-- **lexTopoSort_spec.** For every finite DAG whose edges stay inside the node set (distinct node
keys), every total key function and every iteration order of the internal hash sets, the sort
succeeds and its output is the reverse topological power ordering of the spec: a permutation of the
nodes in which every node is a candidate of Kahn's algorithm at its position (all its
dependencies were emitted before it) and is the (power desc, ts asc, id asc)-least candidate there. -/
theorem lexTopoSort_spec {g : Graph} (hd : IsDag g) {psh : Id → List Id → List Id}
    (hpsh : ∀ n l, (psh n l).Perm l) {key : Id → Option (Int × Int)} {kf : Id → Int × Int}
    (hk : ∀ n ∈ g.nodes, key n = some (kf n)) :
    ∃ out, lexTopoSort psh g key = .ok out ∧ IsLexTopoOrder g (Kf kf) out :=
  ⟨_, lexTopoSort_eq_lexTopo hd.nodup hpsh hk, lexTopo_isLexTopoOrder hd kf⟩

/-- The hypotheses of `lexTopoSort_spec` are satisfiable: a diamond `d → {b, c} → a`. -/
example : IsDag [(bs "d", [bs "b", bs "c"]), (bs "b", [bs "a"]), (bs "a", []), (bs "c", [bs "a"])] := by
  exact isDag_of_check _ (fun n => if n = bs "a" then 0 else if n = bs "d" then 2 else 1)
    (by decide) (by decide)

/-- **Dangling edges and cycles.** For an arbitrary graph with distinct node keys (cycles, self
loops, edges to nodes that are not keys) the sort still succeeds — neither `expect` fires, the loop
bound suffices — and emits distinct nodes in a run of Kahn's algorithm that stops only when no
candidate is left: the nodes on or behind a cycle or a dangling edge are silently dropped. -/
theorem lexTopoSort_dangling {g : Graph} (hg : g.nodes.Nodup) {psh : Id → List Id → List Id}
    (hpsh : ∀ n l, (psh n l).Perm l) {key : Id → Option (Int × Int)} {kf : Id → Int × Int}
    (hk : ∀ n ∈ g.nodes, key n = some (kf n)) :
    ∃ out, lexTopoSort psh g key = .ok out ∧ out.Nodup ∧ (∀ n ∈ out, n ∈ g.nodes) ∧
      KahnRun g (Kf kf) [] out ∧ candidates g out = [] :=
  ⟨_, lexTopoSort_eq_lexTopo hg hpsh hk, lexTopo_general hg kf⟩

/-! ## Stages of `resolve` -/

/-- **separate_spec.** For state maps with pairwise different keys and every iteration order:
`separate` returns the spec's unconflicted state map (same lookups), its conflicted map lists
exactly the spec's conflicted state set, and the "no conflict" early return is taken exactly when
that set is empty. -/
theorem separate_spec {o : Orders} (ho : o.Valid) {sets : List StateMap} (wf : SetsWF sets) :
    StEq (separate o sets).1 (unconflicted sets) ∧
    (∀ id, id ∈ confIds (separate o sets).2 ↔ id ∈ conflictedSet sets) ∧
    ((separate o sets).2.isEmpty = (conflictedSet sets).isEmpty) := by
  refine ⟨?_, ?_, ?_⟩
  · intro k; apply option_ext; intro v
    rw [separate_clean ho wf, get_unconflicted]
  · intro id
    rw [separate_conf ho wf, mem_conflictedSet wf]
  · have : (separate o sets).2 = [] ↔ conflictedSet sets = [] := by
      rw [separate_conf_nil ho wf, conflictedSet_isEmpty wf]
    cases h1 : (separate o sets).2 with
    | nil => simp [this.mp h1]
    | cons a t =>
      cases h2 : conflictedSet sets with
      | nil => rw [this.mpr h2] at h1; cases h1
      | cons b t' => rfl

/-- **authDiff_spec.** `get_auth_chain_diff` computes the spec's auth difference (every event that is
in some but not in every auth chain) — as a set: the two duplicate-free lists are permutations of
each other, for duplicate-free chains and every iteration order of `id_counts`. -/
theorem authDiff_spec {o : Orders} (ho : o.Valid) {chains : List (List Id)}
    (hn : ∀ c ∈ chains, c.Nodup) :
    (authChainDiff o chains).Perm (authDifference chains) := by
  rw [List.perm_ext_iff_of_nodup (nodup_authChainDiff ho _) (by unfold authDifference; exact nodup_dedup _)]
  intro id
  rw [mem_authChainDiff ho hn, mem_authDifference]

/-- **fullConflicted_spec.** The model's `all_conflicted` (auth difference ∪ conflicted events, known
events only, in whatever order the hash set iterates) is the spec's full conflicted set. -/
theorem fullConflicted_spec {o : Orders} (ho : o.Valid) (fetch : Id → Option Event)
    {sets : List StateMap} (wf : SetsWF sets) {chains : List (List Id)} (hn : ∀ c ∈ chains, c.Nodup) :
    (fullConflicted o fetch (authChainDiff o chains) (separate o sets).2).Perm
      (fullConflictedSet fetch sets chains) := by
  rw [List.perm_ext_iff_of_nodup (nodup_fullConflicted ho _ _ _) (by unfold fullConflictedSet; exact nodup_dedup _)]
  exact mem_allConf_iff ho wf hn

/-- **powerEvent_spec.** `is_power_event` is the spec's power-event predicate on every event that is
not an `m.room.create` event with empty state key. -/
theorem powerEvent_spec (p : Params) (e : Event) (hnc : ¬ (e.type = tCreate ∧ e.stateKey = some [])) :
    StateRes.isPowerEvent p e = Spec.StateResV2.isPowerEvent p e := by
  apply isPowerEvent_eq_spec
  simp only [isCreate, isTypeAndKey]
  by_cases h1 : e.type = tCreate
  · have : e.stateKey ≠ some [] := fun h => hnc ⟨h1, h⟩
    simp [h1, this]
  · simp [h1]

/-- **The create-event deviation.** The code (like Synapse) treats `m.room.create` with empty state
key as a power event; the spec's definition does not. It cannot be observed under `SpecWF`: there
no event of the full conflicted set is a create event (`SpecWF.notCreate`), and `is_power_event` is
only ever applied to events of that set. -/
theorem powerEvent_create_deviation (p : Params) (e : Event) (h : e.type = tCreate ∧ e.stateKey = some []) :
    StateRes.isPowerEvent p e = true ∧ Spec.StateResV2.isPowerEvent p e = false := by
  have h4 : tCreate ≠ tPowerLevels := by decide
  have h5 : tCreate ≠ tJoinRules := by decide
  have h3 : tCreate ≠ tMember := by decide
  constructor
  · simp [StateRes.isPowerEvent, h.1, h.2]
  · simp [Spec.StateResV2.isPowerEvent, h.1, h4, h5, h3]

/-- **powerSort_spec.** In a store closed under `auth_events` and acyclic, let `A` be the model's
full conflicted set in any order and `F` the spec's (same elements), every event of which cites the
room's create event `c0` and at most one power-levels event and is not itself a create event. Then
`reverse_topological_power_sort` applied to the power events of `A` — graph building by depth-first
search, the per-call creator cache filled in whatever order the graph's keys iterate, Kahn's
algorithm on a binary heap — returns exactly the spec's reverse topological power ordering of the
power events of `F` enlarged by their auth chains inside `F`; or both fail (a sender's power level
is unreadable). For every iteration order of every hash container. -/
theorem powerSort_spec (p : Params) {o : Orders} (ho : o.Valid) {fetch : Id → Option Event} {ids : List Id}
    (ok : StoreOk fetch ids) {A F : List Id} (hAn : A.Nodup) (hFn : F.Nodup) (hAF : ∀ x, x ∈ A ↔ x ∈ F)
    {c0 : Event} (hwf : ∀ n ∈ F, ∃ e, fetch n = some e ∧ EventWF fetch c0 e)
    (hnc : ∀ n ∈ F, ∀ e, fetch n = some e → isCreate e = false) :
    powerSort p o fetch A (A.filter (isPowerEventId p fetch)) =
      reversePowerOrdering p fetch (powerEventsWithChains p fetch F) :=
  StateRes.powerSort_spec p ho ok hAn hFn hAF hwf hnc

/-- **iterativeAuth_spec.** `iterative_auth_check` is the spec's iterative auth checks, for every
event list and starting state, provided authorization reads the state only at the selected auth
types. (The code seeds the auth state with *all* of the event's auth events; the spec consults them
only for the selected types — unobservable by that hypothesis.) -/
theorem iterativeAuth_spec {p : Params} (hl : AuthLocal p) (fetch : Id → Option Event)
    (ids : List Id) (st : StateMap) :
    iterativeAuthCheck p fetch ids st = iterativeAuthChecks p fetch ids st :=
  iterativeAuthCheck_eq_spec hl fetch ids st

/-- **authLocal_real.** The hypothesis `AuthLocal` holds for the repository's authorization
functions (the C08/C09 model) under every consistent rule set — in particular for every room
version: it is C09's non-interference theorem. -/
theorem authLocal_real (r : AuthRules) (hc : r.Consistent) : AuthLocal (realParams r) :=
  authLocal_realParams r hc

/-- Every room version's rules are consistent. -/
example : ∀ v r, AuthRules.ofVersion? v = some r → r.Consistent := by
  intro v r h
  unfold AuthRules.ofVersion? at h
  split at h <;> first | (cases h; decide) | cases h

/-! ## The mainline sort and finding F4 -/

/-- The full-strength statement: `mainline_sort` is the spec's mainline ordering. **False** for the
code as it is (F4), see `mainlineSortSpecStatement_refuted`. -/
def mainlineSortSpecStatement : Prop :=
  ∀ (fetch : Id → Option Event) (ids : List Id), StoreOk fetch ids →
  ∀ (fuel : Nat), ids.length < fuel → ∀ (o : Orders), o.Valid → ∀ (l : List Id), l.Nodup →
  (∀ id ∈ l, (fetch id).isSome = true) → ∀ (pl : Option Id),
  (∀ pid, pl = some pid → (fetch pid).isSome = true) →
    mainlineSort o fetch fuel l pl = .ok (mainlineOrder false fetch fuel (pl.bind fetch) l)

/-- **mainlineSort_spec_partial.** On a store that is closed under `auth_events`, acyclic and smaller
than the loop bound, for every duplicate-free list of known events, every resolved power-levels
event and every iteration order of `order_map`: `mainline_sort` is the spec's mainline ordering
*carrying exactly the F4 deviation* (an event without mainline ancestor takes the position of the
oldest mainline event). What is missing for the full statement is exactly F4. -/
theorem mainlineSort_spec_partial {fetch : Id → Option Event} {ids : List Id} (ok : StoreOk fetch ids)
    {fuel : Nat} (hfuel : ids.length < fuel) {o : Orders} (ho : o.Valid) {l : List Id} (hn : l.Nodup)
    (hl : ∀ id ∈ l, (fetch id).isSome = true) (pl : Option Id)
    (hpl : ∀ pid, pl = some pid → (fetch pid).isSome = true) :
    mainlineSort o fetch fuel l pl = .ok (mainlineOrder true fetch fuel (pl.bind fetch) l) :=
  mainlineSort_eq_devspec ok hfuel ho hn hl pl hpl

/-- **mainlineSort_spec_noF4.** Where F4 cannot show — all listed events have a mainline ancestor, or
none has (`NoF4`) — `mainline_sort` is the spec's mainline ordering. -/
theorem mainlineSort_spec_noF4 {fetch : Id → Option Event} {ids : List Id} (ok : StoreOk fetch ids)
    {fuel : Nat} (hfuel : ids.length < fuel) {o : Orders} (ho : o.Valid) {l : List Id} (hn : l.Nodup)
    (hl : ∀ id ∈ l, (fetch id).isSome = true) (pl : Option Id)
    (hpl : ∀ pid, pl = some pid → (fetch pid).isSome = true)
    (hf4 : NoF4 fetch fuel (pl.bind fetch) l) :
    mainlineSort o fetch fuel l pl = .ok (mainlineOrder false fetch fuel (pl.bind fetch) l) := by
  rw [mainlineSort_eq_devspec ok hfuel ho hn hl pl hpl, mainlineOrder_dev_eq hf4]

/-- **Machine-checked refutation of the full statement** by the F4 witness (`corpus/C07`): with
`$pl` the resolved power-levels event, the code orders `[$t2, $t1]` (both at depth 0, then by
timestamp), the spec `[$t1, $t2]` (`$t1` has no mainline ancestor and comes first). -/
theorem mainlineSortSpecStatement_refuted : ¬ mainlineSortSpecStatement := by
  intro h
  have hl : ∀ id ∈ [bs "$t1", bs "$t2"], (fetchOf F4Witness.store id).isSome = true := by decide +kernel
  have hpl : ∀ pid, some (bs "$pl") = some pid → (fetchOf F4Witness.store pid).isSome = true := by
    intro pid hp; cases hp; decide +kernel
  have h1 := h (fetchOf F4Witness.store) _ F4Witness.storeOk 6 (by decide) Orders.id
    F4Witness.ordersId_valid [bs "$t1", bs "$t2"] (by decide) hl (some (bs "$pl")) hpl
  have h2 := mainlineSort_spec_partial F4Witness.storeOk (fuel := 6) (by decide)
    F4Witness.ordersId_valid (l := [bs "$t1", bs "$t2"]) (by decide) hl (some (bs "$pl")) hpl
  rw [h2] at h1
  have hb : (some (bs "$pl")).bind (fetchOf F4Witness.store) = some F4Witness.pl := by rfl
  rw [hb, F4Witness.order_dev, F4Witness.order_spec] at h1
  have h3 : [bs "$t2", bs "$t1"] = [bs "$t1", bs "$t2"] := Except.ok.inj h1
  revert h3; decide

/-! ## `resolve` -/

/-- **resolve_keeps_unconflicted.** Whatever else happens (any store, auth chains, parameters,
iteration orders): if `resolve` succeeds, every entry of the spec's unconflicted state map is in the
result — the final overlay wins. -/
theorem resolve_keeps_unconflicted (p : Params) {o : Orders} (ho : o.Valid) (store : List Event)
    {sets : List StateMap} (wf : SetsWF sets) (chains : List (List Id)) {m : StateMap}
    (h : resolve p o store sets chains = .ok m) :
    ∀ k v, AL.get (unconflicted sets) k = some v → AL.get m k = some v := by
  intro k v hu
  have hclean : AL.get (separate o sets).1 k = some v := by
    rw [separate_clean ho wf, ← get_unconflicted]; exact hu
  rw [resolve_eq_tail] at h
  split at h
  · cases h; exact hclean
  · split at h
    · cases h
    · unfold resolveTail at h
      split at h
      · cases h
      · simp only [] at h
        split at h
        · cases h
        · split at h
          · cases h
          · cases h
            rw [extend_get _ _ k (separate_clean_keys o sets), hclean]; rfl

/-- The full-strength statement: under `SpecWF`, `resolve` is the spec's state resolution v2.
**False** for the code as it is (F4), see `resolveRefinesSpecStatement_refuted`. -/
def resolveRefinesSpecStatement : Prop :=
  ∀ (p : Params) (o : Orders), o.Valid → ∀ (store : List Event) (sets : List StateMap)
    (chains : List (List Id)) (c0 : Event), SpecWF p store sets chains c0 →
    ResEq (resolve p o store sets chains) (resolveV2 p store sets chains)

/-- **resolve_refines_spec_partial.** For every room satisfying `SpecWF`, all parameters with
`AuthLocal` and all iteration orders: `resolve` fails exactly as, or returns the same state (same
lookups) as, the specification carrying exactly the F4 deviation (`resolveV2F4`: steps 1–5 of the
spec, with an event without mainline ancestor placed at the oldest mainline position in step 3).
What is missing for `resolveRefinesSpecStatement` is exactly F4. -/
theorem resolve_refines_spec_partial (p : Params) {o : Orders} (ho : o.Valid) (store : List Event)
    {sets : List StateMap} {chains : List (List Id)} {c0 : Event} (wf : SpecWF p store sets chains c0) :
    ResEq (resolve p o store sets chains) (resolveV2F4 p store sets chains) :=
  resolve_refines_dev p ho store wf

/-- **resolve_no_panic.** Under `SpecWF`, whatever the iteration orders: if `resolve` fails, it fails
with a Rust `Err(_)` — the `unwrap` in `add_event_and_auth_chain_to_graph`, the two `expect`s of
the topological sort and the `unwrap` of the mainline sort are unreachable, and no `while let` loop
exceeds the bound the model gives it (the real loops terminate). -/
theorem resolve_no_panic (p : Params) {o : Orders} (ho : o.Valid) (store : List Event)
    {sets : List StateMap} {chains : List (List Id)} {c0 : Event} (wf : SpecWF p store sets chains c0)
    (e : Fail) (h : resolve p o store sets chains = .error e) : e = .err :=
  resolve_error_is_err p ho store wf e h

/-- **resolve_refines_spec_real.** The same for the repository's own authorization functions, with no
hypothesis left about them: for every consistent rule set `r` (every room version), every room
satisfying `RoomOk` and all iteration orders, `resolve` is the F4-deviation-carrying specification,
both instantiated with the C08/C09 model of `event_auth.rs`. -/
theorem resolve_refines_spec_real (r : AuthRules) (hc : r.Consistent) {o : Orders} (ho : o.Valid)
    (store : List Event) {sets : List StateMap} {chains : List (List Id)} {c0 : Event}
    (wf : RoomOk store sets chains c0) :
    ResEq (resolve (realParams r) o store sets chains) (resolveV2F4 (realParams r) store sets chains) :=
  resolve_refines_dev _ ho store { wf with authLocal := authLocal_realParams r hc }

/-- **resolve_refines_spec_noF4.** If moreover F4 cannot show (`F4Free`: whichever power-levels event
of the store is the resolved one, the events left for the mainline ordering all have a mainline
ancestor or none has), `resolve` is the spec's state resolution v2. -/
theorem resolve_refines_spec_noF4 (p : Params) {o : Orders} (ho : o.Valid) (store : List Event)
    {sets : List StateMap} {chains : List (List Id)} {c0 : Event} (wf : SpecWF p store sets chains c0)
    (hf4 : F4Free p store sets chains) :
    ResEq (resolve p o store sets chains) (resolveV2 p store sets chains) := by
  have := resolve_refines_dev p ho store wf
  rw [resolveWith_dev_eq hf4] at this
  exact this

/-- `RoomOk` / `SpecWF` are satisfiable: the F4 witness room with the repository's room-version-6
rules. -/
example : SpecWF (realParams AuthRules.v6) F4Witness.store F4Witness.sets F4Witness.chains F4Witness.c :=
  F4Witness.specWF
example : RoomOk F4Witness.store F4Witness.sets F4Witness.chains F4Witness.c := F4Witness.roomOk

/-- `SpecWF` and `F4Free` are satisfiable together: the same room with `$t1` also citing the
power-levels event (both topics then have the mainline ancestor `$pl`). -/
example :
    let t1' : Event := { F4Witness.t1 with authEvents := [bs "$c", bs "$ma", bs "$pl"] }
    F4Free (realParams AuthRules.v6) [F4Witness.c, F4Witness.ma, t1', F4Witness.pl, F4Witness.t2]
      F4Witness.sets F4Witness.chains := by
  intro t1' P hP
  apply noF4_of_b
  revert P
  decide +kernel

/-- **hypothesis_checkers_sound.** The executable checkers that the C07 driver evaluates on every
generated room (`c07.hyp`, compared with the harness' own evaluation) are sound: `roomOkB` answering
`some c0` implies `RoomOk … c0`, and `f4FreeB = true` implies `F4Free`. So "wf+f4free" in the
evidence's input distribution counts rooms that lie inside the hypotheses of
`resolve_refines_spec_real` and `resolve_refines_spec_noF4`, and the comparison with the true spec
is suppressed (known finding F4) only where `F4Free` fails. -/
theorem hypothesis_checkers_sound {p : Params} {store : List Event} {sets : List StateMap}
    {chains : List (List Id)} :
    (∀ c0, roomOkB store sets chains = some c0 → RoomOk store sets chains c0) ∧
    (f4FreeB p store sets chains = true → F4Free p store sets chains) :=
  ⟨fun _ h => roomOkB_sound h, f4FreeB_sound⟩

/-- The checkers accept the F4 witness room as `RoomOk` and reject it as `F4Free`. -/
example : (roomOkB F4Witness.store F4Witness.sets F4Witness.chains).isSome = true ∧
    f4FreeB F4Witness.params F4Witness.store F4Witness.sets F4Witness.chains = false := by
  constructor <;> decide +kernel

/-- **f4_deviation_observable.** On the F4 witness room (room version 6 rules; `corpus/C07`, replayed
against the real `resolve` on every run) the model of `resolve` — under every iteration order —
resolves the topic to `$t1`, as does the deviation-carrying spec, while the specification resolves
it to `$t2`. -/
theorem f4_deviation_observable {o : Orders} (ho : o.Valid) :
    F4Witness.topicOf (resolve F4Witness.params o F4Witness.store F4Witness.sets F4Witness.chains)
      = some (bs "$t1") ∧
    F4Witness.topicOf (resolveV2F4 F4Witness.params F4Witness.store F4Witness.sets F4Witness.chains)
      = some (bs "$t1") ∧
    F4Witness.topicOf (resolveV2 F4Witness.params F4Witness.store F4Witness.sets F4Witness.chains)
      = some (bs "$t2") := by
  refine ⟨?_, F4Witness.dev_topic, F4Witness.spec_topic⟩
  rw [F4Witness.topicOf_resEq (resolve_refines_dev _ ho _ F4Witness.specWF)]
  exact F4Witness.dev_topic

/-- **Machine-checked refutation of the full statement** by the F4 witness. -/
theorem resolveRefinesSpecStatement_refuted : ¬ resolveRefinesSpecStatement := by
  intro h
  have h1 := h F4Witness.params Orders.id F4Witness.ordersId_valid F4Witness.store F4Witness.sets
    F4Witness.chains F4Witness.c F4Witness.specWF
  have h2 := F4Witness.topicOf_resEq h1
  rw [(f4_deviation_observable F4Witness.ordersId_valid).1,
    (f4_deviation_observable F4Witness.ordersId_valid).2.2] at h2
  revert h2; decide

end Ruma.Props.C07
#print axioms Ruma.Props.C07.tieBreaker_eq_spec
#print axioms Ruma.Props.C07.lexTopoSort_spec
#print axioms Ruma.Props.C07.lexTopoSort_dangling
#print axioms Ruma.Props.C07.separate_spec
#print axioms Ruma.Props.C07.authDiff_spec
#print axioms Ruma.Props.C07.fullConflicted_spec
#print axioms Ruma.Props.C07.powerEvent_spec
#print axioms Ruma.Props.C07.powerEvent_create_deviation
#print axioms Ruma.Props.C07.powerSort_spec
#print axioms Ruma.Props.C07.iterativeAuth_spec
#print axioms Ruma.Props.C07.authLocal_real
#print axioms Ruma.Props.C07.mainlineSort_spec_partial
#print axioms Ruma.Props.C07.mainlineSort_spec_noF4
#print axioms Ruma.Props.C07.mainlineSortSpecStatement_refuted
#print axioms Ruma.Props.C07.resolve_keeps_unconflicted
#print axioms Ruma.Props.C07.resolve_refines_spec_partial
#print axioms Ruma.Props.C07.resolve_no_panic
#print axioms Ruma.Props.C07.resolve_refines_spec_real
#print axioms Ruma.Props.C07.resolve_refines_spec_noF4
#print axioms Ruma.Props.C07.hypothesis_checkers_sound
#print axioms Ruma.Props.C07.f4_deviation_observable
#print axioms Ruma.Props.C07.resolveRefinesSpecStatement_refuted
