/-
  C07 — Resolved state equals the spec's state resolution v2; the exposed topological sort is the
  spec's. Property theorems only; helper lemmas live in `Lemmas/StateRes*.lean`.

  Reading guide. `lexTopoSort psh g key` is the model of `lexicographical_topological_sort`
  (`Model/TopoSort.lean`; `psh` = iteration orders of the `reverse_graph` hash sets), `resolve p o …`
  the model of `resolve` (`Model/StateRes.lean`; `o` = iteration orders of all hash containers,
  `p` = the authorization functions of C08/C09). `Spec/StateResV2.lean` is the specification.
-/
import RumaModel.Lemmas.StateResTopo
namespace Ruma.Props.C07
open Ruma Ruma.StateRes Ruma.Spec.StateResV2

/-- The code's `TieBreaker` order is the comparison the spec words: greater power level first, then
earlier `origin_server_ts`, then smaller event id. -/
theorem tieBreaker_eq_spec (a b : TB) : TB.lt a b = powerLt a b := tb_lt_eq_powerLt a b

/-- **lexTopoSort_spec.** For every finite DAG whose edges stay inside the node set (distinct node
keys), every total key function and every iteration order of the internal hash sets, the sort
succeeds and its output is the reverse topological power ordering of the spec: a permutation of the
nodes in which every node is a candidate of Kahn's algorithm at its position (all its
dependencies were emitted before it) and is the (power desc, ts asc, id asc)-least candidate there. -/
theorem lexTopoSort_spec {g : Graph} (hd : IsDag g) {psh : Id → List Id → List Id}
    (hpsh : ∀ n l, (psh n l).Perm l) {key : Id → Option (Int × Int)} {kf : Id → Int × Int}
    (hk : ∀ n ∈ g.nodes, key n = some (kf n)) :
    ∃ out, lexTopoSort psh g key = .ok out ∧ IsLexTopoOrder g (Kf kf) out :=
  ⟨_, lexTopoSort_eq_lexTopo hd.nodup hpsh hk, lexTopo_isLexTopoOrder hd kf⟩

/-- The hypotheses of `lexTopoSort_spec` are satisfiable: a diamond `d → {b, c} → a`. -/
example : IsDag [(bs "d", [bs "b", bs "c"]), (bs "b", [bs "a"]), (bs "a", []), (bs "c", [bs "a"])] := by
  exact isDag_of_check _ (fun n => if n = bs "a" then 0 else if n = bs "d" then 2 else 1)
    (by decide) (by decide)

/-- **Dangling edges and cycles.** For an arbitrary graph with distinct node keys (cycles, self
loops, edges to nodes that are not keys) the sort still succeeds — neither `expect` fires, the loop
bound suffices — and emits distinct nodes in a run of Kahn's algorithm that stops only when no
candidate is left: the nodes on or behind a cycle or a dangling edge are silently dropped. -/
theorem lexTopoSort_dangling {g : Graph} (hg : g.nodes.Nodup) {psh : Id → List Id → List Id}
    (hpsh : ∀ n l, (psh n l).Perm l) {key : Id → Option (Int × Int)} {kf : Id → Int × Int}
    (hk : ∀ n ∈ g.nodes, key n = some (kf n)) :
    ∃ out, lexTopoSort psh g key = .ok out ∧ out.Nodup ∧ (∀ n ∈ out, n ∈ g.nodes) ∧
      KahnRun g (Kf kf) [] out ∧ candidates g out = [] :=
  ⟨_, lexTopoSort_eq_lexTopo hg hpsh hk, lexTopo_general hg kf⟩

end Ruma.Props.C07
#print axioms Ruma.Props.C07.tieBreaker_eq_spec
#print axioms Ruma.Props.C07.lexTopoSort_spec
#print axioms Ruma.Props.C07.lexTopoSort_dangling
