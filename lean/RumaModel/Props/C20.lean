/-
  C20 — the power-level helper predicates of `RoomPowerLevels` (ruma-events) agree with the
  authorization rules (ruma-state-res `auth_check`, model `Ruma.Auth.authCheck` of C08).

  Every `_iff_auth` theorem is stated for ALL rule sets (the nine `AuthorizationRules` flags
  arbitrary — in particular every room version 1–11), all states `f`, all candidate events `ev`
  and therefore all power-level contents (every field absent or present, integer or — where the
  rules of the version read them — string levels, arbitrary `users` / `events` maps), under a
  Boolean domain predicate `dom… rules f ev` of `Model/PowerLevels.lean` that says, and only says:

    * `settingOk`: the state has a create event which `ev` cites, which admits the sender's
      server and names a creator; the sender is a joined member; there is a power-levels event whose
      content the helper can deserialize (`ofContent`) and the rules of that version can read in full
      (`authWF`: it passes the parsing stage of `check_room_power_levels`, i.e. it can itself have
      been authorized in that room);
    * `ev` is the event that corresponds to the helper: a ban of a user id; a `leave` of another
      user who is not banned (kick) / is banned (unban); a plain invite of a user who is neither
      joined nor banned; a message-like event; a state event whose state key is not another user's
      id; …

  `p` is the helper's `RoomPowerLevels` for the room (`roomLevels f = some p`), the helper's user is
  the event's sender, its target the event's state key. The driver evaluates the same predicates on
  every request, and the harness evaluates its own copy of them next to the real helper and the real
  `auth_check` (T3), so the hypotheses are exercised on every run.
-/
import RumaModel.Lemmas.PowerLevelsChange
import RumaModel.Lemmas.PowerLevelsPush
import RumaModel.Lemmas.PowerLevelsRedacted
import RumaModel.Spec.RedactionRules
import RumaModel.Generated.C20
namespace Ruma.Props.C20
open Ruma Ruma.Auth Ruma.Ident Ruma.PowerLevels

/-! ## Part 1 — levels: the helper holds what the rules read -/

/-- Every room version 3–11 (indeed 1–11) has a rule set, so each theorem below, stated for all rule
sets, holds in particular in every room version of the property's quantifier. -/
example : ∀ v ∈ [3, 4, 5, 6, 7, 8, 9, 10, 11], (AuthRules.ofVersion? v).isSome = true := by decide

/-- Outside the property (it speaks of a room *with* a power-levels event): without one the rules
give the room's creator level 100, whereas the helper built from the default content gives every
user level 0. -/
example (rules : AuthRules) (creator : Str) :
    plUserLevel rules none creator creator = .ok 100 ∧
    (ofContent []).map (fun p => p.forUser creator) = some 0 := by
  constructor
  · simp [plUserLevel, defaultCreatorPowerLevel]
  · rfl


/-- **The helper can read whatever the rules can.** A power-levels content that the rules of some
version read in full (`authWF`) is deserialized by the helper — so in the setting of the theorems
below the requirement "the helper can deserialize the content" costs nothing beyond `authWF`. (The
converse is false: the helper also accepts string levels in room version 10+ and the sequence form of
`notifications`; such contents cannot have been authorized in the room.) -/
theorem helper_reads_what_rules_read (rules : AuthRules) (c : Obj) (hwf : authWF rules c = true) :
    (ofContent c).isSome = true :=
  ofContent_isSome_of_authWF hwf

/-- **Effective level.** For every rule set and every power-levels event whose content the rules of
that version can read and the helper can deserialize: `for_user(u)` is the power level the
authorization rules compute for `u` (`user_power_level`; with a power-levels event present the
creator plays no role), for every user id `u`. -/
theorem forUser_eq_auth_power (rules : AuthRules) (pl : Event) (p : Levels)
    (hwf : authWF rules pl.content = true) (hp : ofContent pl.content = some p) (u creator : Str) :
    plUserLevel rules (some pl) u creator = .ok (p.forUser u) :=
  (agree_of_wf hwf hp).user u creator

/-- **Required levels.** Under the same hypotheses `for_action` returns, for every action, the level
the authorization rules require: ban, kick and invite levels; `events[type]` with fallback
`events_default` (message-like) / `state_default` (state); unban = max(ban, kick) (a `leave` of a
banned user must pass both tests); redacting another user's event = max(redact, level of
`m.room.redaction`). -/
theorem requiredLevels_eq_auth (rules : AuthRules) (pl : Event) (p : Levels)
    (hwf : authWF rules pl.content = true) (hp : ofContent pl.content = some p) :
    plIntOrDefault rules (some pl) .ban = .ok (p.forAction .ban) ∧
    plIntOrDefault rules (some pl) .kick = .ok (p.forAction .kick) ∧
    plIntOrDefault rules (some pl) .invite = .ok (p.forAction .invite) ∧
    (∀ t, plEventLevel rules (some pl) t false = .ok (p.forAction (.sendMessage t))) ∧
    (∀ t, plEventLevel rules (some pl) t true = .ok (p.forAction (.sendState t))) ∧
    plEventLevel rules (some pl) tRedaction false = .ok (p.forAction .redactOwn) ∧
    (∃ b k, plIntOrDefault rules (some pl) .ban = .ok b ∧ plIntOrDefault rules (some pl) .kick = .ok k ∧
      p.forAction .unban = max b k) ∧
    (∃ r e, plIntOrDefault rules (some pl) .redact = .ok r ∧
      plEventLevel rules (some pl) tRedaction false = .ok e ∧ p.forAction .redactOther = max r e) := by
  have ha := agree_of_wf hwf hp
  exact ⟨ha.ban, ha.kick, ha.invite, ha.message, ha.state, ha.message _,
    ⟨_, _, ha.ban, ha.kick, rfl⟩, ⟨_, _, ha.redact, ha.message _, rfl⟩⟩

/-- **`user_can_do` is "level ≥ required level".** For all levels, users and actions. -/
theorem userCanDo_iff_level (p : Levels) (u : Str) (a : Action) :
    p.userCanDo u a = decide (p.forUser u ≥ p.forAction a) := by
  cases a with
  | unban =>
    show (decide (p.forUser u ≥ p.ban) && decide (p.forUser u ≥ p.kick)) =
      decide (p.forUser u ≥ max p.ban p.kick)
    rw [Bool.eq_iff_iff]
    simp only [Bool.and_eq_true, decide_eq_true_iff]
    omega
  | redactOther =>
    show (decide (p.forUser u ≥ p.forMessage tRedaction) && decide (p.forUser u ≥ p.redact)) =
      decide (p.forUser u ≥ max p.redact (p.forMessage tRedaction))
    rw [Bool.eq_iff_iff]
    simp only [Bool.and_eq_true, decide_eq_true_iff]
    omega
  | _ => rfl

/-- The defaults of the two models, keyed like the generated tables. -/
def modelHelperDefaults : List (Str × Int) := PLField.all.map fun fld => (fld.key, helperDefault fld)
def modelAuthDefaults : List (Str × Int) := PLField.all.map fun fld => (fld.key, fld.default)
def keyed (t : List (String × Int)) : List (Str × Int) := t.map fun kv => (bs kv.1, kv.2)

/-- **T1 — defaults agree.** The helper's defaults (`RoomPowerLevelsEventContent::default()` through
`From`, and the content `{}` through serde; extracted from the running code on every run) are the
defaults of the authorization rules (`RoomPowerLevelsIntField::default_value`, extracted likewise);
both are the defaults the two Lean models use; and the model's `ofContent {}` is the extracted
value field by field. -/
theorem defaults_agree :
    Generated.C20.helperDefaults = Generated.C20.authDefaults ∧
    Generated.C20.serdeDefaults = Generated.C20.authDefaults ∧
    keyed Generated.C20.authDefaults = modelAuthDefaults ∧
    keyed Generated.C20.helperDefaults = modelHelperDefaults ∧
    Generated.C20.helperRest = Generated.C20.serdeRest ∧
    (∃ p, ofContent [] = some p ∧
      keyed Generated.C20.serdeDefaults =
        [(bs "users_default", p.usersDefault), (bs "events_default", p.eventsDefault),
         (bs "state_default", p.stateDefault), (bs "ban", p.ban), (bs "redact", p.redact),
         (bs "kick", p.kick), (bs "invite", p.invite)] ∧
      Generated.C20.serdeRest =
        [("notifications.room", p.notificationsRoom), ("events.len", p.events.length),
         ("users.len", p.users.length)]) := by
  refine ⟨by decide, by decide, by decide, by decide, by decide, ?_⟩
  refine ⟨⟨50, [], 0, 0, 50, 50, 50, [], 0, 50⟩, by rfl, by decide, by decide⟩

/-! ## Part 2 — membership actions -/

/-- **Ban.** `user_can_ban_user(sender, target)` = `auth_check` accepts the sender's ban of `target`
(whatever the target's current membership; also when target = sender: both say no). -/
theorem userCanBanUser_iff_auth (rules : AuthRules) (f : Fetch) (ev : Event) (p : Levels) (target : Str)
    (hdom : domBan rules f ev = true) (hp : roomLevels f = some p)
    (ht : memberTarget ev mBan = some target) :
    p.userCanBanUser ev.sender target = authCheck rules ev f := by
  simp only [domBan, Bool.and_eq_true] at hdom
  exact (authCheck_eq_of_require (member_ban_eq hdom.1 hp ht)).symm

/-- **Kick.** `user_can_kick_user(sender, target)` = `auth_check` accepts the sender's `leave` event
for another user `target` who is not banned (joined, invited, knocking, left, or without a member
event). -/
theorem userCanKickUser_iff_auth (rules : AuthRules) (f : Fetch) (ev : Event) (p : Levels) (target : Str)
    (hdom : domKick rules f ev = true) (hp : roomLevels f = some p)
    (ht : memberTarget ev mLeave = some target) :
    p.userCanKickUser ev.sender target = authCheck rules ev f := by
  simp only [domKick, ht, Bool.and_eq_true] at hdom
  obtain ⟨hs, hne, hm⟩ := hdom
  cases htm : membershipOf f target with
  | none => simp [htm] at hm
  | some tm =>
    simp only [htm, bne_iff_ne, ne_eq] at hm hne
    have hb : (tm == mBan) = false := by simpa using hm
    rw [authCheck_eq_of_require (member_leave_eq hs hp ht hne htm)]
    simp [hb, Levels.userCanKickUser]

/-- **Unban.** `user_can_unban_user(sender, target)` = `auth_check` accepts the sender's `leave`
event for another user `target` who is banned. -/
theorem userCanUnbanUser_iff_auth (rules : AuthRules) (f : Fetch) (ev : Event) (p : Levels) (target : Str)
    (hdom : domUnban rules f ev = true) (hp : roomLevels f = some p)
    (ht : memberTarget ev mLeave = some target) :
    p.userCanUnbanUser ev.sender target = authCheck rules ev f := by
  simp only [domUnban, ht, Bool.and_eq_true, bne_iff_ne, ne_eq, beq_iff_eq] at hdom
  obtain ⟨hs, hne, hm⟩ := hdom
  rw [authCheck_eq_of_require (member_leave_eq hs hp ht hne hm)]
  simp only [Levels.userCanUnbanUser, beq_self_eq_true, Bool.true_and]
  rw [Bool.eq_iff_iff]
  simp only [Bool.and_eq_true, Bool.not_eq_true', decide_eq_false_iff_not, decide_eq_true_eq]
  omega

/-- **Invite.** `user_can_invite(sender)` = `auth_check` accepts the sender's plain invite (no
`third_party_invite`) of a user `target` who is neither joined nor banned. -/
theorem userCanInvite_iff_auth (rules : AuthRules) (f : Fetch) (ev : Event) (p : Levels) (target : Str)
    (hdom : domInvite rules f ev = true) (hp : roomLevels f = some p)
    (ht : memberTarget ev mInvite = some target) :
    p.userCanInvite ev.sender = authCheck rules ev f := by
  simp only [domInvite, ht, Bool.and_eq_true] at hdom
  obtain ⟨hs, htpi, hm⟩ := hdom
  cases htm : membershipOf f target with
  | none => simp [htm] at hm
  | some tm =>
    simp only [htm, Bool.and_eq_true, bne_iff_ne, ne_eq] at hm
    have h1 : (tm == mJoin) = false := by simpa using hm.1
    have h2 : (tm == mBan) = false := by simpa using hm.2
    have htpi' : contentThirdPartyInvite ev.content = .ok none := by
      cases hc : contentThirdPartyInvite ev.content with
      | error e => simp [hc] at htpi
      | ok o =>
        cases o with
        | none => rfl
        | some s => simp [hc] at htpi
    rw [authCheck_eq_of_require (member_invite_eq hs hp ht htpi' htm)]
    simp [h1, h2, Levels.userCanInvite]

/-! ## Part 3 — sending events -/

/-- **Message-like events.** `user_can_send_message(sender, type)` = `auth_check` accepts the
sender's event of that type without a state key — for every type string except the state event
types that have an authorization rule of their own (`msgOwnRule`: `m.room.create`,
`m.room.member`, `m.room.power_levels`, `m.room.third_party_invite` — state-only types, none of
them a message-like event type — and, while the room version special-cases them,
`m.room.aliases` (room versions 1–5; also a state-only type) and `m.room.redaction` (room versions
1–2). `m.room.redaction` IS a message-like event type (`MessageLikeEventType::RoomRedaction`): in
room versions 1–2 this theorem does not cover it; there the redaction rule decides, see
`userCanRedactOwn_iff_auth` / `userCanRedact_iff_auth_v1`. -/
theorem userCanSendMessage_iff_auth (rules : AuthRules) (f : Fetch) (ev : Event) (p : Levels)
    (hdom : domMsg rules f ev = true) (hp : roomLevels f = some p) :
    p.userCanSendMessage ev.sender ev.type = authCheck rules ev f := by
  simp only [domMsg, msgOwnRule, Bool.and_eq_true, Bool.not_eq_true', Bool.or_eq_false_iff,
    beq_eq_false_iff_ne, ne_eq, Option.isNone_iff_eq_none] at hdom
  obtain ⟨⟨hs, hsk⟩, ⟨⟨⟨⟨h1, h2⟩, h3⟩, h4⟩, h5⟩, h6⟩ := hdom
  obtain ⟨pl, -, -, -, h⟩ := general_eq hs hp h1 h2 h5
  have e3 : (ev.type == tPowerLevels) = false := by simpa using h3
  have e4 : (ev.type == tThirdPartyInvite) = false := by simpa using h4
  have hfk : foreignUserStateKey ev = false := by simp [foreignUserStateKey, hsk]
  refine (authCheck_eq_of_require ?_).symm
  rw [h]
  simp only [e3, e4, h6, hsk, hfk, Option.isSome_none, Bool.false_eq_true, if_false, Bool.not_false,
    require_true, ok_bind, require_bind_ok, Levels.userCanSendMessage]

/-- The FULL statement about `user_can_send_state`: every state event type other than create, member
and power_levels (and redaction while special-cased), with a state key that is not another user's
id. It is FALSE of the code (`userCanSendStateStatement_false`); the proved part is
`userCanSendState_iff_auth_partial`. -/
def UserCanSendStateStatement : Prop :=
  ∀ (rules : AuthRules) (f : Fetch) (ev : Event) (p : Levels),
    domState rules f ev = true → roomLevels f = some p →
    p.userCanSendState ev.sender ev.type = authCheck rules ev f

/-- **State events (partial).** `user_can_send_state(sender, type)` = `auth_check` accepts the
sender's state event of that type (state key not another user's id) — for every type except the two
that have an authorization rule of their own which ignores `events` / `state_default`
(`stateOwnRule`): `m.room.third_party_invite` (the rules use the invite level, see
`thirdPartyInvite_auth_is_invite_level`) and `m.room.aliases` in room versions 1–5 (the rules look at
no level). Missing for the full statement: exactly these two, and for them it is false. -/
theorem userCanSendState_iff_auth_partial (rules : AuthRules) (f : Fetch) (ev : Event) (p : Levels)
    (hdom : domState rules f ev = true) (hp : roomLevels f = some p)
    (hown : stateOwnRule rules ev.type = false) :
    p.userCanSendState ev.sender ev.type = authCheck rules ev f := by
  simp only [domState, stateOutside, Bool.and_eq_true, Bool.not_eq_true', Bool.or_eq_false_iff,
    beq_eq_false_iff_ne, ne_eq] at hdom
  obtain ⟨⟨⟨hs, hsk⟩, hfk⟩, ⟨⟨h1, h2⟩, h3⟩, h6⟩ := hdom
  simp only [stateOwnRule, Bool.or_eq_false_iff, beq_eq_false_iff_ne, ne_eq] at hown
  obtain ⟨h4, h5⟩ := hown
  obtain ⟨pl, -, -, -, h⟩ := general_eq hs hp h1 h2 h5
  have e3 : (ev.type == tPowerLevels) = false := by simpa using h3
  have e4 : (ev.type == tThirdPartyInvite) = false := by simpa using h4
  refine (authCheck_eq_of_require ?_).symm
  rw [h]
  simp only [e3, e4, h6, hsk, hfk, Bool.false_eq_true, if_false, if_true, Bool.not_false,
    require_true, ok_bind, require_bind_ok, Levels.userCanSendState]

/-- **Third-party invites are governed by the invite level.** `auth_check` accepts the sender's
`m.room.third_party_invite` event iff `user_can_invite(sender)` — not iff
`user_can_send_state(sender, RoomThirdPartyInvite)`. -/
theorem thirdPartyInvite_auth_is_invite_level (rules : AuthRules) (f : Fetch) (ev : Event) (p : Levels)
    (hdom : domTpi rules f ev = true) (hp : roomLevels f = some p) :
    p.userCanInvite ev.sender = authCheck rules ev f := by
  simp only [domTpi, Bool.and_eq_true, beq_iff_eq] at hdom
  obtain ⟨hs, hty⟩ := hdom
  have h1 : ev.type ≠ tCreate := by rw [hty]; decide
  have h2 : ev.type ≠ tMember := by rw [hty]; decide
  have h5 : (rules.specialCaseRoomAliases && ev.type == tAliases) = false := by
    have : (tThirdPartyInvite == tAliases) = false := by decide
    simp [hty, this]
  obtain ⟨pl, -, -, -, h⟩ := general_eq hs hp h1 h2 h5
  refine (authCheck_eq_of_require ?_).symm
  rw [h]
  simp only [hty, beq_self_eq_true, if_true, Levels.userCanInvite]

/-- **Redacting (own kind).** `user_can_redact_own_event(sender)` = `auth_check` accepts the sender's
`m.room.redaction` event: any redaction from room version 3 on, a redaction of an event of the
sender's own server in room versions 1–2. -/
theorem userCanRedactOwn_iff_auth (rules : AuthRules) (f : Fetch) (ev : Event) (p : Levels)
    (hdom : domRedactOwn rules f ev = true) (hp : roomLevels f = some p) :
    p.userCanRedactOwnEvent ev.sender = authCheck rules ev f := by
  simp only [domRedactOwn, Bool.and_eq_true, beq_iff_eq, Option.isNone_iff_eq_none, Bool.or_eq_true,
    Bool.not_eq_true'] at hdom
  obtain ⟨⟨⟨hs, hty⟩, hsk⟩, hcase⟩ := hdom
  have h1 : ev.type ≠ tCreate := by rw [hty]; decide
  have h2 : ev.type ≠ tMember := by rw [hty]; decide
  have h5 : (rules.specialCaseRoomAliases && ev.type == tAliases) = false := by
    have : (tRedaction == tAliases) = false := by decide
    simp [hty, this]
  obtain ⟨pl, hpl, hwf, hof, h⟩ := general_eq hs hp h1 h2 h5
  have e3 : (tRedaction == tPowerLevels) = false := by decide
  have e4 : (tRedaction == tThirdPartyInvite) = false := by decide
  have hfk : foreignUserStateKey ev = false := by simp [foreignUserStateKey, hsk]
  refine (authCheck_eq_of_require ?_).symm
  rw [h]
  simp only [hty, e3, e4, hsk, hfk, Option.isSome_none, Bool.false_eq_true, if_false, Bool.not_false,
    require_true, ok_bind, beq_self_eq_true, Bool.and_true, Levels.userCanRedactOwnEvent,
    Levels.userCanSendMessage]
  rcases hcase with hns | hsame
  · simp only [hns, Bool.false_eq_true, if_false, require_bind_ok]
  · cases hsp : rules.specialCaseRoomRedaction with
    | false => simp only [Bool.false_eq_true, if_false, require_bind_ok]
    | true =>
      have ha := agree_of_wf hwf hof
      simp only [if_true, checkRoomRedaction, ha.redact, ok_bind]
      unfold redactsSameServer at hsame
      simp only [hsame, require_true]
      have : (if p.forUser ev.sender ≥ p.redact then (Except.ok () : Res Unit) else Except.ok ()) = .ok () := by
        split <;> rfl
      rw [this, require_bind_ok]

/-- **Redacting another server's event, room versions 1–2.** `user_can_redact_event_of_other(sender)` =
`auth_check` accepts the sender's redaction of an event from another server. -/
theorem userCanRedact_iff_auth_v1 (rules : AuthRules) (f : Fetch) (ev : Event) (p : Levels)
    (hdom : domRedactOther rules f ev = true) (hp : roomLevels f = some p) :
    p.userCanRedactEventOfOther ev.sender = authCheck rules ev f := by
  simp only [domRedactOther, Bool.and_eq_true, beq_iff_eq, Option.isNone_iff_eq_none,
    Bool.not_eq_true'] at hdom
  obtain ⟨⟨⟨⟨hs, hty⟩, hsk⟩, hsp⟩, hdiff⟩ := hdom
  have h1 : ev.type ≠ tCreate := by rw [hty]; decide
  have h2 : ev.type ≠ tMember := by rw [hty]; decide
  have h5 : (rules.specialCaseRoomAliases && ev.type == tAliases) = false := by
    have : (tRedaction == tAliases) = false := by decide
    simp [hty, this]
  obtain ⟨pl, hpl, hwf, hof, h⟩ := general_eq hs hp h1 h2 h5
  have e3 : (tRedaction == tPowerLevels) = false := by decide
  have e4 : (tRedaction == tThirdPartyInvite) = false := by decide
  have hfk : foreignUserStateKey ev = false := by simp [foreignUserStateKey, hsk]
  have ha := agree_of_wf hwf hof
  refine (authCheck_eq_of_require ?_).symm
  rw [h]
  unfold redactsSameServer at hdiff
  simp only [hty, e3, e4, hsk, hfk, hsp, Option.isSome_none, Bool.false_eq_true, if_false, Bool.not_false,
    require_true, ok_bind, beq_self_eq_true, Bool.and_true, if_true, checkRoomRedaction, ha.redact, hdiff,
    require_false, Levels.userCanRedactEventOfOther, Levels.userCanRedactOwnEvent, Levels.userCanSendMessage]
  by_cases hr : p.forUser ev.sender ≥ p.redact
  · simp only [hr, if_true, require_bind_ok, decide_true, Bool.and_true]
  · simp only [hr, if_false, decide_false, Bool.and_false]
    cases decide (p.forUser ev.sender ≥ p.forMessage tRedaction) <;> rfl

/-! ## Part 4 — power-levels events and notifications -/

/-- **Sending `m.room.power_levels`.** `user_can_send_state(sender, RoomPowerLevels)` = `auth_check`
accepts the sender's power-levels event that re-sends the current content unchanged (the minimal
such event: every further requirement of the rules is about what the event changes). -/
theorem userCanSendState_powerLevels_iff_auth (rules : AuthRules) (f : Fetch) (ev : Event) (p : Levels)
    (hdom : domPl rules f ev = true) (hp : roomLevels f = some p) :
    p.userCanSendState ev.sender tPowerLevels = authCheck rules ev f := by
  simp only [domPl, Bool.and_eq_true, beq_iff_eq] at hdom
  obtain ⟨⟨⟨hs, hty⟩, hsk⟩, hcont⟩ := hdom
  have h1 : ev.type ≠ tCreate := by rw [hty]; decide
  have h2 : ev.type ≠ tMember := by rw [hty]; decide
  have h5 : (rules.specialCaseRoomAliases && ev.type == tAliases) = false := by
    have : (tPowerLevels == tAliases) = false := by decide
    simp [hty, this]
  obtain ⟨pl, hpl, hwf, hof, h⟩ := general_eq hs hp h1 h2 h5
  have hc : ev.content = pl.content := by
    simp only [plContent, hpl, Option.map_some] at hcont
    have := JVal.eq_of_beq' hcont
    injection this with this
    exact this.symm
  have e4 : (tPowerLevels == tThirdPartyInvite) = false := by decide
  have hfk : foreignUserStateKey ev = false := by simp [foreignUserStateKey, hsk]
  refine (authCheck_eq_of_require ?_).symm
  rw [h]
  simp only [hty, e4, hsk, hfk, Option.isSome_some, Bool.false_eq_true, if_false, if_true, Bool.not_false,
    require_true, ok_bind, beq_self_eq_true, checkRoomPowerLevels_same hc hwf, require_bind_ok,
    Levels.userCanSendState]

/-- **Changing one user's level.** `user_can_change_user_power_level(sender, target)` = `auth_check`
accepts the sender's power-levels event whose content is the current content with the canonical
change of `target`'s level (`canonicalChange`: an existing `users` entry removed — the change that
needs the least power; a missing one added at the sender's own level) and nothing else. Includes
target = sender. -/
theorem userCanChangeUserPowerLevel_iff_auth (rules : AuthRules) (f : Fetch) (ev : Event) (p : Levels)
    (target : Str) (hdom : domChpl rules f ev target = true) (hp : roomLevels f = some p) :
    p.userCanChangeUserPowerLevel ev.sender target = authCheck rules ev f := by
  simp only [domChpl, Bool.and_eq_true, beq_iff_eq] at hdom
  obtain ⟨⟨⟨⟨hs, hty⟩, hsk⟩, hv⟩, hcont⟩ := hdom
  have h1 : ev.type ≠ tCreate := by rw [hty]; decide
  have h2 : ev.type ≠ tMember := by rw [hty]; decide
  have h5 : (rules.specialCaseRoomAliases && ev.type == tAliases) = false := by
    have : (tPowerLevels == tAliases) = false := by decide
    simp [hty, this]
  obtain ⟨pl, hpl, hwf, hof, h⟩ := general_eq hs hp h1 h2 h5
  have hcc : canonicalChange pl.content target (p.forUser ev.sender) = some ev.content := by
    simp only [plContent, hpl, Option.map_some, hp] at hcont
    cases hc : canonicalChange pl.content target (p.forUser ev.sender) with
    | none => simp [hc] at hcont
    | some c' =>
      simp only [hc] at hcont
      have := JVal.eq_of_beq' hcont
      injection this with this
      rw [this]
  have e4 : (tPowerLevels == tThirdPartyInvite) = false := by decide
  have hfk : foreignUserStateKey ev = false := by simp [foreignUserStateKey, hsk]
  refine (authCheck_eq_of_require ?_).symm
  rw [h]
  simp only [hty, e4, hsk, hfk, Option.isSome_some, Bool.false_eq_true, if_false, if_true, Bool.not_false,
    require_true, ok_bind, beq_self_eq_true,
    checkRoomPowerLevels_canonical (creator := []) hwf hof hv hcc, require_bind_require,
    Levels.userCanChangeUserPowerLevel, Levels.userCanSendState]
  congr 1
  by_cases ha : p.forUser ev.sender ≥ p.forState tPowerLevels <;>
    by_cases hst : (ev.sender == target) = true <;>
    cases hl : lastGet p.users target <;> simp [ha, hst]

/-- **`@room` notifications.** `user_can_trigger_room_notification(u)` = the push condition
`sender_notification_permission` with key `room` (C12 model, `PushCondition::applies`) for an event
sent by `u`, in a room context whose power levels are `From<RoomPowerLevels>` of the same levels —
for every interpretation `E` of the external functions under which `u` is a user id, and every
encoding of user ids as text that does not identify `u` with another key of `users`. -/
theorem notification_iff_push_condition (E : Push.Ext) (enc : Str → Push.Text) (p : Levels) (u : Str)
    (ev : Push.FMap) (ctx : Push.Ctx)
    (henc : ∀ k ∈ p.users.map (·.1), enc k = enc u → k = u)
    (hsender : ev.getStr Push.kSender = some (enc u)) (hid : E.isUserId (enc u) = true)
    (hctx : ctx.powerLevels = some (toPushCtx enc p)) :
    p.userCanTriggerRoomNotification u = Push.senderMayNotify E ev ctx Push.kRoom ∧
    (Push.selfSent ev ctx = false →
      Push.Cond.applies E (.senderNotificationPermission Push.kRoom) ev ctx =
        .ok (p.userCanTriggerRoomNotification u)) := by
  have h : p.userCanTriggerRoomNotification u = Push.senderMayNotify E ev ctx Push.kRoom := by
    simp only [Push.senderMayNotify, hctx, hsender, hid, Bool.not_true, Bool.false_eq_true, if_false,
      Push.notificationsGet, if_true, userLevel_toPushCtx enc p u henc, Levels.userCanTriggerRoomNotification]
    rfl
  refine ⟨h, fun hself => ?_⟩
  simp only [Push.Cond.applies, hself, Bool.false_eq_true, if_false, h]

/-! ## Concrete rooms: the hypotheses are satisfiable, and the refutation witnesses -/

namespace Ex

def alice : Str := bs "@alice:s1"
def bob : Str := bs "@bob:s1"
def creator : Str := bs "@creator:s1"

def mk (id : String) (sender ty : Str) (sk : Option Str) (content : Obj) : Event :=
  { eventId := bs id, roomId := bs "!room:s1", sender, type := ty, stateKey := sk, content,
    prevEvents := [bs "$prev"], authEvents := [bs "$create"] }

def createEv : Event :=
  { mk "$create" creator tCreate (some []) [(bs "creator", .str creator), (bs "room_version", .str (bs "9"))] with
    prevEvents := [], authEvents := [] }

def joinOf (id : String) (u : Str) : Event :=
  mk id u tMember (some u) [(bs "membership", .str mJoin)]

/-- A room: create event, power-levels event with content `pl`, creator and alice joined, plus `more`. -/
def room (pl : Obj) (more : List Event) : Fetch :=
  let st := [createEv, mk "$pl" creator tPowerLevels (some []) pl, joinOf "$m0" creator, joinOf "$m1" alice] ++ more
  fun t k => st.find? (fun e => e.type == t && e.stateKey == some k)

/-- `{"ban": "60", "kick": 40, "users": {"@alice:s1": 60, "@bob:s1": 10}, "events": {"m.room.topic": 60}}`
(a string level: readable before room version 10). -/
def pl1 : Obj :=
  [(bs "ban", .str (bs "60")), (bs "events", .obj [(bs "m.room.topic", .int 60)]), (bs "kick", .int 40),
   (bs "users", .obj [(alice, .int 60), (bob, .int 10)])]

def memberEv (target membership : Str) : Event :=
  mk "$ev" alice tMember (some target) [(bs "membership", .str membership)]

end Ex

open Ex in
/-- The hypotheses of the membership theorems hold on concrete rooms (room version 9 rules; bob
joined / banned / absent), and the helper says yes. -/
example :
    domBan AuthRules.v8 (room pl1 [joinOf "$m2" bob]) (memberEv bob mBan) = true ∧
    domKick AuthRules.v8 (room pl1 [joinOf "$m2" bob]) (memberEv bob mLeave) = true ∧
    domUnban AuthRules.v8 (room pl1 [mk "$m2" alice tMember (some bob) [(bs "membership", .str mBan)]])
      (memberEv bob mLeave) = true ∧
    domInvite AuthRules.v8 (room pl1 []) (memberEv bob mInvite) = true ∧
    (roomLevels (room pl1 [])).map (fun p => p.userCanBanUser alice bob) = some true := by
  decide +kernel

open Ex in
/-- The hypotheses of the sending theorems hold on concrete events (a message, a topic change, a
third-party invite, a redaction under the rules of room version 9 and — same server / other server
— of room version 1). -/
example :
    domMsg AuthRules.v8 (room pl1 []) (mk "$ev" alice (bs "m.room.message") none []) = true ∧
    domState AuthRules.v8 (room pl1 []) (mk "$ev" alice (bs "m.room.topic") (some []) []) = true ∧
    stateOwnRule AuthRules.v8 (bs "m.room.topic") = false ∧
    domTpi AuthRules.v8 (room pl1 []) (mk "$ev" alice tThirdPartyInvite (some (bs "tok")) []) = true ∧
    domRedactOwn AuthRules.v8 (room pl1 []) (mk "$ev" alice tRedaction none []) = true ∧
    domRedactOwn AuthRules.v1 (room pl1 [])
      { mk "$ev:s1" alice tRedaction none [] with redacts := some (bs "$x:s1") } = true ∧
    domRedactOther AuthRules.v1 (room pl1 [])
      { mk "$ev:s1" alice tRedaction none [] with redacts := some (bs "$x:s2") } = true := by
  decide +kernel

open Ex in
/-- The hypotheses of the power-levels theorems hold on concrete events: the unchanged content; bob's
entry removed; carol (no entry) added at alice's level 60. -/
example :
    domPl AuthRules.v8 (room pl1 []) (mk "$ev" alice tPowerLevels (some []) pl1) = true ∧
    domChpl AuthRules.v8 (room pl1 []) (mk "$ev" alice tPowerLevels (some [])
      [(bs "ban", .str (bs "60")), (bs "events", .obj [(bs "m.room.topic", .int 60)]), (bs "kick", .int 40),
       (bs "users", .obj [(alice, .int 60)])]) bob = true ∧
    domChpl AuthRules.v8 (room pl1 []) (mk "$ev" alice tPowerLevels (some [])
      [(bs "ban", .str (bs "60")), (bs "events", .obj [(bs "m.room.topic", .int 60)]), (bs "kick", .int 40),
       (bs "users", .obj [(alice, .int 60), (bob, .int 10), (bs "@carol:s2", .int 60)])]) (bs "@carol:s2") = true := by
  decide +kernel

/-! ### The full statement about `user_can_send_state` is false: two witnesses -/

open Ex in
/-- **Witness 1 (third-party invite).** Room version 11, default power levels (content `{}`: state
default 50, invite level 0), alice a joined member at level 0: `auth_check` accepts her
`m.room.third_party_invite` event (invite level), `user_can_send_state(alice, RoomThirdPartyInvite)`
says no. Replayed against the real code from `corpus/C20/known-tpi.req` on every run. -/
theorem sendState_thirdPartyInvite_witness :
    let f := room [] []
    let ev := mk "$ev" alice tThirdPartyInvite (some (bs "tok")) []
    domState AuthRules.v11 f ev = true ∧
    (roomLevels f).map (fun p => p.userCanSendState ev.sender ev.type) = some false ∧
    authCheck AuthRules.v11 ev f = true := by
  decide +kernel

open Ex in
/-- **Witness 2 (aliases, room versions 1–5).** Room version 3, default power levels, alice a joined
member at level 0: `auth_check` accepts her `m.room.aliases` event with her server name as state key
without looking at any level, `user_can_send_state(alice, RoomAliases)` says no (state default 50).
Replayed from `corpus/C20/known-aliases.req`. -/
theorem sendState_aliases_witness :
    let f := room [] []
    let ev := mk "$ev" alice tAliases (some (bs "s1")) []
    domState AuthRules.v3 f ev = true ∧
    (roomLevels f).map (fun p => p.userCanSendState ev.sender ev.type) = some false ∧
    authCheck AuthRules.v3 ev f = true := by
  decide +kernel

/-- The full statement is false (by witness 1). -/
theorem userCanSendStateStatement_false : ¬ UserCanSendStateStatement := by
  intro h
  obtain ⟨hd, hp, ha⟩ := sendState_thirdPartyInvite_witness
  cases hr : roomLevels (Ex.room [] []) with
  | none => simp [hr] at hp
  | some p =>
    have := h AuthRules.v11 _ _ p hd hr
    simp only [hr, Option.map_some, Option.some.injEq] at hp
    rw [hp, ha] at this
    exact absurd this (by decide)

/-! ## Part 7 — a room whose power-levels event has been redacted

A client reaches `RoomPowerLevels` from a redacted power-levels event through
`RedactedRoomPowerLevelsEventContent` (`From<…> for RoomPowerLevels`), or by redacting the typed
content itself (`RedactContent::redact`). The authorization rules read the redacted JSON. All
`_iff_auth` theorems above are stated for every content, hence also for a redacted one read as an
ordinary content; the theorems here show that the two other routes give exactly those levels, for
every redaction rule set (every room version) and every original content. -/

/-- `redact_content_in_place(_, rules, "m.room.power_levels")` cannot fail and keeps exactly the entries
whose key the rules retain (the eight level fields, and `invite` iff
`keep_room_power_levels_invite`); in particular it never keeps `notifications`. -/
theorem redact_powerLevels_content (r : Redact.Rules) (c : Obj) :
    Redact.redactContent r (bs "m.room.power_levels") c = .ok (redactedPL r c)
    ∧ Obj.get (redactedPL r c) (bs "notifications") = none := by
  refine ⟨redactContent_powerLevels r c, ?_⟩
  rw [get_redactedPL]
  have : Redact.powerLevelsKey r (bs "notifications") = false := by
    cases r; simp [Redact.powerLevelsKey, Redact.powerLevelsAlwaysKeys, bs]
  simp [this]

/-- **The redacted event gives the helper the levels the rules read.** For every redaction rule set
and every content: the redacted JSON read as `RedactedRoomPowerLevelsEventContent` and read as an
ordinary `RoomPowerLevelsEventContent` (the route every `_iff_auth` theorem speaks about) give the same
`RoomPowerLevels`, and fail together. -/
theorem redacted_event_levels_eq (r : Redact.Rules) (c : Obj) :
    ofRedactedContentR (redactedPL r c) = ofContentR (redactedPL r c) :=
  ofRedactedContentR_eq_of_no_notifications _ (redact_powerLevels_content r c).2

/-- Hence in a room whose current power-levels event is the redacted form of any content, what a
client gets from the redacted event is `roomLevels f`, the levels of all theorems of parts 1–6. -/
theorem roomLevels_of_redacted_event (r : Redact.Rules) (f : Fetch) (c : Obj)
    (h : plContent f = some (redactedPL r c)) :
    roomLevels f = ofRedactedContent (redactedPL r c) := by
  simp only [roomLevels, h, Option.bind_some, ofContent, ofRedactedContent, redacted_event_levels_eq]

/-- **Typed redaction agrees with the redaction algorithm.** If the original content deserializes to
levels `l`, the redacted JSON deserializes (by either type) to `RedactContent::redact` of `l`: `invite`
kept iff the rules keep it (room version 11 on), else 0; `notifications` back to its default; every
other level untouched. -/
theorem redacted_event_levels_typed (r : Redact.Rules) (c : Obj) (l : Levels)
    (h : ofContentR c = .ok l) :
    ofRedactedContentR (redactedPL r c) = .ok (redactLevels r.keepPowerLevelsInvite l) := by
  rw [redacted_event_levels_eq]; exact ofContentR_redactedPL r c l h

/-- Non-vacuity, and the version split the statement rests on: the same content (invite 60,
notifications.room 70) redacted under the rules of room version 10 loses `invite`, under those of
version 11 keeps it; `notifications` is gone in both. -/
example :
    let c : Obj := [(bs "ban", .int 40), (bs "invite", .int 60),
                    (bs "notifications", .obj [(bs "room", .int 70)]), (bs "users_default", .int 5)]
    ((ofRedactedContent (redactedPL (Spec.Redaction.rulesOf 10) c)).map
        (fun l => (l.ban, l.invite, l.notificationsRoom, l.usersDefault)) = some (40, 0, 50, 5))
    ∧ ((ofRedactedContent (redactedPL (Spec.Redaction.rulesOf 11) c)).map
        (fun l => (l.ban, l.invite, l.notificationsRoom, l.usersDefault)) = some (40, 60, 50, 5))
    ∧ ((ofContent c).map (fun l => (l.invite, l.notificationsRoom)) = some (60, 70)) := by
  decide

/-! ## `notification_iff_push_condition`: the hypotheses are satisfiable -/

namespace Ex
/-- User ids as text: the code points of the bytes (ASCII ids here). -/
def enc : Str → Push.Text := fun s => s.map Char.ofNat

/-- alice 60, bob 10, everyone else 0; `notifications.room` 50. -/
def plN : Levels :=
  { ban := 50, events := [], eventsDefault := 0, invite := 0, kick := 50, redact := 50,
    stateDefault := 50, users := [(alice, 60), (bob, 10)], usersDefault := 0, notificationsRoom := 50 }

/-- External functions under which every text is a user id (the matchers are not used here). -/
def extN : Push.Ext :=
  { lower := id, wild := fun _ _ => false, rxMatch := fun _ _ => false, isUserId := fun _ => true }

/-- A flattened event sent by `u`. -/
def evOf (u : Str) : Push.FMap := [(Push.kSender, .str (enc u))]

/-- The room context of a third user (so that neither event is the user's own). -/
def ctxN : Push.Ctx :=
  { roomId := "!room:s1".toList, memberCount := 3, userId := enc creator, displayName := [],
    powerLevels := some (toPushCtx enc plN) }
end Ex

open Ex in
/-- The hypotheses of `notification_iff_push_condition` hold on a concrete room (for alice and for
bob), neither event is the context user's own, and the two sides are computed: alice (60 ≥ 50) may
notify the room, bob (10) may not. -/
example :
    (∀ u ∈ [alice, bob],
      (∀ k ∈ plN.users.map (·.1), enc k = enc u → k = u) ∧
      (evOf u).getStr Push.kSender = some (enc u) ∧ extN.isUserId (enc u) = true ∧
      ctxN.powerLevels = some (toPushCtx enc plN) ∧ Push.selfSent (evOf u) ctxN = false) ∧
    plN.userCanTriggerRoomNotification alice = true ∧
    Push.Cond.applies extN (.senderNotificationPermission Push.kRoom) (evOf alice) ctxN = .ok true ∧
    plN.userCanTriggerRoomNotification bob = false ∧
    Push.Cond.applies extN (.senderNotificationPermission Push.kRoom) (evOf bob) ctxN = .ok false := by
  refine ⟨?_, by decide, rfl, by decide, rfl⟩
  intro u hu
  refine ⟨?_, ?_, rfl, rfl, ?_⟩ <;>
    (simp only [List.mem_cons, List.not_mem_nil, or_false] at hu; rcases hu with rfl | rfl <;> decide)

open Ex in
/-- … and the theorem applied to that room and alice's event. -/
example :
    plN.userCanTriggerRoomNotification alice = Push.senderMayNotify extN (evOf alice) ctxN Push.kRoom :=
  (notification_iff_push_condition extN enc plN alice (evOf alice) ctxN (by decide) rfl rfl rfl).1

/-! ## Axiom audit (one line per property theorem) -/

#print axioms helper_reads_what_rules_read
#print axioms forUser_eq_auth_power
#print axioms requiredLevels_eq_auth
#print axioms userCanDo_iff_level
#print axioms defaults_agree
#print axioms userCanBanUser_iff_auth
#print axioms userCanKickUser_iff_auth
#print axioms userCanUnbanUser_iff_auth
#print axioms userCanInvite_iff_auth
#print axioms userCanSendMessage_iff_auth
#print axioms userCanSendState_iff_auth_partial
#print axioms thirdPartyInvite_auth_is_invite_level
#print axioms userCanRedactOwn_iff_auth
#print axioms userCanRedact_iff_auth_v1
#print axioms userCanSendState_powerLevels_iff_auth
#print axioms userCanChangeUserPowerLevel_iff_auth
#print axioms notification_iff_push_condition
#print axioms sendState_thirdPartyInvite_witness
#print axioms sendState_aliases_witness
#print axioms userCanSendStateStatement_false
#print axioms redact_powerLevels_content
#print axioms redacted_event_levels_eq
#print axioms roomLevels_of_redacted_event
#print axioms redacted_event_levels_typed

end Ruma.Props.C20
