/-
  C03 — Event signatures survive redaction; required signers and hash status are enforced.
  Property theorems only; helper lemmas live in `Lemmas/EventSign.lean`.

  Reading guide. `hashAndSignEvent S sha256 entity kp e rr` and `verifyEvent S sha256 x keys e rr sr`
  are the models of `hash_and_sign_event` / `verify_event` (`Model/EventSign.lean`), built on C02
  (`signJson`, `verifyEntities`, `canonicalJson`), C04 (`redact`) and C05 (`contentHash`).
  Parameters of every theorem, never axioms: the signature scheme `S` (assumption `S.Lawful`:
  a signature verifies under the matching public key), `sha256` (assumption where needed: digests
  are byte strings; no collision on the two inputs at hand), `x : Ids.Ext` (`Ipv6Addr` parsing).
  `Valid S sha256 keys rr e` is the state signing establishes: `hashes.sha256` is the content hash
  and every entity in `signatures` passes the per-entity check over the redacted canonical JSON.
  `Required v e s` is the specification's three-clause "server `s` must have signed `e`"
  (`Spec/EventSign.lean`); `EntityVerifies` is C02's specification of the per-entity check.
-/
import RumaModel.Lemmas.EventSign
import RumaModel.Lemmas.EventSignSize
import RumaModel.Lemmas.EventSignCopy
import RumaModel.Lemmas.EventSignCopyTpi
import RumaModel.Lemmas.EventSignChain
import RumaModel.Lemmas.EventSignExamples
import RumaModel.Props.C02
import RumaModel.Generated.C03
namespace Ruma.Props.C03
open Ruma Ruma.Sign Ruma.Redact Ruma.EventSign Ruma.Spec.EventSign Ruma.Spec.Redaction
open Ruma.Spec.Sign (EntityVerifies Signable signaturesOf)

/-! ### T1: rules tables -/

/-- T1: `SignaturesRules` reached through `RoomVersionId::rules()` for versions 1–11 (extracted on
this run): the event-ID server is checked iff v ≤ 2, the authorising user's server iff v ≥ 8. -/
theorem signatures_table_eq_spec :
    Generated.C03.signaturesTable = versions.map (fun v => (v, sigRulesOf v)) := by decide

/-- T1: the redaction rules `verify_event` and callers of `hash_and_sign_event` obtain from the
same `RoomVersionRules` are the spec's, versions 1–11. -/
theorem redaction_table_eq_spec :
    Generated.C03.redactionTable = versions.map (fun v => (v, rulesOf v)) := by decide

/-! ### Which servers must have signed -/

/-- **`servers_spec`**: for every room version number, every event on which server selection
succeeds: the servers whose signatures `verify_event` demands are exactly those the specification
demands — the sender's server unless the event is an invite created from a third-party invite, the
event-ID's server iff v ≤ 2, the authorising user's server iff v ≥ 8 and the field is present — and
they form a set. -/
theorem servers_spec (x : Ids.Ext) (v : Nat) (e : Obj) (l : List Str)
    (h : serversToCheck x e (sigRulesOf v) = .ok l) :
    (∀ s, s ∈ l ↔ Required v e s) ∧ l.Pairwise (· < ·) :=
  serversToCheck_spec x v e l h

/-! ### Signing -/

/-- The `unwrap()` in `hash_and_sign_event` is unreachable. -/
theorem sign_no_panic (S : SigScheme) (sha256 : List Nat → List Nat) (entity : Str) (kp : KeyPair)
    (e : Obj) (rr : Rules) : (hashAndSignEvent S sha256 entity kp e rr).1 ≠ .error .panic :=
  hashAndSign_no_panic S sha256 entity kp e rr

/-- What a successful `hash_and_sign_event` leaves behind: `hashes.sha256` holds the unpadded
standard-base64 content hash of the event (the content hash is the same before and after, C05), and
`signatures` is the redacted event's signature object extended by the signer's signature over the
canonical JSON of the redacted, hashed event. -/
theorem sign_stores_hash_and_signature (S : SigScheme) (sha256 : List Nat → List Nat) (entity : Str)
    (kp : KeyPair) (e e' : Obj) (rr : Rules)
    (h : hashAndSignEvent S sha256 entity kp e rr = (.ok (), e')) :
    ∃ hash red, Hash.contentHash sha256 e = .ok hash ∧ Hash.contentHash sha256 e' = .ok hash ∧
      storedHash e' = .ok (b64 hash) ∧
      Obj.get e' sigKey = some (.obj (newSignatures S entity kp red)) ∧
      signedBytesOf rr e' = .ok (canonicalJson red) := by
  obtain ⟨hash, hashes, red, hch, _, hred, _, rfl⟩ := hashAndSign_ok S sha256 entity kp e e' rr h
  obtain ⟨red', hred', hcj⟩ := redact_insert_sig rr _ red (.obj (newSignatures S entity kp red)) hred
  refine ⟨hash, red, hch, ?_, ?_, Obj.get_insert_self _ _ _, ?_⟩
  · rw [withHash, contentHash_insert_hashes_sig, hch]
  · simp only [storedHash, Obj.get_insert_ne _ _ _ _ hashesKey_ne_sigKey, withHash,
      Obj.get_insert_self]
  · simp only [signedBytesOf, hred', Except.map, hcj]

/-! ### Sign, then verify -/

/-- **`verify_after_sign`**: take any event without `signatures`, hash and sign it (any entity, any
key, any redaction rules). If the key map holds the signer's public key and the signer is the only
server the version demands for the signed event, `verify_event` reports `All`: signatures and
content hash valid. (More signers: `verify_after_sign_valid` below.) -/
theorem verify_after_sign (S : SigScheme) (hS : S.Lawful) (sha256 : List Nat → List Nat)
    (hsha : ∀ m, ∀ b ∈ sha256 m, b < 256) (x : Ids.Ext) (keys : KeyMap) (entity : Str) (kp : KeyPair)
    (e e' : Obj) (rr : Rules) (sr : SigRules)
    (hfresh : Obj.get e sigKey = none)
    (hsign : hashAndSignEvent S sha256 entity kp e rr = (.ok (), e'))
    (hk : HasKey S keys entity kp)
    (servers : List Str) (hsrv : serversToCheck x e' sr = .ok servers)
    (honly : ∀ s ∈ servers, s = entity) :
    verifyEvent S sha256 x keys e' rr sr = .ok .all := by
  obtain ⟨hv, red, hsig, _⟩ := valid_after_sign S hS sha256 keys entity kp e e' rr hsign hk (Or.inl hfresh)
  refine valid_verifies S sha256 hsha x keys e' rr sr hv servers hsrv ?_
  intro s hs
  refine ⟨_, hsig, ?_⟩
  rw [honly s hs]
  exact Obj.mem_keys_of_get _ _ _ (Obj.get_insert_self _ _ _)

/-- The general form, for any number of signers: signing keeps an event valid (all entities named
in `signatures` pass their check over the redacted bytes; stored hash = content hash) provided the
event was fresh or its redacted, hashed form verified before; and a valid event whose required
servers all appear in `signatures` verifies as `All`. -/
theorem verify_after_sign_valid (S : SigScheme) (hS : S.Lawful) (sha256 : List Nat → List Nat)
    (hsha : ∀ m, ∀ b ∈ sha256 m, b < 256) (x : Ids.Ext) (keys : KeyMap) (entity : Str) (kp : KeyPair)
    (e e' : Obj) (rr : Rules) (sr : SigRules)
    (hsign : hashAndSignEvent S sha256 entity kp e rr = (.ok (), e'))
    (hk : HasKey S keys entity kp)
    (h0 : Obj.get e sigKey = none ∨
      ∀ hashes hash red, redact rr (withHash e hashes hash) none = .ok red →
        Hash.contentHash sha256 e = .ok hash →
        ((Obj.get e hashesKey = none ∧ hashes = []) ∨ Obj.get e hashesKey = some (.obj hashes)) →
        verifyJson S keys red = .ok ()) :
    Valid S sha256 keys rr e' ∧
    ∀ servers, serversToCheck x e' sr = .ok servers →
      (∀ s ∈ servers, ∃ sigs, Obj.get e' sigKey = some (.obj sigs) ∧ s ∈ Obj.keys sigs) →
      verifyEvent S sha256 x keys e' rr sr = .ok .all := by
  obtain ⟨hv, _⟩ := valid_after_sign S hS sha256 keys entity kp e e' rr hsign hk h0
  exact ⟨hv, fun servers hsrv hcov => valid_verifies S sha256 hsha x keys e' rr sr hv servers hsrv hcov⟩

/-- **`verify_after_sign`, any signer set**: take a fresh event (a `BTreeMap` without `signatures`)
and let any non-empty list of servers hash and sign it one after the other (`signAllEvents`: each
step is `hash_and_sign_event` on the previous result). If all steps succeed, every signer's public key
is in the key map, and every server the version demands of the final event is one of the signers,
then `verify_event` reports `All`. Induction over the list; the content hash is the same at every
step (C05: it ignores `hashes` and `signatures`) and the redacted bytes never include `signatures`. -/
theorem verify_after_sign_chain (S : SigScheme) (hS : S.Lawful) (sha256 : List Nat → List Nat)
    (hsha : ∀ m, ∀ b ∈ sha256 m, b < 256) (x : Ids.Ext) (keys : KeyMap) (rr : Rules) (sr : SigRules)
    (steps : List (Str × KeyPair)) (e e' : Obj) (hne : steps ≠ [])
    (hfresh : FreshSorted e)
    (hk : ∀ st ∈ steps, HasKey S keys st.1 st.2)
    (hrun : signAllEvents S sha256 rr steps e = (.ok (), e'))
    (servers : List Str) (hsrv : serversToCheck x e' sr = .ok servers)
    (hcov : ∀ s ∈ servers, ∃ st ∈ steps, st.1 = s) :
    verifyEvent S sha256 x keys e' rr sr = .ok .all := by
  cases steps with
  | nil => exact absurd rfl hne
  | cons st rest =>
    obtain ⟨entity, kp⟩ := st
    simp only [signAllEvents] at hrun
    cases hstep : hashAndSignEvent S sha256 entity kp e rr with
    | mk res o1 =>
      rw [hstep] at hrun
      cases res with
      | error err => simp only at hrun; cases hrun
      | ok u =>
        cases u
        simp only at hrun
        obtain ⟨hv1, sigs1, hs1, hm1, _⟩ := validSorted_step S hS sha256 keys entity kp e o1 rr hstep
          (hk (entity, kp) (by simp)) (Or.inl hfresh)
        obtain ⟨⟨hv2, _, _⟩, sigs2, hs2, hm2, hold2⟩ := signAll_validSorted S hS sha256 keys rr rest o1 e'
          (fun st hst => hk st (by simp [hst])) hv1 hrun
        refine valid_verifies S sha256 hsha x keys e' rr sr hv2 servers hsrv ?_
        intro s hs
        obtain ⟨st, hst, rfl⟩ := hcov s hs
        refine ⟨sigs2, hs2, ?_⟩
        rcases List.mem_cons.mp hst with rfl | hst
        · exact hold2 sigs1 hs1 _ hm1
        · exact hm2 st hst

/-! ### Redacted copies -/

/-- **`verify_redacted_copy`, general form**: the redacted copy (same rules) of a valid event — in particular of
any event just hashed and signed — verifies with valid signatures (`All` or `Signatures`, never an
error), whenever the servers the version demands *of the redacted copy* all appear in `signatures`.
Uses C04's `redact_idempotent`: the signed bytes of the copy are those of the original.
The side condition is discharged by `servers_of_redacted_copy_same_tpi` below except for invites
created from a third-party invite whose redacted copy no longer is one (finding recorded in
`findings/C03.json`). -/
theorem verify_redacted_copy_of_covered (S : SigScheme) (sha256 : List Nat → List Nat) (x : Ids.Ext)
    (keys : KeyMap) (e' red : Obj) (rr : Rules) (sr : SigRules)
    (hs : Obj.Sorted e') (hv : Valid S sha256 keys rr e') (hred : redact rr e' none = .ok red)
    (servers : List Str) (hsrv : serversToCheck x red sr = .ok servers)
    (hcov : ∀ s ∈ servers, ∃ sigs, Obj.get e' sigKey = some (.obj sigs) ∧ s ∈ Obj.keys sigs) :
    ∃ r, verifyEvent S sha256 x keys red rr sr = .ok r := by
  obtain ⟨hash, hashes, red0, sigs, hch, hh1, hh2, hred0, hsig, hall⟩ := hv
  rw [hred] at hred0; injection hred0 with hred0; subst hred0
  obtain ⟨_, _, _, hgh, hgs⟩ := serversToCheck_redact_fields rr e' red hred
  obtain ⟨calcd, hcalc⟩ := contentHash_redacted_ok sha256 rr e' red hash hs hred hch
  refine ⟨_, (verifyEvent_ok_iff S sha256 x keys red rr sr _).mpr
    ⟨red, b64 hash, sigs, servers, calcd, Props.C04.redact_idempotent rr e' red hred, ?_, ?_, hsrv, ?_,
      hcalc, rfl⟩⟩
  · simp only [storedHash, hgh, hh1, hh2]
  · rw [hgs, hsig]
  · intro s hs
    obtain ⟨sigs', h1, h2⟩ := hcov s hs
    rw [hsig] at h1; injection h1 with h1; injection h1 with h1; subst h1
    exact hall s h2

/-- If the redacted copy is an invite created from a third-party invite whenever the original is one
(`h3`; the copy can never *become* one), every server the version demands of the redacted copy is
demanded of the original as well (the copy keeps `sender` and `event_id`;
`content.join_authorised_via_users_server` can only disappear). -/
theorem servers_of_redacted_copy_same_tpi (x : Ids.Ext) (v : Nat) (e red : Obj) (l l' : List Str)
    (hred : redact (rulesOf v) e none = .ok red)
    (h3 : isThirdPartyInvite red = false → isThirdPartyInvite e = false)
    (hl : serversToCheck x e (sigRulesOf v) = .ok l)
    (hl' : serversToCheck x red (sigRulesOf v) = .ok l') :
    ∀ s ∈ l', s ∈ l := by
  intro s hs
  rw [(servers_spec x v e l hl).1]
  have hr := ((servers_spec x v red l' hl').1 s).mp hs
  obtain ⟨hty, hse, hei, _, _⟩ := serversToCheck_redact_fields (rulesOf v) e red hred
  rcases hr with ⟨h3r, u, hu, hsp⟩ | ⟨hc, i, hi, hsp⟩ | ⟨hc, c, a, hcc, ha, hsp⟩
  · exact Or.inl ⟨h3 h3r, u, by rw [← hse]; exact hu, hsp⟩
  · exact Or.inr (Or.inl ⟨hc, i, by rw [← hei]; exact hi, hsp⟩)
  · -- the redacted content is a sub-object of the original content with unchanged values here
    obtain ⟨ty, htyv, hcase⟩ := Props.C04.redact_ok_shape _ _ _ hred
    rcases hcase with ⟨hnone, rfl⟩ | ⟨c0, c', hc0, hrc, rfl⟩
    · rw [get_filter] at hcc
      split at hcc
      · rw [hnone] at hcc; cases hcc
      · cases hcc
    · rw [get_filter, isEventKeyRetained_always _ _ (by decide), if_pos rfl,
        get_setVal_eq _ _ _ (by rw [hc0]; simp)] at hcc
      injection hcc with hcc; injection hcc with hcc; subst hcc
      have hsub := content_get_of_redacted (rulesOf v) ty c0 c' hrc
        (bs "join_authorised_via_users_server") (by decide) (.str a) ha
      exact Or.inr (Or.inr ⟨hc, c0, a, hc0, hsub, hsp⟩)

/-- In particular for an event that is *not* an invite created from a third-party invite. -/
theorem servers_of_redacted_copy (x : Ids.Ext) (v : Nat) (e red : Obj) (l l' : List Str)
    (hred : redact (rulesOf v) e none = .ok red)
    (h3 : isThirdPartyInvite e = false)
    (hl : serversToCheck x e (sigRulesOf v) = .ok l)
    (hl' : serversToCheck x red (sigRulesOf v) = .ok l') :
    ∀ s ∈ l', s ∈ l :=
  servers_of_redacted_copy_same_tpi x v e red l l' hred (fun _ => h3) hl hl'

/-! ### `unsigned` -/

/-- **`verify_ignores_unsigned`**: setting `unsigned` to anything, or removing it, changes nothing in
the outcome of `verify_event` (value or error). -/
theorem verify_ignores_unsigned (S : SigScheme) (sha256 : List Nat → List Nat) (x : Ids.Ext)
    (keys : KeyMap) (o : Obj) (rr : Rules) (sr : SigRules) (u : JVal) :
    verifyEvent S sha256 x keys (Obj.insert o unsKey u) rr sr = verifyEvent S sha256 x keys o rr sr ∧
    verifyEvent S sha256 x keys (Obj.erase o unsKey) rr sr = verifyEvent S sha256 x keys o rr sr := by
  have r := Redact.Rules.mk false false false false false false false false
  constructor
  · apply verifyEvent_congr
    · exact signedBytesOf_insert rr o unsKey u (Or.inr rfl)
    · exact Obj.get_insert_ne _ _ _ _ (by decide)
    · exact Obj.get_insert_ne _ _ _ _ (by decide)
    · exact serversToCheck_congr x sr _ _ (Obj.get_insert_ne _ _ _ _ (by decide))
        (Obj.get_insert_ne _ _ _ _ (by decide)) (Obj.get_insert_ne _ _ _ _ (by decide))
        (Obj.get_insert_ne _ _ _ _ (by decide))
    · exact ((Props.C05.hash_ignores_set_or_delete sha256 r .v1 o unsKey u).1 (by decide)).1
  · apply verifyEvent_congr
    · exact signedBytesOf_erase rr o unsKey (Or.inr rfl)
    · exact Obj.get_erase_ne _ _ _ (by decide)
    · exact Obj.get_erase_ne _ _ _ (by decide)
    · exact serversToCheck_congr x sr _ _ (Obj.get_erase_ne _ _ _ (by decide))
        (Obj.get_erase_ne _ _ _ (by decide)) (Obj.get_erase_ne _ _ _ (by decide))
        (Obj.get_erase_ne _ _ _ (by decide))
    · exact ((Props.C05.hash_ignores_set_or_delete sha256 r .v1 o unsKey u).1 (by decide)).2

/-! ### Every required server -/

/-- **`verify_needs_every_server`**: whenever `verify_event` returns `Ok` (either verdict), *every*
server the room version demands has, in the event's `signatures`, a signature set that passes C02's
per-entity check (key set known, at least one Ed25519 signature, every Ed25519 signature valid) over
the canonical JSON of the redacted event. -/
theorem verify_needs_every_server (S : SigScheme) (sha256 : List Nat → List Nat) (x : Ids.Ext)
    (keys : KeyMap) (o : Obj) (rr : Rules) (sr : SigRules) (r : Verified)
    (h : verifyEvent S sha256 x keys o rr sr = .ok r) :
    ∃ red sigs servers, redact rr o none = .ok red ∧ Obj.get o sigKey = some (.obj sigs) ∧
      serversToCheck x o sr = .ok servers ∧
      ∀ s ∈ servers, EntityVerifies S keys sigs (canonicalJson red) s := by
  obtain ⟨red, _, sigs, servers, _, h1, _, h3, h4, h5, _, _⟩ := (verifyEvent_ok_iff _ _ _ _ _ _ _ _).mp h
  exact ⟨red, sigs, servers, h1, h3, h4, fun s hs => (entityOk_iff S keys sigs _ s).mp (h5 s hs)⟩

/-- One missing or failing required server makes verification fail: if some demanded server has no
entry in `signatures`, or its entry does not pass the check, `verify_event` returns an error. -/
theorem verify_fails_without_server (S : SigScheme) (sha256 : List Nat → List Nat) (x : Ids.Ext)
    (keys : KeyMap) (o red sigs : Obj) (rr : Rules) (sr : SigRules) (servers : List Str) (s : Str)
    (hred : redact rr o none = .ok red) (hsig : Obj.get o sigKey = some (.obj sigs))
    (hsrv : serversToCheck x o sr = .ok servers) (hs : s ∈ servers)
    (hbad : Obj.get sigs s = none ∨ Obj.get keys s = none ∨
      ¬ EntityVerifies S keys sigs (canonicalJson red) s) :
    ∃ err, verifyEvent S sha256 x keys o rr sr = .error err := by
  cases hres : verifyEvent S sha256 x keys o rr sr with
  | error err => exact ⟨err, rfl⟩
  | ok r =>
    exfalso
    obtain ⟨red', sigs', servers', h1, h2, h3, h4⟩ :=
      verify_needs_every_server S sha256 x keys o rr sr r hres
    rw [hred] at h1; injection h1 with h1; subst h1
    rw [hsig] at h2; injection h2 with h2; injection h2 with h2; subst h2
    rw [hsrv] at h3; injection h3 with h3; subst h3
    have hv := h4 s hs
    rcases hbad with hb | hb | hb
    · obtain ⟨set, pks, h5, _⟩ := hv; rw [hb] at h5; cases h5
    · obtain ⟨set, pks, _, h6, _⟩ := hv; rw [hb] at h6; cases h6
    · exact hb hv

/-! ### Mutations after signing -/

/-- **`verify_strip_mutation`**: start from a valid event `e'` and change it into `e''` by touching
only what redaction strips (same redacted event) without changing which servers are demanded. If the
change is covered by the content hash (different hashed bytes, still within the size limit) then —
under the recorded assumption that SHA-256 does not collide on these two byte strings — the verdict
is downgraded to `Signatures`. -/
theorem verify_strip_mutation (S : SigScheme) (sha256 : List Nat → List Nat)
    (hsha : ∀ m, ∀ b ∈ sha256 m, b < 256) (x : Ids.Ext) (keys : KeyMap) (e' e'' : Obj) (rr : Rules)
    (sr : SigRules) (hv : Valid S sha256 keys rr e')
    (hsame : redact rr e'' none = redact rr e' none)
    (servers : List Str) (hsrv : serversToCheck x e'' sr = .ok servers)
    (hcov : ∀ s ∈ servers, ∃ sigs, Obj.get e' sigKey = some (.obj sigs) ∧ s ∈ Obj.keys sigs)
    (hpre : Spec.Hash.contentPreimage e'' ≠ Spec.Hash.contentPreimage e')
    (hsize : (Spec.Hash.contentPreimage e'').length ≤ 65535)
    (hnc : sha256 (Spec.Hash.contentPreimage e'') = sha256 (Spec.Hash.contentPreimage e') →
           Spec.Hash.contentPreimage e'' = Spec.Hash.contentPreimage e') :
    verifyEvent S sha256 x keys e'' rr sr = .ok .signatures := by
  obtain ⟨hash, hashes, red, sigs, hch, hh1, hh2, hred, hsig, hall⟩ := hv
  have hred'' : redact rr e'' none = .ok red := by rw [hsame, hred]
  obtain ⟨_, _, _, hgh, hgs⟩ := serversToCheck_redact_fields rr e' red hred
  obtain ⟨_, _, _, hgh'', hgs''⟩ := serversToCheck_redact_fields rr e'' red hred''
  have hch'' : Hash.contentHash sha256 e'' = .ok (sha256 (Spec.Hash.contentPreimage e'')) := by
    rw [Props.C05.content_hash_def, if_neg (by simp only [Spec.Hash.maxPdu]; omega)]
  have hhash : hash = sha256 (Spec.Hash.contentPreimage e') := by
    rw [Props.C05.content_hash_def] at hch
    split at hch
    · cases hch
    · injection hch with hch; exact hch.symm
  rw [verifyEvent_ok_iff]
  refine ⟨red, b64 hash, sigs, servers, _, hred'', ?_, ?_, hsrv, ?_, hch'', ?_⟩
  · simp only [storedHash, ← hgh'', hgh, hh1, hh2]
  · rw [← hgs'', hgs, hsig]
  · intro s hs
    obtain ⟨sigs', h1, h2⟩ := hcov s hs
    rw [hsig] at h1; injection h1 with h1; injection h1 with h1; subst h1
    exact hall s h2
  · have hb : ∀ b ∈ hash, b < 256 := by rw [hhash]; exact hsha _
    rw [unb64_b64 hash hb, if_neg]
    intro heq
    injection heq with heq
    rw [hhash] at heq
    exact hpre (hnc heq.symm)

/-- **`verify_kept_mutation`, proven part**, reduced to the scheme exactly as in C02. It is
`_partial` because of the hypothesis `hmem : entity ∈ servers`: it speaks only about a signer whose
signature `verify_event` demands of the *changed* event. The full sentence of the property
(`VerifyKeptMutationStatement` below) is false: `verify_kept_mutation_statement_false` (of an invite
created from a third-party invite no signature at all is demanded from room version 3 on; finding in
`findings/C03.json`). Let `e'` be an event
hashed and signed by `entity`, and let `e''` be *any* event that still carries `e'`'s `signatures`
and for which `entity` is among the demanded servers. If `verify_event` accepts `e''` (either
verdict), then the scheme accepts the signature made over the redacted bytes of `e'` as a signature
of the redacted bytes of `e''`. When a field that redaction keeps was changed these byte strings
differ, so acceptance would be a forgery — excluded by the unforgeability assumption of the trusted
base, which is not proven here. -/
theorem verify_kept_mutation_partial (S : SigScheme) (hS : S.Lawful) (sha256 : List Nat → List Nat)
    (x : Ids.Ext) (keys : KeyMap) (entity : Str) (kp : KeyPair) (e e' e'' red' red'' : Obj)
    (rr : Rules) (sr : SigRules) (r : Verified)
    (hsign : hashAndSignEvent S sha256 entity kp e rr = (.ok (), e'))
    (hk : HasKey S keys entity kp)
    (hsigs : Obj.get e'' sigKey = Obj.get e' sigKey)
    (hred' : redact rr e' none = .ok red') (hred'' : redact rr e'' none = .ok red'')
    (servers : List Str) (hsrv : serversToCheck x e'' sr = .ok servers) (hmem : entity ∈ servers)
    (hok : verifyEvent S sha256 x keys e'' rr sr = .ok r) :
    S.verify (S.pub kp.secret) (canonicalJson red'') (S.sign kp.secret (canonicalJson red')) = true := by
  obtain ⟨hash, red0, _, _, _, hsig', hsb⟩ :=
    sign_stores_hash_and_signature S sha256 entity kp e e' rr hsign
  simp only [signedBytesOf, hred', Except.map, Except.ok.injEq] at hsb
  obtain ⟨red2, sigs, servers2, h1, h2, h3, h4⟩ :=
    verify_needs_every_server S sha256 x keys e'' rr sr r hok
  rw [hred''] at h1; injection h1 with h1; subst h1
  rw [hsrv] at h3; injection h3 with h3; subst h3
  rw [hsigs, hsig'] at h2; injection h2 with h2; injection h2 with h2; subst h2
  obtain ⟨set, pks, hset, hpks, _, hevery⟩ := h4 entity hmem
  rw [newSignatures, Obj.get_insert_self] at hset
  injection hset with hset; injection hset with hset; subst hset
  obtain ⟨pks', hpks', hpk⟩ := hk
  rw [hpks'] at hpks; injection hpks with hpks; subst hpks
  obtain ⟨pk, hpk', s, raw, hs, hraw, _, _, hverify⟩ :=
    hevery (_, _) (Obj.mem_insert_self _ _ _) ((supportedKeyId_iff _).mp (supported_ed25519KeyId _))
  rw [hpk] at hpk'; injection hpk' with hpk'; subst hpk'
  injection hs with hs; subst hs
  rw [signatureString, unb64_b64 _ (hS.sig_bytes _ _)] at hraw
  injection hraw with hraw; subst hraw
  rw [hsb]
  exact hverify

/-- Contrapositive: if the scheme rejects the old signature on the new redacted bytes, the changed
event fails verification — again only when the signer is among the servers demanded of the changed
event (`hmem`), hence `_partial`. -/
theorem verify_kept_mutation_rejects_partial (S : SigScheme) (hS : S.Lawful) (sha256 : List Nat → List Nat)
    (x : Ids.Ext) (keys : KeyMap) (entity : Str) (kp : KeyPair) (e e' e'' red' red'' : Obj)
    (rr : Rules) (sr : SigRules)
    (hsign : hashAndSignEvent S sha256 entity kp e rr = (.ok (), e'))
    (hk : HasKey S keys entity kp)
    (hsigs : Obj.get e'' sigKey = Obj.get e' sigKey)
    (hred' : redact rr e' none = .ok red') (hred'' : redact rr e'' none = .ok red'')
    (servers : List Str) (hsrv : serversToCheck x e'' sr = .ok servers) (hmem : entity ∈ servers)
    (hrej : S.verify (S.pub kp.secret) (canonicalJson red'') (S.sign kp.secret (canonicalJson red')) = false) :
    ∃ err, verifyEvent S sha256 x keys e'' rr sr = .error err := by
  cases hres : verifyEvent S sha256 x keys e'' rr sr with
  | error err => exact ⟨err, rfl⟩
  | ok r =>
    have := verify_kept_mutation_partial S hS sha256 x keys entity kp e e' e'' red' red'' rr sr r hsign
      hk hsigs hred' hred'' servers hsrv hmem hres
    rw [this] at hrej; cases hrej

/-! ### The kept-field clause at full strength and its counterexample -/

/-- The property's sentence "changing a field that redaction keeps makes verification fail" at full
strength, with the scheme rejecting the old signature on the new bytes as a hypothesis (so that the
statement does not depend on unforgeability): for every event hashed and signed so that it verifies. -/
def VerifyKeptMutationStatement : Prop :=
  ∀ (S : SigScheme), S.Lawful → ∀ (sha256 : List Nat → List Nat) (x : Ids.Ext) (keys : KeyMap)
    (entity : Str) (kp : KeyPair) (e e' e'' red' red'' : Obj) (v : Nat),
    Obj.get e sigKey = none →
    hashAndSignEvent S sha256 entity kp e (rulesOf v) = (.ok (), e') →
    HasKey S keys entity kp →
    verifyEvent S sha256 x keys e' (rulesOf v) (sigRulesOf v) = .ok .all →
    Obj.get e'' sigKey = Obj.get e' sigKey →
    redact (rulesOf v) e' none = .ok red' → redact (rulesOf v) e'' none = .ok red'' →
    S.verify (S.pub kp.secret) (canonicalJson red'') (S.sign kp.secret (canonicalJson red')) = false →
    ∃ err, verifyEvent S sha256 x keys e'' (rulesOf v) (sigRulesOf v) = .error err

set_option maxRecDepth 8192 in
/-- **Negation witness** (second finding in `findings/C03.json`): of an invite created from a
third-party invite no server's signature is demanded from room version 3 on (the sender's server is
exempt and there is no event-ID server), so `verify_event` looks at no signature at all: changing
`state_key` — kept by redaction, covered by the signature — leaves the result `Ok(Signatures)`.
`verify_kept_mutation_partial` above is the proven part: it speaks about servers that *are* demanded
of the changed event. -/
theorem verify_kept_mutation_statement_false : ¬ VerifyKeptMutationStatement := by
  intro h
  have hw : ∃ e' e'' red' red'',
      hashAndSignEvent Props.C02.toy Ex.sha (bs "b") Ex.kp Ex.thirdPartyInvite (rulesOf 11) = (.ok (), e') ∧
      verifyEvent Props.C02.toy Ex.sha Ex.ext Ex.keysB e' (rulesOf 11) (sigRulesOf 11) = .ok .all ∧
      e'' = setVal e' (bs "state_key") (.str (bs "@d:b")) ∧
      Obj.get e'' sigKey = Obj.get e' sigKey ∧
      redact (rulesOf 11) e' none = .ok red' ∧ redact (rulesOf 11) e'' none = .ok red'' ∧
      Props.C02.toy.verify (Props.C02.toy.pub Ex.kp.secret) (canonicalJson red'')
        (Props.C02.toy.sign Ex.kp.secret (canonicalJson red')) = false ∧
      verifyEvent Props.C02.toy Ex.sha Ex.ext Ex.keysB e'' (rulesOf 11) (sigRulesOf 11) = .ok .signatures :=
    ⟨_, _, _, _, rfl, rfl, rfl, rfl, rfl, rfl, by decide, rfl⟩
  obtain ⟨e', e'', red', red'', h1, h2, _, h4, h5, h6, h7, h8⟩ := hw
  obtain ⟨err, herr⟩ := h Props.C02.toy Props.C02.toy_lawful Ex.sha Ex.ext Ex.keysB (bs "b") Ex.kp
    Ex.thirdPartyInvite e' e'' red' red'' 11 rfl h1 ⟨_, rfl, rfl⟩ h2 h4 h5 h6 h7
  rw [h8] at herr
  cases herr

/-! ### The redacted-copy clause at full strength, its counterexample, and the proven part -/

/-- The property's sentence "verifying any redacted copy (same room version) still reports valid
signatures" at full strength: for every event hashed and signed so that it verifies as `All`. -/
def VerifyRedactedCopyStatement : Prop :=
  ∀ (S : SigScheme), S.Lawful → ∀ (sha256 : List Nat → List Nat), (∀ m, ∀ b ∈ sha256 m, b < 256) →
  ∀ (x : Ids.Ext) (keys : KeyMap) (entity : Str) (kp : KeyPair) (e e' red : Obj) (v : Nat),
    Obj.get e sigKey = none →
    hashAndSignEvent S sha256 entity kp e (rulesOf v) = (.ok (), e') →
    HasKey S keys entity kp → Obj.Sorted e' →
    verifyEvent S sha256 x keys e' (rulesOf v) (sigRulesOf v) = .ok .all →
    redact (rulesOf v) e' none = .ok red →
    ∃ r, verifyEvent S sha256 x keys red (rulesOf v) (sigRulesOf v) = .ok r

set_option maxRecDepth 8192 in
/-- **Negation witness** (finding recorded in `findings/C03.json`): in room version 10 an invite
created from a third-party invite, signed by the invited user's server only — all the version
demands — verifies as `All`; its redacted copy has lost `content.third_party_invite` (versions 1–10
strip it), is no longer recognised as a third-party invite, and fails for want of a signature of the
sender's server. Room version 11 keeps `third_party_invite.signed` for exactly this reason. -/
theorem verify_redacted_copy_statement_false : ¬ VerifyRedactedCopyStatement := by
  intro h
  have hw : ∃ e' red,
      hashAndSignEvent Props.C02.toy Ex.sha (bs "b") Ex.kp Ex.thirdPartyInvite (rulesOf 10) = (.ok (), e') ∧
      Obj.Sorted e' ∧
      verifyEvent Props.C02.toy Ex.sha Ex.ext Ex.keysB e' (rulesOf 10) (sigRulesOf 10) = .ok .all ∧
      redact (rulesOf 10) e' none = .ok red ∧
      verifyEvent Props.C02.toy Ex.sha Ex.ext Ex.keysB red (rulesOf 10) (sigRulesOf 10)
        = .error (.sign .noSignaturesForEntity) :=
    ⟨_, _, rfl, by unfold Obj.Sorted; decide, rfl, rfl, rfl⟩
  obtain ⟨e', red, h1, h2, h3, h4, h5⟩ := hw
  obtain ⟨r, hr⟩ := h Props.C02.toy Props.C02.toy_lawful Ex.sha Ex.sha_bytes Ex.ext Ex.keysB (bs "b")
    Ex.kp Ex.thirdPartyInvite e' red 10 rfl h1 ⟨_, rfl, rfl⟩ h2 h3 h4
  rw [h5] at hr
  cases hr

/-- **`verify_redacted_copy`, proven part.** The exclusion `h3` is the class the counterexample
lives in: invites created from a third-party invite whose redacted copy is no longer recognised as
one (the copy can never *become* one). That class is: every such invite in room versions 1–10
(redaction strips `content.third_party_invite`), and in version 11 those whose
`third_party_invite` has no `signed` member (`verify_redacted_copy_v11_tpi` below proves the
version 11 case with `signed`; `verify_redacted_copy_not_tpi` the case of all other events).
Take a fresh event, hash and sign it with the room version's redaction rules; if the signer is the
only server the version demands and the copy is a third-party invite iff the event is, then the
redacted copy verifies with valid signatures — `All` or `Signatures`, never an error. Every room
version number, every event, every key. -/
theorem verify_redacted_copy_partial (S : SigScheme) (hS : S.Lawful) (sha256 : List Nat → List Nat)
    (x : Ids.Ext) (keys : KeyMap) (entity : Str) (kp : KeyPair) (e e' red : Obj) (v : Nat)
    (hfresh : Obj.get e sigKey = none)
    (hsign : hashAndSignEvent S sha256 entity kp e (rulesOf v) = (.ok (), e'))
    (hk : HasKey S keys entity kp) (hs : Obj.Sorted e')
    (servers : List Str) (hsrv : serversToCheck x e' (sigRulesOf v) = .ok servers)
    (honly : ∀ s ∈ servers, s = entity)
    (hred : redact (rulesOf v) e' none = .ok red)
    (h3 : isThirdPartyInvite red = isThirdPartyInvite e') :
    ∃ r, verifyEvent S sha256 x keys red (rulesOf v) (sigRulesOf v) = .ok r := by
  obtain ⟨servers', hsrv'⟩ :=
    serversToCheck_redacted_ok_same x (rulesOf v) (sigRulesOf v) e' red servers hred h3 hsrv
  obtain ⟨hv, red0, hsig, _⟩ :=
    valid_after_sign S hS sha256 keys entity kp e e' (rulesOf v) hsign hk (Or.inl hfresh)
  refine verify_redacted_copy_of_covered S sha256 x keys e' red (rulesOf v) (sigRulesOf v) hs hv hred
    servers' hsrv' ?_
  intro s hs'
  have := servers_of_redacted_copy_same_tpi x v e' red servers servers' hred (fun h => h3 ▸ h) hsrv hsrv' s hs'
  refine ⟨_, hsig, ?_⟩
  rw [honly s this]
  exact Obj.mem_keys_of_get _ _ _ (Obj.get_insert_self _ _ _)

/-- The case of every event that is *not* an invite created from a third-party invite, in every
room version (the statement this file proved before the audit). -/
theorem verify_redacted_copy_not_tpi (S : SigScheme) (hS : S.Lawful) (sha256 : List Nat → List Nat)
    (x : Ids.Ext) (keys : KeyMap) (entity : Str) (kp : KeyPair) (e e' red : Obj) (v : Nat)
    (hfresh : Obj.get e sigKey = none)
    (hsign : hashAndSignEvent S sha256 entity kp e (rulesOf v) = (.ok (), e'))
    (hk : HasKey S keys entity kp) (hs : Obj.Sorted e')
    (h3 : isThirdPartyInvite e' = false)
    (servers : List Str) (hsrv : serversToCheck x e' (sigRulesOf v) = .ok servers)
    (honly : ∀ s ∈ servers, s = entity)
    (hred : redact (rulesOf v) e' none = .ok red) :
    ∃ r, verifyEvent S sha256 x keys red (rulesOf v) (sigRulesOf v) = .ok r :=
  verify_redacted_copy_partial S hS sha256 x keys entity kp e e' red v hfresh hsign hk hs servers hsrv
    honly hred
    (by rw [h3]; exact isThirdPartyInvite_redacted_false x (rulesOf v) (sigRulesOf v) e' red servers hred h3 hsrv)

/-- **Room version 11** (every version whose rules keep `third_party_invite.signed`): the redacted
copy of a hashed-and-signed invite created from a third-party invite *with* a `signed` member
verifies with valid signatures — the situation the version 11 change of the redaction algorithm was
made for, and the complement (within version 11) of the counterexample's class. -/
theorem verify_redacted_copy_v11_tpi (S : SigScheme) (hS : S.Lawful) (sha256 : List Nat → List Nat)
    (x : Ids.Ext) (keys : KeyMap) (entity : Str) (kp : KeyPair) (e e' red c tpi : Obj) (sg : JVal) (v : Nat)
    (hfresh : Obj.get e sigKey = none)
    (hsign : hashAndSignEvent S sha256 entity kp e (rulesOf v) = (.ok (), e'))
    (hk : HasKey S keys entity kp) (hs : Obj.Sorted e')
    (hkeep : (rulesOf v).keepMemberTpiSigned = true)
    (h3 : isThirdPartyInvite e' = true)
    (hc : Obj.get e' (bs "content") = some (.obj c))
    (ht : Obj.get c (bs "third_party_invite") = some (.obj tpi))
    (hsg : Obj.get tpi (bs "signed") = some sg)
    (servers : List Str) (hsrv : serversToCheck x e' (sigRulesOf v) = .ok servers)
    (honly : ∀ s ∈ servers, s = entity)
    (hred : redact (rulesOf v) e' none = .ok red) :
    ∃ r, verifyEvent S sha256 x keys red (rulesOf v) (sigRulesOf v) = .ok r :=
  verify_redacted_copy_partial S hS sha256 x keys entity kp e e' red v hfresh hsign hk hs servers hsrv
    honly hred
    (by rw [h3]; exact isThirdPartyInvite_redacted_keep (rulesOf v) e' red c tpi sg hred hkeep h3 hc ht hsg)

/-! ### Non-vacuity -/

set_option maxRecDepth 8192 in
/-- The hypotheses of `verify_after_sign`, `verify_redacted_copy_partial` (`_not_tpi`), `verify_ignores_unsigned`
hold on a concrete message event with a lawful (toy) scheme, and the conclusions compute: signing
succeeds, the only demanded server is the signer, the signed event verifies as `All`, its redacted
copy as `Signatures`. -/
example : ∃ e' red,
    hashAndSignEvent Props.C02.toy Ex.sha (bs "s") Ex.kp Ex.message (rulesOf 10) = (.ok (), e') ∧
    Obj.get Ex.message sigKey = none ∧ HasKey Props.C02.toy Ex.keysS (bs "s") Ex.kp ∧
    isThirdPartyInvite e' = false ∧
    serversToCheck Ex.ext e' (sigRulesOf 10) = .ok [bs "s"] ∧
    verifyEvent Props.C02.toy Ex.sha Ex.ext Ex.keysS e' (rulesOf 10) (sigRulesOf 10) = .ok .all ∧
    redact (rulesOf 10) e' none = .ok red ∧
    serversToCheck Ex.ext red (sigRulesOf 10) = .ok [bs "s"] ∧
    verifyEvent Props.C02.toy Ex.sha Ex.ext Ex.keysS red (rulesOf 10) (sigRulesOf 10) = .ok .signatures :=
  ⟨_, _, rfl, rfl, ⟨_, rfl, rfl⟩, rfl, rfl, rfl, rfl, rfl, rfl⟩


set_option maxRecDepth 8192 in
/-- `verify_after_sign_chain`: two signers on the message event — hypotheses hold, conclusion computes. -/
example : ∃ e',
    FreshSorted Ex.message ∧
    signAllEvents Props.C02.toy Ex.sha (rulesOf 10) [(bs "t", Ex.kp), (bs "s", Ex.kp)] Ex.message = (.ok (), e') ∧
    serversToCheck Ex.ext e' (sigRulesOf 10) = .ok [bs "s"] ∧
    verifyEvent Props.C02.toy Ex.sha Ex.ext (Ex.keysS ++ [(bs "t", [(bs "ed25519:1", Props.C02.toy.pub [1, 2, 3])])])
      e' (rulesOf 10) (sigRulesOf 10) = .ok .all :=
  ⟨_, ⟨rfl, by unfold Obj.Sorted; decide, fun hs h => by cases h⟩, rfl, rfl, rfl⟩

set_option maxRecDepth 8192 in
/-- `verify_strip_mutation`: all its hypotheses hold together on a concrete input. The message event
signed by `s` (`Ex.signedByS`, valid by `verify_after_sign_valid`) gets another `content.body`:
redaction strips the content of an `m.room.message`, so the redacted event is the same (`hsame`);
the same single server is demanded and it has signed (`hcov`); the hashed bytes differ (`hpre`) and
are short; the toy digest differs on them (so `hnc` holds); and the verdict goes from `All` to
`Signatures`. -/
example : ∃ e'',
    Valid Props.C02.toy Ex.sha Ex.keysS (rulesOf 10) Ex.signedByS ∧
    e'' = setVal Ex.signedByS (bs "content") (.obj [(bs "body", .str (bs "ho"))]) ∧
    redact (rulesOf 10) e'' none = redact (rulesOf 10) Ex.signedByS none ∧
    serversToCheck Ex.ext e'' (sigRulesOf 10) = .ok [bs "s"] ∧
    (∀ s ∈ [bs "s"], ∃ sigs, Obj.get Ex.signedByS sigKey = some (.obj sigs) ∧ s ∈ Obj.keys sigs) ∧
    Spec.Hash.contentPreimage e'' ≠ Spec.Hash.contentPreimage Ex.signedByS ∧
    (Spec.Hash.contentPreimage e'').length ≤ 65535 ∧
    (Ex.sha (Spec.Hash.contentPreimage e'') = Ex.sha (Spec.Hash.contentPreimage Ex.signedByS) →
      Spec.Hash.contentPreimage e'' = Spec.Hash.contentPreimage Ex.signedByS) ∧
    verifyEvent Props.C02.toy Ex.sha Ex.ext Ex.keysS Ex.signedByS (rulesOf 10) (sigRulesOf 10) = .ok .all ∧
    verifyEvent Props.C02.toy Ex.sha Ex.ext Ex.keysS e'' (rulesOf 10) (sigRulesOf 10) = .ok .signatures := by
  refine ⟨_, ?_, rfl, rfl, rfl, ?_, by decide, by decide, ?_, rfl, rfl⟩
  · exact (verify_after_sign_valid Props.C02.toy Props.C02.toy_lawful Ex.sha Ex.sha_bytes Ex.ext Ex.keysS
      (bs "s") Ex.kp Ex.message Ex.signedByS (rulesOf 10) (sigRulesOf 10) rfl ⟨_, rfl, rfl⟩ (Or.inl rfl)).1
  · intro s hs
    simp only [List.mem_cons, List.not_mem_nil, or_false] at hs
    subst hs
    exact ⟨_, rfl, by decide⟩
  · intro h; exact absurd h (by decide)

set_option maxRecDepth 8192 in
/-- `verify_kept_mutation_rejects_partial` (and `verify_kept_mutation_partial`): the hypotheses hold
on a concrete input. In the signed message event the `sender` — kept by redaction — is changed from
`@a:s` to `@b:s`: the signatures are carried over, both events redact, the signer `s` is still the
demanded server, the toy scheme rejects the old signature on the new redacted bytes, and
`verify_event` fails. -/
example : ∃ e'' red' red'',
    hashAndSignEvent Props.C02.toy Ex.sha (bs "s") Ex.kp Ex.message (rulesOf 10) = (.ok (), Ex.signedByS) ∧
    HasKey Props.C02.toy Ex.keysS (bs "s") Ex.kp ∧
    e'' = setVal Ex.signedByS (bs "sender") (.str (bs "@b:s")) ∧
    Obj.get e'' sigKey = Obj.get Ex.signedByS sigKey ∧
    redact (rulesOf 10) Ex.signedByS none = .ok red' ∧ redact (rulesOf 10) e'' none = .ok red'' ∧
    serversToCheck Ex.ext e'' (sigRulesOf 10) = .ok [bs "s"] ∧ bs "s" ∈ [bs "s"] ∧
    Props.C02.toy.verify (Props.C02.toy.pub Ex.kp.secret) (canonicalJson red'')
      (Props.C02.toy.sign Ex.kp.secret (canonicalJson red')) = false ∧
    verifyEvent Props.C02.toy Ex.sha Ex.ext Ex.keysS e'' (rulesOf 10) (sigRulesOf 10)
      = .error (.sign .signatureInvalid) :=
  ⟨_, _, _, rfl, ⟨_, rfl, rfl⟩, rfl, rfl, rfl, rfl, rfl, by decide, by decide, rfl⟩

set_option maxRecDepth 8192 in
/-- `verify_fails_without_server`: the hypotheses hold on a concrete input — the signed message
event checked against a key map that does not know the demanded server `s` (second disjunct of
`hbad`) — and `verify_event` fails. -/
example : ∃ red sigs,
    redact (rulesOf 10) Ex.signedByS none = .ok red ∧ Obj.get Ex.signedByS sigKey = some (.obj sigs) ∧
    serversToCheck Ex.ext Ex.signedByS (sigRulesOf 10) = .ok [bs "s"] ∧ bs "s" ∈ [bs "s"] ∧
    (Obj.get sigs (bs "s") = none ∨ Obj.get Ex.keysB (bs "s") = none ∨
      ¬ EntityVerifies Props.C02.toy Ex.keysB sigs (canonicalJson red) (bs "s")) ∧
    verifyEvent Props.C02.toy Ex.sha Ex.ext Ex.keysB Ex.signedByS (rulesOf 10) (sigRulesOf 10)
      = .error (.sign .noPublicKeysForEntity) :=
  ⟨_, _, rfl, rfl, rfl, by decide, Or.inr (Or.inl rfl), rfl⟩

set_option maxRecDepth 8192 in
/-- `servers_of_redacted_copy`: the hypotheses hold for the signed message event and its redacted
copy (both demand exactly server `s`). -/
example : ∃ red,
    redact (rulesOf 10) Ex.signedByS none = .ok red ∧ isThirdPartyInvite Ex.signedByS = false ∧
    serversToCheck Ex.ext Ex.signedByS (sigRulesOf 10) = .ok [bs "s"] ∧
    serversToCheck Ex.ext red (sigRulesOf 10) = .ok [bs "s"] :=
  ⟨_, rfl, rfl, rfl, rfl⟩

set_option maxRecDepth 8192 in
/-- `verify_after_sign_valid`, second disjunct of `h0`: the event to be signed already carries a
signature (of server `t`: `Ex.signedByT`), and its redacted, hashed form verifies against the key
map; signing by `s` then gives an event that verifies as `All`. -/
example : Obj.get Ex.signedByT sigKey ≠ none ∧
    (∀ hashes hash red, redact (rulesOf 10) (withHash Ex.signedByT hashes hash) none = .ok red →
      Hash.contentHash Ex.sha Ex.signedByT = .ok hash →
      ((Obj.get Ex.signedByT hashesKey = none ∧ hashes = []) ∨
        Obj.get Ex.signedByT hashesKey = some (.obj hashes)) →
      verifyJson Props.C02.toy Ex.keysST red = .ok ()) ∧
    ∃ e', hashAndSignEvent Props.C02.toy Ex.sha (bs "s") Ex.kp Ex.signedByT (rulesOf 10) = (.ok (), e') ∧
      verifyEvent Props.C02.toy Ex.sha Ex.ext Ex.keysST e' (rulesOf 10) (sigRulesOf 10) = .ok .all := by
  refine ⟨by decide, ?_, _, rfl, rfl⟩
  intro hashes hash red h1 h2 h3
  have hh : Hash.contentHash Ex.sha Ex.signedByT
      = .ok (Ex.sha (Spec.Hash.contentPreimage Ex.signedByT)) := rfl
  rw [hh] at h2
  injection h2 with h2
  subst h2
  rcases h3 with ⟨hn, _⟩ | h3
  · exact absurd hn (by decide)
  · have hg : Obj.get Ex.signedByT hashesKey
        = some (.obj [(sha256Key, .str (b64 (Ex.sha (Spec.Hash.contentPreimage Ex.message))))]) := rfl
    rw [hg] at h3
    injection h3 with h3; injection h3 with h3
    subst h3
    have hr : redact (rulesOf 10)
        (withHash Ex.signedByT [(sha256Key, .str (b64 (Ex.sha (Spec.Hash.contentPreimage Ex.message))))]
          (Ex.sha (Spec.Hash.contentPreimage Ex.signedByT))) none
        = .ok (match redact (rulesOf 10) Ex.signedByT none with | .ok r => r | .error _ => []) := rfl
    rw [hr] at h1
    injection h1 with h1
    subst h1
    rfl

set_option maxRecDepth 8192 in
/-- `verify_redacted_copy_v11_tpi`: the hypotheses hold on the third-party invite of the refutations,
now under the version 11 rules: signed by `b` alone (all that is demanded), its redacted copy keeps
`third_party_invite.signed`, is still such an invite, demands no further server and verifies. The
same event under the version 10 rules is the counterexample `verify_redacted_copy_statement_false`. -/
example : ∃ e' red c tpi sg,
    hashAndSignEvent Props.C02.toy Ex.sha (bs "b") Ex.kp Ex.thirdPartyInvite (rulesOf 11) = (.ok (), e') ∧
    Obj.Sorted e' ∧ (rulesOf 11).keepMemberTpiSigned = true ∧ isThirdPartyInvite e' = true ∧
    Obj.get e' (bs "content") = some (.obj c) ∧ Obj.get c (bs "third_party_invite") = some (.obj tpi) ∧
    Obj.get tpi (bs "signed") = some sg ∧
    serversToCheck Ex.ext e' (sigRulesOf 11) = .ok [] ∧
    redact (rulesOf 11) e' none = .ok red ∧ isThirdPartyInvite red = true ∧
    verifyEvent Props.C02.toy Ex.sha Ex.ext Ex.keysB red (rulesOf 11) (sigRulesOf 11) = .ok .signatures :=
  ⟨_, _, _, _, _, rfl, by unfold Obj.Sorted; decide, rfl, rfl, rfl, rfl, rfl, rfl, rfl, rfl, rfl⟩

#print axioms signatures_table_eq_spec
#print axioms redaction_table_eq_spec
#print axioms servers_spec
#print axioms sign_no_panic
#print axioms sign_stores_hash_and_signature
#print axioms verify_after_sign
#print axioms verify_after_sign_valid
#print axioms verify_after_sign_chain
#print axioms verify_redacted_copy_of_covered
#print axioms verify_redacted_copy_partial
#print axioms verify_redacted_copy_not_tpi
#print axioms verify_redacted_copy_v11_tpi
#print axioms verify_redacted_copy_statement_false
#print axioms servers_of_redacted_copy_same_tpi
#print axioms servers_of_redacted_copy
#print axioms verify_ignores_unsigned
#print axioms verify_needs_every_server
#print axioms verify_fails_without_server
#print axioms verify_strip_mutation
#print axioms verify_kept_mutation_partial
#print axioms verify_kept_mutation_rejects_partial
#print axioms verify_kept_mutation_statement_false
end Ruma.Props.C03
