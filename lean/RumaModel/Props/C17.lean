/-
  C17 — Entry points for untrusted wire data never panic, abort or hang.

  What Lean decides here: for the entry points whose logic is ruma's own hand-written scanning code
  and is modelled in this project, the model is a total function whose panic outcomes (where the
  Rust has `assert!`/index/`expect`) are proven unreachable, and whose loops terminate by a proven
  measure. This file holds the theorems for the `Content-Disposition` parser with its RFC 8187
  decoder and for the ring-compat DER fix-up; the other modelled entry points have their no-panic
  theorems in their own property files (C10 identifiers, C11 URIs, C13 ruleset edits, C12 pattern
  matching, C02–C05 signing/hashing/redaction, C14 HTML tree walk). Stack exhaustion, allocator
  aborts and hangs inside dependencies cannot be exhibited by a model; they are explored by the
  mutation stream of the harness (T3) only.

  Part 2 ("More hand-written scanners") holds the theorems for: the `multipart/mixed` splitter of the
  federation media responses, `CallMemberStateKey::from_str`, the `language-` class scan of
  `CodeData::parse`, `TagName::display_name`, `remove_plain_reply_fallback`, the byte-level index
  arithmetic of `matches_word_impl`/`char_at`/`find_prev_char`, and an index-faithful model of the
  `Content-Disposition` parser that is proven equal to the suffix-passing one of part 1. In these
  models every index, slice, `unwrap`/`expect`, subtraction and loop of the Rust code is an explicit
  `panic` / `hang` (fuel exhausted) outcome; `Returns` = the outcome is a value or an error.
-/
import RumaModel.Lemmas.HttpHeaders
import RumaModel.Lemmas.RingCompat
import RumaModel.Props.C10
import RumaModel.Props.C11
import RumaModel.Props.C13
import RumaModel.Lemmas.EndpointNoPanic
import RumaModel.Lemmas.EventSign
import RumaModel.Props.C12
import RumaModel.Lemmas.ScanMultipart
import RumaModel.Lemmas.ScanCallMember
import RumaModel.Lemmas.ScanLang
import RumaModel.Lemmas.ScanTag
import RumaModel.Lemmas.ScanPlainReply
import RumaModel.Lemmas.ScanWordBytes
import RumaModel.Lemmas.ScanCdEquiv
namespace Ruma.Props.C17
open Ruma Ruma.HttpHeaders Ruma.RingCompat

/-- **The `Content-Disposition` parameter loop cannot hang**: every iteration of
`while pos != value.len() { RawParam::parse_next(value, &mut pos) … }` strictly shortens the
remaining input (it advances `pos` or sets it to `len`), for every byte string. This is the measure
by which `paramsLoop` is accepted as a total function. -/
theorem cd_param_loop_progress (s : List Nat) (h : s ≠ []) :
    (parseNext s).2.length < s.length := parseNext_lt s h

/-- The sub-scanners never run backwards. -/
theorem cd_scanners_monotone (s : List Nat) :
    (skipWs s).length ≤ s.length ∧ (parseParamValue s).2.length ≤ s.length ∧
    (∀ q esc, (scanValue q esc s).2.length ≤ s.length) :=
  ⟨skipWs_le s, parseParamValue_le s, fun q esc => scanValue_le q esc s⟩

/-- **Parsing a `Content-Disposition` value fails exactly** when it has no disposition type
(only whitespace) or the type is neither `inline`/`attachment` nor a non-empty RFC 7230 token;
no parameter, however malformed, makes it fail. (Phrased with the model's scanning helpers; the
statement without them is `cd_parse_error_iff_token` in part 2.) -/
theorem cd_parse_error_iff (s : List Nat) :
    (∃ e, parse s = .error e) ↔
      skipWs s = [] ∨
      (∃ e, parseType (spanP (fun b => !(isWs b || b = 59)) (skipWs s)).1 = .error e) := by
  unfold parse
  cases hs : skipWs s with
  | nil => simp
  | cons b t =>
    simp only
    cases hp : parseType (spanP (fun b => !(isWs b || b = 59)) (b :: t)).1 with
    | error e => simp
    | ok ty => simp

/-- `slice::split` always yields at least one part, so the `charset` part of an RFC 8187 value
always exists (the first `ok_or(WrongPartsCount)` cannot fire) and the model's extra match arm is
dead. -/
theorem rfc8187_split_nonempty (s : List Nat) : splitQuote s ≠ [] := splitQuote_ne_nil s

/-- The model of `from_utf8_lossy` is not cut short by its fuel: more fuel than the input length
gives the same result, for every byte string. -/
theorem utf8Lossy_fuel_sufficient (s : List Nat) (k : Nat) :
    utf8LossyAux (s.length + k) s = utf8Lossy s := utf8LossyAux_fuel s k

/-- Unescaping a quoted string never grows it. -/
theorem unescape_no_growth (s : List Nat) : (unescape s).length ≤ s.length :=
  unescapeAux_length_le false s

/-- **`Ed25519KeyPair::from_der` cannot panic in the ring-compat fix-up**, for every byte string:
when the document is taken for a ring document, none of `fix_ring_doc`'s assertions, the `expect`,
the `&suffix[4..]` slice, the `doc[1]` store or the `as u8 - 2` subtraction can fail. -/
theorem ring_compat_no_panic (bytes : List Nat) (hbytes : ∀ b ∈ bytes, b < 256) :
    fromBytes bytes ≠ .panic := by
  unfold fromBytes
  split
  · rename_i hr
    unfold isRing at hr
    split at hr
    · rename_i b0 b1 t
      simp only [Bool.and_eq_true, decide_eq_true_eq, List.length_cons] at hr
      obtain ⟨⟨h0, h1⟩, hf⟩ := hr
      obtain ⟨idx, hidx⟩ := Option.isSome_iff_exists.mp hf
      have h1' : b1 = t.length := by omega
      have hb1 : b1 < 256 := hbytes b1 (by simp)
      subst h1' h0
      obtain ⟨d, hd⟩ := fixRingDoc_ok t idx hb1 hidx
      rw [hd]
      simp
    · cases hr
  · simp

/-- A document that does not have ring's outer shape is passed through untouched to the PKCS#8
parser (which rejects it), e.g. the former panic witness `[0xA1, 0x23, 0x03, 0x21]`. -/
theorem ring_compat_passthrough (bytes : List Nat) (h : isRing bytes = false) :
    fromBytes bytes = .ok (.wellFormed bytes) := by
  simp [fromBytes, h]

example : fromBytes [0xA1, 0x23, 0x03, 0x21] = .ok (.wellFormed [0xA1, 0x23, 0x03, 0x21]) := by decide

/-- Non-vacuity: a real ring-shaped document goes through the fix-up path and comes out two bytes
shorter with the corrected length byte. -/
example : fromBytes [0x30, 8, 1, 2, 0xA1, 0x23, 0x03, 0x21, 7, 9]
    = .ok (.cleanedFromRing [0x30, 6, 1, 2, 0x81, 0x21, 7, 9]) := by decide

-- Executable sanity test of the parser model (a test, not a theorem): quoted filename with an
-- escaped quote, then an RFC 8187 `filename*` that takes precedence.
#guard (match parse (bs "attachment; filename=\"a\\\"b\"; filename*=utf-8''%e2%82%ac") with
  | .ok ⟨.attachment, some [0xe2, 0x82, 0xac]⟩ => true
  | _ => false)
#guard (match parse (bs "inline; filename=\"a\\\"b\"") with
  | .ok ⟨.inline, some [97, 34, 98]⟩ => true
  | _ => false)

/-! ## Entry points modelled under other properties

The models of C10, C11, C13, C16 and C03 have explicit panic outcomes at every index, slice, `unwrap`,
`expect`, `assert!` and `unreachable!` of the code they mirror; their unreachability theorems are
obligations of this property too (restated here so that they are re-checked with it). -/

/-- Identifier entry points (C10's model): no identifier validator panics on any string. -/
theorem identifiers_never_panic (x : Ids.Ext) (k : Spec.IdGrammar.Kind) (s : Str) (h : Ids.utf8Valid s = true) :
    Ids.validate x k s ≠ .panic ∧ Ids.userIdValidateStrict x s ≠ .panic :=
  ⟨C10.validate_never_panics x k s h, C10.validate_strict_never_panics x s h⟩

/-- Matrix URI entry points (C11's model): parsing any byte string never panics. -/
theorem matrix_uris_never_panic (U : MatrixUri.UrlParser) (V : MatrixUri.Validators) (s : Str) :
    MatrixUri.parseTo V s ≠ .panic ∧ MatrixUri.parseUri U V s ≠ .panic :=
  ⟨(C11.parse_never_panics U V s).1, (C11.parse_never_panics U V s).2.1⟩

/-- Push ruleset edits (C13's model): no operation sequence from either start state panics. -/
theorem ruleset_edits_never_panic (st : C13.Start) (ops : List Ruleset.Op) :
    Ruleset.Outcome.panic ∉ (Ruleset.run st.state ops).2 := C13.trace_no_panic st ops

/-- Endpoint URL construction (C16's model). -/
theorem endpoint_url_never_panics (h : Endpoint.VersionHistory) (vs : List Spec.Endpoint.Version) (base query : Str)
    (args : List Str) (hnew : Endpoint.newOk h = true)
    (hslash : ∀ p ∈ Endpoint.allPaths h, p.head? = some 47)
    (hlen : ∀ r, Endpoint.refPath h = some r → (Endpoint.pathArgNames r).length ≤ args.length) :
    Endpoint.makeEndpointUrl h vs base args query ≠ .panic :=
  Endpoint.makeEndpointUrl_no_panic' h vs base query args hnew hslash hlen

/-- Event hashing and signing (C03's model): the `unwrap()` of `hash_and_sign_event` is unreachable. -/
theorem hash_and_sign_never_panics (S : Sign.SigScheme) (sha256 : List Nat → List Nat) (entity : Str)
    (kp : Sign.KeyPair) (e : Obj) (rr : Redact.Rules) :
    (EventSign.hashAndSignEvent S sha256 entity kp e rr).1 ≠ .error .panic :=
  EventSign.hashAndSign_no_panic S sha256 entity kp e rr

/-! # Part 2 — more hand-written scanners -/

section Scanners
open Ruma.Scan

/-! ## Federation media: `multipart/mixed` body splitter -/

/-- **The `multipart/mixed` splitter of the federation media responses returns for every body**:
for every boundary without a CR (it went through `HeaderValue::to_str`, which only lets visible
ASCII, space and tab through), every body of any length and every behaviour of the external stages
(`serde_json` on the metadata, `httparse` and the header loop on the content headers), none of the
slices `bytes[a..b]` is out of range, the `unwrap` cannot fail and the empty-line loop ends within its
fuel `end − headers_start + 1`. -/
theorem multipart_split_returns (E : ScanMultipart.Ext) (boundary body : Str) (hcr : 13 ∉ boundary) :
    (ScanMultipart.split E boundary body).Returns :=
  ScanMultipart.split_returns E boundary body hcr

/-- `parse_multipart_body_part` itself returns whenever it is called with `start ≤ end ≤ len`
(and panics in its first slice otherwise: `ScanMultipart.parsePart_panics_of_gt`). -/
theorem multipart_part_returns (bytes : Str) (start end_ : Nat) (h1 : start ≤ end_) (h2 : end_ ≤ bytes.length) :
    (ScanMultipart.parsePart bytes start end_).Returns :=
  ScanMultipart.parsePart_returns bytes start end_ h1 h2

/-- The hypothesis on the boundary is needed: with a CR in the boundary the metadata part would be
sliced with `start > end` (not reachable through `HeaderValue::to_str`). -/
example : ScanMultipart.split ⟨fun _ => true, fun _ => .file⟩ [13, 10, 45, 45]
    [45, 45, 13, 10, 45, 45, 13, 10, 45, 45, 13, 10, 45, 45] = .panic := by decide

/-- Non-vacuity: a well-formed response is split into metadata and file. -/
example : ScanMultipart.split ⟨fun m => m == bs "{}", fun _ => .file⟩ (bs "abc")
    (bs "\r\n--abc\r\nContent-Type: application/json\r\n\r\n{}\r\n--abc\r\nContent-Type: text/plain\r\n\r\nsome text\r\n--abc--")
    = .ok (.file (bs "some text")) := by decide

/-- The code before the fix (`memchr(b'\n', &bytes[start..end]).expect(..)`): the first scan of a part
without any newline panicked. Kept as the machine-checked witness of finding F17. -/
def parsePartBeforeFix (bytes : Str) (start end_ : Nat) : ScanMultipart.Res (Str × Str) :=
  match bytesSlice bytes start end_ with
  | none => .panic
  | some sl =>
    match findByte 10 sl with
    | none => .panic
    | some k =>
      ScanMultipart.lineLoop bytes end_ (k + start + 1) (end_ - (k + start + 1) + 1) (k + start + 1)

/-- F17 on the model: two adjacent boundaries (`\r\n--abc\r\n--abc…`) — the metadata part is
`bytes[7..7]`. -/
example : parsePartBeforeFix (bs "\r\n--abc\r\n--abc\r\n\r\nx\r\n--abc--") 7 7 = .panic := by decide
example : ScanMultipart.parsePart (bs "\r\n--abc\r\n--abc\r\n\r\nx\r\n--abc--") 7 7 = .err .sep := by decide

/-! ## `m.call.member` state keys -/

/-- **`CallMemberStateKey::from_str` returns for every string**: the three slices around the first
colon and the first underscore behind it are in range and on char boundaries, and `UserId::parse` on
the pieces does not panic (C10's model, for every behaviour of the IP-literal parsers). -/
theorem call_member_key_returns (x : Ids.Ext) (s : Str) (h : Ids.utf8Valid s = true) :
    (ScanCallMember.fromStr x s).Returns :=
  ScanCallMember.fromStr_returns x s (Ids.sep_of_utf8Valid s h)

/-- What it accepts formats back to the input (`Display` of the parsed enum is the raw string that
`CallMemberStateKey` stores beside it). -/
theorem call_member_key_display (x : Ids.Ext) (s : Str) (h : Ids.utf8Valid s = true)
    {k : ScanCallMember.Key} (hk : ScanCallMember.fromStr x s = .ok k) : k.display = s :=
  ScanCallMember.fromStr_display x s (Ids.sep_of_utf8Valid s h) hk

/-- Non-vacuity: the three accepted forms (with C10's reference parsers standing in for the external
IP-literal parsers). -/
example : ScanCallMember.fromStr ⟨fun _ => false, fun _ => false, fun _ => true⟩ (bs "_@a:h_DEV") =
    .ok (.underscoreUserDevice (bs "@a:h") (bs "DEV")) := by decide
example : ScanCallMember.fromStr ⟨fun _ => false, fun _ => false, fun _ => true⟩ (bs "@a:h") =
    .ok (.user (bs "@a:h")) := by decide
example : ScanCallMember.fromStr ⟨fun _ => false, fun _ => false, fun _ => true⟩ (bs "_@a:h") = .err := by decide

/-! ## `<code class="language-…">` -/

/-- **The `language-` scan of `CodeData::parse` returns for every attribute value**: the byte before a
match exists, the slice behind the prefix and the sub-tendril `[language_start, language_end)` are in
range and on char boundaries, and `language_end − language_start` cannot underflow. -/
theorem code_language_scan_returns (v : Str) (h : Ids.utf8Valid v = true) :
    (ScanLang.scanClass v).Returns :=
  ScanLang.scanClass_returns v (Ids.sep_of_utf8Valid v h)

/-- **What the scan finds is a class of the attribute**: the returned language follows an occurrence
of `language-` that is at the start of the value or behind an ASCII whitespace, is not empty, contains
no ASCII whitespace and ends at the next ASCII whitespace or at the end of the value; and the whole
attribute is dropped from the remaining attributes exactly when that class is the whole value
(`ScanLang.IsLanguageClass`). -/
theorem code_language_scan_finds_class (v : Str) {lang : Str} {keep : Bool}
    (h : ScanLang.scanClass v = .ok ⟨some lang, keep⟩) : ScanLang.IsLanguageClass v lang keep :=
  ScanLang.scanClass_language v h

example : ScanLang.scanClass (bs "hljs language-rust x") = .ok ⟨some (bs "rust"), true⟩ := by decide
example : ScanLang.scanClass (bs "language-rust") = .ok ⟨some (bs "rust"), false⟩ := by decide
example : ScanLang.scanClass (bs "xlanguage-a language- b") = .ok ⟨none, true⟩ := by decide

/-! ## `m.tag` tag names -/

/-- **`TagName::display_name` returns for every tag name**, and what it returns is a suffix of the
name. -/
theorem tag_display_name_returns (s : Str) (h : Ids.utf8Valid s = true) :
    (ScanTag.displayNameOf s).Returns ∧ ∀ r, ScanTag.displayNameOf s = .ok r → r <:+ s :=
  ⟨ScanTag.displayNameOf_returns s (Ids.sep_of_utf8Valid s h),
   fun _ hr => ScanTag.displayNameOf_suffix s (Ids.sep_of_utf8Valid s h) hr⟩

example : ScanTag.displayNameOf (bs "org.example.work") = .ok (bs "work") := by decide
example : ScanTag.displayNameOf (bs "u.") = .ok [] := by decide

/-! ## Plain-text reply fallback -/

/-- **`remove_plain_reply_fallback` terminates on every string** (the `while s.starts_with("> ")` loop
ends within `len + 1` iterations) and returns a suffix of its argument. -/
theorem plain_reply_fallback_terminates (s : Str) :
    ∃ r, ScanPlainReply.removeFallback s = .ok r ∧ r <:+ s :=
  ScanPlainReply.removeFallback_ok s

example : ScanPlainReply.removeFallback (bs "> <@a:h> one\n> two\n\n\nreply") = .ok (bs "\nreply") := by decide

/-! ## Push rules: word matching on `content.body`, at byte level -/

/-- **The literal branch of `matches_word_impl` returns for every text and pattern** (well-formed
UTF-8 of any length): `char_len`'s loop ends (it is only ever called on an index inside the text),
`char_at`'s slice is exactly one character so that `char::from_str` cannot fail, `find_prev_char`
cannot run below index 0, `find_prev_char(end).unwrap()` has a character, the three slices of "find
next word" are on char boundaries, and the recursion on the rest of the text ends within `len + 1`
calls. This is the byte-index side of what C12's code-point model takes for granted. -/
theorem word_match_bytes_returns (s p : Str) (hs : Ids.utf8Valid s = true) (hp : Ids.utf8Valid p = true) :
    ∃ r, ScanWordBytes.matchesWord s p = .ok r :=
  ScanWordBytes.matchesWord_ok s p hs hp

/-- `char_at` on a char boundary inside a well-formed text returns one character. -/
theorem char_at_returns (s : Str) (hs : Ids.utf8Valid s = true) (i : Nat)
    (hb : Ids.isBoundary s i = true) (hi : i < s.length) : ∃ cs, ScanWordBytes.charAt s i = .ok cs :=
  ScanWordBytes.charAt_ok hs hb hi

example : ScanWordBytes.charAt [97, 0xc3, 0xa9, 98] 1 = .ok [0xc3, 0xa9] := by decide

/-- `char_len(index)` with `index = len` does not terminate (the site the callers must and do avoid:
`word_boundary_end` tests `end == self.len()` first). -/
example : ScanWordBytes.charLen (bs "ab") 2 = .hang := by decide

example : ScanWordBytes.matchesWord (bs "hi me, you") (bs "me") = .ok true := by decide
example : ScanWordBytes.matchesWord (bs "home_me") (bs "me") = .ok false := by decide
example : ScanWordBytes.matchesWord [0xc3, 0xa9, 109, 101] (bs "me") = .ok true := by decide

/-! ## `Content-Disposition`, index-faithful -/

/-- **`ContentDisposition::try_from(&[u8])` returns for every byte string**, in the model that keeps
the Rust cursor `pos: &mut usize`: none of the four `bytes[*pos]` and three `&bytes[a..b]` can fail
(the cursor stays inside `[0, len]`), the four scanning loops end within `len − pos + 1` steps, and
the parameter loop makes progress on every iteration. -/
theorem cd_index_model_returns (bytes : Str) : (ScanCd.parseI bytes).Returns :=
  ScanCd.parseI_returns bytes

/-- **The index-faithful model and the suffix-passing model of part 1 are the same function**, so
every statement of part 1 about `HttpHeaders.parse` (e.g. `cd_parse_error_iff`) is a statement about
the code with its cursor arithmetic. -/
theorem cd_index_model_eq_suffix_model (bytes : Str) :
    ScanCd.parseI bytes = ScanCd.liftRes (HttpHeaders.parse bytes) :=
  ScanCd.parseI_eq_parse bytes

/-- What `parse_multipart_body_part` returns: `bytes[start..end]` is a rest of the boundary line
without newline, a newline, the headers, an empty line (`\r\n` or `\n`) and the content. -/
theorem multipart_part_shape (bytes : Str) (start end_ : Nat) (h1 : start ≤ end_) (h2 : end_ ≤ bytes.length)
    {h c : Str} (hr : ScanMultipart.parsePart bytes start end_ = .ok (h, c)) :
    ∃ pre nl, 10 ∉ pre ∧ (nl = [13, 10] ∨ nl = [10]) ∧
      bytesSlice bytes start end_ = some (pre ++ [10] ++ h ++ nl ++ c) :=
  ScanMultipart.parsePart_ok_shape bytes start end_ h1 h2 hr

/-- **When parsing a `Content-Disposition` value fails**, stated without any helper of the model: let
`t` be the value's type token — skip leading ASCII whitespace, then take the longest run of bytes that
are neither ASCII whitespace nor `;` (`ScanCd.typeToken`, two standard list functions). Parsing fails
iff `t` is neither `inline` nor `attachment` (ASCII case-insensitively) nor a non-empty RFC 7230
token; nothing behind the type token can make it fail. Holds for the index-faithful model as well
(`cd_index_model_eq_suffix_model`). -/
theorem cd_parse_error_iff_token (s : Str) :
    (∃ e, HttpHeaders.parse s = .error e) ↔
      ¬ (HttpHeaders.eqIgnoreCase (ScanCd.typeToken s) (bs "inline") = true ∨
         HttpHeaders.eqIgnoreCase (ScanCd.typeToken s) (bs "attachment") = true ∨
         (ScanCd.typeToken s ≠ [] ∧ ∀ b ∈ ScanCd.typeToken s, HttpHeaders.isTchar b = true)) :=
  ScanCd.parse_error_iff_token s

example : ScanCd.typeToken (bs "  form-data ; name=x") = bs "form-data" := by decide

example : ScanMultipart.parsePart (bs "--B \r\nA: b\r\n\r\nfile") 3 18 = .ok (bs "A: b\r\n", bs "file") := by decide

/-! ## Push rule evaluation (C12's code-point model) -/

/-- `Ruleset::get_match` never panics (C12's model: `char_at` beyond the end and
`find_prev_char(..).unwrap()` are its panic outcomes), given C12's assumptions about `regex` and
`wildmatch`. The byte-level counterpart for the literal word matcher is `word_match_bytes_returns`. -/
theorem push_rule_evaluation_never_panics (E : Push.Ext) (hE : Push.ExtOk E) (rs : Push.Ruleset)
    (ev : Push.PJ) (ctx : Push.Ctx) : ∃ r, Push.getMatch E rs ev ctx = .ok r :=
  ⟨_, C12.getMatch_first_enabled E hE rs ev ctx⟩

end Scanners

#print axioms cd_param_loop_progress
#print axioms cd_scanners_monotone
#print axioms cd_parse_error_iff
#print axioms rfc8187_split_nonempty
#print axioms utf8Lossy_fuel_sufficient
#print axioms unescape_no_growth
#print axioms ring_compat_no_panic
#print axioms ring_compat_passthrough
#print axioms identifiers_never_panic
#print axioms matrix_uris_never_panic
#print axioms ruleset_edits_never_panic
#print axioms endpoint_url_never_panics
#print axioms hash_and_sign_never_panics
#print axioms multipart_split_returns
#print axioms multipart_part_returns
#print axioms call_member_key_returns
#print axioms call_member_key_display
#print axioms code_language_scan_returns
#print axioms code_language_scan_finds_class
#print axioms tag_display_name_returns
#print axioms plain_reply_fallback_terminates
#print axioms word_match_bytes_returns
#print axioms char_at_returns
#print axioms cd_index_model_returns
#print axioms cd_index_model_eq_suffix_model
#print axioms multipart_part_shape
#print axioms cd_parse_error_iff_token
#print axioms push_rule_evaluation_never_panics
end Ruma.Props.C17
