/-
  C17 — Entry points for untrusted wire data never panic, abort or hang.

  What Lean decides here: for the entry points whose logic is ruma's own hand-written scanning code
  and is modelled in this project, the model is a total function whose panic outcomes (where the
  Rust has `assert!`/index/`expect`) are proven unreachable, and whose loops terminate by a proven
  measure. This file holds the theorems for the `Content-Disposition` parser with its RFC 8187
  decoder and for the ring-compat DER fix-up; the other modelled entry points have their no-panic
  theorems in their own property files (C10 identifiers, C11 URIs, C13 ruleset edits, C12 pattern
  matching, C02–C05 signing/hashing/redaction, C14 HTML tree walk). Stack exhaustion, allocator
  aborts and hangs inside dependencies cannot be exhibited by a model; they are explored by the
  mutation stream of the harness (T3) only.
-/
import RumaModel.Lemmas.HttpHeaders
import RumaModel.Lemmas.RingCompat
import RumaModel.Props.C10
import RumaModel.Props.C11
import RumaModel.Props.C13
import RumaModel.Lemmas.EndpointNoPanic
import RumaModel.Lemmas.EventSign
namespace Ruma.Props.C17
open Ruma Ruma.HttpHeaders Ruma.RingCompat

/-- **The `Content-Disposition` parameter loop cannot hang**: every iteration of
`while pos != value.len() { RawParam::parse_next(value, &mut pos) … }` strictly shortens the
remaining input (it advances `pos` or sets it to `len`), for every byte string. This is the measure
by which `paramsLoop` is accepted as a total function. -/
theorem cd_param_loop_progress (s : List Nat) (h : s ≠ []) :
    (parseNext s).2.length < s.length := parseNext_lt s h

/-- The sub-scanners never run backwards. -/
theorem cd_scanners_monotone (s : List Nat) :
    (skipWs s).length ≤ s.length ∧ (parseParamValue s).2.length ≤ s.length ∧
    (∀ q esc, (scanValue q esc s).2.length ≤ s.length) :=
  ⟨skipWs_le s, parseParamValue_le s, fun q esc => scanValue_le q esc s⟩

/-- **Parsing a `Content-Disposition` value fails exactly** when it has no disposition type
(only whitespace) or the type is neither `inline`/`attachment` nor a non-empty RFC 7230 token;
no parameter, however malformed, makes it fail. -/
theorem cd_parse_error_iff (s : List Nat) :
    (∃ e, parse s = .error e) ↔
      skipWs s = [] ∨
      (∃ e, parseType (spanP (fun b => !(isWs b || b = 59)) (skipWs s)).1 = .error e) := by
  unfold parse
  cases hs : skipWs s with
  | nil => simp
  | cons b t =>
    simp only
    cases hp : parseType (spanP (fun b => !(isWs b || b = 59)) (b :: t)).1 with
    | error e => simp
    | ok ty => simp

/-- `slice::split` always yields at least one part, so the `charset` part of an RFC 8187 value
always exists (the first `ok_or(WrongPartsCount)` cannot fire) and the model's extra match arm is
dead. -/
theorem rfc8187_split_nonempty (s : List Nat) : splitQuote s ≠ [] := splitQuote_ne_nil s

/-- The model of `from_utf8_lossy` is not cut short by its fuel: more fuel than the input length
gives the same result, for every byte string. -/
theorem utf8Lossy_fuel_sufficient (s : List Nat) (k : Nat) :
    utf8LossyAux (s.length + k) s = utf8Lossy s := utf8LossyAux_fuel s k

/-- Unescaping a quoted string never grows it. -/
theorem unescape_no_growth (s : List Nat) : (unescape s).length ≤ s.length :=
  unescapeAux_length_le false s

/-- **`Ed25519KeyPair::from_der` cannot panic in the ring-compat fix-up**, for every byte string:
when the document is taken for a ring document, none of `fix_ring_doc`'s assertions, the `expect`,
the `&suffix[4..]` slice, the `doc[1]` store or the `as u8 - 2` subtraction can fail. -/
theorem ring_compat_no_panic (bytes : List Nat) (hbytes : ∀ b ∈ bytes, b < 256) :
    fromBytes bytes ≠ .panic := by
  unfold fromBytes
  split
  · rename_i hr
    unfold isRing at hr
    split at hr
    · rename_i b0 b1 t
      simp only [Bool.and_eq_true, decide_eq_true_eq, List.length_cons] at hr
      obtain ⟨⟨h0, h1⟩, hf⟩ := hr
      obtain ⟨idx, hidx⟩ := Option.isSome_iff_exists.mp hf
      have h1' : b1 = t.length := by omega
      have hb1 : b1 < 256 := hbytes b1 (by simp)
      subst h1' h0
      obtain ⟨d, hd⟩ := fixRingDoc_ok t idx hb1 hidx
      rw [hd]
      simp
    · cases hr
  · simp

/-- A document that does not have ring's outer shape is passed through untouched to the PKCS#8
parser (which rejects it), e.g. the former panic witness `[0xA1, 0x23, 0x03, 0x21]`. -/
theorem ring_compat_passthrough (bytes : List Nat) (h : isRing bytes = false) :
    fromBytes bytes = .ok (.wellFormed bytes) := by
  simp [fromBytes, h]

example : fromBytes [0xA1, 0x23, 0x03, 0x21] = .ok (.wellFormed [0xA1, 0x23, 0x03, 0x21]) := by decide

/-- Non-vacuity: a real ring-shaped document goes through the fix-up path and comes out two bytes
shorter with the corrected length byte. -/
example : fromBytes [0x30, 8, 1, 2, 0xA1, 0x23, 0x03, 0x21, 7, 9]
    = .ok (.cleanedFromRing [0x30, 6, 1, 2, 0x81, 0x21, 7, 9]) := by decide

-- Executable sanity test of the parser model (a test, not a theorem): quoted filename with an
-- escaped quote, then an RFC 8187 `filename*` that takes precedence.
#guard (match parse (bs "attachment; filename=\"a\\\"b\"; filename*=utf-8''%e2%82%ac") with
  | .ok ⟨.attachment, some [0xe2, 0x82, 0xac]⟩ => true
  | _ => false)
#guard (match parse (bs "inline; filename=\"a\\\"b\"") with
  | .ok ⟨.inline, some [97, 34, 98]⟩ => true
  | _ => false)

/-! ## Entry points modelled under other properties

The models of C10, C11, C13, C16 and C03 have explicit panic outcomes at every index, slice, `unwrap`,
`expect`, `assert!` and `unreachable!` of the code they mirror; their unreachability theorems are
obligations of this property too (restated here so that they are re-checked with it). -/

/-- Identifier entry points (C10's model): no identifier validator panics on any string. -/
theorem identifiers_never_panic (x : Ids.Ext) (k : Spec.IdGrammar.Kind) (s : Str) (h : Ids.utf8Valid s = true) :
    Ids.validate x k s ≠ .panic ∧ Ids.userIdValidateStrict x s ≠ .panic :=
  ⟨C10.validate_never_panics x k s h, C10.validate_strict_never_panics x s h⟩

/-- Matrix URI entry points (C11's model): parsing any byte string never panics. -/
theorem matrix_uris_never_panic (U : MatrixUri.UrlParser) (V : MatrixUri.Validators) (s : Str) :
    MatrixUri.parseTo V s ≠ .panic ∧ MatrixUri.parseUri U V s ≠ .panic :=
  ⟨(C11.parse_never_panics U V s).1, (C11.parse_never_panics U V s).2.1⟩

/-- Push ruleset edits (C13's model): no operation sequence from either start state panics. -/
theorem ruleset_edits_never_panic (st : C13.Start) (ops : List Ruleset.Op) :
    Ruleset.Outcome.panic ∉ (Ruleset.run st.state ops).2 := C13.trace_no_panic st ops

/-- Endpoint URL construction (C16's model). -/
theorem endpoint_url_never_panics (h : Endpoint.VersionHistory) (vs : List Spec.Endpoint.Version) (base query : Str)
    (args : List Str) (hnew : Endpoint.newOk h = true)
    (hslash : ∀ p ∈ Endpoint.allPaths h, p.head? = some 47)
    (hlen : ∀ r, Endpoint.refPath h = some r → (Endpoint.pathArgNames r).length ≤ args.length) :
    Endpoint.makeEndpointUrl h vs base args query ≠ .panic :=
  Endpoint.makeEndpointUrl_no_panic' h vs base query args hnew hslash hlen

/-- Event hashing and signing (C03's model): the `unwrap()` of `hash_and_sign_event` is unreachable. -/
theorem hash_and_sign_never_panics (S : Sign.SigScheme) (sha256 : List Nat → List Nat) (entity : Str)
    (kp : Sign.KeyPair) (e : Obj) (rr : Redact.Rules) :
    (EventSign.hashAndSignEvent S sha256 entity kp e rr).1 ≠ .error .panic :=
  EventSign.hashAndSign_no_panic S sha256 entity kp e rr

#print axioms cd_param_loop_progress
#print axioms cd_scanners_monotone
#print axioms cd_parse_error_iff
#print axioms rfc8187_split_nonempty
#print axioms utf8Lossy_fuel_sufficient
#print axioms unescape_no_growth
#print axioms ring_compat_no_panic
#print axioms ring_compat_passthrough
#print axioms identifiers_never_panic
#print axioms matrix_uris_never_panic
#print axioms ruleset_edits_never_panic
#print axioms endpoint_url_never_panics
#print axioms hash_and_sign_never_panics
end Ruma.Props.C17
