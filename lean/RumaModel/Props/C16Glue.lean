import RumaModel.Lemmas.EndpointGlueResp
namespace Ruma.Props.C16
open Ruma Ruma.Endpoint Ruma.Spec.Endpoint Ruma.Glue

/-! ## The macro-generated request/response glue

`ReqDesc` / `RespDesc` describe an endpoint the way `#[request]` / `#[response]` see it (ordered
fields with their `#[ruma_api(..)]` kind); `tryIntoHttpRequest`, `tryFromHttpRequest`,
`tryIntoHttpResponse`, `tryFromHttpResponse` are the model of the generated code
(`Model/EndpointGlue.lean`); `deliver` is what lies between sender and receiver (cut the base URL
off, split path and query, route the path, percent-decode the arguments). `FormCodec`, `JsonCodec`,
`HttpLib` stand for `serde_html_form`, `serde_json` and `http::Uri` and are quantified over — every
theorem holds for all implementations satisfying the stated laws. `refForm` is the executable
reference form codec, proved to satisfy its law. -/

/-! ### The query-string codec -/

/-- **All byte strings.** The reference `application/x-www-form-urlencoded` parser (split on `&`,
first `=`, `+` → space, `%XX`) reads back every list of pairs of arbitrary byte strings from what
the reference serializer (`* - . _ 0-9 A-Z a-z` kept, space → `+`, the rest `%XX`) wrote: keys and
values with `& = + % # ?`, spaces, controls, NUL, bytes that are not UTF-8, empty strings, the
empty list, repeated keys. -/
theorem query_roundtrip_all_bytes (ps : List (Str × Str))
    (hb : ∀ p ∈ ps, IsBytes p.1 ∧ IsBytes p.2) : formParseBytes (formSerialize ps) = ps :=
  formParseBytes_formSerialize ps hb

/-- `String::from_utf8_lossy` (the step `form_urlencoded::parse` adds on top) changes nothing on
well-formed UTF-8, so the parser as `serde_html_form` uses it reads back all Rust strings. -/
theorem form_codec_lawful (ps : List (Str × Str))
    (ht : ∀ p ∈ ps, utf8Valid p.1 = true ∧ utf8Valid p.2 = true) :
    formParse (formSerialize ps) = ps ∧ 35 ∉ formSerialize ps :=
  ⟨refForm_lawful.law ps ht, refForm_lawful.no_hash ps⟩

example : formSerialize [(bs "a b", bs "x&y=z"), (bs "", bs "100%"), (bs "k", [195, 169]), (bs "k", bs "+#?")]
      = bs "a+b=x%26y%3Dz&=100%25&k=%C3%A9&k=%2B%23%3F"
    ∧ formParse (bs "a+b=x%26y%3Dz&=100%25&&k=%C3%A9&k=%2B%23%3F&novalue&%zz=%4")
      = [(bs "a b", bs "x&y=z"), (bs "", bs "100%"), (bs "k", [195, 169]), (bs "k", bs "+#?"),
         (bs "novalue", []), (bs "%zz", bs "%4")]
    -- a percent escape that is not UTF-8 arrives as U+FFFD
    ∧ formParse (bs "k=%FF%C3") = [(bs "k", [239, 191, 189, 239, 191, 189])]
    ∧ utf8Valid [240, 159, 152, 128] = true ∧ utf8Valid [237, 160, 128] = false
    ∧ utf8Valid [192, 128] = false := by
  refine ⟨by decide +kernel, by decide +kernel, by decide +kernel, by decide, by decide, by decide⟩

/-! ### Requests -/

/-- The property for requests, at full strength: for every endpoint description the macro accepts
(and whose generated tests pass), every value made of wire forms of values, and every message the
encoder produces for it: the receiving side, after routing, reads back the value (and so its
re-encoding is the identical message). **This does not hold** — see `request_statement_false`:
findings F17 and F19 and descriptions with two header fields of one name are counterexamples. -/
def RequestRoundtripStatement : Prop :=
  ∀ (F : FormCodec) (J : JsonCodec) (H : HttpLib) (d : ReqDesc) (v : ReqVal) (base : Str)
    (sat : SendAccessToken) (vs : List Version) (m : HttpRequest),
    F.Lawful → J.Lawful → newOk d.history = true →
    (∀ p ∈ allPaths d.history, ∀ b ∈ p, b = 47 ∨ segmentUnsafe b = false) →
    d.macroAccepts = true → d.testsPass = true → v.Canon d → v.Text F d →
    tryIntoHttpRequest F J H d v base sat vs = .ok m →
    ∃ tmpl a, selectPath d.history vs = .ok tmpl ∧ deliver base tmpl m = some a
      ∧ tryFromHttpRequest F J d a = .ok v

/-- What is proved. For EVERY implementation of the form, JSON and URI libraries satisfying the
stated laws, EVERY endpoint description `d` — any mix of path, query / `query_all`, header
(mandatory or `Option`), body, newtype-body and raw-body fields — that `#[request]` accepts
(`macroAccepts`), whose generated tests pass (`testsPass`: path fields = placeholders, no body on
`GET`, distinct field names) and whose history `VersionHistory::new` accepts with URI-safe paths,
EVERY value `v` whose field contents are wire forms of values of the fields' types (`Canon`) and
Rust strings where they pass through text (`Text`), every base URL, access token and list of
supported versions: if `try_into_http_request` produces the message `m`, then a server that routes
`m` by the selected path template and hands it to `try_from_http_request` obtains exactly `v`, and
re-encoding what it obtained gives exactly `m` again.

Excluded, spelled out:
 * `hhn`  — two header fields with the same header name (the second `insert` overwrites the first);
 * `hvis` — **F19**: a header value with a byte that is not visible ASCII / space / tab
            (`HeaderValue::from_str` accepts bytes ≥ 128, `to_str` on the receiving side refuses);
 * `himp` — **F17**: an `Option` header field that is `None` while the generated code sets that
            header itself (`Content-Type: application/json` whenever there is a body,
            `Authorization` when a token is sent): it is read back as `Some(..)`.
Finding **F18** lives one level below (`QueryFieldTypesStatement`): `Some("")` in an
`Option<String>` query field is not the wire form of a value, so `Canon` does not hold for it. -/
theorem request_roundtrip_partial (F : FormCodec) (J : JsonCodec) (H : HttpLib) (d : ReqDesc)
    (v : ReqVal) (base : Str) (sat : SendAccessToken) (vs : List Version) (m : HttpRequest)
    (hF : F.Lawful) (hJ : J.Lawful)
    (hnew : newOk d.history = true)
    (hsafe : ∀ p ∈ allPaths d.history, ∀ b ∈ p, b = 47 ∨ segmentUnsafe b = false)
    (hmacro : d.macroAccepts = true) (htests : d.testsPass = true)
    (hcanon : v.Canon d) (htext : v.Text F d)
    (hhn : (d.headerFields.map (·.header)).Nodup)
    (hvis : ∀ s, some s ∈ v.header → headerToStrOk s = true)
    (himp : ∀ f, (f, none) ∈ d.headerFields.zip v.header → f.header ∉ implicitHeaders d sat)
    (henc : tryIntoHttpRequest F J H d v base sat vs = .ok m) :
    ∃ tmpl a, selectPath d.history vs = .ok tmpl ∧ deliver base tmpl m = some a
      ∧ tryFromHttpRequest F J d a = .ok v
      ∧ ∀ v', tryFromHttpRequest F J d a = .ok v' →
          tryIntoHttpRequest F J H d v' base sat vs = .ok m := by
  obtain ⟨tmpl, a, h1, h2, h3⟩ :=
    request_roundtrip' F hF J hJ H d v base sat vs m hnew hsafe hmacro htests hhn hcanon htext hvis himp henc
  refine ⟨tmpl, a, h1, h2, h3, ?_⟩
  intro v' hv'
  rw [h3] at hv'
  cases hv'
  exact henc

/-- No modelled panic site of the generated code is reachable: for a description whose generated
tests pass, a history `VersionHistory::new` accepted with paths starting in `/`, and any value of
the struct, `try_into_http_request` ends in a message or in an `IntoHttpError` — never in one of
the `expect`/`assert!`/`unreachable!` of `make_endpoint_url` / `select_path`. (The receiving side
and both response conversions contain no `unwrap`/`expect`/index at all: their models have no
`panic` outcome.) -/
theorem glue_no_panic (F : FormCodec) (J : JsonCodec) (H : HttpLib) (d : ReqDesc) (v : ReqVal)
    (base : Str) (sat : SendAccessToken) (vs : List Version)
    (hnew : newOk d.history = true) (hslash : ∀ p ∈ allPaths d.history, p.head? = some 47)
    (htests : d.testsPass = true) (hshape : v.shapeOk d = true) :
    tryIntoHttpRequest F J H d v base sat vs ≠ .panic
    ∧ tryIntoHttpRequest F J H d v base sat vs ≠ .illTyped := by
  rcases tryInto_no_panic' F J H d v base sat vs hnew hslash htests hshape with ⟨m, h⟩ | ⟨e, h⟩
  · rw [h]; constructor <;> (intro h'; cases h')
  · rw [h]; constructor <;> (intro h'; cases h')

/-- The receiving side's method rule: a `HEAD` request is accepted for a `GET` endpoint; any other
method than the endpoint's is `MethodMismatch`, before anything else is looked at. -/
theorem method_rule (F : FormCodec) (J : JsonCodec) (d : ReqDesc) (a : Arrived) :
    (a.method ≠ d.method → ¬(a.method = mHEAD ∧ d.method = mGET) →
      tryFromHttpRequest F J d a = .methodMismatch)
    ∧ (d.method = mGET → tryFromHttpRequest F J d { a with method := mHEAD }
        = tryFromHttpRequest F J d { a with method := mGET }) := by
  constructor
  · intro h1 h2
    unfold tryFromHttpRequest
    have : (decide (a.method = d.method) || (decide (a.method = mHEAD) && decide (d.method = mGET))) = false := by
      simp only [Bool.or_eq_false_iff, decide_eq_false_iff_not, Bool.and_eq_false_imp,
        decide_eq_true_eq]
      exact ⟨h1, fun h3 h4 => h2 ⟨h3, h4⟩⟩
    simp [this]
  · intro hg
    unfold tryFromHttpRequest
    simp [hg]

/-- The empty-body rule: a request without any body bytes is read exactly like the body `{}`. -/
theorem empty_body_is_empty_object (F : FormCodec) (J : JsonCodec) (d : ReqDesc) (a : Arrived)
    (hraw : d.hasRawBody = false) :
    tryFromHttpRequest F J d { a with body := [] }
      = tryFromHttpRequest F J d { a with body := bs "{}" } := by
  unfold tryFromHttpRequest decodeJsonBody bodyOrEmptyObject
  simp [hraw]

/-! ### Witnesses: the model reproduces the recorded defects -/

/-- A `JsonCodec` that refuses to write anything (lawful, trivially): enough for the witnesses
below, none of which has a JSON body. -/
def noJson : JsonCodec where
  ser := fun _ => none
  parse := fun b => if b = bs "{}" then some (.obj []) else none

theorem noJson_lawful : noJson.Lawful where
  law := by intro v b h; cases h
  ser_ne := by intro v b h; cases h
  empty_obj := by simp [noJson]

def anyUri : HttpLib := ⟨fun _ => true⟩

/-- `media::create_content`-like: raw body and an optional `Content-Type` header field. -/
def dF17 : ReqDesc :=
  ⟨bs "POST", .none, ⟨[bs "/_synthetic/upload"], [], none, none⟩,
   [⟨bs "content_type", .header contentType true Ty.str⟩, ⟨bs "file", .rawBody⟩]⟩

/-- **F17 on the model.** `content_type: None` is sent with the macros' own
`Content-Type: application/json` and read back as `Some("application/json")`. -/
theorem f17_witness :
    let v : ReqVal := { header := [none], raw := [[1, 2, 3]] }
    let m : HttpRequest := ⟨bs "POST", bs "https://h/_synthetic/upload",
      [(contentType, applicationJson)], [1, 2, 3]⟩
    dF17.macroAccepts = true ∧ dF17.testsPass = true ∧ newOk dF17.history = true
    ∧ tryIntoHttpRequest refForm noJson anyUri dF17 v (bs "https://h") .none [] = .ok m
    ∧ deliver (bs "https://h") (bs "/_synthetic/upload") m = some ⟨bs "POST", [], m.headers, m.body, []⟩
    ∧ tryFromHttpRequest refForm noJson dF17 ⟨bs "POST", [], m.headers, m.body, []⟩
        = .ok { header := [some applicationJson], raw := [[1, 2, 3]] } := by
  refine ⟨by decide, by decide, by decide, by rfl, by rfl, by rfl⟩

/-- A mandatory `String` header field. -/
def dF19 : ReqDesc :=
  ⟨bs "GET", .none, ⟨[bs "/_synthetic/h"], [], none, none⟩,
   [⟨bs "h", .header (bs "if-match") false Ty.str⟩]⟩

/-- **F19 on the model.** The header value `é` (bytes C3 A9) is accepted when sending and is a
deserialization error when receiving. -/
theorem f19_witness :
    let v : ReqVal := { header := [some [195, 169]] }
    let m : HttpRequest := ⟨bs "GET", bs "https://h/_synthetic/h", [(bs "if-match", [195, 169])], []⟩
    tryIntoHttpRequest refForm noJson anyUri dF19 v (bs "https://h") .none [] = .ok m
    ∧ deliver (bs "https://h") (bs "/_synthetic/h") m = some ⟨bs "GET", [], m.headers, [], []⟩
    ∧ (match tryFromHttpRequest refForm noJson dF19 ⟨bs "GET", [], m.headers, [], []⟩ with
       | .deser => true | _ => false) = true := by
  refine ⟨by rfl, by rfl, by rfl⟩

/-- The full-strength statement is false: the F17 description and value satisfy all its
hypotheses, and the receiving side reads a different value. -/
theorem request_statement_false : ¬ RequestRoundtripStatement := by
  intro h
  obtain ⟨hm, ht, hn, henc, hdel, hdec⟩ := f17_witness
  have hcanon : ReqVal.Canon dF17 { header := [none], raw := [[1, 2, 3]] } :=
    ⟨trivial, trivial, trivial, ⟨rfl, trivial⟩, trivial, trivial⟩
  have htext : ReqVal.Text refForm dF17 { header := [none], raw := [[1, 2, 3]] } := by
    constructor
    · intro a ha; cases ha
    · intro f hf; cases hf
    · intro x hx; cases hx
    · intro x hx; cases hx
  obtain ⟨tmpl, a, hsel, hd, hdec'⟩ := h refForm noJson anyUri dF17 _ (bs "https://h") .none [] _
    refForm_lawful noJson_lawful hn
    (by decide) hm ht hcanon htext henc
  have : tmpl = bs "/_synthetic/upload" := by
    have : selectPath dF17.history [] = .ok (bs "/_synthetic/upload") := by decide
    rw [this] at hsel
    cases hsel
    rfl
  subst this
  rw [hdel] at hd
  cases hd
  rw [hdec] at hdec'
  have := congrArg (fun o => match o with | FromOut.ok v => v.header | _ => []) hdec'
  simp at this

/-! ### F18: one level below, the field types -/

/-- Typed contents of a query field, for the string types the check's endpoints use. -/
inductive QVal where
  | str (s : Str)                  -- `String`
  | optStr (o : Option Str)        -- `Option<String>`
  | vecStr (l : List Str)          -- `Vec<String>` (`default`, `skip_serializing_if = "Vec::is_empty"`)

/-- What `serde_html_form` writes under the field's key. -/
def QVal.wire : QVal → List Str
  | .str s => [s]
  | .optStr none => []
  | .optStr (some s) => [s]
  | .vecStr l => l

def QVal.codec : QVal → Codec (List Str)
  | .str _ => Ty.qStr
  | .optStr _ => Ty.qOptStr
  | .vecStr _ => Ty.qVecStr

/-- Full strength: whatever a query field holds, what is written for it is read back as the same
content. **False**: F18. -/
def QueryFieldTypesStatement : Prop := ∀ a : QVal, a.codec.Canon a.wire

/-- All contents of `String`, `Option<String>` and `Vec<String>` query fields — every string, the
empty string, any number of values — are read back unchanged, **except** `Some("")` in an
`Option<String>` field. -/
theorem query_field_types_partial (a : QVal) (h : a ≠ .optStr (some [])) : a.codec.Canon a.wire := by
  cases a with
  | str s => rfl
  | vecStr l => rfl
  | optStr o =>
    cases o with
    | none => rfl
    | some s =>
      have hs : s ≠ [] := fun e => h (by rw [e])
      simp [QVal.codec, QVal.wire, Codec.Canon, Ty.qOptStr, hs]

/-- **F18 on the model.** `Some("")` is written as `name=` and read back as `None`. -/
theorem f18_witness :
    (QVal.optStr (some [])).codec.norm (QVal.optStr (some [])).wire = some (QVal.optStr none).wire
    ∧ ¬ QueryFieldTypesStatement := by
  refine ⟨rfl, fun h => ?_⟩
  have := h (.optStr (some []))
  simp [QVal.codec, QVal.wire, Codec.Canon, Ty.qOptStr] at this

/-- …and end to end: an endpoint with one `Option<String>` query field sends `?oq=` for
`Some("")`, and the receiving side obtains `None`. -/
example :
    let d : ReqDesc := ⟨bs "GET", .none, ⟨[bs "/_synthetic/q"], [], none, none⟩,
      [⟨bs "oq", .query Ty.qOptStr⟩]⟩
    let m : HttpRequest := ⟨bs "GET", bs "https://h/_synthetic/q?oq=", [], []⟩
    tryIntoHttpRequest refForm noJson anyUri d { query := [[[]]] } (bs "https://h") .none [] = .ok m
    ∧ deliver (bs "https://h") (bs "/_synthetic/q") m = some ⟨bs "GET", bs "oq=", [], [], []⟩
    ∧ tryFromHttpRequest refForm noJson d ⟨bs "GET", bs "oq=", [], [], []⟩ = .ok { query := [[]] } := by
  refine ⟨by rfl, by rfl, by rfl⟩

/-! ### Responses -/

/-- The property for responses at full strength (false for the same two reasons as for requests:
F19, and F17's response-side twin — an `Option` header field named `Content-Type` that is `None`). -/
def ResponseRoundtripStatement : Prop :=
  ∀ (J : JsonCodec) (d : RespDesc) (v : RespVal) (r : HttpResponse),
    J.Lawful → d.macroAccepts = true → d.supported = true → d.status < 400 → v.Canon d →
    tryIntoHttpResponse J d v = .ok r → tryFromHttpResponse J d r = .ok v

/-- For EVERY lawful JSON library, EVERY response description `#[response]` accepts (header, body,
newtype-body, raw-body fields; `status = ..`; `manual_body_serde`) with a success status, and
EVERY value made of wire forms of values: what `try_into_http_response` produces is read back by
`try_from_http_response` as the same value, and re-encoding that gives the identical response
(status, headers, body bytes). Excluded, spelled out: two header fields of one name (`hhn`),
header values that are not visible ASCII (`hvis`, **F19**), and an `Option` header field named
`Content-Type` holding `None` (`himp`, the response-side form of **F17**: the builder always sets
`Content-Type: application/json`). -/
theorem response_roundtrip_partial (J : JsonCodec) (d : RespDesc) (v : RespVal) (r : HttpResponse)
    (hJ : J.Lawful) (hmacro : d.macroAccepts = true) (hsup : d.supported = true) (hstatus : d.status < 400)
    (hcanon : v.Canon d)
    (hhn : (d.headerFields.map (·.header)).Nodup)
    (hvis : ∀ s, some s ∈ v.header → headerToStrOk s = true)
    (himp : ∀ f, (f, none) ∈ d.headerFields.zip v.header → f.header ≠ contentType)
    (henc : tryIntoHttpResponse J d v = .ok r) :
    tryFromHttpResponse J d r = .ok v
    ∧ ∀ v', tryFromHttpResponse J d r = .ok v' → tryIntoHttpResponse J d v' = .ok r := by
  have h := response_roundtrip' J hJ d v r hmacro hsup hstatus hhn hcanon hvis himp henc
  refine ⟨h, ?_⟩
  intro v' hv'
  rw [h] at hv'
  cases hv'
  exact henc

/-- The error path: a status of 400 or above is never read as a value of the endpoint — it goes to
the endpoint's error type (`FromHttpResponseError::Server`), whatever headers and body it has; and
a status below 400 is never taken for a server error. -/
theorem response_error_path (J : JsonCodec) (d : RespDesc) (r : HttpResponse) :
    (400 ≤ r.status → tryFromHttpResponse J d r = .server)
    ∧ (r.status < 400 → tryFromHttpResponse J d r ≠ .server) := by
  constructor
  · intro h
    unfold tryFromHttpResponse
    simp [Nat.not_lt.2 h]
  · intro h
    unfold tryFromHttpResponse
    simp only [h, if_true]
    cases decodeRespBody J d r.body with
    | methodMismatch => simp
    | deser => simp
    | outside => simp
    | ok p =>
      obtain ⟨b, w⟩ := p
      simp only
      cases decodeRespHeaders r.headers d.headerFields <;> simp

/-- The response-side witness: `Content-Type` as an optional header field holding `None`. -/
theorem response_statement_false : ¬ ResponseRoundtripStatement := by
  intro h
  let d : RespDesc := ⟨200, none, [⟨bs "content_type", .header contentType true Ty.str⟩, ⟨bs "file", .rawBody⟩]⟩
  let v : RespVal := { header := [none], raw := [[7]] }
  have henc : tryIntoHttpResponse noJson d v = .ok ⟨200, [(contentType, applicationJson)], [7]⟩ := by rfl
  have hdec : tryFromHttpResponse noJson d ⟨200, [(contentType, applicationJson)], [7]⟩
      = .ok { header := [some applicationJson], raw := [[7]] } := by rfl
  have := h noJson d v _ noJson_lawful (by decide) (by decide) (by decide) ⟨⟨rfl, trivial⟩, trivial⟩ henc
  rw [hdec] at this
  have := congrArg (fun o => match o with | FromResp.ok v => v.header | _ => []) this
  simp [v] at this

/-! ### The hypotheses are satisfiable: a description with every kind of field -/

/-- `PUT /_synthetic/v1/all/:a/x/:b?q=..&oq=..&mq=..&mq=..` with two path fields, three query fields,
a mandatory and an optional header, three body fields. -/
def dAll : ReqDesc :=
  ⟨bs "PUT", .accessToken,
   ⟨[bs "/_synthetic/unstable/all/:a/x/:b"], [(1, bs "/_synthetic/v1/all/:a/x/:b")], none, none⟩,
   [⟨bs "a", .path Ty.str⟩, ⟨bs "q", .query Ty.qStr⟩, ⟨bs "lang", .header (bs "content-language") false Ty.str⟩,
    ⟨bs "s", .body Ty.bStr⟩, ⟨bs "b", .path Ty.str⟩, ⟨bs "oq", .query Ty.qOptStr⟩,
    ⟨bs "o", .body Ty.bOptStr⟩, ⟨bs "mq", .query Ty.qVecStr⟩, ⟨bs "h", .header (bs "if-match") true Ty.str⟩,
    ⟨bs "v", .body Ty.bVecStr⟩]⟩

def vAll : ReqVal :=
  { path := [bs "a%41/b", bs "?#+ " ++ [195, 169]], query := [[bs "x&y=z"], [], [bs "", bs "1 2"]],
    header := [some (bs "en, fr"), none],
    body := [some (.str (bs "s\"")), none, some (.arr [.str (bs "1")])] }

example :
    dAll.macroAccepts = true ∧ dAll.testsPass = true ∧ newOk dAll.history = true
    ∧ (∀ p ∈ allPaths dAll.history, ∀ b ∈ p, b = 47 ∨ segmentUnsafe b = false)
    ∧ (∀ p ∈ allPaths dAll.history, p.head? = some 47)
    ∧ (dAll.headerFields.map (·.header)).Nodup ∧ vAll.shapeOk dAll = true
    ∧ vAll.Canon dAll ∧ vAll.Text refForm dAll
    ∧ (∀ s, some s ∈ vAll.header → headerToStrOk s = true)
    ∧ (∀ f, (f, none) ∈ dAll.headerFields.zip vAll.header →
        f.header ∉ implicitHeaders dAll (.ifRequired (bs "tok"))) := by
  refine ⟨by decide, by decide, by decide, by decide +kernel, by decide, by decide, by decide, ?_, ?_, ?_, ?_⟩
  · exact ⟨⟨rfl, rfl, trivial⟩, ⟨rfl, rfl, rfl, trivial⟩, trivial, ⟨rfl, rfl, trivial⟩,
      ⟨rfl, rfl, rfl, trivial⟩, trivial⟩
  · constructor
    · intro a ha
      simp only [vAll, List.mem_cons, List.mem_nil_iff, or_false] at ha
      rcases ha with rfl | rfl <;> (intro b hb; revert b; decide)
    · show ∀ f ∈ [(bs "q", Ty.qStr), (bs "oq", Ty.qOptStr), (bs "mq", Ty.qVecStr)], utf8Valid f.1 = true
      intro f hf
      simp only [List.mem_cons, List.mem_nil_iff, or_false] at hf
      rcases hf with rfl | rfl | rfl <;> decide
    · show ∀ vs ∈ [[bs "x&y=z"], [], [bs "", bs "1 2"]], ∀ s ∈ vs, utf8Valid s = true
      decide
    · intro ps hps; cases hps
  · intro s hs
    simp only [vAll, List.mem_cons, Option.some.injEq, reduceCtorEq, List.mem_nil_iff, or_false] at hs
    subst hs
    decide
  · intro f hf
    have : f.header = bs "if-match" := by
      simp only [dAll, vAll, ReqDesc.headerFields, List.filterMap, ReqField.asHeader, List.zip,
        List.zipWith, List.mem_cons, Prod.mk.injEq, reduceCtorEq, and_false, false_or,
        List.mem_nil_iff, or_false, and_true] at hf
      rw [hf]
    rw [this]
    decide

/-- The same kinds of values through an endpoint without a JSON body, computed: the message the
sender writes, what arrives after routing, what the receiver reads. -/
example :
    let d : ReqDesc := ⟨bs "POST", .accessTokenOptional,
      ⟨[bs "/_synthetic/unstable/raw/:name/upload"], [], none, none⟩,
      [⟨bs "name", .path Ty.str⟩, ⟨bs "q", .query Ty.qStr⟩, ⟨bs "mq", .query Ty.qVecStr⟩,
       ⟨bs "content_type", .header contentType false Ty.str⟩, ⟨bs "file", .rawBody⟩]⟩
    let v : ReqVal := { path := [bs "a%41/b ?"], query := [[bs "x&y=z"], [bs "", bs "1 2"]],
                        header := [some (bs "image/png")], raw := [[0, 255]] }
    let m : HttpRequest := ⟨bs "POST",
      bs "https://h/_synthetic/unstable/raw/a%2541%2Fb%20%3F/upload?q=x%26y%3Dz&mq=&mq=1+2",
      [(contentType, bs "image/png"), (authorization, bs "Bearer tok")], [0, 255]⟩
    tryIntoHttpRequest refForm noJson anyUri d v (bs "https://h/") (.ifRequired (bs "tok")) [3] = .ok m
    ∧ deliver (bs "https://h/") (bs "/_synthetic/unstable/raw/:name/upload") m
        = some ⟨bs "POST", bs "q=x%26y%3Dz&mq=&mq=1+2", m.headers, [0, 255], [bs "a%41/b ?"]⟩
    ∧ (match tryFromHttpRequest refForm noJson d
          ⟨bs "POST", bs "q=x%26y%3Dz&mq=&mq=1+2", m.headers, [0, 255], [bs "a%41/b ?"]⟩ with
       | .ok v' => (v'.path, v'.query, v'.queryAll, v'.header, v'.raw, v'.body.length, v'.newtype.length)
                    == (v.path, v.query, v.queryAll, v.header, v.raw, 0, 0)
       | _ => false) = true := by
  refine ⟨by decide +kernel, by decide +kernel, by decide +kernel⟩

/-- A response description with every kind of field, and a value. -/
example :
    let d : RespDesc := ⟨201, none, [⟨bs "etag", .header (bs "etag") true Ty.str⟩, ⟨bs "s", .body Ty.bStr⟩,
      ⟨bs "loc", .header (bs "location") false Ty.str⟩, ⟨bs "o", .body Ty.bOptStr⟩]⟩
    let v : RespVal := { header := [none, some (bs "/x")], body := [some (.str (bs "s")), none] }
    d.macroAccepts = true ∧ d.supported = true ∧ d.status < 400 ∧ v.Canon d ∧ v.shapeOk d = true
    ∧ (d.headerFields.map (·.header)).Nodup := by
  refine ⟨by decide, by decide, by decide, ⟨⟨rfl, rfl, trivial⟩, ⟨rfl, rfl, trivial⟩⟩, by decide, by decide⟩

#print axioms query_roundtrip_all_bytes
#print axioms form_codec_lawful
#print axioms request_roundtrip_partial
#print axioms glue_no_panic
#print axioms method_rule
#print axioms empty_body_is_empty_object
#print axioms f17_witness
#print axioms f19_witness
#print axioms request_statement_false
#print axioms query_field_types_partial
#print axioms f18_witness
#print axioms response_roundtrip_partial
#print axioms response_error_path
#print axioms response_statement_false

end Ruma.Props.C16
