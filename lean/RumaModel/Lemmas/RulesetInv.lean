/-
  Helper lemmas for C13, part 2: shape of a successful insert (`insertRule_form`), invariants kept
  by every step (unique ids, `default` flag ⇔ leading dot, server-default rules stay in place,
  `.m.rule.master` stays first), operation sequences.
-/
import RumaModel.Lemmas.Ruleset
namespace Ruma.Ruleset
open Ruma.Spec.RulesetPlacement

/-! ### What a successful `insertRule` looks like -/

theorem insertRule_ok {k : Kind} {l l' : List Rule} {id : Str} {actions : Nat} {a b : Option Str}
    (h : insertRule k l id actions a b = .ok l') :
    isServerDefaultId id = false ∧ hasInvalidChar id = false ∧ anchorIsServerDefault a = false
      ∧ anchorIsServerDefault b = false ∧ place k l (newRule l id actions) a b = .ok l' := by
  unfold insertRule at h
  by_cases h1 : isServerDefaultId id = true
  · simp [h1] at h
  by_cases h2 : hasInvalidChar id = true
  · simp [h1, h2] at h
  by_cases h3 : (anchorIsServerDefault a || anchorIsServerDefault b) = true
  · simp [h1, h2, h3] at h
  simp only [h1, h2, h3, if_false, Bool.false_eq_true] at h
  simp only [Bool.or_eq_true, not_or, Bool.not_eq_true] at h3
  exact ⟨by simpa using h1, by simpa using h2, h3.1, h3.2, h⟩

theorem newRule_id (l : List Rule) (id : Str) (actions : Nat) : (newRule l id actions).id = id := rfl
theorem newRule_dflt (l : List Rule) (id : Str) (actions : Nat) : (newRule l id actions).dflt = false := rfl
theorem newRule_actions (l : List Rule) (id : Str) (actions : Nat) :
    (newRule l id actions).actions = actions := rfl

/-- Everything the placement theorems need about a successful insert, in one statement: the new
list is the rule put at an index `n` among the other rules, with `n` determined by the anchors. -/
theorem insertRule_form {k : Kind} {l l' : List Rule} {id : Str} {actions : Nat} {a b : Option Str}
    (hu : UniqueIds l) (h : insertRule k l id actions a b = .ok l') :
    ∃ n, n ≤ (others l id).length ∧ l' = (others l id).insertIdx n (newRule l id actions)
      ∧ (∀ x, a = some x → b = none → position (others l id) x = some (n - 1) ∧ 0 < n)
      ∧ (∀ y, b = some y → position (others l id) y = some n)
      ∧ (∀ x y, a = some x → b = some y → ∃ i, position (others l id) x = some i ∧ i < n)
      ∧ (a = none → b = none → position l id = none → n = min (defaultPosition k) l.length)
      ∧ (a = none → b = none → ∀ c, position l id = some c → n = c) :=
  place_ok_form hu (insertRule_ok h).2.2.2.2

theorem ids_replaceInPlace (r : Rule) (l : List Rule) : ids (replaceInPlace r l) = ids l := by
  unfold ids replaceInPlace
  rw [List.map_map]
  apply List.map_congr_left
  intro x _
  by_cases hx : x.id = r.id <;> simp [hx]

theorem others_replaceInPlace (r : Rule) (l : List Rule) :
    others (replaceInPlace r l) r.id = others l r.id := by
  unfold replaceInPlace
  induction l with
  | nil => rfl
  | cons x t ih =>
    by_cases hx : x.id = r.id
    · simp [others_cons, hx, ih]
    · simp [others_cons, hx, ih]

theorem others_others (l : List Rule) (id : Str) : others (others l id) id = others l id := by
  unfold others; simp [List.filter_filter]

theorem mem_others {l : List Rule} {id : Str} {x : Rule} (h : x ∈ others l id) : x ∈ l := by
  unfold others at h; exact (List.mem_filter.mp h).1

/-! ### Invariants are kept by every step -/

theorem spec_step_inv {s : State} (hu : Inv s) (op : Op) : Inv (Spec.RulesetPlacement.step s op).1 := by
  have set_inv : ∀ k l, UniqueIds l → Inv (s.set k l) := by
    intro k l hl k'
    by_cases hk : k' = k
    · subst hk; rw [State.get_set_same]; exact hl
    · rw [State.get_set_ne s l hk]; exact hu k'
  cases op with
  | insert k id actions a b =>
    simp only [Spec.RulesetPlacement.step]
    cases h : insertRule k (s.get k) id actions a b with
    | error e => exact hu
    | ok l' =>
      obtain ⟨n, hn, rfl, _⟩ := insertRule_form (hu k) h
      exact set_inv k _ (uniqueIds_insertIdx hn (not_mem_ids_others _ _) (uniqueIds_others _ (hu k)))
  | remove k id =>
    cases k with
    | custom => exact hu
    | known k =>
      simp only [Spec.RulesetPlacement.step]
      cases h : lookup (s.get k) id with
      | none => exact hu
      | some r =>
        by_cases hd : r.dflt = true
        · simp only [hd, if_true]; exact hu
        · simp only [hd, if_false, Bool.false_eq_true]
          exact set_inv k _ (uniqueIds_others _ (hu k))
  | setEnabled k id on =>
    cases k with
    | custom => exact hu
    | known k =>
      simp only [Spec.RulesetPlacement.step]
      cases h : lookup (s.get k) id with
      | none => exact hu
      | some r =>
        refine set_inv k _ ?_
        unfold UniqueIds; rw [ids_replaceInPlace]; exact hu k
  | setActions k id actions =>
    cases k with
    | custom => exact hu
    | known k =>
      simp only [Spec.RulesetPlacement.step]
      cases h : lookup (s.get k) id with
      | none => exact hu
      | some r =>
        refine set_inv k _ ?_
        unfold UniqueIds; rw [ids_replaceInPlace]; exact hu k
  | get k id => cases k <;> exact hu

theorem step_inv {s : State} (hu : Inv s) (op : Op) : Inv (step s op).1 := by
  rw [step_eq_spec hu]; exact spec_step_inv hu op

theorem mem_replaceInPlace {r x : Rule} {l : List Rule} (h : x ∈ replaceInPlace r l) :
    x = r ∧ (∃ y ∈ l, y.id = r.id) ∨ x ∈ l := by
  unfold replaceInPlace at h
  rw [List.mem_map] at h
  obtain ⟨y, hy, e⟩ := h
  by_cases hx : y.id = r.id
  · simp only [hx, if_true] at e; exact Or.inl ⟨e.symm, y, hy, hx⟩
  · simp only [hx, if_false] at e; exact Or.inr (e ▸ hy)

theorem step_defaultIffDot {s : State} (hu : Inv s) (hd : DefaultIffDot s) (op : Op) :
    DefaultIffDot (step s op).1 := by
  rw [step_eq_spec hu]
  have set_d : ∀ k l, (∀ r ∈ l, r.dflt = isServerDefaultId r.id) → DefaultIffDot (s.set k l) := by
    intro k l hl k'
    by_cases hk : k' = k
    · subst hk; rw [State.get_set_same]; exact hl
    · rw [State.get_set_ne s l hk]; exact hd k'
  cases op with
  | insert k id actions a b =>
    simp only [Spec.RulesetPlacement.step]
    cases h : insertRule k (s.get k) id actions a b with
    | error e => exact hd
    | ok l' =>
      obtain ⟨n, hn, rfl, _⟩ := insertRule_form (hu k) h
      refine set_d k _ ?_
      intro r hr
      rw [List.mem_insertIdx hn] at hr
      rcases hr with rfl | hr
      · rw [newRule_dflt, newRule_id, (insertRule_ok h).1]
      · exact hd k r (mem_others hr)
  | remove k id =>
    cases k with
    | custom => exact hd
    | known k =>
      simp only [Spec.RulesetPlacement.step]
      cases h : lookup (s.get k) id with
      | none => exact hd
      | some r =>
        by_cases hdf : r.dflt = true
        · simp only [hdf, if_true]; exact hd
        · simp only [hdf, if_false, Bool.false_eq_true]
          exact set_d k _ (fun x hx => hd k x (mem_others hx))
  | setEnabled k id on =>
    cases k with
    | custom => exact hd
    | known k =>
      simp only [Spec.RulesetPlacement.step]
      cases h : lookup (s.get k) id with
      | none => exact hd
      | some r =>
        refine set_d k _ ?_
        intro x hx
        rcases mem_replaceInPlace hx with ⟨rfl, _⟩ | hx
        · exact hd k r (lookup_mem h)
        · exact hd k x hx
  | setActions k id actions =>
    cases k with
    | custom => exact hd
    | known k =>
      simp only [Spec.RulesetPlacement.step]
      cases h : lookup (s.get k) id with
      | none => exact hd
      | some r =>
        refine set_d k _ ?_
        intro x hx
        rcases mem_replaceInPlace hx with ⟨rfl, _⟩ | hx
        · exact hd k r (lookup_mem h)
        · exact hd k x hx
  | get k id => cases k <;> exact hd

/-! ### Operation sequences -/

theorem exec_nil (s : State) : exec s [] = s := rfl

theorem exec_cons (s : State) (op : Op) (ops : List Op) :
    exec s (op :: ops) = exec (step s op).1 ops := by
  simp [exec, run]

theorem exec_append (s : State) (ops ops' : List Op) :
    exec s (ops ++ ops') = exec (exec s ops) ops' := by
  induction ops generalizing s with
  | nil => rfl
  | cons op t ih => simp [exec_cons, ih]

theorem exec_inv {s : State} (hu : Inv s) (ops : List Op) : Inv (exec s ops) := by
  induction ops generalizing s with
  | nil => exact hu
  | cons op t ih => rw [exec_cons]; exact ih (step_inv hu op)

theorem exec_defaultIffDot {s : State} (hu : Inv s) (hd : DefaultIffDot s) (ops : List Op) :
    DefaultIffDot (exec s ops) := by
  induction ops generalizing s with
  | nil => exact hd
  | cons op t ih => rw [exec_cons]; exact ih (step_inv hu op) (step_defaultIffDot hu hd op)

theorem inv_empty : Inv State.empty := by
  intro k; cases k <;> simp [State.get, State.empty, UniqueIds, ids]

theorem inv_serverDefault : Inv State.serverDefault := by
  intro k; cases k <;> (unfold UniqueIds; decide)

theorem defaultIffDot_empty : DefaultIffDot State.empty := by
  intro k r hr; cases k <;> simp [State.get, State.empty] at hr

theorem defaultIffDot_serverDefault : DefaultIffDot State.serverDefault := by
  intro k; cases k <;> decide


/-! ### The server-default rules stay: same rules, same order, master first -/

/-- Ids of the server-default rules of a list, in order. -/
def defaultIds (l : List Rule) : List Str := (l.filter (·.dflt)).map (·.id)

def masterId : Str := bs ".m.rule.master"

/-- The first override rule is the server-default rule `.m.rule.master`. -/
def HeadMaster (s : State) : Prop :=
  ∃ m t, s.override = m :: t ∧ m.id = masterId ∧ m.dflt = true

theorem defaultIds_insertIdx {rest : List Rule} {r : Rule} {n : Nat} (hr : r.dflt = false) :
    defaultIds (rest.insertIdx n r) = defaultIds rest := by
  unfold defaultIds
  induction rest generalizing n with
  | nil => cases n <;> simp [hr]
  | cons x t ih =>
    cases n with
    | zero => simp [hr]
    | succ n =>
      simp only [List.insertIdx_succ_cons, List.filter_cons]
      split <;> simp [ih]

theorem defaultIds_others {l : List Rule} {id : Str} (h : ∀ x ∈ l, x.id = id → x.dflt = false) :
    defaultIds (others l id) = defaultIds l := by
  unfold defaultIds
  induction l with
  | nil => rfl
  | cons x t ih =>
    have iht := ih (fun y hy => h y (List.mem_cons_of_mem _ hy))
    rw [others_cons]
    by_cases hx : x.id = id
    · simp [hx, iht, h x (List.mem_cons_self) hx]
    · simp only [hx, if_false, List.filter_cons]
      split <;> simp [iht]

theorem defaultIds_replaceInPlace {l : List Rule} {r : Rule}
    (h : ∀ x ∈ l, x.id = r.id → x.dflt = r.dflt) :
    defaultIds (replaceInPlace r l) = defaultIds l := by
  unfold defaultIds replaceInPlace
  induction l with
  | nil => rfl
  | cons x t ih =>
    have iht := ih (fun y hy => h y (List.mem_cons_of_mem _ hy))
    by_cases hx : x.id = r.id
    · have hd := h x (List.mem_cons_self) hx
      simp only [List.map_cons, hx, if_true, List.filter_cons]
      cases hrd : r.dflt <;> simp_all
    · simp only [List.map_cons, hx, if_false, List.filter_cons]
      split <;> simp [iht]

theorem spec_step_defaultIds {s : State} (hu : Inv s) (hd : DefaultIffDot s) (op : Op) (k' : Kind) :
    defaultIds ((Spec.RulesetPlacement.step s op).1.get k') = defaultIds (s.get k') := by
  have set_k : ∀ k l, defaultIds l = defaultIds (s.get k) →
      defaultIds ((s.set k l).get k') = defaultIds (s.get k') := by
    intro k l hl
    by_cases hk : k' = k
    · subst hk; rw [State.get_set_same]; exact hl
    · rw [State.get_set_ne s l hk]
  cases op with
  | insert k id actions a b =>
    simp only [Spec.RulesetPlacement.step]
    cases h : insertRule k (s.get k) id actions a b with
    | error e => rfl
    | ok l' =>
      obtain ⟨n, hn, rfl, _⟩ := insertRule_form (hu k) h
      refine set_k k _ ?_
      rw [defaultIds_insertIdx (newRule_dflt _ _ _), defaultIds_others]
      intro x hx hid
      rw [hd k x hx, hid, (insertRule_ok h).1]
  | remove k id =>
    cases k with
    | custom => rfl
    | known k =>
      simp only [Spec.RulesetPlacement.step]
      cases h : lookup (s.get k) id with
      | none => rfl
      | some r =>
        by_cases hdf : r.dflt = true
        · simp only [hdf, if_true]
        · simp only [hdf, if_false, Bool.false_eq_true]
          refine set_k k _ (defaultIds_others ?_)
          intro x hx hid
          have : r.dflt = isServerDefaultId id := by rw [hd k r (lookup_mem h), lookup_id h]
          rw [hd k x hx, hid, ← this]; simpa using hdf
  | setEnabled k id on =>
    cases k with
    | custom => rfl
    | known k =>
      simp only [Spec.RulesetPlacement.step]
      cases h : lookup (s.get k) id with
      | none => rfl
      | some r =>
        refine set_k k _ (defaultIds_replaceInPlace ?_)
        intro x hx hid
        show x.dflt = r.dflt
        rw [hd k x hx, hd k r (lookup_mem h)]; exact congrArg _ hid
  | setActions k id actions =>
    cases k with
    | custom => rfl
    | known k =>
      simp only [Spec.RulesetPlacement.step]
      cases h : lookup (s.get k) id with
      | none => rfl
      | some r =>
        refine set_k k _ (defaultIds_replaceInPlace ?_)
        intro x hx hid
        show x.dflt = r.dflt
        rw [hd k x hx, hd k r (lookup_mem h)]; exact congrArg _ hid
  | get k id => cases k <;> rfl

theorem exec_defaultIds {s : State} (hu : Inv s) (hd : DefaultIffDot s) (ops : List Op) (k : Kind) :
    defaultIds ((exec s ops).get k) = defaultIds (s.get k) := by
  induction ops generalizing s with
  | nil => rfl
  | cons op t ih =>
    rw [exec_cons, ih (step_inv hu op) (step_defaultIffDot hu hd op), step_eq_spec hu,
      spec_step_defaultIds hu hd]

theorem masterId_dotted : isServerDefaultId masterId = true := by decide

theorem spec_step_headMaster {s : State} (hu : Inv s) (hm : HeadMaster s) (op : Op) :
    HeadMaster (Spec.RulesetPlacement.step s op).1 := by
  obtain ⟨m, t, hs, hmid, hmd⟩ := hm
  have hget : s.get .override = m :: t := hs
  have set_other : ∀ k l, k ≠ Kind.override → HeadMaster (s.set k l) := by
    intro k l hk
    refine ⟨m, t, ?_, hmid, hmd⟩
    have := State.get_set_ne s l (k := k) (k' := .override) (fun e => hk e.symm)
    exact this.trans hget
  have set_ov : ∀ l, (∃ m' t', l = m' :: t' ∧ m'.id = masterId ∧ m'.dflt = true) →
      HeadMaster (s.set .override l) := by
    intro l ⟨m', t', hl, h1, h2⟩
    exact ⟨m', t', hl ▸ State.get_set_same s .override l, h1, h2⟩
  have hrepl : ∀ r id, lookup (m :: t) id = some r → ∀ r' : Rule, r'.id = r.id → r'.dflt = r.dflt →
      ∃ m' t', replaceInPlace r' (m :: t) = m' :: t' ∧ m'.id = masterId ∧ m'.dflt = true := by
    intro r id hl r' hid hdf
    simp only [replaceInPlace, List.map_cons]
    by_cases hx : m.id = r'.id
    · simp only [hx, if_true]
      have : r = m := by
        have hid2 : m.id = id := by rw [hx, hid]; exact lookup_id hl
        simp [lookup, hid2] at hl; exact hl.symm
      exact ⟨r', _, rfl, by rw [hid, this, hmid], by rw [hdf, this, hmd]⟩
    · simp only [hx, if_false]
      exact ⟨m, _, rfl, hmid, hmd⟩
  cases op with
  | insert k id actions a b =>
    simp only [Spec.RulesetPlacement.step]
    cases h : insertRule k (s.get k) id actions a b with
    | error e => exact ⟨m, t, hs, hmid, hmd⟩
    | ok l' =>
      by_cases hk : k = .override
      · subst hk
        obtain ⟨n, hn, rfl, hA, hB, _, hN, hC⟩ := insertRule_form (hu .override) h
        obtain ⟨hid, _, ha, hb, _⟩ := insertRule_ok h
        have hne : m.id ≠ id := by
          intro e; rw [← e, hmid, masterId_dotted] at hid; cases hid
        rw [hget] at hn hA hB hN hC ⊢
        have hoth : others (m :: t) id = m :: others t id := by simp [others_cons, hne]
        rw [hoth] at hn hA hB ⊢
        have hpos : 0 < n := by
          cases a with
          | some x =>
            cases b with
            | none => exact (hA x rfl rfl).2
            | some y =>
              have := hB y rfl
              have hy : m.id ≠ y := by
                intro e
                simp only [anchorIsServerDefault] at hb
                rw [← e, hmid, masterId_dotted] at hb; cases hb
              simp only [position, hy, if_false, Option.map_eq_some_iff] at this
              obtain ⟨j, _, e⟩ := this; omega
          | none =>
            cases b with
            | some y =>
              have := hB y rfl
              have hy : m.id ≠ y := by
                intro e
                simp only [anchorIsServerDefault] at hb
                rw [← e, hmid, masterId_dotted] at hb; cases hb
              simp only [position, hy, if_false, Option.map_eq_some_iff] at this
              obtain ⟨j, _, e⟩ := this; omega
            | none =>
              cases hp : position (m :: t) id with
              | none =>
                have := hN rfl rfl hp
                simp only [defaultPosition, List.length_cons] at this; omega
              | some c =>
                have := hC rfl rfl c hp
                simp only [position, hne, if_false, Option.map_eq_some_iff] at hp
                obtain ⟨j, _, e⟩ := hp; omega
        obtain ⟨n', rfl⟩ : ∃ n', n = n' + 1 := ⟨n - 1, by omega⟩
        exact set_ov _ ⟨m, _, List.insertIdx_succ_cons, hmid, hmd⟩
      · exact set_other k l' hk
  | remove k id =>
    cases k with
    | custom => exact ⟨m, t, hs, hmid, hmd⟩
    | known k =>
      simp only [Spec.RulesetPlacement.step]
      cases h : lookup (s.get k) id with
      | none => exact ⟨m, t, hs, hmid, hmd⟩
      | some r =>
        by_cases hdf : r.dflt = true
        · simp only [hdf, if_true]; exact ⟨m, t, hs, hmid, hmd⟩
        · simp only [hdf, if_false, Bool.false_eq_true]
          by_cases hk : k = .override
          · subst hk
            rw [hget] at h ⊢
            have hne : m.id ≠ id := by
              intro e
              simp [lookup, e] at h
              exact hdf (h ▸ hmd)
            exact set_ov _ ⟨m, others t id, by simp [others_cons, hne], hmid, hmd⟩
          · exact set_other k _ hk
  | setEnabled k id on =>
    cases k with
    | custom => exact ⟨m, t, hs, hmid, hmd⟩
    | known k =>
      simp only [Spec.RulesetPlacement.step]
      cases h : lookup (s.get k) id with
      | none => exact ⟨m, t, hs, hmid, hmd⟩
      | some r =>
        by_cases hk : k = .override
        · subst hk
          rw [hget] at h ⊢
          exact set_ov _ (hrepl r id h _ rfl rfl)
        · exact set_other k _ hk
  | setActions k id actions =>
    cases k with
    | custom => exact ⟨m, t, hs, hmid, hmd⟩
    | known k =>
      simp only [Spec.RulesetPlacement.step]
      cases h : lookup (s.get k) id with
      | none => exact ⟨m, t, hs, hmid, hmd⟩
      | some r =>
        by_cases hk : k = .override
        · subst hk
          rw [hget] at h ⊢
          exact set_ov _ (hrepl r id h _ rfl rfl)
        · exact set_other k _ hk
  | get k id => cases k <;> exact ⟨m, t, hs, hmid, hmd⟩

theorem exec_headMaster {s : State} (hu : Inv s) (hm : HeadMaster s) (ops : List Op) :
    HeadMaster (exec s ops) := by
  induction ops generalizing s with
  | nil => exact hm
  | cons op t ih =>
    rw [exec_cons]
    refine ih (step_inv hu op) ?_
    rw [step_eq_spec hu]; exact spec_step_headMaster hu hm op

theorem headMaster_serverDefault : HeadMaster State.serverDefault :=
  ⟨_, _, rfl, by decide, rfl⟩

end Ruma.Ruleset
