/-
  Helper lemmas for C16 (glue), part 4: the response round trip.
-/
import RumaModel.Lemmas.EndpointGlueRt
namespace Ruma.Glue
open Ruma Ruma.Endpoint

/-- Every field's wire form is the wire form of a value of the field's type. -/
structure RespVal.Canon (d : RespDesc) (v : RespVal) : Prop where
  header : HeaderCanon d.headerFields v.header
  body : match d.wholeBodyCodec with
    | some c => CanonAll [c] v.whole
    | none => CanonAll (d.bodyFields.map (·.2)) v.body

theorem respShapeOk_inv (d : RespDesc) (v : RespVal) (h : v.shapeOk d = true) :
    headerShapeOk d.headerFields v.header = true
    ∧ (match d.wholeBodyCodec with
       | some _ => v.whole.length = 1 ∧ v.body = []
       | none => v.whole = [] ∧ v.body.length = d.bodyFields.length)
    ∧ v.raw.length = d.rawFields.length := by
  unfold RespVal.shapeOk at h
  simp only [Bool.and_eq_true, beq_iff_eq] at h
  obtain ⟨⟨h1, h2⟩, h3⟩ := h
  refine ⟨h1, ?_, h3⟩
  cases hw : d.wholeBodyCodec with
  | some c => rw [hw] at h2; simpa using h2
  | none => rw [hw] at h2; simpa using h2

theorem respMacroAccepts_inv (d : RespDesc) (h : d.macroAccepts = true) :
    d.newtypeFields.length + d.rawFields.length ≤ 1
    ∧ (d.newtypeFields.length + d.rawFields.length = 1 → d.bodyFields = []) := by
  unfold RespDesc.macroAccepts at h
  simp only [Bool.and_eq_true, decide_eq_true_eq, Bool.not_eq_true', Bool.and_eq_false_imp,
    Bool.not_eq_false', List.isEmpty_iff] at h
  exact ⟨h.1.1.1, h.1.1.2⟩

theorem tryIntoResp_ok_inv (J : JsonCodec) (d : RespDesc) (v : RespVal) (r : HttpResponse)
    (henc : tryIntoHttpResponse J d v = .ok r) :
    v.shapeOk d = true ∧ ∃ hs, putHeaderFields d.headerFields v.header [(contentType, applicationJson)] = .ok hs
      ∧ r.status = d.status ∧ r.headers = hs
      ∧ ((d.hasRawBody = true ∧ v.raw.head? = some r.body)
         ∨ (d.hasRawBody = false ∧ ∃ j, responseBodyJson d v = some j ∧ J.ser j = some r.body)) := by
  unfold tryIntoHttpResponse at henc
  by_cases hshape : v.shapeOk d = true
  · refine ⟨hshape, ?_⟩
    simp only [hshape, Bool.not_true, Bool.false_eq_true, if_false] at henc
    cases hp : putHeaderFields d.headerFields v.header [(contentType, applicationJson)] with
    | error e => rw [hp] at henc; cases henc
    | ok hs =>
      rw [hp] at henc
      simp only at henc
      refine ⟨hs, rfl, ?_⟩
      by_cases hraw : d.hasRawBody = true
      · simp only [hraw, if_true] at henc
        cases hv : v.raw.head? with
        | none => rw [hv] at henc; cases henc
        | some x =>
          rw [hv] at henc
          simp only [Outcome.ok.injEq] at henc
          subst henc
          exact ⟨rfl, rfl, Or.inl ⟨hraw, rfl⟩⟩
      · simp only [hraw, Bool.false_eq_true, if_false] at henc
        cases hj : responseBodyJson d v with
        | none => rw [hj] at henc; cases henc
        | some j =>
          rw [hj] at henc
          simp only at henc
          cases hser : J.ser j with
          | none => rw [hser] at henc; cases henc
          | some b =>
            rw [hser] at henc
            simp only [Outcome.ok.injEq] at henc
            subst henc
            exact ⟨rfl, rfl, Or.inr ⟨by simpa using hraw, j, rfl, hser⟩⟩
  · simp only [hshape, Bool.not_false, if_true] at henc
    cases henc

/-! ### Headers: `remove` in declaration order -/

theorem decodeRespHeaders_all : ∀ (fs : List HeaderField) (vs : List (Option Str)) (hs : Headers),
    fs.length = vs.length → (fs.map (·.header)).Nodup →
    (∀ f v, (f, v) ∈ fs.zip vs → readRespHeader (hGet hs f.header) f = some v) →
    decodeRespHeaders hs fs = some vs
  | [], [], _, _, _, _ => rfl
  | [], _ :: _, _, h, _, _ => by simp at h
  | _ :: _, [], _, h, _, _ => by simp at h
  | f :: fs, v :: vs, hs, hl, hnd, h => by
    have h1 := h f v (by simp)
    have hf : f.header ∉ fs.map (·.header) := (List.nodup_cons.1 hnd).1
    have h2 := decodeRespHeaders_all fs vs (hRemove hs f.header) (by simpa using hl)
      (List.nodup_cons.1 hnd).2
      (by
        intro g w hg
        have hmem : g.header ∈ fs.map (·.header) := List.mem_map.2 ⟨g, (List.of_mem_zip hg).1, rfl⟩
        have hne : f.header ≠ g.header := fun e => hf (e ▸ hmem)
        unfold hRemove
        rw [hGet_filter_ne hs f.header g.header hne]
        exact h g w (by simp only [List.zip_cons_cons]; exact List.mem_cons_of_mem _ hg))
    simp only [decodeRespHeaders, h1, h2, Option.map_some]

theorem rt_resp_headers (d : RespDesc) (v : RespVal) (hs : Headers)
    (hnd : (d.headerFields.map (·.header)).Nodup)
    (hshape : headerShapeOk d.headerFields v.header = true)
    (hcanon : HeaderCanon d.headerFields v.header)
    (hvis : ∀ s, some s ∈ v.header → headerToStrOk s = true)
    (himp : ∀ f, (f, none) ∈ d.headerFields.zip v.header → f.header ≠ contentType)
    (h : putHeaderFields d.headerFields v.header [(contentType, applicationJson)] = .ok hs) :
    decodeRespHeaders hs d.headerFields = some v.header := by
  apply decodeRespHeaders_all _ _ hs (headerShapeOk_len _ _ hshape) hnd
  intro f w hm
  have hget := hGet_putHeaderFields _ _ _ hs f.header h
  rw [lookupPut_own _ _ f w hnd hm] at hget
  unfold readRespHeader
  cases w with
  | some s =>
    simp only [Option.orElse_some] at hget
    rw [hget]
    have hv : headerToStrOk s = true := hvis s (List.of_mem_zip hm).2
    have hc := headerCanon_mem _ _ hcanon f s hm
    simp only [hv, if_true, hc, Option.map_some]
    split <;> rfl
  | none =>
    have hne : contentType ≠ f.header := fun e => himp f hm e.symm
    simp only [Option.orElse_none, hGet, hne, if_false] at hget
    rw [hget]
    simp [headerShapeOk_mem _ _ hshape f hm]

/-! ### The response round trip -/

theorem response_roundtrip' (J : JsonCodec) (hJ : J.Lawful) (d : RespDesc) (v : RespVal) (r : HttpResponse)
    (hmacro : d.macroAccepts = true) (hsup : d.supported = true) (hstatus : d.status < 400)
    (hhn : (d.headerFields.map (·.header)).Nodup)
    (hcanon : v.Canon d)
    (hvis : ∀ s, some s ∈ v.header → headerToStrOk s = true)
    (himp : ∀ f, (f, none) ∈ d.headerFields.zip v.header → f.header ≠ contentType)
    (henc : tryIntoHttpResponse J d v = .ok r) : tryFromHttpResponse J d r = .ok v := by
  obtain ⟨hshape, hs, hput, hst, hhs, hbody⟩ := tryIntoResp_ok_inv J d v r henc
  obtain ⟨hl1, hl2, hl3⟩ := respShapeOk_inv d v hshape
  obtain ⟨hm1, hm2⟩ := respMacroAccepts_inv d hmacro
  have hsup' : (d.fields.map (·.name)).Nodup ∧ (d.manualBody = none ∨ d.bodyFields ≠ []) := by
    unfold RespDesc.supported at hsup
    simp only [Bool.and_eq_true, decide_eq_true_eq, Bool.or_eq_true, Option.isNone_iff_eq_none,
      Bool.not_eq_true', List.isEmpty_eq_false_iff] at hsup
    exact hsup
  obtain ⟨hnames, hman⟩ := hsup'
  have hheaders := rt_resp_headers d v hs hhn hl1 hcanon.header hvis himp hput
  unfold tryFromHttpResponse
  rw [hst, if_pos hstatus, hhs, hheaders]
  have hc := hcanon.body
  rcases hbody with ⟨hraw, hrawv⟩ | ⟨hraw, j, hj, hser⟩
  · -- raw body: no JSON body field, no whole-body codec
    have hrl : d.rawFields.length = 1 ∧ d.newtypeFields.length = 0 := by
      unfold RespDesc.hasRawBody at hraw
      cases hr : d.rawFields with
      | nil => rw [hr] at hraw; simp at hraw
      | cons a l => rw [hr] at hm1; simp only [List.length_cons] at hm1 ⊢; omega
    have hbf : d.bodyFields = [] := hm2 (by omega)
    have hnf : d.newtypeFields = [] := List.length_eq_zero_iff.1 hrl.2
    have hmb : d.manualBody = none := by
      rcases hman with h | h
      · exact h
      · exact absurd hbf h
    have hw : d.wholeBodyCodec = none := by
      unfold RespDesc.wholeBodyCodec; rw [hnf]; exact hmb
    rw [hw] at hl2
    have hnb : d.hasBodyFields = false := by
      unfold RespDesc.hasBodyFields; simp [hbf, hnf]
    unfold decodeRespBody
    simp only [hnb, Bool.false_eq_true, if_false, hraw, if_true]
    have hvb : v.body = [] := List.length_eq_zero_iff.1 (by rw [hl2.2, hbf]; rfl)
    cases hv : v.raw with
    | nil => rw [hv] at hrawv; cases hrawv
    | cons x tl =>
      rw [hv] at hrawv hl3
      simp only [List.head?_cons, Option.some.injEq] at hrawv
      have htl : tl = [] := List.length_eq_zero_iff.1 (by simp only [List.length_cons] at hl3; omega)
      subst htl
      subst hrawv
      cases v
      simp_all
  · have hvr : v.raw = [] := by
      have : d.rawFields = [] := by
        unfold RespDesc.hasRawBody at hraw; simpa using hraw
      exact List.length_eq_zero_iff.1 (by rw [hl3, this]; rfl)
    have hne := hJ.ser_ne j r.body hser
    have hparse := hJ.law j r.body hser
    unfold responseBodyJson at hj
    unfold decodeRespBody bodyOrEmptyObject
    simp only [hraw, Bool.false_eq_true, if_false, hne, hparse]
    cases hw : d.wholeBodyCodec with
    | some c =>
      rw [hw] at hl2 hj hc
      simp only at hj hc ⊢
      cases hv : v.whole with
      | nil => rw [hv] at hj; cases hj
      | cons x tl =>
        rw [hv] at hj hl2 hc
        simp only [List.head?_cons, Option.some.injEq] at hj
        subst hj
        have htl : tl = [] :=
          List.length_eq_zero_iff.1 (by have := hl2.1; simp only [List.length_cons] at this; omega)
        subst htl
        have hbf : d.hasBodyFields = true := by
          unfold RespDesc.hasBodyFields
          unfold RespDesc.wholeBodyCodec at hw
          cases hnf : d.newtypeFields with
          | cons a l => simp
          | nil =>
            rw [hnf] at hw
            simp only at hw
            rcases hman with h | h
            · rw [h] at hw; cases hw
            · simp [h]
        simp only [hbf, if_true, show c.norm x = some x from hc.1]
        cases v
        simp_all
    | none =>
      rw [hw] at hl2 hj hc
      simp only [Option.some.injEq] at hj hc
      subst hj
      have hnf : d.newtypeFields = [] := by
        unfold RespDesc.wholeBodyCodec at hw
        cases hnf : d.newtypeFields with
        | nil => rfl
        | cons a l => rw [hnf] at hw; cases hw
      by_cases hbf : d.hasBodyFields = true
      · have hnd : (d.bodyFields.map (·.1)).Nodup :=
          nodup_filterMap_names (fun f : RespField => f.name) RespField.asBody
            (by
              intro a p hp
              unfold RespField.asBody at hp
              split at hp
              · cases hp; rfl
              · cases hp) d.fields hnames
        have := fieldsFromObj_entries d.bodyFields v.body [] hnd (by simp) hc
        simp only [List.nil_append] at this
        simp only [hbf, if_true, this]
        cases v
        simp_all
      · simp only [hbf, Bool.false_eq_true, if_false]
        have hbf0 : d.bodyFields = [] := by
          unfold RespDesc.hasBodyFields at hbf
          simp only [Bool.or_eq_true, Bool.not_eq_true', List.isEmpty_eq_false_iff, not_or,
            Decidable.not_not] at hbf
          exact hbf.1
        have hvb : v.body = [] := List.length_eq_zero_iff.1 (by rw [hl2.2, hbf0]; rfl)
        cases v
        simp_all

end Ruma.Glue
