/-
  C20 — what `settingOk` provides, and `authCheckR` computed along each path of `auth_check` under
  that setting, with the levels the helper holds substituted for the levels the rules read.
-/
import RumaModel.Lemmas.PowerLevels
namespace Ruma.PowerLevels
open Ruma Ruma.Auth Ruma.Ident

/-- What `settingOk` provides. -/
theorem settingOk_inv {rules : AuthRules} {f : Fetch} {ev : Event} (h : settingOk rules f ev = true) :
    ∃ create creator pl p fed,
      f tCreate [] = some create ∧
      ev.authEvents.contains create.eventId = true ∧
      createFederate create.content = .ok fed ∧
      (fed || userServer create.sender == userServer ev.sender) = true ∧
      createCreator rules create = .ok creator ∧
      userMembership f ev.sender = .ok mJoin ∧
      fetchPowerLevels f = some pl ∧
      roomLevels f = some p ∧
      authWF rules pl.content = true ∧
      ofContent pl.content = some p ∧
      Agree rules pl p := by
  simp only [settingOk, Bool.and_eq_true] at h
  obtain ⟨⟨hc, hj⟩, hpl⟩ := h
  unfold createOk at hc
  cases hcr : f tCreate [] with
  | none => simp [hcr] at hc
  | some create =>
    simp only [hcr, Bool.and_eq_true] at hc
    obtain ⟨⟨hcit, hfed⟩, hcreator⟩ := hc
    obtain ⟨creator, hcreator⟩ := okB_iff.mp hcreator
    cases hf : createFederate create.content with
    | error e => simp [hf] at hfed
    | ok fed =>
      simp only [hf] at hfed
      unfold senderJoined at hj
      cases hm : userMembership f ev.sender with
      | error e => simp [hm] at hj
      | ok m =>
        simp only [hm, beq_iff_eq] at hj
        subst hj
        unfold plContent at hpl
        cases hp : fetchPowerLevels f with
        | none => simp [hp] at hpl
        | some pl =>
          simp only [hp, Option.map_some, Bool.and_eq_true, Option.isSome_iff_exists] at hpl
          obtain ⟨⟨p, hp'⟩, hwf⟩ := hpl
          refine ⟨create, creator, pl, p, fed, rfl, hcit, hf, hfed, hcreator, rfl, rfl, ?_, hwf, hp',
            agree_of_wf hwf hp'⟩
          simp [roomLevels, plContent, hp, hp']

/-- Under the setting, an `m.room.member` event is decided by `check_room_member`. -/
theorem authCheckR_member_eq {rules : AuthRules} {f : Fetch} {ev create : Event} {fed : Bool}
    (hty : ev.type = tMember)
    (hc : f tCreate [] = some create)
    (hcit : ev.authEvents.contains create.eventId = true)
    (hf : createFederate create.content = .ok fed)
    (hfed : (fed || userServer create.sender == userServer ev.sender) = true) :
    authCheckR rules ev f = checkRoomMember rules ev create f := by
  have e1 : (tMember == tCreate) = false := by decide
  have e2 : (tMember == tAliases) = false := by decide
  have hfc : fetchCreate f = .ok create := fetchCreate_eq_ok.mpr hc
  have hmem : create.eventId ∈ ev.authEvents := by simpa using hcit
  simp [authCheckR, hty, e1, e2, hfc, hmem, hf, hfed, bind, Except.bind, require]

/-- Under the setting, an event that is neither `m.room.create` nor `m.room.member` nor a
special-cased `m.room.aliases`: with the levels the helper holds. -/
theorem authCheckR_general_eq {rules : AuthRules} {f : Fetch} {ev create pl : Event} {fed : Bool}
    {creator : Str} {p : Levels}
    (h1 : ev.type ≠ tCreate) (h2 : ev.type ≠ tMember)
    (h3 : (rules.specialCaseRoomAliases && ev.type == tAliases) = false)
    (hc : f tCreate [] = some create)
    (hcit : ev.authEvents.contains create.eventId = true)
    (hf : createFederate create.content = .ok fed)
    (hfed : (fed || userServer create.sender == userServer ev.sender) = true)
    (hcreator : createCreator rules create = .ok creator)
    (hj : userMembership f ev.sender = .ok mJoin)
    (hpl : fetchPowerLevels f = some pl)
    (ha : Agree rules pl p) :
    authCheckR rules ev f =
      if ev.type == tThirdPartyInvite then require (decide (p.forUser ev.sender ≥ p.invite))
      else
        (require (decide (p.forUser ev.sender ≥
            (if ev.stateKey.isSome then p.forState ev.type else p.forMessage ev.type))) >>= fun _ =>
         require (!foreignUserStateKey ev) >>= fun _ =>
         if ev.type == tPowerLevels then checkRoomPowerLevels rules ev (some pl) (p.forUser ev.sender)
         else if rules.specialCaseRoomRedaction && ev.type == tRedaction then
           checkRoomRedaction rules ev (some pl) (p.forUser ev.sender)
         else .ok ()) := by
  have e1 : (ev.type == tCreate) = false := by simpa using h1
  have e2 : (ev.type == tMember) = false := by simpa using h2
  have hfc : fetchCreate f = .ok create := fetchCreate_eq_ok.mpr hc
  have hmem : create.eventId ∈ ev.authEvents := by simpa using hcit
  have hreq : plEventLevel rules (some pl) ev.type ev.stateKey.isSome =
      .ok (if ev.stateKey.isSome then p.forState ev.type else p.forMessage ev.type) := by
    cases ev.stateKey.isSome
    · simpa using ha.message ev.type
    · simpa using ha.state ev.type
  simp only [authCheckR, e1, h3, e2, hfc, hmem, hf, hfed, hj, hcreator, hpl, ha.user, ha.invite, hreq,
    bind, Except.bind, require, Bool.false_eq_true, if_false, if_true, List.contains_eq_mem,
    decide_true, beq_self_eq_true]

/-! ## `Except` plumbing and the paths of `auth_check` under the setting -/

theorem ok_bind {α β} (a : α) (g : α → Res β) : (Except.ok a >>= g) = g a := rfl
theorem error_bind {α β} (e : Unit) (g : α → Res β) : ((Except.error e : Res α) >>= g) = .error e := rfl
theorem require_true : require true = .ok () := rfl
theorem require_false : require false = .error () := rfl

theorem require_bind_require (a b : Bool) : (require a >>= fun _ => require b) = require (a && b) := by
  cases a <;> cases b <;> rfl

theorem require_bind_ok (a : Bool) : (require a >>= fun _ => (Except.ok () : Res Unit)) = require a := by
  cases a <;> rfl

theorem authCheck_eq_of_require {rules : AuthRules} {ev : Event} {f : Fetch} {c : Bool}
    (h : authCheckR rules ev f = require c) : authCheck rules ev f = c := by
  unfold authCheck
  rw [h]
  cases c <;> rfl

theorem memberTarget_inv {ev : Event} {m t : Str} (h : memberTarget ev m = some t) :
    ev.type = tMember ∧ ev.stateKey = some t ∧ validUserId t = true ∧ contentMembership ev.content = .ok m := by
  unfold memberTarget at h
  by_cases hty : (ev.type == tMember) = true
  · simp only [hty, if_true] at h
    cases hsk : ev.stateKey with
    | none => simp [hsk] at h
    | some t' =>
      cases hm : contentMembership ev.content with
      | error e => simp [hsk, hm] at h
      | ok m' =>
        simp only [hsk, hm] at h
        by_cases hv : (validUserId t' && m' == m) = true
        · simp only [hv, if_true, Option.some.injEq] at h
          subst h
          simp only [Bool.and_eq_true, beq_iff_eq] at hv
          exact ⟨by simpa using hty, rfl, hv.1, by rw [hv.2]⟩
        · simp [hv] at h
  · simp [hty] at h

theorem membershipOf_inv {f : Fetch} {u m : Str} (h : membershipOf f u = some m) :
    userMembership f u = .ok m := by
  unfold membershipOf at h
  cases hm : userMembership f u with
  | error e => simp [hm] at h
  | ok m' => simp [hm] at h; rw [h]

/-- `check_room_member` on a ban, under the setting. -/
theorem member_ban_eq {rules : AuthRules} {f : Fetch} {ev : Event} {p : Levels} {target : Str}
    (hs : settingOk rules f ev = true) (hp : roomLevels f = some p)
    (ht : memberTarget ev mBan = some target) :
    authCheckR rules ev f = require (p.userCanBanUser ev.sender target) := by
  obtain ⟨create, creator, pl, p', fed, hc, hcit, hf, hfed, hcreator, hj, hpl, hp', hwf, hof, ha⟩ :=
    settingOk_inv hs
  rw [hp] at hp'; cases hp'
  obtain ⟨hty, hsk, hv, hm⟩ := memberTarget_inv ht
  rw [authCheckR_member_eq hty hc hcit hf hfed, checkRoomMember_eq hsk hm]
  have e1 : (mBan == mJoin) = false := by decide
  have e2 : (mBan == mInvite) = false := by decide
  have e3 : (mBan == mLeave) = false := by decide
  simp only [hv, require_true, ok_bind, e1, e2, e3, Bool.false_eq_true, if_false, beq_self_eq_true, if_true,
    checkMemberBan, hj, hcreator, hpl, ha.user, ha.ban, Levels.userCanBanUser]

/-- `check_room_member` on a `leave` of another user, under the setting. -/
theorem member_leave_eq {rules : AuthRules} {f : Fetch} {ev : Event} {p : Levels} {target tm : Str}
    (hs : settingOk rules f ev = true) (hp : roomLevels f = some p)
    (ht : memberTarget ev mLeave = some target) (hne : target ≠ ev.sender)
    (htm : membershipOf f target = some tm) :
    authCheckR rules ev f =
      require (!(tm == mBan && decide (p.forUser ev.sender < p.ban)) &&
        (decide (p.forUser ev.sender ≥ p.kick) && decide (p.forUser target < p.forUser ev.sender))) := by
  obtain ⟨create, creator, pl, p', fed, hc, hcit, hf, hfed, hcreator, hj, hpl, hp', hwf, hof, ha⟩ :=
    settingOk_inv hs
  rw [hp] at hp'; cases hp'
  obtain ⟨hty, hsk, hv, hm⟩ := memberTarget_inv ht
  have htm' := membershipOf_inv htm
  rw [authCheckR_member_eq hty hc hcit hf hfed, checkRoomMember_eq hsk hm]
  have e1 : (mLeave == mJoin) = false := by decide
  have e2 : (mLeave == mInvite) = false := by decide
  have e3 : (ev.sender == target) = false := by simpa using fun h => hne h.symm
  simp only [hv, require_true, ok_bind, e1, e2, e3, Bool.false_eq_true, if_false, beq_self_eq_true, if_true,
    checkMemberLeave, hj, hcreator, hpl, ha.user, ha.ban, ha.kick, htm', require_bind_require, Bool.true_and]

/-- `check_room_member` on a plain invite, under the setting. -/
theorem member_invite_eq {rules : AuthRules} {f : Fetch} {ev : Event} {p : Levels} {target tm : Str}
    (hs : settingOk rules f ev = true) (hp : roomLevels f = some p)
    (ht : memberTarget ev mInvite = some target)
    (htpi : contentThirdPartyInvite ev.content = .ok none)
    (htm : membershipOf f target = some tm) :
    authCheckR rules ev f =
      require (!(tm == mJoin || tm == mBan) && decide (p.forUser ev.sender ≥ p.invite)) := by
  obtain ⟨create, creator, pl, p', fed, hc, hcit, hf, hfed, hcreator, hj, hpl, hp', hwf, hof, ha⟩ :=
    settingOk_inv hs
  rw [hp] at hp'; cases hp'
  obtain ⟨hty, hsk, hv, hm⟩ := memberTarget_inv ht
  have htm' := membershipOf_inv htm
  rw [authCheckR_member_eq hty hc hcit hf hfed, checkRoomMember_eq hsk hm]
  have e1 : (mInvite == mJoin) = false := by decide
  simp only [hv, require_true, ok_bind, e1, Bool.false_eq_true, if_false, beq_self_eq_true, if_true,
    checkMemberInvite, htpi, hj, hcreator, hpl, ha.user, ha.invite, htm', require_bind_require, Bool.true_and]

/-- Every event decided by the required-power rule (and what follows it), under the setting. -/
theorem general_eq {rules : AuthRules} {f : Fetch} {ev : Event} {p : Levels}
    (hs : settingOk rules f ev = true) (hp : roomLevels f = some p)
    (h1 : ev.type ≠ tCreate) (h2 : ev.type ≠ tMember)
    (h3 : (rules.specialCaseRoomAliases && ev.type == tAliases) = false) :
    ∃ pl, fetchPowerLevels f = some pl ∧ authWF rules pl.content = true ∧ ofContent pl.content = some p ∧
    authCheckR rules ev f =
      if ev.type == tThirdPartyInvite then require (decide (p.forUser ev.sender ≥ p.invite))
      else
        (require (decide (p.forUser ev.sender ≥
            (if ev.stateKey.isSome then p.forState ev.type else p.forMessage ev.type))) >>= fun _ =>
         require (!foreignUserStateKey ev) >>= fun _ =>
         if ev.type == tPowerLevels then checkRoomPowerLevels rules ev (some pl) (p.forUser ev.sender)
         else if rules.specialCaseRoomRedaction && ev.type == tRedaction then
           checkRoomRedaction rules ev (some pl) (p.forUser ev.sender)
         else .ok ()) := by
  obtain ⟨create, creator, pl, p', fed, hc, hcit, hf, hfed, hcreator, hj, hpl, hp', hwf, hof, ha⟩ :=
    settingOk_inv hs
  rw [hp] at hp'; cases hp'
  exact ⟨pl, hpl, hwf, hof, authCheckR_general_eq h1 h2 h3 hc hcit hf hfed hcreator hj hpl ha⟩

/-! ## The helper can deserialize whatever the rules can read -/

theorem intMapEntries_get_ok {rules : AuthRules} {keyOf : Str → Option Str} :
    ∀ {kvs : List (Str × JVal)} {m : PLMap}, intMapEntries rules keyOf kvs = .ok m →
      ∀ k v, Obj.get kvs k = some v → ∃ i, plInt rules v = .ok i := by
  intro kvs
  induction kvs with
  | nil => intro m _ k v h; simp [Obj.get] at h
  | cons kv t ih =>
    intro m h k v hg
    obtain ⟨k0, v0⟩ := kv
    simp only [intMapEntries] at h
    cases hk : keyOf k0 with
    | none => simp [hk] at h
    | some k' =>
      simp only [hk, bind_eq_ok] at h
      obtain ⟨i, hi, rest, hrest, -⟩ := h
      simp only [Obj.get] at hg
      by_cases hkk : k0 = k
      · simp only [hkk, if_true, Option.some.injEq] at hg
        subst hg
        exact ⟨i, hi⟩
      · simp only [hkk, if_false] at hg
        exact ih hrest k v hg

theorem intField_ok_of_getAsInt {rules : AuthRules} {c : Obj} (fld : PLField)
    (h : okB (getAsInt rules c fld) = true) : ∃ x, intField c fld.key (helperDefault fld) = .ok x := by
  obtain ⟨o, ho⟩ := okB_iff.mp h
  unfold getAsInt at ho
  unfold intField
  cases hg : Obj.get c fld.key with
  | none => exact ⟨_, rfl⟩
  | some v =>
    simp only [hg, exceptMap_eq_ok] at ho
    obtain ⟨i, hi, -⟩ := ho
    exact ⟨i, plInt_serde_of_ok hi⟩

theorem mapField_ok_of_getAsIntMap {rules : AuthRules} {c : Obj} {key : Str} {keyOf : Str → Option Str}
    {m : Option PLMap} (h : getAsIntMap rules c key keyOf = .ok m) : ∃ l, mapField c key keyOf = .ok l := by
  unfold getAsIntMap at h
  unfold mapField
  cases hg : Obj.get c key with
  | none => exact ⟨_, rfl⟩
  | some v =>
    cases v with
    | obj kvs =>
      simp only [hg, exceptMap_eq_ok] at h
      obtain ⟨l, hl, -⟩ := h
      exact ⟨l, intMapEntries_serde_of_ok hl⟩
    | _ => simp [hg] at h

/-- Whatever the rules of a version can read in full, the helper can deserialize. -/
theorem ofContent_isSome_of_authWF {rules : AuthRules} {c : Obj} (h : authWF rules c = true) :
    (ofContent c).isSome = true := by
  obtain ⟨hint, ⟨me, hme⟩, ⟨mu, hmu⟩, ⟨mn, hmn⟩⟩ := authWF_fields h
  obtain ⟨x1, h1⟩ := intField_ok_of_getAsInt .ban (hint _)
  obtain ⟨x2, h2⟩ := mapField_ok_of_getAsIntMap hme
  obtain ⟨x3, h3⟩ := intField_ok_of_getAsInt .eventsDefault (hint _)
  obtain ⟨x4, h4⟩ := intField_ok_of_getAsInt .invite (hint _)
  obtain ⟨x5, h5⟩ := intField_ok_of_getAsInt .kick (hint _)
  obtain ⟨x6, h6⟩ := intField_ok_of_getAsInt .redact (hint _)
  obtain ⟨x7, h7⟩ := intField_ok_of_getAsInt .stateDefault (hint _)
  obtain ⟨x8, h8⟩ := mapField_ok_of_getAsIntMap hmu
  obtain ⟨x9, h9⟩ := intField_ok_of_getAsInt .usersDefault (hint _)
  have h10 : ∃ x, notificationsField c = .ok x := by
    unfold plNotifications getAsIntMap at hmn
    unfold notificationsField
    cases hg : Obj.get c (bs "notifications") with
    | none => exact ⟨_, rfl⟩
    | some v =>
      cases v with
      | obj o =>
        simp only [hg, exceptMap_eq_ok] at hmn
        obtain ⟨l, hl, -⟩ := hmn
        simp only [intField]
        cases hr : Obj.get o (bs "room") with
        | none => exact ⟨_, rfl⟩
        | some w =>
          obtain ⟨i, hi⟩ := intMapEntries_get_ok hl _ _ hr
          exact ⟨i, plInt_serde_of_ok hi⟩
      | _ => simp [hg] at hmn
  obtain ⟨x10, h10⟩ := h10
  have : ofContentR c = .ok ⟨x1, x2, x3, x4, x5, x6, x7, x8, x9, x10⟩ := by
    simp only [ofContentR]
    change intField c PLField.ban.key (helperDefault .ban) = _ at h1
    change intField c PLField.eventsDefault.key (helperDefault .eventsDefault) = _ at h3
    change intField c PLField.invite.key (helperDefault .invite) = _ at h4
    change intField c PLField.kick.key (helperDefault .kick) = _ at h5
    change intField c PLField.redact.key (helperDefault .redact) = _ at h6
    change intField c PLField.stateDefault.key (helperDefault .stateDefault) = _ at h7
    change intField c PLField.usersDefault.key (helperDefault .usersDefault) = _ at h9
    simp only [PLField.key, helperDefault] at h1 h3 h4 h5 h6 h7 h9
    unfold plEvents at hme
    unfold plUsers at hmu
    simp only [h1, h2, h3, h4, h5, h6, h7, h8, h9, h10, ok_bind]
  simp [ofContent, this]

end Ruma.PowerLevels
