/-
  Helper lemmas for C01, part 6: every canonical in-memory value whose strings are valid UTF-8 is
  the in-memory form of a well-formed specification value (`CVal.toJVal` is onto those values), and
  `normalize` keeps strings valid.
-/
import RumaModel.Lemmas.CanonicalSpec
namespace Ruma.Canonical
open Ruma Ruma.Spec.CanonicalJson

/-- A byte string is valid UTF-8 (RFC 3629): the encoding of a sequence of Unicode scalar values.
This is the invariant of a Rust `String`. -/
def IsUtf8 (b : Str) : Prop := ∃ s : List Nat, (∀ c ∈ s, IsScalar c) ∧ b = utf8Encode s

mutual
/-- Every string and every object key in the value, at every depth, is valid UTF-8. -/
def StringsUtf8 : JVal → Prop
  | .null => True
  | .bool _ => True
  | .int _ => True
  | .float => True
  | .str s => IsUtf8 s
  | .arr xs => StringsUtf8L xs
  | .obj kvs => StringsUtf8O kvs
def StringsUtf8L : List JVal → Prop
  | [] => True
  | v :: t => StringsUtf8 v ∧ StringsUtf8L t
def StringsUtf8O : List (Str × JVal) → Prop
  | [] => True
  | (k, v) :: t => IsUtf8 k ∧ StringsUtf8 v ∧ StringsUtf8O t
end

theorem stringsUtf8O_iff (l : List (Str × JVal)) :
    StringsUtf8O l ↔ ∀ e ∈ l, IsUtf8 e.1 ∧ StringsUtf8 e.2 := by
  induction l with
  | nil => simp [StringsUtf8O]
  | cons e t ih =>
    obtain ⟨k, v⟩ := e
    simp only [StringsUtf8O, List.mem_cons, forall_eq_or_imp, ih, and_assoc]

mutual
theorem normalize_stringsUtf8 : ∀ (v c : JVal), normalize v = .ok c → StringsUtf8 v → StringsUtf8 c
  | .null, c, h, _ => by rw [normalize] at h; injection h with h; subst h; trivial
  | .bool _, c, h, _ => by rw [normalize] at h; injection h with h; subst h; trivial
  | .int i, c, h, _ => by
    rw [normalize] at h
    by_cases hi : intOk i = true
    · simp only [hi, if_true] at h; injection h with h; subst h; trivial
    · simp only [hi] at h; cases h
  | .float, c, h, _ => by rw [normalize] at h; cases h
  | .str s, c, h, hu => by rw [normalize] at h; injection h with h; subst h; exact hu
  | .arr xs, c, h, hu => by
    obtain ⟨ys, h1, h2⟩ := normalize_arr_ok.mp h
    subst h2
    exact normalizeL_stringsUtf8 xs ys h1 hu
  | .obj kvs, c, h, hu => by
    obtain ⟨l, h1, h2⟩ := normalize_obj_ok.mp h
    subst h2
    have hl := normalizeO_stringsUtf8 kvs l h1 hu
    show StringsUtf8O (Obj.ofList l)
    rw [stringsUtf8O_iff] at hl ⊢
    exact fun e he => hl e (mem_ofList he)
theorem normalizeL_stringsUtf8 : ∀ (xs ys : List JVal), normalizeL xs = .ok ys → StringsUtf8L xs → StringsUtf8L ys
  | [], ys, h, _ => by rw [normalizeL] at h; injection h with h; subst h; trivial
  | v :: t, ys, h, hu => by
    obtain ⟨v', t', hv, ht, he⟩ := normalizeL_cons_ok.mp h
    subst he
    exact ⟨normalize_stringsUtf8 v v' hv hu.1, normalizeL_stringsUtf8 t t' ht hu.2⟩
theorem normalizeO_stringsUtf8 : ∀ (kvs l : List (Str × JVal)), normalizeO kvs = .ok l → StringsUtf8O kvs → StringsUtf8O l
  | [], l, h, _ => by rw [normalizeO] at h; injection h with h; subst h; trivial
  | (k, v) :: t, l, h, hu => by
    obtain ⟨v', t', hv, ht, he⟩ := normalizeO_cons_ok.mp h
    subst he
    exact ⟨hu.1, normalize_stringsUtf8 v v' hv hu.2.1, normalizeO_stringsUtf8 t t' ht hu.2.2⟩
end

mutual
/-- `CVal.toJVal` reaches every canonical value with valid UTF-8 strings, from a well-formed
specification value. -/
theorem toJVal_surjective : ∀ (c : JVal), IsCanonical c → StringsUtf8 c → ∃ v : CVal, v.WF ∧ v.toJVal = c
  | .null, _, _ => ⟨.null, trivial, rfl⟩
  | .bool b, _, _ => ⟨.bool b, trivial, rfl⟩
  | .int i, h, _ => ⟨.int i, h, rfl⟩
  | .float, h, _ => absurd h (by simp [IsCanonical])
  | .str s, _, hu => by
    obtain ⟨cs, hs, he⟩ := hu
    exact ⟨.str cs, hs, by rw [CVal.toJVal, he]⟩
  | .arr xs, h, hu => by
    obtain ⟨vs, hw, he⟩ := toJValL_surjective xs h hu
    exact ⟨.arr vs, hw, by rw [CVal.toJVal, he]⟩
  | .obj kvs, h, hu => by
    obtain ⟨ws, hw, he⟩ := toJValO_surjective kvs h.2 hu
    refine ⟨.obj ws, ⟨?_, hw⟩, by rw [CVal.toJVal, he]⟩
    have hs : Obj.Sorted kvs := h.1
    unfold Obj.Sorted at hs
    rw [← he, toJValO_keys, List.pairwise_map] at hs
    exact List.Pairwise.imp (fun hab => (utf8Encode_lt_iff _ _).mp hab) hs
theorem toJValL_surjective : ∀ (xs : List JVal), IsCanonicalL xs → StringsUtf8L xs →
    ∃ vs : List CVal, CVal.WFL vs ∧ CVal.toJValL vs = xs
  | [], _, _ => ⟨[], trivial, rfl⟩
  | x :: t, h, hu => by
    obtain ⟨v, hv, ev⟩ := toJVal_surjective x h.1 hu.1
    obtain ⟨vs, hvs, evs⟩ := toJValL_surjective t h.2 hu.2
    exact ⟨v :: vs, ⟨hv, hvs⟩, by rw [CVal.toJValL, ev, evs]⟩
theorem toJValO_surjective : ∀ (kvs : List (Str × JVal)), IsCanonicalO kvs → StringsUtf8O kvs →
    ∃ ws : List (List Nat × CVal), CVal.WFO ws ∧ CVal.toJValO ws = kvs
  | [], _, _ => ⟨[], trivial, rfl⟩
  | (k, x) :: t, h, hu => by
    obtain ⟨ks, hks, ek⟩ := hu.1
    obtain ⟨v, hv, ev⟩ := toJVal_surjective x h.1 hu.2.1
    obtain ⟨ws, hws, ews⟩ := toJValO_surjective t h.2 hu.2.2
    exact ⟨(ks, v) :: ws, ⟨hks, hv, hws⟩, by rw [CVal.toJValO, ev, ews, ek]⟩
end

/-- The bytes of a canonical value with valid UTF-8 strings are canonical JSON in the
specification's sense. -/
theorem encode_isCanonicalJson (c : JVal) (h : IsCanonical c) (hu : StringsUtf8 c) :
    IsCanonicalJson (encode c) := by
  obtain ⟨v, hv, he⟩ := toJVal_surjective c h hu
  exact ⟨v, hv, by rw [← he]; exact encode_toJVal v⟩

end Ruma.Canonical
