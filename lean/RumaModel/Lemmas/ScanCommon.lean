/-
  C17 helper lemmas for the scanner primitives of `Model/ScanCommon.lean`.
-/
import RumaModel.Model.ScanCommon
import RumaModel.Lemmas.Ids
namespace Ruma.Scan
open Ruma

theorem bytesSlice_some {s : Str} {i j : Nat} (hij : i ≤ j) (hj : j ≤ s.length) :
    ∃ sl, bytesSlice s i j = some sl ∧ sl.length = j - i := by
  refine ⟨(s.take j).drop i, ?_, ?_⟩
  · simp [bytesSlice, hij, hj]
  · simp [List.length_drop, List.length_take, Nat.min_eq_left hj]

theorem bytesSlice_isSome_iff {s : Str} {i j : Nat} :
    (bytesSlice s i j).isSome = true ↔ (i ≤ j ∧ j ≤ s.length) := by
  unfold bytesSlice
  split <;> simp_all

/-- `findByte` finds an index inside the slice. -/
theorem findByte_lt {c : Nat} {s : Str} {k : Nat} (h : findByte c s = some k) : k < s.length := by
  obtain ⟨pre, post, rfl, _, rfl⟩ := Ids.find_eq_some h
  simp

theorem findByte_get {c : Nat} {s : Str} {k : Nat} (h : findByte c s = some k) : s[k]? = some c := by
  obtain ⟨pre, post, rfl, _, rfl⟩ := Ids.find_eq_some h
  simp

/-! ### `str` slices at ASCII bytes -/

theorem strTo_at {a : Str} {c : Nat} {b : Str} (hc : c < 128) :
    strTo (a ++ c :: b) a.length = some a := by
  simp [strTo, Ids.isBoundary_at a c b hc]

theorem strFrom_at {a : Str} {c : Nat} {b : Str} (hc : c < 128) :
    strFrom (a ++ c :: b) a.length = some (c :: b) := by
  simp [strFrom, Ids.isBoundary_at a c b hc]

theorem strFrom_after {a : Str} {c : Nat} {b : Str} (hs : Ids.Sep (a ++ c :: b)) (hc : c < 128) :
    strFrom (a ++ c :: b) (a.length + 1) = some b := by
  have hd : List.drop (a.length + 1) (a ++ c :: b) = b := by
    have : a ++ c :: b = (a ++ [c]) ++ b := by simp
    rw [this]; exact List.drop_left' (by simp)
  simp [strFrom, Ids.isBoundary_after hs hc, hd]

theorem strFrom_zero (s : Str) : strFrom s 0 = some s := by
  simp [strFrom, Ids.isBoundary_zero]

/-! ### `findP` -/

theorem findP_eq_some {p : Nat → Bool} {s : Str} {i : Nat} (h : findP p s = some i) :
    ∃ pre c post, s = pre ++ c :: post ∧ (∀ b ∈ pre, p b = false) ∧ p c = true ∧ i = pre.length := by
  induction s generalizing i with
  | nil => simp [findP] at h
  | cons b t ih =>
    by_cases hb : p b = true
    · simp [findP, hb] at h
      exact ⟨[], b, t, by simp, by simp, hb, by simp [h]⟩
    · simp only [findP, hb, Bool.false_eq_true, if_false, Option.map_eq_some_iff] at h
      obtain ⟨j, hj, rfl⟩ := h
      obtain ⟨pre, c, post, rfl, hn, hc, rfl⟩ := ih hj
      refine ⟨b :: pre, c, post, by simp, ?_, hc, by simp⟩
      intro x hx
      rcases List.mem_cons.mp hx with rfl | hx
      · simpa using hb
      · exact hn x hx

theorem findP_eq_none {p : Nat → Bool} {s : Str} (h : findP p s = none) : ∀ b ∈ s, p b = false := by
  induction s with
  | nil => simp
  | cons b t ih =>
    by_cases hb : p b = true
    · simp [findP, hb] at h
    · simp only [findP, hb, Bool.false_eq_true, if_false, Option.map_eq_none_iff] at h
      intro x hx
      rcases List.mem_cons.mp hx with rfl | hx
      · simpa using hb
      · exact ih h x hx

/-! ### `rfindByte` -/

theorem rfindByte_eq_some {c : Nat} {s : Str} {i : Nat} (h : rfindByte c s = some i) :
    ∃ pre post, s = pre ++ c :: post ∧ c ∉ post ∧ i = pre.length := by
  induction s generalizing i with
  | nil => simp [rfindByte] at h
  | cons b t ih =>
    simp only [rfindByte] at h
    cases hr : rfindByte c t with
    | some j =>
      rw [hr] at h
      simp only [Option.some.injEq] at h
      obtain ⟨pre, post, rfl, hn, rfl⟩ := ih hr
      exact ⟨b :: pre, post, by simp, hn, by simp [← h]⟩
    | none =>
      rw [hr] at h
      by_cases hb : b = c
      · simp [hb] at h
        have hnone : c ∉ t := by
          clear ih h
          induction t with
          | nil => simp
          | cons d t' ih' =>
            simp only [rfindByte] at hr
            cases hr' : rfindByte c t' with
            | some j => rw [hr'] at hr; simp at hr
            | none =>
              rw [hr'] at hr
              by_cases hd : d = c
              · simp [hd] at hr
              · simp only [List.mem_cons, not_or]
                exact ⟨fun e => hd e.symm, ih' hr'⟩
        exact ⟨[], t, by simp [hb], hnone, by simp [← h]⟩
      · simp [hb] at h

/-! ### `findIter` -/

theorem isPrefixOf_length_le {a b : Str} (h : a.isPrefixOf b = true) : a.length ≤ b.length :=
  (List.isPrefixOf_iff_prefix.mp h).length_le

/-- Every reported position is behind the bytes still covered by the previous match, the needle
occurs there completely, and consecutive positions do not overlap. -/
theorem findIterGo_spec (nd : Str) (hnd : nd ≠ []) :
    ∀ (hay : Str) (pos skip : Nat),
      (∀ p ∈ findIterGo nd hay pos skip,
        pos + skip ≤ p ∧ p + nd.length ≤ pos + hay.length ∧ nd.isPrefixOf (hay.drop (p - pos)) = true) ∧
      List.Pairwise (fun a b => a + nd.length ≤ b) (findIterGo nd hay pos skip) := by
  have hlen : 1 ≤ nd.length := by
    cases nd with
    | nil => exact absurd rfl hnd
    | cons _ _ => simp
  intro hay
  induction hay with
  | nil => intro pos skip; simp [findIterGo]
  | cons c t ih =>
    intro pos skip
    cases skip with
    | succ k =>
      simp only [findIterGo]
      obtain ⟨h1, h2⟩ := ih (pos + 1) k
      refine ⟨?_, h2⟩
      intro p hp
      obtain ⟨a, b, d⟩ := h1 p hp
      refine ⟨by omega, by simp only [List.length_cons]; omega, ?_⟩
      have : p - pos = (p - (pos + 1)) + 1 := by omega
      rw [this, List.drop_succ_cons]
      exact d
    | zero =>
      simp only [findIterGo]
      split
      · rename_i hpre
        obtain ⟨h1, h2⟩ := ih (pos + 1) (nd.length - 1)
        refine ⟨?_, ?_⟩
        · intro p hp
          rcases List.mem_cons.mp hp with rfl | hp
          · refine ⟨by omega, ?_, by simpa using hpre⟩
            have := isPrefixOf_length_le hpre
            omega
          · obtain ⟨a, b, d⟩ := h1 p hp
            refine ⟨by omega, by simp only [List.length_cons]; omega, ?_⟩
            have : p - pos = (p - (pos + 1)) + 1 := by omega
            rw [this, List.drop_succ_cons]
            exact d
        · refine List.Pairwise.cons ?_ h2
          intro p hp
          have := (h1 p hp).1
          omega
      · obtain ⟨h1, h2⟩ := ih (pos + 1) 0
        refine ⟨?_, h2⟩
        intro p hp
        obtain ⟨a, b, d⟩ := h1 p hp
        refine ⟨by omega, by simp only [List.length_cons]; omega, ?_⟩
        have : p - pos = (p - (pos + 1)) + 1 := by omega
        rw [this, List.drop_succ_cons]
        exact d

theorem findIter_mem {nd hay : Str} (hnd : nd ≠ []) {p : Nat} (hp : p ∈ findIter nd hay) :
    p + nd.length ≤ hay.length ∧ nd.isPrefixOf (hay.drop p) = true := by
  have := (findIterGo_spec nd hnd hay 0 0).1 p hp
  simpa using this.2

theorem findIter_pairwise {nd hay : Str} (hnd : nd ≠ []) :
    List.Pairwise (fun a b => a + nd.length ≤ b) (findIter nd hay) :=
  (findIterGo_spec nd hnd hay 0 0).2

/-- The haystack byte at a reported position is the first byte of the needle. -/
theorem findIter_head {n : Nat} {nd hay : Str} {p : Nat} (hp : p ∈ findIter (n :: nd) hay) :
    hay[p]? = some n := by
  have h := (findIter_mem (by simp) hp).2
  obtain ⟨r, hr⟩ := List.isPrefixOf_iff_prefix.mp h
  have : (hay.drop p)[0]? = some n := by rw [← hr]; simp
  simpa using this

/-! ### `findSub` -/

theorem findSub_eq_some {p s : Str} {i : Nat} (h : findSub p s = some i) :
    ∃ a b, s = a ++ p ++ b ∧ i = a.length := by
  induction s generalizing i with
  | nil => simp [findSub] at h
  | cons c t ih =>
    simp only [findSub] at h
    split at h
    · rename_i hpre
      obtain ⟨r, hr⟩ := List.isPrefixOf_iff_prefix.mp hpre
      simp only [Option.some.injEq] at h
      exact ⟨[], r, by simp [hr], by simp [← h]⟩
    · simp only [Option.map_eq_some_iff] at h
      obtain ⟨j, hj, rfl⟩ := h
      obtain ⟨a, b, ht, rfl⟩ := ih hj
      exact ⟨c :: a, b, by simp [ht], by simp⟩

end Ruma.Scan
