/-
  Helper lemmas for C16, part 4: `make_endpoint_url` as a whole never panics.
-/
import RumaModel.Lemmas.Endpoint
import RumaModel.Lemmas.EndpointUrl
namespace Ruma.Endpoint
open Ruma.Spec.Endpoint

/-- Every path of a history: unstable ones, then stable ones. -/
def allPaths (h : VersionHistory) : List Str := h.unstable ++ h.stable.map (·.2)

theorem selectPath_mem (h : VersionHistory) (vs : List Version) (hinv : Inv h) (p : Str)
    (hp : selectPath h vs = .ok p) : p ∈ allPaths h := by
  obtain ⟨s, hs, hsel⟩ := selectPath_spec' h vs hinv
  rw [hp] at hs
  simp only [Out.toSelection?, Option.some.injEq] at hs
  subst hs
  unfold allPaths
  cases hsel with
  | stable a _ _ hm _ _ =>
    exact List.mem_append_right _ (List.mem_map.2 ⟨(a, p), hm, rfl⟩)
  | unstable _ _ _ hu =>
    exact List.mem_append_left _ (List.mem_of_getLast? hu)

theorem newOk_argNames (h : VersionHistory) (hn : newOk h = true) :
    ∃ r, refPath h = some r ∧ ∀ p ∈ allPaths h, pathArgNames p = pathArgNames r := by
  unfold newOk at hn
  cases hr : refPath h with
  | none => rw [hr] at hn; simp at hn
  | some r =>
    rw [hr] at hn
    simp only [Bool.and_eq_true] at hn
    obtain ⟨⟨⟨hpaths, _⟩, _⟩, _⟩ := hn
    unfold pathsOk at hpaths
    simp only [Bool.and_eq_true, List.all_eq_true, beq_iff_eq] at hpaths
    refine ⟨r, rfl, ?_⟩
    intro p hp
    unfold allPaths at hp
    rcases List.mem_append.1 hp with h1 | h2
    · exact ((hpaths.1 p h1).2).symm
    · obtain ⟨e, he, rfl⟩ := List.mem_map.1 h2
      exact ((hpaths.2 e he).2).symm

/-- No panic site of `make_endpoint_url` is reachable for a history `VersionHistory::new`
accepted whose paths all start with `/`, when at least as many arguments as the paths have
placeholders are supplied. -/
theorem makeEndpointUrl_no_panic' (h : VersionHistory) (vs : List Version) (base query : Str)
    (args : List Str) (hnew : newOk h = true)
    (hslash : ∀ p ∈ allPaths h, p.head? = some 47)
    (hlen : ∀ r, refPath h = some r → (pathArgNames r).length ≤ args.length) :
    makeEndpointUrl h vs base args query ≠ .panic := by
  have hinv := newOk_inv h hnew
  obtain ⟨r, hr, hnames⟩ := newOk_argNames h hnew
  unfold makeEndpointUrl
  cases hsel : selectPath h vs with
  | ok tmpl =>
    have hm := selectPath_mem h vs hinv tmpl hsel
    obtain ⟨p, hp⟩ := substPath_some tmpl args (hslash tmpl hm) (by rw [hnames tmpl hm]; exact hlen r hr)
    simp [hp]
  | errRemoved v => simp
  | errNoUnstable => simp
  | panic =>
    obtain ⟨s, hs, _⟩ := selectPath_spec' h vs hinv
    rw [hsel] at hs
    cases hs

end Ruma.Endpoint
