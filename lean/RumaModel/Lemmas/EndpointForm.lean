/-
  Helper lemmas for C16 (glue), part 1: the reference `application/x-www-form-urlencoded` codec of
  `Model/EndpointGlue.lean` reads back every list of pairs of arbitrary byte strings, the lossy
  UTF-8 decoder is the identity on well-formed UTF-8, hence the reference codec satisfies the law
  the `FormCodec` parameter states.
-/
import RumaModel.Model.EndpointGlue
import RumaModel.Lemmas.EndpointUrl
namespace Ruma.Glue
open Ruma Ruma.Endpoint
open Ruma.Spec.Endpoint (percentDecode isHexDigit hexVal)

/-! ### One byte string -/

theorem formUnchanged_facts (b : Nat) (h : formUnchanged b = true) :
    b ≠ 37 ∧ b ≠ 43 ∧ b ≠ 38 ∧ b ≠ 61 ∧ b ≠ 35 ∧ b ≠ 63 := by
  unfold formUnchanged at h
  simp only [Bool.or_eq_true, Bool.and_eq_true, decide_eq_true_eq] at h
  omega

theorem hexUpper_facts : ∀ n, n < 16 →
    hexUpper n ≠ 43 ∧ hexUpper n ≠ 38 ∧ hexUpper n ≠ 61 ∧ hexUpper n ≠ 35 ∧ hexUpper n ≠ 63 := by
  decide

/-- `+`-replacement and percent-decoding undo `byte_serialize`, for arbitrary bytes. -/
theorem formDecode_serialize : ∀ (s : Str), IsBytes s → formDecodeBytes (formByteSerialize s) = s
  | [], _ => rfl
  | b :: t, hs => by
    have hb : b < 256 := hs b (by simp)
    have ht : IsBytes t := fun x hx => hs x (List.mem_cons_of_mem _ hx)
    have ih := formDecode_serialize t ht
    unfold formDecodeBytes at ih ⊢
    unfold formByteSerialize
    by_cases h1 : formUnchanged b = true
    · obtain ⟨h37, h43, _⟩ := formUnchanged_facts b h1
      simp only [h1, if_true, replacePlus, List.map_cons, h43, if_false]
      rw [percentDecode_cons_ne _ _ h37]
      unfold replacePlus at ih
      rw [ih]
    · simp only [h1, Bool.false_eq_true, if_false]
      by_cases h2 : b = 32
      · subst h2
        simp only [if_true, replacePlus, List.map_cons]
        rw [percentDecode_cons_ne _ _ (by decide)]
        unfold replacePlus at ih
        rw [ih]
      · have hx := hexUpper_spec (b / 16) (by omega)
        have hy := hexUpper_spec (b % 16) (by omega)
        have fx := hexUpper_facts (b / 16) (by omega)
        have fy := hexUpper_facts (b % 16) (by omega)
        simp only [h2, if_false, replacePlus, List.map_cons, fx.1, fy.1]
        simp only [show ((37 : Nat) = 43) = False from by simp, if_false]
        rw [percentDecode_escape _ _ _ hx.1 hy.1, hx.2, hy.2]
        unfold replacePlus at ih
        rw [ih]
        congr 1
        omega

/-- The serialised form of a byte string contains none of `& = # ?`. -/
theorem formByteSerialize_clean : ∀ (s : Str), IsBytes s →
    ∀ b ∈ formByteSerialize s, b ≠ 38 ∧ b ≠ 61 ∧ b ≠ 35 ∧ b ≠ 63
  | [], _ => by simp [formByteSerialize]
  | c :: t, hs => by
    have hc : c < 256 := hs c (by simp)
    have ht : IsBytes t := fun x hx => hs x (List.mem_cons_of_mem _ hx)
    have ih := formByteSerialize_clean t ht
    intro b hb
    unfold formByteSerialize at hb
    by_cases h1 : formUnchanged c = true
    · simp only [h1, if_true, List.mem_cons] at hb
      rcases hb with rfl | hb
      · have := formUnchanged_facts b h1; omega
      · exact ih b hb
    · simp only [h1, Bool.false_eq_true, if_false] at hb
      by_cases h2 : c = 32
      · simp only [h2, if_true, List.mem_cons] at hb
        rcases hb with rfl | hb
        · omega
        · exact ih b hb
      · simp only [h2, if_false, List.mem_cons] at hb
        rcases hb with rfl | rfl | rfl | hb
        · omega
        · have := hexUpper_facts (c / 16) (by omega); omega
        · have := hexUpper_facts (c % 16) (by omega); omega
        · exact ih b hb

/-! ### One pair -/

theorem splitFirst_append (sep : Nat) : ∀ (p r : Str), sep ∉ p →
    splitFirst sep (p ++ sep :: r) = (p, some r)
  | [], r, _ => by simp [splitFirst]
  | b :: p, r, h => by
    have hb : b ≠ sep := fun e => h (by simp [e])
    have hp : sep ∉ p := fun e => h (List.mem_cons_of_mem _ e)
    simp only [List.cons_append, splitFirst, hb, if_false, splitFirst_append sep p r hp]

theorem splitFirst_none (sep : Nat) : ∀ (p : Str), sep ∉ p → splitFirst sep p = (p, none)
  | [], _ => rfl
  | b :: p, h => by
    have hb : b ≠ sep := fun e => h (by simp [e])
    have hp : sep ∉ p := fun e => h (List.mem_cons_of_mem _ e)
    simp only [splitFirst, hb, if_false, splitFirst_none sep p hp]

theorem formParsePair_formPair (p : Str × Str) (h1 : IsBytes p.1) (h2 : IsBytes p.2) :
    formParsePair (formPair p) = p := by
  have hno : (61 : Nat) ∉ formByteSerialize p.1 := fun h => (formByteSerialize_clean p.1 h1 61 h).2.1 rfl
  unfold formParsePair formPair
  rw [splitFirst_append 61 _ _ hno]
  simp only [formDecode_serialize p.1 h1, formDecode_serialize p.2 h2]

theorem formPair_noAmp (p : Str × Str) (h1 : IsBytes p.1) (h2 : IsBytes p.2) : 38 ∉ formPair p := by
  unfold formPair
  intro h
  rcases List.mem_append.1 h with h | h
  · exact (formByteSerialize_clean p.1 h1 38 h).1 rfl
  · rcases List.mem_cons.1 h with h | h
    · omega
    · exact (formByteSerialize_clean p.2 h2 38 h).1 rfl

theorem formPair_ne_nil (p : Str × Str) : formPair p ≠ [] := by
  unfold formPair
  intro h
  have : (61 : Nat) ∈ formByteSerialize p.1 ++ 61 :: formByteSerialize p.2 := by simp
  rw [h] at this
  cases this

/-! ### A list of pairs -/

theorem formSerialize_single (p : Str × Str) : formSerialize [p] = formPair p := by
  simp [formSerialize]

theorem formSerialize_cons2 (p q : Str × Str) (rest : List (Str × Str)) :
    formSerialize (p :: q :: rest) = formPair p ++ 38 :: formSerialize (q :: rest) := by
  rw [formSerialize]

theorem splitOn_formSerialize : ∀ (ps : List (Str × Str)), ps ≠ [] →
    (∀ p ∈ ps, IsBytes p.1 ∧ IsBytes p.2) → splitOn 38 (formSerialize ps) = ps.map formPair
  | [], h, _ => absurd rfl h
  | [p], _, hb => by
    have hp := hb p (by simp)
    have hno := formPair_noAmp p hp.1 hp.2
    have := splitAux_append 38 (formPair p) [] hno
    simp only [List.append_nil, splitAux] at this
    simp only [splitOn, formSerialize_single, this, List.map_cons, List.map_nil]
  | p :: q :: rest, _, hb => by
    have hp := hb p (by simp)
    have hno := formPair_noAmp p hp.1 hp.2
    have ih := splitOn_formSerialize (q :: rest) (by simp) (fun x hx => hb x (List.mem_cons_of_mem _ hx))
    unfold splitOn at ih ⊢
    rw [formSerialize_cons2, splitAux_append 38 _ _ hno, splitAux_cons_sep]
    simp only [List.append_nil, List.map_cons]
    rw [ih]
    simp

/-- **All bytes.** The byte-level parser reads back every list of pairs of arbitrary byte strings
from what the serializer wrote: names and values may contain `& = + % #`, spaces, controls,
non-UTF-8 bytes, may be empty; the list may be empty. -/
theorem formParseBytes_formSerialize (ps : List (Str × Str))
    (hb : ∀ p ∈ ps, IsBytes p.1 ∧ IsBytes p.2) : formParseBytes (formSerialize ps) = ps := by
  unfold formParseBytes
  cases ps with
  | nil => simp [formSerialize, splitOn, splitAux]
  | cons p rest =>
    rw [splitOn_formSerialize (p :: rest) (by simp) hb]
    have hf : ((p :: rest).map formPair).filter (fun seq => seq ≠ []) = (p :: rest).map formPair := by
      apply List.filter_eq_self.2
      intro x hx
      obtain ⟨y, _, rfl⟩ := List.mem_map.1 hx
      simpa using formPair_ne_nil y
    rw [hf, List.map_map]
    have : ∀ y ∈ (p :: rest), (formParsePair ∘ formPair) y = id y := by
      intro y hy
      exact formParsePair_formPair y (hb y hy).1 (hb y hy).2
    rw [List.map_congr_left this, List.map_id]

theorem formSerialize_clean (ps : List (Str × Str)) (hb : ∀ p ∈ ps, IsBytes p.1 ∧ IsBytes p.2) :
    ∀ b ∈ formSerialize ps, b ≠ 35 ∧ b ≠ 63 := by
  induction ps with
  | nil => simp [formSerialize]
  | cons p rest ih =>
    have hp := hb p (by simp)
    have hrest := ih (fun x hx => hb x (List.mem_cons_of_mem _ hx))
    have hpair : ∀ b ∈ formPair p, b ≠ 35 ∧ b ≠ 63 := by
      intro b hbm
      unfold formPair at hbm
      rcases List.mem_append.1 hbm with h | h
      · have := formByteSerialize_clean p.1 hp.1 b h; omega
      · rcases List.mem_cons.1 h with h | h
        · omega
        · have := formByteSerialize_clean p.2 hp.2 b h; omega
    intro b hbm
    cases rest with
    | nil => rw [formSerialize_single] at hbm; exact hpair b hbm
    | cons q rest' =>
      rw [formSerialize_cons2] at hbm
      rcases List.mem_append.1 hbm with h | h
      · exact hpair b h
      · rcases List.mem_cons.1 h with h | h
        · omega
        · exact hrest b h

theorem hexUpper_ne_hash (n : Nat) : hexUpper n ≠ 35 := by
  unfold hexUpper; split <;> omega

/-- No `#` is ever written, whatever the input. -/
theorem formByteSerialize_noHash : ∀ (s : Str), 35 ∉ formByteSerialize s
  | [] => by simp [formByteSerialize]
  | c :: t => by
    have ih := formByteSerialize_noHash t
    unfold formByteSerialize
    by_cases h1 : formUnchanged c = true
    · have := formUnchanged_facts c h1
      simp only [h1, if_true, List.mem_cons, not_or]
      exact ⟨by omega, ih⟩
    · simp only [h1, Bool.false_eq_true, if_false]
      by_cases h2 : c = 32
      · simp only [h2, if_true, List.mem_cons, not_or]
        exact ⟨by omega, ih⟩
      · simp only [h2, if_false, List.mem_cons, not_or]
        exact ⟨by omega, fun h => hexUpper_ne_hash _ h.symm, fun h => hexUpper_ne_hash _ h.symm, ih⟩

theorem formSerialize_noHash : ∀ (ps : List (Str × Str)), 35 ∉ formSerialize ps
  | [] => by simp [formSerialize]
  | p :: rest => by
    have ih := formSerialize_noHash rest
    have hpair : 35 ∉ formPair p := by
      unfold formPair
      intro h
      rcases List.mem_append.1 h with h | h
      · exact formByteSerialize_noHash _ h
      · rcases List.mem_cons.1 h with h | h
        · omega
        · exact formByteSerialize_noHash _ h
    cases rest with
    | nil => rw [formSerialize_single]; exact hpair
    | cons q rest' =>
      rw [formSerialize_cons2]
      intro h
      rcases List.mem_append.1 h with h | h
      · exact hpair h
      · rcases List.mem_cons.1 h with h | h
        · omega
        · exact ih h


/-! ### Lossy UTF-8 decoding is the identity on UTF-8 -/

theorem utf8Lead_cases (b : Nat) :
    (b < 128 ∧ utf8Lead b = ([b], u8Start)) ∨
    (128 ≤ b ∧ (utf8Lead b).2.need ≠ 0 ∧ (utf8Lead b).1 = [] ∧ (utf8Lead b).2.held = [b]) ∨
    (128 ≤ b ∧ (utf8Lead b).2.need = 0) := by
  unfold utf8Lead
  by_cases h0 : b < 128
  · left; simp [h0]
  · right
    simp only [h0, if_false]
    split
    · left; exact ⟨by omega, by simp, rfl, rfl⟩
    · split
      · left; exact ⟨by omega, by simp, rfl, rfl⟩
      · split
        · left; exact ⟨by omega, by simp, rfl, rfl⟩
        · split
          · left; exact ⟨by omega, by simp, rfl, rfl⟩
          · split
            · left; exact ⟨by omega, by simp, rfl, rfl⟩
            · split
              · left; exact ⟨by omega, by simp, rfl, rfl⟩
              · split
                · left; exact ⟨by omega, by simp, rfl, rfl⟩
                · right; exact ⟨by omega, rfl⟩

/-- In any reader state whose held bytes are consistent (`need = 0 → held = []`), input the
recogniser accepts is copied: the output is the held bytes followed by the input. -/
theorem utf8LossyGo_valid : ∀ (s : Str) (st : U8St), (st.need = 0 → st.held = []) →
    utf8ValidGo st s = true → utf8LossyGo st s = st.held ++ s
  | [], st, hst, hv => by
    unfold utf8ValidGo at hv
    have hn : st.need = 0 := by simpa using hv
    simp [utf8LossyGo, hn, hst hn]
  | b :: t, st, hst, hv => by
    unfold utf8ValidGo at hv
    unfold utf8LossyGo
    by_cases hn : st.need = 0
    · simp only [hn, if_true] at hv ⊢
      simp only [Bool.and_eq_true, Bool.or_eq_true, decide_eq_true_eq] at hv
      rw [hst hn]
      rcases utf8Lead_cases b with ⟨_, hl⟩ | ⟨_, hne, ho, hh⟩ | ⟨hge, hz⟩
      · rw [hl] at hv ⊢
        have := utf8LossyGo_valid t u8Start (fun _ => rfl) hv.2
        simp only [u8Start, List.nil_append] at this ⊢
        simp [this]
      · have := utf8LossyGo_valid t (utf8Lead b).2 (fun h => absurd h hne) hv.2
        rw [this, ho, hh]
        simp
      · exfalso
        rcases hv.1 with h | h
        · omega
        · exact h hz
    · simp only [hn, if_false] at hv ⊢
      by_cases hr : (decide (st.lo ≤ b) && decide (b ≤ st.hi)) = true
      · simp only [hr, if_true] at hv ⊢
        by_cases h1 : st.need = 1
        · simp only [h1, if_true] at hv ⊢
          have := utf8LossyGo_valid t u8Start (fun _ => rfl) hv
          simp only [u8Start, List.nil_append] at this ⊢
          simp [this]
        · simp only [h1, if_false] at hv ⊢
          have := utf8LossyGo_valid t ⟨st.need - 1, 0x80, 0xBF, st.held ++ [b]⟩
            (fun h => by simp at h; omega) hv
          rw [this]; simp
      · simp only [hr, Bool.false_eq_true, if_false] at hv

theorem utf8Lossy_valid (s : Str) (h : utf8Valid s = true) : utf8Lossy s = s := by
  have := utf8LossyGo_valid s u8Start (fun _ => rfl) h
  simpa [utf8Lossy, u8Start] using this

theorem utf8Lead_big (b : Nat) (h : 245 ≤ b) : utf8Lead b = (fffd, u8Start) := by
  unfold utf8Lead
  simp only [Bool.and_eq_true, Bool.or_eq_true, decide_eq_true_eq]
  repeat (rw [if_neg (by omega)])

theorem utf8Lead_hi (b : Nat) : (utf8Lead b).2.hi < 256 := by
  unfold utf8Lead
  repeat' split
  all_goals simp [u8Start]

/-- Every byte of well-formed UTF-8 is a byte. -/
theorem utf8ValidGo_bytes : ∀ (s : Str) (st : U8St), st.hi < 256 →
    utf8ValidGo st s = true → IsBytes s
  | [], _, _, _ => fun _ h => by cases h
  | b :: t, st, hhi, hv => by
    unfold utf8ValidGo at hv
    by_cases hn : st.need = 0
    · simp only [hn, if_true, Bool.and_eq_true, Bool.or_eq_true, decide_eq_true_eq] at hv
      have hb : b < 256 := by
        rcases hv.1 with h | h
        · omega
        · by_cases hge : b < 256
          · exact hge
          · exfalso
            apply h
            rw [utf8Lead_big b (by omega)]
            rfl
      have := utf8ValidGo_bytes t (utf8Lead b).2 (utf8Lead_hi b) hv.2
      intro x hx
      rcases List.mem_cons.1 hx with rfl | hx
      · exact hb
      · exact this x hx
    · simp only [hn, if_false] at hv
      by_cases hr : (decide (st.lo ≤ b) && decide (b ≤ st.hi)) = true
      · simp only [hr, if_true] at hv
        have hb : b < 256 := by
          simp only [Bool.and_eq_true, decide_eq_true_eq] at hr; omega
        have ht : IsBytes t := by
          by_cases h1 : st.need = 1
          · simp only [h1, if_true] at hv
            exact utf8ValidGo_bytes t u8Start (by simp [u8Start]) hv
          · simp only [h1, if_false] at hv
            exact utf8ValidGo_bytes t _ (by simp) hv
        intro x hx
        rcases List.mem_cons.1 hx with rfl | hx
        · exact hb
        · exact ht x hx
      · simp only [hr, Bool.false_eq_true, if_false] at hv

theorem utf8Valid_bytes (s : Str) (h : utf8Valid s = true) : IsBytes s :=
  utf8ValidGo_bytes s u8Start (by simp [u8Start]) h

/-! ### The reference codec is lawful -/

/-- What `serde_html_form` does below the level of struct fields, as an executable reference. -/
def refForm : FormCodec where
  ser := formSerialize
  parse := formParse
  text := fun s => utf8Valid s = true

/-- The reference codec satisfies the laws the `FormCodec` parameter is assumed to satisfy. -/
theorem refForm_lawful : refForm.Lawful where
  law := by
    intro ps hps
    have hb : ∀ p ∈ ps, IsBytes p.1 ∧ IsBytes p.2 :=
      fun p hp => ⟨utf8Valid_bytes _ (hps p hp).1, utf8Valid_bytes _ (hps p hp).2⟩
    show formParse (formSerialize ps) = ps
    unfold formParse
    rw [formParseBytes_formSerialize ps hb]
    have : ∀ p ∈ ps, (fun p : Str × Str => (utf8Lossy p.1, utf8Lossy p.2)) p = id p := by
      intro p hp
      simp only [id, utf8Lossy_valid _ (hps p hp).1, utf8Lossy_valid _ (hps p hp).2]
    rw [List.map_congr_left this, List.map_id]
  no_hash := formSerialize_noHash

end Ruma.Glue
