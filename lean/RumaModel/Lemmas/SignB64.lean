/-
  Base64 reference implementation (`Model/Sign.lean`): decoding inverts encoding.
-/
import RumaModel.Model.Sign
namespace Ruma.Sign

theorem b64Val_b64Char (i : Nat) (h : i < 64) : b64Val (b64Char i) = some i := by
  have key : ∀ i : Fin 64, b64Val (b64Char i.val) = some i.val := by decide
  exact key ⟨i, h⟩

theorem b64Char_ne_pad (i : Nat) (h : i < 64) : b64Char i ≠ 61 := by
  have key : ∀ i : Fin 64, b64Char i.val ≠ 61 := by decide
  exact key ⟨i, h⟩

theorem unb64Last_two (i j : Nat) (hi : i < 64) (hj : j < 64) :
    unb64Last [b64Char i, b64Char j] = some [i * 4 + j / 16] := by
  simp [unb64Last, List.takeWhile, List.dropWhile, b64Char_ne_pad, b64Val_b64Char, hi, hj]

theorem unb64Last_three (i j k : Nat) (hi : i < 64) (hj : j < 64) (hk : k < 64) :
    unb64Last [b64Char i, b64Char j, b64Char k] = some [i * 4 + j / 16, j % 16 * 16 + k / 4] := by
  simp [unb64Last, List.takeWhile, List.dropWhile, b64Char_ne_pad, b64Val_b64Char, hi, hj, hk]

theorem unb64Last_four (i j k l : Nat) (hi : i < 64) (hj : j < 64) (hk : k < 64) (hl : l < 64) :
    unb64Last [b64Char i, b64Char j, b64Char k, b64Char l]
      = some [i * 4 + j / 16, j % 16 * 16 + k / 4, k % 4 * 64 + l] := by
  simp [unb64Last, List.takeWhile, List.dropWhile, b64Char_ne_pad, b64Val_b64Char, hi, hj, hk, hl]

theorem b64_cons_ne_nil (a : Nat) (t : List Nat) : ∃ e r, b64 (a :: t) = e :: r := by
  match t with
  | [] => exact ⟨_, _, rfl⟩
  | [_] => exact ⟨_, _, rfl⟩
  | _ :: _ :: _ => exact ⟨_, _, rfl⟩

/-- Decoding inverts encoding, for every byte string. -/
theorem unb64_b64 : ∀ (x : List Nat), (∀ b ∈ x, b < 256) → unb64 (b64 x) = some x
  | [], _ => rfl
  | [a], h => by
    have ha : a < 256 := h a (by simp)
    have e : b64 [a] = [b64Char (a / 4), b64Char (a % 4 * 16)] := rfl
    rw [e]
    show unb64Last _ = _
    rw [unb64Last_two _ _ (by omega) (by omega)]
    congr 2; omega
  | [a, b], h => by
    have ha : a < 256 := h a (by simp)
    have hb : b < 256 := h b (by simp)
    have e : b64 [a, b] = [b64Char (a / 4), b64Char (a % 4 * 16 + b / 16), b64Char (b % 16 * 4)] := rfl
    rw [e]
    show unb64Last _ = _
    rw [unb64Last_three _ _ _ (by omega) (by omega) (by omega)]
    congr 2
    · omega
    · congr 1; omega
  | [a, b, c], h => by
    have ha : a < 256 := h a (by simp)
    have hb : b < 256 := h b (by simp)
    have hc : c < 256 := h c (by simp)
    have e : b64 [a, b, c] = [b64Char (a / 4), b64Char (a % 4 * 16 + b / 16),
        b64Char (b % 16 * 4 + c / 64), b64Char (c % 64)] := rfl
    rw [e]
    show unb64Last _ = _
    rw [unb64Last_four _ _ _ _ (by omega) (by omega) (by omega) (by omega)]
    congr 2
    · omega
    · congr 1
      · omega
      · congr 1; omega
  | a :: b :: c :: d :: t, h => by
    have ha : a < 256 := h a (by simp)
    have hb : b < 256 := h b (by simp)
    have hc : c < 256 := h c (by simp)
    have ih := unb64_b64 (d :: t) (fun x hx => h x (by simp at hx ⊢; rcases hx with hx | hx <;> simp [hx]))
    obtain ⟨e, r, her⟩ := b64_cons_ne_nil d t
    have e1 : b64 (a :: b :: c :: d :: t) = b64Char (a / 4) :: b64Char (a % 4 * 16 + b / 16)
        :: b64Char (b % 16 * 4 + c / 64) :: b64Char (c % 64) :: b64 (d :: t) := rfl
    rw [e1, her]
    rw [her] at ih
    simp only [unb64, ih, b64Val_b64Char _ (show a / 4 < 64 by omega),
      b64Val_b64Char _ (show a % 4 * 16 + b / 16 < 64 by omega),
      b64Val_b64Char _ (show b % 16 * 4 + c / 64 < 64 by omega),
      b64Val_b64Char _ (show c % 64 < 64 by omega)]
    congr 2
    · omega
    · congr 1
      · omega
      · congr 1; omega

end Ruma.Sign
