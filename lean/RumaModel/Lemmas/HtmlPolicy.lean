/-
  C14/C15 — the model computes the value and class predicates of `Spec/HtmlPolicy.lean`: the
  spec-side `denied`, `schemeList`, `valueOk`, `classOk` (stated with `mapGet`, list operations
  and the glob relation only) equal the expressions over the model's `schemesHit`, `schemeCtx`,
  `attrSchemes`, `schemesPass`, `removedClass`, `anyGlob` that `node_action` and
  `clean_element_attributes` evaluate. Core Lean only.
-/
import RumaModel.Spec.HtmlPolicy
import RumaModel.Lemmas.HtmlGlob
namespace Ruma.Lemmas.Html
open Ruma Ruma.Html Ruma.Spec.HtmlPolicy Ruma.Spec.HtmlGlob Ruma.Lemmas.HtmlGlob

theorem modeCounts_eq {α : Type} (l : Option (BList α)) : modeCounts l = !isOverride l := by
  cases l <;> rfl

theorem startsWithScheme_eq (v s : Str) : startsWithScheme v s = hasScheme v s := rfl

theorem denied_eq_model (c : Cfg) (el a v : Str) :
    denied c el a v = schemesHit ((c.denySchemes.bind (mapGet · el)).bind (mapGet · a)) v := by
  unfold denied cell schemesHit
  cases c.denySchemes with
  | none => rfl
  | some m =>
    simp only [Option.bind_some]
    cases (mapGet m el).bind (mapGet · a) <;> rfl

theorem schemeList_eq_model (L : Lists) (c : Cfg) (el a : Str) :
    schemeList L c el a =
      if c.allowSchemes.isNone && !c.useStrict then none else attrSchemes (schemeCtx L c el) a := by
  unfold schemeList cell schemeCtx attrSchemes Cfg.useStrict Cfg.useCompat modeCounts
  cases h : c.allowSchemes with
  | none =>
    cases hm : c.mode with
    | none => simp
    | some m => cases m <;> simp [isOverride]
  | some b =>
    obtain ⟨o, l⟩ := b
    cases o
    · cases hm : c.mode with
      | none => simp [isOverride]
      | some m => cases m <;> simp [isOverride]
    · simp [isOverride]

theorem valueOk_eq_model (L : Lists) (c : Cfg) (el a v : Str) :
    valueOk L c el a v = (!denied c el a v && schemesPass (schemeList L c el a) v) := by
  unfold valueOk schemesPass
  cases schemeList L c el a <;> rfl

theorem classOk_eq_model (L : Lists) (c : Cfg) (el cl : Str) :
    classOk L c el cl =
      (!removedClass (c.removeClasses.bind (mapGet · el)) cl &&
      (!(c.allowClasses.isSome || c.useStrict) ||
        anyGlob (((c.allowClasses.bind (fun l => mapGet l.content el)).getD []) ++
          ((if !isOverride c.allowClasses && c.useStrict then mapGet L.classes el else none).getD [])) cl)) := by
  unfold classOk removedClass Cfg.useStrict
  rw [modeCounts_eq]
  simp only [anyGlob_eq_matchesAny]
  congr 1
  · cases c.removeClasses with
    | none => simp [matchesAny]
    | some m => cases h : mapGet m el <;> simp [matchesAny, h]
  · congr 2
    congr 1
    · cases c.allowClasses <;> simp
    · split <;> simp_all

theorem matchesAny_false_iff (pats : List Str) (cl : Str) :
    matchesAny pats cl = false ↔ ∀ p ∈ pats, ¬ GlobCp p cl := by
  rw [← Bool.not_eq_true, matchesAny_iff]; simp

/-- `classOk` read with the glob RELATION: no remove pattern of the element matches the class, and
under an allow list some pattern of the given list or (where it counts) of the mode's does. -/
theorem classOk_iff_glob (L : Lists) (c : Cfg) (el cl : Str) :
    classOk L c el cl = true ↔
      (∀ pats, c.removeClasses.bind (mapGet · el) = some pats → ∀ p ∈ pats, ¬ GlobCp p cl) ∧
      ((c.allowClasses.isSome ∨ c.mode.isSome) →
        (∃ pats, c.allowClasses.bind (fun l => mapGet l.content el) = some pats ∧
          ∃ p ∈ pats, GlobCp p cl) ∨
        (modeCounts c.allowClasses = true ∧ c.mode.isSome ∧
          ∃ pats, mapGet L.classes el = some pats ∧ ∃ p ∈ pats, GlobCp p cl)) := by
  unfold classOk modeCounts
  simp only [Bool.and_eq_true, Bool.not_eq_eq_eq_not, Bool.not_true, Bool.or_eq_true,
    matchesAny_iff, matchesAny_false_iff, List.mem_append]
  refine and_congr ?_ ?_
  · cases c.removeClasses with
    | none => simp
    | some m => cases h : mapGet m el <;> simp [h]
  · cases c.allowClasses with
    | none =>
      cases c.mode with
      | none => simp
      | some md => cases h : mapGet L.classes el <;> simp
    | some b =>
      obtain ⟨o, l⟩ := b
      cases o <;> cases c.mode <;> cases h : mapGet l el <;> cases h2 : mapGet L.classes el <;>
        simp [h, or_and_right, exists_or]

/-- `valueOk` read as a statement: no denied scheme starts the value, and if the attribute is
restricted some scheme of its list does. -/
theorem valueOk_iff_schemes (L : Lists) (c : Cfg) (el a v : Str) :
    valueOk L c el a v = true ↔
      (∀ l, c.denySchemes.bind (cell · el a) = some l → ∀ s ∈ l, hasScheme v s = false) ∧
      (∀ l, schemeList L c el a = some l → ∃ s ∈ l, hasScheme v s = true) := by
  unfold valueOk denied
  simp only [Bool.and_eq_true, Bool.not_eq_eq_eq_not, Bool.not_true]
  refine and_congr ?_ ?_
  · cases c.denySchemes with
    | none => simp
    | some m => cases h : cell m el a <;> simp [h]
  · cases schemeList L c el a <;> simp

/-! ### replacements and depth -/

theorem renamed_eq_model (L : Lists) (c : Cfg) (n : Str) : renamed L c n = replaceNameOf L c n := by
  unfold renamed replaceNameOf Cfg.useStrict
  rw [modeCounts_eq]
  cases c.replaceElements.bind (fun l => mapGet l.content n) with
  | some x => rfl
  | none =>
    cases (if (!isOverride c.replaceElements && c.mode.isSome) = true then
      mapGet L.deprecatedElements n else none) <;> rfl

theorem renamedAttr_eq_model (L : Lists) (c : Cfg) (n : Str) (a : Attr) :
    renameAttr (c.replaceAttrs.bind (fun l => mapGet l.content n))
      (if !isOverride c.replaceAttrs && c.useStrict then mapGet L.deprecatedAttrs n else none) a =
    { a with name := renamedAttr L c n a.name } := by
  unfold renameAttr renamedAttr cell Cfg.useStrict
  rw [modeCounts_eq]
  have hg : (c.replaceAttrs.bind fun l => (mapGet l.content n).bind (mapGet · a.name)) =
      (c.replaceAttrs.bind (fun l => mapGet l.content n)).bind (mapGet · a.name) := by
    cases c.replaceAttrs <;> rfl
  have hm : (if (!isOverride c.replaceAttrs && c.mode.isSome) = true then
        (mapGet L.deprecatedAttrs n).bind (mapGet · a.name) else none) =
      (if (!isOverride c.replaceAttrs && c.mode.isSome) = true then mapGet L.deprecatedAttrs n else none).bind
        (mapGet · a.name) := by
    split <;> rfl
  simp only [hg, hm]
  cases (c.replaceAttrs.bind (fun l => mapGet l.content n)).bind (mapGet · a.name) with
  | some x => rfl
  | none =>
    simp only [Option.orElse_none]
    cases (if (!isOverride c.replaceAttrs && c.mode.isSome) = true then mapGet L.deprecatedAttrs n else none).bind
        (mapGet · a.name) <;> rfl

theorem tooDeep_eq_model (L : Lists) (c : Cfg) (d : Nat) : tooDeep L c d = depthExceeded L c d := by
  unfold tooDeep depthLimit depthExceeded maxDepthValue Cfg.useStrict
  cases c.maxDepth <;> rfl

end Ruma.Lemmas.Html
