/-
  The helper's levels of a REDACTED power-levels event: the three routes a client has to
  `RoomPowerLevels` (redacted JSON as ordinary content, redacted JSON as
  `RedactedRoomPowerLevelsEventContent`, typed `RedactContent::redact`) coincide, for every redaction
  rule set and every content.
-/
import RumaModel.Model.PowerLevels
import RumaModel.Model.Redact
import RumaModel.Lemmas.Redact
namespace Ruma.PowerLevels
open Ruma Ruma.Auth Ruma.Ident

/-- `redact_content_in_place(content, rules, "m.room.power_levels")` never fails and is the filter by
`powerLevelsKey`. -/
theorem redactContent_powerLevels (r : Redact.Rules) (c : Obj) :
    Redact.redactContent r (bs "m.room.power_levels") c
      = .ok (c.filter (fun e => Redact.powerLevelsKey r e.1)) := by
  have h1 : (bs "m.room.power_levels" = bs "m.room.member") = False := by decide
  have h2 : (bs "m.room.power_levels" = bs "m.room.create") = False := by decide
  have h3 : (bs "m.room.power_levels" = bs "m.room.join_rules") = False := by decide
  simp only [Redact.redactContent, Redact.retainedContentKeys, h1, h2, h3, if_false, if_true,
    Redact.Retained.apply]
  exact Redact.applySome_byKey _ _

theorem get_redactedPL (r : Redact.Rules) (c : Obj) (k : Str) :
    Obj.get (redactedPL r c) k = if Redact.powerLevelsKey r k then Obj.get c k else none :=
  Redact.get_filter c (Redact.powerLevelsKey r) k

theorem intField_redactedPL (r : Redact.Rules) (c : Obj) (k : Str) (d : Int) :
    intField (redactedPL r c) k d = if Redact.powerLevelsKey r k then intField c k d else .ok d := by
  unfold intField
  rw [get_redactedPL]
  cases Redact.powerLevelsKey r k <;> simp

theorem mapField_redactedPL (r : Redact.Rules) (c : Obj) (k : Str) (f : Str → Option Str)
    (hk : Redact.powerLevelsKey r k = true) :
    mapField (redactedPL r c) k f = mapField c k f := by
  unfold mapField
  rw [get_redactedPL, hk]
  rfl

theorem notificationsField_redactedPL (r : Redact.Rules) (c : Obj) :
    notificationsField (redactedPL r c) = .ok defaultPowerLevel := by
  unfold notificationsField
  rw [get_redactedPL]
  have : Redact.powerLevelsKey r (bs "notifications") = false := by
    cases r; simp [Redact.powerLevelsKey, Redact.powerLevelsAlwaysKeys, bs]
  simp [this]

/-- On a content without a `notifications` key the redacted content type and the ordinary content
type give the same levels (and fail together). -/
theorem ofRedactedContentR_eq_of_no_notifications (c : Obj)
    (h : Obj.get c (bs "notifications") = none) : ofRedactedContentR c = ofContentR c := by
  have hn : notificationsField c = .ok defaultPowerLevel := by
    unfold notificationsField; rw [h]
  unfold ofRedactedContentR ofContentR
  rw [hn]
  rfl

theorem pk_always (r : Redact.Rules) (k : Str) (h : k ∈ Redact.powerLevelsAlwaysKeys) :
    Redact.powerLevelsKey r k = true := by
  unfold Redact.powerLevelsKey
  simp [h]

theorem pk_invite (r : Redact.Rules) : Redact.powerLevelsKey r (bs "invite") = r.keepPowerLevelsInvite := by
  unfold Redact.powerLevelsKey
  have : (bs "invite" ∈ Redact.powerLevelsAlwaysKeys) = False := by decide
  simp [this]

/-- Reading the redacted JSON as an ordinary content gives the typed redaction of the original levels. -/
theorem ofContentR_redactedPL (r : Redact.Rules) (c : Obj) (l : Levels) (h : ofContentR c = .ok l) :
    ofContentR (redactedPL r c) = .ok (redactLevels r.keepPowerLevelsInvite l) := by
  unfold ofContentR at h ⊢
  rw [notificationsField_redactedPL]
  simp only [intField_redactedPL, pk_invite]
  rw [mapField_redactedPL r c (bs "events") _ (pk_always r _ (by decide)),
      mapField_redactedPL r c (bs "users") _ (pk_always r _ (by decide))]
  simp only [pk_always r (bs "ban") (by decide), pk_always r (bs "events_default") (by decide),
    pk_always r (bs "kick") (by decide), pk_always r (bs "redact") (by decide),
    pk_always r (bs "state_default") (by decide), pk_always r (bs "users_default") (by decide), if_true]
  cases h1 : intField c (bs "ban") defaultPowerLevel <;> simp only [h1, bind, Except.bind] at h ⊢
  · cases h
  cases h2 : mapField c (bs "events") (fun k => some (canonType k)) <;> simp only [h2] at h ⊢
  · cases h
  cases h3 : intField c (bs "events_default") 0 <;> simp only [h3] at h ⊢
  · cases h
  cases h4 : intField c (bs "invite") 0 <;> simp only [h4] at h ⊢
  · cases h
  cases h5 : intField c (bs "kick") defaultPowerLevel <;> simp only [h5] at h ⊢
  · cases h
  cases h6 : intField c (bs "redact") defaultPowerLevel <;> simp only [h6] at h ⊢
  · cases h
  cases h7 : intField c (bs "state_default") defaultPowerLevel <;> simp only [h7] at h ⊢
  · cases h
  cases h8 : mapField c (bs "users") (fun k => if validUserId k = true then some k else none) <;>
    simp only [h8] at h ⊢
  · cases h
  cases h9 : intField c (bs "users_default") 0 <;> simp only [h9] at h ⊢
  · cases h
  cases h10 : notificationsField c <;> simp only [h10] at h ⊢
  · cases h
  cases h
  cases r.keepPowerLevelsInvite <;> simp [redactLevels]

end Ruma.PowerLevels
