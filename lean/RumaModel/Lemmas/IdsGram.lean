/-
  C10 helper lemmas, part 6: "in the recommended grammar ⇒ accepted", one lemma per identifier type.
-/
import RumaModel.Lemmas.IdsSpec
namespace Ruma.Ids
open Ruma Spec.IdGrammar

/-- On ASCII strings the external `char::is_alphanumeric` verdict is never consulted. -/
theorem allUniAlnumOr_ascii {x : Ext} {p extra : Nat → Bool} {n : Str}
    (hlt : ∀ b, p b = true → b < 128) (hok : ∀ b, p b = true → (isAlnum b || extra b) = true)
    (hall : ∀ b ∈ n, p b = true) : allUniAlnumOr x extra n = true := by
  simp only [allUniAlnumOr, Bool.and_eq_true, List.all_eq_true, Bool.or_eq_true,
    decide_eq_true_eq]
  refine ⟨fun b hb => ?_, .inl (fun b hb => hlt b (hall b hb))⟩
  have := hok b (hall b hb)
  simp only [Bool.or_eq_true] at this
  rcases this with h1 | h1
  · exact .inl (.inr h1)
  · exact .inr h1

theorem gram_signingKeyVersion {x : Ext} {n : Str}
    (h : nonEmptyAll (fun b => alnum b || b == 95) n = true) :
    serverSigningKeyVersionValidate x n = .ok () := by
  obtain ⟨hne, hall⟩ := nonEmptyAll_iff.1 h
  have := allUniAlnumOr_ascii (x := x) (p := fun b => alnum b || b == 95)
    (extra := fun b => b == 95) (n := n)
    (fun b hb => by simp [alnum, digit, lower, upper] at hb; omega)
    (fun b hb => by simpa [alnum_eq] using hb) hall
  simp [serverSigningKeyVersionValidate, hne, this]

theorem gram_base64PublicKey {x : Ext} {n : Str} (h : nonEmptyAll base64Char n = true) :
    base64PublicKeyValidate x n = .ok () := by
  obtain ⟨hne, hall⟩ := nonEmptyAll_iff.1 h
  have := allUniAlnumOr_ascii (x := x) (p := base64Char)
    (extra := fun b => b == 43 || b == 47 || b == 61) (n := n)
    (fun b hb => by simp [base64Char, alnum, digit, lower, upper, oneOf, bs] at hb; omega)
    (fun b hb => by
      simp only [base64Char, alnum_eq, oneOf, bs, Bool.or_eq_true] at hb
      rcases hb with hb | hb
      · simp [hb]
      · simp at hb; rcases hb with rfl | rfl <;> simp) hall
  simp [base64PublicKeyValidate, hne, this]

theorem gram_clientSecret {x : Ext} {s : Str}
    (h : (nonEmptyAll (fun b => alnum b || oneOf ".=_-" b) s && max255 s) = true) :
    clientSecretValidate x s = .ok () := by
  simp only [Bool.and_eq_true, max255, decide_eq_true_eq] at h
  obtain ⟨hne, hall⟩ := nonEmptyAll_iff.1 h.1
  have := allUniAlnumOr_ascii (x := x) (p := fun b => alnum b || oneOf ".=_-" b)
    (extra := secretByteExtra) (n := s)
    (fun b hb => by simp [alnum, digit, lower, upper, oneOf, bs] at hb; omega)
    (fun b hb => by
      simp only [alnum_eq, oneOf, bs, Bool.or_eq_true] at hb
      rcases hb with hb | hb
      · simp [hb]
      · simp at hb; rcases hb with rfl | rfl | rfl | rfl <;> simp [secretByteExtra]) hall
  have hl : ¬ s.length > 255 := by omega
  simp [clientSecretValidate, hl, hne, this]

theorem gram_sessionId {s : Str}
    (h : (nonEmptyAll (fun b => alnum b || oneOf ".=_-" b) s && max255 s) = true) :
    sessionIdValidate s = .ok () := by
  simp only [Bool.and_eq_true, max255, decide_eq_true_eq] at h
  obtain ⟨hne, hall⟩ := nonEmptyAll_iff.1 h.1
  have hl : ¬ s.length > 255 := by omega
  have hany : s.any (fun b => !(isAlnum b || secretByteExtra b)) = false := by
    rw [Bool.eq_false_iff]
    intro hc
    obtain ⟨b, hb, hbad⟩ := List.any_eq_true.1 hc
    have := hall b hb
    simp only [alnum_eq, oneOf, bs, Bool.or_eq_true] at this
    rcases this with h1 | h1
    · simp [h1] at hbad
    · simp at h1; rcases h1 with rfl | rfl | rfl | rfl <;> simp [secretByteExtra] at hbad
  unfold sessionIdValidate
  rw [if_neg hl, hany]
  simp [hne]

theorem charCount_le (s : Str) : charCount s ≤ s.length := List.length_filter_le _ _

theorem gram_roomVersion {s : Str}
    (h : (nonEmptyAll (fun b => alnum b || oneOf ".-" b) s && decide (s.length ≤ 32)) = true) :
    roomVersionIdValidate s = .ok () := by
  simp only [Bool.and_eq_true, decide_eq_true_eq] at h
  obtain ⟨hne, hall⟩ := nonEmptyAll_iff.1 h.1
  have hc : ¬ charCount s > 32 := by have := charCount_le s; omega
  have hch : s.all (fun b => isAlnum b || b == 46 || b == 45) = true := by
    rw [List.all_eq_true]
    intro b hb
    have := hall b hb
    simp only [alnum_eq, oneOf, bs, Bool.or_eq_true] at this
    rcases this with h1 | h1
    · simp [h1]
    · simp at h1; rcases h1 with rfl | rfl <;> simp
  simp [roomVersionIdValidate, hne, hc, hch]

theorem gram_key {x : Ext} {kk : KeyNameKind} {nameOk : Str → Bool} {s : Str} (hs : Sep s)
    (hname : ∀ n, nameOk n = true → keyNameValidate x kk n = .ok ())
    (hc : cutAt 58 (nonEmptyAll (fun b => lower b || digit b || oneOf "_." b)) nameOk s = true) :
    (keyIdValidate x kk s).void = .ok () := by
  obtain ⟨alg, name, rfl, halg, hn⟩ := cutAt_iff.1 hc
  obtain ⟨hne, hall⟩ := nonEmptyAll_iff.1 halg
  have hcol : 58 ∉ alg := by
    intro hm
    have := hall 58 hm
    simp [lower, digit, oneOf, bs] at this
  rw [(keyIdValidate_ok_iff hs).2 ⟨alg, name, ⟨rfl, hcol, hne, hname name hn⟩, rfl⟩]
  rfl

theorem false_of_cut {sep : Nat} {p q : Str → Bool} {a b : Str}
    (h : cutAt sep p q (a ++ sep :: b) = false) (hp : p a = true) : q b = false := by
  cases hq : q b with
  | false => rfl
  | true =>
    have : cutAt sep p q (a ++ sep :: b) = true := cutAt_iff.2 ⟨a, b, rfl, hp, hq⟩
    rw [h] at this
    exact absurd this (by simp)

theorem gram_mxc {x : Ext} {s : Str} (hs : Sep s)
    (hg : mxc (gramServerName x.isIpv6) (nonEmptyAll mediaChar) s = true)
    (hp : mxc (portTooBig (gramHost x.isIpv6)) (fun _ => true) s = false) :
    (mxcValidate x s).void = .ok () := by
  simp only [mxc, Bool.and_eq_true, beq_iff_eq, bs_mxc] at hg
  obtain ⟨ht, hc⟩ := hg
  obtain ⟨srv, media, hd, hsrv, hmed⟩ := cutAt_iff.1 hc
  have hse : s = mxcPrefix ++ (srv ++ 47 :: media) := by
    rw [← hd]; exact eq_prefix_of_take ht
  have hpb : portTooBig (gramHost x.isIpv6) srv = false := by
    simp only [mxc, ht, bs_mxc, beq_self_eq_true, Bool.true_and, hd] at hp
    cases hb : portTooBig (gramHost x.isIpv6) srv with
    | false => rfl
    | true =>
      have := false_of_cut hp hb
      simp at this
  have hok : MxcOk x s srv media :=
    ⟨hse, gramServerName_no_slash hsrv,
      by rw [← all_congr mediaChar_eq]
         exact List.all_eq_true.2 (nonEmptyAll_iff.1 hmed).2,
      serverOk_of_gram hsrv hpb⟩
  rw [(mxcValidate_ok_iff hs).2 ⟨srv, media, hok, rfl⟩]
  rfl

theorem gram_alias {x : Ext} {s : Str} (hs : Sep s) (hg : gramAlias x.isIpv6 s = true)
    (hp : delimited 35 (fun _ => true) (portTooBig (gramHost x.isIpv6)) s = false) :
    roomAliasIdValidate x s = .ok () := by
  simp only [gramAlias, Bool.and_eq_true] at hg
  obtain ⟨lp, srv, hd, h0⟩ :=
    delimOk_of_gram (fun l hl => nonEmptyLocalpart_facts hl) hg.1 hg.2 hp
  exact (delimitedValidate_ok_iff hs (by omega) (by omega)).2 ⟨lp, srv, hd, h0⟩

theorem gram_room {x : Ext} {s : Str} (hg : gramRoom x.isIpv6 s = true) :
    roomIdValidate s = .ok () := by
  simp only [gramRoom, Bool.and_eq_true, Bool.or_eq_true, max255, decide_eq_true_eq] at hg
  obtain ⟨hlen, hd | hh⟩ := hg
  · obtain ⟨l, srv, rfl, h1, hgs⟩ := delimited_iff.1 hd
    obtain ⟨_, h0⟩ := nonEmptyLocalpart_facts h1
    have hsrv0 := gramServerName_no_nul hgs
    exact roomIdValidate_ok_iff.2 ⟨hlen, rfl, by simp [h0, hsrv0]⟩
  · obtain ⟨hh1, _, hh3⟩ := hashId_facts hh
    refine roomIdValidate_ok_iff.2 ⟨hlen, hh1, ?_⟩
    cases s with
    | nil => simp at hh1
    | cons c t =>
      simp only [List.head?_cons, Option.some.injEq, List.tail_cons] at hh1 hh3
      subst hh1
      simp [hh3]

theorem gram_event {x : Ext} {s : Str} (hs : Sep s)
    (hg : (max255 s && (delimited 36 (fun lp => !lp.isEmpty && localpartOk lp)
        (gramServerName x.isIpv6) s || hashId 36 s)) = true)
    (hp : delimited 36 (fun _ => true) (portTooBig (gramHost x.isIpv6)) s = false) :
    eventIdValidate x s = .ok () := by
  simp only [Bool.and_eq_true, Bool.or_eq_true] at hg
  obtain ⟨hlen, hd | hh⟩ := hg
  · obtain ⟨lp, srv, hdo, _⟩ :=
      delimOk_of_gram (fun l hl => nonEmptyLocalpart_facts hl) hlen hd hp
    exact (eventIdValidate_ok_iff hs).2 (.inl ⟨lp, srv, hdo⟩)
  · obtain ⟨hh1, hh2, _⟩ := hashId_facts hh
    refine (eventIdValidate_ok_iff hs).2 (.inr ⟨?_, by simpa [max255] using hlen, hh1⟩)
    cases s with
    | nil => simp at hh1
    | cons c t =>
      simp only [List.head?_cons, Option.some.injEq, List.tail_cons] at hh1 hh2
      subst hh1
      simp [hh2]

end Ruma.Ids
