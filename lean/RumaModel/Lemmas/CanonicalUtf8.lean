/-
  Helper lemmas for C01, part 3: UTF-8 preserves the lexicographic order of code point sequences.
-/
import RumaModel.Lemmas.Canonical
namespace Ruma.Canonical
open Ruma Ruma.Spec.CanonicalJson

/-! ### UTF-8 preserves the order of code point sequences -/

theorem nat_list_lt_irrefl (a : List Nat) : ¬ a < a := List.lt_irrefl a

theorem append_lt_append_left (p r1 r2 : List Nat) : p ++ r1 < p ++ r2 ↔ r1 < r2 := by
  induction p with
  | nil => rfl
  | cons x t ih =>
    rw [List.cons_append, List.cons_append, List.cons_lt_cons_iff, ih]
    constructor
    · rintro (h | ⟨_, h⟩)
      · exact absurd h (Nat.lt_irrefl x)
      · exact h
    · intro h; exact .inr ⟨rfl, h⟩

theorem utf8EncodeChar_append_lt {c d : Nat} (h : c < d) (r1 r2 : List Nat) :
    utf8EncodeChar c ++ r1 < utf8EncodeChar d ++ r2 := by
  unfold utf8EncodeChar
  by_cases c1 : c < 0x80
  · by_cases d1 : d < 0x80
    · simp only [c1, d1, if_true, List.cons_append, List.nil_append, List.cons_lt_cons_iff]; omega
    by_cases d2 : d < 0x800
    · simp only [c1, d1, d2, if_true, if_false, List.cons_append, List.nil_append, List.cons_lt_cons_iff]; omega
    by_cases d3 : d < 0x10000
    · simp only [c1, d1, d2, d3, if_true, if_false, List.cons_append, List.nil_append, List.cons_lt_cons_iff]; omega
    · simp only [c1, d1, d2, d3, if_true, if_false, List.cons_append, List.nil_append, List.cons_lt_cons_iff]; omega
  by_cases c2 : c < 0x800
  · have d1 : ¬ d < 0x80 := by omega
    by_cases d2 : d < 0x800
    · simp only [c1, c2, d1, d2, if_true, if_false, List.cons_append, List.nil_append, List.cons_lt_cons_iff]
      have : 0xC0 + c / 64 < 0xC0 + d / 64 ∨ 0xC0 + c / 64 = 0xC0 + d / 64 ∧ 0x80 + c % 64 < 0x80 + d % 64 := by omega
      rcases this with h | ⟨h1, h2⟩
      · exact .inl h
      · exact .inr ⟨h1, .inl h2⟩
    by_cases d3 : d < 0x10000
    · simp only [c1, c2, d1, d2, d3, if_true, if_false, List.cons_append, List.nil_append, List.cons_lt_cons_iff]; omega
    · simp only [c1, c2, d1, d2, d3, if_true, if_false, List.cons_append, List.nil_append, List.cons_lt_cons_iff]; omega
  by_cases c3 : c < 0x10000
  · have d1 : ¬ d < 0x80 := by omega
    have d2 : ¬ d < 0x800 := by omega
    by_cases d3 : d < 0x10000
    · simp only [c1, c2, c3, d1, d2, d3, if_true, if_false, List.cons_append, List.nil_append, List.cons_lt_cons_iff]
      have : 0xE0 + c / 4096 < 0xE0 + d / 4096 ∨ 0xE0 + c / 4096 = 0xE0 + d / 4096 ∧
          (0x80 + c / 64 % 64 < 0x80 + d / 64 % 64 ∨ 0x80 + c / 64 % 64 = 0x80 + d / 64 % 64 ∧
            0x80 + c % 64 < 0x80 + d % 64) := by omega
      rcases this with h | ⟨h1, h | ⟨h2, h3⟩⟩
      · exact .inl h
      · exact .inr ⟨h1, .inl h⟩
      · exact .inr ⟨h1, .inr ⟨h2, .inl h3⟩⟩
    · simp only [c1, c2, c3, d1, d2, d3, if_true, if_false, List.cons_append, List.nil_append, List.cons_lt_cons_iff]; omega
  · have d1 : ¬ d < 0x80 := by omega
    have d2 : ¬ d < 0x800 := by omega
    have d3 : ¬ d < 0x10000 := by omega
    simp only [c1, c2, c3, d1, d2, d3, if_false, List.cons_append, List.nil_append, List.cons_lt_cons_iff]
    have : 0xF0 + c / 262144 < 0xF0 + d / 262144 ∨ 0xF0 + c / 262144 = 0xF0 + d / 262144 ∧
        (0x80 + c / 4096 % 64 < 0x80 + d / 4096 % 64 ∨ 0x80 + c / 4096 % 64 = 0x80 + d / 4096 % 64 ∧
          (0x80 + c / 64 % 64 < 0x80 + d / 64 % 64 ∨ 0x80 + c / 64 % 64 = 0x80 + d / 64 % 64 ∧
            0x80 + c % 64 < 0x80 + d % 64)) := by omega
    rcases this with h | ⟨h1, h | ⟨h2, h | ⟨h3, h4⟩⟩⟩
    · exact .inl h
    · exact .inr ⟨h1, .inl h⟩
    · exact .inr ⟨h1, .inr ⟨h2, .inl h⟩⟩
    · exact .inr ⟨h1, .inr ⟨h2, .inr ⟨h3, .inl h4⟩⟩⟩

theorem utf8EncodeChar_ne_nil (c : Nat) : ∃ x t, utf8EncodeChar c = x :: t := by
  unfold utf8EncodeChar
  repeat' split
  all_goals exact ⟨_, _, rfl⟩

/-- Byte-lexicographic order of UTF-8 encodings is code-point-lexicographic order. -/
theorem utf8Encode_lt_iff : ∀ (a b : List Nat), utf8Encode a < utf8Encode b ↔ a < b
  | [], [] => by simp [utf8Encode]
  | [], d :: t => by
    obtain ⟨x, r, hx⟩ := utf8EncodeChar_ne_nil d
    simp [utf8Encode, hx]
  | c :: s, [] => by
    simp [utf8Encode]
  | c :: s, d :: t => by
    have e1 : utf8Encode (c :: s) = utf8EncodeChar c ++ utf8Encode s := by simp [utf8Encode]
    have e2 : utf8Encode (d :: t) = utf8EncodeChar d ++ utf8Encode t := by simp [utf8Encode]
    rw [e1, e2, List.cons_lt_cons_iff]
    rcases Nat.lt_trichotomy c d with h | h | h
    · constructor
      · intro _; exact .inl h
      · intro _; exact utf8EncodeChar_append_lt h _ _
    · subst h
      rw [append_lt_append_left, utf8Encode_lt_iff s t]
      constructor
      · intro h; exact .inr ⟨rfl, h⟩
      · rintro (h | ⟨_, h⟩)
        · exact absurd h (Nat.lt_irrefl c)
        · exact h
    · have := utf8EncodeChar_append_lt h (utf8Encode t) (utf8Encode s)
      constructor
      · intro h'; exact absurd h' (List.lt_asymm this)
      · rintro (h' | ⟨h', _⟩) <;> omega

/-- Hence UTF-8 encoding is injective on code point sequences. -/
theorem utf8Encode_inj (a b : List Nat) (h : utf8Encode a = utf8Encode b) : a = b := by
  rcases str_trichotomy a b with h1 | h1 | h1
  · have := (utf8Encode_lt_iff a b).mpr h1
    rw [h] at this; exact absurd this (List.lt_irrefl _)
  · exact h1
  · have := (utf8Encode_lt_iff b a).mpr h1
    rw [h] at this; exact absurd this (List.lt_irrefl _)

end Ruma.Canonical
