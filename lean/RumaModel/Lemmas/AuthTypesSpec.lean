/-
  `auth_types_for_event` selects what the specification's auth-events selection selects.
-/
import RumaModel.Lemmas.AuthRestrict
import RumaModel.Lemmas.AuthSpecMember
import RumaModel.Spec.AuthTypes
set_option linter.unusedSimpArgs false
namespace Ruma.AuthSpec
open Ruma Ruma.Auth Ruma.Ident
open Ruma.Spec.Auth (rulesOf)

/-- Same selection: both fail, or both succeed with the same set of pairs. -/
def SameSelection (m : Except Unit (List (Str × Str))) (s : Option (List (Str × Str))) : Prop :=
  match m, s with
  | .ok l, some l' => ∀ k, k ∈ l ↔ k ∈ l'
  | .error _, none => True
  | _, _ => False

theorem sameSelection_ok {l l' : List (Str × Str)} (h : ∀ k, k ∈ l ↔ k ∈ l') :
    SameSelection (.ok l) (some l') := h

theorem tpiAuthType_spec (c : Obj) (l : List (Str × Str)) :
    SameSelection (tpiAuthType c l) ((Spec.AuthTypes.thirdPartyInviteKey c).map (l ++ ·)) := by
  unfold tpiAuthType Spec.AuthTypes.thirdPartyInviteKey
  cases hg : Obj.get c (bs "third_party_invite") with
  | none =>
    simp [contentThirdPartyInvite_absent c (Or.inl hg), bind, Except.bind, SameSelection]
  | some tpi =>
    by_cases hn : tpi = .null
    · subst hn
      simp [contentThirdPartyInvite_absent c (Or.inr hg), bind, Except.bind, SameSelection]
    · have hso := signedOf_eq c tpi hg hn
      have key : SameSelection
          (contentThirdPartyInvite c >>= fun t => match t with
            | some signed => tpiToken signed >>= fun token => .ok (pushNew l (tThirdPartyInvite, token))
            | none => .ok l)
          (((Spec.Auth.signedOf tpi).bind fun signed =>
            (Spec.Auth.strProp signed (bs "token")).map fun token =>
              [(bs "m.room.third_party_invite", token)]).map (l ++ ·)) := by
        cases hc : contentThirdPartyInvite c with
        | error e =>
          rw [hc] at hso
          have : Spec.Auth.signedOf tpi = none := by
            cases hh : Spec.Auth.signedOf tpi <;> simp [hh] at hso; rfl
          simp [this, bind, Except.bind, SameSelection]
        | ok t =>
          rw [hc] at hso
          cases t with
          | none => cases hh : Spec.Auth.signedOf tpi <;> simp [hh] at hso
          | some signed =>
            have hsig : Spec.Auth.signedOf tpi = some signed := by
              cases hh : Spec.Auth.signedOf tpi <;> simp [hh] at hso
              simp [hso]
            simp only [hsig, Option.bind_some, bind, Except.bind, strProp_eq, tpiToken]
            cases strField signed (bs "token") with
            | error e => simp [SameSelection]
            | ok token =>
              simp only [opt_ok, Option.map_some, SameSelection]
              intro k
              rw [mem_pushNew]
              simp [tThirdPartyInvite]
      cases tpi <;> first | exact absurd rfl hn | exact key

theorem authorisedAuthType_spec (c : Obj) (l : List (Str × Str)) :
    SameSelection (authorisedAuthType c l) ((Spec.AuthTypes.authorisingUserKey c).map (l ++ ·)) := by
  unfold authorisedAuthType Spec.AuthTypes.authorisingUserKey contentJoinAuthorised
  rw [optUserIdProp_eq]
  cases optUserIdField c (bs "join_authorised_via_users_server") with
  | error e => simp [bind, Except.bind, SameSelection]
  | ok via =>
    cases via with
    | none => simp [bind, Except.bind, SameSelection]
    | some u =>
      simp only [bind, Except.bind, opt_ok, Option.map_some, SameSelection]
      intro k
      rw [mem_pushNew]
      simp [tMember]

theorem sameSelection_bind {m : Except Unit (List (Str × Str))} {s : Option (List (Str × Str))}
    {G : List (Str × Str) → Except Unit (List (Str × Str))} {F : List (Str × Str) → Option (List (Str × Str))}
    (h : SameSelection m s)
    (hk : ∀ l l', (∀ k, k ∈ l ↔ k ∈ l') → SameSelection (G l) (F l')) :
    SameSelection (m >>= G) (s.bind F) := by
  cases m with
  | error e => cases s <;> simp_all [SameSelection, bind, Except.bind]
  | ok l =>
    cases s with
    | none => simp [SameSelection] at h
    | some l' => simpa [bind, Except.bind] using hk l l' h

theorem sameSelection_map {m : Except Unit (List (Str × Str))} {s : Option (List (Str × Str))}
    {g g' : List (Str × Str) → List (Str × Str)} (h : SameSelection m (s.map g))
    (hg : ∀ x k, k ∈ g x ↔ k ∈ g' x) : SameSelection m (s.map g') := by
  cases m with
  | error e => cases s <;> simp_all [SameSelection]
  | ok l =>
    cases s with
    | none => simp [SameSelection] at h
    | some x =>
      simp only [Option.map_some, SameSelection] at h ⊢
      intro k
      rw [h k, hg x k]

/-- **The selection is the specification's**, for every room version: `auth_types_for_event` fails
exactly when the spec's selection has an unreadable property, and otherwise selects the same set of
`(type, state_key)` pairs. -/
theorem authTypes_eq_spec (v : Nat) (ev : Event) :
    SameSelection (authTypesForEvent (rulesOf v) ev) (Spec.AuthTypes.selection v ev) := by
  unfold authTypesForEvent Spec.AuthTypes.selection
  by_cases hcr : ev.type = bs "m.room.create"
  · have : (ev.type == tCreate) = true := by simp [hcr, tCreate]
    rw [if_pos this, if_pos hcr]
    exact sameSelection_ok (fun _ => Iff.rfl)
  · have e0 : ¬ ((ev.type == tCreate) = true) := by simpa [tCreate] using hcr
    rw [if_neg e0, if_neg hcr]
    by_cases hm : ev.type = bs "m.room.member"
    · have e1 : (ev.type == tMember) = true := by simp [hm, tMember]
      rw [if_pos e1, if_pos hm]
      unfold Spec.AuthTypes.memberSelection
      cases hsk : ev.stateKey with
      | none => simp [SameSelection]
      | some sk =>
        simp only [strProp_eq, contentMembership]
        cases hmem : strField ev.content (bs "membership") with
        | error e => simp [bind, Except.bind, SameSelection]
        | ok m =>
          simp only [opt_ok, Option.bind_some, bind, Except.bind, Option.map_some]
          show SameSelection _ (Option.map (fun x => [(tCreate, []), (tPowerLevels, []), (tMember, ev.sender)] ++ x)
            (((if m = mInvite then Spec.AuthTypes.thirdPartyInviteKey ev.content else some []).bind fun tp =>
              Option.map (fun au => [(tMember, sk)] ++
                  (if m = mJoin ∨ m = mInvite ∨ m = mKnock then [(tJoinRules, ([] : Str))] else []) ++ tp ++ au)
                (if m = mJoin ∧ Spec.Auth.hasRestricted v = true then Spec.AuthTypes.authorisingUserKey ev.content
                 else some []))))
          generalize hl2 : (if (m == mJoin || m == mInvite || m == mKnock) = true then
              pushNew (pushNew [(tPowerLevels, []), (tMember, ev.sender), (tCreate, [])] (tMember, sk)) (tJoinRules, [])
            else pushNew [(tPowerLevels, []), (tMember, ev.sender), (tCreate, [])] (tMember, sk)) = l2
          generalize hj : (if m = mJoin ∨ m = mInvite ∨ m = mKnock then [(tJoinRules, ([] : Str))] else []) = jrs
          have hl2mem : ∀ k, k ∈ l2 ↔ k ∈ [(tCreate, ([] : Str)), (tPowerLevels, []), (tMember, ev.sender)] ++
              ([(tMember, sk)] ++ jrs) := by
            intro k
            rw [← hl2, ← hj]
            by_cases hmm : m = mJoin ∨ m = mInvite ∨ m = mKnock
            · have : (m == mJoin || m == mInvite || m == mKnock) = true := by
                rcases hmm with h | h | h <;> simp [h]
              rw [if_pos this, if_pos hmm, mem_pushNew, mem_pushNew]
              simp only [List.mem_cons, List.mem_append, List.not_mem_nil, or_false]
              grind
            · have : ¬ ((m == mJoin || m == mInvite || m == mKnock) = true) := by
                simp; grind
              rw [if_neg this, if_neg hmm, mem_pushNew]
              simp only [List.mem_cons, List.mem_append, List.not_mem_nil, or_false, List.append_nil]
              grind
          clear hl2 hj hcr hm e0 e1 hmem
          by_cases hi : m = mInvite
          · have hnj : ¬ (m = mJoin) := by rw [hi]; exact mInvite_ne_mJoin
            have c1 : (m == mInvite) = true := by simp [hi]
            have c2 : ¬ ((m == mJoin && (rulesOf v).restrictedJoinRule) = true) := by simp [hnj]
            have c3 : ¬ (m = mJoin ∧ Spec.Auth.hasRestricted v = true) := fun h => hnj h.1
            simp only [c1, if_true, hi, c3, if_false]
            rw [hi] at c2
            simp only [c2, if_false]
            have := tpiAuthType_spec ev.content l2
            cases htp : tpiAuthType ev.content l2 with
            | error e =>
              rw [htp] at this
              cases hk : Spec.AuthTypes.thirdPartyInviteKey ev.content <;> simp_all [SameSelection, bind, Except.bind]
            | ok l3 =>
              rw [htp] at this
              cases hk : Spec.AuthTypes.thirdPartyInviteKey ev.content with
              | none => simp [hk, SameSelection] at this
              | some tp =>
                simp only [hk, Option.map_some, SameSelection] at this
                simp only [bind, Except.bind, Option.bind_some, Option.map_some, SameSelection]
                intro k
                rw [this k]
                have := hl2mem k
                simp only [List.mem_append] at this ⊢
                grind
          · have c1 : ¬ ((m == mInvite) = true) := by simpa using hi
            simp only [c1, if_false, hi, bind, Except.bind, Option.bind_some, Bool.false_eq_true]
            by_cases hj : m = mJoin ∧ Spec.Auth.hasRestricted v = true
            · have c2 : (m == mJoin && (rulesOf v).restrictedJoinRule) = true := by
                simp [hj.1, rulesOf, hj.2]
              rw [if_pos c2, if_pos hj]
              have := authorisedAuthType_spec ev.content l2
              cases hau : authorisedAuthType ev.content l2 with
              | error e =>
                rw [hau] at this
                cases hk : Spec.AuthTypes.authorisingUserKey ev.content <;> simp_all [SameSelection]
              | ok l3 =>
                rw [hau] at this
                cases hk : Spec.AuthTypes.authorisingUserKey ev.content with
                | none => simp [hk, SameSelection] at this
                | some au =>
                  simp only [hk, Option.map_some, SameSelection] at this
                  simp only [Option.map_some, SameSelection]
                  intro k
                  rw [this k]
                  have := hl2mem k
                  simp only [List.mem_append] at this ⊢
                  grind
            · have c2 : ¬ ((m == mJoin && (rulesOf v).restrictedJoinRule) = true) := by
                simp [rulesOf]; grind
              rw [if_neg c2, if_neg hj]
              simp only [Option.map_some, SameSelection]
              intro k
              have := hl2mem k
              simp only [List.mem_append, List.append_nil] at this ⊢
              grind
    · have e1 : ¬ ((ev.type == tMember) = true) := by simpa [tMember] using hm
      rw [if_neg e1, if_neg hm]
      refine sameSelection_ok (fun k => ?_)
      clear hcr hm e0 e1
      simp only [tPowerLevels, tMember, tCreate]
      generalize bs "m.room.create" = a
      generalize bs "m.room.power_levels" = b
      generalize bs "m.room.member" = c
      simp only [List.mem_cons, List.not_mem_nil, or_false]
      grind

end Ruma.AuthSpec
