import RumaModel.Model.Redact
import RumaModel.Spec.RedactionRules
namespace Ruma.Redact
open Ruma Ruma.Spec.Redaction

/-! ### Object helpers -/

theorem keys_filter_mem {α} (o : List (Str × α)) (p : Str → Bool) (k : Str) :
    k ∈ Obj.keys (o.filter (fun e => p e.1)) ↔ k ∈ Obj.keys o ∧ p k = true := by
  simp only [Obj.keys, List.mem_map, List.mem_filter]
  constructor
  · rintro ⟨e, ⟨he, hp⟩, rfl⟩; exact ⟨⟨e, he, rfl⟩, hp⟩
  · rintro ⟨⟨e, he, rfl⟩, hp⟩; exact ⟨e, ⟨he, hp⟩, rfl⟩

theorem keys_setVal (o : Obj) (k : Str) (v : JVal) : Obj.keys (setVal o k v) = Obj.keys o := by
  induction o with
  | nil => rfl
  | cons e t ih =>
    simp only [setVal, Obj.keys, List.map_cons, List.map_map] at ih ⊢
    split <;> simp [ih]

theorem get_setVal_ne (o : Obj) (k k' : Str) (v : JVal) (h : k' ≠ k) :
    Obj.get (setVal o k v) k' = Obj.get o k' := by
  induction o with
  | nil => rfl
  | cons e t ih =>
    obtain ⟨a, b⟩ := e
    simp only [setVal, List.map_cons] at ih ⊢
    by_cases hk : a = k
    · subst hk
      have : a ≠ k' := fun h' => h h'.symm
      simp [Obj.get, this, ih]
    · simp only [hk, if_false, Obj.get]
      split <;> simp_all

theorem get_setVal_eq (o : Obj) (k : Str) (v : JVal) (h : Obj.get o k ≠ none) :
    Obj.get (setVal o k v) k = some v := by
  induction o with
  | nil => simp [Obj.get] at h
  | cons e t ih =>
    obtain ⟨a, b⟩ := e
    simp only [setVal, List.map_cons] at ih ⊢
    by_cases hk : a = k
    · simp [hk, Obj.get]
    · simp only [hk, if_false, Obj.get] at h ⊢
      exact ih h

theorem get_filter {α} (o : List (Str × α)) (p : Str → Bool) (k : Str) :
    Obj.get (o.filter (fun e => p e.1)) k = if p k then Obj.get o k else none := by
  induction o with
  | nil => simp [Obj.get]
  | cons e t ih =>
    obtain ⟨a, b⟩ := e
    by_cases ha : p a = true
    · simp only [List.filter_cons, ha, if_true, Obj.get]
      by_cases hk : a = k
      · subst hk; simp [ha]
      · simp [hk, ih]
    · have ha' : p a = false := by simpa using ha
      simp only [List.filter_cons, ha', Obj.get]
      by_cases hk : a = k
      · subst hk; simp [ha', ih]
      · simp [hk, ih]

theorem filter_filter_same {α} (o : List α) (p : α → Bool) : (o.filter p).filter p = o.filter p := by
  simp [List.filter_filter]

theorem get_mem_keys {α} (o : List (Str × α)) (k : Str) : Obj.get o k ≠ none ↔ k ∈ Obj.keys o := by
  induction o with
  | nil => simp [Obj.get, Obj.keys]
  | cons e t ih =>
    obtain ⟨a, b⟩ := e
    simp only [Obj.get, Obj.keys, List.map_cons, List.mem_cons] at ih ⊢
    by_cases hk : a = k
    · simp [hk]
    · simp only [hk, if_false, ih]
      constructor
      · exact Or.inr
      · rintro (h | h)
        · exact absurd h.symm hk
        · exact h

/-! ### `applySome` -/

/-- On success, the retained keys are exactly those for which the function answered `some`. -/
theorem applySome_byKey (p : Str → Bool) (o : Obj) :
    applySome (byKey p) o = .ok (o.filter (fun e => p e.1)) := by
  induction o with
  | nil => rfl
  | cons e t ih =>
    obtain ⟨a, b⟩ := e
    by_cases h : p a = true <;> simp [applySome, byKey, h, ih]

end Ruma.Redact

namespace Ruma.Redact
open Ruma Ruma.Spec.Redaction

/-- Exact characterisation of a successful `applySome`: a `filterMap` in order. -/
theorem applySome_ok (f : RetainFn) (c c' : Obj) (h : applySome f c = .ok c') :
    c' = c.filterMap (fun e => match f e.1 e.2 with
      | .ok (.some v') => some (e.1, v')
      | _ => none) := by
  induction c generalizing c' with
  | nil => simp [applySome] at h; simp [h]
  | cons e t ih =>
    obtain ⟨k, v⟩ := e
    simp only [applySome] at h
    split at h
    · cases h
    · rename_i hf; simp only [List.filterMap_cons, hf]; exact ih c' h
    · rename_i v' hf
      split at h
      · cases h
      · rename_i t' ht
        cases h
        simp only [List.filterMap_cons, hf]
        rw [← ih t' ht]

theorem applySome_mem (f : RetainFn) (c c' : Obj) (h : applySome f c = .ok c') (e : Str × JVal)
    (he : e ∈ c') : ∃ v0, (e.1, v0) ∈ c ∧ f e.1 v0 = .ok (.some e.2) := by
  rw [applySome_ok f c c' h] at he
  simp only [List.mem_filterMap] at he
  obtain ⟨⟨k, v0⟩, hmem, hm⟩ := he
  split at hm
  · rename_i v' hf
    cases hm
    exact ⟨v0, hmem, hf⟩
  · cases hm

theorem applySome_fix (f : RetainFn) (c : Obj) (h : ∀ e ∈ c, f e.1 e.2 = .ok (.some e.2)) :
    applySome f c = .ok c := by
  induction c with
  | nil => rfl
  | cons e t ih =>
    obtain ⟨k, v⟩ := e
    have h1 := h (k, v) (by simp)
    simp only at h1
    simp only [applySome, h1]
    rw [ih (fun e he => h e (by simp [he]))]

/-- A retain function is *stable* when what it keeps it keeps unchanged on a second pass. -/
def Stable (f : RetainFn) : Prop := ∀ k v v', f k v = .ok (.some v') → f k v' = .ok (.some v')

theorem applySome_idem (f : RetainFn) (hf : Stable f) (c c' : Obj) (h : applySome f c = .ok c') :
    applySome f c' = .ok c' := by
  apply applySome_fix
  intro e he
  obtain ⟨v0, _, h0⟩ := applySome_mem f c c' h e he
  exact hf _ _ _ h0

theorem byKey_stable (p : Str → Bool) : Stable (byKey p) := by
  intro k v v' h
  simp only [byKey] at h ⊢
  split at h <;> simp_all

theorem memberKey_stable (r : Rules) : Stable (memberKey r) := by
  intro k v v' h
  simp only [memberKey] at h ⊢
  split at h
  · simp_all
  · split at h
    · split at h <;> simp_all
    · split at h
      · rename_i hk
        obtain ⟨rfl, hr⟩ := hk
        split at h
        · rename_i tpi
          split at h
          · simp at h
          · simp only [Except.ok.injEq, Option.some.injEq] at h
            subst h
            rename_i hne
            simp only [List.filter_filter, Bool.and_self, hne, hr]
            simp [bs]
        · cases h
      · simp at h

theorem retained_some_stable (ty : Str) (r : Rules) (f : RetainFn)
    (h : retainedContentKeys ty r = .some f) : Stable f := by
  unfold retainedContentKeys at h
  repeat' split at h
  all_goals first
    | (injection h with h; subst h; first | exact memberKey_stable r | exact byKey_stable _)
    | cases h

theorem retained_idem (ty : Str) (r : Rules) (c c' : Obj)
    (h : (retainedContentKeys ty r).apply c = .ok c') :
    (retainedContentKeys ty r).apply c' = .ok c' := by
  cases hR : retainedContentKeys ty r with
  | all => rfl
  | none => rw [hR] at h; simp only [Retained.apply] at h ⊢; cases h; rfl
  | some f =>
    rw [hR] at h
    simp only [Retained.apply] at h ⊢
    exact applySome_idem f (retained_some_stable ty r f hR) c c' h

theorem setVal_setVal (o : Obj) (k : Str) (v : JVal) : setVal (setVal o k v) k v = setVal o k v := by
  simp only [setVal, List.map_map]
  apply List.map_congr_left
  intro e _
  simp only [Function.comp]
  split <;> simp_all

theorem setVal_filter (o : Obj) (p : Str → Bool) (k : Str) (v : JVal) :
    setVal (o.filter (fun e => p e.1)) k v = (setVal o k v).filter (fun e => p e.1) := by
  induction o with
  | nil => rfl
  | cons e t ih =>
    obtain ⟨a, b⟩ := e
    simp only [setVal] at ih
    simp only [setVal, List.filter_cons, List.map_cons]
    by_cases hk : a = k
    · subst hk
      by_cases hp : p a = true
      · simp [hp, ih]
      · simp [hp, ih]
    · by_cases hp : p a = true
      · simp [hp, hk, ih]
      · simp [hp, hk, ih]

end Ruma.Redact

namespace Ruma.Redact
open Ruma Ruma.Spec.Redaction

/-! ### The spec rules, field by field -/

@[simp] theorem rulesOf_origin (v : Nat) : (rulesOf v).keepOriginMembershipPrevState = decide (v ≤ 10) := by
  simp [rulesOf, topKept, topAlways, topLegacy, bs]
@[simp] theorem rulesOf_aliases (v : Nat) : (rulesOf v).keepAliases = decide (v ≤ 5) := by
  simp [rulesOf, contentKept, bs]
@[simp] theorem rulesOf_authorised (v : Nat) : (rulesOf v).keepMemberAuthorised = decide (9 ≤ v) := by
  simp [rulesOf, contentKept, bs]
@[simp] theorem rulesOf_create (v : Nat) : (rulesOf v).keepCreateContent = decide (11 ≤ v) := by
  simp [rulesOf, contentKept, bs]
@[simp] theorem rulesOf_invite (v : Nat) : (rulesOf v).keepPowerLevelsInvite = decide (11 ≤ v) := by
  simp [rulesOf, contentKept, bs]
@[simp] theorem rulesOf_allow (v : Nat) : (rulesOf v).keepJoinRulesAllow = decide (8 ≤ v) := by
  simp [rulesOf, contentKept, bs]
@[simp] theorem rulesOf_redacts (v : Nat) : (rulesOf v).keepRedactionRedacts = decide (11 ≤ v) := by
  simp [rulesOf, contentKept, bs]
@[simp] theorem rulesOf_tpi (v : Nat) : (rulesOf v).keepMemberTpiSigned = decide (11 ≤ v) := by
  simp [rulesOf, contentKept, bs]

theorem redactedContent_filter (v : Nat) (ty : Str) (c : Obj) (h : ty ≠ bs "m.room.member") :
    redactedContent v ty c = c.filter (fun e => contentKept v ty e.1) := by
  unfold redactedContent
  rw [← List.filterMap_eq_filter]
  congr 1
  funext e
  simp only [contentEntry, h, false_and, if_false]
  cases hk : contentKept v ty e.1 <;> simp [Option.guard, hk]

theorem byKey_case (v : Nat) (ty : Str) (c c' : Obj) (p : Str → Bool) (hm : ty ≠ bs "m.room.member")
    (h : applySome (byKey p) c = .ok c') (hp : ∀ k, p k = contentKept v ty k) :
    c' = redactedContent v ty c := by
  rw [applySome_byKey] at h
  injection h with h
  subst h
  rw [redactedContent_filter v ty c hm]
  apply List.filter_congr
  intro e _
  exact hp e.1

theorem none_case (v : Nat) (ty : Str) (c : Obj) (hm : ty ≠ bs "m.room.member")
    (hp : ∀ k, contentKept v ty k = false) : [] = redactedContent v ty c := by
  rw [redactedContent_filter v ty c hm]
  symm
  simp [hp]

theorem all_case (v : Nat) (ty : Str) (c : Obj) (hm : ty ≠ bs "m.room.member")
    (hp : ∀ k, contentKept v ty k = true) : c = redactedContent v ty c := by
  rw [redactedContent_filter v ty c hm]
  symm
  apply List.filter_eq_self.mpr
  intro e _
  exact hp e.1

theorem member_entry (v : Nat) (k : Str) (val : JVal) :
    (match memberKey (rulesOf v) k val with
      | .ok (.some v') => some (k, v')
      | _ => none) = (contentEntry v (bs "m.room.member") k val).map (fun v' => (k, v')) := by
  by_cases h1 : k = bs "membership"
  · subst h1; simp [memberKey, contentEntry, contentKept, bs]
  · by_cases h2 : k = bs "join_authorised_via_users_server"
    · subst h2
      by_cases hv : 9 ≤ v
      · have : ¬ v < 9 := by omega
        simp [memberKey, contentEntry, contentKept, bs, hv, this]
      · have : v < 9 := by omega
        simp [memberKey, contentEntry, contentKept, bs, hv, this]
    · by_cases h3 : k = bs "third_party_invite"
      · subst h3
        by_cases hv : 11 ≤ v
        · cases val <;> simp [memberKey, contentEntry, contentKept, bs, hv, tpiKept]
          rename_i kvs
          cases hE : (List.filter (fun p => decide (p.fst = [115, 105, 103, 110, 101, 100])) kvs).isEmpty
            <;> simp [hE]
        · simp [memberKey, contentEntry, contentKept, bs, hv]
      · simp [memberKey, contentEntry, contentKept, h1, h2, h3]


end Ruma.Redact
