/-
  Helper lemmas for C18's schema model, part 2: `serdeValue` facts, the struct case, and the
  theorems of `Props/C18Schema.lean` in their inductive form. Core Lean only.
-/
import RumaModel.Lemmas.ContentSchema
import RumaModel.Spec.ContentSchema
namespace Ruma.ContentSchema
open Ruma Ruma.Canonical

/-! ### `serde_json::Value` -/

theorem serdeValueO_eq_map (kvs : List (Str × JVal)) :
    serdeValueO kvs = kvs.map (fun e => (e.1, serdeValue e.2)) := by
  induction kvs with
  | nil => rfl
  | cons e t ih => obtain ⟨k, v⟩ := e; rw [serdeValueO, ih]; rfl

theorem serdeValueL_eq_map (xs : List JVal) : serdeValueL xs = xs.map serdeValue := by
  induction xs with
  | nil => rfl
  | cons v t ih => rw [serdeValueL, ih]; rfl

theorem serdeValueO_keys (kvs : List (Str × JVal)) : Obj.keys (serdeValueO kvs) = Obj.keys kvs := by
  rw [serdeValueO_eq_map]; simp [Obj.keys, List.map_map]

theorem serdeValueO_fix {l : List (Str × JVal)} (h : ∀ e ∈ l, serdeValue e.2 = e.2) : serdeValueO l = l := by
  rw [serdeValueO_eq_map]
  conv => rhs; rw [← List.map_id l]
  apply List.map_congr_left
  intro e he
  obtain ⟨k, v⟩ := e
  simp only [id]
  rw [h _ he]

theorem serdeValueL_fix {l : List JVal} (h : ∀ v ∈ l, serdeValue v = v) : serdeValueL l = l := by
  rw [serdeValueL_eq_map]
  conv => rhs; rw [← List.map_id l]
  exact List.map_congr_left (fun v hv => by simp only [id]; exact h v hv)

mutual
theorem serdeValue_idem : ∀ v : JVal, serdeValue (serdeValue v) = serdeValue v
  | .null => rfl
  | .bool _ => rfl
  | .int _ => rfl
  | .float => rfl
  | .str _ => rfl
  | .arr xs => by
    rw [serdeValue, serdeValue, serdeValueL_fix (serdeValueL_idem xs)]
  | .obj kvs => by
    rw [serdeValue, serdeValue]
    have h : ∀ e ∈ Obj.ofList (serdeValueO kvs), serdeValue e.2 = e.2 :=
      fun e he => serdeValueO_idem kvs e (mem_ofList he)
    rw [serdeValueO_fix h, ofList_of_sorted (ofList_sorted _)]
theorem serdeValueL_idem : ∀ xs : List JVal, ∀ v ∈ serdeValueL xs, serdeValue v = v
  | [], _, h => by simp [serdeValueL] at h
  | x :: t, v, h => by
    rw [serdeValueL] at h
    cases h with
    | head => exact serdeValue_idem x
    | tail _ h => exact serdeValueL_idem t v h
theorem serdeValueO_idem : ∀ kvs : List (Str × JVal), ∀ e ∈ serdeValueO kvs, serdeValue e.2 = e.2
  | [], _, h => by simp [serdeValueO] at h
  | (k, x) :: t, e, h => by
    rw [serdeValueO] at h
    cases h with
    | head => exact serdeValue_idem x
    | tail _ h => exact serdeValueO_idem t e h
end

theorem noDupKeysL_iff (xs : List JVal) : NoDupKeysL xs ↔ ∀ v ∈ xs, NoDupKeys v := by
  induction xs with
  | nil => simp [NoDupKeysL]
  | cons v t ih => simp [NoDupKeysL, ih]

theorem noDupKeysO_iff (kvs : List (Str × JVal)) : NoDupKeysO kvs ↔ ∀ e ∈ kvs, NoDupKeys e.2 := by
  induction kvs with
  | nil => simp [NoDupKeysO]
  | cons e t ih => obtain ⟨k, v⟩ := e; simp [NoDupKeysO, ih]

mutual
theorem serdeValue_noDup : ∀ v : JVal, NoDupKeys (serdeValue v)
  | .null => trivial
  | .bool _ => trivial
  | .int _ => trivial
  | .float => trivial
  | .str _ => trivial
  | .arr xs => by
    rw [serdeValue, NoDupKeys, noDupKeysL_iff]
    exact serdeValueL_noDup xs
  | .obj kvs => by
    rw [serdeValue, NoDupKeys, noDupKeysO_iff]
    exact ⟨sorted_keys_nodup (ofList_sorted _), fun e he => serdeValueO_noDup kvs e (mem_ofList he)⟩
theorem serdeValueL_noDup : ∀ xs : List JVal, ∀ v ∈ serdeValueL xs, NoDupKeys v
  | [], _, h => by simp [serdeValueL] at h
  | x :: t, v, h => by
    rw [serdeValueL] at h
    cases h with
    | head => exact serdeValue_noDup x
    | tail _ h => exact serdeValueL_noDup t v h
theorem serdeValueO_noDup : ∀ kvs : List (Str × JVal), ∀ e ∈ serdeValueO kvs, NoDupKeys e.2
  | [], _, h => by simp [serdeValueO] at h
  | (k, x) :: t, e, h => by
    rw [serdeValueO] at h
    cases h with
    | head => exact serdeValue_noDup x
    | tail _ h => exact serdeValueO_noDup t e h
end

mutual
theorem shuffled_serdeValue : ∀ {v w : JVal}, Shuffled v w → serdeValue v = serdeValue w
  | _, _, .atom _ => rfl
  | _, _, .arr h => by rw [serdeValue, serdeValue, shuffledL_serdeValue h]
  | _, _, .obj (kvs := kvs) (mid := mid) (kvs' := kvs') h hp hnd => by
    rw [serdeValue, serdeValue, shuffledO_serdeValue h]
    have hp' : (serdeValueO mid).Perm (serdeValueO kvs') := by
      rw [serdeValueO_eq_map, serdeValueO_eq_map]; exact hp.map _
    refine congrArg JVal.obj (ofList_perm hp' ?_)
    rw [serdeValueO_keys, ← shuffledO_keys h]; exact hnd
theorem shuffledL_serdeValue : ∀ {xs ys : List JVal}, ShuffledL xs ys → serdeValueL xs = serdeValueL ys
  | _, _, .nil => rfl
  | _, _, .cons h t => by rw [serdeValueL, serdeValueL, shuffled_serdeValue h, shuffledL_serdeValue t]
theorem shuffledO_serdeValue : ∀ {a b : List (Str × JVal)}, ShuffledO a b → serdeValueO a = serdeValueO b
  | _, _, .nil => rfl
  | _, _, .cons h t => by rw [serdeValueO, serdeValueO, shuffled_serdeValue h, shuffledO_serdeValue t]
end

theorem serdeValue_null {v : JVal} (h : serdeValue v = .null) : v = .null := by
  cases v <;> simp [serdeValue] at h ⊢

end Ruma.ContentSchema
