/-
  Helper lemmas for C18's schema model, part 2: `serdeValue` facts, the struct case, and the
  theorems of `Props/C18Schema.lean` in their inductive form. Core Lean only.
-/
import RumaModel.Lemmas.ContentSchema
import RumaModel.Spec.ContentSchema
namespace Ruma.ContentSchema
open Ruma Ruma.Canonical

/-! ### `serde_json::Value` -/

theorem serdeValueO_eq_map (kvs : List (Str × JVal)) :
    serdeValueO kvs = kvs.map (fun e => (e.1, serdeValue e.2)) := by
  induction kvs with
  | nil => rfl
  | cons e t ih => obtain ⟨k, v⟩ := e; rw [serdeValueO, ih]; rfl

theorem serdeValueL_eq_map (xs : List JVal) : serdeValueL xs = xs.map serdeValue := by
  induction xs with
  | nil => rfl
  | cons v t ih => rw [serdeValueL, ih]; rfl

theorem serdeValueO_keys (kvs : List (Str × JVal)) : Obj.keys (serdeValueO kvs) = Obj.keys kvs := by
  rw [serdeValueO_eq_map]; simp [Obj.keys, List.map_map]

theorem serdeValueO_fix {l : List (Str × JVal)} (h : ∀ e ∈ l, serdeValue e.2 = e.2) : serdeValueO l = l := by
  rw [serdeValueO_eq_map]
  conv => rhs; rw [← List.map_id l]
  apply List.map_congr_left
  intro e he
  obtain ⟨k, v⟩ := e
  simp only [id]
  rw [h _ he]

theorem serdeValueL_fix {l : List JVal} (h : ∀ v ∈ l, serdeValue v = v) : serdeValueL l = l := by
  rw [serdeValueL_eq_map]
  conv => rhs; rw [← List.map_id l]
  exact List.map_congr_left (fun v hv => by simp only [id]; exact h v hv)

mutual
theorem serdeValue_idem : ∀ v : JVal, serdeValue (serdeValue v) = serdeValue v
  | .null => rfl
  | .bool _ => rfl
  | .int _ => rfl
  | .float => rfl
  | .str _ => rfl
  | .arr xs => by
    rw [serdeValue, serdeValue, serdeValueL_fix (serdeValueL_idem xs)]
  | .obj kvs => by
    rw [serdeValue, serdeValue]
    have h : ∀ e ∈ Obj.ofList (serdeValueO kvs), serdeValue e.2 = e.2 :=
      fun e he => serdeValueO_idem kvs e (mem_ofList he)
    rw [serdeValueO_fix h, ofList_of_sorted (ofList_sorted _)]
theorem serdeValueL_idem : ∀ xs : List JVal, ∀ v ∈ serdeValueL xs, serdeValue v = v
  | [], _, h => by simp [serdeValueL] at h
  | x :: t, v, h => by
    rw [serdeValueL] at h
    cases h with
    | head => exact serdeValue_idem x
    | tail _ h => exact serdeValueL_idem t v h
theorem serdeValueO_idem : ∀ kvs : List (Str × JVal), ∀ e ∈ serdeValueO kvs, serdeValue e.2 = e.2
  | [], _, h => by simp [serdeValueO] at h
  | (k, x) :: t, e, h => by
    rw [serdeValueO] at h
    cases h with
    | head => exact serdeValue_idem x
    | tail _ h => exact serdeValueO_idem t e h
end

theorem noDupKeysL_iff (xs : List JVal) : NoDupKeysL xs ↔ ∀ v ∈ xs, NoDupKeys v := by
  induction xs with
  | nil => simp [NoDupKeysL]
  | cons v t ih => simp [NoDupKeysL, ih]

theorem noDupKeysO_iff (kvs : List (Str × JVal)) : NoDupKeysO kvs ↔ ∀ e ∈ kvs, NoDupKeys e.2 := by
  induction kvs with
  | nil => simp [NoDupKeysO]
  | cons e t ih => obtain ⟨k, v⟩ := e; simp [NoDupKeysO, ih]

mutual
theorem serdeValue_noDup : ∀ v : JVal, NoDupKeys (serdeValue v)
  | .null => trivial
  | .bool _ => trivial
  | .int _ => trivial
  | .float => trivial
  | .str _ => trivial
  | .arr xs => by
    rw [serdeValue, NoDupKeys, noDupKeysL_iff]
    exact serdeValueL_noDup xs
  | .obj kvs => by
    rw [serdeValue, NoDupKeys, noDupKeysO_iff]
    exact ⟨sorted_keys_nodup (ofList_sorted _), fun e he => serdeValueO_noDup kvs e (mem_ofList he)⟩
theorem serdeValueL_noDup : ∀ xs : List JVal, ∀ v ∈ serdeValueL xs, NoDupKeys v
  | [], _, h => by simp [serdeValueL] at h
  | x :: t, v, h => by
    rw [serdeValueL] at h
    cases h with
    | head => exact serdeValue_noDup x
    | tail _ h => exact serdeValueL_noDup t v h
theorem serdeValueO_noDup : ∀ kvs : List (Str × JVal), ∀ e ∈ serdeValueO kvs, NoDupKeys e.2
  | [], _, h => by simp [serdeValueO] at h
  | (k, x) :: t, e, h => by
    rw [serdeValueO] at h
    cases h with
    | head => exact serdeValue_noDup x
    | tail _ h => exact serdeValueO_noDup t e h
end

mutual
theorem shuffled_serdeValue : ∀ {v w : JVal}, Shuffled v w → serdeValue v = serdeValue w
  | _, _, .atom _ => rfl
  | _, _, .arr h => by rw [serdeValue, serdeValue, shuffledL_serdeValue h]
  | _, _, .obj (kvs := kvs) (mid := mid) (kvs' := kvs') h hp hnd => by
    rw [serdeValue, serdeValue, shuffledO_serdeValue h]
    have hp' : (serdeValueO mid).Perm (serdeValueO kvs') := by
      rw [serdeValueO_eq_map, serdeValueO_eq_map]; exact hp.map _
    refine congrArg JVal.obj (ofList_perm hp' ?_)
    rw [serdeValueO_keys, ← shuffledO_keys h]; exact hnd
theorem shuffledL_serdeValue : ∀ {xs ys : List JVal}, ShuffledL xs ys → serdeValueL xs = serdeValueL ys
  | _, _, .nil => rfl
  | _, _, .cons h t => by rw [serdeValueL, serdeValueL, shuffled_serdeValue h, shuffledL_serdeValue t]
theorem shuffledO_serdeValue : ∀ {a b : List (Str × JVal)}, ShuffledO a b → serdeValueO a = serdeValueO b
  | _, _, .nil => rfl
  | _, _, .cons h t => by rw [serdeValueO, serdeValueO, shuffled_serdeValue h, shuffledO_serdeValue t]
end

theorem serdeValue_null {v : JVal} (h : serdeValue v = .null) : v = .null := by
  cases v <;> simp [serdeValue] at h ⊢

/-! ### The struct case -/

theorem absentOut_emit {req : Bool} {dflt : Option JVal} {d : JVal} :
    absentOut req dflt = .emit d ↔ req = false ∧ dflt = some d := by
  unfold absentOut
  cases req <;> cases dflt <;> simp

theorem absentOut_omit {req : Bool} {dflt : Option JVal} :
    absentOut req dflt = .nothing ↔ req = false ∧ dflt = none := by
  unfold absentOut
  cases req <;> cases dflt <;> simp

def outs (fs : List Field) (o : Obj) : List (Str × Out) := fs.map (fun f => (f.name, outOf f (f.look o)))

theorem project_obj' (fields : List Field) (keep : Bool) (o : Obj) :
    project (.obj fields keep) (.obj o) =
      match collect (outs fields o) with
      | some out => some (.obj (out ++ (if keep then Obj.ofList (serdeValueO (o.filter (fun e => !known fields e.1))) else [])))
      | none => none := project_obj fields keep o

theorem collect_mem : ∀ {l : List (Str × Out)} {out : Obj}, collect l = some out →
    ∀ e ∈ out, (e.1, Out.emit e.2) ∈ l
  | [], out, h, e, he => by simp [collect] at h; subst h; cases he
  | (k, .fail) :: t, out, h, e, he => by simp [collect] at h
  | (k, .nothing) :: t, out, h, e, he => by
    rw [collect] at h
    exact List.mem_cons_of_mem _ (collect_mem h e he)
  | (k, .emit v) :: t, out, h, e, he => by
    rw [collect] at h
    cases ht : collect t with
    | none => rw [ht] at h; cases h
    | some out' =>
      rw [ht] at h
      simp only [Option.some.injEq] at h
      subst h
      cases he with
      | head => exact List.mem_cons_self ..
      | tail _ he => exact List.mem_cons_of_mem _ (collect_mem ht e he)

theorem collect_no_fail : ∀ {l : List (Str × Out)} {out : Obj}, collect l = some out →
    ∀ p ∈ l, p.2 ≠ .fail
  | [], _, _, p, hp => by cases hp
  | (k, .fail) :: t, out, h, p, hp => by simp [collect] at h
  | (k, .nothing) :: t, out, h, p, hp => by
    rw [collect] at h
    cases hp with
    | head => intro e; cases e
    | tail _ hp => exact collect_no_fail h p hp
  | (k, .emit v) :: t, out, h, p, hp => by
    rw [collect] at h
    cases ht : collect t with
    | none => rw [ht] at h; cases h
    | some out' =>
      cases hp with
      | head => intro e; cases e
      | tail _ hp => exact collect_no_fail ht p hp

theorem mem_collect : ∀ {l : List (Str × Out)} {out : Obj}, collect l = some out →
    ∀ {k : Str} {v : JVal}, (k, Out.emit v) ∈ l → (k, v) ∈ out
  | [], _, _, _, _, hm => by cases hm
  | (k', .fail) :: t, out, h, _, _, hm => by simp [collect] at h
  | (k', .nothing) :: t, out, h, k, v, hm => by
    rw [collect] at h
    cases hm with
    | tail _ hm => exact mem_collect h hm
  | (k', .emit v') :: t, out, h, k, v, hm => by
    rw [collect] at h
    cases ht : collect t with
    | none => rw [ht] at h; cases h
    | some out' =>
      rw [ht] at h
      simp only [Option.some.injEq] at h
      subst h
      cases hm with
      | head => exact List.mem_cons_self ..
      | tail _ hm => exact List.mem_cons_of_mem _ (mem_collect ht hm)

theorem spelledBy_self (f : Field) : f.spelledBy f.name = true := by
  simp [Field.spelledBy, spells]

theorem known_of_mem {fs : List Field} {f : Field} {k : Str} (hf : f ∈ fs) (h : f.spelledBy k = true) :
    known fs k = true := List.any_eq_true.mpr ⟨f, hf, h⟩

theorem mem_outs {fs : List Field} {o : Obj} {p : Str × Out} (h : p ∈ outs fs o) :
    ∃ g ∈ fs, p = (g.name, outOf g (g.look o)) := by
  simp only [outs, List.mem_map] at h
  obtain ⟨g, hg, e⟩ := h
  exact ⟨g, hg, e.symm⟩

/-- Every written key is the name of a field. -/
theorem out_key_is_name {fs : List Field} {o out : Obj} (h : collect (outs fs o) = some out) :
    ∀ e ∈ out, ∃ g ∈ fs, g.name = e.1 ∧ outOf g (g.look o) = .emit e.2 := by
  intro e he
  obtain ⟨g, hg, eq⟩ := mem_outs (collect_mem h e he)
  simp only [Prod.mk.injEq] at eq
  exact ⟨g, hg, eq.1.symm, eq.2.symm⟩

theorem filter_out_nil {fs : List Field} {o out : Obj} {n : Str} {a : List Str}
    (h : collect (outs fs o) = some out) (hd : ∀ g ∈ fs, spells n a g.name = false) :
    out.filter (fun e => spells n a e.1) = [] := by
  rw [List.filter_eq_nil_iff]
  intro e he
  obtain ⟨g, hg, hn, _⟩ := out_key_is_name h e he
  rw [← hn, hd g hg]; simp

theorem filter_out_self : ∀ {fs : List Field} {o out : Obj}, Distinct fs → collect (outs fs o) = some out →
    ∀ {f : Field}, f ∈ fs →
    out.filter (fun e => f.spelledBy e.1) =
      match outOf f (f.look o) with
      | .emit v => [(f.name, v)]
      | _ => []
  | [], _, _, _, _, _, hf => by cases hf
  | g :: fs', o, out, hd, h, f, hf => by
    have hd' : (∀ x ∈ fs', g.spelledBy x.name = false ∧ x.spelledBy g.name = false) ∧ Distinct fs' :=
      List.pairwise_cons.mp hd
    simp only [outs, List.map_cons] at h
    change collect ((g.name, outOf g (g.look o)) :: outs fs' o) = some out at h
    cases hf with
    | head =>
      have hnil : ∀ out', collect (outs fs' o) = some out' → out'.filter (fun e => g.spelledBy e.1) = [] :=
        fun out' h' => filter_out_nil (n := g.name) (a := g.aliases) h' (fun x hx => (hd'.1 x hx).1)
      cases hg : outOf g (g.look o) with
      | fail => rw [hg] at h; simp [collect] at h
      | nothing => rw [hg, collect] at h; exact hnil out h
      | emit v =>
        rw [hg, collect] at h
        cases ht : collect (outs fs' o) with
        | none => rw [ht] at h; cases h
        | some out' =>
          rw [ht] at h
          simp only [Option.some.injEq] at h
          subst h
          rw [List.filter_cons, if_pos (spelledBy_self g), hnil out' ht]
    | tail _ hf' =>
      have hne : f.spelledBy g.name = false := (hd'.1 f hf').2
      cases hg : outOf g (g.look o) with
      | fail => rw [hg] at h; simp [collect] at h
      | nothing => rw [hg, collect] at h; exact filter_out_self hd'.2 h hf'
      | emit v =>
        rw [hg, collect] at h
        cases ht : collect (outs fs' o) with
        | none => rw [ht] at h; cases h
        | some out' =>
          rw [ht] at h
          simp only [Option.some.injEq] at h
          subst h
          rw [List.filter_cons]
          simp only [hne, Bool.false_eq_true, if_false]
          exact filter_out_self hd'.2 ht hf'

theorem distinct_ne : ∀ {fs : List Field}, Distinct fs → ∀ {a b : Field}, a ∈ fs → b ∈ fs → a ≠ b →
    a.spelledBy b.name = false
  | [], _, _, _, ha, _, _ => by cases ha
  | g :: fs', hd, a, b, ha, hb, hab => by
    have hd' : (∀ x ∈ fs', g.spelledBy x.name = false ∧ x.spelledBy g.name = false) ∧ Distinct fs' :=
      List.pairwise_cons.mp hd
    cases ha with
    | head =>
      cases hb with
      | head => exact absurd rfl hab
      | tail _ hb => exact (hd'.1 b hb).1
    | tail _ ha =>
      cases hb with
      | head => exact (hd'.1 a ha).2
      | tail _ hb => exact distinct_ne hd'.2 ha hb hab

theorem look_append (f : Field) (a b : Obj) :
    f.look (a ++ b) = pick (a.filter (fun e => f.spelledBy e.1) ++ b.filter (fun e => f.spelledBy e.1)) := by
  simp only [Field.look, look, List.filter_append]; rfl

theorem outOf_ghost {f : Field} (h : f.ghost = true) (l : Look) : outOf f l = absentOut f.req f.dflt := by
  simp [outOf, h]
theorem outOf_absent (f : Field) : outOf f .absent = absentOut f.req f.dflt := by
  unfold outOf; cases f.ghost <;> rfl
theorem outOf_dup {f : Field} (h : f.ghost = false) : outOf f .dup = .fail := by
  simp [outOf, h]
theorem outOf_one {f : Field} (h : f.ghost = false) (v : JVal) :
    outOf f (.one v) =
      if (f.nullAbsent && isNull v) = true then absentOut f.req f.dflt else
      match project f.schema v with
      | some nv => if f.skip nv = true then .nothing else .emit nv
      | none => if f.lenient = true then absentOut f.req f.dflt else .fail := by
  unfold outOf; rw [h]; rfl

/-- The three ways a field comes to write a value / nothing. -/
theorem outOf_cases (f : Field) (l : Look) (r : Out) (h : outOf f l = r) :
    r = .fail ∨ absentOut f.req f.dflt = r ∨
      ∃ v0 nv, f.ghost = false ∧ l = .one v0 ∧ (f.nullAbsent && isNull v0) = false ∧ project f.schema v0 = some nv ∧
        r = (if f.skip nv = true then .nothing else .emit nv) := by
  cases hg : f.ghost with
  | true => right; left; rw [← h, outOf_ghost hg]
  | false =>
  cases l with
  | dup => left; rw [← h, outOf_dup hg]
  | absent => right; left; rw [← h, outOf_absent]
  | one v0 =>
    rw [outOf_one hg] at h
    by_cases hc : (f.nullAbsent && isNull v0) = true
    · rw [if_pos hc] at h; exact .inr (.inl h)
    · rw [if_neg hc] at h
      cases hp : project f.schema v0 with
      | none =>
        rw [hp] at h
        by_cases hl : f.lenient = true
        · rw [if_pos hl] at h; exact .inr (.inl h)
        · rw [if_neg hl] at h; exact .inl h.symm
      | some nv =>
        rw [hp] at h
        exact .inr (.inr ⟨v0, nv, rfl, rfl, by simpa using hc, hp, h.symm⟩)

/-- Re-reading what a field wrote gives the same contribution. -/
theorem outOf_reread {f : Field} (hok : f.Ok)
    (hidem : ∀ v v', project f.schema v = some v' → project f.schema v' = some v')
    (hnull : ∀ v, project f.schema v = some .null → v = .null) (l : Look) :
    (∀ v, outOf f l = .emit v → outOf f (.one v) = .emit v) ∧
    (outOf f l = .nothing → outOf f .absent = .nothing) := by
  have hdflt : ∀ d, absentOut f.req f.dflt = .emit d → outOf f (.one d) = .emit d := by
    intro d hd
    obtain ⟨_, hd2⟩ := absentOut_emit.mp hd
    cases hg : f.ghost with
    | true => rw [outOf_ghost hg]; exact hd
    | false =>
    rw [outOf_one hg]
    by_cases hc : (f.nullAbsent && isNull d) = true
    · rw [if_pos hc]; exact hd
    · rw [if_neg hc]
      rcases hok.2 d hd2 with ⟨h1, h2⟩ | h
      · subst h2; simp [h1, isNull] at hc
      · rw [h]
        have : f.skip d = false := hok.1 (.inr (by rw [hd2]; rfl)) d
        simp [this]
  have hskip : ∀ nv, f.skip nv = true → absentOut f.req f.dflt = .nothing := by
    intro nv hs
    apply absentOut_omit.mpr
    constructor
    · cases hr : f.req with
      | false => rfl
      | true => have := hok.1 (.inl hr) nv; rw [hs] at this; cases this
    · cases hdf : f.dflt with
      | none => rfl
      | some d => have := hok.1 (.inr (by rw [hdf]; rfl)) nv; rw [hs] at this; cases this
  constructor
  · intro v h
    rcases outOf_cases f l _ h with h1 | h1 | ⟨v0, nv, hg, _, hc, hp, hr⟩
    · cases h1
    · exact hdflt v h1
    · by_cases hs : f.skip nv = true
      · rw [if_pos hs] at hr; cases hr
      · rw [if_neg hs] at hr
        simp only [Out.emit.injEq] at hr
        subst hr
        have hc' : ¬ (f.nullAbsent && isNull v) = true := by
          intro hcn
          simp only [Bool.and_eq_true] at hcn
          have hv : v = .null := by
            cases v <;> simp [isNull] at hcn ⊢
          subst hv
          have := hnull v0 hp
          subst this
          simp [hcn.1, isNull] at hc
        rw [outOf_one hg, if_neg hc', hidem v0 v hp]
        simp [hs]
  · intro h
    rw [outOf_absent]
    rcases outOf_cases f l _ h with h1 | h1 | ⟨v0, nv, _, _, hc, hp, hr⟩
    · cases h1
    · exact h1
    · by_cases hs : f.skip nv = true
      · exact hskip nv hs
      · rw [if_neg hs] at hr; cases hr

/-! ### `null` comes only from `null` -/

theorem project_scalar (norm : JVal → Option JVal) (v : JVal) :
    project (.scalar norm) v =
      if isScalar v = true then
        (match norm v with
         | some b => if isScalar b = true then some b else none
         | none => none)
      else none := by
  rw [project]; rfl

theorem project_scalar_some {norm : JVal → Option JVal} {v v' : JVal} (h : project (.scalar norm) v = some v') :
    isScalar v = true ∧ norm v = some v' ∧ isScalar v' = true := by
  rw [project_scalar] at h
  by_cases h1 : isScalar v = true
  · rw [if_pos h1] at h
    cases hn : norm v with
    | none => rw [hn] at h; cases h
    | some b =>
      rw [hn] at h
      simp only at h
      by_cases h2 : isScalar b = true
      · rw [if_pos h2] at h
        simp only [Option.some.injEq] at h
        subst h
        exact ⟨h1, rfl, h2⟩
      · rw [if_neg h2] at h; cases h
  · rw [if_neg h1] at h; cases h

theorem project_ne_null : ∀ (s : Schema), WF s → ∀ (v : JVal), project s v = some .null → v = .null := by
  intro s
  induction s using Schema.ind with
  | any => intro _ v h; rw [project] at h; exact serdeValue_null (Option.some.inj h)
  | scalar n =>
    intro hwf v h
    cases hwf with
    | scalar _ hnull => exact hnull v (project_scalar_some h).2.1
  | arr e _ =>
    intro _ v h
    cases v <;> simp only [project, reduceCtorEq] at h
    split at h <;> simp at h
  | map ok s _ =>
    intro _ v h
    cases v <;> simp only [project, reduceCtorEq] at h
    split at h <;> simp at h
  | obj fields keep _ =>
    intro _ v h
    cases v <;> simp only [project, reduceCtorEq] at h
    split at h <;> simp at h
  | nullOr s ih =>
    intro hwf v h
    cases hwf with
    | nullOr hs =>
    cases v with
    | null => rfl
    | _ => rw [project_nullOr _ _ (by intro e; cases e)] at h; exact ih hs _ h
  | tagged tag cases ih =>
    intro hwf v h
    cases hwf with
    | tagged hsub _ =>
    cases v with
    | obj o =>
      rw [project_tagged] at h
      cases ht : tagOf tag o with
      | none => rw [ht] at h; cases h
      | some t =>
        rw [ht] at h
        simp only at h
        cases hf : cases.find? (fun c => c.label == t) with
        | none => rw [hf] at h; cases h
        | some c =>
          rw [hf] at h
          exact ih c (List.mem_of_find?_eq_some hf) (hsub c (List.mem_of_find?_eq_some hf)) _ h
    | _ => simp [project] at h

/-! ### Fixpoint -/

/-- The entry reader of a `BTreeMap<K, V>`. -/
def mapEntry (ok : Str → Bool) (s : Schema) (kv : Str × JVal) : Option (Str × JVal) :=
  if ok kv.1 then (match project s kv.2 with | some w => some (kv.1, w) | none => none) else none

theorem project_map (ok : Str → Bool) (s : Schema) (kvs : List (Str × JVal)) :
    project (.map ok s) (.obj kvs) =
      match allSome (kvs.map (mapEntry ok s)) with
      | some l => some (.obj (Obj.ofList l))
      | none => none := by
  rw [project]; rfl

theorem mapEntry_some {ok : Str → Bool} {s : Schema} {kv e : Str × JVal} (h : mapEntry ok s kv = some e) :
    ok kv.1 = true ∧ e.1 = kv.1 ∧ project s kv.2 = some e.2 := by
  unfold mapEntry at h
  by_cases hk : ok kv.1 = true
  · rw [if_pos hk] at h
    cases hp : project s kv.2 with
    | none => rw [hp] at h; cases h
    | some w => rw [hp] at h; simp only [Option.some.injEq] at h; subst h; exact ⟨hk, rfl, rfl⟩
  · rw [if_neg hk] at h; cases h

/-- The struct case of the fixpoint theorem, from the fixpoint property of the fields' types. -/
theorem obj_idem {fields : List Field} {keep : Bool}
    (hsub : ∀ f ∈ fields, WF f.schema) (hok : ∀ f ∈ fields, f.Ok) (hd : Distinct fields)
    (ih : ∀ f ∈ fields, ∀ v v', project f.schema v = some v' → project f.schema v' = some v')
    {o : Obj} {v' : JVal} (h : project (.obj fields keep) (.obj o) = some v') :
    project (.obj fields keep) v' = some v' := by
  rw [project_obj'] at h
  cases hc : collect (outs fields o) with
  | none => rw [hc] at h; cases h
  | some out =>
    rw [hc] at h
    simp only [Option.some.injEq] at h
    subst h
    generalize hrest : (if keep = true then Obj.ofList (serdeValueO (o.filter (fun e => !known fields e.1))) else []) = rest
    -- the kept entries: unknown keys, already maps, sorted
    have hrest_unknown : ∀ e ∈ rest, known fields e.1 = false := by
      intro e he
      cases keep with
      | false => simp at hrest; subst hrest; cases he
      | true =>
        simp only [if_true] at hrest
        subst hrest
        have h1 := mem_ofList he
        rw [serdeValueO_eq_map, List.mem_map] at h1
        obtain ⟨e0, he0, rfl⟩ := h1
        have := (List.mem_filter.mp he0).2
        simpa using this
    have hrest_fix : (if keep = true then Obj.ofList (serdeValueO (rest.filter (fun e => !known fields e.1))) else []) = rest := by
      cases keep with
      | false => simp at hrest ⊢; exact hrest
      | true =>
        simp only [if_true] at hrest ⊢
        have hf : rest.filter (fun e => !known fields e.1) = rest :=
          List.filter_eq_self.mpr (fun e he => by simp [hrest_unknown e he])
        rw [hf, ← hrest]
        have hfix : ∀ e ∈ Obj.ofList (serdeValueO (o.filter (fun e => !known fields e.1))), serdeValue e.2 = e.2 :=
          fun e he => serdeValueO_idem _ e (mem_ofList he)
        rw [serdeValueO_fix hfix, ofList_of_sorted (ofList_sorted _)]
    have hout_known : ∀ e ∈ out, known fields e.1 = true := by
      intro e he
      obtain ⟨g, hg, hn, _⟩ := out_key_is_name hc e he
      exact known_of_mem hg (hn ▸ spelledBy_self g)
    rw [project_obj']
    -- every field reads back what it wrote
    have hlook : ∀ f ∈ fields, outOf f (f.look (out ++ rest)) = outOf f (f.look o) := by
      intro f hf
      have hr : rest.filter (fun e => f.spelledBy e.1) = [] := by
        rw [List.filter_eq_nil_iff]
        intro e he hsp
        have := known_of_mem hf hsp
        rw [hrest_unknown e he] at this; cases this
      have hre := outOf_reread (hok f hf) (ih f hf) (project_ne_null f.schema (hsub f hf)) (f.look o)
      rw [look_append, hr, List.append_nil, filter_out_self hd hc hf]
      cases hof : outOf f (f.look o) with
      | fail => exact absurd hof (collect_no_fail hc (f.name, _) (List.mem_map.mpr ⟨f, hf, rfl⟩))
      | nothing => exact hre.2 hof
      | emit v => exact hre.1 v hof
    have houts : outs fields (out ++ rest) = outs fields o :=
      List.map_congr_left (fun f hf => by rw [hlook f hf])
    rw [houts, hc]
    simp only
    have hf1 : (out ++ rest).filter (fun e => !known fields e.1) = rest.filter (fun e => !known fields e.1) := by
      rw [List.filter_append]
      have : out.filter (fun e => !known fields e.1) = [] := by
        rw [List.filter_eq_nil_iff]
        intro e he
        simp [hout_known e he]
      rw [this, List.nil_append]
    rw [hf1, hrest_fix]

theorem tagOf_eq_some {tag : Str} {o : Obj} {t : Str} (h : tagOf tag o = some t) :
    ∃ e, o.filter (fun e => e.1 == tag) = [e] ∧ e.2 = .str t := by
  unfold tagOf at h
  match hf : o.filter (fun e => e.1 == tag) with
  | [] => rw [hf] at h; simp [pick] at h
  | [e] =>
    rw [hf] at h
    simp only [pick] at h
    refine ⟨e, hf, ?_⟩
    cases h2 : e.2 <;> rw [h2] at h <;> simp at h
    rw [h]
  | _ :: _ :: _ => rw [hf] at h; simp [pick] at h

/-- A case's struct writes its discriminator, and writes it once. -/
theorem tagFixed_out {tag label : Str} {s : Schema} (hwf : WF s) (htf : TagFixed tag label s)
    {o : Obj} {v' : JVal} (h : project s (.obj o) = some v') :
    ∃ o', v' = .obj o' ∧ tagOf tag o' = some label := by
  obtain ⟨fields, keep, rfl, f, hf, hname, hreq, hgh, norm, hs, hnorm⟩ := htf
  cases hwf with
  | obj _ hok hd _ =>
    rw [project_obj'] at h
    cases hc : collect (outs fields o) with
    | none => rw [hc] at h; cases h
    | some out =>
      rw [hc] at h
      simp only [Option.some.injEq] at h
      subst h
      refine ⟨_, rfl, ?_⟩
      -- the discriminator field wrote `label`
      have hemit : outOf f (f.look o) = .emit (.str label) := by
        have hnf := collect_no_fail hc (f.name, _) (List.mem_map.mpr ⟨f, hf, rfl⟩)
        rcases outOf_cases f (f.look o) _ rfl with h1 | h1 | ⟨v0, nv, _, _, _, hp, hr⟩
        · exact absurd h1 hnf
        · unfold absentOut at h1
          rw [hreq] at h1
          exact absurd h1.symm hnf
        · have hsk : f.skip nv = false := (hok f hf).1 (.inl hreq) nv
          rw [hr, hsk]
          simp only [Bool.false_eq_true, if_false, Out.emit.injEq]
          rw [hs] at hp
          exact hnorm v0 nv (project_scalar_some hp).2.1
      have hfilt : ∀ l : Obj, l.filter (fun e => e.1 == tag) = l.filter (fun e => e.1 == f.name) := by
        intro l; rw [hname]
      -- keys equal to `tag` among the written fields: exactly that one
      have h1 : out.filter (fun e => e.1 == tag) = [(f.name, .str label)] := by
        have hself := filter_out_self hd hc hf
        rw [hemit] at hself
        simp only at hself
        rw [← hself]
        apply List.filter_congr
        intro e he
        obtain ⟨g, hg, hn, _⟩ := out_key_is_name hc e he
        by_cases hgf : e.1 = tag
        · have : f.spelledBy e.1 = true := by rw [hgf, ← hname]; exact spelledBy_self f
          rw [this]; simp [hgf]
        · have h2 : (e.1 == tag) = false := by simpa using hgf
          rw [h2]
          symm
          -- `e.1` is the name of another field `g`, which `f` does not spell
          by_cases hfg : g = f
          · subst hfg; exact absurd (hn.symm.trans hname) hgf
          · have := distinct_ne hd hf hg (fun e => hfg e.symm)
            rw [hn] at this; exact this
      have h2 : ∀ rest : Obj, (∀ e ∈ rest, known fields e.1 = false) → rest.filter (fun e => e.1 == tag) = [] := by
        intro rest hr
        rw [List.filter_eq_nil_iff]
        intro e he hk
        have : known fields e.1 = true := known_of_mem hf (by
          have : e.1 = tag := by simpa using hk
          rw [this, ← hname]; exact spelledBy_self f)
        rw [hr e he] at this; cases this
      have hrest : ∀ e ∈ (if keep = true then Obj.ofList (serdeValueO (o.filter (fun e => !known fields e.1))) else []),
          known fields e.1 = false := by
        intro e he
        cases keep with
        | false => simp at he
        | true =>
          simp only [if_true] at he
          have h1 := mem_ofList he
          rw [serdeValueO_eq_map, List.mem_map] at h1
          obtain ⟨e0, he0, rfl⟩ := h1
          simpa using (List.mem_filter.mp he0).2
      unfold tagOf
      rw [List.filter_append, h1, h2 _ hrest]
      rfl

theorem project_idem : ∀ (s : Schema), WF s → ∀ v v', project s v = some v' → project s v' = some v' := by
  intro s
  induction s using Schema.ind with
  | any =>
    intro _ v v' h
    rw [project] at h ⊢
    simp only [Option.some.injEq] at h
    subst h
    rw [serdeValue_idem]
  | scalar n =>
    intro hwf v v' h
    cases hwf with
    | scalar hn _ =>
      obtain ⟨_, h2, h3⟩ := project_scalar_some h
      rw [project_scalar, if_pos h3, hn v v' h2]
      simp [h3]
  | arr e ih =>
    intro hwf v v' h
    cases hwf with
    | arr he =>
      cases v <;> simp only [project, reduceCtorEq] at h
      rename_i xs
      cases ha : allSome (xs.map (project e)) with
      | none => rw [ha] at h; cases h
      | some ys =>
        rw [ha] at h
        simp only [Option.some.injEq] at h
        subst h
        rw [project]
        have : allSome (ys.map (project e)) = some ys := by
          apply allSome_map_fix
          intro y hy
          obtain ⟨x, _, hxy⟩ := forall₂_mem_right (allSome_map_eq_some ha) y hy
          exact ih he x y hxy
        rw [this]
  | map ok s ih =>
    intro hwf v v' h
    cases hwf with
    | map hs =>
      cases v with
      | null | bool _ | int _ | float | str _ | arr _ => simp [project] at h
      | obj kvs =>
      rw [project_map] at h
      cases ha : allSome (kvs.map (mapEntry ok s)) with
      | none => rw [ha] at h; cases h
      | some l =>
        rw [ha] at h
        simp only [Option.some.injEq] at h
        subst h
        rw [project_map]
        have : allSome ((Obj.ofList l).map (mapEntry ok s)) = some (Obj.ofList l) := by
          apply allSome_map_fix
          intro e he
          obtain ⟨kv, _, hkv⟩ := forall₂_mem_right (allSome_map_eq_some ha) e (mem_ofList he)
          obtain ⟨h1, h2, h3⟩ := mapEntry_some hkv
          unfold mapEntry
          rw [h2, if_pos h1, ih hs _ _ h3]
          simp only
          rw [← h2]
        rw [this]
        simp only
        rw [ofList_of_sorted (ofList_sorted _)]
  | obj fields keep ih =>
    intro hwf v v' h
    cases hwf with
    | obj hsub hok hd _ =>
      cases v with
      | obj o => exact obj_idem hsub hok hd (fun f hf => ih f hf (hsub f hf)) h
      | _ => simp [project] at h
  | nullOr s ih =>
    intro hwf v v' h
    cases hwf with
    | nullOr hs =>
      by_cases hv : v = .null
      · subst hv
        rw [project_nullOr_null] at h
        simp only [Option.some.injEq] at h
        subst h
        exact project_nullOr_null s
      · rw [project_nullOr _ _ hv] at h
        by_cases hv' : v' = .null
        · subst hv'; exact project_nullOr_null s
        · rw [project_nullOr _ _ hv']; exact ih hs _ _ h
  | tagged tag cases ih =>
    intro hwf v v' h
    cases hwf with
    | tagged hsub htf =>
      cases v with
      | null | bool _ | int _ | float | str _ | arr _ => simp [project] at h
      | obj o =>
      rw [project_tagged] at h
      cases ht : tagOf tag o with
      | none => rw [ht] at h; cases h
      | some t =>
        rw [ht] at h
        simp only at h
        cases hf : cases.find? (fun c => c.label == t) with
        | none => rw [hf] at h; cases h
        | some c =>
          rw [hf] at h
          simp only at h
          have hc := List.mem_of_find?_eq_some hf
          have hlab : c.label = t := by simpa using List.find?_some hf
          obtain ⟨o', rfl, ho'⟩ := tagFixed_out (hsub c hc) (htf c hc) h
          rw [project_tagged, ho', hlab]
          simp only
          rw [hf]
          exact ih c hc (hsub c hc) _ _ h

end Ruma.ContentSchema
