/-
  Basic lemmas for the state-resolution model: association lists as maps, counting, `dedup`.
-/
import RumaModel.Model.StateRes
namespace Ruma.StateRes
open Ruma

namespace AL
variable {κ : Type} {β : Type} [DecidableEq κ]

def keys (m : List (κ × β)) : List κ := m.map (·.1)

@[simp] theorem get_nil (k : κ) : get ([] : List (κ × β)) k = none := rfl

theorem get_cons (q : κ) (w : β) (t : List (κ × β)) (k : κ) :
    get ((q, w) :: t) k = if q = k then some w else get t k := rfl

theorem get_insert_self : ∀ (m : List (κ × β)) (k : κ) (v : β), get (insert m k v) k = some v
  | [], k, v => by simp [insert, get]
  | (q, w) :: t, k, v => by
    by_cases h : q = k
    · simp [insert, get, h]
    · simp [insert, get, h, get_insert_self t k v]

theorem get_insert_ne : ∀ (m : List (κ × β)) (k k' : κ) (v : β), k ≠ k' →
    get (insert m k v) k' = get m k'
  | [], k, k', v, h => by simp [insert, get, h]
  | (q, w) :: t, k, k', v, h => by
    by_cases hq : q = k
    · subst hq; simp [insert, get, h]
    · simp only [insert, hq, if_false, get]
      rw [get_insert_ne t k k' v h]

theorem get_insert (m : List (κ × β)) (k k' : κ) (v : β) :
    get (insert m k v) k' = if k = k' then some v else get m k' := by
  by_cases h : k = k'
  · subst h; simp [get_insert_self]
  · simp [h, get_insert_ne m k k' v h]

theorem keys_insert_of_mem : ∀ (m : List (κ × β)) (k : κ) (v : β), k ∈ keys m →
    keys (insert m k v) = keys m
  | [], k, v, h => by simp [keys] at h
  | (q, w) :: t, k, v, h => by
    by_cases hq : q = k
    · simp [insert, hq, keys]
    · have : k ∈ keys t := by
        simp only [keys, List.map_cons, List.mem_cons] at h
        rcases h with h | h
        · exact absurd h.symm hq
        · exact h
      simp only [insert, hq, if_false, keys, List.map_cons]
      have ih := keys_insert_of_mem t k v this
      simp only [keys] at ih; rw [ih]

theorem keys_insert_of_not_mem : ∀ (m : List (κ × β)) (k : κ) (v : β), k ∉ keys m →
    keys (insert m k v) = keys m ++ [k]
  | [], k, v, _ => by simp [insert, keys]
  | (q, w) :: t, k, v, h => by
    have hq : q ≠ k := by intro hq; apply h; simp [keys, hq]
    have : k ∉ keys t := by intro h'; apply h; simp only [keys, List.map_cons, List.mem_cons]; exact .inr h'
    simp only [insert, hq, if_false, keys, List.map_cons, List.cons_append]
    have ih := keys_insert_of_not_mem t k v this
    simp only [keys] at ih; rw [ih]

theorem keys_nodup_insert (m : List (κ × β)) (k : κ) (v : β) (h : (keys m).Nodup) :
    (keys (insert m k v)).Nodup := by
  by_cases hk : k ∈ keys m
  · rw [keys_insert_of_mem m k v hk]; exact h
  · rw [keys_insert_of_not_mem m k v hk]
    rw [List.nodup_append]
    exact ⟨h, by simp, by intro a ha b hb; simp at hb; subst hb; intro e; subst e; exact hk ha⟩

theorem mem_keys_insert (m : List (κ × β)) (k k' : κ) (v : β) :
    k' ∈ keys (insert m k v) ↔ k' = k ∨ k' ∈ keys m := by
  by_cases hk : k ∈ keys m
  · rw [keys_insert_of_mem m k v hk]
    constructor
    · exact .inr
    · rintro (rfl | h); exact hk; exact h
  · rw [keys_insert_of_not_mem m k v hk]; simp [or_comm]

theorem get_eq_none_iff : ∀ (m : List (κ × β)) (k : κ), get m k = none ↔ k ∉ keys m
  | [], k => by simp [keys]
  | (q, w) :: t, k => by
    by_cases hq : q = k
    · simp [get, hq, keys]
    · simp only [get, hq, if_false, keys, List.map_cons, List.mem_cons, not_or]
      rw [get_eq_none_iff t k]
      simp [keys, Ne.symm hq]

theorem get_some_mem : ∀ {m : List (κ × β)} {k : κ} {v : β}, get m k = some v → (k, v) ∈ m
  | [], _, _, h => by simp at h
  | (q, w) :: t, k, v, h => by
    by_cases hq : q = k
    · simp [get, hq] at h; subst h; subst hq; simp
    · simp only [get, hq, if_false] at h
      exact List.mem_cons_of_mem _ (get_some_mem h)

theorem get_of_mem_nodup : ∀ {m : List (κ × β)} {k : κ} {v : β}, (keys m).Nodup → (k, v) ∈ m →
    get m k = some v
  | [], _, _, _, h => by simp at h
  | (q, w) :: t, k, v, hn, h => by
    simp only [keys, List.map_cons, List.nodup_cons] at hn
    rcases List.mem_cons.mp h with h | h
    · cases h; simp [get]
    · have : q ≠ k := by
        intro e; subst e; exact hn.1 (List.mem_map_of_mem (f := Prod.fst) h)
      simp only [get, this, if_false]
      exact get_of_mem_nodup hn.2 h

/-- On maps (distinct keys), lookup does not depend on the storage order. -/
theorem get_perm {m m' : List (κ × β)} (hn : (keys m).Nodup) (hp : m.Perm m') (k : κ) :
    get m k = get m' k := by
  have hpk : (keys m).Perm (keys m') := hp.map _
  have hn' : (keys m').Nodup := hpk.nodup hn
  cases h : get m k with
  | none =>
    have := (get_eq_none_iff m k).mp h
    symm; rw [get_eq_none_iff]
    intro h'; apply this
    exact hpk.mem_iff.mpr h'
  | some v =>
    symm
    exact get_of_mem_nodup hn' (hp.mem_iff.mp (get_some_mem h))

end AL

/-! ### `dedup` -/

theorem mem_dedup [DecidableEq α] {a : α} : ∀ {l : List α}, a ∈ dedup l ↔ a ∈ l
  | [] => by simp [dedup]
  | x :: xs => by
    simp only [dedup]
    split
    next h =>
      rw [mem_dedup (l := xs)]
      constructor
      · exact List.mem_cons_of_mem _
      · intro h'; rcases List.mem_cons.mp h' with rfl | h'; exact h; exact h'
    next h =>
      simp only [List.mem_cons, mem_dedup (l := xs)]

theorem nodup_dedup [DecidableEq α] : ∀ (l : List α), (dedup l).Nodup
  | [] => by simp [dedup]
  | x :: xs => by
    simp only [dedup]
    split
    · exact nodup_dedup xs
    next h =>
      exact List.nodup_cons.mpr ⟨by rw [mem_dedup]; exact h, nodup_dedup xs⟩

/-! ### counting: `bump`, `occAdd` -/

/-- The count stored for `k` (0 if absent). -/
def cntOf [DecidableEq κ] (m : List (κ × Nat)) (k : κ) : Nat :=
  match AL.get m k with
  | some c => c
  | none => 0

theorem cntOf_bump [DecidableEq κ] : ∀ (m : List (κ × Nat)) (k k' : κ),
    cntOf (bump m k) k' = cntOf m k' + if k = k' then 1 else 0
  | [], k, k' => by by_cases h : k = k' <;> simp [bump, cntOf, AL.get, h]
  | (q, c) :: t, k, k' => by
    have ih := cntOf_bump t k k'
    unfold cntOf at ih ⊢
    by_cases hq : q = k
    · subst hq
      by_cases h : q = k' <;> simp [bump, AL.get, h]
    · by_cases h : q = k'
      · subst h; simp [bump, AL.get, hq, Ne.symm hq]
      · simp only [bump, hq, if_false, AL.get, h]; exact ih

theorem keys_bump_nodup [DecidableEq κ] : ∀ (m : List (κ × Nat)) (k : κ), (AL.keys m).Nodup →
    (AL.keys (bump m k)).Nodup ∧ ∀ k', k' ∈ AL.keys (bump m k) ↔ k' = k ∨ k' ∈ AL.keys m
  | [], k, _ => by simp [bump, AL.keys]
  | (q, c) :: t, k, hn => by
    simp only [AL.keys, List.map_cons, List.nodup_cons] at hn
    by_cases hq : q = k
    · subst hq
      simp only [bump, if_true, AL.keys, List.map_cons, List.nodup_cons]
      refine ⟨hn, ?_⟩
      intro k'; simp only [List.mem_cons]
      constructor
      · rintro (h | h); exact .inl h; exact .inr (.inr h)
      · rintro (h | h | h); exact .inl h; exact .inl h; exact .inr h
    · obtain ⟨ih1, ih2⟩ := keys_bump_nodup t k hn.2
      simp only [bump, hq, if_false, AL.keys, List.map_cons, List.nodup_cons, List.mem_cons]
      simp only [AL.keys] at ih1 ih2
      refine ⟨⟨?_, ih1⟩, ?_⟩
      · intro h
        rcases (ih2 q).mp h with h | h
        · exact hq h
        · exact hn.1 h
      · intro k'
        rw [ih2]
        constructor
        · rintro (h | h | h); exact .inr (.inl h); exact .inl h; exact .inr (.inr h)
        · rintro (h | h | h); exact .inr (.inl h); exact .inl h; exact .inr (.inr h)

theorem cntOf_pos_of_mem_bump_foldl [DecidableEq κ] (l : List κ) :
    ∀ (m : List (κ × Nat)), (∀ p ∈ m, 0 < p.2) → ∀ p ∈ l.foldl bump m, 0 < p.2 := by
  induction l with
  | nil => intro m h; exact h
  | cons a t ih =>
    intro m h
    apply ih
    intro p hp
    clear ih
    induction m with
    | nil => simp [bump] at hp; subst hp; simp
    | cons q m' ihm =>
      obtain ⟨qk, qc⟩ := q
      by_cases hq : qk = a
      · simp only [bump, hq, if_true, List.mem_cons] at hp
        rcases hp with rfl | hp
        · simp
        · exact h p (List.mem_cons_of_mem _ hp)
      · simp only [bump, hq, if_false, List.mem_cons] at hp
        rcases hp with rfl | hp
        · exact h _ (by simp)
        · exact ihm (fun p hp => h p (List.mem_cons_of_mem _ hp)) hp

theorem cntOf_foldl_bump [DecidableEq κ] (l : List κ) : ∀ (m : List (κ × Nat)) (k : κ),
    cntOf (l.foldl bump m) k = cntOf m k + l.count k := by
  induction l with
  | nil => intro m k; simp
  | cons a t ih =>
    intro m k
    simp only [List.foldl_cons, ih, cntOf_bump, List.count_cons]
    by_cases h : a = k <;> simp [h] <;> omega

theorem keys_foldl_bump [DecidableEq κ] (l : List κ) : ∀ (m : List (κ × Nat)), (AL.keys m).Nodup →
    (AL.keys (l.foldl bump m)).Nodup ∧
      ∀ k, k ∈ AL.keys (l.foldl bump m) ↔ k ∈ l ∨ k ∈ AL.keys m := by
  induction l with
  | nil => intro m h; simp [h]
  | cons a t ih =>
    intro m h
    obtain ⟨h1, h2⟩ := keys_bump_nodup m a h
    obtain ⟨h3, h4⟩ := ih (bump m a) h1
    refine ⟨h3, ?_⟩
    intro k
    simp only [List.foldl_cons, h4, h2, List.mem_cons]
    constructor
    · rintro (h | h | h); exact .inl (.inr h); exact .inl (.inl h); exact .inr h
    · rintro ((h | h) | h); exact .inr (.inl h); exact .inl h; exact .inr (.inr h)

end Ruma.StateRes
