/-
  C12 — `matches_pattern` is the spec's matching, given the assumptions `ExtOk` about `wildmatch`
  and `regex`; the reference instances satisfy them.
-/
import RumaModel.Lemmas.PushChunks
namespace Ruma.Push
open Ruma.Spec.Glob (Glob WordMatch boundary globDecide wordDecide wordDecide_iff_WordMatch globDecide_iff_Glob)

/-- What is assumed about the external matchers: `wildmatch` decides the glob relation, `regex`
decides the standard meaning of the generated regular expression. -/
structure ExtOk (E : Ext) : Prop where
  wild_iff : ∀ p s, E.wild p s = true ↔ Glob p s
  rx_iff : ∀ cs s, E.rxMatch cs s = true ↔ RegexMatches cs s

theorem Glob_self (p : Text) : Glob p p := by
  induction p with
  | nil => exact Glob.nil
  | cons a p ih =>
    by_cases h1 : a = '*'
    · subst h1; exact Glob.star p ['*'] p ih
    · by_cases h2 : a = '?'
      · subst h2; exact Glob.one p '?' p ih
      · exact Glob.lit a p p h1 h2 ih

theorem WordMatch_self (p : Text) : WordMatch p p := by
  by_cases hp : p = []
  · exact Or.inl ⟨hp, hp⟩
  · refine Or.inr ⟨hp, 0, p.length, by omega, by omega, ?_, Or.inl rfl, Or.inr (Or.inl rfl)⟩
    have : Ruma.Spec.Glob.slice p 0 p.length = p := by simp [Ruma.Spec.Glob.slice]
    rw [this]; exact Glob_self p

/-- `matches_word` never panics and decides the spec's word matching, for every pattern. -/
theorem matchesWord_spec (E : Ext) (hE : ExtOk E) (p s : Text) :
    matchesWord E p s = .ok (wordDecide p s) := by
  cases hw : p.any isWild
  · obtain ⟨b, hb, hiff⟩ := matchesWord_literal E p s hw
    rw [hb]
    congr 1
    rw [Bool.eq_iff_iff, hiff, wordDecide_iff_WordMatch]
  · unfold matchesWord matchesWordImpl
    by_cases hs : s = p
    · subst hs
      simp only [if_true]
      congr 1
      exact ((wordDecide_iff_WordMatch s s).2 (WordMatch_self s)).symm
    · have hp : p ≠ [] := by rintro rfl; simp at hw
      have hpe : p.isEmpty = false := by cases p <;> simp_all
      simp only [hs, if_false, hpe, Bool.false_eq_true, hw, if_true]
      congr 1
      rw [Bool.eq_iff_iff, hE.rx_iff, RegexMatches_chunks_iff p s hp, wordDecide_iff_WordMatch]

/-- `matches_pattern` is the spec's case-insensitive matching: on word boundaries if `matchWords`,
of the whole value otherwise. -/
theorem matchesPattern_spec (E : Ext) (hE : ExtOk E) (value pattern : Text) (matchWords : Bool) :
    matchesPattern E value pattern matchWords =
      .ok (if matchWords then Ruma.Spec.Glob.wordMatchDecide E.lower pattern value
           else Ruma.Spec.Glob.valueDecide E.lower pattern value) := by
  unfold matchesPattern Ruma.Spec.Glob.wordMatchDecide Ruma.Spec.Glob.valueDecide
  cases matchWords
  · simp only [Bool.false_eq_true, if_false]
    congr 1
    rw [Bool.eq_iff_iff, hE.wild_iff, globDecide_iff_Glob]
  · simp only [if_true]
    exact matchesWord_spec E hE _ _

/-- `contains_word` never panics and decides the spec's "contains the word as literal text". -/
theorem containsWord_spec (E : Ext) (value word : Text) :
    containsWord E value word = .ok (Ruma.Spec.Glob.containsWordDecide E.lower word value) := by
  unfold containsWord Ruma.Spec.Glob.containsWordDecide
  obtain ⟨b, hb, hiff⟩ := matchesWordImpl_literal E (E.lower word) (E.lower value)
  rw [hb]
  congr 1
  rw [Bool.eq_iff_iff, hiff, Ruma.Spec.Glob.literalWordDecide_iff]

/-- The reference instances satisfy the assumptions. -/
theorem refExt_ok (lower : Text → Text) (isUserId : Text → Bool) :
    ExtOk { lower := lower, wild := globDecide, rxMatch := rxDecide, isUserId := isUserId } :=
  ⟨fun p s => globDecide_iff_Glob p s, fun cs s => rxDecide_iff cs s⟩

end Ruma.Push
