/-
  C03 helper lemmas: server selection on the redacted copy when the copy is an invite created from
  a third-party invite exactly when the original is one (in particular: room version 11, where
  redaction keeps `content.third_party_invite.signed`).
-/
import RumaModel.Lemmas.EventSignCopy
namespace Ruma.EventSign
open Ruma Ruma.Sign Ruma.Redact Ruma.Spec.EventSign

/-- On an event the specification recognises as an invite created from a third-party invite,
`is_invite_via_third_party_id` answers `true` (no error). -/
theorem isInvite_of_spec_true (o : Obj) (h : isThirdPartyInvite o = true) :
    isInviteViaThirdPartyId o = .ok true := by
  unfold isThirdPartyInvite at h
  unfold isInviteViaThirdPartyId
  cases hty : Obj.get o (bs "type") with
  | none => rw [hty] at h; simp at h
  | some tv =>
    rw [hty] at h
    cases tv with
    | str ty =>
      cases hc : Obj.get o (bs "content") with
      | none => rw [hc] at h; simp at h
      | some cv =>
        rw [hc] at h
        cases cv with
        | obj c =>
          simp only [Bool.and_eq_true, decide_eq_true_eq] at h
          obtain ⟨hm, h⟩ := h
          subst hm
          simp only [ne_eq, not_true_eq_false, if_false]
          cases hmv : Obj.get c (bs "membership") with
          | none => rw [hmv] at h; simp at h
          | some mv =>
            rw [hmv] at h
            cases mv with
            | str m =>
              cases htp : Obj.get c (bs "third_party_invite") with
              | none => rw [htp] at h; simp at h
              | some tv =>
                rw [htp] at h
                cases tv with
                | obj t =>
                  simp only [decide_eq_true_eq] at h
                  subst h
                  simp
                | _ => simp at h
            | _ => simp at h
        | _ => simp at h
    | _ => simp at h

/-- The entry found under `k` is mapped by the retain function; if it is kept with value `v'`, the
result has `v'` under `k`. -/
theorem applySome_get_mapped (f : RetainFn) (k : Str) (c c' : Obj) (v v' : JVal)
    (h : applySome f c = .ok c') (hg : Obj.get c k = some v) (hf : f k v = .ok (.some v')) :
    Obj.get c' k = some v' := by
  induction c generalizing c' with
  | nil => simp [Obj.get] at hg
  | cons e t ih =>
    obtain ⟨a, b⟩ := e
    simp only [applySome] at h
    by_cases hak : a = k
    · subst hak
      simp only [Obj.get, if_true] at hg
      injection hg with hg; subst hg
      rw [hf] at h
      simp only at h
      cases ht : applySome f t with
      | error err => rw [ht] at h; cases h
      | ok t' => rw [ht] at h; cases h; simp [Obj.get]
    · simp only [Obj.get, hak, if_false] at hg
      cases hfk : f a b with
      | error err => rw [hfk] at h; cases h
      | ok ov =>
        rw [hfk] at h
        cases ov with
        | none => exact ih c' h hg
        | some w =>
          simp only at h
          cases ht : applySome f t with
          | error err => rw [ht] at h; cases h
          | ok t' =>
            rw [ht] at h; cases h
            simp only [Obj.get, hak, if_false]
            exact ih t' ht hg

theorem filter_key_ne_nil (o : Obj) (k : Str) (v : JVal) (h : Obj.get o k = some v) :
    (o.filter (fun p => p.1 = k)).isEmpty = false := by
  induction o with
  | nil => simp [Obj.get] at h
  | cons e t ih =>
    obtain ⟨a, b⟩ := e
    by_cases hak : a = k
    · simp [List.filter, hak]
    · simp only [Obj.get, hak, if_false] at h
      simp only [List.filter, hak, decide_false]
      exact ih h

/-- **Room version 11** (any rules with `keep_room_member_third_party_invite_signed`): the redacted
copy of an invite created from a third-party invite whose `third_party_invite` has a `signed` member
is still such an invite. -/
theorem isThirdPartyInvite_redacted_keep (rr : Rules) (o red : Obj) (c tpi : Obj) (sg : JVal)
    (h : redact rr o none = .ok red) (hk : rr.keepMemberTpiSigned = true)
    (h3 : isThirdPartyInvite o = true)
    (hc : Obj.get o (bs "content") = some (.obj c))
    (ht : Obj.get c (bs "third_party_invite") = some (.obj tpi))
    (hs : Obj.get tpi (bs "signed") = some sg) :
    isThirdPartyInvite red = true := by
  obtain ⟨hgt, _, _, _, _⟩ := serversToCheck_redact_fields rr o red h
  have h3' := h3
  unfold isThirdPartyInvite at h3 ⊢
  rw [hgt]
  rw [hc] at h3
  cases hty : Obj.get o (bs "type") with
  | none => rw [hty] at h3; simp at h3
  | some tv =>
    rw [hty] at h3
    cases tv with
    | str ty =>
      simp only [Bool.and_eq_true, decide_eq_true_eq] at h3
      obtain ⟨hm, h3⟩ := h3
      subst hm
      obtain ⟨c', hrc, hgc⟩ := redact_content rr o red _ c h hty hc
      rw [hgc]
      unfold redactContent at hrc
      rw [retained_member] at hrc
      simp only [Retained.apply] at hrc
      have hmem : Obj.get c' (bs "membership") = Obj.get c (bs "membership") :=
        applySome_get_kept (memberKey rr) _ (fun v => by simp [memberKey]) c c' hrc
      have htp : Obj.get c' (bs "third_party_invite")
          = some (.obj (tpi.filter (fun p => p.1 = bs "signed"))) := by
        refine applySome_get_mapped (memberKey rr) _ c c' _ _ hrc ht ?_
        have hne1 : bs "third_party_invite" ≠ bs "membership" := by decide
        have hne2 : bs "third_party_invite" ≠ bs "join_authorised_via_users_server" := by decide
        simp only [memberKey, hne1, hne2, if_false, hk, and_self, if_true,
          filter_key_ne_nil tpi _ sg hs]
        rfl
      simp only [decide_true, Bool.true_and, hmem, htp]
      rw [ht] at h3
      cases hmv : Obj.get c (bs "membership") with
      | none => rw [hmv] at h3; simp at h3
      | some mv =>
        rw [hmv] at h3
        cases mv with
        | str m => exact h3
        | _ => simp at h3
    | _ => simp at h3

/-- **Server selection succeeds on the copy** whenever it succeeds on the event and the copy is an
invite created from a third-party invite exactly when the event is one. -/
theorem serversToCheck_redacted_ok_same (x : Ids.Ext) (rr : Rules) (sr : SigRules) (o red : Obj) (l : List Str)
    (h : redact rr o none = .ok red) (h3 : isThirdPartyInvite red = isThirdPartyInvite o)
    (hl : serversToCheck x o sr = .ok l) : ∃ l', serversToCheck x red sr = .ok l' := by
  cases hb : isThirdPartyInvite o with
  | false => exact serversToCheck_redacted_ok x rr sr o red l h hb hl
  | true =>
    rw [hb] at h3
    obtain ⟨_, _, hge, _, _⟩ := serversToCheck_redact_fields rr o red h
    unfold serversToCheck at hl ⊢
    have h1 : senderStep x o [] = .ok [] := by
      unfold senderStep; rw [isInvite_of_spec_true o hb]
    have h1' : senderStep x red [] = .ok [] := by
      unfold senderStep; rw [isInvite_of_spec_true red h3]
    rw [h1] at hl
    rw [h1']
    simp only at hl ⊢
    cases h2 : eventIdStep x o sr [] with
    | error err => rw [h2] at hl; cases hl
    | ok s2 =>
      rw [h2] at hl
      simp only at hl
      have h2' : eventIdStep x red sr [] = .ok s2 := by
        unfold eventIdStep at h2 ⊢
        rw [hge]; exact h2
      rw [h2']
      simp only
      unfold authorisedStep at hl ⊢
      cases hc : sr.checkJoinAuthorised with
      | false => simp
      | true =>
        rw [hc] at hl
        simp only [if_true] at hl ⊢
        rcases authorisedField_redacted rr o red h with ha | ha
        · rw [ha]; exact ⟨_, rfl⟩
        · rw [ha]; exact ⟨_, hl⟩

/-- The copy of an event that is not an invite created from a third-party invite, and on which
server selection succeeds, is not such an invite either. -/
theorem isThirdPartyInvite_redacted_false (x : Ids.Ext) (rr : Rules) (sr : SigRules) (o red : Obj)
    (l : List Str) (h : redact rr o none = .ok red) (h3 : isThirdPartyInvite o = false)
    (hl : serversToCheck x o sr = .ok l) : isThirdPartyInvite red = false := by
  unfold serversToCheck at hl
  cases h1 : senderStep x o [] with
  | error err => rw [h1] at hl; cases hl
  | ok s1 =>
    have hi : isInviteViaThirdPartyId o = .ok false := by
      unfold senderStep at h1
      cases hiv : isInviteViaThirdPartyId o with
      | error err => rw [hiv] at h1; cases h1
      | ok b => rw [← isInvite_spec o b hiv, h3]
    exact isInvite_spec red false (isInvite_redacted rr o red h hi)

end Ruma.EventSign
