/-
  C11 — helper lemmas, part 3: the query part (`via=`, `action=`) written by `Display` and read by
  `form_urlencoded::parse`.
-/
import RumaModel.Lemmas.MatrixUriId
namespace Ruma.MatrixUri
open Ruma Ruma.Spec.MatrixUri

/-- One `via=<encoded server>` item of a query. -/
def viaItem (v : Str) : Str := bs "via" ++ 61 :: encQuery v
/-- The `action=<encoded action>` item of a query. -/
def actionItem (a : Action) : Str := bs "action" ++ 61 :: encQuery a.asStr

theorem joinWith_cons_cons (c : Nat) (p q : Str) (r : List Str) :
    joinWith c (p :: q :: r) = p ++ c :: joinWith c (q :: r) := rfl

theorem joinWith_append_singleton (c : Nat) (ps : List Str) (p : Str) (h : ps ≠ []) :
    joinWith c (ps ++ [p]) = joinWith c ps ++ c :: p := by
  induction ps with
  | nil => exact absurd rfl h
  | cons a r ih =>
    cases r with
    | nil => simp [joinWith]
    | cons b r =>
      have := ih (by simp)
      simp only [List.cons_append] at this ⊢
      rw [joinWith_cons_cons, joinWith_cons_cons, this]
      simp

theorem fmtVias_nil (first : Bool) : fmtVias first [] = ([], first) := rfl

theorem fmtVias_cons (first : Bool) (v : Str) (vs : List Str) :
    fmtVias first (v :: vs) =
      ((if first then 63 else 38) :: joinWith 38 ((v :: vs).map viaItem), false) := by
  induction vs generalizing first v with
  | nil => cases first <;> simp [fmtVias, joinWith, viaItem, bs]
  | cons w r ih =>
    unfold fmtVias
    rw [ih false w]
    cases first <;> simp [joinWith, viaItem, bs]

theorem formDecode_via : formDecode (bs "via") = bs "via" := by decide
theorem formDecode_action : formDecode (bs "action") = bs "action" := by decide

theorem map_plus_of_not_mem (l : Str) (h : 43 ∉ l) :
    l.map (fun b => if b = 43 then 32 else b) = l := by
  induction l with
  | nil => rfl
  | cons x t ih =>
    have hx : x ≠ 43 := fun e => h (by simp [e])
    simp [hx, ih (fun e => h (by simp [e]))]

theorem formDecode_encQuery (s : Str) (h : IsStr s) : formDecode (encQuery s) = s := by
  unfold formDecode
  have hmap : (encQuery s).map (fun b => if b = 43 then 32 else b) = encQuery s :=
    map_plus_of_not_mem _ (fun hb => (encQuery_byte s h.1 43 hb).2.2.2.1 rfl)
  rw [hmap]
  unfold encQuery
  rw [percent_roundtrip_of_pct queryValueSet (by decide) s h.1, utf8Lossy_of_valid s h.2]

theorem not_mem_encQuery (s : Str) (hs : Bytes s) :
    38 ∉ encQuery s ∧ 61 ∉ encQuery s ∧ 63 ∉ encQuery s ∧ 47 ∉ encQuery s := by
  refine ⟨?_, ?_, ?_, ?_⟩
  · intro h; exact (encQuery_byte s hs 38 h).2.2.1 rfl
  · intro h; exact (encQuery_byte s hs 61 h).2.2.2.2 rfl
  · intro h; have := (encQuery_byte s hs 63 h).1; simp [urlSafe] at this
  · intro h; exact (encQuery_byte s hs 47 h).2.1 rfl

theorem formPair_viaItem (v : Str) (h : IsStr v) : formPair (viaItem v) = (bs "via", v) := by
  unfold formPair viaItem
  rw [splitOnce_append 61 (bs "via") _ (by decide)]
  simp [formDecode_via, formDecode_encQuery v h]

theorem formPair_actionItem (a : Action) (h : IsStr a.asStr) :
    formPair (actionItem a) = (bs "action", a.asStr) := by
  unfold formPair actionItem
  rw [splitOnce_append 61 (bs "action") _ (by decide)]
  simp [formDecode_action, formDecode_encQuery _ h]

theorem viaItem_props (v : Str) (h : IsStr v) : viaItem v ≠ [] ∧ 38 ∉ viaItem v := by
  constructor
  · simp [viaItem, bs]
  · have := (not_mem_encQuery v h.1).1
    simp [viaItem, bs, this]

theorem actionItem_props (a : Action) (h : IsStr a.asStr) : actionItem a ≠ [] ∧ 38 ∉ actionItem a := by
  constructor
  · simp [actionItem, bs]
  · have := (not_mem_encQuery _ h.1).1
    simp [actionItem, bs, this]

theorem formParse_joinWith (items : List Str) (hne : items ≠ [])
    (h : ∀ p ∈ items, p ≠ [] ∧ 38 ∉ p) :
    formParse (joinWith 38 items) = items.map formPair := by
  unfold formParse
  rw [splitOn_joinWith 38 items hne (fun p hp => (h p hp).2)]
  congr 1
  apply List.filter_eq_self.mpr
  intro p hp
  simp [(h p hp).1]

theorem viaOfPairs_map (V : Validators) (vs : List Str) (h : ∀ v ∈ vs, V.server v = true) :
    viaOfPairs V (vs.map (fun v => (bs "via", v))) = some vs := by
  induction vs with
  | nil => rfl
  | cons v r ih =>
    simp [viaOfPairs, h v (by simp), ih (fun x hx => h x (by simp [hx]))]

theorem queryLoop_vias (V : Validators) (vs : List Str) (rest : List (Str × Str)) (acc : List Str)
    (act : Option Action) (h : ∀ v ∈ vs, V.server v = true) :
    queryLoop V (vs.map (fun v => (bs "via", v)) ++ rest) acc act = queryLoop V rest (acc ++ vs) act := by
  induction vs generalizing acc with
  | nil => simp
  | cons v r ih =>
    simp only [List.map_cons, List.cons_append, queryLoop, if_true, h v (by simp)]
    rw [ih _ (fun x hx => h x (by simp [hx]))]
    simp

theorem ofStr_asStr (a : Action) (h : ActionOk a) : Action.ofStr a.asStr = a := by
  cases a with
  | join => decide
  | chat => decide
  | custom s => simp [Action.ofStr, Action.asStr, h.2.1, h.2.2]
end Ruma.MatrixUri
