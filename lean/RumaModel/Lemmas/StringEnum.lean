/-
  C19 — helper lemmas: the first-match conversion `fromStr` refines the order-free relation
  `Spec.StringEnum.Denotes`, and on well-formed tables that relation is functional.
-/
import RumaModel.Model.StringEnum
import RumaModel.Spec.StringEnum
namespace Ruma.StringEnum
open Ruma Ruma.Spec.StringEnum

/-! ### keys, prefixes -/

theorem mem_keys {r : Row} {s : Str} : s ∈ r.keys ↔ Row.Spells r s := by
  simp [Row.keys, Row.Spells, or_comm]

theorem stripFirst_some {ps : List Str} {s suf : Str} (h : stripFirst ps s = some suf) :
    ∃ p ∈ ps, s = p ++ suf := by
  induction ps with
  | nil => simp [stripFirst] at h
  | cons p ps ih =>
    unfold stripFirst at h
    by_cases hp : p.isPrefixOf s = true
    · rw [if_pos hp] at h
      injection h with h
      refine ⟨p, List.mem_cons_self, ?_⟩
      have := List.prefix_iff_eq_append.mp (List.isPrefixOf_iff_prefix.mp hp)
      rw [h] at this; exact this.symm
    · rw [if_neg hp] at h
      obtain ⟨q, hq, e⟩ := ih h
      exact ⟨q, List.mem_cons_of_mem _ hq, e⟩

theorem stripFirst_none {ps : List Str} {s : Str} (h : stripFirst ps s = none) :
    ∀ p ∈ ps, ¬ p <+: s := by
  induction ps with
  | nil => simp
  | cons p ps ih =>
    unfold stripFirst at h
    by_cases hp : p.isPrefixOf s = true
    · rw [if_pos hp] at h; cases h
    · rw [if_neg hp] at h
      intro q hq
      rcases List.mem_cons.mp hq with rfl | hq
      · exact fun hpre => hp (List.isPrefixOf_iff_prefix.mpr hpre)
      · exact ih h q hq

/-- Two prefixes of one string taken from a pairwise-incomparable list are the same prefix. -/
theorem incomparable_eq {l : List Str}
    (hl : l.Pairwise (fun p q => ¬ p <+: q ∧ ¬ q <+: p)) {p q s : Str}
    (hp : p ∈ l) (hq : q ∈ l) (hps : p <+: s) (hqs : q <+: s) : p = q := by
  induction l with
  | nil => cases hp
  | cons a l ih =>
    rw [List.pairwise_cons] at hl
    rcases List.mem_cons.mp hp with rfl | hp' <;> rcases List.mem_cons.mp hq with rfl | hq'
    · rfl
    · have := hl.1 q hq'
      rcases List.prefix_or_prefix_of_prefix hps hqs with h | h
      · exact absurd h this.1
      · exact absurd h this.2
    · have := hl.1 p hp'
      rcases List.prefix_or_prefix_of_prefix hps hqs with h | h
      · exact absurd h this.2
      · exact absurd h this.1
    · exact ih hl.2 hp' hq'

theorem incomparable_nodup {l : List Str}
    (hl : l.Pairwise (fun p q => ¬ p <+: q ∧ ¬ q <+: p)) : l.Nodup := by
  refine hl.imp ?_
  intro a b h e
  subst e
  exact h.1 (List.prefix_refl a)

/-- In a duplicate-free concatenation of key lists, a key belongs to one row only. -/
theorem flatMap_keys_unique {l : List Row} (hn : (l.flatMap Row.keys).Nodup) {r r' : Row} {k : Str}
    (hr : r ∈ l) (hr' : r' ∈ l) (hk : k ∈ r.keys) (hk' : k ∈ r'.keys) : r = r' := by
  induction l with
  | nil => cases hr
  | cons a l ih =>
    rw [List.flatMap_cons, List.nodup_append] at hn
    rcases List.mem_cons.mp hr with rfl | hr1 <;> rcases List.mem_cons.mp hr' with rfl | hr1'
    · rfl
    · exact absurd rfl (hn.2.2 k hk k (List.mem_flatMap.mpr ⟨r', hr1', hk'⟩))
    · exact absurd rfl (hn.2.2 k hk' k (List.mem_flatMap.mpr ⟨r, hr1, hk⟩))
    · exact ih hn.2.1 hr1 hr1'

theorem mem_fixedKeys {tbl : Table} {k : Str} :
    k ∈ fixedKeys tbl ↔ ∃ r ∈ tbl, r.wildcard = false ∧ k ∈ r.keys := by
  simp [fixedKeys, List.mem_flatMap, List.mem_filter, and_assoc]

theorem mem_wildKeys {tbl : Table} {k : Str} :
    k ∈ wildKeys tbl ↔ ∃ r ∈ tbl, r.wildcard = true ∧ k ∈ r.keys := by
  simp [wildKeys, List.mem_flatMap, List.mem_filter, and_assoc]

/-! ### `fromStr` refines the specification relation (no well-formedness needed) -/

theorem match?_denotes {tbl : Table} {r : Row} (hr : r ∈ tbl) {s : Str} {v : Val}
    (h : r.match? s = some v) : Denotes tbl s v := by
  unfold Row.match? at h
  by_cases hw : r.wildcard = true
  · rw [if_pos hw] at h
    cases hs : stripFirst r.keys s with
    | none => rw [hs] at h; cases h
    | some suf =>
      rw [hs] at h
      injection h with h; subst h
      obtain ⟨p, hp, e⟩ := stripFirst_some hs
      exact Denotes.frag r p suf hr hw (mem_keys.mp hp) e
  · rw [if_neg hw] at h
    by_cases hc : r.keys.contains s = true
    · rw [if_pos hc] at h
      injection h with h; subst h
      exact Denotes.unit r hr (by simpa using hw) (mem_keys.mp (List.contains_iff_mem.mp hc))
    · rw [if_neg hc] at h; cases h

theorem match?_none {r : Row} {s : Str} (h : r.match? s = none) :
    (r.wildcard = false → ¬ Row.Spells r s) ∧
    (r.wildcard = true → ∀ p, Row.Spells r p → ¬ p <+: s) := by
  unfold Row.match? at h
  by_cases hw : r.wildcard = true
  · rw [if_pos hw] at h
    refine ⟨fun hf => (by rw [hw] at hf; cases hf), fun _ p hp => ?_⟩
    cases hs : stripFirst r.keys s with
    | none => exact stripFirst_none hs p (mem_keys.mpr hp)
    | some suf => rw [hs] at h; cases h
  · rw [if_neg hw] at h
    refine ⟨fun _ hsp => ?_, fun ht => absurd ht hw⟩
    by_cases hc : r.keys.contains s = true
    · rw [if_pos hc] at h; cases h
    · exact hc (List.contains_iff_mem.mpr (mem_keys.mpr hsp))

theorem fromStr_denotes_aux (tbl pre : Table) (s : Str)
    (hpre : ∀ r ∈ pre, (r.wildcard = false → ¬ Row.Spells r s) ∧
      (r.wildcard = true → ∀ p, Row.Spells r p → ¬ p <+: s)) :
    Denotes (pre ++ tbl) s (fromStr tbl s) := by
  induction tbl generalizing pre with
  | nil =>
    simp only [fromStr, List.append_nil]
    exact Denotes.custom (fun r hr => (hpre r hr).1) (fun r hr => (hpre r hr).2)
  | cons r t ih =>
    unfold fromStr
    cases hm : r.match? s with
    | some v => exact match?_denotes (by simp) hm
    | none =>
      have := ih (pre ++ [r]) (by
        intro r' hr'
        rcases List.mem_append.mp hr' with h | h
        · exact hpre r' h
        · rw [List.mem_singleton.mp h]; exact match?_none hm)
      simpa using this

/-- The conversion returns a value the string denotes. -/
theorem fromStr_denotes' (tbl : Table) (s : Str) : Denotes tbl s (fromStr tbl s) := by
  simpa using fromStr_denotes_aux tbl [] s (by simp)

/-! ### on well-formed tables the relation is functional -/

theorem denotes_unique {tbl : Table} (h : WF tbl) {s : Str} {v w : Val}
    (hv : Denotes tbl s v) (hw : Denotes tbl s w) : v = w := by
  obtain ⟨hnd, hwf, hww⟩ := h
  cases hv with
  | unit r hr hf hs =>
    cases hw with
    | unit r' hr' hf' hs' =>
      have : r = r' := flatMap_keys_unique (l := tbl.filter (fun r => !r.wildcard)) hnd
        (List.mem_filter.mpr ⟨hr, by simp [hf]⟩) (List.mem_filter.mpr ⟨hr', by simp [hf']⟩)
        (mem_keys.mpr hs) (mem_keys.mpr hs')
      rw [this]
    | frag r' p suf hr' hw' hp' e =>
      exact absurd (e ▸ List.prefix_append p suf)
        (hwf p (mem_wildKeys.mpr ⟨r', hr', hw', mem_keys.mpr hp'⟩) s
          (mem_fixedKeys.mpr ⟨r, hr, hf, mem_keys.mpr hs⟩))
    | custom hc _ => exact absurd hs (hc r hr hf)
  | frag r p suf hr hwr hp e =>
    cases hw with
    | unit r' hr' hf' hs' =>
      exact absurd (e ▸ List.prefix_append p suf)
        (hwf p (mem_wildKeys.mpr ⟨r, hr, hwr, mem_keys.mpr hp⟩) s
          (mem_fixedKeys.mpr ⟨r', hr', hf', mem_keys.mpr hs'⟩))
    | frag r' p' suf' hr' hw' hp' e' =>
      have hpk : p ∈ wildKeys tbl := mem_wildKeys.mpr ⟨r, hr, hwr, mem_keys.mpr hp⟩
      have hpk' : p' ∈ wildKeys tbl := mem_wildKeys.mpr ⟨r', hr', hw', mem_keys.mpr hp'⟩
      have hpp : p = p' := incomparable_eq hww hpk hpk' (e ▸ List.prefix_append p suf)
        (e' ▸ List.prefix_append p' suf')
      subst hpp
      have hr2 : r = r' := flatMap_keys_unique (l := tbl.filter (fun r => r.wildcard))
        (incomparable_nodup hww)
        (List.mem_filter.mpr ⟨hr, hwr⟩) (List.mem_filter.mpr ⟨hr', hw'⟩)
        (mem_keys.mpr hp) (mem_keys.mpr hp')
      subst hr2
      have : suf = suf' := List.append_cancel_left (e.symm.trans e')
      rw [this]
    | custom _ hc => exact absurd (e ▸ List.prefix_append p suf) (hc r hr hwr p hp)
  | custom hc1 hc2 =>
    cases hw with
    | unit r' hr' hf' hs' => exact absurd hs' (hc1 r' hr' hf')
    | frag r' p' suf' hr' hw' hp' e' =>
      exact absurd (e' ▸ List.prefix_append p' suf') (hc2 r' hr' hw' p' hp')
    | custom _ _ => rfl

/-- On a well-formed table the conversion is *the* value the string denotes. -/
theorem fromStr_eq_of_denotes {tbl : Table} (h : WF tbl) {s : Str} {v : Val}
    (hv : Denotes tbl s v) : fromStr tbl s = v :=
  denotes_unique h (fromStr_denotes' tbl s) hv

/-! ### byte order -/

theorem cmpBytes_lt {a b : Str} : cmpBytes a b = .lt ↔ a < b := by
  induction a generalizing b with
  | nil => cases b <;> simp [cmpBytes]
  | cons x a ih =>
    cases b with
    | nil => simp [cmpBytes]
    | cons y b =>
      unfold cmpBytes
      rw [List.cons_lt_cons_iff]
      by_cases h1 : x < y
      · simp [h1]
      · by_cases h2 : y < x
        · have : x ≠ y := by omega
          simp [h1, h2, this]
        · have : x = y := by omega
          subst this
          simp [ih]

theorem cmpBytes_eq {a b : Str} : cmpBytes a b = .eq ↔ a = b := by
  induction a generalizing b with
  | nil => cases b <;> simp [cmpBytes]
  | cons x a ih =>
    cases b with
    | nil => simp [cmpBytes]
    | cons y b =>
      unfold cmpBytes
      by_cases h1 : x < y
      · have : x ≠ y := by omega
        simp [h1, this]
      · by_cases h2 : y < x
        · have : x ≠ y := by omega
          simp [h1, h2, this]
        · have : x = y := by omega
          subst this
          simp [ih]

theorem cmpBytes_swap (a b : Str) : cmpBytes b a = (cmpBytes a b).swap := by
  induction a generalizing b with
  | nil => cases b <;> simp [cmpBytes, Ordering.swap]
  | cons x a ih =>
    cases b with
    | nil => simp [cmpBytes, Ordering.swap]
    | cons y b =>
      unfold cmpBytes
      by_cases h1 : x < y
      · have : ¬ y < x := by omega
        simp [h1, this, Ordering.swap]
      · by_cases h2 : y < x
        · simp [h1, h2, Ordering.swap]
        · simp [h1, h2, ih]

theorem cmpBytes_gt {a b : Str} : cmpBytes a b = .gt ↔ b < a := by
  rw [← cmpBytes_lt, cmpBytes_swap a b]
  cases cmpBytes a b <;> simp [Ordering.swap]

end Ruma.StringEnum
