/-
  C10 helper lemmas, part 9: "required structure ⇒ accepted" (the converse of
  `accept_implies_structure`), for an IPv6 parser that accepts no more than the reference and
  identifiers whose port fits `u16`.
-/
import RumaModel.Lemmas.IdsIp
namespace Ruma.Ids
open Ruma Spec.IdGrammar

/-- The IPv6 parameter accepts no more than the reference parser. -/
def Ipv6Sound (x : Ext) : Prop := ∀ c, x.isIpv6 c = true → ipv6Ref c = true

theorem hostOk_of_structHost {x : Ext} {h : Str} (hx : Ipv6Sound x)
    (hg : structHost x.isIpv6 h = true) : HostOk x h := by
  simp only [structHost, Bool.or_eq_true] at hg
  rcases hg with hn | hb
  · obtain ⟨hne, hall⟩ := nonEmptyAll_iff.1 hn
    exact .name h hne (fun b hb => by rw [← dnsChar_eq]; exact hall b hb)
  · obtain ⟨c, rfl, hq⟩ := bracketed_iff.1 hb
    exact .v6 c (fun hm => ipv6Char_ne_rbracket ((ipv6Ref_chars (hx c hq)).1 93 hm) rfl) hq

theorem serverOk_of_struct {x : Ext} {s : Str} (hx : Ipv6Sound x)
    (hg : structServerName x.isIpv6 s = true)
    (hp : portTooBig (structHost x.isIpv6) s = false) : ServerOk x s := by
  simp only [structServerName, withPort, Bool.or_eq_true] at hg
  rcases hg with hh | hc
  · exact ⟨s, hostOk_of_structHost hx hh, .inl rfl⟩
  · obtain ⟨h, p, rfl, hh, hport⟩ := cutAt_iff.1 hc
    refine ⟨h, hostOk_of_structHost hx hh, .inr ⟨p, rfl, ?_⟩⟩
    rw [isValidPort_iff]
    refine ⟨hport, ?_⟩
    by_cases hv : portValue p ≤ 65535
    · exact hv
    · have : portTooBig (structHost x.isIpv6) (h ++ 58 :: p) = true :=
        cutAt_iff.2 ⟨h, p, rfl, hh, by simp [hport]; omega⟩
      rw [hp] at this
      exact absurd this (by simp)

theorem hostOk_no_slash {x : Ext} {h : Str} (hx : Ipv6Sound x) (hh : HostOk x h) : 47 ∉ h := by
  cases hh with
  | name h hne hall =>
    intro hm; have := hall 47 hm; simp [hostByteOk, isAlnum, isDigit, isLower, isUpper] at this
  | v6 c hn hv =>
    intro hm
    simp only [List.mem_cons, List.mem_append, List.not_mem_nil, or_false] at hm
    rcases hm with hm | hm | hm
    · omega
    · have := (ipv6Ref_chars (hx c hv)).1 47 hm
      simp [ipv6Char, digit, oneOf, bs] at this
    · omega

theorem serverOk_no_slash {x : Ext} {s : Str} (hx : Ipv6Sound x) (h : ServerOk x s) : 47 ∉ s := by
  obtain ⟨h, hh, rfl | ⟨p, rfl, hp⟩⟩ := h
  · exact hostOk_no_slash hx hh
  · intro hm
    simp only [List.mem_append, List.mem_cons] at hm
    rcases hm with hm | hm | hm
    · exact hostOk_no_slash hx hh hm
    · omega
    · have := isValidPort_digits hp 47 hm
      simp [isDigit] at this

/-- From the structure's cut to the code's: the localpart has no colon, so the cut is at the first
colon. -/
theorem delimOk_of_struct {x : Ext} {sigil : Nat} {s : Str} {lpOk : Str → Bool} (hx : Ipv6Sound x)
    (hlp : ∀ l, lpOk l = true → 58 ∉ l)
    (hlen : max255 s = true)
    (hd : delimited sigil lpOk (structServerName x.isIpv6) s = true)
    (hp : delimited sigil (fun _ => true) (portTooBig (structHost x.isIpv6)) s = false) :
    ∃ lp srv, DelimOk x sigil s lp srv ∧ lpOk lp = true := by
  obtain ⟨l, srv, rfl, h1, h2⟩ := delimited_iff.1 hd
  have hpb : portTooBig (structHost x.isIpv6) srv = false := by
    cases hb : portTooBig (structHost x.isIpv6) srv with
    | false => rfl
    | true =>
      have : delimited sigil (fun _ => true) (portTooBig (structHost x.isIpv6))
          (sigil :: (l ++ 58 :: srv)) = true := delimited_iff.2 ⟨l, srv, rfl, rfl, hb⟩
      rw [hp] at this
      exact absurd this (by simp)
  exact ⟨l, srv, ⟨rfl, by simpa [max255] using hlen, hlp l h1, serverOk_of_struct hx h2 hpb⟩, h1⟩

theorem struct_user_accept {x : Ext} {sigil : Nat} {s : Str} (hx : Ipv6Sound x) (hs : Sep s)
    (h1 : sigil < 128) (h2 : sigil ≠ 58)
    (hg : (max255 s && delimited sigil localpartOk (structServerName x.isIpv6) s) = true)
    (hp : delimited sigil (fun _ => true) (portTooBig (structHost x.isIpv6)) s = false) :
    delimitedValidate x sigil s = .ok () := by
  simp only [Bool.and_eq_true] at hg
  obtain ⟨lp, srv, hd, hl⟩ :=
    delimOk_of_struct hx (fun l hl => (localpartOk_iff.1 hl).1) hg.1 hg.2 hp
  exact (delimitedValidate_ok_iff hs h2 h1).2 ⟨lp, srv, hd, (localpartOk_iff.1 hl).2⟩

theorem struct_room_accept {s : Str} (hg : structRoom s = true) : roomIdValidate s = .ok () := by
  simp only [structRoom, Bool.and_eq_true, max255, decide_eq_true_eq] at hg
  exact roomIdValidate_ok_iff.2 ⟨hg.1.1, hg.1.2, all_ne_iff.1 hg.2⟩

theorem struct_event_accept {x : Ext} {s : Str} (hx : Ipv6Sound x) (hs : Sep s)
    (hg : (max255 s && s.head? = some 36
      && (s.all (· != 58) || delimited 36 (fun lp => lp.all (· != 58))
            (structServerName x.isIpv6) s)) = true)
    (hp : delimited 36 (fun _ => true) (portTooBig (structHost x.isIpv6)) s = false) :
    eventIdValidate x s = .ok () := by
  simp only [Bool.and_eq_true, Bool.or_eq_true, decide_eq_true_eq] at hg
  obtain ⟨⟨hlen, hh⟩, hc | hd⟩ := hg
  · exact (eventIdValidate_ok_iff hs).2
      (.inr ⟨all_ne_iff.1 hc, by simpa [max255] using hlen, hh⟩)
  · obtain ⟨lp, srv, hdo, _⟩ := delimOk_of_struct hx (fun l hl => all_ne_iff.1 hl) hlen hd hp
    exact (eventIdValidate_ok_iff hs).2 (.inl ⟨lp, srv, hdo⟩)

theorem struct_mxc_accept {x : Ext} {s : Str} (hx : Ipv6Sound x) (hs : Sep s)
    (hg : mxc (structServerName x.isIpv6) (fun m => m.all mediaChar) s = true)
    (hp : mxc (portTooBig (structHost x.isIpv6)) (fun _ => true) s = false) :
    (mxcValidate x s).void = .ok () := by
  simp only [mxc, Bool.and_eq_true, beq_iff_eq, bs_mxc] at hg
  obtain ⟨ht, hc⟩ := hg
  obtain ⟨srv, media, hd, hsrv, hmed⟩ := cutAt_iff.1 hc
  have hse : s = mxcPrefix ++ (srv ++ 47 :: media) := by
    rw [← hd]; exact eq_prefix_of_take ht
  have hpb : portTooBig (structHost x.isIpv6) srv = false := by
    simp only [mxc, ht, bs_mxc, beq_self_eq_true, Bool.true_and, hd] at hp
    cases hb : portTooBig (structHost x.isIpv6) srv with
    | false => rfl
    | true =>
      have := false_of_cut hp hb
      simp at this
  have hso := serverOk_of_struct hx hsrv hpb
  have hok : MxcOk x s srv media :=
    ⟨hse, serverOk_no_slash hx hso, by rw [← all_congr mediaChar_eq]; exact hmed, hso⟩
  rw [(mxcValidate_ok_iff hs).2 ⟨srv, media, hok, rfl⟩]
  rfl

theorem struct_keyAny_accept {x : Ext} {s : Str} (hs : Sep s)
    (hc : cutAt 58 (fun alg => !alg.isEmpty && alg.all (· != 58)) (fun _ => true) s = true) :
    (keyIdValidate x .any s).void = .ok () := by
  obtain ⟨alg, name, rfl, halg, _⟩ := cutAt_iff.1 hc
  simp only [Bool.and_eq_true] at halg
  have hne : alg ≠ [] := by intro h; simp [h] at halg
  rw [(keyIdValidate_ok_iff hs).2 ⟨alg, name, ⟨rfl, all_ne_iff.1 halg.2, hne, rfl⟩, rfl⟩]
  rfl

theorem struct_sessionId_accept {s : Str}
    (h : (nonEmptyAll secretChar s && max255 s) = true) : sessionIdValidate s = .ok () :=
  gram_sessionId h

theorem struct_roomVersion_accept {s : Str}
    (h : (nonEmptyAll roomVersionChar s && decide (codePoints s ≤ 32)) = true) :
    roomVersionIdValidate s = .ok () := by
  simp only [Bool.and_eq_true, decide_eq_true_eq] at h
  obtain ⟨hne, hall⟩ := nonEmptyAll_iff.1 h.1
  have hc : ¬ charCount s > 32 := by rw [← codePoints_eq]; omega
  have hch : s.all (fun b => isAlnum b || b == 46 || b == 45) = true := by
    rw [List.all_eq_true]; intro b hb
    rw [← roomVersionChar_eq]; exact hall b hb
  simp [roomVersionIdValidate, hne, hc, hch]

/-! ### Opaque types on ASCII strings (the Unicode parameter is not consulted) -/

theorem allUniAlnumOr_of_asciiIn {x : Ext} {extra set : Nat → Bool} {s : Str}
    (hset : ∀ b, set b = true → b < 128 ∧ (isAlnum b || extra b) = true)
    (hin : asciiIn set s = true) (hascii : ∀ b ∈ s, b < 128) : allUniAlnumOr x extra s = true :=
  allUniAlnumOr_ascii (p := set) (fun b hb => (hset b hb).1) (fun b hb => (hset b hb).2)
    (fun b hb => by
      have := List.all_eq_true.1 hin b hb
      simp only [Bool.or_eq_true, decide_eq_true_eq] at this
      rcases this with h | h
      · have := hascii b hb; omega
      · exact h)

theorem keyVersionChar_facts (b : Nat) (h : keyVersionChar b = true) :
    b < 128 ∧ (isAlnum b || b == 95) = true := by
  refine ⟨?_, by simpa [keyVersionChar, alnum_eq] using h⟩
  simp [keyVersionChar, alnum, digit, lower, upper] at h; omega

theorem base64PadChar_facts (b : Nat) (h : base64PadChar b = true) :
    b < 128 ∧ (isAlnum b || (b == 43 || b == 47 || b == 61)) = true := by
  constructor
  · simp [base64PadChar, alnum, digit, lower, upper, oneOf, bs] at h; omega
  · simp only [base64PadChar, alnum_eq, oneOf, bs, Bool.or_eq_true] at h ⊢
    rcases h with h | h
    · exact .inl h
    · right; simp at h ⊢; omega

theorem secretChar_facts (b : Nat) (h : secretChar b = true) :
    b < 128 ∧ (isAlnum b || secretByteExtra b) = true := by
  refine ⟨?_, by rw [← secretChar_eq]; exact h⟩
  simp [secretChar, alnum, digit, lower, upper, oneOf, bs] at h; omega

theorem struct_signingKeyVersion_accept {x : Ext} {s : Str} (hascii : ∀ b ∈ s, b < 128)
    (h : (!s.isEmpty && asciiIn keyVersionChar s) = true) :
    serverSigningKeyVersionValidate x s = .ok () := by
  simp only [Bool.and_eq_true] at h
  have hne : s ≠ [] := by intro e; simp [e] at h
  have := allUniAlnumOr_of_asciiIn (x := x) (extra := fun b => b == 95) keyVersionChar_facts h.2 hascii
  simp [serverSigningKeyVersionValidate, hne, this]

theorem struct_base64PublicKey_accept {x : Ext} {s : Str} (hascii : ∀ b ∈ s, b < 128)
    (h : (!s.isEmpty && asciiIn base64PadChar s) = true) :
    base64PublicKeyValidate x s = .ok () := by
  simp only [Bool.and_eq_true] at h
  have hne : s ≠ [] := by intro e; simp [e] at h
  have := allUniAlnumOr_of_asciiIn (x := x) (extra := fun b => b == 43 || b == 47 || b == 61)
    base64PadChar_facts h.2 hascii
  simp [base64PublicKeyValidate, hne, this]

theorem struct_clientSecret_accept {x : Ext} {s : Str} (hascii : ∀ b ∈ s, b < 128)
    (h : (!s.isEmpty && max255 s && asciiIn secretChar s) = true) :
    clientSecretValidate x s = .ok () := by
  simp only [Bool.and_eq_true, max255, decide_eq_true_eq] at h
  have hne : s ≠ [] := by intro e; simp [e] at h
  have hl : ¬ s.length > 255 := by omega
  have := allUniAlnumOr_of_asciiIn (x := x) (extra := secretByteExtra) secretChar_facts h.2 hascii
  simp [clientSecretValidate, hl, hne, this]

theorem struct_key_accept {x : Ext} {kk : KeyNameKind} {nameOk : Str → Bool} {s : Str}
    (hs : Sep s) (hascii : ∀ b ∈ s, b < 128)
    (hname : ∀ n, (∀ b ∈ n, b < 128) → nameOk n = true → keyNameValidate x kk n = .ok ())
    (hc : cutAt 58 (fun alg => !alg.isEmpty && alg.all (· != 58)) nameOk s = true) :
    (keyIdValidate x kk s).void = .ok () := by
  obtain ⟨alg, name, rfl, halg, hn⟩ := cutAt_iff.1 hc
  simp only [Bool.and_eq_true] at halg
  have hne : alg ≠ [] := by intro h; simp [h] at halg
  have hna : ∀ b ∈ name, b < 128 := fun b hb => hascii b (by simp [hb])
  rw [(keyIdValidate_ok_iff hs).2
    ⟨alg, name, ⟨rfl, all_ne_iff.1 halg.2, hne, hname name hna hn⟩, rfl⟩]
  rfl

/-! ### Accepted ⇒ no cut with an over-large port -/

/-- A server name with an over-large port ends in `:` and 1–5 digits whose value exceeds 65535. -/
theorem portTooBig_suffix {host : Str → Bool} {t : Str} (h : portTooBig host t = true) :
    ∃ A p, t = A ++ 58 :: p ∧ host A = true ∧ isPort p = true ∧ portValue p > 65535 := by
  obtain ⟨A, p, rfl, hA, hq⟩ := cutAt_iff.1 h
  simp only [Bool.and_eq_true, decide_eq_true_eq] at hq
  exact ⟨A, p, rfl, hA, hq.1, hq.2⟩

/-- Two cuts of the same string at a colon, the first with a colon-free front: the back of the
first cut ends with the colon and the back of the second. -/
theorem back_suffix_of_cut {W lp srv p : Str} (hW : 58 ∈ W) (hlp : 58 ∉ lp)
    (e : W ++ 58 :: p = lp ++ 58 :: srv) : ∃ Y, srv = Y ++ 58 :: p := by
  rcases List.append_eq_append_iff.1 e with ⟨a', h1, h2⟩ | ⟨c', h1, h2⟩
  · cases a' with
    | nil =>
      simp only [List.append_nil] at h1
      exact absurd (h1 ▸ hW) hlp
    | cons a t =>
      exfalso; apply hlp; rw [h1]; simp [hW]
  · cases c' with
    | nil =>
      simp only [List.append_nil] at h1
      exact absurd (h1 ▸ hW) hlp
    | cons a t =>
      simp only [List.cons_append, List.cons.injEq] at h2
      exact ⟨t, h2.2⟩

/-- An accepted `sigil localpart ":" server` has no cut whose server part carries an over-large
port. -/
theorem delimOk_not_bigPort {x : Ext} {sigil : Nat} {s lp srv : Str} {host : Str → Bool}
    (h : DelimOk x sigil s lp srv) :
    delimited sigil (fun _ => true) (portTooBig host) s = false := by
  rw [Bool.eq_false_iff]
  intro hb
  obtain ⟨rfl, _, hlp, hsrv⟩ := h
  obtain ⟨l', t, e, _, ht⟩ := delimited_iff.1 hb
  obtain ⟨A, p, rfl, _, hport, hbig⟩ := portTooBig_suffix ht
  have e2 : (l' ++ 58 :: A) ++ 58 :: p = lp ++ 58 :: srv := by
    have := List.cons.inj e
    simpa using this.2.symm
  obtain ⟨Y, rfl⟩ := back_suffix_of_cut (by simp) hlp e2
  have : portTooBig (fun _ => true) (Y ++ 58 :: p) = true :=
    cutAt_iff.2 ⟨Y, p, rfl, rfl, by simp [hport]; exact hbig⟩
  rw [serverOk_not_bigPort hsrv] at this
  exact absurd this (by simp)

theorem structHost_no_slash {x : Ext} {h : Str} (hx : Ipv6Sound x)
    (hg : structHost x.isIpv6 h = true) : 47 ∉ h :=
  hostOk_no_slash hx (hostOk_of_structHost hx hg)

theorem gramHost_no_slash {v6 : Str → Bool} {h : Str} (hg : gramHost v6 h = true) : 47 ∉ h := by
  intro hm
  simp only [gramHost, Bool.or_eq_true, Bool.and_eq_true] at hg
  rcases hg with ⟨hn, _⟩ | hb
  · have := (nonEmptyAll_iff.1 hn).2 47 hm
    simp [dnsChar, alnum, digit, lower, upper, oneOf, bs] at this
  · obtain ⟨r, rfl, hq⟩ := bracketed_iff.1 hb
    simp only [Bool.and_eq_true, List.all_eq_true] at hq
    simp only [List.mem_cons, List.mem_append, List.not_mem_nil, or_false] at hm
    rcases hm with hm | hm | hm
    · omega
    · have := hq.1.2 47 hm
      simp [ipv6Char, digit, oneOf, bs] at this
    · omega

/-- An accepted MXC URI has no cut whose server part (with a slash-free host) carries an over-large
port. -/
theorem mxcOk_not_bigPort_of {x : Ext} {s srv media : Str} {host : Str → Bool}
    (hh : ∀ A, host A = true → 47 ∉ A) (h : MxcOk x s srv media) :
    mxc (portTooBig host) (fun _ => true) s = false := by
  rw [Bool.eq_false_iff]
  intro hb
  obtain ⟨rfl, hns, _, hsrv⟩ := h
  have ht : (mxcPrefix ++ (srv ++ 47 :: media)).take 6 = mxcPrefix := List.take_left' rfl
  have hd : (mxcPrefix ++ (srv ++ 47 :: media)).drop 6 = srv ++ 47 :: media := List.drop_left' rfl
  simp only [mxc, ht, hd, bs_mxc, beq_self_eq_true, Bool.true_and] at hb
  obtain ⟨srv', m', e, hbig, _⟩ := cutAt_iff.1 hb
  obtain ⟨A, p, rfl, hA, hport, hv⟩ := portTooBig_suffix hbig
  have hns' : 47 ∉ A ++ 58 :: p := by
    intro hm
    simp only [List.mem_append, List.mem_cons] at hm
    rcases hm with hm | hm | hm
    · exact hh A hA hm
    · omega
    · simp only [isPort, Bool.and_eq_true, List.all_eq_true] at hport
      have := hport.2 47 hm; simp [digit] at this
  have f1 := find_append (c := 47) (post := m') hns'
  have f2 := find_append (c := 47) (post := media) hns
  rw [← e, f2] at f1
  have hlen : srv.length = (A ++ 58 :: p).length := by simpa using f1
  have := (List.append_inj e hlen).1
  have hbp : portTooBig (fun _ => true) srv = true := by
    rw [this]; exact cutAt_iff.2 ⟨A, p, rfl, rfl, by simp [hport]; exact hv⟩
  rw [serverOk_not_bigPort hsrv] at hbp
  exact absurd hbp (by simp)

theorem mxcOk_not_bigPort {x : Ext} {s srv media : Str} (hx : Ipv6Sound x)
    (h : MxcOk x s srv media) :
    mxc (portTooBig (structHost x.isIpv6)) (fun _ => true) s = false :=
  mxcOk_not_bigPort_of (fun _ hA => structHost_no_slash hx hA) h

end Ruma.Ids
