/-
  C12 — lemmas about the glob relation and its decision procedures (`Spec/Glob.lean`).
-/
import RumaModel.Spec.Glob
namespace Ruma.Spec.Glob

theorem anySuffix_iff (f : Text → Bool) (s : Text) :
    anySuffix f s = true ↔ ∃ u t, s = u ++ t ∧ f t = true := by
  induction s with
  | nil =>
    simp only [anySuffix]
    constructor
    · intro h; exact ⟨[], [], rfl, h⟩
    · rintro ⟨u, t, h, hf⟩
      have : t = [] := by
        have := congrArg List.length h; simp at this; exact List.eq_nil_of_length_eq_zero (by omega)
      subst this; exact hf
  | cons c s ih =>
    simp only [anySuffix, Bool.or_eq_true, ih]
    constructor
    · rintro (h | ⟨u, t, rfl, hf⟩)
      · exact ⟨[], c :: s, rfl, h⟩
      · exact ⟨c :: u, t, rfl, hf⟩
    · rintro ⟨u, t, h, hf⟩
      cases u with
      | nil => left; simp at h; subst h; exact hf
      | cons a u =>
        right
        simp only [List.cons_append, List.cons.injEq] at h
        exact ⟨u, t, h.2, hf⟩

theorem Glob_cons_inv {a : Char} {p s : Text} (h : Glob (a :: p) s) :
    (a = '*' ∧ ∃ u t, s = u ++ t ∧ Glob p t) ∨ (a = '?' ∧ ∃ c t, s = c :: t ∧ Glob p t) ∨
    (a ≠ '*' ∧ a ≠ '?' ∧ ∃ t, s = a :: t ∧ Glob p t) := by
  cases h with
  | star _ u t h => exact Or.inl ⟨rfl, u, t, rfl, h⟩
  | one _ c t h => exact Or.inr (Or.inl ⟨rfl, c, t, rfl, h⟩)
  | lit _ _ t h1 h2 h => exact Or.inr (Or.inr ⟨h1, h2, t, rfl, h⟩)

theorem Glob_star_iff (p s : Text) : Glob ('*' :: p) s ↔ ∃ u t, s = u ++ t ∧ Glob p t := by
  constructor
  · intro h
    rcases Glob_cons_inv h with ⟨_, h⟩ | ⟨h, _⟩ | ⟨h, _⟩
    · exact h
    · exact absurd h (by decide)
    · exact absurd rfl h
  · rintro ⟨u, t, rfl, h⟩; exact Glob.star p u t h

theorem globDecide_iff_Glob (p s : Text) : globDecide p s = true ↔ Glob p s := by
  induction p generalizing s with
  | nil =>
    cases s with
    | nil => simp [globDecide]; exact Glob.nil
    | cons c t => simp [globDecide]; intro h; cases h
  | cons a p ih =>
    by_cases ha : a = '*'
    · subst ha
      simp only [globDecide, beq_self_eq_true, if_true]
      rw [anySuffix_iff, Glob_star_iff]
      constructor
      · rintro ⟨u, t, h, hf⟩; exact ⟨u, t, h, (ih t).1 hf⟩
      · rintro ⟨u, t, h, hf⟩; exact ⟨u, t, h, (ih t).2 hf⟩
    · have ha' : (a == '*') = false := by simp [ha]
      simp only [globDecide, ha', Bool.false_eq_true, if_false]
      cases s with
      | nil =>
        simp only [Bool.false_eq_true, false_iff]
        intro h
        rcases Glob_cons_inv h with ⟨h, _⟩ | ⟨_, c, t, h, _⟩ | ⟨_, _, t, h, _⟩
        · exact ha h
        · cases h
        · cases h
      | cons c t =>
        simp only [Bool.and_eq_true, Bool.or_eq_true, beq_iff_eq, ih]
        constructor
        · rintro ⟨h1 | h1, h2⟩
          · subst h1; exact Glob.one p c t h2
          · subst h1
            by_cases hq : a = '?'
            · subst hq; exact Glob.one p _ t h2
            · exact Glob.lit a p t ha hq h2
        · intro h
          rcases Glob_cons_inv h with ⟨h, _⟩ | ⟨h1, c', t', h, hg⟩ | ⟨_, _, t', h, hg⟩
          · exact absurd h ha
          · cases h; exact ⟨Or.inl h1, hg⟩
          · cases h; exact ⟨Or.inr rfl, hg⟩
theorem wordDecide_iff_WordMatch (p s : Text) : wordDecide p s = true ↔ WordMatch p s := by
  unfold wordDecide WordMatch
  by_cases hp : p = []
  · subst hp; simp
  · have hp' : p.isEmpty = false := by cases p <;> simp_all
    simp only [hp', Bool.false_eq_true, if_false, hp, false_and, false_or,
      List.any_eq_true, List.mem_range, Bool.and_eq_true, decide_eq_true_eq, globDecide_iff_Glob]
    constructor
    · rintro ⟨i, _, hi, j, hj, ⟨hij, hbj⟩, hg⟩
      exact ⟨hp, i, j, hij, by omega, hg, hi, hbj⟩
    · rintro ⟨_, i, j, hij, hj, hg, hi, hbj⟩
      exact ⟨i, by omega, hi, j, by omega, ⟨hij, hbj⟩, hg⟩

/-- A pattern without wildcards matches exactly itself. -/
theorem Glob_literal {p : Text} (hp : ∀ c ∈ p, c ≠ '*' ∧ c ≠ '?') (t : Text) : Glob p t ↔ t = p := by
  induction p generalizing t with
  | nil =>
    constructor
    · intro h; cases h; rfl
    · rintro rfl; exact Glob.nil
  | cons a p ih =>
    have ha := hp a (by simp)
    have ih' := ih (fun c hc => hp c (by simp [hc]))
    constructor
    · intro h
      rcases Glob_cons_inv h with ⟨h, _⟩ | ⟨h, _⟩ | ⟨_, _, t', rfl, hg⟩
      · exact absurd h ha.1
      · exact absurd h ha.2
      · rw [(ih' t').1 hg]
    · rintro rfl
      exact Glob.lit a p p ha.1 ha.2 ((ih' p).2 rfl)

theorem literalWordDecide_iff (p s : Text) : literalWordDecide p s = true ↔ LiteralWordMatch p s := by
  unfold literalWordDecide LiteralWordMatch
  by_cases hp : p = []
  · subst hp; simp
  · have hp' : p.isEmpty = false := by cases p <;> simp_all
    simp only [hp', Bool.false_eq_true, if_false, hp, false_and, false_or,
      List.any_eq_true, List.mem_range, Bool.and_eq_true, decide_eq_true_eq]
    constructor
    · rintro ⟨i, _, hi, j, hj, ⟨hij, hbj⟩, hg⟩
      exact ⟨hp, i, j, hij, by omega, hg, hi, hbj⟩
    · rintro ⟨_, i, j, hij, hj, hg, hi, hbj⟩
      exact ⟨i, by omega, hi, j, by omega, ⟨hij, hbj⟩, hg⟩

/-- For a text without `*` and `?`, occurring literally and matching as a glob are the same. -/
theorem LiteralWordMatch_iff_WordMatch {p : Text} (hp : ∀ c ∈ p, c ≠ '*' ∧ c ≠ '?') (s : Text) :
    LiteralWordMatch p s ↔ WordMatch p s := by
  unfold LiteralWordMatch WordMatch
  simp only [Glob_literal hp]

end Ruma.Spec.Glob
