/-
  C10 helper lemmas, part 8: the reference `Ipv6Addr` / `Ipv4Addr` parsers (`Model/IdsIp.lean`) only
  consume characters of the specification's `IPv6char` set, between 2 and 45 of them.
-/
import RumaModel.Lemmas.IdsCtor
import RumaModel.Model.IdsIp
namespace Ruma.Ids
open Ruma Spec.IdGrammar

theorem readDigits_spec {dig : Nat → Bool} {max : Nat} :
    ∀ (s : Str) (acc cnt : Nat) {v cnt' : Nat} {rest : Str},
      readDigits dig max s acc cnt = some (v, cnt', rest) → cnt ≤ max →
      ∃ c, s = c ++ rest ∧ (∀ b ∈ c, dig b = true) ∧ cnt' = cnt + c.length ∧ cnt' ≤ max
  | [], acc, cnt, v, cnt', rest, h, hm => by
    simp only [readDigits, Option.some.injEq, Prod.mk.injEq] at h
    obtain ⟨_, rfl, rfl⟩ := h
    exact ⟨[], rfl, by simp, by simp, hm⟩
  | b :: t, acc, cnt, v, cnt', rest, h, hm => by
    unfold readDigits at h
    by_cases hd : dig b = true
    · simp only [hd, if_true] at h
      by_cases hc : cnt + 1 > max
      · simp [hc] at h
      · simp only [hc, if_false] at h
        obtain ⟨c, hc1, hc2, hc3, hc4⟩ := readDigits_spec t _ _ h (by omega)
        refine ⟨b :: c, by rw [hc1]; rfl, ?_, by simp; omega, hc4⟩
        intro x hx
        rcases List.mem_cons.1 hx with rfl | hx
        · exact hd
        · exact hc2 x hx
    · simp only [hd, Bool.false_eq_true, if_false, Option.some.injEq, Prod.mk.injEq] at h
      obtain ⟨_, rfl, rfl⟩ := h
      exact ⟨[], rfl, by simp, by simp, hm⟩

theorem readHexGroup_spec {s r : Str} (h : readHexGroup s = some r) :
    ∃ c, s = c ++ r ∧ (∀ b ∈ c, hexDigit b = true) ∧ 1 ≤ c.length ∧ c.length ≤ 4 := by
  unfold readHexGroup at h
  cases hd : readDigits hexDigit 4 s 0 0 with
  | none => simp [hd] at h
  | some p =>
    obtain ⟨v, cnt, rest⟩ := p
    simp only [hd] at h
    by_cases hc : cnt = 0
    · simp [hc] at h
    · simp only [hc, if_false, Option.some.injEq] at h
      subst h
      obtain ⟨c, h1, h2, h3, h4⟩ := readDigits_spec s 0 0 hd (by omega)
      exact ⟨c, h1, h2, by omega, by omega⟩

theorem readOctet_spec {s r : Str} (h : readOctet s = some r) :
    ∃ c, s = c ++ r ∧ (∀ b ∈ c, isDigit b = true) ∧ 1 ≤ c.length ∧ c.length ≤ 3 := by
  unfold readOctet at h
  cases hd : readDigits isDigit 3 s 0 0 with
  | none => simp [hd] at h
  | some p =>
    obtain ⟨v, cnt, rest⟩ := p
    simp only [hd] at h
    by_cases hc : cnt = 0
    · simp [hc] at h
    · simp only [hc, if_false] at h
      split at h
      · simp at h
      · split at h
        · simp only [Option.some.injEq] at h
          subst h
          obtain ⟨c, h1, h2, h3, h4⟩ := readDigits_spec s 0 0 hd (by omega)
          exact ⟨c, h1, h2, by omega, by omega⟩
        · simp at h

/-- What a sub-parser consumed: `s = c ++ r` with every byte of `c` satisfying `p` and
`lo ≤ |c| ≤ hi`. -/
def Consumed (p : Nat → Bool) (lo hi : Nat) (s r : Str) : Prop :=
  ∃ c, s = c ++ r ∧ (∀ b ∈ c, p b = true) ∧ lo ≤ c.length ∧ c.length ≤ hi

theorem Consumed.mono {p q : Nat → Bool} {lo hi lo' hi' : Nat} {s r : Str}
    (h : Consumed p lo hi s r) (hpq : ∀ b, p b = true → q b = true) (hl : lo' ≤ lo) (hh : hi ≤ hi') :
    Consumed q lo' hi' s r := by
  obtain ⟨c, h1, h2, h3, h4⟩ := h
  exact ⟨c, h1, fun b hb => hpq b (h2 b hb), by omega, by omega⟩

theorem Consumed.trans {p : Nat → Bool} {a b a' b' : Nat} {s r t : Str}
    (h1 : Consumed p a b s r) (h2 : Consumed p a' b' r t) : Consumed p (a + a') (b + b') s t := by
  obtain ⟨c, rfl, hc2, hc3, hc4⟩ := h1
  obtain ⟨d, rfl, hd2, hd3, hd4⟩ := h2
  refine ⟨c ++ d, by simp, ?_, by simp; omega, by simp; omega⟩
  intro x hx
  rcases List.mem_append.1 hx with hx | hx
  · exact hc2 x hx
  · exact hd2 x hx

theorem readSep_spec {p : Nat → Bool} {lo hi sep i : Nat} {inner : Str → Option Str} {s r : Str}
    (hin : ∀ s r, inner s = some r → Consumed p lo hi s r) (hsep : p sep = true)
    (h : readSep sep i inner s = some r) :
    Consumed p (lo + (if i > 0 then 1 else 0)) (hi + (if i > 0 then 1 else 0)) s r := by
  unfold readSep at h
  by_cases hi0 : i > 0
  · simp only [hi0, if_true] at h ⊢
    cases s with
    | nil => simp at h
    | cons c t =>
      simp only at h
      by_cases hc : c = sep
      · simp only [hc, if_true] at h
        obtain ⟨d, rfl, hd2, hd3, hd4⟩ := hin _ _ h
        refine ⟨c :: d, by simp, ?_, by simp; omega, by simp; omega⟩
        intro x hx
        rcases List.mem_cons.1 hx with rfl | hx
        · rw [hc]; exact hsep
        · exact hd2 x hx
      · simp [hc] at h
  · simp only [hi0, if_false] at h ⊢
    exact hin _ _ h

def v4Char (b : Nat) : Bool := isDigit b || b == 46

theorem readOctet_consumed (s r : Str) (h : readOctet s = some r) : Consumed v4Char 1 3 s r := by
  obtain ⟨c, h1, h2, h3, h4⟩ := readOctet_spec h
  exact ⟨c, h1, fun b hb => by simp [v4Char, h2 b hb], h3, h4⟩

theorem readIpv4_spec (s r : Str) (h : readIpv4 s = some r) : Consumed v4Char 7 15 s r := by
  unfold readIpv4 at h
  cases h0 : readSep 46 0 readOctet s with
  | none => simp [h0] at h
  | some r0 =>
    simp only [h0, Option.bind_some] at h
    cases h1 : readSep 46 1 readOctet r0 with
    | none => simp [h1] at h
    | some r1 =>
      simp only [h1, Option.bind_some] at h
      cases h2 : readSep 46 2 readOctet r1 with
      | none => simp [h2] at h
      | some r2 =>
        simp only [h2, Option.bind_some] at h
        have c0 := readSep_spec readOctet_consumed (by decide) h0
        have c1 := readSep_spec readOctet_consumed (by decide) h1
        have c2 := readSep_spec readOctet_consumed (by decide) h2
        have c3 := readSep_spec readOctet_consumed (by decide) h
        exact (((c0.trans c1).trans c2).trans c3).mono (fun _ hb => hb) (by decide) (by decide)

theorem v4Char_ipv6Char {b : Nat} (h : v4Char b = true) : ipv6Char b = true := by
  simp only [v4Char, Bool.or_eq_true, beq_iff_eq] at h
  rcases h with h | rfl
  · simp [ipv6Char, isDigit_eq, h]
  · decide

theorem hexDigit_ipv6Char {b : Nat} (h : hexDigit b = true) : ipv6Char b = true := by
  simp only [hexDigit, Bool.or_eq_true, Bool.and_eq_true, decide_eq_true_eq] at h
  simp only [ipv6Char, isDigit_eq, Bool.or_eq_true, decide_eq_true_eq]
  rcases h with (h | h) | h
  · exact .inl (.inl (.inl h))
  · exact .inl (.inr h)
  · exact .inl (.inl (.inr h))

theorem readHexGroup_consumed (s r : Str) (h : readHexGroup s = some r) :
    Consumed ipv6Char 1 4 s r := by
  obtain ⟨c, h1, h2, h3, h4⟩ := readHexGroup_spec h
  exact ⟨c, h1, fun b hb => hexDigit_ipv6Char (h2 b hb), h3, h4⟩

theorem readIpv4_consumed (s r : Str) (h : readIpv4 s = some r) : Consumed ipv6Char 7 15 s r :=
  (readIpv4_spec s r h).mono (fun _ hb => v4Char_ipv6Char hb) (Nat.le_refl _) (Nat.le_refl _)

/-- What `read_groups` consumed, in terms of the number of groups it reports. -/
theorem readGroupsFrom_spec {limit : Nat} :
    ∀ (n i : Nat) (s : Str) {cnt : Nat} {v4 : Bool} {r : Str},
      readGroupsFrom limit n i s = (cnt, v4, r) → i + n = limit →
      ∃ c, s = c ++ r ∧ (∀ b ∈ c, ipv6Char b = true) ∧ i ≤ cnt ∧ cnt ≤ limit
        ∧ cnt - i ≤ c.length
        ∧ (v4 = false → c.length ≤ 5 * (cnt - i) ∧ (i = 0 → cnt > 0 → c.length + 1 ≤ 5 * cnt))
        ∧ (v4 = true → i + 2 ≤ cnt ∧ c.length ≤ 5 * (cnt - 2 - i) + 16
            ∧ (i = 0 → c.length ≤ 5 * (cnt - 2) + 15))
  | 0, i, s, cnt, v4, r, h, hl => by
    simp only [readGroupsFrom, Prod.mk.injEq] at h
    obtain ⟨rfl, rfl, rfl⟩ := h
    exact ⟨[], rfl, by simp, by omega, by omega, by simp, fun _ => ⟨by simp, by omega⟩, by simp⟩
  | n + 1, i, s, cnt, v4, r, h, hl => by
    unfold readGroupsFrom at h
    cases h4 : (if i < limit - 1 then readSep 58 i readIpv4 s else none) with
    | some rest =>
      simp only [h4, Prod.mk.injEq] at h
      obtain ⟨rfl, rfl, rfl⟩ := h
      by_cases hi : i < limit - 1
      · simp only [hi, if_true] at h4
        obtain ⟨c, h1, h2, h3, h5⟩ := readSep_spec readIpv4_consumed (by decide) h4
        refine ⟨c, h1, h2, by omega, by omega, by omega, by simp, ?_⟩
        intro _
        refine ⟨by omega, ?_, ?_⟩
        · split at h5 <;> omega
        · intro hi0; subst hi0; simp at h5; omega
      · simp [hi] at h4
    | none =>
      simp only [h4] at h
      cases hg : readSep 58 i readHexGroup s with
      | none =>
        simp only [hg, Prod.mk.injEq] at h
        obtain ⟨rfl, rfl, rfl⟩ := h
        exact ⟨[], rfl, by simp, by omega, by omega, by simp, fun _ => ⟨by simp, by omega⟩, by simp⟩
      | some rest =>
        simp only [hg] at h
        obtain ⟨c, rfl, h2, h3, h5⟩ := readSep_spec readHexGroup_consumed (by decide) hg
        obtain ⟨d, rfl, d2, d3, d4, d5, d6, d7⟩ := readGroupsFrom_spec n (i + 1) rest h (by omega)
        refine ⟨c ++ d, by simp, ?_, by omega, d4, by simp; omega, ?_, ?_⟩
        · intro x hx
          rcases List.mem_append.1 hx with hx | hx
          · exact h2 x hx
          · exact d2 x hx
        · intro hv
          obtain ⟨e1, _⟩ := d6 hv
          refine ⟨by simp; split at h5 <;> omega, ?_⟩
          intro hi0 _; subst hi0; simp at h5 ⊢; omega
        · intro hv
          obtain ⟨e0, e1, _⟩ := d7 hv
          refine ⟨by omega, by simp; split at h5 <;> omega, ?_⟩
          intro hi0; subst hi0; simp at h5 ⊢; omega

/-- Every string the reference `Ipv6Addr` parser accepts is `2*45IPv6char` of the specification's
server-name grammar: 2 to 45 characters, each a hex digit, `:` or `.`. -/
theorem ipv6Ref_chars {s : Str} (h : ipv6Ref s = true) :
    (∀ b ∈ s, ipv6Char b = true) ∧ 2 ≤ s.length ∧ s.length ≤ 45 := by
  simp only [ipv6Ref, beq_iff_eq] at h
  unfold readIpv6 at h
  cases hg : readGroups 8 s with
  | mk hs p =>
    obtain ⟨h4, r⟩ := p
    simp only [hg] at h
    obtain ⟨c, rfl, c2, c3, c4, c5, c6, c7⟩ := readGroupsFrom_spec 8 0 s hg (by omega)
    by_cases h8 : hs = 8
    · simp only [h8, if_true, Option.some.injEq] at h
      subst h; subst h8
      simp only [List.append_nil]
      refine ⟨c2, by omega, ?_⟩
      cases h4 with
      | false => have := (c6 rfl).2 rfl (by omega); omega
      | true => have := (c7 rfl).2.2 rfl; omega
    · simp only [h8, if_false] at h
      cases h4 with
      | true => simp at h
      | false =>
        simp only [Bool.false_eq_true, if_false] at h
        match r, h with
        | 58 :: 58 :: r2, h =>
          simp only [Option.some.injEq] at h
          cases ht : readGroups (8 - (hs + 1)) r2 with
          | mk ts q =>
            obtain ⟨t4, r3⟩ := q
            rw [ht] at h
            simp only at h
            subst h
            obtain ⟨d, rfl, d2, d3, d4, d5, d6, d7⟩ :=
              readGroupsFrom_spec (8 - (hs + 1)) 0 r2 ht (by omega)
            have hc := (c6 rfl).1
            refine ⟨?_, by simp; omega, ?_⟩
            · intro x hx
              simp only [List.append_nil, List.mem_append, List.mem_cons] at hx
              rcases hx with hx | rfl | rfl | hx
              · exact c2 x hx
              · decide
              · decide
              · exact d2 x hx
            · simp only [List.append_nil, List.length_append, List.length_cons]
              cases t4 with
              | false => have := (d6 rfl).1; omega
              | true => have := (d7 rfl).2.2 rfl; have := (d7 rfl).1; omega

/-! ### Accepted server names and the grammar, with the reference IPv6 parser -/

theorem gramHost_of_hostOk {x : Ext} {h : Str}
    (hx : ∀ c, x.isIpv6 c = true → ipv6Ref c = true) (hh : HostOk x h) (hl : h.length ≤ 255) :
    gramHost x.isIpv6 h = true := by
  cases hh with
  | name h hne hall =>
    simp only [gramHost, Bool.or_eq_true, Bool.and_eq_true, decide_eq_true_eq]
    exact .inl ⟨nonEmptyAll_iff.2 ⟨hne, fun b hb => by rw [dnsChar_eq]; exact hall b hb⟩, hl⟩
  | v6 c hn hv =>
    simp only [gramHost, Bool.or_eq_true]
    right
    obtain ⟨h1, h2, h3⟩ := ipv6Ref_chars (hx c hv)
    refine bracketed_iff.2 ⟨c, rfl, ?_⟩
    simp only [Bool.and_eq_true, decide_eq_true_eq, List.all_eq_true]
    exact ⟨⟨⟨h2, h3⟩, h1⟩, hv⟩

/-- With an IPv6 parser that accepts at most what the reference accepts, every accepted server name
of at most 255 bytes is in the specification's grammar. -/
theorem gramServerName_of_serverOk {x : Ext} {s : Str}
    (hx : ∀ c, x.isIpv6 c = true → ipv6Ref c = true) (h : ServerOk x s) (hl : s.length ≤ 255) :
    gramServerName x.isIpv6 s = true := by
  obtain ⟨h, hh, rfl | ⟨p, rfl, hp⟩⟩ := h
  · simp [gramServerName, withPort, gramHost_of_hostOk hx hh hl]
  · simp only [gramServerName, withPort, Bool.or_eq_true]
    right
    exact cutAt_iff.2 ⟨h, p, rfl, gramHost_of_hostOk hx hh (by simp at hl; omega),
      (isValidPort_iff.1 hp).1⟩

theorem hostOk_no_nul {x : Ext} {h : Str}
    (hx : ∀ c, x.isIpv6 c = true → ipv6Ref c = true) (hh : HostOk x h) : 0 ∉ h := by
  cases hh with
  | name h hne hall =>
    intro hm; have := hall 0 hm; simp [hostByteOk, isAlnum, isDigit, isLower, isUpper] at this
  | v6 c hn hv =>
    intro hm
    simp only [List.mem_cons, List.mem_append, List.not_mem_nil, or_false] at hm
    rcases hm with hm | hm | hm
    · omega
    · have := (ipv6Ref_chars (hx c hv)).1 0 hm
      simp [ipv6Char, digit, oneOf, bs] at this
    · omega

theorem serverOk_no_nul {x : Ext} {s : Str}
    (hx : ∀ c, x.isIpv6 c = true → ipv6Ref c = true) (h : ServerOk x s) : 0 ∉ s := by
  obtain ⟨h, hh, rfl | ⟨p, rfl, hp⟩⟩ := h
  · exact hostOk_no_nul hx hh
  · intro hm
    simp only [List.mem_append, List.mem_cons] at hm
    rcases hm with hm | hm | hm
    · exact hostOk_no_nul hx hh hm
    · omega
    · have := isValidPort_digits hp 0 hm
      simp [isDigit] at this


theorem last_colon_unique {a a' p p' : Str} (hp : 58 ∉ p) (hp' : 58 ∉ p')
    (e : a ++ 58 :: p = a' ++ 58 :: p') : a = a' ∧ p = p' := by
  have e2 := congrArg List.reverse e
  simp only [List.reverse_append, List.reverse_cons, List.append_assoc, List.singleton_append] at e2
  have f1 := find_append (c := 58) (pre := p.reverse) (post := a.reverse) (by simpa using hp)
  have f2 := find_append (c := 58) (pre := p'.reverse) (post := a'.reverse) (by simpa using hp')
  rw [e2, f2] at f1
  have hlen : p'.reverse.length = p.reverse.length := by simpa using f1
  have := List.append_inj e2 hlen.symm
  have h1 : p = p' := by simpa using this.1
  have h2 : a = a' := by simpa using this.2
  exact ⟨h2, h1⟩

/-- An accepted server name does not carry a port above 65535. -/
theorem serverOk_not_bigPort {x : Ext} {s : Str} {host : Str → Bool} (h : ServerOk x s) :
    portTooBig host s = false := by
  rw [Bool.eq_false_iff]
  intro hb
  obtain ⟨h', p', rfl, _, hq⟩ := cutAt_iff.1 hb
  simp only [Bool.and_eq_true, decide_eq_true_eq, isPort, List.all_eq_true] at hq
  obtain ⟨⟨⟨hl1, _⟩, hd⟩, hbig⟩ := hq
  have hp' : 58 ∉ p' := by
    intro hm; have := hd 58 hm; simp [digit] at this
  obtain ⟨h, hh, e | ⟨p, e, hp⟩⟩ := h
  · -- no port: the host would contain `:` followed by digits up to its end
    cases hh with
    | name h hne hall =>
      have := hall 58 (by rw [← e]; simp)
      simp [hostByteOk, isAlnum, isDigit, isLower, isUpper] at this
    | v6 c hn hv =>
      have l1 : (h' ++ 58 :: p').getLast? = p'.getLast? := by
        cases p' with
        | nil => simp at hl1
        | cons a t =>
          rw [List.getLast?_append, List.getLast?_cons_cons]
          cases hgl : (a :: t).getLast? with
          | none => simp at hgl
          | some v => simp
      have l2 : (91 :: (c ++ [93])).getLast? = some 93 := by
        simp [List.getLast?_cons, List.getLast?_append]
      rw [e, l2] at l1
      have hm : 93 ∈ p' := List.mem_of_getLast? l1.symm
      have := hd 93 hm
      simp [digit] at this
  · have hp58 : 58 ∉ p := by
      intro hm; have := isValidPort_digits hp 58 hm; simp [isDigit] at this
    obtain ⟨_, rfl⟩ := last_colon_unique hp' hp58 e
    have := (isValidPort_iff.1 hp).2
    omega

end Ruma.Ids
