/-
  C20 — lemmas relating the helper model (`Model/PowerLevels.lean`) to the accessors of the
  authorization model (`Model/Auth.lean`): whenever the rules of a room version can read a
  power-levels content in full (`authWF`) and the helper can deserialize it (`ofContent`), every
  level the rules read is the level the helper holds (`Agree`).
-/
import RumaModel.Model.PowerLevels
import RumaModel.Lemmas.Auth
namespace Ruma.PowerLevels
open Ruma Ruma.Auth Ruma.Ident

/-! ## The helper's deserializer accepts whatever the rules accept, with the same value -/

theorem plInt_serde_of_ok {rules : AuthRules} {v : JVal} {i : Int} (h : plInt rules v = .ok i) :
    plInt serdeRules v = .ok i := by
  cases v with
  | str s =>
    cases hr : rules.integerPowerLevels with
    | true => simp [plInt, hr] at h
    | false => simpa [plInt, hr, serdeRules, AuthRules.v1] using h
  | int i => simpa [plInt] using h
  | _ => simp [plInt] at h

theorem intMapEntries_serde_of_ok {rules : AuthRules} {keyOf : Str → Option Str} :
    ∀ {kvs : List (Str × JVal)} {m : PLMap}, intMapEntries rules keyOf kvs = .ok m →
      intMapEntries serdeRules keyOf kvs = .ok m := by
  intro kvs
  induction kvs with
  | nil => intro m h; simpa [intMapEntries] using h
  | cons kv t ih =>
    intro m h
    obtain ⟨k, v⟩ := kv
    simp only [intMapEntries] at h ⊢
    cases hk : keyOf k with
    | none => simp [hk] at h
    | some k' =>
      simp only [hk, bind_eq_ok] at h ⊢
      obtain ⟨i, hi, rest, hrest, hm⟩ := h
      exact ⟨i, plInt_serde_of_ok hi, rest, ih hrest, hm⟩

theorem okB_iff {α} {x : Res α} : okB x = true ↔ ∃ a, x = .ok a := by
  cases x <;> simp [okB]

/-- The pieces of a successful `ofContent`. -/
theorem ofContent_fields {c : Obj} {p : Levels} (h : ofContent c = some p) :
    intField c (bs "ban") defaultPowerLevel = .ok p.ban ∧
    mapField c (bs "events") (fun k => some (canonType k)) = .ok p.events ∧
    intField c (bs "events_default") 0 = .ok p.eventsDefault ∧
    intField c (bs "invite") 0 = .ok p.invite ∧
    intField c (bs "kick") defaultPowerLevel = .ok p.kick ∧
    intField c (bs "redact") defaultPowerLevel = .ok p.redact ∧
    intField c (bs "state_default") defaultPowerLevel = .ok p.stateDefault ∧
    mapField c (bs "users") (fun k => if validUserId k then some k else none) = .ok p.users ∧
    intField c (bs "users_default") 0 = .ok p.usersDefault ∧
    notificationsField c = .ok p.notificationsRoom := by
  unfold ofContent at h
  cases hr : ofContentR c with
  | error e => simp [hr] at h
  | ok q =>
    simp only [hr, Option.some.injEq] at h
    subst h
    simp only [ofContentR, bind_eq_ok] at hr
    obtain ⟨a1, h1, a2, h2, a3, h3, a4, h4, a5, h5, a6, h6, a7, h7, a8, h8, a9, h9, a10, h10, hq⟩ := hr
    simp only [Except.ok.injEq] at hq
    subst hq
    exact ⟨h1, h2, h3, h4, h5, h6, h7, h8, h9, h10⟩

/-! ## The helper's levels are the levels the authorization rules read -/

/-- The helper's default of an integer field. -/
def helperDefault : PLField → Int
  | .usersDefault | .eventsDefault | .invite => 0
  | .stateDefault | .kick | .ban | .redact => defaultPowerLevel

theorem int_field_agree {rules : AuthRules} {c : Obj} {fld : PLField} {x : Int}
    (hwf : okB (getAsInt rules c fld) = true)
    (hx : intField c fld.key (helperDefault fld) = .ok x) :
    getAsIntOrDefault rules c fld = .ok x := by
  obtain ⟨o, ho⟩ := okB_iff.mp hwf
  unfold getAsIntOrDefault
  rw [ho]
  unfold getAsInt at ho
  unfold intField at hx
  cases hg : Obj.get c fld.key with
  | none =>
    simp only [hg, Except.ok.injEq] at ho hx
    subst ho hx
    cases fld <;> rfl
  | some v =>
    simp only [hg, exceptMap_eq_ok] at ho hx
    obtain ⟨i, hi, rfl⟩ := ho
    have := plInt_serde_of_ok hi
    rw [this] at hx
    simp only [Except.ok.injEq] at hx
    subst hx
    rfl

theorem map_field_agree {rules : AuthRules} {c : Obj} {key : Str} {keyOf : Str → Option Str}
    {m : Option PLMap} {l : PLMap}
    (hm : getAsIntMap rules c key keyOf = .ok m) (hl : mapField c key keyOf = .ok l) (k : Str) :
    m.bind (lastGet · k) = lastGet l k := by
  unfold getAsIntMap at hm
  unfold mapField at hl
  cases hg : Obj.get c key with
  | none =>
    simp only [hg, Except.ok.injEq] at hm hl
    subst hm hl
    simp [lastGet]
  | some v =>
    cases v with
    | obj kvs =>
      simp only [hg, exceptMap_eq_ok] at hm hl
      obtain ⟨l', hl', rfl⟩ := hm
      have := intMapEntries_serde_of_ok hl'
      rw [this] at hl
      simp only [Except.ok.injEq] at hl
      subst hl
      simp
    | _ => simp [hg] at hm

theorem authWF_fields {rules : AuthRules} {c : Obj} (h : authWF rules c = true) :
    (∀ fld, okB (getAsInt rules c fld) = true) ∧
    (∃ m, plEvents rules c = .ok m) ∧ (∃ m, plUsers rules c = .ok m) ∧
    (∃ m, plNotifications rules c = .ok m) := by
  simp only [authWF, Bool.and_eq_true, List.all_eq_true] at h
  obtain ⟨⟨⟨h1, h2⟩, h3⟩, h4⟩ := h
  exact ⟨fun fld => h1 fld (PLField.mem_all fld), okB_iff.mp h2, okB_iff.mp h3, okB_iff.mp h4⟩

/-- What the rules read from a power-levels event is what the helper holds. -/
structure Agree (rules : AuthRules) (pl : Event) (p : Levels) : Prop where
  user : ∀ u creator, plUserLevel rules (some pl) u creator = .ok (p.forUser u)
  ban : plIntOrDefault rules (some pl) .ban = .ok p.ban
  kick : plIntOrDefault rules (some pl) .kick = .ok p.kick
  invite : plIntOrDefault rules (some pl) .invite = .ok p.invite
  redact : plIntOrDefault rules (some pl) .redact = .ok p.redact
  state : ∀ t, plEventLevel rules (some pl) t true = .ok (p.forState t)
  message : ∀ t, plEventLevel rules (some pl) t false = .ok (p.forMessage t)

theorem agree_of_wf {rules : AuthRules} {pl : Event} {p : Levels}
    (hwf : authWF rules pl.content = true) (hp : ofContent pl.content = some p) :
    Agree rules pl p := by
  obtain ⟨hint, ⟨me, hme⟩, ⟨mu, hmu⟩, -⟩ := authWF_fields hwf
  obtain ⟨f1, f2, f3, f4, f5, f6, f7, f8, f9, -⟩ := ofContent_fields hp
  have hud : getAsIntOrDefault rules pl.content .usersDefault = .ok p.usersDefault :=
    int_field_agree (hint _) f9
  have hsd : getAsIntOrDefault rules pl.content .stateDefault = .ok p.stateDefault :=
    int_field_agree (hint _) f7
  have hed : getAsIntOrDefault rules pl.content .eventsDefault = .ok p.eventsDefault :=
    int_field_agree (hint _) f3
  refine ⟨?_, int_field_agree (hint _) f1, int_field_agree (hint _) f5, int_field_agree (hint _) f4,
    int_field_agree (hint _) f6, ?_, ?_⟩
  · intro u creator
    have := map_field_agree hmu f8 u
    simp only [plUserLevel, hmu, bind, Except.bind, this, Levels.forUser]
    cases lastGet p.users u with
    | some l => rfl
    | none => exact hud
  · intro t
    have := map_field_agree hme f2 t
    simp only [plEventLevel, hme, bind, Except.bind, this, Levels.forState]
    cases lastGet p.events t with
    | some l => rfl
    | none => exact hsd
  · intro t
    have := map_field_agree hme f2 t
    simp only [plEventLevel, hme, bind, Except.bind, this, Levels.forMessage]
    cases lastGet p.events t with
    | some l => rfl
    | none => exact hed

end Ruma.PowerLevels
