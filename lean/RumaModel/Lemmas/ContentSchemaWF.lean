/-
  Well-formedness of the schemas that occur: every scalar type of `Model/ContentSchemaLeaves.lean`
  meets the scalar clauses of `WF` (idempotent, `null` only from `null`; `Base64` included, without a
  shape hypothesis), every one of them except `Base64`, `f64` and the lenient power-level reader writes
  back exactly what it read (`Verbatim`), and the total check `wfb` is sound for `WF`.
-/
import RumaModel.Model.ContentSchemaLeaves
import RumaModel.Lemmas.ContentSchemaThm2
namespace Ruma.ContentSchema
open Ruma Ruma.Canonical

theorem b64Sym_ne_pad (v : Nat) : b64Sym v ≠ 61 := by
  unfold b64Sym
  split
  · omega
  split
  · omega
  split
  · omega
  split <;> omega

theorem b64Val_lt {c v : Nat} (h : b64Val c = some v) : v < 64 := by
  unfold b64Val at h
  simp only [Bool.and_eq_true, decide_eq_true_eq, beq_iff_eq] at h
  split at h
  · simp only [Option.some.injEq] at h; omega
  split at h
  · simp only [Option.some.injEq] at h; omega
  split at h
  · simp only [Option.some.injEq] at h; omega
  split at h
  · simp only [Option.some.injEq] at h; omega
  split at h
  · simp only [Option.some.injEq] at h; omega
  · cases h

theorem b64Val_sym {v : Nat} (h : v < 64) : b64Val (b64Sym v) = some v := by
  unfold b64Sym
  by_cases h1 : v < 26
  · rw [if_pos h1]; unfold b64Val
    rw [if_pos (by simp only [Bool.and_eq_true, decide_eq_true_eq]; omega)]
    congr 1; omega
  rw [if_neg h1]
  by_cases h2 : v < 52
  · rw [if_pos h2]; unfold b64Val
    rw [if_neg (by simp only [Bool.and_eq_true, decide_eq_true_eq]; omega),
      if_pos (by simp only [Bool.and_eq_true, decide_eq_true_eq]; omega)]
    congr 1; omega
  rw [if_neg h2]
  by_cases h3 : v < 62
  · rw [if_pos h3]; unfold b64Val
    rw [if_neg (by simp only [Bool.and_eq_true, decide_eq_true_eq]; omega),
      if_neg (by simp only [Bool.and_eq_true, decide_eq_true_eq]; omega),
      if_pos (by simp only [Bool.and_eq_true, decide_eq_true_eq]; omega)]
    congr 1; omega
  rw [if_neg h3]
  by_cases h4 : v = 62
  · subst h4; rfl
  · have : v = 63 := by omega
    subst this; rfl

theorem takeWhile_all {p : Nat → Bool} : ∀ {l : List Nat}, (∀ x ∈ l, p x = true) → l.takeWhile p = l ∧ l.dropWhile p = []
  | [], _ => ⟨rfl, rfl⟩
  | x :: t, h => by
    have hx := h x (List.mem_cons_self)
    have ht := takeWhile_all (l := t) (fun y hy => h y (List.mem_cons_of_mem _ hy))
    simp only [List.takeWhile, List.dropWhile, hx, ht.1, ht.2, and_self]

theorem allSome_b64 : ∀ {l : List Nat}, (∀ v ∈ l, v < 64) → allSome ((l.map b64Sym).map b64Val) = some l
  | [], _ => rfl
  | x :: t, h => by
    simp only [List.map, allSome, b64Val_sym (h x List.mem_cons_self),
      allSome_b64 (l := t) (fun y hy => h y (List.mem_cons_of_mem _ hy))]

theorem allSome_b64_lt : ∀ {syms vals : List Nat}, allSome (syms.map b64Val) = some vals → ∀ v ∈ vals, v < 64
  | [], vals, h => by
    simp only [List.map, allSome, Option.some.injEq] at h; subst h; intro v hv; cases hv
  | c :: t, vals, h => by
    simp only [List.map] at h
    cases hc : b64Val c with
    | none => rw [hc] at h; simp only [allSome] at h; cases h
    | some x =>
      rw [hc] at h
      simp only [allSome] at h
      cases ht : allSome (t.map b64Val) with
      | none => rw [ht] at h; cases h
      | some t' =>
        rw [ht] at h
        simp only [Option.some.injEq] at h
        subst h
        intro v hv
        rcases List.mem_cons.mp hv with rfl | hv
        · exact b64Val_lt hc
        · exact allSome_b64_lt ht v hv

theorem maskLast_length (m : Nat) : ∀ l : List Nat, (maskLast m l).length = l.length
  | [] => rfl
  | [_] => rfl
  | x :: y :: t => by simp only [maskLast, List.length_cons, maskLast_length m (y :: t)]

theorem maskLast_lt (m : Nat) : ∀ {l : List Nat}, (∀ v ∈ l, v < 64) → ∀ v ∈ maskLast m l, v < 64
  | [], _, v, hv => by cases hv
  | [x], h, v, hv => by
    simp only [maskLast, List.mem_cons, List.mem_nil_iff, or_false] at hv
    subst hv
    have := h x List.mem_cons_self
    exact Nat.lt_of_le_of_lt (Nat.div_mul_le_self x m) this
  | x :: y :: t, h, v, hv => by
    simp only [maskLast, List.mem_cons] at hv
    rcases hv with rfl | hv
    · exact h _ List.mem_cons_self
    · exact maskLast_lt m (l := y :: t) (fun z hz => h z (List.mem_cons_of_mem _ hz)) v (by simpa using hv)

theorem maskLast_idem {m : Nat} (hm : 0 < m) : ∀ l : List Nat, maskLast m (maskLast m l) = maskLast m l
  | [] => rfl
  | [x] => by simp only [maskLast, Nat.mul_div_cancel _ hm]
  | x :: y :: t => by
    have ih := maskLast_idem hm (y :: t)
    cases hq : maskLast m (y :: t) with
    | nil =>
      have := maskLast_length m (y :: t)
      rw [hq] at this; cases this
    | cons a b =>
      rw [hq] at ih
      simp only [maskLast, hq, ih]

theorem b64Canon_length (vals : List Nat) : (b64Canon vals).length = vals.length := by
  unfold b64Canon; split
  · exact maskLast_length _ _
  split
  · exact maskLast_length _ _
  · rfl

theorem b64Canon_lt {vals : List Nat} (h : ∀ v ∈ vals, v < 64) : ∀ v ∈ b64Canon vals, v < 64 := by
  unfold b64Canon; split
  · exact maskLast_lt _ h
  split
  · exact maskLast_lt _ h
  · exact h

theorem b64Canon_idem (vals : List Nat) : b64Canon (b64Canon vals) = b64Canon vals := by
  have hl := b64Canon_length vals
  generalize hM : b64Canon vals = M at hl
  unfold b64Canon
  rw [hl, ← hM]
  unfold b64Canon
  by_cases h2 : (vals.length % 4 == 2) = true
  · simp only [h2, if_true]; exact maskLast_idem (by decide) _
  · simp only [h2, if_false, Bool.false_eq_true]
    by_cases h3 : (vals.length % 4 == 3) = true
    · simp only [h3, if_true]; exact maskLast_idem (by decide) _
    · simp only [h3, if_false, Bool.false_eq_true]

theorem base64Norm_idem {a b : Str} (h : base64Norm a = some b) : base64Norm b = some b := by
  unfold base64Norm at h
  simp only at h
  split at h
  · cases h
  cases hv : allSome (List.map b64Val (List.takeWhile (fun x => x != 61) a)) with
  | none => rw [hv] at h; cases h
  | some vals =>
    rw [hv] at h
    simp only at h
    split at h
    · cases h
    rename_i hr
    simp only [Option.some.injEq] at h
    have hlt := b64Canon_lt (allSome_b64_lt hv)
    subst h
    have hall : ∀ x ∈ (b64Canon vals).map b64Sym, (fun x => x != 61) x = true := by
      intro x hx
      obtain ⟨v, _, rfl⟩ := List.mem_map.mp hx
      simp only [bne_iff_ne, ne_eq]
      exact b64Sym_ne_pad v
    have htd := takeWhile_all hall
    have hr1 : (vals.length % 4 == 1) = false := by
      simp only [Bool.or_eq_true, not_or, Bool.not_eq_true] at hr; exact hr.1
    unfold base64Norm
    simp only [htd.1, htd.2, allSome_b64 hlt, List.all_nil, Bool.not_true, Bool.false_eq_true, if_false,
      List.length_nil, b64Canon_length, hr1, Bool.false_or, Nat.not_lt_zero,
      b64Canon_idem, gt_iff_lt, decide_false]

/-! ### `JVal`'s hand-written `==` decides equality -/

mutual
theorem jval_eq_of_beq (a b : JVal) (h : a.beq b = true) : a = b := by
  cases a <;> cases b <;> simp only [JVal.beq, beq_iff_eq, Bool.false_eq_true] at h
  · rfl
  · subst h; rfl
  · subst h; rfl
  · rfl
  · subst h; rfl
  · exact congrArg _ (jval_eqL_of_beqL _ _ h)
  · exact congrArg _ (jval_eqO_of_beqO _ _ h)
theorem jval_eqL_of_beqL (a b : List JVal) (h : JVal.beqL a b = true) : a = b := by
  cases a <;> cases b <;> simp only [JVal.beqL, Bool.and_eq_true, Bool.false_eq_true] at h
  · rfl
  · rw [jval_eq_of_beq _ _ h.1, jval_eqL_of_beqL _ _ h.2]
theorem jval_eqO_of_beqO (a b : List (Str × JVal)) (h : JVal.beqO a b = true) : a = b := by
  cases a with
  | nil => cases b <;> simp only [JVal.beqO, Bool.false_eq_true] at h; rfl
  | cons x xs =>
    cases b with
    | nil => simp only [JVal.beqO, Bool.false_eq_true] at h
    | cons y ys =>
      obtain ⟨k, v⟩ := x
      obtain ⟨l, w⟩ := y
      simp only [JVal.beqO, Bool.and_eq_true, beq_iff_eq] at h
      rw [h.1.1, jval_eq_of_beq _ _ h.1.2, jval_eqO_of_beqO _ _ h.2]
end

theorem jval_beq_eq {a b : JVal} (h : (a == b) = true) : a = b := jval_eq_of_beq a b h

/-! ### The scalar types -/

theorem acceptStr_idem (p : Str → Bool) : ∀ a b, acceptStr p a = some b → acceptStr p b = some b := by
  intro a b h
  unfold acceptStr at h ⊢
  by_cases hp : p a = true
  · rw [if_pos hp] at h; simp only [Option.some.injEq] at h; subst h; rw [if_pos hp]
  · rw [if_neg hp] at h; cases h

theorem acceptStr_verbatim (p : Str → Bool) : ∀ a b, acceptStr p a = some b → b = a := by
  intro a b h
  unfold acceptStr at h
  by_cases hp : p a = true
  · rw [if_pos hp] at h; simp only [Option.some.injEq] at h; exact h.symm
  · rw [if_neg hp] at h; cases h

/-- Every scalar type that occurs meets the scalar clauses of `WF`. -/
theorem leaf_wf (l : Leaf) : WF l.schema := by
  cases l <;> simp only [Leaf.schema]
  all_goals first
    | exact wf_str (acceptStr_idem _)
    | exact wf_int _ _
    | exact wf_bool
    | exact wf_float
    | exact wf_intLax _ _ _
    | exact wf_voipVersion
    | exact wf_str (fun _ _ h => base64Norm_idem h)

/-- Every scalar type is a `Schema.scalar`. -/
theorem leaf_scalar (l : Leaf) : ∃ norm, l.schema = .scalar norm := by
  cases l <;> simp only [Leaf.schema] <;> exact ⟨_, rfl⟩

/-- The statement of `leaf_wf` spelled out for the names the harness uses: what a leaf writes back
it reads back unchanged, and it writes `null` only for `null`. -/
theorem leafOf_wf (n : String) (s : Schema) (h : leafOf n = some s) :
    WF s ∧ ∃ norm, s = .scalar norm ∧ (∀ a b, norm a = some b → norm b = some b) ∧
      (∀ a, norm a = some .null → a = .null) := by
  unfold leafOf at h
  cases hl : Leaf.ofName n with
  | none => rw [hl] at h; cases h
  | some l =>
    rw [hl] at h
    simp only [Option.map, Option.some.injEq] at h
    subst h
    refine ⟨leaf_wf l, ?_⟩
    obtain ⟨norm, hn⟩ := leaf_scalar l
    have hw := leaf_wf l
    rw [hn] at hw ⊢
    cases hw with
    | scalar h1 h2 => exact ⟨norm, rfl, h1, h2⟩

theorem verbatim_str {norm : Str → Option Str} (h : ∀ a b, norm a = some b → b = a) :
    ∃ n, Schema.str norm = .scalar n ∧ Verbatim n := by
  refine ⟨_, rfl, ?_⟩
  intro a b hab
  cases a <;> simp only [reduceCtorEq] at hab
  rename_i x
  cases hx : norm x with
  | none => rw [hx] at hab; cases hab
  | some y =>
    rw [hx] at hab
    simp only [Option.some.injEq] at hab
    subst hab
    rw [h x y hx]

theorem verbatim_int (lo hi : Int) : ∃ n, Schema.int lo hi = .scalar n ∧ Verbatim n := by
  refine ⟨_, rfl, ?_⟩
  intro a b hab
  cases a <;> simp only [reduceCtorEq] at hab
  split at hab
  · simp only [Option.some.injEq] at hab; exact hab.symm
  · cases hab

theorem verbatim_bool : ∃ n, Schema.bool = .scalar n ∧ Verbatim n := by
  refine ⟨_, rfl, ?_⟩
  intro a b hab
  cases a <;> simp only [reduceCtorEq, Option.some.injEq] at hab
  exact hab.symm

theorem verbatim_voip : ∃ n, Schema.voipVersion = .scalar n ∧ Verbatim n := by
  refine ⟨_, rfl, ?_⟩
  intro a b hab
  cases a with
  | int i =>
    simp only at hab
    by_cases hc : i = 0
    · rw [if_pos hc] at hab; simp only [Option.some.injEq] at hab; subst hc; exact hab.symm
    · rw [if_neg hc] at hab; cases hab
  | str x => simp only [Option.some.injEq] at hab; exact hab.symm
  | _ => simp at hab

/-- Every scalar type that occurs, except `Base64` (re-encodes), `f64` (writes a float) and the
lenient power-level reader (writes the integer), writes back exactly the scalar it read. -/
theorem leaf_verbatim (l : Leaf) (h1 : l ≠ .base64) (h2 : l ≠ .float) (h3 : l ≠ .intLax) :
    ∃ norm, l.schema = .scalar norm ∧ Verbatim norm := by
  cases l <;> simp only [Leaf.schema]
  all_goals first
    | exact verbatim_str (acceptStr_verbatim _)
    | exact verbatim_int _ _
    | exact verbatim_bool
    | exact verbatim_voip
    | exact absurd rfl h1
    | exact absurd rfl h2
    | exact absurd rfl h3

/-! ### `wfb` is sound -/

theorem toFields_eq_map : ∀ fs : List FieldD, toFields fs = fs.map toField
  | [] => rfl
  | f :: t => by simp only [toFields, List.map, toFields_eq_map t]

theorem toCases_eq_map : ∀ cs : List CaseD, toCases cs = cs.map toCase
  | [] => rfl
  | c :: t => by simp only [toCases, List.map, toCases_eq_map t]

theorem distinctB_sound : ∀ fs : List Field, distinctB fs = true → Distinct fs
  | [], _ => List.Pairwise.nil
  | f :: t, h => by
    simp only [distinctB, Bool.and_eq_true, List.all_eq_true, Bool.not_eq_true'] at h
    exact List.Pairwise.cons (fun g hg => h.1 g hg) (distinctB_sound t h.2)

theorem isNull_eq {d : JVal} (h : isNull d = true) : d = .null := by
  cases d <;> simp [isNull] at h; rfl

theorem dfltOk_sound {s : Schema} {na : Bool} {dflt : Option JVal} (h : dfltOk s na dflt = true) :
    ∀ d, dflt = some d → (na = true ∧ d = .null) ∨ project s d = some d := by
  intro d hd
  subst hd
  simp only [dfltOk, Bool.or_eq_true, Bool.and_eq_true] at h
  rcases h with h | h
  · exact Or.inl ⟨h.1, isNull_eq h.2⟩
  · right
    cases hp : project s d with
    | none => rw [hp] at h; cases h
    | some d' => rw [hp] at h; simp only at h; rw [jval_beq_eq h]

theorem skipOf_nil (v : JVal) : skipOf [] v = false := rfl

theorem tagFieldB_sound {tag label : Str} {fd : FieldD} (h : tagFieldB tag label fd = true) :
    (toField fd).name = tag ∧ (toField fd).req = true ∧ (toField fd).ghost = false ∧
      ∃ norm, (toField fd).schema = .scalar norm ∧ ∀ a b, norm a = some b → b = .str label := by
  cases fd with
  | mk name al d req dflt na len skips ghost =>
    cases d with
    | leaf l =>
      cases l with
      | const c =>
        simp only [tagFieldB, Bool.and_eq_true, beq_iff_eq, Bool.not_eq_true'] at h
        obtain ⟨⟨⟨hn, hr⟩, hg⟩, hc⟩ := h
        refine ⟨hn, hr, hg, _, rfl, ?_⟩
        intro a b hab
        cases a <;> simp only [reduceCtorEq] at hab
        rename_i x
        simp only [acceptStr] at hab
        by_cases hx : (x == c) = true
        · rw [if_pos hx] at hab
          simp only [Option.some.injEq] at hab
          rw [← hab, ← hc]
          simp only [beq_iff_eq] at hx
          rw [hx]
        · rw [if_neg hx] at hab; cases hab
      | _ => simp [tagFieldB] at h
    | _ => simp [tagFieldB] at h

theorem tagFixedB_sound {tag label : Str} {d : Desc} (h : tagFixedB tag label d = true) :
    TagFixed tag label d.toSchema := by
  cases d with
  | obj fs keep =>
    simp only [tagFixedB, List.any_eq_true] at h
    obtain ⟨fd, hfd, hb⟩ := h
    obtain ⟨hn, hr, hg, norm, hs, hnorm⟩ := tagFieldB_sound hb
    refine ⟨toFields fs, keep, rfl, toField fd, ?_, hn, hr, hg, norm, hs, hnorm⟩
    rw [toFields_eq_map]
    exact List.mem_map.mpr ⟨fd, hfd, rfl⟩
  | _ => simp [tagFixedB] at h

mutual
/-- The total check implies the side condition of the theorems. -/
theorem wfb_sound : ∀ d : Desc, wfb d = true → WF d.toSchema
  | .any, _ => WF.any
  | .leaf l, _ => leaf_wf l
  | .arr e, h => WF.arr (wfb_sound e (by simpa only [wfb] using h))
  | .map _ v, h => WF.map (wfb_sound v (by simpa only [wfb] using h))
  | .nullOr d, h => WF.nullOr (wfb_sound d (by simpa only [wfb] using h))
  | .obj fs keep, h => by
    simp only [wfb, Bool.and_eq_true] at h
    have hall := wfbFields_sound fs keep h.1
    exact WF.obj (fun f hf => (hall f hf).1) (fun f hf => (hall f hf).2.1) (distinctB_sound _ h.2)
      (fun hk f hf => (hall f hf).2.2 hk)
  | .tagged tag cs, h => by
    simp only [wfb] at h
    have hall := wfbCases_sound tag cs h
    exact WF.tagged (fun c hc => (hall c hc).1) (fun c hc => (hall c hc).2)
theorem wfbFields_sound : ∀ (fs : List FieldD) (keep : Bool), wfbFields fs keep = true →
    ∀ f, f ∈ toFields fs → WF f.schema ∧ f.Ok ∧ (keep = true → f.ghost = false)
  | [], _, _, f, hf => by simp only [toFields, List.not_mem_nil] at hf
  | fd :: t, keep, h, f, hf => by
    simp only [wfbFields, Bool.and_eq_true] at h
    simp only [toFields, List.mem_cons] at hf
    rcases hf with rfl | hf
    · exact wfbField_sound fd keep h.1
    · exact wfbFields_sound t keep h.2 f hf
theorem wfbField_sound : ∀ (fd : FieldD) (keep : Bool), wfbField fd keep = true →
    WF (toField fd).schema ∧ (toField fd).Ok ∧ (keep = true → (toField fd).ghost = false)
  | .mk name al d req dflt na len skips ghost, keep, h => by
    simp only [wfbField, Bool.and_eq_true, Bool.or_eq_true, Bool.not_eq_true', List.isEmpty_iff] at h
    obtain ⟨⟨⟨h1, h2⟩, h3⟩, h4⟩ := h
    refine ⟨wfb_sound d h1, ⟨?_, dfltOk_sound h3⟩, ?_⟩
    · intro hreq v
      simp only [toField, Field.req, Field.dflt, Field.skip] at hreq ⊢
      rcases h2 with h2 | h2
      · rcases hreq with hreq | hreq
        · rw [hreq] at h2; simp at h2
        · rw [hreq] at h2; simp at h2
      · rw [h2]; rfl
    · intro hk
      simp only [toField, Field.ghost]
      subst hk
      simpa using h4
theorem wfbCases_sound : ∀ (tag : Str) (cs : List CaseD), wfbCases tag cs = true →
    ∀ c, c ∈ toCases cs → WF c.schema ∧ TagFixed tag c.label c.schema
  | _, [], _, c, hc => by simp only [toCases, List.not_mem_nil] at hc
  | tag, .mk label d :: t, h, c, hc => by
    simp only [wfbCases, Bool.and_eq_true] at h
    simp only [toCases, List.mem_cons] at hc
    rcases hc with rfl | hc
    · exact ⟨wfb_sound d h.1.1, tagFixedB_sound h.1.2⟩
    · exact wfbCases_sound tag t h.2 c hc
end

end Ruma.ContentSchema
