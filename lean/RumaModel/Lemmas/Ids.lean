/-
  C10 helper lemmas, part 1: `find`, char boundaries and slices, UTF-8 well-formedness, and the
  "some cut exists" combinators of the spec.
-/
import RumaModel.Model.Ids
import RumaModel.Spec.IdGrammar
namespace Ruma.Ids
open Ruma

/-! ### `find` -/

theorem find_eq_none {c : Nat} {s : Str} : find c s = none ↔ c ∉ s := by
  induction s with
  | nil => simp [find]
  | cons b t ih =>
    by_cases h : b = c
    · simp [find, h]
    · simp [find, h, ih, Ne.symm h]

/-- `find` returns the length of the longest `c`-free prefix, which is followed by `c`. -/
theorem find_eq_some {c : Nat} {s : Str} {i : Nat} (h : find c s = some i) :
    ∃ pre post, s = pre ++ c :: post ∧ c ∉ pre ∧ i = pre.length := by
  induction s generalizing i with
  | nil => simp [find] at h
  | cons b t ih =>
    by_cases hb : b = c
    · simp [find, hb] at h
      exact ⟨[], t, by simp [hb], by simp, by simp [h]⟩
    · simp only [find, hb, if_false, Option.map_eq_some_iff] at h
      obtain ⟨j, hj, rfl⟩ := h
      obtain ⟨pre, post, rfl, hn, rfl⟩ := ih hj
      exact ⟨b :: pre, post, by simp, by simp [hn, Ne.symm hb], by simp⟩

theorem find_append {c : Nat} {pre post : Str} (h : c ∉ pre) :
    find c (pre ++ c :: post) = some pre.length := by
  induction pre with
  | nil => simp [find]
  | cons b t ih =>
    have hb : b ≠ c := fun e => h (by simp [e])
    have ht : c ∉ t := fun e => h (by simp [e])
    simp [find, hb, ih ht]

theorem has_eq_true {c : Nat} {s : Str} : has c s = true ↔ c ∈ s := by
  simp [has, List.any_eq_true]

theorem has_eq_false {c : Nat} {s : Str} : has c s = false ↔ c ∉ s := by
  rw [← has_eq_true]; cases has c s <;> simp

/-! ### Char boundaries -/

/-- What the slicing code relies on: an ASCII byte is never followed by a continuation byte.
Holds for every well-formed UTF-8 string (`sep_of_utf8Valid`) and is inherited by substrings. -/
def Sep (s : Str) : Prop :=
  ∀ i b c, s[i]? = some b → b < 128 → s[i + 1]? = some c → isCont c = false

theorem Sep.drop {s : Str} (h : Sep s) (n : Nat) : Sep (s.drop n) := by
  intro i b c hb hlt hc
  rw [List.getElem?_drop] at hb hc
  exact h (n + i) b c hb hlt (by rw [← hc]; congr 1)

theorem Sep.take {s : Str} (h : Sep s) (n : Nat) : Sep (s.take n) := by
  intro i b c hb hlt hc
  rw [List.getElem?_take] at hb hc
  by_cases h1 : i < n
  · by_cases h2 : i + 1 < n
    · simp only [h1, h2, if_true] at hb hc
      exact h i b c hb hlt hc
    · simp [h2] at hc
  · simp [h1] at hb

theorem Sep.tail {b : Nat} {s : Str} (h : Sep (b :: s)) : Sep s := by
  have := h.drop 1
  simpa using this

theorem Sep.of_append_right {a b : Str} (h : Sep (a ++ b)) : Sep b := by
  have := h.drop a.length
  simpa using this

theorem Sep.of_append_left {a b : Str} (h : Sep (a ++ b)) : Sep a := by
  have := h.take a.length
  simpa using this

theorem isCont_false_of_lt {b : Nat} (h : b < 128) : isCont b = false := by
  simp [isCont]; omega

theorem isBoundary_zero (s : Str) : isBoundary s 0 = true := by simp [isBoundary]

theorem isBoundary_length (s : Str) : isBoundary s s.length = true := by
  simp [isBoundary]

/-- The position of an ASCII byte is a boundary. -/
theorem isBoundary_at (a : Str) (c : Nat) (b : Str) (hc : c < 128) :
    isBoundary (a ++ c :: b) a.length = true := by
  unfold isBoundary
  split
  · rfl
  · simp [isCont_false_of_lt hc]

/-- The position after an ASCII byte is a boundary (needs `Sep`). -/
theorem isBoundary_after {a : Str} {c : Nat} {b : Str} (hs : Sep (a ++ c :: b)) (hc : c < 128) :
    isBoundary (a ++ c :: b) (a.length + 1) = true := by
  unfold isBoundary
  simp only [Nat.add_eq_zero_iff, Nat.succ_ne_self, and_false, if_false]
  cases b with
  | nil => simp
  | cons d t =>
    have h1 : (a ++ c :: d :: t)[a.length]? = some c := by simp
    have h2 : (a ++ c :: d :: t)[a.length + 1]? = some d := by
      rw [List.getElem?_append_right (by omega)]; simp
    have := hs a.length c d h1 hc h2
    simp [this]

theorem sliceTo_at {a : Str} {c : Nat} {b : Str} (hc : c < 128) :
    sliceTo (a ++ c :: b) a.length = .ok a := by
  simp [sliceTo, isBoundary_at a c b hc]

theorem sliceFrom_after {a : Str} {c : Nat} {b : Str} (hs : Sep (a ++ c :: b)) (hc : c < 128) :
    sliceFrom (a ++ c :: b) (a.length + 1) = .ok b := by
  simp [sliceFrom, isBoundary_after hs hc]

theorem sliceTo_after {a : Str} {c : Nat} {b : Str} (hs : Sep (a ++ c :: b)) (hc : c < 128) :
    sliceTo (a ++ c :: b) (a.length + 1) = .ok (a ++ [c]) := by
  have : List.take (a.length + 1) (a ++ c :: b) = a ++ [c] := by
    rw [show a ++ c :: b = (a ++ [c]) ++ b by simp]
    exact List.take_left' (by simp)
  simp [sliceTo, isBoundary_after hs hc, this]

theorem sliceTo_length (s : Str) : sliceTo s s.length = .ok s := by
  simp [sliceTo, isBoundary_length]

/-- `&s[1..k]` where `s = g :: a ++ c :: b`, `g` and `c` ASCII, `k` the position of `c`. -/
theorem slice_one_at {g : Nat} {a : Str} {c : Nat} {b : Str} (hs : Sep (g :: (a ++ c :: b)))
    (hg : g < 128) (hc : c < 128) :
    slice (g :: (a ++ c :: b)) 1 (a.length + 1) = .ok a := by
  have h1 : isBoundary (g :: (a ++ c :: b)) 1 = true := by
    have := isBoundary_after (a := []) (c := g) (b := a ++ c :: b) (by simpa using hs) hg
    simpa using this
  have h2 : isBoundary (g :: (a ++ c :: b)) (a.length + 1) = true := by
    have := isBoundary_at (g :: a) c b hc
    simpa using this
  have h3 : List.take a.length (a ++ c :: b) = a := List.take_left' rfl
  simp [slice, h1, h2, h3]

/-! ### Well-formed UTF-8 has `Sep` -/

theorem not_isCont_head_of_utf8Valid {b : Nat} {t : Str} (h : utf8Valid (b :: t) = true) :
    isCont b = false := by
  unfold utf8Valid at h
  by_cases h1 : b < 128
  · exact isCont_false_of_lt h1
  · simp only [h1, if_false] at h
    simp [isCont]
    intro _
    by_cases h2 : 194 ≤ b ∧ b ≤ 223
    · omega
    · simp only [h2, if_false] at h
      by_cases h3 : 224 ≤ b ∧ b ≤ 239
      · omega
      · simp only [h3, if_false] at h
        by_cases h4 : 240 ≤ b ∧ b ≤ 244
        · omega
        · simp [h4] at h

theorem sep_of_utf8Valid : ∀ (s : Str), utf8Valid s = true → Sep s
  | [], _ => by intro i b c hb; simp at hb
  | b :: t, h => by
    intro i x c hx hlt hc
    unfold utf8Valid at h
    by_cases h1 : b < 128
    · simp only [h1, if_true] at h
      cases i with
      | zero =>
        cases t with
        | nil => simp at hc
        | cons d t' =>
          simp at hc; subst hc
          exact not_isCont_head_of_utf8Valid h
      | succ j => exact sep_of_utf8Valid t h j x c (by simpa using hx) hlt (by simpa using hc)
    · simp only [h1, if_false] at h
      by_cases h2 : 194 ≤ b ∧ b ≤ 223
      · simp only [h2, and_self, if_true] at h
        match t, h with
        | c1 :: t1, h =>
          simp only [Bool.and_eq_true] at h
          match i with
          | 0 => simp at hx; omega
          | 1 => simp at hx; subst hx; simp [isCont] at h; omega
          | j + 2 =>
            exact sep_of_utf8Valid t1 h.2 j x c (by simpa using hx) hlt (by simpa using hc)
      · simp only [h2, if_false] at h
        by_cases h3 : 224 ≤ b ∧ b ≤ 239
        · simp only [h3, and_self, if_true] at h
          match t, h with
          | c1 :: c2 :: t2, h =>
            simp only [Bool.and_eq_true] at h
            match i with
            | 0 => simp at hx; omega
            | 1 => simp at hx; subst hx; simp [isCont] at h; omega
            | 2 => simp at hx; subst hx; simp [isCont] at h; omega
            | j + 3 =>
              exact sep_of_utf8Valid t2 h.2 j x c (by simpa using hx) hlt (by simpa using hc)
        · simp only [h3, if_false] at h
          by_cases h4 : 240 ≤ b ∧ b ≤ 244
          · simp only [h4, and_self, if_true] at h
            match t, h with
            | c1 :: c2 :: c3 :: t3, h =>
              simp only [Bool.and_eq_true] at h
              match i with
              | 0 => simp at hx; omega
              | 1 => simp at hx; subst hx; simp [isCont] at h; omega
              | 2 => simp at hx; subst hx; simp [isCont] at h; omega
              | 3 => simp at hx; subst hx; simp [isCont] at h; omega
              | j + 4 =>
                exact sep_of_utf8Valid t3 h.2 j x c (by simpa using hx) hlt (by simpa using hc)
          · simp [h4] at h

/-! ### The spec's "some cut exists" -/

open Spec.IdGrammar in
theorem mem_splits {s a b : Str} : (a, b) ∈ splits s ↔ a ++ b = s := by
  simp only [splits, List.mem_map, List.mem_range, Prod.mk.injEq]
  constructor
  · rintro ⟨i, _, rfl, rfl⟩
    exact List.take_append_drop i s
  · rintro rfl
    exact ⟨a.length, by simp; omega, by simp, by simp⟩

open Spec.IdGrammar in
/-- `cutAt sep p q s` holds iff `s = front ++ sep :: back` with `p front` and `q back`. -/
theorem cutAt_iff {sep : Nat} {p q : Str → Bool} {s : Str} :
    cutAt sep p q s = true ↔ ∃ a b, s = a ++ sep :: b ∧ p a = true ∧ q b = true := by
  simp only [cutAt, List.any_eq_true]
  constructor
  · rintro ⟨⟨a, b⟩, hm, h⟩
    rw [mem_splits] at hm
    cases b with
    | nil => simp at h
    | cons c back =>
      simp only [Bool.and_eq_true, beq_iff_eq] at h
      obtain ⟨⟨rfl, hp⟩, hq⟩ := h
      exact ⟨a, back, hm.symm, hp, hq⟩
  · rintro ⟨a, b, rfl, hp, hq⟩
    exact ⟨(a, sep :: b), mem_splits.2 rfl, by simp [hp, hq]⟩

end Ruma.Ids
