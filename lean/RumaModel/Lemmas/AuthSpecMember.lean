/-
  Model = spec, part 2: rule 1 (`m.room.create`), rule 4a (`m.room.aliases`) and rule 4
  (`m.room.member`: join, invite, third-party invite, leave/kick, ban, knock) — for every room
  version `v`, the spec's rule allows exactly when the model's check (with the flags
  `Spec.Auth.rulesOf v`) returns `Ok`.
-/
import RumaModel.Lemmas.AuthSpec
set_option linter.unusedSimpArgs false
namespace Ruma.AuthSpec
open Ruma Ruma.Auth Ruma.Ident
open Ruma.Spec.Auth (rulesOf Verdict orReject)

/-- A model check allows. -/
abbrev Allows (r : Res Unit) : Prop := r = .ok ()

theorem create_eq_spec (v : Nat) (ev : Event) :
    Spec.Auth.rule1 v ev = .allow ↔ Allows (checkRoomCreate (rulesOf v) ev) := by
  unfold Spec.Auth.rule1 checkRoomCreate Allows
  simp only [hasCreatorProp_eq, rulesOf]
  cases hr : roomServer ev.roomId <;> simp [bind, Except.bind, require] <;> grind

theorem aliases_eq_spec (ev : Event) :
    Spec.Auth.rule4a ev = .allow ↔
      Allows (require (match ev.stateKey with
        | some k => some k == userServer ev.sender
        | none => false)) := by
  unfold Spec.Auth.rule4a Allows
  cases hs : ev.stateKey <;> simp [require] <;> grind

/-- Side conditions: the two sides test the same thing. -/
macro "side" : tactic =>
  `(tactic| first
    | (simp [jrPublic, jrInvite, jrKnock, jrRestricted, jrKnockRestricted, mBan, mInvite, mJoin, mLeave, mKnock,
        rulesOf]; done)
    | (simp [jrPublic, jrInvite, jrKnock, jrRestricted, jrKnockRestricted, mBan, mInvite, mJoin, mLeave, mKnock,
        rulesOf]; grind))

/-! ## Peeling one step of a rule on both sides -/

theorem bindA {α} {a : Res α} {F : α → Option Verdict} {G : α → Res Unit}
    (h : ∀ x, a = .ok x → (orReject (F x) = .allow ↔ G x = .ok ())) :
    orReject ((opt a).bind F) = .allow ↔ (a >>= G) = .ok () := by
  cases a with
  | error e => simp [orReject, bind, Except.bind]
  | ok x => simpa [bind, Except.bind] using h x rfl

theorem mapA {α} {a : Res α} {g : α → Verdict} {G : α → Res Unit}
    (h : ∀ x, a = .ok x → (g x = .allow ↔ G x = .ok ())) :
    orReject ((opt a).map g) = .allow ↔ (a >>= G) = .ok () := by
  cases a with
  | error e => simp [orReject, bind, Except.bind]
  | ok x => simpa [bind, Except.bind, orReject] using h x rfl

/-- spec: `if p then reject else X`; model: `require c; Y`. -/
theorem requireA {p : Prop} [Decidable p] {c : Bool} {X : Option Verdict} {Y : Res Unit}
    (hc : c = true ↔ ¬ p) (h : ¬ p → (orReject X = .allow ↔ Y = .ok ())) :
    orReject (if p then some .reject else X) = .allow ↔ (require c >>= fun _ => Y) = .ok () := by
  by_cases hp : p
  · have : c = false := by cases c <;> simp_all
    simp [hp, this, orReject, require, bind, Except.bind]
  · have : c = true := hc.mpr hp
    simpa [hp, this, require, bind, Except.bind] using h hp

/-- both sides branch on the same condition. -/
theorem iteA {p : Prop} [Decidable p] {c : Bool} {X1 X2 : Option Verdict} {Y1 Y2 : Res Unit}
    (hc : c = true ↔ p) (h1 : p → (orReject X1 = .allow ↔ Y1 = .ok ()))
    (h2 : ¬ p → (orReject X2 = .allow ↔ Y2 = .ok ())) :
    orReject (if p then X1 else X2) = .allow ↔ (if c then Y1 else Y2) = .ok () := by
  by_cases hp : p
  · have : c = true := hc.mpr hp
    simpa [hp, this] using h1 hp
  · have : c = false := by cases c <;> simp_all
    simpa [hp, this] using h2 hp

/-- the last step: spec says `allow` iff `p`; model requires `c`. -/
theorem lastA {p : Prop} [Decidable p] {c : Bool} (hc : c = true ↔ p) :
    (if p then Verdict.allow else Verdict.reject) = .allow ↔ require c = .ok () := by
  by_cases hp : p
  · simp [hp, hc.mpr hp, require]
  · have : c = false := by cases c <;> simp_all
    simp [hp, this, require]

theorem lastA' {p : Prop} [Decidable p] {c : Bool} (hc : c = true ↔ p) :
    orReject (some (if p then Verdict.allow else Verdict.reject)) = .allow ↔ require c = .ok () := by
  simpa [orReject] using lastA hc

theorem allowA {Y : Res Unit} (h : Y = .ok ()) : orReject (some Verdict.allow) = .allow ↔ Y = .ok () := by
  simp [orReject, h]

theorem rejectA {Y : Res Unit} (h : Y ≠ .ok ()) : orReject (some Verdict.reject) = .allow ↔ Y = .ok () := by
  simp [orReject, h]

/-- the last step, negated: spec says `reject` iff `p`. -/
theorem lastN {p : Prop} [Decidable p] {c : Bool} (hc : c = true ↔ ¬ p) :
    (if p then Verdict.reject else Verdict.allow) = .allow ↔ require c = .ok () := by
  by_cases hp : p
  · have : c = false := by cases c <;> simp_all
    simp [hp, this, require]
  · simp [hp, hc.mpr hp, require]

theorem noneA {Y : Res Unit} (h : Y ≠ .ok ()) : orReject (none : Option Verdict) = .allow ↔ Y = .ok () := by
  simp [orReject, h]

theorem member_ban_eq_spec (v : Nat) (ev : Event) (target : Str) (create : Event) (f : Fetch)
    (hpl : PLOk (fetchPowerLevels f)) :
    orReject (Spec.Auth.rule4_6 v ev target create f) = .allow ↔
      Allows (checkMemberBan (rulesOf v) ev target create f) := by
  unfold Spec.Auth.rule4_6 checkMemberBan Allows
  have hpl' : PLOk (f (bs "m.room.power_levels") []) := hpl
  simp only [membershipOf_eq, creatorOf_eq, userLevel_eq _ _ _ _ hpl', namedLevel_ban, fetchPowerLevels, tPowerLevels]
  refine bindA fun sm _ => ?_
  refine requireA (by side) fun _ => ?_
  refine bindA fun creator _ => ?_
  refine bindA fun sl _ => ?_
  refine bindA fun bl _ => ?_
  refine mapA fun tl _ => ?_
  exact lastA (by side)


theorem member_knock_eq_spec (v : Nat) (ev : Event) (target : Str) (f : Fetch) :
    orReject (Spec.Auth.rule4_7 v ev target f) = .allow ↔ Allows (checkMemberKnock (rulesOf v) ev target f) := by
  unfold Spec.Auth.rule4_7 checkMemberKnock Allows
  simp only [joinRuleOf_eq, membershipOf_eq]
  refine bindA fun jr _ => ?_
  refine requireA (by side) fun _ => ?_
  refine requireA (by side) fun _ => ?_
  refine mapA fun sm _ => ?_
  exact lastN (by side)

theorem member_leave_eq_spec (v : Nat) (ev : Event) (target : Str) (create : Event) (f : Fetch)
    (hpl : PLOk (fetchPowerLevels f)) :
    orReject (Spec.Auth.rule4_5 v ev target create f) = .allow ↔
      Allows (checkMemberLeave (rulesOf v) ev target create f) := by
  unfold Spec.Auth.rule4_5 checkMemberLeave Allows
  have hpl' : PLOk (f (bs "m.room.power_levels") []) := hpl
  simp only [membershipOf_eq, creatorOf_eq, userLevel_eq _ _ _ _ hpl', namedLevel_ban, namedLevel_kick,
    fetchPowerLevels, tPowerLevels]
  refine bindA fun sm _ => ?_
  refine iteA (by side) (fun _ => ?_) (fun _ => ?_)
  · exact lastA' (by side)
  · refine requireA (by side) fun _ => ?_
    refine bindA fun creator _ => ?_
    refine bindA fun tm _ => ?_
    refine bindA fun sl _ => ?_
    refine bindA fun bl _ => ?_
    refine requireA (by side) fun _ => ?_
    refine bindA fun kl _ => ?_
    refine mapA fun tl _ => ?_
    exact lastA (by side)

/-- 4.4.2–4.4.5 (an invite without `third_party_invite`). -/
theorem member_invite_plain_eq_spec (v : Nat) (ev : Event) (target : Str) (create : Event) (f : Fetch)
    (hpl : PLOk (fetchPowerLevels f)) :
    orReject (Spec.Auth.rule4_4.rule4_4_rest v ev target create f) = .allow ↔
      (userMembership f ev.sender >>= fun sm =>
        require (sm == mJoin) >>= fun _ =>
        userMembership f target >>= fun tm =>
        require (!(tm == mJoin || tm == mBan)) >>= fun _ =>
        createCreator (rulesOf v) create >>= fun creator =>
        plUserLevel (rulesOf v) (fetchPowerLevels f) ev.sender creator >>= fun sl =>
        plIntOrDefault (rulesOf v) (fetchPowerLevels f) .invite >>= fun inviteLevel =>
        require (decide (sl ≥ inviteLevel))) = .ok () := by
  unfold Spec.Auth.rule4_4.rule4_4_rest
  have hpl' : PLOk (f (bs "m.room.power_levels") []) := hpl
  simp only [membershipOf_eq, creatorOf_eq, userLevel_eq _ _ _ _ hpl', namedLevel_invite,
    fetchPowerLevels, tPowerLevels]
  refine bindA fun sm _ => ?_
  refine requireA (by side) fun _ => ?_
  refine bindA fun tm _ => ?_
  refine requireA (by side) fun _ => ?_
  refine bindA fun creator _ => ?_
  refine bindA fun sl _ => ?_
  refine mapA fun il _ => ?_
  exact lastA (by side)

/-- "a user with sufficient permission to invite other users". -/
theorem canInvite_eq_spec (v : Nat) (f : Fetch) (creator u : Str) (hpl : PLOk (fetchPowerLevels f)) :
    orReject ((Spec.Auth.canInvite v f creator u).map fun ok => if ok then Verdict.allow else .reject) = .allow ↔
      (userMembership f u >>= fun um =>
        require (um == mJoin) >>= fun _ =>
        plUserLevel (rulesOf v) (fetchPowerLevels f) u creator >>= fun ul =>
        plIntOrDefault (rulesOf v) (fetchPowerLevels f) .invite >>= fun inviteLevel =>
        require (decide (ul ≥ inviteLevel))) = .ok () := by
  unfold Spec.Auth.canInvite
  have hpl' : PLOk (f (bs "m.room.power_levels") []) := hpl
  simp only [membershipOf_eq, userLevel_eq _ _ _ _ hpl', namedLevel_invite, fetchPowerLevels, tPowerLevels]
  generalize f (bs "m.room.power_levels") [] = pl
  cases userMembership f u with
  | error e => simp [orReject, bind, Except.bind]
  | ok um =>
    by_cases hj : um = mJoin
    · subst hj
      cases plUserLevel (rulesOf v) pl u creator with
      | error e => simp [orReject, bind, Except.bind, require, mJoin]
      | ok ul =>
        cases plIntOrDefault (rulesOf v) pl .invite with
        | error e => simp [orReject, bind, Except.bind, require, mJoin]
        | ok il => simp [orReject, bind, Except.bind, require, mJoin]
    · have : ¬ (um = bs "join") := hj
      simp [orReject, bind, Except.bind, require, hj, this]

theorem member_join_eq_spec (v : Nat) (ev : Event) (target : Str) (create : Event) (f : Fetch)
    (hpl : PLOk (fetchPowerLevels f)) :
    orReject (Spec.Auth.rule4_3 v ev target create f) = .allow ↔
      Allows (checkMemberJoin (rulesOf v) ev target create f) := by
  unfold Spec.Auth.rule4_3 checkMemberJoin Allows
  simp only [membershipOf_eq, creatorOf_eq, joinRuleOf_eq, optUserIdProp_eq]
  refine bindA fun creator _ => ?_
  refine iteA (by side) (fun _ => allowA rfl) (fun _ => ?_)
  refine requireA (by side) fun hst => ?_
  have hst' : ev.sender = target := by simpa using hst
  rw [hst']
  refine bindA fun m _ => ?_
  refine requireA (by side) fun _ => ?_
  refine bindA fun jr _ => ?_
  refine iteA (by side) (fun _ => allowA rfl) (fun _ => ?_)
  refine iteA (by side) (fun _ => ?_) (fun _ => ?_)
  · refine iteA (by side) (fun _ => allowA rfl) (fun _ => ?_)
    refine bindA fun via _ => ?_
    cases via with
    | none => exact rejectA (by simp)
    | some u => exact canInvite_eq_spec v f creator u hpl
  · by_cases hp : jr = bs "public"
    · simp [hp, orReject, require, jrPublic]
    · simp [hp, orReject, require, jrPublic]

/-! ## third-party invites -/

/-- Reading `content.third_party_invite` when it is present and not `null`. -/
theorem signedOf_eq (c : Obj) (tpi : JVal) (hg : Obj.get c (bs "third_party_invite") = some tpi)
    (hn : tpi ≠ .null) :
    opt (contentThirdPartyInvite c) = (Spec.Auth.signedOf tpi).map some := by
  unfold contentThirdPartyInvite Spec.Auth.signedOf
  rw [hg]
  cases tpi with
  | null => exact absurd rfl hn
  | obj o =>
    simp only
    cases hs : Obj.get o (bs "signed") with
    | none => simp
    | some x =>
      cases x <;> simp [toCanonObj, Except.map]
      rename_i kvs
      cases Canonical.normalizeMap kvs <;> simp
  | arr xs =>
    match xs with
    | [] => simp
    | [x] =>
      cases x <;> simp [toCanonObj, Except.map]
      rename_i kvs
      cases Canonical.normalizeMap kvs <;> simp
    | _ :: _ :: _ => simp
  | bool b => simp
  | int i => simp
  | float => simp
  | str s => simp

theorem publicKeysMany_eq (xs : List JVal) :
    Spec.Auth.publicKeysOf.many xs = opt (publicKeyEntries xs) := by
  induction xs with
  | nil => rfl
  | cons x t ih =>
    cases x with
    | obj o =>
      simp only [Spec.Auth.publicKeysOf.many, publicKeyEntries, publicKeyEntry, strProp_eq, ih]
      cases strField o (bs "public_key") with
      | error e => simp [bind, Except.bind]
      | ok k => cases publicKeyEntries t <;> simp [bind, Except.bind]
    | arr ys =>
      match ys with
      | [] => simp [Spec.Auth.publicKeysOf.many, publicKeyEntries, publicKeyEntry, bind, Except.bind]
      | [.str k] =>
        simp only [Spec.Auth.publicKeysOf.many, publicKeyEntries, publicKeyEntry, ih]
        cases publicKeyEntries t <;> simp [bind, Except.bind]
      | [.null] | [.bool _] | [.int _] | [.float] | [.arr _] | [.obj _] =>
        simp [Spec.Auth.publicKeysOf.many, publicKeyEntries, publicKeyEntry, bind, Except.bind]
      | _ :: _ :: _ => simp [Spec.Auth.publicKeysOf.many, publicKeyEntries, publicKeyEntry, bind, Except.bind]
    | null | bool _ | int _ | float | str _ =>
      simp [Spec.Auth.publicKeysOf.many, publicKeyEntries, publicKeyEntry, bind, Except.bind]

theorem publicKeysOf_eq (c : Obj) : Spec.Auth.publicKeysOf c = opt (tpiPublicKeys c) := by
  unfold Spec.Auth.publicKeysOf tpiPublicKeys
  cases h1 : Obj.get c (bs "public_key") with
  | none =>
    cases h2 : Obj.get c (bs "public_keys") with
    | none => simp [bind, Except.bind]
    | some j =>
      cases j <;> simp [bind, Except.bind, publicKeysMany_eq]
      rename_i xs
      cases publicKeyEntries xs <;> simp
  | some p =>
    cases p <;> simp [bind, Except.bind]
    all_goals
      cases h2 : Obj.get c (bs "public_keys") with
      | none => simp
      | some j =>
        cases j <;> simp [publicKeysMany_eq]
        rename_i xs
        cases publicKeyEntries xs <;> simp

/-- Every entity of a `signatures` object maps to an object (the shape the signing JSON format
prescribes). Outside this the implementation's answer depends on the order of the entities. -/
def SigsOk (sigs : Obj) : Prop := ∀ p ∈ sigs, ∃ kvs, p.2 = JVal.obj kvs

theorem entity_any (verified : List (Str × Str × Str)) (pks : List Str) (ent : List (Str × JVal)) :
    (Spec.Auth.entitySignatures ent).any (fun p => pks.any fun pk => verified.contains (p.1, p.2, pk)) =
      entityVerifies verified pks ent := by
  unfold Spec.Auth.entitySignatures entityVerifies
  induction ent with
  | nil => rfl
  | cons kv t ih =>
    obtain ⟨k, j⟩ := kv
    cases j <;> simp only [List.filterMap_cons, List.any_cons, ih, Bool.false_or]

theorem tpiSignatureOk_eq (verified : List (Str × Str × Str)) (pks : List Str) :
    ∀ (sigs : Obj), SigsOk sigs →
      tpiSignatureOk verified pks sigs =
        .ok ((Spec.Auth.signaturePairs sigs).any fun p => pks.any fun pk => verified.contains (p.1, p.2, pk)) := by
  intro sigs
  induction sigs with
  | nil => intro _; rfl
  | cons p t ih =>
    intro h
    obtain ⟨k, j⟩ := p
    obtain ⟨ent, hj⟩ := h (k, j) (by simp)
    simp only at hj
    subst hj
    have ht := ih (fun q hq => h q (List.mem_cons_of_mem _ hq))
    simp only [tpiSignatureOk, Spec.Auth.signaturePairs, List.flatMap_cons, List.any_append, entity_any]
    by_cases hany : entityVerifies verified pks ent = true
    · simp [hany]
    · simp only [hany, if_false, Bool.false_or, Bool.false_eq_true]
      rw [ht]
      rfl

/-- The event's `third_party_invite.signed.signatures`, if it is an object, has the prescribed shape. -/
def TpiSigsOk (ev : Event) : Prop :=
  ∀ signed sigs, contentThirdPartyInvite ev.content = .ok (some signed) →
    Obj.get signed (bs "signatures") = some (.obj sigs) → SigsOk sigs

theorem member_third_party_invite_eq_spec (ev : Event) (tpi : JVal) (target : Str) (f : Fetch) (N : Res Unit)
    (hg : Obj.get ev.content (bs "third_party_invite") = some tpi) (hn : tpi ≠ .null) (hs : TpiSigsOk ev) :
    orReject (Spec.Auth.rule4_4_1 ev tpi target f) = .allow ↔
      (contentThirdPartyInvite ev.content >>= fun t =>
        match t with
        | some signed => checkThirdPartyInvite ev signed target f
        | none => N) = .ok () := by
  have hso := signedOf_eq ev.content tpi hg hn
  unfold Spec.Auth.rule4_4_1
  cases hc : contentThirdPartyInvite ev.content with
  | error e =>
    rw [hc] at hso
    have : Spec.Auth.signedOf tpi = none := by
      cases hh : Spec.Auth.signedOf tpi <;> simp [hh] at hso; rfl
    simp [this, orReject, bind, Except.bind]
  | ok t =>
    rw [hc] at hso
    cases t with
    | none =>
      cases hh : Spec.Auth.signedOf tpi <;> simp [hh] at hso
    | some signed =>
      have hsig : Spec.Auth.signedOf tpi = some signed := by
        cases hh : Spec.Auth.signedOf tpi <;> simp [hh] at hso
        simp [hso]
      simp only [hsig, Option.bind_some, bind, Except.bind]
      show _ ↔ checkThirdPartyInvite ev signed target f = .ok ()
      unfold checkThirdPartyInvite
      simp only [membershipOf_eq, strProp_eq, publicKeysOf_eq]
      refine bindA fun tm _ => ?_
      refine requireA (by side) fun _ => ?_
      refine bindA fun token _ => ?_
      refine bindA fun mxid _ => ?_
      refine requireA (by simp; grind) fun _ => ?_
      simp only [fetchThirdPartyInvite, tThirdPartyInvite]
      cases hte : f (bs "m.room.third_party_invite") token with
      | none => exact rejectA (by simp)
      | some te =>
        simp only
        refine requireA (by side) fun _ => ?_
        refine bindA fun pks _ => ?_
        unfold tpiSignatures
        cases hsg : Obj.get signed (bs "signatures") with
        | none => simp [orReject, bind, Except.bind]
        | some j =>
          cases j <;> try (simp [orReject, bind, Except.bind])
          rename_i sigs
          rw [tpiSignatureOk_eq _ _ sigs (hs signed sigs hc hsg)]
          simp [require]
          grind

theorem contentThirdPartyInvite_absent (c : Obj)
    (h : Obj.get c (bs "third_party_invite") = none ∨ Obj.get c (bs "third_party_invite") = some .null) :
    contentThirdPartyInvite c = .ok none := by
  unfold contentThirdPartyInvite
  rcases h with h | h <;> rw [h]

theorem member_invite_eq_spec (v : Nat) (ev : Event) (target : Str) (create : Event) (f : Fetch)
    (hpl : PLOk (fetchPowerLevels f)) (hs : TpiSigsOk ev) :
    orReject (Spec.Auth.rule4_4 v ev target create f) = .allow ↔
      Allows (checkMemberInvite (rulesOf v) ev target create f) := by
  unfold Spec.Auth.rule4_4 checkMemberInvite Allows
  cases hg : Obj.get ev.content (bs "third_party_invite") with
  | none =>
    simp only [contentThirdPartyInvite_absent ev.content (Or.inl hg), bind, Except.bind]
    exact member_invite_plain_eq_spec v ev target create f hpl
  | some tpi =>
    by_cases hn : tpi = .null
    · subst hn
      simp only [contentThirdPartyInvite_absent ev.content (Or.inr hg), bind, Except.bind]
      exact member_invite_plain_eq_spec v ev target create f hpl
    · cases tpi <;>
        first
        | exact absurd rfl hn
        | exact member_third_party_invite_eq_spec ev _ target f _ hg (by simp) hs

/-- Rule 4 as a whole. -/
theorem member_eq_spec (v : Nat) (ev : Event) (create : Event) (f : Fetch)
    (hpl : PLOk (fetchPowerLevels f)) (hs : TpiSigsOk ev) :
    Spec.Auth.rule4 v ev create f = .allow ↔ Allows (checkRoomMember (rulesOf v) ev create f) := by
  unfold Spec.Auth.rule4 checkRoomMember Allows
  cases hsk : ev.stateKey with
  | none => simp
  | some target =>
    simp only [strProp_eq]
    by_cases hv : validUserId target = true
    · simp only [hv, Bool.not_true, Bool.false_eq_true, if_false, require, if_true, bind, Except.bind]
      unfold contentMembership
      cases hm : strField ev.content (bs "membership") with
      | error e => simp
      | ok m =>
        simp only [opt_ok]
        by_cases h1 : m = bs "join"
        · have : (m == mJoin) = true := by simp [h1, mJoin]
          simp only [h1, if_true, this]
          exact member_join_eq_spec v ev target create f hpl
        · have e1 : (m == mJoin) = false := by simpa [mJoin] using h1
          by_cases h2 : m = bs "invite"
          · have : (m == mInvite) = true := by simp [h2, mInvite]
            simp only [h1, if_false, e1, Bool.false_eq_true, h2, if_true, this]
            exact member_invite_eq_spec v ev target create f hpl hs
          · have e2 : (m == mInvite) = false := by simpa [mInvite] using h2
            by_cases h3 : m = bs "leave"
            · have : (m == mLeave) = true := by simp [h3, mLeave]
              simp only [h1, h2, if_false, e1, e2, Bool.false_eq_true, h3, if_true, this]
              exact member_leave_eq_spec v ev target create f hpl
            · have e3 : (m == mLeave) = false := by simpa [mLeave] using h3
              by_cases h4 : m = bs "ban"
              · have : (m == mBan) = true := by simp [h4, mBan]
                simp only [h1, h2, h3, if_false, e1, e2, e3, Bool.false_eq_true, h4, if_true, this]
                exact member_ban_eq_spec v ev target create f hpl
              · have e4 : (m == mBan) = false := by simpa [mBan] using h4
                simp only [h1, h2, h3, h4, if_false, e1, e2, e3, e4, Bool.false_eq_true]
                by_cases h5 : Spec.Auth.hasKnock v = true ∧ m = bs "knock"
                · obtain ⟨hk, hmk⟩ := h5
                  subst hmk
                  have : (bs "knock" == mKnock && (rulesOf v).knocking) = true := by
                    simp [mKnock, rulesOf, hk]
                  simp only [hk, and_self, if_true, this]
                  exact member_knock_eq_spec v ev target f
                · have : (m == mKnock && (rulesOf v).knocking) = false := by
                    simp [mKnock, rulesOf]; grind
                  simp [h5, this]
    · simp [hv, require, bind, Except.bind]

end Ruma.AuthSpec
