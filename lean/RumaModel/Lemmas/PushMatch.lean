/-
  C12 — `Ruleset::get_match` refines the spec: conditions (`Cond_applies_eq`), rules
  (`AnyRule_applies_eq`), the iterator (`Iter.find_eq`) and the whole (`getMatch_spec`).
-/
import RumaModel.Lemmas.PushFlatten
import RumaModel.Lemmas.PushPattern
set_option linter.unusedSimpArgs false
namespace Ruma.Push
open Ruma.Spec.Push (Params)

def paramsOf (E : Ext) : Params := { lower := E.lower, isUserId := E.isUserId }

theorem selfSent_eq (ev : PJ) (ctx : Ctx) : selfSent (flatten ev) ctx = Ruma.Spec.Push.sentBySelf ev ctx := by
  unfold selfSent Ruma.Spec.Push.sentBySelf
  rw [flatten_getStr]
  have : kSender = Ruma.Spec.Push.keySender := rfl
  rw [this]
  cases Ruma.Spec.Push.lookupStr ev Ruma.Spec.Push.keySender with
  | none => rfl
  | some s => simp

theorem checkEventMatch_eq (E : Ext) (hE : ExtOk E) (ev : PJ) (key pattern : Text) (ctx : Ctx) :
    checkEventMatch E (flatten ev) key pattern ctx =
      .ok (Ruma.Spec.Push.condHolds (paramsOf E) ev ctx (.eventMatch key pattern)) := by
  unfold checkEventMatch Ruma.Spec.Push.condHolds
  have h1 : kRoomId = Ruma.Spec.Push.keyRoomId := rfl
  have h2 : kContentBody = Ruma.Spec.Push.keyContentBody := rfl
  rw [h1, h2, flatten_getStr]
  by_cases hk : key = Ruma.Spec.Push.keyRoomId
  · simp only [hk, if_true, matchesPattern_spec E hE, paramsOf]
    rfl
  · simp only [hk, if_false]
    cases Ruma.Spec.Push.lookupStr ev key with
    | none => rfl
    | some v =>
      simp only [matchesPattern_spec E hE, paramsOf]
      by_cases hb : key = Ruma.Spec.Push.keyContentBody
      · simp [hb]
      · simp [hb]

theorem lookupLevel_eq (users : List (Text × Int)) (u : Text) :
    lookupLevel users u = (users.find? (·.1 = u)).map (·.2) := by
  induction users with
  | nil => rfl
  | cons e t ih =>
    obtain ⟨k, v⟩ := e
    simp only [lookupLevel, List.find?_cons]
    by_cases h : k = u
    · simp [h]
    · simp [h, ih]

theorem senderMayNotify_eq (E : Ext) (ev : PJ) (ctx : Ctx) (key : Text) :
    senderMayNotify E (flatten ev) ctx key =
      Ruma.Spec.Push.condHolds (paramsOf E) ev ctx (.senderNotificationPermission key) := by
  unfold senderMayNotify Ruma.Spec.Push.condHolds
  have h1 : kSender = Ruma.Spec.Push.keySender := rfl
  rw [h1, flatten_getStr]
  cases ctx.powerLevels with
  | none => rfl
  | some pl =>
    cases Ruma.Spec.Push.lookupStr ev Ruma.Spec.Push.keySender with
    | none => rfl
    | some v =>
      simp only [paramsOf]
      cases hu : E.isUserId v
      · simp
      · simp only [Bool.not_true, Bool.false_eq_true, if_false, Bool.true_and]
        have hn : notificationsGet pl key = Ruma.Spec.Push.requiredLevel pl key := rfl
        have hl : userLevel pl v = Ruma.Spec.Push.levelOf pl v := by
          unfold userLevel Ruma.Spec.Push.levelOf
          rw [lookupLevel_eq]
          cases List.find? (fun x => decide (x.1 = v)) pl.users <;> rfl
        rw [hn, hl]
        cases Ruma.Spec.Push.requiredLevel pl key <;> rfl

theorem memberCount_eq (is : MemberCountIs) (x : Nat) :
    is.contains x = Ruma.Spec.Push.compare is.prefix_ x is.count := by
  obtain ⟨op, n⟩ := is
  cases op <;>
    simp only [MemberCountIs.contains, MemberCountIs.startBound, MemberCountIs.endBound,
      Ruma.Spec.Push.compare, Bool.and_true, Bool.true_and]
  all_goals (try (rw [Bool.eq_iff_iff]; simp; try omega))

/-- `PushCondition::applies` (on an event not sent by the user) never panics and decides the
spec's condition. -/
theorem Cond_applies_eq (E : Ext) (hE : ExtOk E) (ev : PJ) (ctx : Ctx)
    (hself : selfSent (flatten ev) ctx = false) (c : Cond) :
    c.applies E (flatten ev) ctx = .ok (Ruma.Spec.Push.condHolds (paramsOf E) ev ctx c) := by
  cases c with
  | eventMatch key pattern =>
    simp only [Cond.applies, hself, Bool.false_eq_true, if_false]
    exact checkEventMatch_eq E hE ev key pattern ctx
  | containsDisplayName =>
    have h2 : kContentBody = Ruma.Spec.Push.keyContentBody := rfl
    simp only [Cond.applies, hself, Bool.false_eq_true, if_false, h2, flatten_getStr,
      Ruma.Spec.Push.condHolds]
    cases Ruma.Spec.Push.lookupStr ev Ruma.Spec.Push.keyContentBody with
    | none => rfl
    | some v => simp [containsWord_spec E, paramsOf]
  | roomMemberCount is =>
    simp only [Cond.applies, hself, Bool.false_eq_true, if_false, memberCount_eq,
      Ruma.Spec.Push.condHolds]
  | senderNotificationPermission key =>
    simp only [Cond.applies, hself, Bool.false_eq_true, if_false, senderMayNotify_eq]
  | eventPropertyIs key value =>
    simp only [Cond.applies, hself, Bool.false_eq_true, if_false, flatten_get,
      Ruma.Spec.Push.condHolds]
    cases Ruma.Spec.Push.lookup ev key with
    | none => rfl
    | some v => simp [eqScalar_toF]
  | eventPropertyContains key value =>
    simp only [Cond.applies, hself, Bool.false_eq_true, if_false, flatten_get,
      Ruma.Spec.Push.condHolds]
    cases Ruma.Spec.Push.lookup ev key with
    | none => rfl
    | some v =>
      cases v with
      | arr xs =>
        simp only [Option.map_some, toF, FVal.ofJson]
        rw [contains_filterMap]
      | int i =>
        rw [Option.map_some, toF_int]
        cases Ruma.Spec.Push.canonicalInt i <;> rfl
      | _ => rfl
  | custom => simp only [Cond.applies, hself, Bool.false_eq_true, if_false, Ruma.Spec.Push.condHolds]

theorem allApply_eq (E : Ext) (hE : ExtOk E) (ev : PJ) (ctx : Ctx)
    (hself : selfSent (flatten ev) ctx = false) (conds : List Cond) :
    allApply E conds (flatten ev) ctx = .ok (conds.all (Ruma.Spec.Push.condHolds (paramsOf E) ev ctx)) := by
  induction conds with
  | nil => rfl
  | cons c rest ih =>
    simp only [allApply, Cond_applies_eq E hE ev ctx hself, List.all_cons]
    cases Ruma.Spec.Push.condHolds (paramsOf E) ev ctx c
    · rfl
    · simpa using ih

theorem CondRule_applies_eq (E : Ext) (hE : ExtOk E) (ev : PJ) (ctx : Ctx)
    (hself : selfSent (flatten ev) ctx = false) (r : CondRule) :
    r.applies E (flatten ev) ctx =
      .ok (r.enabled &&
        !((decide (r.ruleId = Ruma.Spec.Push.ruleRoomNotif) ||
            decide (r.ruleId = Ruma.Spec.Push.ruleContainsDisplayName)) && Ruma.Spec.Push.hasMentions ev) &&
        r.conditions.all (Ruma.Spec.Push.condHolds (paramsOf E) ev ctx)) := by
  have i1 : idRoomNotif = Ruma.Spec.Push.ruleRoomNotif := rfl
  have i2 : idContainsDisplayName = Ruma.Spec.Push.ruleContainsDisplayName := rfl
  unfold CondRule.applies
  rw [flatten_containsMentions, allApply_eq E hE ev ctx hself, i1, i2]
  generalize ((decide (r.ruleId = Ruma.Spec.Push.ruleRoomNotif) ||
    decide (r.ruleId = Ruma.Spec.Push.ruleContainsDisplayName)) && Ruma.Spec.Push.hasMentions ev) = b
  cases r.enabled <;> cases b <;> simp

/-- `AnyPushRuleRef::applies` (on an event not sent by the user) never panics and decides whether
the rule holds in the spec's sense. -/
theorem AnyRule_applies_eq (E : Ext) (hE : ExtOk E) (ev : PJ) (ctx : Ctx)
    (hself : selfSent (flatten ev) ctx = false) (r : AnyRule) :
    r.applies E (flatten ev) ctx = .ok (Ruma.Spec.Push.ruleHolds (paramsOf E) ev ctx r) := by
  have i3 : idContainsUserName = Ruma.Spec.Push.ruleContainsUserName := rfl
  have h1 : kRoomId = Ruma.Spec.Push.keyRoomId := rfl
  have h2 : kContentBody = Ruma.Spec.Push.keyContentBody := rfl
  have h3 : kSender = Ruma.Spec.Push.keySender := rfl
  cases r with
  | override_ rule =>
    simp only [AnyRule.applies, hself, Bool.false_eq_true, if_false, CondRule_applies_eq E hE ev ctx hself]
    rfl
  | underride rule =>
    simp only [AnyRule.applies, hself, Bool.false_eq_true, if_false, CondRule_applies_eq E hE ev ctx hself]
    rfl
  | content rule =>
    simp only [AnyRule.applies, hself, Bool.false_eq_true, if_false, PatRule.appliesTo,
      flatten_containsMentions, i3, h2, checkEventMatch_eq E hE, Ruma.Spec.Push.ruleHolds,
      Ruma.Spec.Push.enabled, Ruma.Spec.Push.legacyMention, Ruma.Spec.Push.conditions,
      List.all_cons, List.all_nil, Bool.and_true]
    generalize (decide (rule.ruleId = Ruma.Spec.Push.ruleContainsUserName) && Ruma.Spec.Push.hasMentions ev) = b
    cases rule.enabled <;> cases b <;> simp
  | room rule =>
    simp only [AnyRule.applies, hself, Bool.false_eq_true, if_false, h1, checkEventMatch_eq E hE,
      Ruma.Spec.Push.ruleHolds, Ruma.Spec.Push.enabled, Ruma.Spec.Push.legacyMention,
      Ruma.Spec.Push.conditions, List.all_cons, List.all_nil, Bool.and_true]
    cases rule.enabled <;> simp
  | sender rule =>
    simp only [AnyRule.applies, hself, Bool.false_eq_true, if_false, h3, checkEventMatch_eq E hE,
      Ruma.Spec.Push.ruleHolds, Ruma.Spec.Push.enabled, Ruma.Spec.Push.legacyMention,
      Ruma.Spec.Push.conditions, List.all_cons, List.all_nil, Bool.and_true]
    cases rule.enabled <;> simp


/-- What the iterator will still yield, in order. -/
def Iter.toList (it : Iter) : List AnyRule :=
  it.override_.map .override_ ++ it.content.map .content ++ it.room.map .room ++
    it.sender.map .sender ++ it.underride.map .underride

theorem Iter.next_spec (it : Iter) :
    (it.next = none ∧ it.toList = []) ∨ (∃ r it', it.next = some (r, it') ∧ it.toList = r :: it'.toList) := by
  obtain ⟨c, o, r, s, u⟩ := it
  cases o with
  | cons x t => right; exact ⟨_, _, rfl, by simp [Iter.toList]⟩
  | nil =>
    cases c with
    | cons x t => right; exact ⟨_, _, rfl, by simp [Iter.toList]⟩
    | nil =>
      cases r with
      | cons x t => right; exact ⟨_, _, rfl, by simp [Iter.toList]⟩
      | nil =>
        cases s with
        | cons x t => right; exact ⟨_, _, rfl, by simp [Iter.toList]⟩
        | nil =>
          cases u with
          | cons x t => right; exact ⟨_, _, rfl, by simp [Iter.toList]⟩
          | nil => left; exact ⟨rfl, rfl⟩

/-- `Iterator::find` over the ruleset iterator is `List.find?` over the rules in priority order. -/
theorem Iter.find_eq (pred : AnyRule → Res) (f : AnyRule → Bool) (h : ∀ r, pred r = .ok (f r))
    (it : Iter) : it.find pred = .ok (it.toList.find? f) := by
  rw [Iter.find]
  rcases Iter.next_spec it with ⟨hn, hl⟩ | ⟨r, it', hn, hl⟩
  · split
    · rw [hl]; rfl
    · rename_i heq; rw [hn] at heq; cases heq
  · split
    · rename_i heq; rw [hn] at heq; cases heq
    · rename_i r2 it2 heq
      rw [hn] at heq
      simp only [Option.some.injEq, Prod.mk.injEq] at heq
      obtain ⟨rfl, rfl⟩ := heq
      rw [hl, List.find?_cons, h r]
      cases hf : f r
      · simp only
        have := Iter.next_size hn
        exact Iter.find_eq pred f h it'
      · rfl
termination_by it.size

theorem iter_toList (rs : Ruleset) : rs.iter.toList = Ruma.Spec.Push.orderedRules rs := rfl

/-- `Ruleset::get_match` never panics and returns the spec's match. -/
theorem getMatch_spec (E : Ext) (hE : ExtOk E) (rs : Ruleset) (ev : PJ) (ctx : Ctx) :
    getMatch E rs ev ctx = .ok (Ruma.Spec.Push.getMatch (paramsOf E) rs ev ctx) := by
  unfold getMatch Ruma.Spec.Push.getMatch
  simp only [← selfSent_eq]
  cases hself : selfSent (flatten ev) ctx
  · simp only [Bool.false_eq_true, if_false]
    rw [Iter.find_eq _ (Ruma.Spec.Push.ruleHolds (paramsOf E) ev ctx)
      (fun r => AnyRule_applies_eq E hE ev ctx hself r), iter_toList]
  · simp

end Ruma.Push
