/-
  C17 helper lemmas: the index-faithful `Content-Disposition` parser (`Model/ScanCd.lean`) computes
  the same function as the suffix-passing model (`Model/HttpHeaders.lean`): with the cursor at `pos`,
  every index-style function returns what the suffix-style function returns on `bytes.drop pos`, and
  its new cursor `q` satisfies `bytes.drop q = ` the suffix-style rest.
-/
import RumaModel.Model.ScanCd
import RumaModel.Lemmas.ScanCd
import RumaModel.Lemmas.HttpHeaders
namespace Ruma.ScanCd
open Ruma Ruma.Scan Ruma.HttpHeaders

@[simp] theorem _root_.Ruma.Scan.Out.ok_bind {α β : Type} (a : α) (f : α → Out β) : (Out.ok a).bind f = f a := rfl

/-! ### Cursor arithmetic on `pre ++ s` -/

theorem get_at_append (pre s : Str) : (pre ++ s)[pre.length]? = s.head? := by
  cases s <;> simp

theorem bytesSlice_append (pre a r : Str) :
    bytesSlice (pre ++ (a ++ r)) pre.length (pre.length + a.length) = some a := by
  unfold bytesSlice
  have h1 : pre.length ≤ pre.length + a.length ∧ pre.length + a.length ≤ (pre ++ (a ++ r)).length := by
    simp
  simp only [h1, and_self, if_true, Option.some.injEq]
  have : pre ++ (a ++ r) = (pre ++ a) ++ r := by simp
  rw [this, List.take_left' (by simp), List.drop_left' rfl]

/-! ### The scanning loops -/

theorem skipWs_eq_spanP (s : Str) : HttpHeaders.skipWs s = (spanP isWs s).2 := by
  induction s with
  | nil => simp [HttpHeaders.skipWs, spanP]
  | cons b t ih =>
    simp only [HttpHeaders.skipWs, spanP]
    split <;> simp [ih]

theorem spanP_append (p : Nat → Bool) (s : Str) : (spanP p s).1 ++ (spanP p s).2 = s := by
  induction s with
  | nil => simp [spanP]
  | cons b t ih =>
    simp only [spanP]
    split <;> simp [ih]

/-- The scanning loop at cursor `|pre|` of `pre ++ s` stops behind the longest prefix of `s` that
satisfies `p`. -/
theorem scanGo_eq (p : Nat → Bool) : ∀ (fuel : Nat) (pre s : Str), s.length + 1 ≤ fuel →
    scanGo (pre ++ s) p fuel pre.length = .ok (pre.length + (spanP p s).1.length) := by
  intro fuel
  induction fuel with
  | zero => intro pre s h; omega
  | succ f ih =>
    intro pre s h
    unfold scanGo
    rw [get_at_append]
    cases s with
    | nil => simp [spanP]
    | cons b t =>
      simp only [List.head?_cons, spanP]
      split
      · have := ih (pre ++ [b]) t (by simp at h; omega)
        simp only [List.append_assoc, List.singleton_append, List.length_append, List.length_cons,
          List.length_nil] at this
        rw [this]
        simp only [List.length_cons]
        congr 1
        omega
      · simp

theorem scan_eq (p : Nat → Bool) (pre s : Str) :
    scan (pre ++ s) p pre.length = .ok (pre.length + (spanP p s).1.length) := by
  unfold scan
  exact scanGo_eq p _ pre s (by simp)

theorem skipWsI_eq (pre s : Str) :
    skipWsI (pre ++ s) pre.length = .ok (pre.length + (spanP isWs s).1.length) := scan_eq isWs pre s

/-- Splitting `s` at its whitespace prefix. -/
theorem ws_split (s : Str) : ∃ ws s1, s = ws ++ s1 ∧ (spanP isWs s).1 = ws ∧ HttpHeaders.skipWs s = s1 :=
  ⟨(spanP isWs s).1, (spanP isWs s).2, (spanP_append isWs s).symm, rfl, skipWs_eq_spanP s⟩

theorem reassoc (pre a r : Str) : pre ++ (a ++ r) = (pre ++ a) ++ r ∧ (pre ++ a).length = pre.length + a.length := by
  simp

theorem drop_at (pre r : Str) : (pre ++ r).drop pre.length = r := List.drop_left' rfl

theorem len_eq_iff (pre r : Str) : pre.length = (pre ++ r).length ↔ r = [] := by
  simp [List.length_eq_zero_iff]

/-! ### `parse_param_name` -/

theorem parseParamNameI_eq (pre s : Str) :
    ∃ q, parseParamNameI (pre ++ s) pre.length = .ok ((parseParamName s).1, q) ∧
      q ≤ (pre ++ s).length ∧ (pre ++ s).drop q = (parseParamName s).2 := by
  obtain ⟨ws, s1, rfl, hws, hs1⟩ := ws_split s
  unfold parseParamNameI parseParamName
  rw [skipWsI_eq, hws, hs1]
  simp only [Out.ok_bind]
  obtain ⟨e1, l1⟩ := reassoc pre ws s1
  rw [e1, ← l1]
  generalize pre ++ ws = pre1
  cases s1 with
  | nil => exact ⟨pre1.length, by simp, by simp, by simp⟩
  | cons c0 t0 =>
    have hne : pre1.length ≠ (pre1 ++ c0 :: t0).length := by simp
    simp only [hne, if_false]
    rw [scan_eq]
    simp only [Out.ok_bind]
    -- split the rest at its token prefix
    have hsp := spanP_append isTchar (c0 :: t0)
    generalize hn : (spanP isTchar (c0 :: t0)).1 = nm at hsp
    generalize hr : (spanP isTchar (c0 :: t0)).2 = r2 at hsp
    rw [← hsp]
    obtain ⟨e2, l2⟩ := reassoc pre1 nm r2
    rw [e2, ← l2]
    cases r2 with
    | nil =>
      refine ⟨(pre1 ++ nm).length, by simp, by simp, by simp⟩
    | cons b t =>
      have hne2 : (pre1 ++ nm).length ≠ ((pre1 ++ nm) ++ b :: t).length := by simp
      simp only [hne2, if_false, get_at_append, List.head?_cons]
      by_cases hb : b = 59
      · simp only [hb, if_true]
        refine ⟨(pre1 ++ nm).length + 1, rfl, by simp; omega, ?_⟩
        have : (pre1 ++ nm) ++ 59 :: t = ((pre1 ++ nm) ++ [59]) ++ t := by simp
        rw [this]
        exact List.drop_left' (by simp; omega)
      · simp only [hb, if_false]
        have hsl : bytesSlice ((pre1 ++ nm) ++ b :: t) pre1.length (pre1 ++ nm).length = some nm := by
          have := bytesSlice_append pre1 nm (b :: t)
          simpa [List.append_assoc] using this
        rw [hsl]
        simp only
        split
        · refine ⟨_, rfl, Nat.le_refl _, by simp⟩
        · refine ⟨_, rfl, by simp, drop_at _ _⟩

/-! ### `parse_param_value` -/

theorem scanValue_append (q : Bool) : ∀ (esc : Bool) (s : Str),
    (scanValue q esc s).1 ++ (scanValue q esc s).2 = s := by
  intro esc s
  induction s generalizing esc with
  | nil => simp [scanValue]
  | cons b t ih =>
    simp only [scanValue]
    split
    · simp
    · split
      · simp
      · simp [ih]

theorem valueGo_eq (quoted : Bool) : ∀ (fuel : Nat) (pre s : Str) (esc : Bool), s.length + 1 ≤ fuel →
    valueGo (pre ++ s) quoted fuel pre.length esc = .ok (pre.length + (scanValue quoted esc s).1.length) := by
  intro fuel
  induction fuel with
  | zero => intro pre s _ h; omega
  | succ f ih =>
    intro pre s esc h
    unfold valueGo
    rw [get_at_append]
    cases s with
    | nil => simp [scanValue]
    | cons b t =>
      simp only [List.head?_cons, scanValue]
      split
      · simp
      · split
        · simp
        · have := ih (pre ++ [b]) t (b = 92 && !esc) (by simp at h; omega)
          simp only [List.append_assoc, List.singleton_append, List.length_append, List.length_cons,
            List.length_nil] at this
          rw [this]
          simp only [List.length_cons]
          congr 1
          omega

/-- The tail of `parse_param_value` behind the value scan: with the cursor `|pre|` on `pre ++ r`,
skip whitespace and look for the `;`. -/
theorem finish_eq (pre r v : Str) (quoted : Bool) :
    ∃ q, ((skipWsI (pre ++ r) pre.length).bind fun p5 =>
        if p5 ≠ (pre ++ r).length then
          match (pre ++ r)[p5]? with
          | none => (Out.panic : Out (Option (Str × Bool) × Nat))
          | some c =>
            if c = 59 then .ok (some (v, quoted), p5 + 1)
            else .ok (none, (pre ++ r).length)
        else .ok (some (v, quoted), p5)) = .ok ((finishValue v quoted r).1, q) ∧
      q ≤ (pre ++ r).length ∧ (pre ++ r).drop q = (finishValue v quoted r).2 := by
  obtain ⟨ws, r1, rfl, hws, hr1⟩ := ws_split r
  unfold finishValue
  rw [skipWsI_eq, hws, hr1]
  simp only [Out.ok_bind]
  obtain ⟨e1, l1⟩ := reassoc pre ws r1
  rw [e1, ← l1]
  generalize pre ++ ws = pre1
  cases r1 with
  | nil => exact ⟨pre1.length, by simp, by simp, by simp⟩
  | cons c t =>
    have hne : pre1.length ≠ (pre1 ++ c :: t).length := by simp
    simp only [ne_eq, hne, not_false_eq_true, if_true, get_at_append, List.head?_cons]
    by_cases hc : c = 59
    · simp only [hc, if_true]
      refine ⟨pre1.length + 1, rfl, by simp, ?_⟩
      have : pre1 ++ 59 :: t = (pre1 ++ [59]) ++ t := by simp
      rw [this]
      exact List.drop_left' (by simp)
    · simp only [hc, if_false]
      exact ⟨_, rfl, Nat.le_refl _, by simp⟩

/-- `finish_eq` for any way of writing the input and the cursor. -/
theorem finish_eq' (bytes : Str) (p4 : Nat) (pre r v : Str) (quoted : Bool) (hb : bytes = pre ++ r)
    (hp : p4 = pre.length) :
    ∃ q, ((skipWsI bytes p4).bind fun p5 =>
        if p5 ≠ bytes.length then
          match bytes[p5]? with
          | none => (Out.panic : Out (Option (Str × Bool) × Nat))
          | some c =>
            if c = 59 then .ok (some (v, quoted), p5 + 1)
            else .ok (none, bytes.length)
        else .ok (some (v, quoted), p5)) = .ok ((finishValue v quoted r).1, q) ∧
      q ≤ bytes.length ∧ bytes.drop q = (finishValue v quoted r).2 := by
  subst hb hp
  exact finish_eq pre r v quoted

/-- The part of `parse_param_value` from the value scan on, with the value starting at cursor
`vs = |pre2|` of `bytes = pre2 ++ s2`. -/
theorem value_tail_eq (bytes : Str) (vs : Nat) (pre2 s2 : Str) (quoted : Bool) (hb : bytes = pre2 ++ s2)
    (hvs : vs = pre2.length) :
    ∃ q, ((valueGo bytes quoted (bytes.length - vs + 1) vs false).bind fun p3 =>
        match bytesSlice bytes vs p3 with
        | none => (Out.panic : Out (Option (Str × Bool) × Nat))
        | some value =>
          (skipWsI bytes (if quoted && p3 ≠ bytes.length then p3 + 1 else p3)).bind fun p5 =>
            if p5 ≠ bytes.length then
              match bytes[p5]? with
              | none => .panic
              | some c =>
                if c = 59 then .ok (some (value, quoted), p5 + 1)
                else .ok (none, bytes.length)
            else .ok (some (value, quoted), p5)) =
        .ok ((finishValue (scanValue quoted false s2).1 quoted (dropQuote quoted (scanValue quoted false s2).2)).1, q) ∧
      q ≤ bytes.length ∧
      bytes.drop q =
        (finishValue (scanValue quoted false s2).1 quoted (dropQuote quoted (scanValue quoted false s2).2)).2 := by
  subst hb hvs
  rw [valueGo_eq quoted _ pre2 s2 false (by simp)]
  simp only [Out.ok_bind]
  have hsp := scanValue_append quoted false s2
  generalize (scanValue quoted false s2).1 = v at hsp
  generalize (scanValue quoted false s2).2 = r3 at hsp
  subst hsp
  rw [bytesSlice_append]
  simp only
  cases quoted with
  | false =>
    have hdq : dropQuote false r3 = r3 := by unfold dropQuote; split <;> simp_all
    simp only [Bool.false_and, Bool.false_eq_true, if_false, hdq]
    exact finish_eq' _ _ (pre2 ++ v) r3 v false (by simp) (by simp)
  | true =>
    simp only [Bool.true_and]
    cases r3 with
    | nil =>
      have hd : decide (pre2.length + v.length ≠ (pre2 ++ (v ++ [])).length) = false := by simp
      have hdq : dropQuote true [] = [] := rfl
      simp only [hd, Bool.false_eq_true, if_false, hdq]
      exact finish_eq' _ _ (pre2 ++ v) [] v true (by simp) (by simp)
    | cons c t' =>
      have hd : decide (pre2.length + v.length ≠ (pre2 ++ (v ++ c :: t')).length) = true := by simp
      have hdq : dropQuote true (c :: t') = t' := rfl
      simp only [hd, if_true, hdq]
      exact finish_eq' _ _ (pre2 ++ v ++ [c]) t' v true (by simp) (by simp; omega)

theorem parseParamValueI_eq (pre s : Str) :
    ∃ q, parseParamValueI (pre ++ s) pre.length = .ok ((parseParamValue s).1, q) ∧
      q ≤ (pre ++ s).length ∧ (pre ++ s).drop q = (parseParamValue s).2 := by
  obtain ⟨ws, s1, rfl, hws, hs1⟩ := ws_split s
  unfold parseParamValueI parseParamValue
  rw [skipWsI_eq, hws, hs1]
  simp only [Out.ok_bind]
  cases s1 with
  | nil => exact ⟨pre.length + ws.length, by simp, by simp, by simp⟩
  | cons b t =>
    have hne : pre.length + ws.length ≠ (pre ++ (ws ++ b :: t)).length := by simp
    have hget : (pre ++ (ws ++ b :: t))[pre.length + ws.length]? = some b := by
      have := get_at_append (pre ++ ws) (b :: t)
      simp only [List.append_assoc, List.length_append, List.head?_cons] at this
      exact this
    simp only [hne, if_false, hget]
    by_cases hq : b = 34
    · subst hq
      simp only [decide_true, if_true]
      exact value_tail_eq _ _ (pre ++ ws ++ [34]) t true (by simp) (by simp; omega)
    · simp only [hq, decide_false, Bool.false_eq_true, if_false]
      exact value_tail_eq _ _ (pre ++ ws) (b :: t) false (by simp) (by simp)

/-! ### The same statements for an arbitrary cursor inside the input -/

theorem take_drop_len {bytes : Str} {pos : Nat} (h : pos ≤ bytes.length) :
    bytes.take pos ++ bytes.drop pos = bytes ∧ (bytes.take pos).length = pos := by
  simp [List.length_take, Nat.min_eq_left h]

theorem skipWsI_eq' (bytes : Str) (pos : Nat) (h : pos ≤ bytes.length) :
    ∃ q, skipWsI bytes pos = .ok q ∧ q ≤ bytes.length ∧ bytes.drop q = HttpHeaders.skipWs (bytes.drop pos) := by
  obtain ⟨e, l⟩ := take_drop_len h
  have h1 := skipWsI_eq (bytes.take pos) (bytes.drop pos)
  rw [e, l] at h1
  refine ⟨_, h1, ?_, ?_⟩
  · have := (spanP_length isWs (bytes.drop pos))
    simp only [List.length_drop] at this
    omega
  · rw [skipWs_eq_spanP]
    have hsp := spanP_append isWs (bytes.drop pos)
    generalize (spanP isWs (bytes.drop pos)).1 = a at hsp
    generalize (spanP isWs (bytes.drop pos)).2 = r at hsp
    have hdd : bytes.drop (pos + a.length) = (bytes.drop pos).drop a.length := by
      rw [List.drop_drop]
    rw [hdd, ← hsp]
    exact List.drop_left' rfl

theorem parseParamNameI_eq' (bytes : Str) (pos : Nat) (h : pos ≤ bytes.length) :
    ∃ q, parseParamNameI bytes pos = .ok ((parseParamName (bytes.drop pos)).1, q) ∧
      q ≤ bytes.length ∧ bytes.drop q = (parseParamName (bytes.drop pos)).2 := by
  obtain ⟨e, l⟩ := take_drop_len h
  have h1 := parseParamNameI_eq (bytes.take pos) (bytes.drop pos)
  rw [e, l] at h1
  exact h1

theorem parseParamValueI_eq' (bytes : Str) (pos : Nat) (h : pos ≤ bytes.length) :
    ∃ q, parseParamValueI bytes pos = .ok ((parseParamValue (bytes.drop pos)).1, q) ∧
      q ≤ bytes.length ∧ bytes.drop q = (parseParamValue (bytes.drop pos)).2 := by
  obtain ⟨e, l⟩ := take_drop_len h
  have h1 := parseParamValueI_eq (bytes.take pos) (bytes.drop pos)
  rw [e, l] at h1
  exact h1

theorem drop_eq_nil_iff {bytes : Str} {q : Nat} (h : q ≤ bytes.length) : bytes.drop q = [] ↔ q = bytes.length := by
  rw [List.drop_eq_nil_iff]
  omega

theorem get_of_drop_cons {bytes : Str} {q b : Nat} {t : Str} (h : bytes.drop q = b :: t) :
    bytes[q]? = some b ∧ bytes.drop (q + 1) = t ∧ q + 1 ≤ bytes.length := by
  have h0 : (bytes.drop q)[0]? = some b := by rw [h]; rfl
  rw [List.getElem?_drop] at h0
  have hlt : q < bytes.length := by
    by_cases hl : q < bytes.length
    · exact hl
    · rw [List.drop_eq_nil_of_le (by omega)] at h; cases h
  refine ⟨by simpa using h0, ?_, hlt⟩
  have : bytes.drop (q + 1) = (bytes.drop q).drop 1 := by rw [List.drop_drop]
  rw [this, h]
  rfl

/-! ### `RawParam::parse_next` -/

theorem parseNextI_eq' (bytes : Str) (pos : Nat) (h : pos ≤ bytes.length) :
    ∃ q, parseNextI bytes pos = .ok ((parseNext (bytes.drop pos)).1, q) ∧
      q ≤ bytes.length ∧ bytes.drop q = (parseNext (bytes.drop pos)).2 := by
  unfold parseNextI parseNext
  obtain ⟨q1, hq1, hle1, hd1⟩ := parseParamNameI_eq' bytes pos h
  rw [hq1]
  simp only [Out.ok_bind]
  generalize parseParamName (bytes.drop pos) = pn at hd1
  obtain ⟨r, rest⟩ := pn
  simp only at hd1 ⊢
  cases r with
  | none => exact ⟨q1, rfl, hle1, hd1⟩
  | some name =>
    simp only
    obtain ⟨p2, hp2, hle2, hd2⟩ := skipWsI_eq' bytes q1 hle1
    rw [hp2, hd1] at *
    simp only [Out.ok_bind]
    cases hs : HttpHeaders.skipWs rest with
    | nil =>
      rw [hs] at hd2
      have : p2 = bytes.length := (drop_eq_nil_iff hle2).mp hd2
      simp only [this, if_true]
      exact ⟨_, rfl, Nat.le_refl _, by simp⟩
    | cons b t =>
      rw [hs] at hd2
      obtain ⟨hg, hd3, hle3⟩ := get_of_drop_cons hd2
      have hne : p2 ≠ bytes.length := by omega
      simp only [hne, if_false, hg]
      by_cases hb : b = 61
      · simp only [hb, ne_eq, not_true_eq_false, if_false]
        obtain ⟨p4, hp4, hle4, hd4⟩ := skipWsI_eq' bytes (p2 + 1) hle3
        rw [hp4]
        simp only [Out.ok_bind]
        obtain ⟨q5, hq5, hle5, hd5⟩ := parseParamValueI_eq' bytes p4 hle4
        rw [hq5, hd4, hd3] at *
        simp only [Out.ok_bind]
        generalize parseParamValue (HttpHeaders.skipWs t) = pv at hd5
        obtain ⟨rv, rest3⟩ := pv
        simp only at hd5 ⊢
        cases rv with
        | none => exact ⟨q5, rfl, hle5, hd5⟩
        | some vq =>
          obtain ⟨v, qq⟩ := vq
          exact ⟨q5, rfl, hle5, hd5⟩
      · simp only [ne_eq, hb, not_false_eq_true, if_true]
        exact ⟨_, rfl, Nat.le_refl _, by simp⟩

/-! ### The parameter loop and the whole parser -/

theorem paramsLoopI_eq (bytes : Str) : ∀ (fuel pos : Nat) (fn : Option Str), pos ≤ bytes.length →
    bytes.length - pos + 1 ≤ fuel →
    paramsLoopI bytes fuel pos fn = .ok (paramsLoop (bytes.drop pos) fn) := by
  intro fuel
  induction fuel with
  | zero => intro pos _ _ h; omega
  | succ f ih =>
    intro pos fn h1 h2
    unfold paramsLoopI
    by_cases hp : pos = bytes.length
    · have hd : bytes.drop pos = [] := (drop_eq_nil_iff h1).mpr hp
      rw [hd, paramsLoop]
      simp [hp]
    · have hd : bytes.drop pos ≠ [] := fun e => hp ((drop_eq_nil_iff h1).mp e)
      simp only [hp, if_false]
      obtain ⟨q, hq, hle, hdq⟩ := parseNextI_eq' bytes pos h1
      obtain ⟨r', q', hq', _, _, hprog⟩ := parseNextI_spec bytes pos h1
      have hqq : q' = q := by
        rw [hq] at hq'
        simp only [Out.ok.injEq, Prod.mk.injEq] at hq'
        exact hq'.2.symm
      have hlt : pos < q := by rw [← hqq]; exact hprog (by omega)
      rw [hq]
      simp only [Out.ok_bind]
      have hrec : ∀ fn', paramsLoopI bytes f q fn' = .ok (paramsLoop (parseNext (bytes.drop pos)).2 fn') := by
        intro fn'
        rw [ih q fn' hle (by omega), hdq]
      rw [paramsLoop]
      simp only [hd, dite_false]
      cases (parseNext (bytes.drop pos)).1 with
      | none => exact hrec fn
      | some p =>
        simp only
        split
        · cases decodeValue p with
          | some v => rfl
          | none => exact hrec fn
        · split
          · cases decodeValue p with
            | some v => exact hrec (some v)
            | none => exact hrec fn
          · exact hrec fn

/-- What the index-faithful parser returns, in terms of the suffix-passing model's result. -/
def liftRes : Except ParseErr ContentDisposition → Res
  | .ok cd => .ok cd
  | .error e => .err e

/-- **The two models of `ContentDisposition::try_from(&[u8])` are the same function.** -/
theorem parseI_eq_parse (bytes : Str) : parseI bytes = liftRes (HttpHeaders.parse bytes) := by
  unfold parseI HttpHeaders.parse
  obtain ⟨p0, hp0, hle0, hd0⟩ := skipWsI_eq' bytes 0 (Nat.zero_le _)
  rw [hp0]
  simp only [List.drop_zero] at hd0
  simp only
  cases hs : HttpHeaders.skipWs bytes with
  | nil =>
    rw [hs] at hd0
    have : p0 = bytes.length := (drop_eq_nil_iff hle0).mp hd0
    simp [this, liftRes]
  | cons c0 t0 =>
    rw [hs] at hd0
    obtain ⟨_, _, hlt⟩ := get_of_drop_cons hd0
    have hne : p0 ≠ bytes.length := by omega
    simp only [hne, if_false]
    -- the disposition type scan
    obtain ⟨e, l⟩ := take_drop_len hle0
    have hsc := scan_eq (fun b => !(isWs b || b = 59)) (bytes.take p0) (bytes.drop p0)
    rw [e, l, hd0] at hsc
    rw [hsc]
    simp only
    have hsp := spanP_append (fun b => !(isWs b || b = 59)) (c0 :: t0)
    generalize (spanP (fun b => !(isWs b || b = 59)) (c0 :: t0)).1 = ty at hsp ⊢
    generalize (spanP (fun b => !(isWs b || b = 59)) (c0 :: t0)).2 = rest at hsp ⊢
    have hb : bytes = bytes.take p0 ++ (ty ++ rest) := by rw [hsp, ← hd0, e]
    have hsl : bytesSlice bytes p0 (p0 + ty.length) = some ty := by
      have := bytesSlice_append (bytes.take p0) ty rest
      rw [← hb, l] at this
      exact this
    rw [hsl]
    simp only
    cases parseType ty with
    | error e => simp [liftRes]
    | ok dt =>
      simp only
      have hle1 : p0 + ty.length ≤ bytes.length := by
        have : bytes.length = p0 + (ty.length + rest.length) := by
          conv => lhs; rw [hb]
          simp [l]
        omega
      have hdr : bytes.drop (p0 + ty.length) = rest := by
        have hdd : bytes.drop (p0 + ty.length) = (bytes.drop p0).drop ty.length := by rw [List.drop_drop]
        rw [hdd, hd0, ← hsp]
        exact List.drop_left' rfl
      rw [paramsLoopI_eq bytes _ (p0 + ty.length) none hle1 (Nat.le_refl _), hdr]
      simp only [liftRes, Res.ok.injEq, ContentDisposition.mk.injEq, true_and]
      cases (paramsLoop rest none).1 <;> rfl

/-! ### The error condition, stated without the model's helpers -/

theorem skipWs_eq_dropWhile (s : Str) : HttpHeaders.skipWs s = s.dropWhile isWs := by
  induction s with
  | nil => simp [HttpHeaders.skipWs]
  | cons b t ih =>
    simp only [HttpHeaders.skipWs, List.dropWhile_cons]
    split <;> simp [ih]

theorem spanP_fst_eq_takeWhile (p : Nat → Bool) (s : Str) : (spanP p s).1 = s.takeWhile p := by
  induction s with
  | nil => simp [spanP]
  | cons b t ih =>
    simp only [spanP, List.takeWhile_cons]
    split <;> simp [ih]

/-- The disposition type token of a header value: skip leading ASCII whitespace, then take the
longest run of bytes that are neither ASCII whitespace nor `;`. -/
def typeToken (s : Str) : Str := (s.dropWhile isWs).takeWhile (fun b => !(isWs b || b = 59))

/-- Parsing fails exactly when the type token is not `inline`, not `attachment` (case-insensitively)
and not a non-empty RFC 7230 token. -/
theorem parse_error_iff_token (s : Str) :
    (∃ e, HttpHeaders.parse s = .error e) ↔
      ¬ (eqIgnoreCase (typeToken s) (bs "inline") = true ∨ eqIgnoreCase (typeToken s) (bs "attachment") = true ∨
          (typeToken s ≠ [] ∧ ∀ b ∈ typeToken s, isTchar b = true)) := by
  unfold HttpHeaders.parse typeToken
  rw [← skipWs_eq_dropWhile]
  cases hs : HttpHeaders.skipWs s with
  | nil =>
    simp [eqIgnoreCase, bs]
  | cons c t =>
    simp only
    rw [spanP_fst_eq_takeWhile]
    generalize (c :: t).takeWhile (fun b => !(isWs b || b = 59)) = tok
    unfold parseType
    by_cases h1 : eqIgnoreCase tok (bs "inline") = true
    · simp [h1]
    · by_cases h2 : eqIgnoreCase tok (bs "attachment") = true
      · simp [h1, h2]
      · by_cases h3 : tok.isEmpty = true
        · have : tok = [] := List.isEmpty_iff.mp h3
          subst this
          simp [eqIgnoreCase, bs]
        · have hne : tok ≠ [] := fun e => h3 (List.isEmpty_iff.mpr e)
          by_cases h4 : tok.all isTchar = true
          · have : ∀ b ∈ tok, isTchar b = true := List.all_eq_true.mp h4
            simp [h1, h2, h3, h4, hne]
            exact this
          · have : ¬ ∀ b ∈ tok, isTchar b = true := fun h => h4 (List.all_eq_true.mpr h)
            simp [h1, h2, h3, h4, this]

end Ruma.ScanCd
