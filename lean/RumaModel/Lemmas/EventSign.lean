/-
  Helper lemmas for C03 (event signing / verification / required servers).
-/
import RumaModel.Model.EventSign
import RumaModel.Spec.EventSign
import RumaModel.Lemmas.Hash
import RumaModel.Props.C05
import RumaModel.Lemmas.Canonical
import RumaModel.Lemmas.Sign
import RumaModel.Lemmas.SignB64
import RumaModel.Lemmas.SignObj
namespace Ruma.EventSign
open Ruma Ruma.Sign Ruma.Redact Ruma.Spec.EventSign

/-! ### The server set -/

theorem mem_insertSet (l : List Str) (a s : Str) : s ∈ insertSet l a ↔ s = a ∨ s ∈ l := by
  induction l with
  | nil => simp [insertSet]
  | cons b t ih =>
    simp only [insertSet]
    by_cases h1 : b = a
    · subst h1; simp
    · simp only [h1, if_false]
      by_cases h2 : a < b
      · simp [h2]
      · simp only [h2, if_false, List.mem_cons, ih]
        constructor
        · rintro (h | h | h)
          · exact Or.inr (Or.inl h)
          · exact Or.inl h
          · exact Or.inr (Or.inr h)
        · rintro (h | h | h)
          · exact Or.inr (Or.inl h)
          · exact Or.inl h
          · exact Or.inr (Or.inr h)

theorem insertSet_sorted (l : List Str) (a : Str) (h : l.Pairwise (· < ·)) :
    (insertSet l a).Pairwise (· < ·) := by
  induction l with
  | nil => simp [insertSet]
  | cons b t ih =>
    simp only [insertSet]
    by_cases h1 : b = a
    · simp only [h1, if_true]; rw [← h1]; exact h
    · simp only [h1, if_false]
      by_cases h2 : a < b
      · simp only [h2, if_true]
        rw [List.pairwise_cons] at h ⊢
        refine ⟨?_, List.pairwise_cons.mpr h⟩
        intro c hc
        rcases List.mem_cons.mp hc with rfl | hc
        · exact h2
        · exact List.lt_trans h2 (h.1 c hc)
      · simp only [h2, if_false]
        rw [List.pairwise_cons] at h ⊢
        refine ⟨?_, ih h.2⟩
        intro c hc
        rcases (mem_insertSet t a c).mp hc with rfl | hc
        · rcases Ruma.Canonical.str_trichotomy b c with h3 | h3 | h3
          · exact h3
          · exact absurd h3 h1
          · exact absurd h3 h2
        · exact h.1 c hc

theorem serverPart_of_find (s : Str) (i : Nat) (h : Ids.find 58 s = some i) :
    serverPart s = some (s.drop (i + 1)) := by
  induction s generalizing i with
  | nil => simp [Ids.find] at h
  | cons c t ih =>
    simp only [Ids.find] at h
    simp only [serverPart]
    by_cases hc : c = 58
    · simp only [hc, if_true, Option.some.injEq] at h ⊢
      subst h; rfl
    · simp only [hc, if_false, Option.map_eq_some_iff] at h ⊢
      obtain ⟨j, hj, rfl⟩ := h
      rw [ih j hj]; rfl

theorem userServer_ok (x : Ids.Ext) (field raw srv : Str) (h : userServer x field raw = .ok srv) :
    serverPart raw = some srv := by
  unfold userServer at h
  split at h
  · cases h
  · cases h
  · unfold Ids.serverNameOf Ids.colonIdx at h
    cases hf : Ids.find 58 raw with
    | none => rw [hf] at h; cases h
    | some ci =>
      rw [hf] at h
      simp only [Ids.sliceFrom] at h
      split at h
      · rename_i hs
        split at hs
        · injection hs with hs; injection h with h; subst hs; subst h
          exact serverPart_of_find raw ci hf
        · cases hs
      · cases h

theorem eventIdServer_ok (x : Ids.Ext) (raw srv : Str) (h : eventIdServer x raw = .ok srv) :
    serverPart raw = some srv := by
  unfold eventIdServer at h
  split at h
  · cases h
  · cases h
  · unfold Ids.eventServerName at h
    cases hf : Ids.find 58 raw with
    | none => rw [hf] at h; cases h
    | some ci =>
      rw [hf] at h
      simp only [Ids.sliceFrom] at h
      split at h
      · rename_i hs
        split at hs
        · rename_i hs'
          split at hs'
          · injection hs' with hs'; injection hs with hs; injection hs with hs
            injection h with h; subst hs'; subst hs; subst h
            exact serverPart_of_find raw ci hf
          · cases hs'
        · cases hs
      · cases h
      · cases h

theorem isInvite_spec (o : Obj) (b : Bool) (h : isInviteViaThirdPartyId o = .ok b) :
    isThirdPartyInvite o = b := by
  unfold isInviteViaThirdPartyId at h
  unfold isThirdPartyInvite
  cases hty : Obj.get o (bs "type") with
  | none => rw [hty] at h; cases h
  | some tyv =>
    rw [hty] at h
    cases tyv with
    | str rawType =>
      simp only at h
      by_cases hm : rawType = bs "m.room.member"
      · simp only [hm, ne_eq, not_true_eq_false, if_false] at h
        cases hc : Obj.get o (bs "content") with
        | none => rw [hc] at h; cases h
        | some cv =>
          rw [hc] at h
          cases cv with
          | obj content =>
            simp only at h
            cases hmem : Obj.get content (bs "membership") with
            | none => rw [hmem] at h; cases h
            | some mv =>
              rw [hmem] at h
              cases mv with
              | str membership =>
                simp only at h
                by_cases hi : membership = bs "invite"
                · simp only [hi, not_true_eq_false, if_false] at h
                  cases ht : Obj.get content (bs "third_party_invite") with
                  | none => rw [ht] at h; cases h; simp [hm, hmem, ht]
                  | some tv =>
                    rw [ht] at h
                    cases tv <;> first | (cases h; done) | (cases h; simp [hm, hi, hmem, ht])
                · simp only [hi, not_false_eq_true, if_true] at h
                  cases h
                  simp only [hm, decide_true, Bool.true_and]
                  split <;> simp_all
              | _ => cases h
          | _ => cases h
      · simp only [ne_eq, hm, not_false_eq_true, if_true] at h
        cases h
        split <;> simp_all
    | _ => cases h

/-- The spec's two per-version flags as the model's `SigRules`. -/
def sigRulesOf (v : Nat) : SigRules := ⟨checkEventIdServer v, checkJoinAuthorised v⟩

theorem senderStep_ok (x : Ids.Ext) (o : Obj) (acc s1 : List Str) (h : senderStep x o acc = .ok s1) :
    (isThirdPartyInvite o = true ∧ s1 = acc) ∨
    (isThirdPartyInvite o = false ∧ ∃ u srv, Obj.get o (bs "sender") = some (.str u) ∧
      serverPart u = some srv ∧ s1 = insertSet acc srv) := by
  unfold senderStep at h
  cases hi : isInviteViaThirdPartyId o with
  | error e => rw [hi] at h; cases h
  | ok b =>
    rw [hi] at h
    have hb := isInvite_spec o b hi
    cases b with
    | true => simp only at h; cases h; exact Or.inl ⟨hb, rfl⟩
    | false =>
      simp only at h
      cases hs : Obj.get o (bs "sender") with
      | none => rw [hs] at h; cases h
      | some sv =>
        rw [hs] at h
        cases sv with
        | str u =>
          simp only at h
          cases hu : userServer x (bs "sender") u with
          | error e => rw [hu] at h; cases h
          | ok srv =>
            rw [hu] at h; cases h
            exact Or.inr ⟨hb, u, srv, rfl, userServer_ok x _ u srv hu, rfl⟩
        | _ => cases h

theorem eventIdStep_ok (x : Ids.Ext) (o : Obj) (sr : SigRules) (acc s2 : List Str)
    (h : eventIdStep x o sr acc = .ok s2) :
    (sr.checkEventIdServer = false ∧ s2 = acc) ∨
    (sr.checkEventIdServer = true ∧ ∃ i srv, Obj.get o (bs "event_id") = some (.str i) ∧
      serverPart i = some srv ∧ s2 = insertSet acc srv) := by
  unfold eventIdStep at h
  cases hc : sr.checkEventIdServer with
  | false => rw [hc] at h; simp only [Bool.false_eq_true, if_false] at h; cases h; exact Or.inl ⟨rfl, rfl⟩
  | true =>
    rw [hc] at h
    simp only [if_true] at h
    cases hs : Obj.get o (bs "event_id") with
    | none => rw [hs] at h; cases h
    | some sv =>
      rw [hs] at h
      cases sv with
      | str i =>
        simp only at h
        cases hu : eventIdServer x i with
        | error e => rw [hu] at h; cases h
        | ok srv =>
          rw [hu] at h; cases h
          exact Or.inr ⟨rfl, i, srv, rfl, eventIdServer_ok x i srv hu, rfl⟩
      | _ => cases h

theorem authorisedField_some (o : Obj) (a : JVal) :
    authorisedField o = some a ↔ ∃ c, Obj.get o (bs "content") = some (.obj c) ∧
      Obj.get c (bs "join_authorised_via_users_server") = some a := by
  unfold authorisedField
  cases hc : Obj.get o (bs "content") with
  | none => simp
  | some cv => cases cv <;> simp

theorem authorisedStep_ok (x : Ids.Ext) (o : Obj) (sr : SigRules) (acc s3 : List Str)
    (h : authorisedStep x o sr acc = .ok s3) :
    (sr.checkJoinAuthorised = false ∧ s3 = acc) ∨
    (sr.checkJoinAuthorised = true ∧ authorisedField o = none ∧ s3 = acc) ∨
    (sr.checkJoinAuthorised = true ∧ ∃ a srv, authorisedField o = some (.str a) ∧
      serverPart a = some srv ∧ s3 = insertSet acc srv) := by
  unfold authorisedStep at h
  cases hc : sr.checkJoinAuthorised with
  | false => rw [hc] at h; simp only [Bool.false_eq_true, if_false] at h; cases h; exact Or.inl ⟨rfl, rfl⟩
  | true =>
    rw [hc] at h
    simp only [if_true] at h
    cases hs : authorisedField o with
    | none => rw [hs] at h; cases h; exact Or.inr (Or.inl ⟨rfl, rfl, rfl⟩)
    | some sv =>
      rw [hs] at h
      cases sv with
      | str a =>
        simp only at h
        cases hu : userServer x (bs "join_authorised_via_users_server") a with
        | error e => rw [hu] at h; cases h
        | ok srv =>
          rw [hu] at h; cases h
          exact Or.inr (Or.inr ⟨rfl, a, srv, rfl, userServer_ok x _ a srv hu, rfl⟩)
      | _ => cases h

/-- The servers the model demands are exactly the servers the specification demands, and they form
a set (strictly ascending list). -/
theorem serversToCheck_spec (x : Ids.Ext) (v : Nat) (e : Obj) (l : List Str)
    (h : serversToCheck x e (sigRulesOf v) = .ok l) :
    (∀ s, s ∈ l ↔ Required v e s) ∧ l.Pairwise (· < ·) := by
  unfold serversToCheck at h
  cases h1 : senderStep x e [] with
  | error err => rw [h1] at h; cases h
  | ok s1 =>
    rw [h1] at h
    simp only at h
    cases h2 : eventIdStep x e (sigRulesOf v) s1 with
    | error err => rw [h2] at h; cases h
    | ok s2 =>
      rw [h2] at h
      simp only at h
      have c1 := senderStep_ok x e [] s1 h1
      have c2 := eventIdStep_ok x e _ s1 s2 h2
      have c3 := authorisedStep_ok x e _ s2 l h
      simp only [sigRulesOf] at c2 c3
      have p1 : s1.Pairwise (· < ·) := by
        rcases c1 with ⟨_, rfl⟩ | ⟨_, _, _, _, _, rfl⟩
        · exact List.Pairwise.nil
        · exact insertSet_sorted _ _ List.Pairwise.nil
      have p2 : s2.Pairwise (· < ·) := by
        rcases c2 with ⟨_, rfl⟩ | ⟨_, _, _, _, _, rfl⟩
        · exact p1
        · exact insertSet_sorted _ _ p1
      have p3 : l.Pairwise (· < ·) := by
        rcases c3 with ⟨_, rfl⟩ | ⟨_, _, rfl⟩ | ⟨_, _, _, _, _, rfl⟩
        · exact p2
        · exact p2
        · exact insertSet_sorted _ _ p2
      refine ⟨?_, p3⟩
      -- membership, stage by stage
      have m1 : ∀ s, s ∈ s1 ↔ (isThirdPartyInvite e = false ∧
          ∃ u, Obj.get e (bs "sender") = some (.str u) ∧ serverPart u = some s) := by
        intro s
        rcases c1 with ⟨hb, rfl⟩ | ⟨hb, u, srv, hu, hsp, rfl⟩
        · simp [hb]
        · rw [mem_insertSet]
          constructor
          · rintro (rfl | hmem)
            · exact ⟨hb, u, hu, hsp⟩
            · cases hmem
          · rintro ⟨_, u', hu', hsp'⟩
            rw [hu] at hu'; cases hu'
            rw [hsp] at hsp'; cases hsp'
            exact Or.inl rfl
      have m2 : ∀ s, s ∈ s2 ↔ s ∈ s1 ∨ (checkEventIdServer v = true ∧
          ∃ i, Obj.get e (bs "event_id") = some (.str i) ∧ serverPart i = some s) := by
        intro s
        rcases c2 with ⟨hb, rfl⟩ | ⟨hb, i, srv, hi, hsp, rfl⟩
        · simp [hb]
        · rw [mem_insertSet]
          constructor
          · rintro (rfl | hmem)
            · exact Or.inr ⟨hb, i, hi, hsp⟩
            · exact Or.inl hmem
          · rintro (hmem | ⟨_, i', hi', hsp'⟩)
            · exact Or.inr hmem
            · rw [hi] at hi'; cases hi'
              rw [hsp] at hsp'; cases hsp'
              exact Or.inl rfl
      have m3 : ∀ s, s ∈ l ↔ s ∈ s2 ∨ (checkJoinAuthorised v = true ∧
          ∃ c a, Obj.get e (bs "content") = some (.obj c) ∧
            Obj.get c (bs "join_authorised_via_users_server") = some (.str a) ∧
            serverPart a = some s) := by
        intro s
        rcases c3 with ⟨hb, rfl⟩ | ⟨hb, hnone, rfl⟩ | ⟨hb, a, srv, ha, hsp, rfl⟩
        · simp [hb]
        · constructor
          · exact Or.inl
          · rintro (hmem | ⟨_, c, a, hc, ha, _⟩)
            · exact hmem
            · have := (authorisedField_some e (.str a)).mpr ⟨c, hc, ha⟩
              rw [hnone] at this; cases this
        · rw [mem_insertSet]
          obtain ⟨c, hc, hac⟩ := (authorisedField_some e _).mp ha
          constructor
          · rintro (rfl | hmem)
            · exact Or.inr ⟨hb, c, a, hc, hac, hsp⟩
            · exact Or.inl hmem
          · rintro (hmem | ⟨_, c', a', hc', ha', hsp'⟩)
            · exact Or.inr hmem
            · rw [hc] at hc'; cases hc'
              rw [hac] at ha'; cases ha'
              rw [hsp] at hsp'; cases hsp'
              exact Or.inl rfl
      intro s
      rw [m3, m2, m1, Required]
      constructor
      · rintro ((h | h) | h)
        · exact Or.inl h
        · exact Or.inr (Or.inl h)
        · exact Or.inr (Or.inr h)
      · rintro (h | h | h)
        · exact Or.inl (Or.inl h)
        · exact Or.inl (Or.inr h)
        · exact Or.inr h

/-! ### Redaction and the signed bytes -/

theorem isEventKeyRetained_always (rr : Rules) (k : Str) (hk : k ∈ topAlwaysKeys) :
    isEventKeyRetained rr k = true := by
  simp [isEventKeyRetained, hk]

/-- Keys that every rules value keeps at top level (other than `content`) keep their value. -/
theorem get_redact_always (rr : Rules) (o res : Obj) (h : redact rr o none = .ok res) (k : Str)
    (hk : k ∈ topAlwaysKeys) (hc : k ≠ bs "content") : Obj.get res k = Obj.get o k := by
  obtain ⟨ty, _, hcase⟩ := Props.C04.redact_ok_shape _ _ _ h
  rcases hcase with ⟨_, rfl⟩ | ⟨c, c', _, _, rfl⟩
  · rw [get_filter, isEventKeyRetained_always rr k hk, if_pos rfl]
  · rw [get_filter, isEventKeyRetained_always rr k hk, if_pos rfl, get_setVal_ne _ _ _ _ hc]

/-- Redaction commutes with removing a top-level key other than `type` / `content`. -/
theorem redact_erase (rr : Rules) (o : Obj) (k : Str) (h1 : k ≠ bs "type") (h2 : k ≠ bs "content") :
    redact rr (Obj.erase o k) none = (redact rr o none).map (fun r => Obj.erase r k) := by
  have := Hash.redact_filter rr o (fun k' => decide (k' ≠ k))
    (by simpa using fun h => h1 h.symm) (by simpa using fun h => h2 h.symm)
  simpa [Obj.erase] using this

theorem canonicalJson_erase_sig (o : Obj) : canonicalJson (Obj.erase o sigKey) = canonicalJson o := by
  unfold canonicalJson; rw [Obj.erase_erase_self]

theorem canonicalJson_erase_uns (o : Obj) : canonicalJson (Obj.erase o unsKey) = canonicalJson o := by
  unfold canonicalJson; rw [Obj.erase_comm _ unsKey sigKey, Obj.erase_erase_self]

/-- The bytes that are signed for an event: canonical JSON of the redacted event. -/
def signedBytesOf (rr : Rules) (o : Obj) : Except Redact.Err (List Nat) :=
  (redact rr o none).map canonicalJson

theorem signedBytesOf_erase (rr : Rules) (o : Obj) (k : Str) (hk : k = sigKey ∨ k = unsKey) :
    signedBytesOf rr (Obj.erase o k) = signedBytesOf rr o := by
  unfold signedBytesOf
  have h1 : k ≠ bs "type" := by rcases hk with rfl | rfl <;> decide
  have h2 : k ≠ bs "content" := by rcases hk with rfl | rfl <;> decide
  rw [redact_erase rr o k h1 h2]
  cases redact rr o none with
  | error e => rfl
  | ok r =>
    simp only [Except.map]
    rcases hk with rfl | rfl
    · rw [canonicalJson_erase_sig]
    · rw [canonicalJson_erase_uns]

/-- Setting `signatures` or `unsigned` to anything does not change the signed bytes (nor whether
redaction succeeds). -/
theorem signedBytesOf_insert (rr : Rules) (o : Obj) (k : Str) (v : JVal) (hk : k = sigKey ∨ k = unsKey) :
    signedBytesOf rr (Obj.insert o k v) = signedBytesOf rr o := by
  rw [← signedBytesOf_erase rr (Obj.insert o k v) k hk, Obj.erase_insert_self,
    signedBytesOf_erase rr o k hk]

/-! ### `verify_event` as a proposition -/

theorem verifyEvent_ok_iff (S : SigScheme) (sha256 : List Nat → List Nat) (x : Ids.Ext) (keys : KeyMap)
    (o : Obj) (rr : Rules) (sr : SigRules) (r : Verified) :
    verifyEvent S sha256 x keys o rr sr = .ok r ↔
      ∃ red hash sigs servers calcd,
        redact rr o none = .ok red ∧ storedHash o = .ok hash ∧
        Obj.get o sigKey = some (.obj sigs) ∧ serversToCheck x o sr = .ok servers ∧
        (∀ s ∈ servers, EntityOk S keys sigs (canonicalJson red) s) ∧
        Hash.contentHash sha256 o = .ok calcd ∧
        r = (if unb64 hash = some calcd then Verified.all else Verified.signatures) := by
  unfold verifyEvent
  cases hred : redact rr o none with
  | error e => simp
  | ok red =>
    cases hst : storedHash o with
    | error e => simp
    | ok hash =>
      cases hsig : Obj.get o sigKey with
      | none => simp
      | some sv =>
        cases sv with
        | obj sigs =>
          cases hsrv : serversToCheck x o sr with
          | error e => simp
          | ok servers =>
            cases hver : verifyEntities S keys sigs (canonicalJson red) servers with
            | error e =>
              simp only [hver, Except.ok.injEq, Option.some.injEq, JVal.obj.injEq, exists_and_left,
                exists_eq_left', reduceCtorEq, false_iff, not_exists, not_and]
              intro hall
              have := (verifyEntities_ok_iff S keys sigs (canonicalJson red) servers).mpr hall
              rw [hver] at this; cases this
            | ok u =>
              cases u
              have hall := (verifyEntities_ok_iff S keys sigs (canonicalJson red) servers).mp hver
              cases hch : Hash.contentHash sha256 o with
              | error e => simp [hver]
              | ok calcd =>
                simp only [hver, Except.ok.injEq, Option.some.injEq, JVal.obj.injEq, exists_and_left,
                  exists_eq_left']
                cases hdec : unb64 hash with
                | none =>
                  simp only [reduceCtorEq, if_false, Except.ok.injEq]
                  constructor
                  · intro h; exact ⟨hall, h.symm⟩
                  · rintro ⟨_, h⟩; exact h.symm
                | some d =>
                  simp only [Option.some.injEq]
                  by_cases hd : d = calcd
                  · simp only [hd, if_true, Except.ok.injEq]
                    constructor
                    · intro h; exact ⟨hall, h.symm⟩
                    · rintro ⟨_, h⟩; exact h.symm
                  · simp only [hd, if_false, Except.ok.injEq]
                    constructor
                    · intro h; exact ⟨hall, h.symm⟩
                    · rintro ⟨_, h⟩; exact h.symm
        | _ => simp

/-! ### `hash_and_sign_event` -/

/-- The object after the `hashes.sha256` insertion of `hash_and_sign_event`. -/
def withHash (o : Obj) (hashes : Obj) (hash : List Nat) : Obj :=
  Obj.insert o hashesKey (.obj (Obj.insert hashes sha256Key (.str (b64 hash))))

/-- What a successful `hashAndSignEvent` did. -/
theorem hashAndSign_ok (S : SigScheme) (sha256 : List Nat → List Nat) (entity : Str) (kp : KeyPair)
    (e e' : Obj) (rr : Rules) (h : hashAndSignEvent S sha256 entity kp e rr = (.ok (), e')) :
    ∃ hash hashes red, Hash.contentHash sha256 e = .ok hash ∧
      ((Obj.get e hashesKey = none ∧ hashes = []) ∨ Obj.get e hashesKey = some (.obj hashes)) ∧
      redact rr (withHash e hashes hash) none = .ok red ∧ Spec.Sign.Signable red entity ∧
      e' = Obj.insert (withHash e hashes hash) sigKey (.obj (newSignatures S entity kp red)) := by
  unfold hashAndSignEvent at h
  cases hch : Hash.contentHash sha256 e with
  | error err => rw [hch] at h; cases h
  | ok hash =>
    rw [hch] at h
    have key : ∀ hashes : Obj,
        (match redact rr (withHash e hashes hash) none with
          | .error err => ((.error (.redact err) : Except Err Unit), withHash e hashes hash)
          | .ok redacted =>
            match signJson S entity kp redacted with
            | (.error err, _) => (.error (.sign err), withHash e hashes hash)
            | (.ok (), signed) =>
              match Obj.get signed sigKey with
              | some sigs => (.ok (), Obj.insert (withHash e hashes hash) sigKey sigs)
              | none => (.error .panic, withHash e hashes hash)) = (.ok (), e') →
        ∃ red, redact rr (withHash e hashes hash) none = .ok red ∧ Spec.Sign.Signable red entity ∧
          e' = Obj.insert (withHash e hashes hash) sigKey (.obj (newSignatures S entity kp red)) := by
      intro hashes hh
      cases hred : redact rr (withHash e hashes hash) none with
      | error err => rw [hred] at hh; cases hh
      | ok red =>
        rw [hred] at hh
        simp only at hh
        by_cases hsg : Spec.Sign.Signable red entity
        · rw [signJson_of_signable S entity kp red hsg] at hh
          simp only [get_signResult_sig] at hh
          injection hh with _ hh
          exact ⟨red, rfl, hsg, hh.symm⟩
        · obtain ⟨err, herr⟩ := signJson_of_not_signable S entity kp red hsg
          rw [herr] at hh; cases hh
    cases hg : Obj.get e hashesKey with
    | none =>
      rw [hg] at h
      obtain ⟨red, h1, h2, h3⟩ := key [] h
      exact ⟨hash, [], red, rfl, Or.inl ⟨rfl, rfl⟩, h1, h2, h3⟩
    | some hv =>
      rw [hg] at h
      cases hv with
      | obj hashes =>
        obtain ⟨red, h1, h2, h3⟩ := key hashes h
        exact ⟨hash, hashes, red, rfl, Or.inr rfl, h1, h2, h3⟩
      | _ => cases h

/-- The `unwrap()` in `hash_and_sign_event` cannot fail: `sign_json` returned `Ok`, so `signatures`
is present. -/
theorem hashAndSign_no_panic (S : SigScheme) (sha256 : List Nat → List Nat) (entity : Str)
    (kp : KeyPair) (e : Obj) (rr : Rules) :
    (hashAndSignEvent S sha256 entity kp e rr).1 ≠ .error .panic := by
  unfold hashAndSignEvent
  cases Hash.contentHash sha256 e with
  | error err => simp
  | ok hash =>
    simp only
    have key : ∀ o1 : Obj,
        (match redact rr o1 none with
          | .error err => ((.error (.redact err) : Except Err Unit), o1)
          | .ok redacted =>
            match signJson S entity kp redacted with
            | (.error err, _) => (.error (.sign err), o1)
            | (.ok (), signed) =>
              match Obj.get signed sigKey with
              | some sigs => (.ok (), Obj.insert o1 sigKey sigs)
              | none => (.error .panic, o1)).1 ≠ .error .panic := by
      intro o1
      cases redact rr o1 none with
      | error err => simp
      | ok red =>
        simp only
        by_cases hsg : Spec.Sign.Signable red entity
        · rw [signJson_of_signable S entity kp red hsg]
          simp [get_signResult_sig]
        · obtain ⟨err, herr⟩ := signJson_of_not_signable S entity kp red hsg
          rw [herr]; simp
    cases Obj.get e hashesKey with
    | none => exact key _
    | some hv =>
      cases hv with
      | obj hashes => exact key _
      | _ => simp

/-! ### Valid events -/

/-- The state `hash_and_sign_event` establishes: `hashes.sha256` is the base64 content hash, the
event redacts, and *every* entity named in `signatures` passes the per-entity check over the
canonical JSON of the redacted event. -/
def Valid (S : SigScheme) (sha256 : List Nat → List Nat) (keys : KeyMap) (rr : Rules) (o : Obj) : Prop :=
  ∃ hash hashes red sigs,
    Hash.contentHash sha256 o = .ok hash ∧
    Obj.get o hashesKey = some (.obj hashes) ∧ Obj.get hashes sha256Key = some (.str (b64 hash)) ∧
    redact rr o none = .ok red ∧ Obj.get o sigKey = some (.obj sigs) ∧
    ∀ s ∈ Obj.keys sigs, EntityOk S keys sigs (canonicalJson red) s

theorem hashesKey_ne_sigKey : hashesKey ≠ sigKey := by decide
theorem sigKey_mem_always : sigKey ∈ topAlwaysKeys := by decide
theorem hashesKey_mem_always : hashesKey ∈ topAlwaysKeys := by decide

theorem contentHash_insert_hashes_sig (sha256 : List Nat → List Nat) (o : Obj) (a b : JVal) :
    Hash.contentHash sha256 (Obj.insert (Obj.insert o hashesKey a) sigKey b) = Hash.contentHash sha256 o := by
  have r := Redact.Rules.mk false false false false false false false false
  rw [((Props.C05.hash_ignores_set_or_delete sha256 r .v1 _ sigKey b).1 (by decide)).1,
      ((Props.C05.hash_ignores_set_or_delete sha256 r .v1 _ hashesKey a).1 (by decide)).1]

/-- If redaction of `o` succeeds, redaction of `o` with `signatures` set to anything succeeds with
the same signed bytes. -/
theorem redact_insert_sig (rr : Rules) (o red : Obj) (v : JVal) (h : redact rr o none = .ok red) :
    ∃ red', redact rr (Obj.insert o sigKey v) none = .ok red' ∧ canonicalJson red' = canonicalJson red := by
  have := signedBytesOf_insert rr o sigKey v (Or.inl rfl)
  unfold signedBytesOf at this
  rw [h] at this
  cases hr : redact rr (Obj.insert o sigKey v) none with
  | error e => rw [hr] at this; cases this
  | ok red' =>
    rw [hr] at this
    simp only [Except.map, Except.ok.injEq] at this
    exact ⟨red', rfl, this⟩

/-- A fresh event (no `signatures`), or one whose redacted form already verifies, is valid after a
successful `hashAndSignEvent` — given the signer's public key is in the key map. -/
theorem valid_after_sign (S : SigScheme) (hS : S.Lawful) (sha256 : List Nat → List Nat)
    (keys : KeyMap) (entity : Str) (kp : KeyPair) (e e' : Obj) (rr : Rules)
    (hsign : hashAndSignEvent S sha256 entity kp e rr = (.ok (), e'))
    (hk : HasKey S keys entity kp)
    (h0 : Obj.get e sigKey = none ∨
      ∀ hashes hash red, redact rr (withHash e hashes hash) none = .ok red →
        Hash.contentHash sha256 e = .ok hash →
        ((Obj.get e hashesKey = none ∧ hashes = []) ∨ Obj.get e hashesKey = some (.obj hashes)) →
        verifyJson S keys red = .ok ()) :
    Valid S sha256 keys rr e' ∧
      ∃ red, Obj.get e' sigKey = some (.obj (newSignatures S entity kp red)) ∧
        Obj.get red sigKey = Obj.get e sigKey := by
  obtain ⟨hash, hashes, red, hch, hhs, hred, hsg, rfl⟩ := hashAndSign_ok S sha256 entity kp e e' rr hsign
  obtain ⟨red', hred', hcj⟩ := redact_insert_sig rr _ red (.obj (newSignatures S entity kp red)) hred
  have hsigred : Obj.get red sigKey = Obj.get e sigKey := by
    rw [get_redact_always rr _ red hred sigKey sigKey_mem_always (by decide), withHash,
      Obj.get_insert_ne _ _ _ _ hashesKey_ne_sigKey.symm]
  have h0' : Obj.get red sigKey = none ∨ verifyJson S keys red = .ok () := by
    rcases h0 with h | h
    · exact Or.inl (by rw [hsigred, h])
    · exact Or.inr (h hashes hash red hred hch hhs)
  have hver := verify_signResult S hS keys entity kp red h0' hk
  obtain ⟨sigs, hs1, hs2⟩ := (verifyJson_ok_iff S keys _).mp hver
  rw [get_signResult_sig] at hs1
  injection hs1 with hs1; injection hs1 with hs1; subst hs1
  rw [canonicalJson_signResult] at hs2
  refine ⟨⟨hash, Obj.insert hashes sha256Key (.str (b64 hash)), red', newSignatures S entity kp red,
    ?_, ?_, Obj.get_insert_self _ _ _, hred', Obj.get_insert_self _ _ _, ?_⟩,
    red, Obj.get_insert_self _ _ _, hsigred⟩
  · rw [withHash, contentHash_insert_hashes_sig, hch]
  · rw [Obj.get_insert_ne _ _ _ _ hashesKey_ne_sigKey, withHash, Obj.get_insert_self]
  · rw [hcj]; exact hs2

/-- A valid event whose required servers all appear in `signatures` verifies as `All`. -/
theorem valid_verifies (S : SigScheme) (sha256 : List Nat → List Nat)
    (hsha : ∀ m, ∀ b ∈ sha256 m, b < 256) (x : Ids.Ext) (keys : KeyMap) (o : Obj) (rr : Rules)
    (sr : SigRules) (hv : Valid S sha256 keys rr o) (servers : List Str)
    (hsrv : serversToCheck x o sr = .ok servers)
    (hcov : ∀ s ∈ servers, ∃ sigs, Obj.get o sigKey = some (.obj sigs) ∧ s ∈ Obj.keys sigs) :
    verifyEvent S sha256 x keys o rr sr = .ok .all := by
  obtain ⟨hash, hashes, red, sigs, hch, hh1, hh2, hred, hsig, hall⟩ := hv
  rw [verifyEvent_ok_iff]
  refine ⟨red, b64 hash, sigs, servers, hash, hred, ?_, hsig, hsrv, ?_, hch, ?_⟩
  · simp only [storedHash, hh1, hh2]
  · intro s hs
    obtain ⟨sigs', h1, h2⟩ := hcov s hs
    rw [hsig] at h1; injection h1 with h1; injection h1 with h1; subst h1
    exact hall s h2
  · have hb : ∀ b ∈ hash, b < 256 := by
      rw [Props.C05.content_hash_def] at hch
      split at hch
      · cases hch
      · injection hch with hch; subst hch; exact hsha _
    rw [unb64_b64 hash hb, if_pos rfl]

/-! ### What `verify_event` reads -/

/-- `servers_to_check_signatures` reads the event only through `type`, `content`, `sender`, `event_id`. -/
theorem serversToCheck_congr (x : Ids.Ext) (sr : SigRules) (o o' : Obj)
    (h1 : Obj.get o (bs "type") = Obj.get o' (bs "type"))
    (h2 : Obj.get o (bs "content") = Obj.get o' (bs "content"))
    (h3 : Obj.get o (bs "sender") = Obj.get o' (bs "sender"))
    (h4 : Obj.get o (bs "event_id") = Obj.get o' (bs "event_id")) :
    serversToCheck x o sr = serversToCheck x o' sr := by
  simp only [serversToCheck, senderStep, isInviteViaThirdPartyId, eventIdStep, authorisedStep,
    authorisedField, h1, h2, h3, h4]

/-- `verify_event` reads the event only through the signed bytes, `hashes`, `signatures`, the four
server-selecting fields and the content hash. -/
theorem verifyEvent_congr (S : SigScheme) (sha256 : List Nat → List Nat) (x : Ids.Ext) (keys : KeyMap)
    (rr : Rules) (sr : SigRules) (o o' : Obj)
    (hsb : signedBytesOf rr o = signedBytesOf rr o')
    (hh : Obj.get o hashesKey = Obj.get o' hashesKey)
    (hsig : Obj.get o sigKey = Obj.get o' sigKey)
    (hsrv : serversToCheck x o sr = serversToCheck x o' sr)
    (hch : Hash.contentHash sha256 o = Hash.contentHash sha256 o') :
    verifyEvent S sha256 x keys o rr sr = verifyEvent S sha256 x keys o' rr sr := by
  unfold verifyEvent
  unfold signedBytesOf at hsb
  have hst : storedHash o = storedHash o' := by simp only [storedHash, hh]
  cases h1 : redact rr o none with
  | error e =>
    rw [h1] at hsb
    cases h2 : redact rr o' none with
    | error e' => rw [h2] at hsb; simp only [Except.map] at hsb; injection hsb with hsb; rw [hsb]
    | ok r' => rw [h2] at hsb; cases hsb
  | ok r =>
    rw [h1] at hsb
    cases h2 : redact rr o' none with
    | error e' => rw [h2] at hsb; cases hsb
    | ok r' =>
      rw [h2] at hsb
      simp only [Except.map, Except.ok.injEq] at hsb
      simp only [hst, hsig, hsrv, hch, hsb]

theorem serversToCheck_redact_fields (rr : Rules) (o red : Obj) (h : redact rr o none = .ok red) :
    Obj.get red (bs "type") = Obj.get o (bs "type") ∧
    Obj.get red (bs "sender") = Obj.get o (bs "sender") ∧
    Obj.get red (bs "event_id") = Obj.get o (bs "event_id") ∧
    Obj.get red hashesKey = Obj.get o hashesKey ∧ Obj.get red sigKey = Obj.get o sigKey :=
  ⟨get_redact_always rr o red h _ (by decide) (by decide),
   get_redact_always rr o red h _ (by decide) (by decide),
   get_redact_always rr o red h _ (by decide) (by decide),
   get_redact_always rr o red h _ (by decide) (by decide),
   get_redact_always rr o red h _ (by decide) (by decide)⟩

end Ruma.EventSign
