/-
  C11 — helper lemmas, part 2: `parse_with_sigil` / `parse_with_type` applied to the output of
  `to_string_with_sigil` / `to_string_with_type`.
-/
import RumaModel.Lemmas.MatrixUri
namespace Ruma.MatrixUri
open Ruma Ruma.Spec.MatrixUri

theorem Bytes.tail {b : Nat} {t : Str} (h : Bytes (b :: t)) : Bytes t := fun x hx => h x (by simp [hx])

theorem percentEncode_ne_nil (set : Nat → Bool) (s : Str) (h : s ≠ []) : percentEncode set s ≠ [] := by
  cases s with
  | nil => exact absurd rfl h
  | cons b t => unfold percentEncode; split <;> simp

theorem not_mem_encPath (s : Str) (hs : Bytes s) : 47 ∉ encPath s ∧ 63 ∉ encPath s := by
  constructor
  · intro h; exact (encPath_byte s hs 47 h).2 rfl
  · intro h; have := (encPath_byte s hs 63 h).1; simp [urlSafe] at this

theorem head_ne_of_not_mem {c : Nat} {s : Str} (h : c ∉ s) : s.head? ≠ some c := by
  cases s with
  | nil => simp
  | cons b t => intro e; simp at e; exact h (by simp [e])

theorem getLast_ne_of_not_mem {c : Nat} {s : Str} (h : c ∉ s) : s.getLast? ≠ some c := by
  intro e
  exact h (List.mem_of_getLast? e)

theorem decodeUtf8_encPath (s : Str) (h : IsStr s) : decodeUtf8 (encPath s) = some s := by
  unfold decodeUtf8 encPath
  rw [percent_roundtrip_of_pct pathSet (by decide) s h.1]
  simp [h.2]

/-- The single-identifier branch of `parse_with_sigil`. -/
def singleBranch (V : Validators) (id : Str) : Res MatrixId :=
  match id.head? with
  | some 64 => if V.user id then .ok (.user id) else .err
  | some 33 => if V.room id then .ok (.room id) else .err
  | some 35 => if V.alias id then .ok (.roomAlias id) else .err
  | some 36 => .err
  | _ => .err

theorem parseWithSigil_noslash (V : Validators) (E s : Str) (h47 : 47 ∉ E) (hne : E ≠ [])
    (hd : decodeUtf8 E = some s) : parseWithSigil V E = singleBranch V s := by
  unfold parseWithSigil
  rw [stripPrefixByte_of_head_ne 47 _ (head_ne_of_not_mem h47),
    stripSuffixByte_of_last_ne 47 _ (getLast_ne_of_not_mem h47)]
  have hc : List.count 47 E = 0 := List.count_eq_zero_of_not_mem h47
  simp only [hne, hc, Nat.not_lt_zero, if_false, splitOnce_not_mem 47 _ h47, hd]
  rfl

/-- The two-identifier branch of `parse_with_sigil`. -/
def pairBranch (V : Validators) (first second : Str) : Res MatrixId :=
  if isRoomSigil first.head? && second.head? == some 36 then
    if V.roomOrAlias first then
      if V.event second then .ok (.event first second) else .err
    else .err
  else if first.head? == some 36 && isRoomSigil second.head? then
    if V.roomOrAlias second then
      if V.event first then .ok (.event second first) else .err
    else .err
  else .err

theorem getLast?_append_cons (A B : Str) (c : Nat) (hB : B ≠ []) :
    (A ++ c :: B).getLast? = B.getLast? := by
  cases B with
  | nil => exact absurd rfl hB
  | cons y t =>
    rw [List.getLast?_append, List.getLast?_cons_cons]
    cases h : (y :: t).getLast? with
    | none => simp at h
    | some v => rfl

theorem count_sep (A B : Str) (c : Nat) (hA : c ∉ A) (hB : c ∉ B) :
    List.count c (A ++ c :: B) = 1 := by
  simp [List.count_append, List.count_eq_zero_of_not_mem hA,
    List.count_eq_zero_of_not_mem hB]

theorem parseWithSigil_pair (V : Validators) (A B a b : Str) (hA : 47 ∉ A) (hB : 47 ∉ B)
    (hAne : A ≠ []) (hBne : B ≠ []) (ha : decodeUtf8 A = some a) (hb : decodeUtf8 B = some b) :
    parseWithSigil V (A ++ 47 :: B) = pairBranch V a b := by
  unfold parseWithSigil
  have hhead : (A ++ 47 :: B).head? ≠ some 47 := by
    cases A with
    | nil => exact absurd rfl hAne
    | cons x t => intro e; simp at e; exact hA (by simp [e])
  have hlast : (A ++ 47 :: B).getLast? ≠ some 47 := by
    rw [getLast?_append_cons A B 47 hBne]; exact getLast_ne_of_not_mem hB
  rw [stripPrefixByte_of_head_ne 47 _ hhead, stripSuffixByte_of_last_ne 47 _ hlast]
  have hne : A ++ 47 :: B ≠ [] := by simp
  simp only [hne, count_sep A B 47 hA hB, Nat.lt_irrefl, if_false, splitOnce_append 47 A B hA, ha, hb]
  rfl

theorem parseWithSigil_lead (V : Validators) (E : Str) (h : E.head? ≠ some 47) :
    parseWithSigil V (47 :: E) = parseWithSigil V E := by
  unfold parseWithSigil
  rw [stripPrefixByte_of_head_ne 47 E h]
  simp [stripPrefixByte]

theorem isStr_tail {sg : Nat} {t : Str} (h : IsStr (sg :: t)) : Bytes t := h.1.tail

theorem decodeUtf8_sigil_enc (sg : Nat) (t : Str) (h : IsStr (sg :: t)) (hsg : sg ≠ 37) :
    decodeUtf8 (sg :: encPath t) = some (sg :: t) := by
  unfold decodeUtf8 encPath
  rw [percentDecode_cons_ne sg _ hsg, percent_roundtrip_of_pct pathSet (by decide) t h.1.tail]
  simp [h.2]

theorem parseWithSigil_toString (V : Validators) (id : MatrixId) (h : MatrixIdOk V id) :
    parseWithSigil V (toStringWithSigil id) = .ok id := by
  have single : ∀ s sg, IsStr s → s.head? = some sg →
      parseWithSigil V (encPath s) = singleBranch V s := by
    intro s sg hs hh
    have hne : s ≠ [] := by intro e; simp [e] at hh
    exact parseWithSigil_noslash V _ s (not_mem_encPath s hs.1).1
      (percentEncode_ne_nil _ s hne) (decodeUtf8_encPath s hs)
  cases id with
  | user s =>
    obtain ⟨hs, hh, hv⟩ := h
    simp [toStringWithSigil, single s _ hs hh, singleBranch, hh, hv, sigilUser]
  | room s =>
    obtain ⟨hs, hh, hv⟩ := h
    simp [toStringWithSigil, single s _ hs hh, singleBranch, hh, hv, sigilRoomId]
  | roomAlias s =>
    obtain ⟨hs, hh, hv⟩ := h
    simp [toStringWithSigil, single s _ hs hh, singleBranch, hh, hv, sigilAlias]
  | event r e =>
    obtain ⟨hr, ⟨he, heh, hev⟩⟩ := h
    have hrs : IsStr r := by rcases hr with h | h <;> exact h.1
    have hrne : r ≠ [] := by rcases hr with h | h <;> (intro e; simp [e] at h; simp [IdOk] at h)
    have hene : e ≠ [] := by intro x; simp [x] at heh
    simp only [toStringWithSigil]
    rw [parseWithSigil_pair V _ _ r e (not_mem_encPath r hrs.1).1 (not_mem_encPath e he.1).1
      (percentEncode_ne_nil _ r hrne) (percentEncode_ne_nil _ e hene)
      (decodeUtf8_encPath r hrs) (decodeUtf8_encPath e he)]
    have hroa : isRoomSigil r.head? = true ∧ V.roomOrAlias r = true := by
      rcases hr with ⟨_, hh, hv⟩ | ⟨_, hh, hv⟩ <;>
        simp [isRoomSigil, Validators.roomOrAlias, hh, hv, sigilRoomId, sigilAlias]
    simp [pairBranch, hroa.1, hroa.2, heh, hev, sigilEvent]

/-! ## `parse_with_type` -/

theorem stripTypeSuffix_append (Q X : Str) (hX : 47 ∉ X)
    (hQ : List.count 47 Q ≠ 1 ∧ List.count 47 Q ≠ 3) :
    stripTypeSuffix (Q ++ 47 :: X) = Q ++ 47 :: X := by
  unfold stripTypeSuffix
  cases X with
  | nil =>
    have : (Q ++ [47]).dropLast = Q := by simp
    rw [this]
    simp [hQ.1, hQ.2]
  | cons y t =>
    have : (Q ++ 47 :: y :: t).getLast? ≠ some 47 := by
      rw [getLast?_append_cons Q (y :: t) 47 (by simp)]; exact getLast_ne_of_not_mem hX
    rw [if_neg (fun h => this h.1)]

/-- `parse_with_type` on `<type>/<X>`. -/
theorem parseWithType_single (V : Validators) (ty X : Str) (sg : Nat) (hty : 47 ∉ ty)
    (htyne : ty ≠ []) (hX : 47 ∉ X) (hsg : sigilOfType ty = some sg) :
    parseWithType V (ty ++ 47 :: X) = parseWithSigil V (47 :: sg :: X) := by
  unfold parseWithType
  have hhead : (ty ++ 47 :: X).head? ≠ some 47 := by
    cases ty with
    | nil => exact absurd rfl htyne
    | cons x t => intro e; simp at e; exact hty (by simp [e])
  rw [stripPrefixByte_of_head_ne 47 _ hhead,
    stripTypeSuffix_append ty X hX (by simp [List.count_eq_zero_of_not_mem hty])]
  have hne : ty ++ 47 :: X ≠ [] := by simp
  simp only [hne, count_sep ty X 47 hty hX, if_false, ne_eq, not_true_eq_false, false_and,
    splitOn_append 47 ty X hty, splitOn_not_mem 47 X hX, typeLoop, hsg, List.nil_append]

/-- `parse_with_type` on `<type>/<X>/<type>/<Y>`. -/
theorem parseWithType_pair (V : Validators) (ty1 X ty2 Y : Str) (sg1 sg2 : Nat)
    (hty1 : 47 ∉ ty1) (hty1ne : ty1 ≠ []) (hX : 47 ∉ X) (hty2 : 47 ∉ ty2) (hY : 47 ∉ Y)
    (hsg1 : sigilOfType ty1 = some sg1) (hsg2 : sigilOfType ty2 = some sg2) :
    parseWithType V (ty1 ++ 47 :: (X ++ 47 :: (ty2 ++ 47 :: Y))) =
      parseWithSigil V (47 :: sg1 :: X ++ 47 :: sg2 :: Y) := by
  unfold parseWithType
  have hhead : (ty1 ++ 47 :: (X ++ 47 :: (ty2 ++ 47 :: Y))).head? ≠ some 47 := by
    cases ty1 with
    | nil => exact absurd rfl hty1ne
    | cons x t => intro e; simp at e; exact hty1 (by simp [e])
  have hc1 := List.count_eq_zero_of_not_mem hty1
  have hc2 := List.count_eq_zero_of_not_mem hX
  have hc3 := List.count_eq_zero_of_not_mem hty2
  have hc4 := List.count_eq_zero_of_not_mem hY
  have hassoc : ty1 ++ 47 :: (X ++ 47 :: (ty2 ++ 47 :: Y)) = (ty1 ++ 47 :: (X ++ 47 :: ty2)) ++ 47 :: Y := by
    simp
  rw [stripPrefixByte_of_head_ne 47 _ hhead]
  rw [hassoc, stripTypeSuffix_append _ Y hY (by simp [List.count_append, hc1, hc2, hc3]), ← hassoc]
  have hne : ty1 ++ 47 :: (X ++ 47 :: (ty2 ++ 47 :: Y)) ≠ [] := by simp
  have hcount : List.count 47 (ty1 ++ 47 :: (X ++ 47 :: (ty2 ++ 47 :: Y))) = 3 := by
    simp [List.count_append, hc1, hc2, hc3, hc4]
  simp only [hne, hcount, if_false, ne_eq, not_true_eq_false, and_false,
    splitOn_append 47 ty1 _ hty1, splitOn_append 47 X _ hX, splitOn_append 47 ty2 _ hty2,
    splitOn_not_mem 47 Y hY, typeLoop, hsg1, hsg2, List.nil_append]

/-- The text `to_string_with_type` writes for a well-formed identifier. -/
def typedText : MatrixId → Str
  | .room id => bs "roomid" ++ 47 :: encPath id.tail
  | .roomAlias id => bs "r" ++ 47 :: encPath id.tail
  | .user id => bs "u" ++ 47 :: encPath id.tail
  | .event r e =>
    (if r.head? = some 33 then bs "roomid" else bs "r") ++
      47 :: (encPath r.tail ++ 47 :: (bs "e" ++ 47 :: encPath e.tail))

theorem toStringWithType_ok (V : Validators) (id : MatrixId) (h : MatrixIdOk V id) :
    toStringWithType id = .ok (typedText id) := by
  cases id with
  | user s =>
    obtain ⟨_, hh, _⟩ := h
    cases s with
    | nil => simp at hh
    | cons x t => simp [toStringWithType, typedText, bs]
  | room s =>
    obtain ⟨_, hh, _⟩ := h
    cases s with
    | nil => simp at hh
    | cons x t => simp [toStringWithType, typedText, bs]
  | roomAlias s =>
    obtain ⟨_, hh, _⟩ := h
    cases s with
    | nil => simp at hh
    | cons x t => simp [toStringWithType, typedText, bs]
  | event r e =>
    obtain ⟨hr, ⟨_, heh, _⟩⟩ := h
    cases e with
    | nil => simp at heh
    | cons y et =>
      cases r with
      | nil => rcases hr with h | h <;> simp [IdOk] at h
      | cons x rt =>
        rcases hr with ⟨_, hh, _⟩ | ⟨_, hh, _⟩
        · simp [sigilRoomId] at hh; subst hh
          simp [toStringWithType, typedText, bs]
        · simp [sigilAlias] at hh; subst hh
          simp [toStringWithType, typedText, bs]

theorem parseWithSigil_typed_single (V : Validators) (sg : Nat) (t : Str) (h : IsStr (sg :: t))
    (hsg : sg ≠ 37) (hsg' : sg ≠ 47) :
    parseWithSigil V (47 :: sg :: encPath t) = singleBranch V (sg :: t) := by
  rw [parseWithSigil_lead V _ (by simp [hsg'])]
  have hm := (not_mem_encPath t h.1.tail).1
  exact parseWithSigil_noslash V _ _ (by simp [hm, Ne.symm hsg']) (by simp)
    (decodeUtf8_sigil_enc sg t h hsg)

theorem parseWithType_toString (V : Validators) (id : MatrixId) (h : MatrixIdOk V id) :
    parseWithType V (typedText id) = .ok id := by
  cases id with
  | user s =>
    obtain ⟨hs, hh, hv⟩ := h
    cases s with
    | nil => simp at hh
    | cons x t =>
      simp [sigilUser] at hh; subst hh
      simp only [typedText, List.tail_cons]
      rw [parseWithType_single V _ _ 64 (by decide) (by decide) (not_mem_encPath t hs.1.tail).1 (by decide),
        parseWithSigil_typed_single V 64 t hs (by decide) (by decide)]
      simp [singleBranch, hv]
  | room s =>
    obtain ⟨hs, hh, hv⟩ := h
    cases s with
    | nil => simp at hh
    | cons x t =>
      simp [sigilRoomId] at hh; subst hh
      simp only [typedText, List.tail_cons]
      rw [parseWithType_single V _ _ 33 (by decide) (by decide) (not_mem_encPath t hs.1.tail).1 (by decide),
        parseWithSigil_typed_single V 33 t hs (by decide) (by decide)]
      simp [singleBranch, hv]
  | roomAlias s =>
    obtain ⟨hs, hh, hv⟩ := h
    cases s with
    | nil => simp at hh
    | cons x t =>
      simp [sigilAlias] at hh; subst hh
      simp only [typedText, List.tail_cons]
      rw [parseWithType_single V _ _ 35 (by decide) (by decide) (not_mem_encPath t hs.1.tail).1 (by decide),
        parseWithSigil_typed_single V 35 t hs (by decide) (by decide)]
      simp [singleBranch, hv]
  | event r e =>
    obtain ⟨hr, ⟨he, heh, hev⟩⟩ := h
    cases e with
    | nil => simp at heh
    | cons y et =>
      simp [sigilEvent] at heh; subst heh
      cases r with
      | nil => rcases hr with h | h <;> simp [IdOk] at h
      | cons x rt =>
        have hrs : IsStr (x :: rt) := by rcases hr with h | h <;> exact h.1
        have hroa : (x = 33 ∨ x = 35) ∧ V.roomOrAlias (x :: rt) = true := by
          rcases hr with ⟨_, hh, hv⟩ | ⟨_, hh, hv⟩
          · simp [sigilRoomId] at hh; subst hh; simp [Validators.roomOrAlias, hv]
          · simp [sigilAlias] at hh; subst hh; simp [Validators.roomOrAlias, hv]
        have hX := (not_mem_encPath rt hrs.1.tail).1
        have hY := (not_mem_encPath et he.1.tail).1
        have hx37 : x ≠ 37 := by rcases hroa.1 with h | h <;> omega
        have hx47 : x ≠ 47 := by rcases hroa.1 with h | h <;> omega
        have hty : sigilOfType (if (x :: rt).head? = some 33 then bs "roomid" else bs "r") = some x := by
          rcases hroa.1 with h | h <;> subst h <;> simp [sigilOfType, bs]
        have htym : 47 ∉ (if (x :: rt).head? = some 33 then bs "roomid" else bs "r") := by
          split <;> decide
        have htyne : (if (x :: rt).head? = some 33 then bs "roomid" else bs "r") ≠ [] := by
          split <;> decide
        simp only [typedText, List.tail_cons]
        rw [parseWithType_pair V _ _ _ _ x 36 htym htyne hX (by decide) hY hty (by decide)]
        show parseWithSigil V (47 :: ((x :: encPath rt) ++ 47 :: 36 :: encPath et)) = _
        rw [parseWithSigil_lead V _ (by simp [hx47])]
        have := parseWithSigil_pair V (x :: encPath rt) (36 :: encPath et) (x :: rt) (36 :: et)
          (by simp [hX, Ne.symm hx47]) (by simp [hY]) (by simp) (by simp)
          (decodeUtf8_sigil_enc x rt hrs hx37) (decodeUtf8_sigil_enc 36 et he (by decide))
        simp only [List.cons_append] at this ⊢
        rw [this]
        have hrsig : isRoomSigil (some x) = true := by
          rcases hroa.1 with h | h <;> subst h <;> rfl
        simp [pairBranch, hrsig, hroa.2, hev]
end Ruma.MatrixUri
