/-
  Helper lemmas for C13, part 1: lists. The indexmap-style operations of the model
  (`get_index_of`, `replace_full`, `move_index`, `shift_remove`) against the index-free placement
  functions of `Spec/RulesetPlacement.lean`; main results `insertAndMoveRule_eq_place` and
  `step_eq_spec` (one step of the model = one step of the specification when ids are unique).
-/
import RumaModel.Model.Ruleset
namespace Ruma.Ruleset
open Ruma.Spec.RulesetPlacement

/-- The ids of a rule list, in order. -/
def ids (l : List Rule) : List Str := l.map (·.id)

/-- `IndexSet` invariant: rule ids are unique. -/
def UniqueIds (l : List Rule) : Prop := (ids l).Nodup

theorem getIndexOf_eq_position (l : List Rule) (id : Str) : getIndexOf l id = position l id := by
  induction l with
  | nil => rfl
  | cons r t ih => simp [getIndexOf, position, ih]

theorem getRule_eq_lookup (l : List Rule) (id : Str) : getRule l id = lookup l id := by
  induction l with
  | nil => rfl
  | cons r t ih => simp [getRule, lookup, ih]

theorem startsWithDot_eq (s : Str) : startsWithDot s = isServerDefaultId s := by
  unfold startsWithDot isServerDefaultId; rfl

theorem position_none_iff {l : List Rule} {id : Str} : position l id = none ↔ id ∉ ids l := by
  induction l with
  | nil => simp [position, ids]
  | cons r t ih =>
    simp only [position, ids, List.map_cons, List.mem_cons, not_or] at *
    by_cases h : r.id = id
    · simp [h]
    · simp [h, ih, Ne.symm h]

theorem position_lt {l : List Rule} {id : Str} {i : Nat} (h : position l id = some i) :
    i < l.length := by
  induction l generalizing i with
  | nil => simp [position] at h
  | cons r t ih =>
    simp only [position] at h
    by_cases hr : r.id = id
    · simp [hr] at h; subst h; simp
    · simp only [hr, if_false, Option.map_eq_some_iff] at h
      obtain ⟨j, hj, rfl⟩ := h
      have := ih hj
      simp; omega

theorem lookup_isSome_iff_position {l : List Rule} {id : Str} :
    (lookup l id).isSome = (position l id).isSome := by
  induction l with
  | nil => rfl
  | cons r t ih =>
    simp only [lookup, position]
    by_cases hr : r.id = id <;> simp [hr, ih]


theorem uniqueIds_cons {r : Rule} {t : List Rule} :
    UniqueIds (r :: t) ↔ r.id ∉ ids t ∧ UniqueIds t := by
  simp [UniqueIds, ids]

theorem others_cons (r : Rule) (t : List Rule) (id : Str) :
    others (r :: t) id = if r.id = id then others t id else r :: others t id := by
  unfold others
  by_cases h : r.id = id <;> simp [h]

theorem others_of_position_none {l : List Rule} {id : Str} (h : position l id = none) :
    others l id = l := by
  induction l with
  | nil => rfl
  | cons r t ih =>
    simp only [position] at h
    by_cases hr : r.id = id
    · simp [hr] at h
    · simp only [hr, if_false, Option.map_eq_none_iff] at h
      simp [others_cons, hr, ih h]

theorem others_eq_eraseIdx {l : List Rule} {id : Str} {c : Nat} (hu : UniqueIds l)
    (h : position l id = some c) : others l id = l.eraseIdx c := by
  induction l generalizing c with
  | nil => simp [position] at h
  | cons r t ih =>
    rw [uniqueIds_cons] at hu
    simp only [position] at h
    by_cases hr : r.id = id
    · simp only [hr, if_true, Option.some.injEq] at h
      subst h
      have : position t id = none := position_none_iff.mpr (hr ▸ hu.1)
      simp [others_cons, hr, others_of_position_none this]
    · simp only [hr, if_false, Option.map_eq_some_iff] at h
      obtain ⟨j, hj, rfl⟩ := h
      simp [others_cons, hr, ih hu.2 hj]

theorem position_others_self (l : List Rule) (id : Str) : position (others l id) id = none := by
  rw [position_none_iff]
  simp [ids, others]

/-- Position of another rule once the rule at index `c` is taken out. -/
theorem position_eraseIdx {l : List Rule} {id a : Str} {c : Nat} (hu : UniqueIds l)
    (h : position l id = some c) (ha : a ≠ id) :
    position (l.eraseIdx c) a = (position l a).map (fun i => if i > c then i - 1 else i) := by
  induction l generalizing c with
  | nil => simp [position] at h
  | cons r t ih =>
    rw [uniqueIds_cons] at hu
    simp only [position] at h
    by_cases hr : r.id = id
    · simp only [hr, if_true, Option.some.injEq] at h
      subst h
      have hra : r.id ≠ a := fun e => ha (e ▸ hr)
      simp only [List.eraseIdx_cons_zero, position, hra, if_false, Option.map_map]
      cases position t a <;> simp
    · simp only [hr, if_false, Option.map_eq_some_iff] at h
      obtain ⟨j, hj, rfl⟩ := h
      simp only [List.eraseIdx_cons_succ, position]
      by_cases hra : r.id = a
      · simp [hra]
      · simp only [hra, if_false, ih hu.2 hj, Option.map_map]
        cases position t a with
        | none => rfl
        | some i =>
          simp only [Option.map_some, Function.comp, Option.some.injEq]
          split <;> split <;> omega

/-- Two different ids are at different positions. -/
theorem position_inj {l : List Rule} {a b : Str} {i : Nat} (ha : position l a = some i)
    (hb : position l b = some i) : a = b := by
  induction l generalizing i with
  | nil => simp [position] at ha
  | cons r t ih =>
    simp only [position] at ha hb
    by_cases h1 : r.id = a <;> by_cases h2 : r.id = b
    · exact h1 ▸ h2
    · simp only [h1, if_true, Option.some.injEq] at ha
      simp only [h2, if_false, Option.map_eq_some_iff] at hb
      obtain ⟨j, _, e⟩ := hb; omega
    · simp only [h2, if_true, Option.some.injEq] at hb
      simp only [h1, if_false, Option.map_eq_some_iff] at ha
      obtain ⟨j, _, e⟩ := ha; omega
    · simp only [h1, h2, if_false, Option.map_eq_some_iff] at ha hb
      obtain ⟨j, hj, rfl⟩ := ha
      obtain ⟨j', hj', e⟩ := hb
      have : j' = j := by omega
      exact ih hj (this ▸ hj')


theorem positionOf_eq {l : List Rule} {id a : Str} (hu : UniqueIds l) :
    positionOf l (getIndexOf l id) a =
      match position (others l id) a with
      | some i => .ok i
      | none => .error .unknownRuleId := by
  rw [getIndexOf_eq_position]
  unfold positionOf
  rw [getIndexOf_eq_position]
  cases hc : position l id with
  | none =>
    rw [others_of_position_none hc]
    cases position l a <;> rfl
  | some c =>
    by_cases ha : a = id
    · subst ha
      simp [hc, position_others_self]
    · rw [others_eq_eraseIdx hu hc, position_eraseIdx hu hc ha]
      cases hp : position l a with
      | none => rfl
      | some i =>
        have hic : i ≠ c := fun e => ha (position_inj hp (e ▸ hc))
        simp only [hic, if_false, Option.map_some]
        split <;> rfl

theorem length_others {l : List Rule} {id : Str} (hu : UniqueIds l) :
    (others l id).length = l.length - (if (getIndexOf l id).isSome then 1 else 0) := by
  rw [getIndexOf_eq_position]
  cases hc : position l id with
  | none => simp [others_of_position_none hc]
  | some c =>
    have := position_lt hc
    simp [others_eq_eraseIdx hu hc, List.length_eraseIdx, this]

theorem moveIndex_replaceFull {l : List Rule} {r : Rule} {to : Nat} (hu : UniqueIds l)
    (hto : to ≤ (others l r.id).length) :
    moveIndex (replaceFull l r).1 (replaceFull l r).2.1 to
      = some ((others l r.id).insertIdx to r) := by
  unfold replaceFull
  rw [getIndexOf_eq_position]
  cases hc : position l r.id with
  | none =>
    rw [others_of_position_none hc] at hto ⊢
    simp only [moveIndex]
    have h1 : l.length < (l ++ [r]).length ∧ to < (l ++ [r]).length := by simp; omega
    rw [dif_pos h1]
    simp [List.eraseIdx_append_of_length_le]
  | some c =>
    have hlt := position_lt hc
    rw [others_eq_eraseIdx hu hc] at hto ⊢
    simp only [moveIndex]
    have h1 : c < (l.set c r).length ∧ to < (l.set c r).length := by
      simp [List.length_eraseIdx, hlt] at hto ⊢; omega
    rw [dif_pos h1]
    simp [List.eraseIdx_set_eq]


theorem putAfter_eq (a : Str) (r : Rule) (l : List Rule) :
    putAfter a r l = (position l a).map (fun i => l.insertIdx (i + 1) r) := by
  induction l with
  | nil => rfl
  | cons x t ih =>
    simp only [putAfter, position]
    by_cases h : x.id = a
    · simp [h]
    · simp only [h, if_false, ih, Option.map_map]
      cases position t a <;> simp

theorem putBefore_eq (b : Str) (r : Rule) (l : List Rule) :
    putBefore b r l = (position l b).map (fun i => l.insertIdx i r) := by
  induction l with
  | nil => rfl
  | cons x t ih =>
    simp only [putBefore, position]
    by_cases h : x.id = b
    · simp [h]
    · simp only [h, if_false, ih, Option.map_map]
      cases position t b <;> simp

theorem putAt_eq (n : Nat) (r : Rule) (l : List Rule) :
    putAt n r l = l.insertIdx (min n l.length) r := by
  unfold putAt
  induction l generalizing n with
  | nil => simp
  | cons x t ih =>
    cases n with
    | zero => simp
    | succ n =>
      have : min (n + 1) (t.length + 1) = min n t.length + 1 := by omega
      simp [this, ih]

theorem set_eq_replaceInPlace {l : List Rule} {r : Rule} {c : Nat} (hu : UniqueIds l)
    (hc : position l r.id = some c) : l.set c r = replaceInPlace r l := by
  unfold replaceInPlace
  induction l generalizing c with
  | nil => simp [position] at hc
  | cons x t ih =>
    rw [uniqueIds_cons] at hu
    simp only [position] at hc
    by_cases hx : x.id = r.id
    · simp only [hx, if_true, Option.some.injEq] at hc
      subst hc
      have hn : ∀ y ∈ t, y.id ≠ r.id := by
        intro y hy e
        exact hu.1 (hx ▸ e ▸ List.mem_map_of_mem (f := (·.id)) hy)
      have : t.map (fun x => if x.id = r.id then r else x) = t := by
        conv => rhs; rw [← List.map_id t]
        exact List.map_congr_left (fun y hy => by simp [hn y hy])
      simp [hx, this]
    · simp only [hx, if_false, Option.map_eq_some_iff] at hc
      obtain ⟨j, hj, rfl⟩ := hc
      simp [hx, ih hu.2 hj]


theorem defaultPositionOf_eq (k : Kind) : defaultPositionOf k = defaultPosition k := by
  cases k <;> rfl

theorem replaced_isNone (l : List Rule) (r : Rule) :
    (replaceFull l r).2.2.isNone = (position l r.id).isNone := by
  unfold replaceFull
  rw [getIndexOf_eq_position]
  cases hc : position l r.id with
  | none => rfl
  | some c => simp [position_lt hc]

/-- What the outside sees of `insert_and_move_rule`. -/
def insOutcome (x : List Rule × InsRes) : List Rule × Outcome := (x.1, x.2.outcome)

def placeOutcome (l : List Rule) : Except ErrClass (List Rule) → List Rule × Outcome
  | .ok l' => (l', .ok)
  | .error c => (l, .err c)

/-- The tail of `insert_and_move_rule` when the rule is moved. -/
theorem tail_moved {l : List Rule} {r : Rule} {a b : Option Str} {to : Nat} (hu : UniqueIds l)
    (hto : to ≤ (others l r.id).length)
    (hm : ((replaceFull l r).2.2.isNone || a.isSome || b.isSome) = true) :
    replaceAndMove l r a b to = ((others l r.id).insertIdx to r, InsRes.ok) := by
  unfold replaceAndMove
  simp only []
  rw [if_pos hm, moveIndex_replaceFull hu hto]

theorem tail_inplace {l : List Rule} {r : Rule} {to c : Nat} (hu : UniqueIds l)
    (hc : position l r.id = some c) :
    replaceAndMove l r none none to = (replaceInPlace r l, InsRes.ok) := by
  unfold replaceAndMove
  have hm : ((replaceFull l r).2.2.isNone || (none : Option Str).isSome || (none : Option Str).isSome) = false := by
    simp [replaced_isNone, hc]
  have : (replaceFull l r).1 = l.set c r := by
    unfold replaceFull; rw [getIndexOf_eq_position, hc]
  simp only [hm, this, set_eq_replaceInPlace hu hc]
  rfl

theorem position_lt_others {l : List Rule} {id a : Str} {i : Nat}
    (h : position (others l id) a = some i) : i < (others l id).length := position_lt h

/-- `insert_and_move_rule` places the rule where the specification says, and reports the same
outcome; on an error the set is returned as it was. -/
theorem insertAndMoveRule_eq_place {k : Kind} {l : List Rule} {r : Rule} {a b : Option Str}
    (hu : UniqueIds l) :
    insOutcome (insertAndMoveRule l r (defaultPositionOf k) a b) = placeOutcome l (place k l r a b) := by
  unfold insertAndMoveRule place
  simp only [← length_others hu]
  cases a with
  | none =>
    cases b with
    | none =>
      simp only [toAfter, toBefore]
      cases hc : position l r.id with
      | none =>
        have hl : lookup l r.id = none := by
          have := lookup_isSome_iff_position (l := l) (id := r.id); rw [hc] at this
          cases h : lookup l r.id <;> simp_all
        rw [tail_moved hu (Nat.min_le_right _ _) (by simp [replaced_isNone, hc])]
        simp [hl, insOutcome, placeOutcome, InsRes.outcome, putAt_eq, others_of_position_none hc,
          defaultPositionOf_eq]
      | some c =>
        have hl : ∃ o, lookup l r.id = some o := by
          have := lookup_isSome_iff_position (l := l) (id := r.id); rw [hc] at this
          cases h : lookup l r.id <;> simp_all
        obtain ⟨o, hl⟩ := hl
        simp only [hl, tail_inplace hu hc]
        simp [insOutcome, placeOutcome, InsRes.outcome]
    | some b =>
      simp only [toAfter, toBefore, positionOf_eq hu, putBefore_eq]
      cases hb : position (others l r.id) b with
      | none => simp [insOutcome, placeOutcome, InsRes.outcome, InsertErr.cls]
      | some j =>
        have hj := position_lt_others hb
        simp only [Option.isSome_none, Bool.false_and, Bool.false_eq_true, if_false]
        rw [tail_moved hu (Nat.le_of_lt hj) (by simp)]
        simp [insOutcome, placeOutcome, InsRes.outcome]
  | some a =>
    cases b with
    | none =>
      simp only [toAfter, toBefore, positionOf_eq hu, putAfter_eq]
      cases ha : position (others l r.id) a with
      | none => simp [insOutcome, placeOutcome, InsRes.outcome, InsertErr.cls]
      | some i =>
        have hi := position_lt_others ha
        simp only []
        rw [tail_moved hu (by omega) (by simp)]
        simp [insOutcome, placeOutcome, InsRes.outcome]
    | some b =>
      simp only [toAfter, toBefore, positionOf_eq hu, putBefore_eq]
      cases ha : position (others l r.id) a with
      | none => simp [insOutcome, placeOutcome, InsRes.outcome, InsertErr.cls]
      | some i =>
        cases hb : position (others l r.id) b with
        | none => simp [insOutcome, placeOutcome, InsRes.outcome, InsertErr.cls]
        | some j =>
          have hj := position_lt_others hb
          simp only [Option.isSome_some, Bool.true_and, Option.map_some]
          by_cases hij : j < i + 1
          · have : ¬ i < j := by omega
            simp [hij, this, insOutcome, placeOutcome, InsRes.outcome, InsertErr.cls]
          · have : i < j := by omega
            simp only [hij, decide_false, Bool.false_eq_true, if_false, this, if_true]
            rw [tail_moved hu (Nat.le_of_lt hj) (by simp)]
            simp [insOutcome, placeOutcome, InsRes.outcome]


/-! ### A rule put at index `n` among the other rules -/

theorem position_insertIdx_self {rest : List Rule} {r : Rule} {n : Nat}
    (hn : n ≤ rest.length) (hr : r.id ∉ ids rest) :
    position (rest.insertIdx n r) r.id = some n := by
  induction rest generalizing n with
  | nil =>
    have : n = 0 := by simpa using hn
    subst this; simp [position]
  | cons x t ih =>
    cases n with
    | zero => simp [position]
    | succ n =>
      simp only [ids, List.map_cons, List.mem_cons, not_or] at hr
      have hx : x.id ≠ r.id := fun e => hr.1 e.symm
      simp only [List.insertIdx_succ_cons, position, hx, if_false]
      rw [ih (by simpa using hn) hr.2]; rfl

theorem position_insertIdx_other {rest : List Rule} {r : Rule} {n : Nat} {a : Str}
    (hn : n ≤ rest.length) (ha : a ≠ r.id) :
    position (rest.insertIdx n r) a = (position rest a).map (fun i => if i < n then i else i + 1) := by
  induction rest generalizing n with
  | nil =>
    have : n = 0 := by simpa using hn
    subst this; simp [position, Ne.symm ha]
  | cons x t ih =>
    cases n with
    | zero =>
      simp only [List.insertIdx_zero, position, Ne.symm ha, if_false]
      by_cases hx : x.id = a
      · simp [hx]
      · simp only [hx, if_false, Option.map_map]; cases position t a <;> simp
    | succ n =>
      simp only [List.insertIdx_succ_cons, position]
      by_cases hx : x.id = a
      · simp [hx]
      · simp only [hx, if_false, ih (by simpa using hn), Option.map_map]
        cases position t a with
        | none => rfl
        | some i =>
          simp only [Option.map_some, Function.comp, Option.some.injEq]
          split <;> split <;> omega

theorem others_insertIdx_self {rest : List Rule} {r : Rule} {n : Nat}
    (hn : n ≤ rest.length) (hr : r.id ∉ ids rest) :
    others (rest.insertIdx n r) r.id = rest := by
  induction rest generalizing n with
  | nil =>
    have : n = 0 := by simpa using hn
    subst this; simp [others]
  | cons x t ih =>
    simp only [ids, List.map_cons, List.mem_cons, not_or] at hr
    have hx : x.id ≠ r.id := fun e => hr.1 e.symm
    have ht : others t r.id = t := others_of_position_none (position_none_iff.mpr hr.2)
    cases n with
    | zero => simp [others_cons, hx, ht]
    | succ n => simp [others_cons, hx, ih (by simpa using hn) hr.2]

theorem ids_others_subset {l : List Rule} {id y : Str} (h : y ∈ ids (others l id)) :
    y ∈ ids l ∧ y ≠ id := by
  simp only [ids, others, List.mem_map, List.mem_filter, decide_eq_true_eq] at *
  obtain ⟨x, ⟨hx, hne⟩, rfl⟩ := h
  exact ⟨⟨x, hx, rfl⟩, hne⟩

theorem uniqueIds_others {l : List Rule} (id : Str) (hu : UniqueIds l) : UniqueIds (others l id) := by
  induction l with
  | nil => exact hu
  | cons x t ih =>
    rw [uniqueIds_cons] at hu
    rw [others_cons]
    split
    · exact ih hu.2
    · rw [uniqueIds_cons]
      exact ⟨fun h => hu.1 (ids_others_subset h).1, ih hu.2⟩

theorem uniqueIds_insertIdx {rest : List Rule} {r : Rule} {n : Nat}
    (hn : n ≤ rest.length) (hr : r.id ∉ ids rest) (hu : UniqueIds rest) :
    UniqueIds (rest.insertIdx n r) := by
  induction rest generalizing n with
  | nil =>
    have : n = 0 := by simpa using hn
    subst this; simp [UniqueIds, ids]
  | cons x t ih =>
    cases n with
    | zero =>
      rw [List.insertIdx_zero, uniqueIds_cons]; exact ⟨hr, hu⟩
    | succ n =>
      rw [uniqueIds_cons] at hu
      simp only [ids, List.map_cons, List.mem_cons, not_or] at hr
      rw [List.insertIdx_succ_cons, uniqueIds_cons]
      refine ⟨?_, ih (by simpa using hn) hr.2 hu.2⟩
      intro h
      simp only [ids, List.mem_map] at h
      obtain ⟨y, hy, e⟩ := h
      rw [List.mem_insertIdx (by simpa using hn)] at hy
      rcases hy with rfl | hy
      · exact hr.1 e
      · exact hu.1 (by simp only [ids, List.mem_map]; exact ⟨y, hy, e⟩)

theorem lookup_insertIdx_self {rest : List Rule} {r : Rule} {n : Nat}
    (hn : n ≤ rest.length) (hr : r.id ∉ ids rest) :
    lookup (rest.insertIdx n r) r.id = some r := by
  induction rest generalizing n with
  | nil =>
    have : n = 0 := by simpa using hn
    subst this; simp [lookup]
  | cons x t ih =>
    cases n with
    | zero => simp [lookup]
    | succ n =>
      simp only [ids, List.map_cons, List.mem_cons, not_or] at hr
      have hx : x.id ≠ r.id := fun e => hr.1 e.symm
      simp only [List.insertIdx_succ_cons, lookup, hx, if_false]
      exact ih (by simpa using hn) hr.2

theorem not_mem_ids_others (l : List Rule) (id : Str) : id ∉ ids (others l id) :=
  position_none_iff.mp (position_others_self l id)

/-- A replaced rule that keeps its place is the rule put back at its index among the others. -/
theorem replaceInPlace_eq_insertIdx {l : List Rule} {r : Rule} {c : Nat} (hu : UniqueIds l)
    (hc : position l r.id = some c) :
    replaceInPlace r l = (others l r.id).insertIdx c r := by
  rw [← set_eq_replaceInPlace hu hc, others_eq_eraseIdx hu hc]
  clear hu
  induction l generalizing c with
  | nil => simp [position] at hc
  | cons x t ih =>
    simp only [position] at hc
    by_cases hx : x.id = r.id
    · simp only [hx, if_true, Option.some.injEq] at hc
      subst hc; simp
    · simp only [hx, if_false, Option.map_eq_some_iff] at hc
      obtain ⟨j, hj, rfl⟩ := hc
      simp [ih hj]

/-- Every successful placement is: the rule put at some index `n` among the other rules. -/
theorem place_ok_form {k : Kind} {l l' : List Rule} {r : Rule} {a b : Option Str}
    (hu : UniqueIds l) (h : place k l r a b = .ok l') :
    ∃ n, n ≤ (others l r.id).length ∧ l' = (others l r.id).insertIdx n r
      ∧ (∀ x, a = some x → b = none → position (others l r.id) x = some (n - 1) ∧ 0 < n)
      ∧ (∀ y, b = some y → position (others l r.id) y = some n)
      ∧ (∀ x y, a = some x → b = some y → ∃ i, position (others l r.id) x = some i ∧ i < n)
      ∧ (a = none → b = none → position l r.id = none → n = min (defaultPosition k) l.length)
      ∧ (a = none → b = none → ∀ c, position l r.id = some c → n = c) := by
  unfold place at h
  cases a with
  | none =>
    cases b with
    | none =>
      simp only [] at h
      cases hc : position l r.id with
      | none =>
        have hl : lookup l r.id = none := by
          have := lookup_isSome_iff_position (l := l) (id := r.id); rw [hc] at this
          cases h : lookup l r.id <;> simp_all
        simp only [hl, Except.ok.injEq] at h
        refine ⟨min (defaultPosition k) l.length, ?_, ?_, ?_, ?_, ?_, ?_, ?_⟩
        · rw [others_of_position_none hc]; exact Nat.min_le_right _ _
        · rw [others_of_position_none hc, ← putAt_eq]; exact h.symm
        all_goals simp
      | some c =>
        have hl : ∃ o, lookup l r.id = some o := by
          have := lookup_isSome_iff_position (l := l) (id := r.id); rw [hc] at this
          cases h : lookup l r.id <;> simp_all
        obtain ⟨o, hl⟩ := hl
        simp only [hl, Except.ok.injEq] at h
        have hlt := position_lt hc
        refine ⟨c, ?_, ?_, ?_, ?_, ?_, ?_, ?_⟩
        · rw [others_eq_eraseIdx hu hc, List.length_eraseIdx]; simp [hlt]; omega
        · rw [← replaceInPlace_eq_insertIdx hu hc]; exact h.symm
        all_goals simp
    | some y =>
      simp only [putBefore_eq] at h
      cases hb : position (others l r.id) y with
      | none => simp [hb] at h
      | some j =>
        simp only [hb, Option.map_some, Except.ok.injEq] at h
        exact ⟨j, Nat.le_of_lt (position_lt hb), h.symm, by simp, by simp [hb], by simp, by simp, by simp⟩
  | some x =>
    cases b with
    | none =>
      simp only [putAfter_eq] at h
      cases ha : position (others l r.id) x with
      | none => simp [ha] at h
      | some i =>
        simp only [ha, Option.map_some, Except.ok.injEq] at h
        exact ⟨i + 1, position_lt ha, h.symm, by simp [ha], by simp, by simp, by simp, by simp⟩
    | some y =>
      simp only [putBefore_eq] at h
      cases ha : position (others l r.id) x with
      | none => simp [ha] at h
      | some i =>
        cases hb : position (others l r.id) y with
        | none => simp [ha, hb] at h
        | some j =>
          simp only [ha, hb, Option.map_some] at h
          by_cases hij : i < j
          · simp only [hij, if_true, Except.ok.injEq] at h
            exact ⟨j, Nat.le_of_lt (position_lt hb), h.symm, by simp, by simp [hb], by simp [ha, hij],
              by simp, by simp⟩
          · simp [hij] at h


/-! ### Whole rulesets -/

theorem State.get_set_same (s : State) (k : Kind) (l : List Rule) : (s.set k l).get k = l := by
  cases k <;> rfl

theorem State.get_set_ne (s : State) {k k' : Kind} (l : List Rule) (h : k' ≠ k) :
    (s.set k l).get k' = s.get k' := by
  cases k <;> cases k' <;> first | rfl | exact absurd rfl h

theorem State.set_get (s : State) (k : Kind) : s.set k (s.get k) = s := by
  cases k <;> rfl

/-- Rule ids are unique within every kind. -/
def Inv (s : State) : Prop := ∀ k, UniqueIds (s.get k)

/-- The `default` flag marks exactly the rules with a server-default id (leading `.`). -/
def DefaultIffDot (s : State) : Prop := ∀ k, ∀ r ∈ s.get k, r.dflt = isServerDefaultId r.id

theorem lookup_id {l : List Rule} {id : Str} {r : Rule} (h : lookup l id = some r) : r.id = id := by
  induction l with
  | nil => simp [lookup] at h
  | cons x t ih =>
    simp only [lookup] at h
    by_cases hx : x.id = id
    · simp only [hx, if_true, Option.some.injEq] at h; exact h ▸ hx
    · simp only [hx, if_false] at h; exact ih h

theorem lookup_mem {l : List Rule} {id : Str} {r : Rule} (h : lookup l id = some r) : r ∈ l := by
  induction l with
  | nil => simp [lookup] at h
  | cons x t ih =>
    simp only [lookup] at h
    by_cases hx : x.id = id
    · simp only [hx, if_true, Option.some.injEq] at h; simp [h]
    · simp only [hx, if_false] at h; exact List.mem_cons_of_mem _ (ih h)

theorem lookup_some_position {l : List Rule} {id : Str} {r : Rule} (h : lookup l id = some r) :
    ∃ c, position l id = some c := by
  have := lookup_isSome_iff_position (l := l) (id := id)
  rw [h] at this
  cases hp : position l id with
  | none => simp [hp] at this
  | some c => exact ⟨c, rfl⟩

theorem lookup_none_position {l : List Rule} {id : Str} (h : lookup l id = none) :
    position l id = none := by
  have := lookup_isSome_iff_position (l := l) (id := id)
  rw [h] at this
  cases hp : position l id with
  | none => rfl
  | some c => simp [hp] at this

theorem ruleToInsert_eq_newRule (l : List Rule) (id : Str) (actions : Nat) :
    ruleToInsert l id actions = newRule l id actions := by
  unfold ruleToInsert newRule
  rw [getRule_eq_lookup]
  cases lookup l id <;> rfl

theorem insert_eq_spec {s : State} (hu : Inv s) (k : Kind) (id : Str) (actions : Nat)
    (a b : Option Str) :
    insert s k id actions a b = Spec.RulesetPlacement.step s (.insert k id actions a b) := by
  unfold insert Spec.RulesetPlacement.step insertRule
  rw [startsWithDot_eq]
  by_cases h1 : isServerDefaultId id = true
  · simp [h1, InsertErr.cls]
  simp only [h1]
  have hinv : hasInvalidChar id = (containsSlash id || containsBackslash id) := rfl
  rw [hinv]
  by_cases h2 : containsSlash id = true
  · simp [h2, InsertErr.cls]
  by_cases h3 : containsBackslash id = true
  · simp [h2, h3, InsertErr.cls]
  have ha : optStartsWithDot a = anchorIsServerDefault a := by
    cases a <;> simp [optStartsWithDot, anchorIsServerDefault, startsWithDot_eq]
  have hb : optStartsWithDot b = anchorIsServerDefault b := by
    cases b <;> simp [optStartsWithDot, anchorIsServerDefault, startsWithDot_eq]
  rw [ha, hb]
  by_cases h4 : anchorIsServerDefault a = true
  · simp [h2, h3, h4, InsertErr.cls]
  by_cases h5 : anchorIsServerDefault b = true
  · simp [h2, h3, h4, h5, InsertErr.cls]
  simp only [h2, h3, h4, h5, if_false, Bool.or_self, Bool.false_eq_true]
  rw [ruleToInsert_eq_newRule]
  have := insertAndMoveRule_eq_place (k := k) (r := newRule (s.get k) id actions) (a := a) (b := b)
    (hu k)
  cases hp : place k (s.get k) (newRule (s.get k) id actions) a b with
  | ok l' =>
    rw [hp] at this
    simp only [insOutcome, placeOutcome, Prod.mk.injEq] at this
    simp [this.1, this.2]
  | error c =>
    rw [hp] at this
    simp only [insOutcome, placeOutcome, Prod.mk.injEq] at this
    simp [this.1, this.2, State.set_get]

theorem shiftRemove_eq_others {l : List Rule} {id : Str} (hu : UniqueIds l) :
    shiftRemove l id = others l id := by
  unfold shiftRemove
  rw [getIndexOf_eq_position]
  cases hc : position l id with
  | none => exact (others_of_position_none hc).symm
  | some c => exact (others_eq_eraseIdx hu hc).symm

theorem replace_eq_replaceInPlace {l : List Rule} {r : Rule} {o : Rule} (hu : UniqueIds l)
    (h : lookup l r.id = some o) : replace l r = replaceInPlace r l := by
  obtain ⟨c, hc⟩ := lookup_some_position h
  unfold replace replaceFull
  rw [getIndexOf_eq_position, hc]
  exact set_eq_replaceInPlace hu hc

/-- `step_refines_spec`, one step: on a ruleset with unique ids per kind, the model of the code
does exactly what the specification prescribes (new ruleset and outcome). -/
theorem step_eq_spec {s : State} (hu : Inv s) (op : Op) :
    step s op = Spec.RulesetPlacement.step s op := by
  cases op with
  | insert k id actions a b => exact insert_eq_spec hu k id actions a b
  | remove k id =>
    cases k with
    | custom => rfl
    | known k =>
      simp only [step, remove, get, Spec.RulesetPlacement.step, getRule_eq_lookup]
      cases h : lookup (s.get k) id with
      | none => rfl
      | some r =>
        by_cases hd : r.dflt = true
        · simp [hd, RemoveErr.cls]
        · simp [hd, shiftRemove_eq_others (hu k)]
  | setEnabled k id on =>
    cases k with
    | custom => rfl
    | known k =>
      simp only [step, setEnabled, Spec.RulesetPlacement.step, getRule_eq_lookup]
      cases h : lookup (s.get k) id with
      | none => rfl
      | some r =>
        have hid : r.id = id := lookup_id h
        have hl : lookup (s.get k) ({ r with enabled := on } : Rule).id = some r := by
          show lookup (s.get k) r.id = some r
          rw [hid]; exact h
        simp only []
        rw [replace_eq_replaceInPlace (hu k) hl]
  | setActions k id actions =>
    cases k with
    | custom => rfl
    | known k =>
      simp only [step, setActions, Spec.RulesetPlacement.step, getRule_eq_lookup]
      cases h : lookup (s.get k) id with
      | none => rfl
      | some r =>
        have hid : r.id = id := lookup_id h
        have hl : lookup (s.get k) ({ r with actions := actions } : Rule).id = some r := by
          show lookup (s.get k) r.id = some r
          rw [hid]; exact h
        simp only []
        rw [replace_eq_replaceInPlace (hu k) hl]
  | get k id =>
    cases k with
    | custom => rfl
    | known k => simp [step, get, Spec.RulesetPlacement.step, getRule_eq_lookup]

end Ruma.Ruleset
