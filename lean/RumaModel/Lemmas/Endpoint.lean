/-
  Helper lemmas for C16, part 1: version histories and path selection
  (`Model/Endpoint.lean` vs `Spec/Endpoint.lean`). Core Lean only.
-/
import RumaModel.Model.Endpoint
namespace Ruma.Endpoint
open Ruma.Spec.Endpoint (Version History Selection Selects offers allRemoved newestOffered)

def toSpec (h : VersionHistory) : History := ⟨h.unstable, h.stable, h.removed⟩

/-- The result of `selectPath` as a specification-level selection (`none` for a panic). -/
def Out.toSelection? : Out Str → Option Selection
  | .ok p => some (.path p)
  | .errRemoved _ => some .removed
  | .errNoUnstable => some .noPath
  | .panic => none

theorem geAny_eq_offers (vs : List Version) (a : Version) : geAny vs a = offers vs a := rfl

theorem removed_eq_allRemoved (h : VersionHistory) (vs : List Version) :
    isSomeAnd h.removed (geAll vs) = allRemoved (toSpec h) vs := by
  unfold isSomeAnd allRemoved toSpec geAll
  cases h.removed <;> rfl

theorem ascending_pairwise : ∀ (l : List (Version × Str)), ascending l = true →
    l.Pairwise (fun a b => a.1 < b.1)
  | [], _ => List.Pairwise.nil
  | [_], _ => List.pairwise_singleton _ _
  | a :: b :: t, h => by
    simp only [ascending, Bool.and_eq_true, decide_eq_true_eq] at h
    have ih := ascending_pairwise (b :: t) h.2
    refine List.Pairwise.cons ?_ ih
    intro c hc
    rcases List.mem_cons.1 hc with rfl | hc
    · exact h.1
    · exact Nat.lt_trans h.1 (List.rel_of_pairwise_cons ih hc)

/-- What `VersionHistory::new` guarantees, as far as path selection needs it. -/
structure Inv (h : VersionHistory) : Prop where
  asc : h.stable.Pairwise (fun a b => a.1 < b.1)
  removedDep : ∀ r, h.removed = some r → ∃ d, h.deprecated = some d ∧ d < r

theorem newOk_inv (h : VersionHistory) (hn : newOk h = true) : Inv h := by
  unfold newOk at hn
  cases hr : refPath h with
  | none => rw [hr] at hn; simp at hn
  | some r =>
    rw [hr] at hn
    simp only [Bool.and_eq_true] at hn
    obtain ⟨⟨⟨_, hasc⟩, _⟩, hrem⟩ := hn
    refine ⟨ascending_pairwise _ hasc, ?_⟩
    intro r hr
    unfold removedOk at hrem
    rw [hr] at hrem
    simp only at hrem
    cases hd : h.deprecated with
    | none => rw [hd] at hrem; simp at hrem
    | some d => rw [hd] at hrem; exact ⟨d, rfl, by simpa using hrem⟩


theorem offers_mono (vs : List Version) {a b : Version} (hab : a ≤ b) (h : offers vs b = true) :
    offers vs a = true := by
  unfold offers at *
  rw [List.any_eq_true] at *
  obtain ⟨v, hv, hb⟩ := h
  have hb' : b ≤ v := by simpa using hb
  exact ⟨v, hv, decide_eq_true (Nat.le_trans hab hb')⟩

/-- Searching the reversed ascending list finds the offered entry of greatest version. -/
theorem find_reverse_spec (vs : List Version) (l : List (Version × Str))
    (hasc : l.Pairwise (fun a b => a.1 < b.1)) (e : Version × Str)
    (hf : l.reverse.find? (fun e => geAny vs e.1) = some e) :
    e ∈ l ∧ offers vs e.1 = true ∧ ∀ e' ∈ l, offers vs e'.1 = true → e'.1 ≤ e.1 := by
  rw [List.find?_eq_some_iff_append] at hf
  obtain ⟨hp, as, bs, hl, has⟩ := hf
  have hl' : l = bs.reverse ++ e :: as.reverse := by
    have := congrArg List.reverse hl
    simpa using this
  subst hl'
  refine ⟨by simp, hp, ?_⟩
  intro e' he' ho
  rw [List.pairwise_append] at hasc
  obtain ⟨_, hcons, hcross⟩ := hasc
  rcases List.mem_append.1 he' with h1 | h2
  · exact Nat.le_of_lt (hcross e' h1 e (by simp))
  · rcases List.mem_cons.1 h2 with rfl | h3
    · exact Nat.le_refl _
    · have := has e' (List.mem_reverse.1 h3)
      rw [geAny_eq_offers] at this
      simp [ho] at this

theorem find_reverse_isSome (vs : List Version) (l : List (Version × Str)) (e0 : Version × Str)
    (h0 : e0 ∈ l) (ho : geAny vs e0.1 = true) :
    ∃ e, l.reverse.find? (fun e => geAny vs e.1) = some e := by
  cases hf : l.reverse.find? (fun e => geAny vs e.1) with
  | some e => exact ⟨e, rfl⟩
  | none =>
    rw [List.find?_eq_none] at hf
    have := hf e0 (List.mem_reverse.2 h0)
    simp [ho] at this

/-- `stable_decision_has_path`: whenever the decision is `Stable`, `stable_endpoint_for` finds a
path — the `expect("VersioningDecision::Stable implies that a stable path exists")` cannot fire.
No invariant of the history is needed. -/
theorem stable_decision_has_path' (h : VersionHistory) (vs : List Version) (a b c : Bool)
    (hd : versioningDecision h vs = .stable a b c) : ∃ p, stableEndpointFor h vs = some p := by
  unfold versioningDecision at hd
  split at hd
  · cases hd
  · split at hd
    · rename_i hadd
      unfold isSomeAnd addedIn at hadd
      cases hs : h.stable with
      | nil => rw [hs] at hadd; simp at hadd
      | cons e0 t =>
        rw [hs] at hadd
        simp only [List.head?_cons, Option.map_some] at hadd
        obtain ⟨e, he⟩ := find_reverse_isSome vs h.stable e0 (by rw [hs]; simp) hadd
        exact ⟨e.2, by unfold stableEndpointFor; rw [he]; rfl⟩
    · cases hd

theorem selectPath_spec' (h : VersionHistory) (vs : List Version) (hinv : Inv h) :
    ∃ s, (selectPath h vs).toSelection? = some s ∧ Selects (toSpec h) vs s := by
  unfold selectPath versioningDecision
  rw [removed_eq_allRemoved]
  cases hrm : allRemoved (toSpec h) vs with
  | true =>
    simp only [if_true]
    have : ∃ r, h.removed = some r := by
      unfold allRemoved toSpec at hrm
      cases hr : h.removed with
      | none => rw [hr] at hrm; simp at hrm
      | some r => exact ⟨r, rfl⟩
    obtain ⟨r, hr⟩ := this
    rw [hr]
    exact ⟨.removed, rfl, Selects.removed hrm⟩
  | false =>
    simp only [Bool.false_eq_true, if_false]
    cases hadd : isSomeAnd (addedIn h) (geAny vs) with
    | true =>
      simp only [if_true]
      -- the `unreachable!` arm
      have hnp : (isSomeAnd h.removed (geAny vs) && !isSomeAnd h.deprecated (geAll vs)
          && !(isSomeAnd h.deprecated (geAll vs) || isSomeAnd h.deprecated (geAny vs))) = false := by
        cases hr : h.removed with
        | none => simp [isSomeAnd]
        | some r =>
          obtain ⟨d, hd, hdr⟩ := hinv.removedDep r hr
          rw [hd]
          simp only [isSomeAnd]
          cases hra : geAny vs r with
          | false => simp
          | true =>
            have : geAny vs d = true := offers_mono vs (Nat.le_of_lt hdr) hra
            simp [this]
      rw [hnp]
      simp only [Bool.false_eq_true, if_false]
      obtain ⟨e0, t, hs⟩ : ∃ e0 t, h.stable = e0 :: t := by
        unfold isSomeAnd addedIn at hadd
        cases hs : h.stable with
        | nil => rw [hs] at hadd; simp at hadd
        | cons e0 t => exact ⟨e0, t, rfl⟩
      have h0 : geAny vs e0.1 = true := by
        unfold isSomeAnd addedIn at hadd
        rw [hs] at hadd
        simpa using hadd
      obtain ⟨e, he⟩ := find_reverse_isSome vs h.stable e0 (by rw [hs]; simp) h0
      have hspec := find_reverse_spec vs h.stable hinv.asc e he
      have : stableEndpointFor h vs = some e.2 := by unfold stableEndpointFor; rw [he]; rfl
      rw [this]
      exact ⟨.path e.2, rfl, Selects.stable e.1 e.2 hrm hspec.1 hspec.2.1 hspec.2.2⟩
    | false =>
      simp only [Bool.false_eq_true, if_false]
      have hnone : ∀ e ∈ (toSpec h).stable, offers vs e.1 = false := by
        intro e he
        change e ∈ h.stable at he
        unfold isSomeAnd addedIn at hadd
        cases hs : h.stable with
        | nil => rw [hs] at he; simp at he
        | cons e0 t =>
          rw [hs] at hadd he
          simp only [List.head?_cons, Option.map_some] at hadd
          have hle : e0.1 ≤ e.1 := by
            rcases List.mem_cons.1 he with rfl | ht
            · exact Nat.le_refl _
            · have := hinv.asc
              rw [hs] at this
              exact Nat.le_of_lt (List.rel_of_pairwise_cons this ht)
          cases ho : offers vs e.1 with
          | false => rfl
          | true =>
            have := offers_mono vs hle ho
            rw [← geAny_eq_offers, hadd] at this
            cases this
      cases hu : h.unstable.getLast? with
      | some p => exact ⟨.path p, rfl, Selects.unstable p hrm hnone hu⟩
      | none =>
        refine ⟨.noPath, rfl, Selects.noPath hrm hnone ?_⟩
        exact List.getLast?_eq_none_iff.1 hu

end Ruma.Endpoint
namespace Ruma.Spec.Endpoint

theorem newestOffered_some (vs : List Version) : ∀ (l : List (Version × Path)) (b : Version × Path),
    newestOffered vs l = some b →
    b ∈ l ∧ offers vs b.1 = true ∧ ∀ e ∈ l, offers vs e.1 = true → e.1 ≤ b.1
  | [], b, h => by simp [newestOffered] at h
  | e :: t, b, h => by
    unfold newestOffered at h
    cases hr : newestOffered vs t with
    | some b' =>
      rw [hr] at h
      simp only at h
      obtain ⟨hm, ho, hmax⟩ := newestOffered_some vs t b' hr
      split at h
      · rename_i hc
        simp only [Bool.and_eq_true, decide_eq_true_eq] at hc
        cases h
        refine ⟨by simp, hc.1, ?_⟩
        intro e' he' ho'
        rcases List.mem_cons.1 he' with rfl | ht
        · exact Nat.le_refl _
        · exact Nat.le_of_lt (Nat.lt_of_le_of_lt (hmax e' ht ho') hc.2)
      · rename_i hc
        cases h
        refine ⟨List.mem_cons_of_mem _ hm, ho, ?_⟩
        intro e' he' ho'
        rcases List.mem_cons.1 he' with rfl | ht
        · simp only [Bool.and_eq_true, decide_eq_true_eq, not_and, Nat.not_lt] at hc
          exact hc ho'
        · exact hmax e' ht ho'
    | none =>
      rw [hr] at h
      simp only at h
      split at h
      · rename_i hc
        cases h
        refine ⟨by simp, hc, ?_⟩
        intro e' he' ho'
        rcases List.mem_cons.1 he' with rfl | ht
        · exact Nat.le_refl _
        · have := newestOffered_none vs t hr e' ht
          rw [this] at ho'; cases ho'
      · cases h
where
  newestOffered_none (vs : List Version) : ∀ (l : List (Version × Path)),
      newestOffered vs l = none → ∀ e ∈ l, offers vs e.1 = false
    | [], _, e, he => by simp at he
    | e :: t, h, e', he' => by
      unfold newestOffered at h
      cases hr : newestOffered vs t with
      | some b' => rw [hr] at h; simp only at h; split at h <;> cases h
      | none =>
        rw [hr] at h
        simp only at h
        split at h
        · cases h
        · rename_i hc
          rcases List.mem_cons.1 he' with rfl | ht
          · simpa using hc
          · exact newestOffered_none vs t hr e' ht

/-- The executable rule computes the declarative one (for any history). -/
theorem select_selects (h : History) (vs : List Version) : Selects h vs (select h vs) := by
  unfold select
  cases hr : allRemoved h vs with
  | true => simp only [if_true]; exact Selects.removed hr
  | false =>
    simp only [Bool.false_eq_true, if_false]
    cases hn : newestOffered vs h.stable with
    | some b =>
      obtain ⟨hm, ho, hmax⟩ := newestOffered_some vs _ b hn
      exact Selects.stable b.1 b.2 hr hm ho hmax
    | none =>
      have hnone := newestOffered_some.newestOffered_none vs _ hn
      cases hu : h.unstable.getLast? with
      | some p => exact Selects.unstable p hr hnone hu
      | none => exact Selects.noPath hr hnone (List.getLast?_eq_none_iff.1 hu)

theorem pairwise_inj : ∀ (l : List (Version × Path)), l.Pairwise (fun a b => a.1 ≠ b.1) →
    ∀ x ∈ l, ∀ y ∈ l, x.1 = y.1 → x = y
  | [], _, x, hx, _, _, _ => by simp at hx
  | a :: t, hp, x, hx, y, hy, hxy => by
    rw [List.pairwise_cons] at hp
    rcases List.mem_cons.1 hx with rfl | hx' <;> rcases List.mem_cons.1 hy with rfl | hy'
    · rfl
    · exact absurd hxy (hp.1 y hy')
    · exact absurd hxy.symm (hp.1 x hx')
    · exact pairwise_inj t hp.2 x hx' y hy' hxy

/-- The rule determines the selection when no version occurs twice among the stable paths. -/
theorem selects_unique (h : History) (vs : List Version)
    (hd : h.stable.Pairwise (fun a b => a.1 ≠ b.1)) (a b : Selection)
    (ha : Selects h vs a) (hb : Selects h vs b) : a = b := by
  cases ha with
  | removed hr =>
    cases hb with
    | removed _ => rfl
    | stable _ _ hr' => rw [hr] at hr'; cases hr'
    | unstable _ hr' => rw [hr] at hr'; cases hr'
    | noPath hr' => rw [hr] at hr'; cases hr'
  | stable a p hr hm ho hmax =>
    cases hb with
    | removed hr' => rw [hr] at hr'; cases hr'
    | stable a' p' _ hm' ho' hmax' =>
      have h1 := hmax (a', p') hm' ho'
      have h2 := hmax' (a, p) hm ho
      have := pairwise_inj _ hd (a, p) hm (a', p') hm' (Nat.le_antisymm h2 h1)
      cases this; rfl
    | unstable _ _ hnone => have := hnone (a, p) hm; rw [ho] at this; cases this
    | noPath _ hnone => have := hnone (a, p) hm; rw [ho] at this; cases this
  | unstable p hr hnone hu =>
    cases hb with
    | removed hr' => rw [hr] at hr'; cases hr'
    | stable a' p' _ hm' ho' _ => have := hnone (a', p') hm'; rw [ho'] at this; cases this
    | unstable p' _ _ hu' => rw [hu] at hu'; cases hu'; rfl
    | noPath _ _ he => rw [he] at hu; simp at hu
  | noPath hr hnone he =>
    cases hb with
    | removed hr' => rw [hr] at hr'; cases hr'
    | stable a' p' _ hm' ho' _ => have := hnone (a', p') hm'; rw [ho'] at this; cases this
    | unstable p' _ _ hu' => rw [he] at hu'; simp at hu'
    | noPath _ _ _ => rfl

end Ruma.Spec.Endpoint

namespace Ruma.Endpoint
open Ruma.Spec.Endpoint

/-- Model and executable rule agree on every history `VersionHistory::new` accepts. -/
theorem selectPath_eq_select' (h : VersionHistory) (vs : List Version) (hinv : Inv h) :
    (selectPath h vs).toSelection? = some (select (toSpec h) vs) := by
  obtain ⟨s, hs, hsel⟩ := selectPath_spec' h vs hinv
  rw [hs]
  congr 1
  refine selects_unique (toSpec h) vs ?_ _ _ hsel (select_selects _ _)
  exact hinv.asc.imp (fun h => Nat.ne_of_lt h)

end Ruma.Endpoint
