/-
  Facts about the association-list operations of `Model/Json.lean` (`Obj.get`, `erase`, `insert`)
  that the signing proofs need. The look-up facts hold for every association list; the equalities
  at the end need the `BTreeMap` invariant `Obj.Sorted` (strictly ascending keys).
-/
import RumaModel.Model.Json
namespace Ruma.Obj
variable {α : Type}

theorem erase_nil (k : Str) : erase ([] : List (Str × α)) k = [] := rfl

theorem erase_cons (k' : Str) (v : α) (t : List (Str × α)) (k : Str) :
    erase ((k', v) :: t) k = if k' = k then erase t k else (k', v) :: erase t k := by
  by_cases h : k' = k <;> simp [erase, List.filter, h]

theorem get_erase_self (o : List (Str × α)) (k : Str) : get (erase o k) k = none := by
  induction o with
  | nil => rfl
  | cons p t ih =>
    obtain ⟨k', v⟩ := p
    rw [erase_cons]
    split
    · exact ih
    · rename_i h; simp [get, h, ih]

theorem get_erase_ne (o : List (Str × α)) (k k' : Str) (h : k' ≠ k) :
    get (erase o k) k' = get o k' := by
  induction o with
  | nil => rfl
  | cons p t ih =>
    obtain ⟨k₀, v⟩ := p
    rw [erase_cons]
    split
    · rename_i h0
      subst h0
      have : k₀ ≠ k' := fun e => h e.symm
      simp [get, this, ih]
    · simp [get, ih]

theorem get_insert_self (o : List (Str × α)) (k : Str) (v : α) : get (insert o k v) k = some v := by
  induction o with
  | nil => simp [insert, get]
  | cons p t ih =>
    obtain ⟨k', v'⟩ := p
    simp only [insert]
    split
    · simp [get]
    · split
      · simp [get]
      · rename_i h _
        simp [get, h, ih]

theorem get_insert_ne (o : List (Str × α)) (k k' : Str) (v : α) (h : k' ≠ k) :
    get (insert o k v) k' = get o k' := by
  have hk : k ≠ k' := fun e => h e.symm
  induction o with
  | nil => simp [insert, get, hk]
  | cons p t ih =>
    obtain ⟨k₀, v₀⟩ := p
    simp only [insert]
    split
    · rename_i h0
      subst h0
      simp [get, hk]
    · split
      · simp [get, hk]
      · simp [get, ih]

theorem erase_insert_self (o : List (Str × α)) (k : Str) (v : α) :
    erase (insert o k v) k = erase o k := by
  induction o with
  | nil => simp [insert, erase_cons, erase_nil]
  | cons p t ih =>
    obtain ⟨k', v'⟩ := p
    simp only [insert]
    split
    · rename_i h; subst h; simp [erase_cons]
    · split
      · simp [erase_cons]
      · rename_i h _
        simp [erase_cons, h, ih]

theorem erase_comm (o : List (Str × α)) (a b : Str) : erase (erase o a) b = erase (erase o b) a := by
  simp only [erase, List.filter_filter]
  congr 1
  funext p
  exact Bool.and_comm _ _

theorem erase_erase_self (o : List (Str × α)) (k : Str) : erase (erase o k) k = erase o k := by
  simp [erase, List.filter_filter]

theorem mem_insert (o : List (Str × α)) (k : Str) (v : α) (x : Str × α) (h : x ∈ insert o k v) :
    x = (k, v) ∨ x ∈ o := by
  induction o with
  | nil => simp [insert] at h; exact Or.inl h
  | cons p t ih =>
    obtain ⟨k', v'⟩ := p
    simp only [insert] at h
    split at h
    · simp at h; rcases h with h | h
      · exact Or.inl h
      · exact Or.inr (by simp [h])
    · split at h
      · simp at h; rcases h with h | h | h
        · exact Or.inl h
        · exact Or.inr (by simp [h])
        · exact Or.inr (by simp [h])
      · simp at h; rcases h with h | h
        · exact Or.inr (by simp [h])
        · rcases ih h with h | h
          · exact Or.inl h
          · exact Or.inr (by simp [h])

theorem mem_insert_self (o : List (Str × α)) (k : Str) (v : α) : (k, v) ∈ insert o k v := by
  induction o with
  | nil => simp [insert]
  | cons p t ih =>
    obtain ⟨k', v'⟩ := p
    simp only [insert]
    split
    · simp
    · split
      · simp
      · simp [ih]

theorem mem_keys_insert (o : List (Str × α)) (k : Str) (v : α) (e : Str)
    (h : e ∈ keys (insert o k v)) : e = k ∨ e ∈ keys o := by
  simp only [keys, List.mem_map] at h ⊢
  obtain ⟨x, hx, rfl⟩ := h
  rcases mem_insert o k v x hx with h | h
  · exact Or.inl (by rw [h])
  · exact Or.inr ⟨x, h, rfl⟩

theorem mem_keys_of_get (o : List (Str × α)) (k : Str) (v : α) (h : get o k = some v) : k ∈ keys o := by
  induction o with
  | nil => simp [get] at h
  | cons p t ih =>
    obtain ⟨k', v'⟩ := p
    simp only [get] at h
    split at h
    · rename_i e; simp [keys, e]
    · have := ih h
      simp only [keys, List.map_cons, List.mem_cons] at this ⊢
      exact Or.inr this

theorem get_of_mem_keys (o : List (Str × α)) (k : Str) (h : k ∈ keys o) : ∃ v, get o k = some v := by
  induction o with
  | nil => simp [keys] at h
  | cons p t ih =>
    obtain ⟨k', v'⟩ := p
    simp only [get]
    by_cases e : k' = k
    · exact ⟨v', by simp [e]⟩
    · simp only [e, if_false]
      apply ih
      simp only [keys, List.map_cons, List.mem_cons] at h ⊢
      rcases h with h | h
      · exact absurd h.symm e
      · exact h

theorem get_mem (o : List (Str × α)) (k : Str) (v : α) (h : get o k = some v) : (k, v) ∈ o := by
  induction o with
  | nil => simp [get] at h
  | cons p t ih =>
    obtain ⟨k', v'⟩ := p
    simp only [get] at h
    split at h
    · rename_i e; simp at h; simp [e, h]
    · simp [ih h]

/-! ### Sorted objects (`BTreeMap` invariant) -/

theorem sorted_cons (k : Str) (v : α) (t : List (Str × α)) :
    Sorted ((k, v) :: t) ↔ (∀ k' ∈ keys t, k < k') ∧ Sorted t := by
  simp [Sorted, keys, List.pairwise_cons]

theorem sorted_erase (o : List (Str × α)) (k : Str) (h : Sorted o) : Sorted (erase o k) := by
  unfold Sorted keys erase at *
  exact List.Pairwise.sublist (List.Sublist.map _ List.filter_sublist) h

theorem sorted_insert (o : List (Str × α)) (k : Str) (v : α) (h : Sorted o) : Sorted (insert o k v) := by
  induction o with
  | nil => simp [insert, Sorted, keys]
  | cons p t ih =>
    obtain ⟨k', v'⟩ := p
    rw [sorted_cons] at h
    simp only [insert]
    split
    · rename_i e; subst e
      rw [sorted_cons]; exact h
    · rename_i hne
      split
      · rename_i hlt
        rw [sorted_cons]
        refine ⟨?_, (sorted_cons _ _ _).mpr h⟩
        intro k'' hk''
        simp only [keys, List.map_cons, List.mem_cons] at hk''
        rcases hk'' with e | e
        · rw [e]; exact hlt
        · exact List.lt_trans hlt (h.1 k'' e)
      · rename_i hnlt
        have hgt : k' < k := Std.lt_of_le_of_ne (List.not_lt.mp hnlt) hne
        rw [sorted_cons]
        refine ⟨?_, ih h.2⟩
        intro k'' hk''
        rcases mem_keys_insert t k v k'' hk'' with e | e
        · rw [e]; exact hgt
        · exact h.1 k'' e

theorem get_none_of_lt (o : List (Str × α)) (k : Str) (h : ∀ k' ∈ keys o, k < k') : get o k = none := by
  induction o with
  | nil => rfl
  | cons p t ih =>
    obtain ⟨k', v'⟩ := p
    have h1 : k < k' := h k' (by simp [keys])
    have hne : k' ≠ k := fun e => by subst e; exact List.lt_irrefl _ h1
    simp only [get, hne, if_false]
    exact ih (fun k'' hk'' => h k'' (by simp only [keys, List.map_cons, List.mem_cons] at hk'' ⊢; exact Or.inr hk''))

theorem get_none_of_lt_head (k k₀ : Str) (v₀ : α) (t : List (Str × α)) (hs : Sorted ((k₀, v₀) :: t))
    (h : k < k₀) : get ((k₀, v₀) :: t) k = none := by
  apply get_none_of_lt
  intro k' hk'
  simp only [keys, List.map_cons, List.mem_cons] at hk'
  rcases hk' with e | e
  · rw [e]; exact h
  · exact List.lt_trans h (((sorted_cons _ _ _).mp hs).1 k' e)

/-- Two sorted objects with the same look-ups are the same list. -/
theorem sorted_ext : ∀ (a b : List (Str × α)), Sorted a → Sorted b → (∀ k, get a k = get b k) → a = b
  | [], [], _, _, _ => rfl
  | [], (k, v) :: t, _, _, h => by
    have := h k; simp [get] at this
  | (k, v) :: t, [], _, _, h => by
    have := h k; simp [get] at this
  | (k₁, v₁) :: t₁, (k₂, v₂) :: t₂, ha, hb, h => by
    have hk : k₁ = k₂ := by
      by_cases e : k₁ = k₂
      · exact e
      · exfalso
        by_cases hlt : k₁ < k₂
        · have h1 := h k₁
          rw [get_none_of_lt_head k₁ k₂ v₂ t₂ hb hlt] at h1
          simp [get] at h1
        · have hgt : k₂ < k₁ := Std.lt_of_le_of_ne (List.not_lt.mp hlt) (fun e' => e e'.symm)
          have h1 := h k₂
          rw [get_none_of_lt_head k₂ k₁ v₁ t₁ ha hgt] at h1
          simp [get] at h1
    subst hk
    have hv : v₁ = v₂ := by
      have := h k₁; simpa [get] using this
    subst hv
    have ha' := (sorted_cons _ _ _).mp ha
    have hb' := (sorted_cons _ _ _).mp hb
    have : t₁ = t₂ := by
      apply sorted_ext t₁ t₂ ha'.2 hb'.2
      intro k
      by_cases e : k₁ = k
      · subst e
        rw [get_none_of_lt t₁ k₁ ha'.1, get_none_of_lt t₂ k₁ hb'.1]
      · have := h k
        simpa [get, e] using this
    rw [this]

end Ruma.Obj
