/-
  Lemmas for the topological sort (C06/C07): the code's tie-break order is a strict total order and
  is the spec's comparison; `popMin` (the binary heap) returns the least element whatever the
  storage order; the heap-based model loop computes the spec's Kahn iteration.
-/
import RumaModel.Spec.StateResV2
namespace Ruma.StateRes
open Ruma Ruma.Spec.StateResV2

/-- A strict total order given as a Boolean function. -/
structure StrictTotal (lt : α → α → Bool) : Prop where
  irrefl : ∀ a, lt a a = false
  trans : ∀ a b c, lt a b = true → lt b c = true → lt a c = true
  total : ∀ a b, a ≠ b → lt a b = true ∨ lt b a = true

theorem StrictTotal.asymm {lt : α → α → Bool} (h : StrictTotal lt) {a b : α} (hab : lt a b = true) :
    lt b a = false := by
  cases hba : lt b a with
  | false => rfl
  | true => have := h.trans a b a hab hba; rw [h.irrefl] at this; cases this

theorem str_lt_irrefl (a : Str) : ¬ a < a := List.lt_irrefl a
theorem str_lt_trans {a b c : Str} : a < b → b < c → a < c := List.lt_trans
theorem str_lt_total (a b : Str) : a ≠ b → a < b ∨ b < a := by
  intro h; rcases Std.lt_trichotomy a b with h1 | h1 | h1
  · exact .inl h1
  · exact absurd h1 h
  · exact .inr h1

theorem tb_lt_eq_powerLt (a b : TB) : TB.lt a b = powerLt a b := by
  unfold TB.lt powerLt
  by_cases h1 : a.pl = b.pl <;> by_cases h2 : a.ts = b.ts <;> simp [h1, h2] <;> omega

theorem tb_lt_iff (a b : TB) : TB.lt a b = true ↔
    b.pl < a.pl ∨ (a.pl = b.pl ∧ (a.ts < b.ts ∨ (a.ts = b.ts ∧ a.id < b.id))) := by
  unfold TB.lt
  by_cases h1 : a.pl = b.pl <;> by_cases h2 : a.ts = b.ts <;> simp [h1, h2] <;> omega

theorem tbLt_strictTotal : StrictTotal TB.lt := by
  constructor
  · intro a
    cases h : TB.lt a a with
    | false => rfl
    | true =>
      rw [tb_lt_iff] at h
      rcases h with h | ⟨_, h | ⟨_, h⟩⟩
      · omega
      · omega
      · exact absurd h (str_lt_irrefl _)
  · intro a b c hab hbc
    rw [tb_lt_iff] at *
    rcases hab with h | ⟨e1, h | ⟨e2, h⟩⟩ <;> rcases hbc with h' | ⟨e1', h' | ⟨e2', h'⟩⟩
    all_goals first
      | (left; omega)
      | (right; refine ⟨by omega, ?_⟩; left; omega)
      | (right; refine ⟨by omega, ?_⟩; right; exact ⟨by omega, str_lt_trans h h'⟩)
  · intro a b hne
    rw [tb_lt_iff, tb_lt_iff]
    by_cases h1 : a.pl = b.pl
    · by_cases h2 : a.ts = b.ts
      · have : a.id ≠ b.id := by
          intro h; apply hne; cases a; cases b; simp_all
        rcases str_lt_total _ _ this with h | h
        · left; right; exact ⟨h1, .inr ⟨h2, h⟩⟩
        · right; right; exact ⟨h1.symm, .inr ⟨h2.symm, h⟩⟩
      · rcases Int.lt_or_gt_of_ne h2 with h | h
        · left; right; exact ⟨h1, .inl h⟩
        · right; right; exact ⟨h1.symm, .inl h⟩
    · rcases Int.lt_or_gt_of_ne h1 with h | h
      · right; left; exact h
      · left; left; exact h

/-! ### `popMin` -/

theorem popMin_eq_none {lt : α → α → Bool} {l : List α} : popMin lt l = none ↔ l = [] := by
  cases l with
  | nil => simp [popMin]
  | cons x xs =>
    simp only [popMin]
    cases popMin lt xs with
    | none => simp
    | some p => cases p; simp only []; split <;> simp

theorem popMin_perm {lt : α → α → Bool} : ∀ {l : List α} {m : α} {rest : List α},
    popMin lt l = some (m, rest) → l.Perm (m :: rest)
  | [], _, _, h => by simp [popMin] at h
  | x :: xs, m, rest, h => by
    simp only [popMin] at h
    cases hp : popMin lt xs with
    | none =>
      rw [hp] at h; simp at h
      have := popMin_eq_none.mp hp
      subst this; rw [← h.1, ← h.2]
    | some p =>
      obtain ⟨m', r'⟩ := p
      rw [hp] at h; simp only [] at h
      have ih := popMin_perm hp
      split at h
      · simp at h; rw [← h.1, ← h.2]
        exact (List.Perm.cons x ih).trans (List.Perm.swap _ _ _)
      · simp at h; rw [← h.1, ← h.2]

/-- `m` is the least element of `l`. -/
def IsMin (lt : α → α → Bool) (l : List α) (m : α) : Prop :=
  m ∈ l ∧ ∀ x ∈ l, x ≠ m → lt m x = true

theorem IsMin.unique {lt : α → α → Bool} (h : StrictTotal lt) {l : List α} {m m' : α}
    (h1 : IsMin lt l m) (h2 : IsMin lt l m') : m = m' := by
  apply Classical.byContradiction
  intro hne
  have a := h1.2 m' h2.1 (Ne.symm hne)
  have b := h2.2 m h1.1 hne
  rw [h.asymm a] at b; cases b

theorem IsMin.of_perm {lt : α → α → Bool} {l l' : List α} {m : α} (hp : l.Perm l')
    (h1 : IsMin lt l m) : IsMin lt l' m :=
  ⟨hp.mem_iff.mp h1.1, fun x hx => h1.2 x (hp.mem_iff.mpr hx)⟩

theorem popMin_isMin {lt : α → α → Bool} (h : StrictTotal lt) : ∀ {l : List α} {m : α} {rest : List α},
    popMin lt l = some (m, rest) → IsMin lt l m
  | [], _, _, hp => by simp [popMin] at hp
  | x :: xs, m, rest, hp => by
    simp only [popMin] at hp
    cases hq : popMin lt xs with
    | none =>
      rw [hq] at hp; simp at hp
      have := popMin_eq_none.mp hq
      subst this
      rw [← hp.1]
      exact ⟨by simp, by intro y hy; simp at hy; intro hne; exact absurd hy hne⟩
    | some p =>
      obtain ⟨m', r'⟩ := p
      rw [hq] at hp; simp only [] at hp
      have ih := popMin_isMin h hq
      split at hp
      next hlt =>
        simp at hp; rw [← hp.1]
        refine ⟨List.mem_cons_of_mem _ ih.1, ?_⟩
        intro y hy hne
        rcases List.mem_cons.mp hy with rfl | hy
        · exact hlt
        · exact ih.2 y hy hne
      next hlt =>
        simp at hp; rw [← hp.1]
        refine ⟨by simp, ?_⟩
        intro y hy hne
        rcases List.mem_cons.mp hy with rfl | hy
        · exact absurd rfl hne
        · by_cases hym : y = m'
          · subst hym
            rcases h.total x y (Ne.symm hne) with h' | h'
            · exact h'
            · exact absurd h' hlt
          · have h1 := ih.2 y hy hym
            by_cases hxm : x = m'
            · subst hxm; exact h1
            · rcases h.total x m' hxm with h' | h'
              · exact h.trans _ _ _ h' h1
              · exact absurd h' hlt

/-- **extractMin_perm**: on a duplicate-free heap, the popped element and (up to order) the
remaining heap do not depend on the order in which the heap's elements are stored. -/
theorem popMin_perm_invariant {lt : α → α → Bool} (h : StrictTotal lt) {l l' : List α}
    (hp : l.Perm l') {m : α} {rest : List α} (hpop : popMin lt l = some (m, rest)) :
    ∃ rest', popMin lt l' = some (m, rest') ∧ rest.Perm rest' := by
  cases hq : popMin lt l' with
  | none =>
    have := popMin_eq_none.mp hq
    subst this
    have h1 := hp.length_eq
    have h2 := (popMin_perm hpop).length_eq
    simp only [List.length_nil, List.length_cons] at h1 h2; omega
  | some p =>
    obtain ⟨m', r'⟩ := p
    have e : m = m' := (IsMin.of_perm hp (popMin_isMin h hpop)).unique h (popMin_isMin h hq)
    subst e
    refine ⟨r', rfl, ?_⟩
    have := ((popMin_perm hpop).symm.trans hp).trans (popMin_perm hq)
    exact List.Perm.cons_inv this

theorem least_eq_popMin (lt : α → α → Bool) (l : List α) :
    least lt l = (popMin lt l).map (·.1) := by
  induction l with
  | nil => rfl
  | cons x xs ih =>
    simp only [least, popMin, ih]
    cases popMin lt xs with
    | none => rfl
    | some p => cases p; simp only [Option.map]; split <;> rfl

/-! ### the heap loop computes the spec's Kahn iteration -/

theorem nodup_subset_length_le [DecidableEq α] : ∀ {l₁ l₂ : List α}, l₁.Nodup → (∀ x ∈ l₁, x ∈ l₂) →
    l₁.length ≤ l₂.length
  | [], _, _, _ => by simp
  | a :: t, l₂, hn, hs => by
    have ha : a ∈ l₂ := hs a (by simp)
    have hn' := List.nodup_cons.mp hn
    have : t.length ≤ (l₂.erase a).length := by
      apply nodup_subset_length_le hn'.2
      intro x hx
      have hxa : x ≠ a := by intro h; subst h; exact hn'.1 hx
      exact (List.mem_erase_of_ne hxa).mpr (hs x (by simp [hx]))
    rw [List.length_erase_of_mem ha] at this
    have : 0 < l₂.length := List.length_pos_of_mem ha
    simp only [List.length_cons]; omega

/-- `outdegree_map` after the nodes of `done` were emitted. -/
def odOf (g : Graph) (done : List Id) : Graph :=
  g.map (fun ne => (ne.1, ne.2.filter (fun e => !done.contains e)))

/-- Drop `c` from the out-sets of the nodes in `ps`. -/
def upd (c : Id) (ps : List Id) (od : Graph) : Graph :=
  od.map (fun ne => if ne.1 ∈ ps then (ne.1, ne.2.filter (· ≠ c)) else ne)

def emptyAfter (od : Graph) (p c : Id) : Bool :=
  match od.edges? p with
  | some es => (es.filter (· ≠ c)).isEmpty
  | none => false

theorem nodes_upd (c : Id) (ps : List Id) (od : Graph) : (upd c ps od).nodes = od.nodes := by
  unfold upd Graph.nodes
  rw [List.map_map]
  apply List.map_congr_left
  intro a _; simp only [Function.comp]; split <;> rfl

theorem removeEdge_eq : ∀ (od : Graph) (p c : Id), od.nodes.Nodup → p ∈ od.nodes →
    removeEdge od p c = some (upd c [p] od, emptyAfter od p c)
  | [], p, c, _, hp => by simp [Graph.nodes] at hp
  | (q, es) :: t, p, c, hn, hp => by
    simp only [Graph.nodes, List.map_cons, List.nodup_cons] at hn
    by_cases hq : q = p
    · subst hq
      have : upd c [q] t = t := by
        unfold upd
        conv => rhs; rw [← List.map_id t]
        apply List.map_congr_left
        intro a ha
        have : a.1 ≠ q := by
          intro h; apply hn.1; rw [← h]; exact List.mem_map_of_mem ha
        simp [this]
      simp only [removeEdge, if_true, emptyAfter, Graph.edges?]
      simp only [upd, List.map_cons, List.mem_singleton, if_true] at this ⊢
      rw [this]
    · have hp' : p ∈ Graph.nodes t := by
        simp only [Graph.nodes, List.map_cons, List.mem_cons] at hp
        rcases hp with h | h
        · exact absurd h.symm hq
        · exact h
      have ih := removeEdge_eq t p c hn.2 hp'
      simp only [removeEdge, hq, if_false, ih, emptyAfter, Graph.edges?]
      simp [upd, hq]

theorem edges?_upd_of_not_mem (c : Id) (ps : List Id) (q : Id) (hq : q ∉ ps) : ∀ (od : Graph),
    (upd c ps od).edges? q = od.edges? q
  | [] => rfl
  | (n, es) :: t => by
    have ih := edges?_upd_of_not_mem c ps q hq t
    unfold upd at ih ⊢
    simp only [List.map_cons]
    by_cases hn : n ∈ ps
    · have : n ≠ q := by intro h; subst h; exact hq hn
      simp only [hn, if_true, Graph.edges?, this, if_false, ih]
    · simp only [hn, if_false, Graph.edges?, ih]

theorem upd_upd (c p : Id) (ps : List Id) (od : Graph) :
    upd c ps (upd c [p] od) = upd c (p :: ps) od := by
  unfold upd
  rw [List.map_map]
  apply List.map_congr_left
  intro a _
  simp only [Function.comp, List.mem_singleton, List.mem_cons]
  by_cases h1 : a.1 = p <;> by_cases h2 : a.1 ∈ ps <;> simp [h1, h2, List.filter_filter]

/-- The comparison key of node `n` under a total key function. -/
def Kf (kf : Id → Int × Int) (n : Id) : TB := ⟨(kf n).1, (kf n).2, n⟩

theorem keyTB_total {key : Id → Option (Int × Int)} {kf : Id → Int × Int} {n : Id}
    (hk : key n = some (kf n)) : keyTB key n = .ok (Kf kf n) := by
  simp [keyTB, hk, Kf]

theorem relax_eq {key : Id → Option (Int × Int)} {kf : Id → Int × Int}
    (c : Id) : ∀ (ps : List Id) (od : Graph) (h : List TB),
    (∀ p ∈ ps, key p = some (kf p)) → od.nodes.Nodup → ps.Nodup → (∀ p ∈ ps, p ∈ od.nodes) →
    relax key c ps od h =
      .ok (upd c ps od, ((ps.filter (fun p => emptyAfter od p c)).map (Kf kf)).reverse ++ h)
  | [], od, h, _, _, _, _ => by
    simp only [relax, List.filter_nil, List.map_nil, List.reverse_nil, List.nil_append]
    congr 2
    unfold upd
    conv => lhs; rw [← List.map_id od]
    apply List.map_congr_left
    intro a _; simp
  | p :: ps, od, h, hk, hn, hps, hsub => by
    have hk' : ∀ q ∈ ps, key q = some (kf q) := fun q hq => hk q (by simp [hq])
    have hps' := List.nodup_cons.mp hps
    have hp : p ∈ od.nodes := hsub p (by simp)
    have hn1 : (upd c [p] od).nodes.Nodup := by rw [nodes_upd]; exact hn
    have hsub1 : ∀ q ∈ ps, q ∈ (upd c [p] od).nodes := by
      intro q hq; rw [nodes_upd]; exact hsub q (by simp [hq])
    have hfil : ps.filter (fun q => emptyAfter (upd c [p] od) q c) =
        ps.filter (fun q => emptyAfter od q c) := by
      apply List.filter_congr
      intro q hq
      have : q ∉ [p] := by
        simp only [List.mem_singleton]; intro h; subst h; exact hps'.1 hq
      simp only [emptyAfter, edges?_upd_of_not_mem c [p] q this od]
    simp only [relax, removeEdge_eq od p c hn hp]
    by_cases he : emptyAfter od p c = true
    · simp only [he, if_true, keyTB_total (hk p (by simp))]
      rw [relax_eq c ps _ _ hk' hn1 hps'.2 hsub1, upd_upd, hfil]
      simp [List.filter_cons, he]
    · simp only [he]
      rw [relax_eq c ps _ _ hk' hn1 hps'.2 hsub1, upd_upd, hfil]
      simp [List.filter_cons, he]

theorem mem_nodes_iff {g : Graph} {n : Id} : n ∈ g.nodes ↔ ∃ es, (n, es) ∈ g := by
  simp [Graph.nodes]

theorem edges_unique : ∀ {g : Graph}, g.nodes.Nodup → ∀ {n es es'}, (n, es) ∈ g → (n, es') ∈ g → es = es'
  | [], _, _, _, _, h, _ => by simp at h
  | (q, e) :: t, hn, n, es, es', h1, h2 => by
    simp only [Graph.nodes, List.map_cons, List.nodup_cons] at hn
    rcases List.mem_cons.mp h1 with h1 | h1 <;> rcases List.mem_cons.mp h2 with h2 | h2
    · simp_all
    · exfalso; apply hn.1; cases h1; exact List.mem_map_of_mem (f := Prod.fst) h2
    · exfalso; apply hn.1; cases h2; exact List.mem_map_of_mem (f := Prod.fst) h1
    · exact edges_unique hn.2 h1 h2

theorem mem_candidates {g : Graph} {done : List Id} {n : Id} :
    n ∈ candidates g done ↔ ∃ es, (n, es) ∈ g ∧ n ∉ done ∧ ∀ e ∈ es, e ∈ done := by
  simp only [candidates, List.mem_map, List.mem_filter, Bool.and_eq_true, Bool.not_eq_true',
    List.all_eq_true, List.contains_iff_mem, Prod.exists]
  constructor
  · rintro ⟨a, es, ⟨h1, h2, h3⟩, rfl⟩
    refine ⟨es, h1, ?_, h3⟩
    intro h; simp [h] at h2
  · rintro ⟨es, h1, h2, h3⟩
    exact ⟨n, es, ⟨h1, by simpa using h2, h3⟩, rfl⟩

theorem candidates_nodup {g : Graph} (hg : g.nodes.Nodup) (done : List Id) :
    (candidates g done).Nodup := by
  unfold candidates
  exact List.Nodup.sublist (List.Sublist.map _ List.filter_sublist) hg

theorem Kf_injective (kf : Id → Int × Int) {a b : Id} (h : Kf kf a = Kf kf b) : a = b := by
  simp [Kf] at h; exact h.2.2

theorem nodup_map_Kf (kf : Id → Int × Int) {l : List Id} (h : l.Nodup) : (l.map (Kf kf)).Nodup := by
  induction l with
  | nil => simp
  | cons a t ih =>
    rw [List.nodup_cons] at h
    simp only [List.map_cons, List.nodup_cons, List.mem_map, not_exists, not_and]
    refine ⟨?_, ih h.2⟩
    intro x hx he
    have := Kf_injective kf he
    subst this; exact h.1 hx

theorem mem_parents {g : Graph} {c n : Id} :
    n ∈ (g.filter (fun p => p.2.contains c)).map (·.1) ↔ ∃ es, (n, es) ∈ g ∧ c ∈ es := by
  simp only [List.mem_map, List.mem_filter, List.contains_iff_mem, Prod.exists]
  constructor
  · rintro ⟨a, es, ⟨h1, h2⟩, rfl⟩; exact ⟨es, h1, h2⟩
  · rintro ⟨es, h1, h2⟩; exact ⟨n, es, ⟨h1, h2⟩, rfl⟩

theorem parentsOf_of_mem {g : Graph} {c : Id} (hc : c ∈ g.nodes) :
    parentsOf g c = some ((g.filter (fun p => p.2.contains c)).map (·.1)) := by
  unfold parentsOf
  have : g.any (fun p => decide (p.1 = c) || p.2.contains c) = true := by
    rw [List.any_eq_true]
    obtain ⟨es, h⟩ := mem_nodes_iff.mp hc
    exact ⟨(c, es), h, by simp⟩
  rw [if_pos this]

theorem edges?_odOf (done : List Id) (n : Id) : ∀ (g : Graph),
    (odOf g done).edges? n = (g.edges? n).map (fun es => es.filter (fun e => !done.contains e))
  | [] => rfl
  | (q, es) :: t => by
    have ih := edges?_odOf done n t
    unfold odOf at ih ⊢
    simp only [List.map_cons, Graph.edges?]
    by_cases h : q = n
    · simp [h]
    · simp only [h, if_false]; exact ih

theorem edges?_of_mem : ∀ {g : Graph}, g.nodes.Nodup → ∀ {n es}, (n, es) ∈ g → g.edges? n = some es
  | [], _, _, _, h => by simp at h
  | (q, e) :: t, hn, n, es, h => by
    simp only [Graph.nodes, List.map_cons, List.nodup_cons] at hn
    rcases List.mem_cons.mp h with h | h
    · cases h; simp [Graph.edges?]
    · have : q ≠ n := by
        intro hq; subst hq; exact hn.1 (List.mem_map_of_mem (f := Prod.fst) h)
      simp [Graph.edges?, this, edges?_of_mem hn.2 h]

theorem upd_odOf {g : Graph} (hg : g.nodes.Nodup) (done : List Id) (c : Id) (ps : List Id)
    (hps : ∀ n, n ∈ ps ↔ ∃ es, (n, es) ∈ g ∧ c ∈ es) :
    upd c ps (odOf g done) = odOf g (done ++ [c]) := by
  unfold upd odOf
  rw [List.map_map]
  apply List.map_congr_left
  intro a ha
  simp only [Function.comp]
  by_cases h : a.1 ∈ ps
  · simp only [h, if_true, List.filter_filter]
    congr 1
    apply List.filter_congr
    intro e _
    by_cases h1 : e = c <;> by_cases h2 : e ∈ done <;> simp [h1, h2]
  · simp only [h, if_false]
    congr 1
    apply List.filter_congr
    intro e he
    have hce : c ∉ a.2 := by
      intro hc; apply h; rw [hps]; exact ⟨a.2, ha, hc⟩
    have : e ≠ c := by intro h'; subst h'; exact hce he
    simp [List.contains_iff_mem, List.mem_append, this]


/-- The loop invariant of `kahnLoop` after the nodes of `done` were emitted. -/
structure KInv (g : Graph) (kf : Id → Int × Int) (done : List Id) (h : List TB) : Prop where
  nodup : done.Nodup
  sub : ∀ n ∈ done, n ∈ g.nodes
  closed : ∀ n es, (n, es) ∈ g → n ∈ done → ∀ e ∈ es, e ∈ done
  heap : h.Perm ((candidates g done).map (Kf kf))

theorem powerLt_eq : powerLt = TB.lt := by
  funext a b; exact (tb_lt_eq_powerLt a b).symm

theorem emptyAfter_odOf {g : Graph} (hg : g.nodes.Nodup) {done : List Id} {n c : Id} {es : List Id}
    (h : (n, es) ∈ g) :
    emptyAfter (odOf g done) n c = true ↔ ∀ e ∈ es, e ∉ done → e = c := by
  simp only [emptyAfter, edges?_odOf, edges?_of_mem hg h, Option.map, List.isEmpty_iff,
    List.filter_filter, List.filter_eq_nil_iff]
  constructor
  · intro hh e he hd
    have := hh e he
    simp [List.contains_iff_mem, hd] at this
    exact this
  · intro hh e he
    by_cases hd : e ∈ done
    · simp [List.contains_iff_mem, hd]
    · simp [hh e he hd]

theorem kinv_step {g : Graph} (hg : g.nodes.Nodup) {kf : Id → Int × Int} {done : List Id}
    {h h' : List TB} {m : TB} (inv : KInv g kf done h) (hpop : popMin TB.lt h = some (m, h'))
    {ps : List Id} (hps : ps.Perm ((g.filter (fun p => p.2.contains m.id)).map (·.1))) :
    m = Kf kf m.id ∧ m.id ∈ candidates g done ∧
    KInv g kf (done ++ [m.id])
      (((ps.filter (fun p => emptyAfter (odOf g done) p m.id)).map (Kf kf)).reverse ++ h') := by
  have hperm := popMin_perm hpop
  have hm : m ∈ (candidates g done).map (Kf kf) :=
    inv.heap.mem_iff.mp (hperm.mem_iff.mpr (by simp))
  obtain ⟨c, hc, hcm⟩ := List.mem_map.mp hm
  have hid : m.id = c := by rw [← hcm]; rfl
  subst hid
  refine ⟨hcm.symm, hc, ?_⟩
  obtain ⟨ces, hcg, hcd, hcall⟩ := mem_candidates.mp hc
  have hpsmem : ∀ n, n ∈ ps ↔ ∃ es, (n, es) ∈ g ∧ m.id ∈ es := by
    intro n; rw [hps.mem_iff]; exact mem_parents
  have hcands := candidates_nodup hg done
  have hhn : h.Nodup := (inv.heap.symm.nodup (nodup_map_Kf kf hcands))
  have hmh' : (m :: h').Nodup := hperm.nodup hhn
  have hparents_nodup : ps.Nodup := by
    apply hps.symm.nodup
    exact List.Nodup.sublist (List.Sublist.map _ List.filter_sublist) hg
  -- membership in the new candidate list
  have hnew : ∀ n, n ∈ candidates g (done ++ [m.id]) ↔
      (n ∈ ps ∧ emptyAfter (odOf g done) n m.id = true) ∨ (n ∈ candidates g done ∧ n ≠ m.id) := by
    intro n
    rw [mem_candidates, mem_candidates, hpsmem]
    constructor
    · rintro ⟨es, hn, hnd, hall⟩
      simp only [List.mem_append, List.mem_singleton, not_or] at hnd hall
      by_cases hce : m.id ∈ es
      · left
        refine ⟨⟨es, hn, hce⟩, (emptyAfter_odOf hg hn).mpr ?_⟩
        intro e he hd
        rcases hall e he with h1 | h1
        · exact absurd h1 hd
        · exact h1
      · right
        refine ⟨⟨es, hn, hnd.1, ?_⟩, hnd.2⟩
        intro e he
        rcases hall e he with h1 | h1
        · exact h1
        · subst h1; exact absurd he hce
    · rintro (⟨⟨es, hn, hce⟩, hemp⟩ | ⟨⟨es, hn, hnd, hall⟩, hne⟩)
      · have hemp' := (emptyAfter_odOf hg hn).mp hemp
        refine ⟨es, hn, ?_, ?_⟩
        · simp only [List.mem_append, List.mem_singleton, not_or]
          constructor
          · intro hd; exact hcd (inv.closed n es hn hd _ hce)
          · intro he; subst he
            have := edges_unique hg hn hcg
            subst this
            exact hcd (hcall _ hce)
        · intro e he
          simp only [List.mem_append, List.mem_singleton]
          by_cases hd : e ∈ done
          · exact .inl hd
          · exact .inr (hemp' e he hd)
      · refine ⟨es, hn, ?_, ?_⟩
        · simp only [List.mem_append, List.mem_singleton, not_or]; exact ⟨hnd, hne⟩
        · intro e he; simp only [List.mem_append]; exact .inl (hall e he)
  constructor
  · rw [List.nodup_append]
    refine ⟨inv.nodup, by simp, ?_⟩
    intro a ha b hb
    simp only [List.mem_singleton] at hb
    subst hb; intro h; subst h; exact hcd ha
  · intro n hn
    rcases List.mem_append.mp hn with h1 | h1
    · exact inv.sub n h1
    · simp only [List.mem_singleton] at h1; subst h1
      exact mem_nodes_iff.mpr ⟨ces, hcg⟩
  · intro n es hn hd e he
    rcases List.mem_append.mp hd with h1 | h1
    · exact List.mem_append.mpr (.inl (inv.closed n es hn h1 e he))
    · simp only [List.mem_singleton] at h1; subst h1
      have := edges_unique hg hn hcg
      subst this
      exact List.mem_append.mpr (.inl (hcall e he))
  · -- heap
    rw [List.perm_ext_iff_of_nodup]
    · intro t
      simp only [List.mem_append, List.mem_reverse, List.mem_map, List.mem_filter]
      constructor
      · rintro (⟨p, ⟨hp1, hp2⟩, rfl⟩ | ht)
        · exact ⟨p, (hnew p).mpr (.inl ⟨hp1, hp2⟩), rfl⟩
        · have htm : t ∈ h := hperm.mem_iff.mpr (List.mem_cons_of_mem _ ht)
          obtain ⟨n, hn, rfl⟩ := List.mem_map.mp (inv.heap.mem_iff.mp htm)
          refine ⟨n, (hnew n).mpr (.inr ⟨hn, ?_⟩), rfl⟩
          intro he
          have : Kf kf n = m := by rw [he]; exact hcm
          rw [this] at ht
          exact (List.nodup_cons.mp hmh').1 ht
      · rintro ⟨n, hn, rfl⟩
        rcases (hnew n).mp hn with ⟨h1, h2⟩ | ⟨h1, h2⟩
        · exact .inl ⟨n, ⟨h1, h2⟩, rfl⟩
        · right
          have : Kf kf n ∈ m :: h' :=
            hperm.mem_iff.mp (inv.heap.mem_iff.mpr (List.mem_map_of_mem h1))
          rcases List.mem_cons.mp this with h3 | h3
          · exfalso; apply h2
            rw [← hcm] at h3; exact Kf_injective kf h3
          · exact h3
    · rw [List.nodup_append]
      refine ⟨?_, (List.nodup_cons.mp hmh').2, ?_⟩
      · exact (List.reverse_perm _).symm.nodup
          (nodup_map_Kf kf (List.Nodup.sublist List.filter_sublist hparents_nodup))
      · intro a ha b hb hab
        subst hab
        simp only [List.mem_reverse, List.mem_map, List.mem_filter] at ha
        obtain ⟨p, ⟨hp1, _⟩, rfl⟩ := ha
        have : Kf kf p ∈ h := hperm.mem_iff.mpr (List.mem_cons_of_mem _ hb)
        obtain ⟨n, hn, hnp⟩ := List.mem_map.mp (inv.heap.mem_iff.mp this)
        have := Kf_injective kf hnp
        subst this
        obtain ⟨es, hng, hce⟩ := (hpsmem n).mp hp1
        obtain ⟨es', hng', _, hall⟩ := mem_candidates.mp hn
        have := edges_unique hg hng hng'
        subst this
        exact hcd (hall _ hce)
    · exact nodup_map_Kf kf (candidates_nodup hg _)


theorem length_nodes (g : Graph) : g.nodes.length = g.length := by simp [Graph.nodes]

theorem kahnLoop_eq {g : Graph} (hg : g.nodes.Nodup) {psh : Id → List Id → List Id}
    (hpsh : ∀ n l, (psh n l).Perm l) {key : Id → Option (Int × Int)} {kf : Id → Int × Int}
    (hk : ∀ n ∈ g.nodes, key n = some (kf n)) :
    ∀ (fuel : Nat) (done : List Id) (h : List TB), KInv g kf done h →
      done.length + fuel = g.length →
      kahnLoop psh key g fuel (odOf g done) h done.reverse = .ok (kahn g (Kf kf) fuel done) := by
  intro fuel
  induction fuel with
  | zero =>
    intro done h inv hlen
    unfold kahnLoop
    cases hpop : popMin TB.lt h with
    | none => simp [kahn]
    | some p =>
      obtain ⟨m, h'⟩ := p
      exfalso
      have hm : m ∈ (candidates g done).map (Kf kf) :=
        inv.heap.mem_iff.mp ((popMin_perm hpop).mem_iff.mpr (by simp))
      obtain ⟨c, hc, _⟩ := List.mem_map.mp hm
      obtain ⟨ces, hcg, hcd, _⟩ := mem_candidates.mp hc
      have hn : (c :: done).Nodup := List.nodup_cons.mpr ⟨hcd, inv.nodup⟩
      have := nodup_subset_length_le hn (l₂ := g.nodes) (by
        intro x hx
        rcases List.mem_cons.mp hx with rfl | hx
        · exact mem_nodes_iff.mpr ⟨ces, hcg⟩
        · exact inv.sub x hx)
      rw [length_nodes] at this
      simp only [List.length_cons] at this
      omega
  | succ fuel ih =>
    intro done h inv hlen
    unfold kahnLoop
    cases hpop : popMin TB.lt h with
    | none =>
      have hh : h = [] := popMin_eq_none.mp hpop
      subst hh
      have : (candidates g done).map (Kf kf) = [] := List.Perm.eq_nil (inv.heap.symm)
      simp [kahn, this, least]
    | some p =>
      obtain ⟨m, h'⟩ := p
      -- the spec picks the same element
      have hleast : least powerLt ((candidates g done).map (Kf kf)) = some m := by
        rw [least_eq_popMin, powerLt_eq]
        obtain ⟨r', hr', _⟩ := popMin_perm_invariant tbLt_strictTotal inv.heap hpop
        rw [hr']; rfl
      have hmem : m.id ∈ g.nodes := by
        have hm : m ∈ (candidates g done).map (Kf kf) :=
          inv.heap.mem_iff.mp ((popMin_perm hpop).mem_iff.mpr (by simp))
        obtain ⟨c, hc, hcm⟩ := List.mem_map.mp hm
        obtain ⟨ces, hcg, _, _⟩ := mem_candidates.mp hc
        rw [← hcm]; exact mem_nodes_iff.mpr ⟨ces, hcg⟩
      have hps := hpsh m.id ((g.filter (fun p => p.2.contains m.id)).map (·.1))
      obtain ⟨hmk, hmc, inv'⟩ := kinv_step hg inv hpop hps
      have hpsn : (psh m.id ((g.filter (fun p => p.2.contains m.id)).map (·.1))).Nodup :=
        hps.symm.nodup (List.Nodup.sublist (List.Sublist.map _ List.filter_sublist) hg)
      have hodn : (odOf g done).nodes = g.nodes := by
        simp [odOf, Graph.nodes, List.map_map, Function.comp]
      have hsub : ∀ p ∈ psh m.id ((g.filter (fun p => p.2.contains m.id)).map (·.1)),
          p ∈ (odOf g done).nodes := by
        intro p hp
        rw [hodn]
        obtain ⟨es, hpg, _⟩ := mem_parents.mp (hps.mem_iff.mp hp)
        exact mem_nodes_iff.mpr ⟨es, hpg⟩
      simp only [parentsOf_of_mem hmem]
      rw [relax_eq m.id _ _ _ (fun p hp => hk p (by rw [← hodn]; exact hsub p hp))
        (by rw [hodn]; exact hg) hpsn hsub]
      simp only []
      rw [upd_odOf hg done m.id _ (fun n => by rw [hps.mem_iff]; exact mem_parents)]
      have := ih (done ++ [m.id]) _ inv' (by simp only [List.length_append, List.length_singleton]; omega)
      simp only [List.reverse_append, List.reverse_singleton, List.singleton_append] at this
      rw [this]
      simp [kahn, hleast]

theorem odOf_nil (g : Graph) : odOf g [] = g := by
  unfold odOf
  conv => rhs; rw [← List.map_id g]
  apply List.map_congr_left
  intro a _
  have : a.2.filter (fun _ => true) = a.2 := List.filter_eq_self.mpr (fun _ _ => rfl)
  simp [this]

theorem initHeap_eq {key : Id → Option (Int × Int)} {kf : Id → Int × Int}
    : ∀ (g : Graph), (∀ n ∈ g.nodes, key n = some (kf n)) →
    initHeap key g = .ok ((candidates g []).map (Kf kf))
  | [], _ => rfl
  | (n, es) :: t, hk => by
    have ih := initHeap_eq t (fun x hx => hk x (by simp [Graph.nodes] at hx ⊢; exact .inr hx))
    have hkn : key n = some (kf n) := hk n (by simp [Graph.nodes])
    simp only [initHeap, keyTB_total hkn, ih]
    cases es with
    | nil => simp [candidates, List.filter_cons]
    | cons e es' => simp [candidates, List.filter_cons]

/-- The heap-based model computes the spec's Kahn iteration, for every graph with distinct node
keys, every total key function and every iteration order of the `reverse_graph` sets; in
particular neither `expect` fires and the loop bound suffices. -/
theorem lexTopoSort_eq_lexTopo {g : Graph} (hg : g.nodes.Nodup) {psh : Id → List Id → List Id}
    (hpsh : ∀ n l, (psh n l).Perm l) {key : Id → Option (Int × Int)} {kf : Id → Int × Int}
    (hk : ∀ n ∈ g.nodes, key n = some (kf n)) :
    lexTopoSort psh g key = .ok (lexTopo g (Kf kf)) := by
  unfold lexTopoSort lexTopo
  rw [initHeap_eq g hk]
  simp only []
  have inv : KInv g kf [] ((candidates g []).map (Kf kf)) :=
    ⟨List.nodup_nil, by simp, by intro n es _ h; simp at h, List.Perm.refl _⟩
  have := kahnLoop_eq hg hpsh hk g.length [] _ inv (by simp)
  rw [odOf_nil] at this
  simpa using this

/-! ### the spec iteration: runs, DAGs, permutations -/

theorem powerLt_strictTotal : StrictTotal powerLt := by rw [powerLt_eq]; exact tbLt_strictTotal

theorem least_some {lt : α → α → Bool} (h : StrictTotal lt) {l : List α} {m : α}
    (hl : least lt l = some m) : IsMin lt l m := by
  rw [least_eq_popMin] at hl
  cases hp : popMin lt l with
  | none => rw [hp] at hl; cases hl
  | some p =>
    obtain ⟨m', r⟩ := p
    rw [hp] at hl; simp at hl; subst hl
    exact popMin_isMin h hp

theorem least_none {lt : α → α → Bool} {l : List α} (hl : least lt l = none) : l = [] := by
  rw [least_eq_popMin] at hl
  cases hp : popMin lt l with
  | none => exact popMin_eq_none.mp hp
  | some p => rw [hp] at hl; cases hl

/-- `kahn` extends `done` by a run of Kahn's algorithm, and stops early only when no candidate is left. -/
theorem kahn_run (g : Graph) (kf : Id → Int × Int) : ∀ (fuel : Nat) (done : List Id),
    ∃ rest, kahn g (Kf kf) fuel done = done ++ rest ∧ KahnRun g (Kf kf) done rest ∧
      rest.length ≤ fuel ∧ (rest.length < fuel → candidates g (done ++ rest) = [])
  | 0, done => ⟨[], by simp [kahn], .nil _, by simp, by simp⟩
  | fuel + 1, done => by
    unfold kahn
    cases hl : least powerLt ((candidates g done).map (Kf kf)) with
    | none =>
      have := least_none hl
      refine ⟨[], by simp, .nil _, by simp, ?_⟩
      intro _; simpa using this
    | some m =>
      have hmin := least_some powerLt_strictTotal hl
      obtain ⟨c, hc, hcm⟩ := List.mem_map.mp hmin.1
      have hid : m.id = c := by rw [← hcm]; rfl
      obtain ⟨rest, h1, h2, h3, h4⟩ := kahn_run g kf fuel (done ++ [m.id])
      refine ⟨m.id :: rest, by simp [h1], ?_, by simp; omega, ?_⟩
      · rw [hid] at h2 ⊢
        refine .cons hc ?_ h2
        intro c' hc' hne
        rw [hcm]
        apply hmin.2 _ (List.mem_map_of_mem hc')
        intro he; rw [← hcm] at he; exact hne (Kf_injective kf he)
      · intro hlt
        have : rest.length < fuel := by simp at hlt; omega
        have := h4 this
        simpa using this

theorem kahnRun_nodup {g : Graph} {K : Id → TB} : ∀ {done rest : List Id}, KahnRun g K done rest →
    done.Nodup → (done ++ rest).Nodup ∧ ∀ x ∈ rest, x ∈ g.nodes := by
  intro done rest h
  induction h with
  | nil done => intro hd; simp [hd]
  | @cons done c rest hc _ _ ih =>
    intro hd
    obtain ⟨es, hcg, hcd, _⟩ := mem_candidates.mp hc
    have : (done ++ [c]).Nodup := by
      rw [List.nodup_append]
      refine ⟨hd, by simp, ?_⟩
      intro a ha b hb; simp at hb; subst hb; intro h; subst h; exact hcd ha
    obtain ⟨h1, h2⟩ := ih this
    constructor
    · simpa using h1
    · intro x hx
      rcases List.mem_cons.mp hx with rfl | hx
      · exact mem_nodes_iff.mpr ⟨es, hcg⟩
      · exact h2 x hx

/-- A finite DAG whose edges stay inside the node set. -/
structure IsDag (g : Graph) : Prop where
  nodup : g.nodes.Nodup
  closed : ∀ n es, (n, es) ∈ g → ∀ e ∈ es, e ∈ g.nodes
  acyclic : ∃ rank : Id → Nat, ∀ n es, (n, es) ∈ g → ∀ e ∈ es, rank e < rank n

theorem exists_candidate {g : Graph} (closed : ∀ n es, (n, es) ∈ g → ∀ e ∈ es, e ∈ g.nodes)
    (rank : Id → Nat) (hr : ∀ n es, (n, es) ∈ g → ∀ e ∈ es, rank e < rank n) (done : List Id) :
    ∀ (k : Nat) (n : Id), rank n ≤ k → n ∈ g.nodes → n ∉ done → candidates g done ≠ [] := by
  intro k
  induction k with
  | zero =>
    intro n hk hn hd
    obtain ⟨es, hg⟩ := mem_nodes_iff.mp hn
    have : n ∈ candidates g done := by
      refine mem_candidates.mpr ⟨es, hg, hd, ?_⟩
      intro e he; have := hr n es hg e he; omega
    intro h; rw [h] at this; cases this
  | succ k ih =>
    intro n hk hn hd
    obtain ⟨es, hg⟩ := mem_nodes_iff.mp hn
    by_cases hall : ∀ e ∈ es, e ∈ done
    · have : n ∈ candidates g done := mem_candidates.mpr ⟨es, hg, hd, hall⟩
      intro h; rw [h] at this; cases this
    · have : ∃ e, e ∈ es ∧ e ∉ done := by
        apply Classical.byContradiction
        intro h; apply hall; intro e he
        apply Classical.byContradiction
        intro hd'; exact h ⟨e, he, hd'⟩
      obtain ⟨e, he, hed⟩ := this
      have := hr n es hg e he
      exact ih e (by omega) (closed n es hg e he) hed

theorem perm_of_nodup_subset_length [DecidableEq α] {l₁ l₂ : List α} (h1 : l₁.Nodup) (h2 : l₂.Nodup)
    (hs : ∀ x ∈ l₁, x ∈ l₂) (hl : l₂.length ≤ l₁.length) : l₁.Perm l₂ := by
  rw [List.perm_ext_iff_of_nodup h1 h2]
  intro a
  constructor
  · exact hs a
  · intro ha
    apply Classical.byContradiction
    intro hna
    have := nodup_subset_length_le (l₁ := a :: l₁) (l₂ := l₂) (List.nodup_cons.mpr ⟨hna, h1⟩) (by
      intro x hx
      rcases List.mem_cons.mp hx with rfl | hx
      · exact ha
      · exact hs x hx)
    simp at this; omega

/-- On a DAG with edges inside the node set the spec iteration is the reverse topological power
ordering. -/
theorem lexTopo_isLexTopoOrder {g : Graph} (hd : IsDag g) (kf : Id → Int × Int) :
    IsLexTopoOrder g (Kf kf) (lexTopo g (Kf kf)) := by
  obtain ⟨rest, h1, h2, h3, h4⟩ := kahn_run g kf g.length []
  unfold lexTopo
  rw [h1]
  simp only [List.nil_append] at h4 ⊢
  obtain ⟨hn, hsub⟩ := kahnRun_nodup h2 List.nodup_nil
  simp only [List.nil_append] at hn
  refine ⟨?_, h2⟩
  by_cases hlen : rest.length < g.length
  · have hc := h4 hlen
    rw [List.perm_ext_iff_of_nodup hn hd.nodup]
    intro a
    constructor
    · exact hsub a
    · intro ha
      apply Classical.byContradiction
      intro hna
      obtain ⟨rank, hr⟩ := hd.acyclic
      exact exists_candidate hd.closed rank hr rest (rank a) a (Nat.le_refl _) ha hna hc
  · apply perm_of_nodup_subset_length hn hd.nodup hsub
    rw [length_nodes]; omega

/-- For an arbitrary graph (cycles, self loops, edges to unknown nodes): the iteration emits
distinct nodes of the graph in a run of Kahn's algorithm and stops only when no candidate is left;
nodes on or behind a cycle or a dangling edge are never candidates and are dropped. -/
theorem lexTopo_general {g : Graph} (hg : g.nodes.Nodup) (kf : Id → Int × Int) :
    (lexTopo g (Kf kf)).Nodup ∧ (∀ n ∈ lexTopo g (Kf kf), n ∈ g.nodes) ∧
    KahnRun g (Kf kf) [] (lexTopo g (Kf kf)) ∧ candidates g (lexTopo g (Kf kf)) = [] := by
  obtain ⟨rest, h1, h2, h3, h4⟩ := kahn_run g kf g.length []
  unfold lexTopo
  rw [h1]
  simp only [List.nil_append] at h4 ⊢
  obtain ⟨hn, hsub⟩ := kahnRun_nodup h2 List.nodup_nil
  simp only [List.nil_append] at hn
  refine ⟨hn, hsub, h2, ?_⟩
  by_cases hlen : rest.length < g.length
  · exact h4 hlen
  · have hp := perm_of_nodup_subset_length hn hg hsub (by rw [length_nodes]; omega)
    cases hc : candidates g rest with
    | nil => rfl
    | cons c t =>
      have : c ∈ candidates g rest := by rw [hc]; simp
      obtain ⟨es, hcg, hcd, _⟩ := mem_candidates.mp this
      exact absurd (hp.mem_iff.mpr (mem_nodes_iff.mpr ⟨es, hcg⟩)) hcd

theorem least_perm {lt : α → α → Bool} (h : StrictTotal lt) {l l' : List α} (hp : l.Perm l') :
    least lt l = least lt l' := by
  rw [least_eq_popMin, least_eq_popMin]
  cases hq : popMin lt l with
  | none =>
    have := popMin_eq_none.mp hq
    subst this
    have : l' = [] := List.Perm.eq_nil hp.symm
    subst this; rfl
  | some p =>
    obtain ⟨m, r⟩ := p
    obtain ⟨r', hr', _⟩ := popMin_perm_invariant h hp hq
    rw [hr']; rfl

/-- `g'` is `g` with the node list and every adjacency list permuted (another iteration order of
the same `HashMap<Id, HashSet<Id>>`). -/
def GraphPerm (g g' : Graph) : Prop :=
  ∃ sh : Id → List Id → List Id, (∀ n l, (sh n l).Perm l) ∧
    g'.Perm (g.map (fun ne => (ne.1, sh ne.1 ne.2)))

theorem GraphPerm.nodes {g g' : Graph} (h : GraphPerm g g') : g'.nodes.Perm g.nodes := by
  obtain ⟨sh, _, hp⟩ := h
  have := hp.map (·.1)
  rw [List.map_map] at this
  exact this

theorem GraphPerm.mem {g g' : Graph} (h : GraphPerm g g') {n : Id} {es' : List Id} :
    (n, es') ∈ g' → ∃ es, (n, es) ∈ g ∧ es'.Perm es := by
  obtain ⟨sh, hsh, hp⟩ := h
  intro hm
  have := hp.mem_iff.mp hm
  obtain ⟨a, ha, he⟩ := List.mem_map.mp this
  simp only [Prod.mk.injEq] at he
  obtain ⟨h1, h2⟩ := he
  subst h1
  exact ⟨a.2, ha, by rw [← h2]; exact hsh _ _⟩

theorem GraphPerm.mem' {g g' : Graph} (h : GraphPerm g g') {n : Id} {es : List Id} :
    (n, es) ∈ g → ∃ es', (n, es') ∈ g' ∧ es'.Perm es := by
  obtain ⟨sh, hsh, hp⟩ := h
  intro hm
  exact ⟨sh n es, hp.mem_iff.mpr (List.mem_map.mpr ⟨(n, es), hm, rfl⟩), hsh _ _⟩

theorem candidates_perm {g g' : Graph} (hg : g.nodes.Nodup) (h : GraphPerm g g') (done : List Id) :
    (candidates g' done).Perm (candidates g done) := by
  have hg' : g'.nodes.Nodup := h.nodes.symm.nodup hg
  rw [List.perm_ext_iff_of_nodup (candidates_nodup hg' _) (candidates_nodup hg _)]
  intro n
  rw [mem_candidates, mem_candidates]
  constructor
  · rintro ⟨es', h1, h2, h3⟩
    obtain ⟨es, h4, h5⟩ := h.mem h1
    exact ⟨es, h4, h2, fun e he => h3 e (h5.mem_iff.mpr he)⟩
  · rintro ⟨es, h1, h2, h3⟩
    obtain ⟨es', h4, h5⟩ := h.mem' h1
    exact ⟨es', h4, h2, fun e he => h3 e (h5.mem_iff.mp he)⟩

theorem kahn_perm {g g' : Graph} (hg : g.nodes.Nodup) (h : GraphPerm g g') (K : Id → TB) :
    ∀ (fuel : Nat) (done : List Id), kahn g' K fuel done = kahn g K fuel done
  | 0, _ => rfl
  | fuel + 1, done => by
    unfold kahn
    rw [least_perm powerLt_strictTotal ((candidates_perm hg h done).map K)]
    cases least powerLt ((candidates g done).map K) with
    | none => rfl
    | some m => exact kahn_perm hg h K fuel _

/-- The spec iteration does not depend on the order of the node list or of any adjacency list. -/
theorem lexTopo_perm {g g' : Graph} (hg : g.nodes.Nodup) (h : GraphPerm g g') (K : Id → TB) :
    lexTopo g' K = lexTopo g K := by
  unfold lexTopo
  have : g'.length = g.length := by
    rw [← length_nodes, ← length_nodes]; exact h.nodes.length_eq
  rw [this]
  exact kahn_perm hg h K _ _


/-- A decidable certificate for `IsDag` (used for examples). -/
theorem isDag_of_check (g : Graph) (rank : Id → Nat) (h1 : g.nodes.Nodup)
    (h2 : g.all (fun ne => ne.2.all (fun e => decide (e ∈ g.nodes) && decide (rank e < rank ne.1))) = true) :
    IsDag g := by
  rw [List.all_eq_true] at h2
  refine ⟨h1, ?_, rank, ?_⟩
  · intro n es hm e he
    have := h2 (n, es) hm
    rw [List.all_eq_true] at this
    have := this e he
    simp at this; exact this.1
  · intro n es hm e he
    have := h2 (n, es) hm
    rw [List.all_eq_true] at this
    have := this e he
    simp at this; exact this.2

end Ruma.StateRes
