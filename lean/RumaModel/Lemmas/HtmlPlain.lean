/-
  The promises of the standard configurations (`strict()`, `compat()`, with and without
  `remove_reply_fallback()`) evaluated at the Matrix spec's lists: they are the spec's tables.
  Used by C14 (`plain_*_spec`) and C15.
-/
import RumaModel.Lemmas.HtmlTree
import RumaModel.Spec.HtmlAllow
namespace Ruma.Lemmas.Html
open Ruma Ruma.Html Ruma.Spec.HtmlPolicy
open Spec.HtmlAllow

/-- In strict and compat mode, with or without reply-fallback removal, the allowed elements are
the spec's list — minus `mx-reply` under reply-fallback removal. -/
theorem plain_elemOk_spec (m : Mode) (rrf : Bool) (n : Str) :
    elemOk lists (plain (some m) rrf) n = (elemAllowed n && !(rrf && n == replyName)) := by
  simp only [elemOk, elemRemoved, elemListed, plain, optContains, isOverride, Cfg.useStrict, lists,
    elemAllowed, Option.isSome_some, Option.map_none, Option.isSome_none, Bool.false_or, Bool.not_true,
    Bool.not_false, Bool.true_and, Bool.and_comm]

/-- … the allowed attributes are the spec's rows. -/
theorem plain_attrOk_spec (m : Mode) (rrf : Bool) (el a : Str) :
    attrOk lists (plain (some m) rrf) el a = attrAllowed el a := by
  simp only [attrOk, plain, isOverride, Cfg.useStrict, lists, attrAllowed, row, Option.bind_none,
    Option.isSome_none, Option.isSome_some, Bool.or_true, Bool.not_true, Bool.false_or,
    Bool.not_false, Bool.true_and, if_true, optContains]
  cases mapGet Spec.HtmlAllow.attrs el <;> simp

/-- … the value restrictions are the spec's scheme lists (`matrix:` only in compat mode). -/
theorem plain_schemeList_spec (m : Mode) (rrf : Bool) (el a : Str) :
    Spec.HtmlPolicy.schemeList lists (plain (some m) rrf) el a = Spec.HtmlAllow.schemeList m el a := by
  cases m <;>
  simp [Spec.HtmlPolicy.schemeList, plain, cell, modeCounts, lists, Spec.HtmlAllow.schemeList]

/-- … the value restrictions are the spec's scheme lists (`matrix:` only in compat mode). -/
theorem plain_valueOk_spec (m : Mode) (rrf : Bool) (el a v : Str) :
    valueOk lists (plain (some m) rrf) el a v = valueAllowed m el a v := by
  unfold valueOk valueAllowed
  rw [plain_schemeList_spec]
  have : denied (plain (some m) rrf) el a v = false := by simp [denied, plain]
  rw [this]
  cases Spec.HtmlAllow.schemeList m el a with
  | none => simp
  | some l => simp only [Bool.not_false, Bool.true_and]; rfl

/-- … the allowed classes are `language-*` on `code`. -/
theorem plain_classOk_spec (m : Mode) (rrf : Bool) (el cl : Str) :
    classOk lists (plain (some m) rrf) el cl = classAllowed el cl := by
  simp [classOk, plain, modeCounts, lists, classAllowed, row, Spec.HtmlGlob.matchesAny]

/-- … the maximum depth is 100. -/
theorem plain_maxDepth_spec (m : Mode) (rrf : Bool) :
    maxDepthValue lists (plain (some m) rrf) = some 100 := rfl

/-- … and `class` carries no URI restriction, so `clean_schemes_allowed` loses nothing there. -/
theorem plain_class_unrestricted (m : Mode) (rrf : Bool) (el v : Str) :
    valueOk lists (plain (some m) rrf) el className v = true := by
  rw [plain_valueOk_spec]
  have h1 : ∀ el, (mapGet schemesStrict el).bind (mapGet · className) = none := by
    intro el
    by_cases ha : el = bs "a"
    · subst ha; decide
    · by_cases hi : el = bs "img"
      · subst hi; decide
      · have : mapGet schemesStrict el = none := by
          simp [schemesStrict, mapGet, Ne.symm ha, Ne.symm hi]
        simp [this]
  have h2 : ∀ el, (mapGet schemesCompat el).bind (mapGet · className) = none := by
    intro el
    by_cases ha : el = bs "a"
    · subst ha; decide
    · have : mapGet schemesCompat el = none := by simp [schemesCompat, mapGet, Ne.symm ha]
      simp [this]
  simp only [valueAllowed, Spec.HtmlAllow.schemeList, h1, h2]
  cases m <;> simp

end Ruma.Lemmas.Html
