/-
  Concrete objects for the non-vacuity examples and the negation witness of C03
  (a toy signature scheme — C02's `toy`, lawful but not secure — and a toy digest).
-/
import RumaModel.Lemmas.EventSign
import RumaModel.Props.C02
namespace Ruma.EventSign.Ex
open Ruma Ruma.Sign Ruma.EventSign Ruma.Spec.Redaction

def ext : Ids.Ext := ⟨fun _ => false, fun _ => false, fun _ => true⟩

/-- A two-byte toy digest (length and byte sum), standing in for SHA-256 in computed examples. -/
def sha (m : List Nat) : List Nat := [m.length % 256, m.sum % 256]

theorem sha_bytes : ∀ m, ∀ b ∈ sha m, b < 256 := by
  intro m b hb
  simp only [sha, List.mem_cons, List.not_mem_nil, or_false] at hb
  rcases hb with rfl | rfl <;> exact Nat.mod_lt _ (by decide)

def kp : KeyPair := ⟨[1, 2, 3], bs "1"⟩

/-- A message event sent by `@a:s`, to be signed by server `s`. -/
def message : Obj :=
  [(bs "content", .obj [(bs "body", .str (bs "hi"))]), (bs "sender", .str (bs "@a:s")),
   (bs "type", .str (bs "m.room.message")), (bs "unsigned", .obj [(bs "age", .int 1)])]

def keysS : KeyMap := [(bs "s", [(bs "ed25519:1", Props.C02.toy.pub [1, 2, 3])])]

/-- An invite created from a third-party invite: sender `@a:a`, signed only by the invited user's
server `b` — which is all the specification demands of it. -/
def thirdPartyInvite : Obj :=
  [(bs "content", .obj [(bs "membership", .str (bs "invite")),
      (bs "third_party_invite", .obj [(bs "display_name", .str (bs "n")),
        (bs "signed", .obj [(bs "mxid", .str (bs "@c:b")), (bs "token", .str (bs "t"))])])]),
   (bs "sender", .str (bs "@a:a")), (bs "state_key", .str (bs "@c:b")),
   (bs "type", .str (bs "m.room.member"))]

def keysB : KeyMap := [(bs "b", [(bs "ed25519:1", Props.C02.toy.pub [1, 2, 3])])]

/-- The message event hashed and signed by server `s` under the version 10 rules (toy scheme). -/
def signedByS : Obj :=
  (hashAndSignEvent Props.C02.toy sha (bs "s") kp message (rulesOf 10)).2

/-- The message event hashed and signed by another server `t` (which the version does not demand). -/
def signedByT : Obj :=
  (hashAndSignEvent Props.C02.toy sha (bs "t") kp message (rulesOf 10)).2

/-- Keys of both `s` and `t`. -/
def keysST : KeyMap := keysS ++ [(bs "t", [(bs "ed25519:1", Props.C02.toy.pub [1, 2, 3])])]

end Ruma.EventSign.Ex
