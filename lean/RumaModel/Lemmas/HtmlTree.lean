/-
  The structural (mutual) recursions over trees for C14/C15, and the step from
  `node_action = None` to the policy predicates of `Spec/HtmlPolicy.lean`.
-/
import RumaModel.Lemmas.Html
namespace Ruma.Lemmas.Html
open Ruma Ruma.Html Ruma.Spec.HtmlPolicy


mutual
theorem cleanNode_all (L : Lists) (c : Cfg) (p : Nat → Str → List Attr → Prop)
    (hp : ∀ dOut dIn n as, dOut ≤ dIn → nodeAction L c n as dIn = .none →
      p dOut n (cleanAttrs L c n as)) :
    ∀ (node : Node) (dOut dIn : Nat), dOut ≤ dIn → AllElemsL p dOut (cleanNode L c dIn node)
  | .text s, _, _, _ => by simp [cleanNode, AllElemsL, AllElems]
  | .other, _, _, _ => by simp [cleanNode, AllElemsL]
  | .elem n as cs, dOut, dIn, h => by
    simp only [cleanNode]
    split
    · simp [AllElemsL]
    · exact cleanList_all L c p hp cs dOut (dIn + 1) (by omega)
    · rename_i hact
      simp only [AllElemsL, AllElems, and_true]
      exact ⟨hp _ _ _ _ h hact, cleanList_all L c p hp cs (dOut + 1) (dIn + 1) (by omega)⟩
theorem cleanList_all (L : Lists) (c : Cfg) (p : Nat → Str → List Attr → Prop)
    (hp : ∀ dOut dIn n as, dOut ≤ dIn → nodeAction L c n as dIn = .none →
      p dOut n (cleanAttrs L c n as)) :
    ∀ (l : List Node) (dOut dIn : Nat), dOut ≤ dIn → AllElemsL p dOut (cleanList L c dIn l)
  | [], _, _, _ => by simp [cleanList, AllElemsL]
  | n :: t, dOut, dIn, h => by
    simp only [cleanList, allElemsL_append]
    exact ⟨cleanNode_all L c p hp n dOut dIn h, cleanList_all L c p hp t dOut dIn h⟩
end

mutual
theorem cleanNode_noOther (L : Lists) (c : Cfg) : ∀ (node : Node) (d : Nat), NoOtherL (cleanNode L c d node)
  | .text s, _ => by simp [cleanNode, NoOtherL, NoOther]
  | .other, _ => by simp [cleanNode, NoOtherL]
  | .elem n as cs, d => by
    simp only [cleanNode]
    split
    · simp [NoOtherL]
    · exact cleanList_noOther L c cs (d + 1)
    · simp only [NoOtherL, NoOther, and_true]; exact cleanList_noOther L c cs (d + 1)
theorem cleanList_noOther (L : Lists) (c : Cfg) : ∀ (l : List Node) (d : Nat), NoOtherL (cleanList L c d l)
  | [], _ => by simp [cleanList, NoOtherL]
  | n :: t, d => by
    simp only [cleanList, noOtherL_append]
    exact ⟨cleanNode_noOther L c n d, cleanList_noOther L c t d⟩
end

theorem removeCheck_eq (L : Lists) (c : Cfg) (n : Str) (d : Nat) :
    removeCheck L c n d = (elemRemoved c n || depthExceeded L c d) := rfl

mutual
theorem cleanNode_text (L : Lists) (c : Cfg) : ∀ (node : Node) (d : Nat),
    textOfL (cleanNode L c d node) = keptText L c d node
  | .text s, _ => by simp [cleanNode, textOfL, textOf, keptText]
  | .other, _ => by simp [cleanNode, textOfL, keptText]
  | .elem n as cs, d => by
    simp only [cleanNode, keptText, renamed_eq_model, tooDeep_eq_model, ← removeCheck_eq]
    by_cases hr : removeCheck L c (replaceNameOf L c n) d = true
    · have : nodeAction L c (replaceNameOf L c n) (replaceAttrsOf L c n as) d = .remove :=
        (nodeAction_remove_iff ..).2 hr
      simp [this, textOfL, hr]
    · have hne : nodeAction L c (replaceNameOf L c n) (replaceAttrsOf L c n as) d ≠ .remove := by
        intro h; rw [nodeAction_remove_iff] at h; exact hr h
      simp only [hr]
      split
      · rename_i h; exact absurd h hne
      · exact cleanList_text L c cs (d + 1)
      · simp only [textOfL, textOf, List.append_nil]; exact cleanList_text L c cs (d + 1)
theorem cleanList_text (L : Lists) (c : Cfg) : ∀ (l : List Node) (d : Nat),
    textOfL (cleanList L c d l) = keptTextL L c d l
  | [], _ => by simp [cleanList, textOfL, keptTextL]
  | n :: t, d => by
    simp only [cleanList, textOfL_append, keptTextL]
    rw [cleanNode_text L c n d, cleanList_text L c t d]
end

mutual
theorem depth_of_allElems (m : Nat) : ∀ (node : Node) (d : Nat),
    AllElems (fun d _ _ => d < m) d node → d ≤ m → d + depthOf node ≤ m
  | .text _, d, _, h => by simpa [depthOf] using h
  | .other, d, _, h => by simpa [depthOf] using h
  | .elem n as cs, d, h, _ => by
    simp only [AllElems] at h
    have := depth_of_allElemsL m cs (d + 1) h.2 (by omega)
    simp only [depthOf]; omega
theorem depth_of_allElemsL (m : Nat) : ∀ (l : List Node) (d : Nat),
    AllElemsL (fun d _ _ => d < m) d l → d ≤ m → d + depthOfL l ≤ m
  | [], d, _, h => by simpa [depthOfL] using h
  | n :: t, d, h, hd => by
    simp only [AllElemsL] at h
    have h1 := depth_of_allElems m n d h.1 hd
    have h2 := depth_of_allElemsL m t d h.2 hd
    simp only [depthOfL]; omega
end

/-! ### from `node_action = None` to the policy predicates -/

theorem elemOk_of_none (L : Lists) (c : Cfg) (n : Str) (as : List Attr) (d : Nat)
    (h : nodeAction L c n as d = .none) : elemOk L c n = true := by
  rw [nodeAction_none_iff] at h
  obtain ⟨h1, h2, h3, _⟩ := h
  rw [removeCheck_eq] at h1
  simp only [Bool.or_eq_false_iff] at h1
  simp [elemOk, h1.1, h2, elemListed]
  simpa [allowCheck] using h3

theorem depth_of_none (L : Lists) (c : Cfg) (n : Str) (as : List Attr) (d m : Nat)
    (h : nodeAction L c n as d = .none) (hm : maxDepthValue L c = some m) : d < m := by
  rw [nodeAction_none_iff] at h
  obtain ⟨h1, _⟩ := h
  rw [removeCheck_eq] at h1
  simp only [Bool.or_eq_false_iff] at h1
  have := h1.2
  simp only [depthExceeded, hm] at this
  simpa using this

theorem attrGood_iff (L : Lists) (c : Cfg) (n : Str) (a : Attr) :
    AttrGood (attrCtx L c n) a ↔
      attrOkA L c n a ∧
      (a.name = className → ∀ cl ∈ splitWs a.value, classOk L c n cl = true) := by
  unfold AttrGood attrOkA attrOk attrListed attrCtx Attr.isHtml
  have hcl : ∀ cl, classPass (attrCtx L c n) cl = classOk L c n cl :=
    fun cl => (classOk_eq_model L c n cl).symm
  simp only [attrCtx] at hcl
  simp only [hcl]
  cases h1 : optContains (c.removeAttrs.bind (mapGet · n)) a.name <;>
  cases h2 : (c.allowAttrs.isSome || c.useStrict) <;> simp [and_comm]


end Ruma.Lemmas.Html
