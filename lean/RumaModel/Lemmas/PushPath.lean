/-
  C12 — property paths are unambiguous: `parsePath` recovers the key path from its path string,
  so `pathString` is injective on non-empty key paths.
-/
import RumaModel.Spec.Push
namespace Ruma.Push
open Ruma.Spec.Push (escape pathString)

/-- Split a property path at its unescaped dots and remove the escaping backslashes.
`cur` is the key read so far, `esc` says that the previous character was an escaping backslash. -/
def parseGo (cur : Text) (esc : Bool) : Text → List Text
  | [] => [cur]
  | c :: t =>
    if esc then parseGo (cur ++ [c]) false t
    else if c = '\\' then parseGo cur true t
    else if c = '.' then cur :: parseGo [] false t
    else parseGo (cur ++ [c]) false t

def parsePath (s : Text) : List Text := parseGo [] false s

theorem parseGo_escape (k : Text) : ∀ (cur rest : Text),
    parseGo cur false (escape k ++ rest) = parseGo (cur ++ k) false rest := by
  induction k with
  | nil => intro cur rest; simp [escape]
  | cons x k ih =>
    intro cur rest
    have hcons : escape (x :: k) = (if x = '.' ∨ x = '\\' then ['\\', x] else [x]) ++ escape k := by
      simp [escape]
    rw [hcons]
    by_cases hx : x = '.' ∨ x = '\\'
    · simp only [hx, if_true, List.cons_append, List.nil_append]
      have : parseGo cur false ('\\' :: x :: (escape k ++ rest)) = parseGo (cur ++ [x]) false (escape k ++ rest) := by
        simp [parseGo]
      rw [this, ih]; simp
    · simp only [hx, if_false, List.cons_append, List.nil_append]
      have h1 : x ≠ '\\' := fun h => hx (Or.inr h)
      have h2 : x ≠ '.' := fun h => hx (Or.inl h)
      have : parseGo cur false (x :: (escape k ++ rest)) = parseGo (cur ++ [x]) false (escape k ++ rest) := by
        simp [parseGo, h1, h2]
      rw [this, ih]; simp

theorem parseGo_pathString (ks : List Text) (k : Text) : ∀ cur,
    parseGo cur false (pathString (k :: ks)) = (cur ++ k) :: ks := by
  induction ks generalizing k with
  | nil =>
    intro cur
    have := parseGo_escape k cur []
    simpa [pathString, parseGo] using this
  | cons k2 ks ih =>
    intro cur
    simp only [pathString]
    rw [parseGo_escape]
    have : parseGo (cur ++ k) false ('.' :: pathString (k2 :: ks)) =
        (cur ++ k) :: parseGo [] false (pathString (k2 :: ks)) := by
      simp [parseGo]
    rw [this, ih]; simp

/-- Parsing the property path of a non-empty key path gives the key path back. -/
theorem parsePath_pathString (ks : List Text) (h : ks ≠ []) : parsePath (pathString ks) = ks := by
  obtain ⟨k, t, rfl⟩ := List.exists_cons_of_ne_nil h
  simpa [parsePath] using parseGo_pathString t k []

theorem pathString_injective {ks ks' : List Text} (h : ks ≠ []) (h' : ks' ≠ [])
    (heq : pathString ks = pathString ks') : ks = ks' := by
  rw [← parsePath_pathString ks h, ← parsePath_pathString ks' h', heq]

end Ruma.Push
