/-
  The F4 witness room (DESIGN §7 F4, `corpus/C07/f4-mainline-depth.req`, `sr::f4_witness(6)` of the
  harness): two conflicting topics, `$t1` sent before the room's only power-levels event (ts 50) and
  `$t2` citing it (ts 20). Evaluated facts about it, used by the refutations in `Props/C07.lean`.
-/
import RumaModel.Lemmas.StateResAuth
import RumaModel.Lemmas.StateResEval
namespace Ruma.StateRes.F4Witness
open Ruma Ruma.StateRes Ruma.Spec.StateResV2

def alice : Str := bs "@alice:s0"
def room : Str := bs "!r:s0"
def tTopic : Str := bs "m.room.topic"

def c : Event :=
  { eventId := bs "$c", roomId := room, sender := alice, type := tCreate, stateKey := some [],
    content := [(bs "creator", .str alice)], prevEvents := [], authEvents := [], originServerTs := 1 }
def ma : Event :=
  { eventId := bs "$ma", roomId := room, sender := alice, type := tMember, stateKey := some alice,
    content := [(bs "membership", .str (bs "join"))], prevEvents := [bs "$c"], authEvents := [bs "$c"],
    originServerTs := 2 }
def t1 : Event :=
  { eventId := bs "$t1", roomId := room, sender := alice, type := tTopic, stateKey := some [],
    content := [(bs "topic", .str (bs "before"))], prevEvents := [bs "$ma"],
    authEvents := [bs "$c", bs "$ma"], originServerTs := 50 }
def pl : Event :=
  { eventId := bs "$pl", roomId := room, sender := alice, type := tPowerLevels, stateKey := some [],
    content := [(bs "users", .obj [(alice, .int 100)])], prevEvents := [bs "$ma"],
    authEvents := [bs "$c", bs "$ma"], originServerTs := 10 }
def t2 : Event :=
  { eventId := bs "$t2", roomId := room, sender := alice, type := tTopic, stateKey := some [],
    content := [(bs "topic", .str (bs "after"))], prevEvents := [bs "$pl"],
    authEvents := [bs "$c", bs "$ma", bs "$pl"], originServerTs := 20 }

def store : List Event := [c, ma, t1, pl, t2]

def base : StateMap := [((tCreate, []), bs "$c"), ((tMember, alice), bs "$ma")]
def s1 : StateMap := base ++ [((tTopic, []), bs "$t1"), ((tPowerLevels, []), bs "$pl")]
def s2 : StateMap := base ++ [((tPowerLevels, []), bs "$pl"), ((tTopic, []), bs "$t2")]
def sets : List StateMap := [s1, s2]
def chains : List (List Id) :=
  [[bs "$c", bs "$ma", bs "$pl", bs "$t1"], [bs "$c", bs "$ma", bs "$pl", bs "$t2"]]

/-- Room version 6 rules (the corpus line `c07.resolve 6 …`). -/
def params : Params := realParams AuthRules.v6

def topicOf (r : Except Fail StateMap) : Option Id :=
  match r with
  | .ok m => AL.get m (tTopic, [])
  | .error _ => none

def isOk (r : Except Fail StateMap) : Bool :=
  match r with
  | .ok _ => true
  | .error _ => false

theorem topicOf_resEq {a b : Except Fail StateMap} (h : ResEq a b) : topicOf a = topicOf b := by
  cases a with
  | error e => cases b with
    | error e' => rfl
    | ok m => exact h.elim
  | ok m => cases b with
    | error e' => exact h.elim
    | ok m' => exact h (tTopic, [])

/-- The identity iteration orders are iteration orders. -/
theorem shuffleId_valid : Shuffle.id.Valid := fun l => List.Perm.refl l

theorem ordersId_valid : Orders.id.Valid :=
  ⟨shuffleId_valid, fun _ => shuffleId_valid, shuffleId_valid, shuffleId_valid, shuffleId_valid,
   shuffleId_valid, fun _ => shuffleId_valid, fun _ => shuffleId_valid, shuffleId_valid⟩

theorem fullConf_eq : fullConflictedSet (fetchOf store) sets chains = [bs "$t1", bs "$t2"] := by
  decide +kernel

def rank (id : Id) : Nat :=
  if id = bs "$c" then 0 else if id = bs "$ma" then 1 else if id = bs "$pl" then 2
  else if id = bs "$t1" then 2 else 3

theorem closed : ∀ id e, fetchOf store id = some e → ∀ a ∈ e.authEvents, (fetchOf store a).isSome = true := by
  intro id e h
  have hall : ∀ e ∈ store, ∀ a ∈ e.authEvents, (fetchOf store a).isSome = true := by decide +kernel
  exact hall e (fetchOf_mem h)

theorem acyclic : ∃ rank : Id → Nat, ∀ id e, fetchOf store id = some e → ∀ a ∈ e.authEvents, rank a < rank id := by
  refine ⟨rank, ?_⟩
  intro id e h
  have hall : ∀ e ∈ store, ∀ a ∈ e.authEvents, rank a < rank e.eventId := by decide +kernel
  rw [← fetchOf_ident store id e h]
  exact hall e (fetchOf_mem h)

theorem storeOk : StoreOk (fetchOf store) (store.map (·.eventId)) :=
  ⟨fetchOf_ident store, closed, acyclic, fetchOf_finite store⟩

theorem setsWF : SetsWF sets := by
  show ∀ s ∈ sets, (AL.keys s).Nodup
  decide +kernel

theorem roomWF : RoomWF store sets chains c := by
  intro n hn
  rw [fullConf_eq] at hn
  simp only [List.mem_cons, List.not_mem_nil, or_false] at hn
  rcases hn with rfl | rfl
  · exact ⟨t1, by rfl, ⟨by decide +kernel, by decide +kernel⟩, by rfl⟩
  · exact ⟨t2, by rfl, ⟨by decide +kernel, by decide +kernel⟩, by rfl⟩

/-- The witness room satisfies every room hypothesis of the refinement theorems. -/
theorem roomOk : RoomOk store sets chains c where
  setsWF := setsWF
  chainsNodup := by decide +kernel
  room := roomWF
  notCreate := by
    intro n hn e he
    rw [fullConf_eq] at hn
    simp only [List.mem_cons, List.not_mem_nil, or_false] at hn
    rcases hn with rfl | rfl
    · have : fetchOf store (bs "$t1") = some t1 := by rfl
      rw [this] at he; cases he; decide +kernel
    · have : fetchOf store (bs "$t2") = some t2 := by rfl
      rw [this] at he; cases he; decide +kernel
  closed := closed
  acyclic := acyclic
  known := by
    intro s hs k v hg
    have hall : ∀ s ∈ sets, ∀ kv ∈ s, (fetchOf store kv.2).isSome = true := by decide +kernel
    exact hall s hs (k, v) (AL.get_some_mem hg)

theorem specWF : SpecWF params store sets chains c :=
  { roomOk with authLocal := authLocal_realParams _ (by decide) }

/-- The specification resolves the topic to `$t2` (sent under the power-levels event) … -/
theorem spec_topic : topicOf (resolveV2 params store sets chains) = some (bs "$t2") := by
  unfold resolveV2; rw [resolveWith_eq_E]; decide +kernel

/-- … the specification with the F4 deviation resolves it to `$t1`. -/
theorem dev_topic : topicOf (resolveV2F4 params store sets chains) = some (bs "$t1") := by
  unfold resolveV2F4; rw [resolveWith_eq_E]; decide +kernel

theorem order_spec :
    mainlineOrder false (fetchOf store) 6 (some pl) [bs "$t1", bs "$t2"] = [bs "$t1", bs "$t2"] := by
  rw [mainlineOrder_eq_E]; decide +kernel

theorem order_dev :
    mainlineOrder true (fetchOf store) 6 (some pl) [bs "$t1", bs "$t2"] = [bs "$t2", bs "$t1"] := by
  rw [mainlineOrder_eq_E]; decide +kernel

end Ruma.StateRes.F4Witness
