import RumaModel.Model.HttpHeaders
namespace Ruma.HttpHeaders

theorem splitQuote_ne_nil (s : List Nat) : splitQuote s ≠ [] := by
  induction s with
  | nil => simp [splitQuote]
  | cons b t ih =>
    simp only [splitQuote]
    split
    · simp
    · split <;> simp

theorem utf8Step_pos (s : List Nat) (h : s ≠ []) : 1 ≤ (utf8Step s).2 ∧ (utf8Step s).2 ≤ s.length := by
  cases s with
  | nil => exact absurd rfl h
  | cons b0 t =>
    simp only [utf8Step]
    repeat' split
    all_goals (simp only [List.length_cons]; omega)

/-- More fuel than the input length changes nothing: `utf8Lossy` is not truncated by its fuel. -/
theorem utf8LossyAux_fuel (s : List Nat) (k : Nat) :
    utf8LossyAux (s.length + k) s = utf8LossyAux s.length s := by
  generalize hn : s.length = n
  induction n using Nat.strongRecOn generalizing s k with
  | _ n ih =>
    cases s with
    | nil => subst hn; cases k <;> simp [utf8LossyAux]
    | cons b t =>
      subst hn
      have hpos := utf8Step_pos (b :: t) (by simp)
      simp only [List.length_cons] at hpos ⊢
      have e1 : t.length + 1 + k = (t.length + k) + 1 := by omega
      rw [e1]
      simp only [utf8LossyAux]
      have hn0 : (if (utf8Step (b :: t)).2 = 0 then 1 else (utf8Step (b :: t)).2) = (utf8Step (b :: t)).2 := by
        split <;> omega
      rw [hn0]
      have hdl : (List.drop (utf8Step (b :: t)).2 (b :: t)).length < t.length + 1 := by
        simp only [List.length_drop, List.length_cons]; omega
      have hdl' : (List.drop (utf8Step (b :: t)).2 (b :: t)).length ≤ t.length := by omega
      have key : ∀ m, (List.drop (utf8Step (b :: t)).2 (b :: t)).length ≤ m →
          utf8LossyAux m (List.drop (utf8Step (b :: t)).2 (b :: t))
            = utf8LossyAux (List.drop (utf8Step (b :: t)).2 (b :: t)).length
                (List.drop (utf8Step (b :: t)).2 (b :: t)) := by
        intro m hm
        obtain ⟨j, rfl⟩ := Nat.exists_eq_add_of_le hm
        exact ih _ hdl _ j rfl
      rw [key (t.length + k) (by omega), key t.length hdl']

theorem unescapeAux_length_le (esc : Bool) (s : List Nat) : (unescapeAux esc s).length ≤ s.length := by
  induction s generalizing esc with
  | nil => simp [unescapeAux]
  | cons b t ih =>
    simp only [unescapeAux]
    split
    · have := ih (b = 92 && !esc); simp; omega
    · have := ih (b = 92 && !esc); simp; omega

end Ruma.HttpHeaders
