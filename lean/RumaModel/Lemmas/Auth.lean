/-
  Helper lemmas about the authorization model: inversion of `Except` binds, distinctness of the
  string constants, and "what an accepted event went through" for each path of `authCheckR`.
-/
import RumaModel.Model.Auth
namespace Ruma.Auth
open Ruma Ruma.Ident

/-! ## `Except` plumbing -/

@[simp] theorem bind_eq_ok {α β} {x : Res α} {f : α → Res β} {b : β} :
    (x >>= f) = .ok b ↔ ∃ a, x = .ok a ∧ f a = .ok b := by
  cases x with
  | error e => simp [bind, Except.bind]
  | ok a => simp [bind, Except.bind]

@[simp] theorem require_eq_ok {c : Bool} {u : Unit} : require c = .ok u ↔ c = true := by
  cases c <;> simp [require]

@[simp] theorem map_eq_ok {α β} {x : Res α} {g : α → β} {b : β} :
    (g <$> x) = .ok b ↔ ∃ a, x = .ok a ∧ g a = b := by
  cases x <;> simp [Functor.map, Except.map]

@[simp] theorem exceptMap_eq_ok {α β} {x : Res α} {g : α → β} {b : β} :
    (Except.map g x) = .ok b ↔ ∃ a, x = .ok a ∧ g a = b := by
  cases x <;> simp [Except.map]

theorem authCheck_true {rules ev f} : authCheck rules ev f = true ↔ authCheckR rules ev f = .ok () := by
  unfold authCheck
  cases authCheckR rules ev f <;> simp

theorem authCheck_false {rules ev f} : authCheck rules ev f = false ↔ authCheckR rules ev f ≠ .ok () := by
  unfold authCheck
  cases authCheckR rules ev f <;> simp

/-! ## The constants are pairwise different -/

theorem mJoin_ne_mInvite : mJoin ≠ mInvite := by decide
theorem mJoin_ne_mLeave : mJoin ≠ mLeave := by decide
theorem mJoin_ne_mBan : mJoin ≠ mBan := by decide
theorem mJoin_ne_mKnock : mJoin ≠ mKnock := by decide
theorem mInvite_ne_mJoin : mInvite ≠ mJoin := by decide
theorem mInvite_ne_mLeave : mInvite ≠ mLeave := by decide
theorem mInvite_ne_mBan : mInvite ≠ mBan := by decide
theorem mInvite_ne_mKnock : mInvite ≠ mKnock := by decide
theorem mLeave_ne_mJoin : mLeave ≠ mJoin := by decide
theorem mLeave_ne_mInvite : mLeave ≠ mInvite := by decide
theorem mLeave_ne_mBan : mLeave ≠ mBan := by decide
theorem mLeave_ne_mKnock : mLeave ≠ mKnock := by decide
theorem mBan_ne_mJoin : mBan ≠ mJoin := by decide
theorem mBan_ne_mInvite : mBan ≠ mInvite := by decide
theorem mBan_ne_mLeave : mBan ≠ mLeave := by decide
theorem mBan_ne_mKnock : mBan ≠ mKnock := by decide
theorem mKnock_ne_mJoin : mKnock ≠ mJoin := by decide
theorem mKnock_ne_mInvite : mKnock ≠ mInvite := by decide
theorem mKnock_ne_mLeave : mKnock ≠ mLeave := by decide
theorem mKnock_ne_mBan : mKnock ≠ mBan := by decide

theorem tMember_ne_tCreate : tMember ≠ tCreate := by decide
theorem tMember_ne_tAliases : tMember ≠ tAliases := by decide
theorem tPowerLevels_ne_tCreate : tPowerLevels ≠ tCreate := by decide
theorem tPowerLevels_ne_tMember : tPowerLevels ≠ tMember := by decide
theorem tPowerLevels_ne_tAliases : tPowerLevels ≠ tAliases := by decide
theorem tPowerLevels_ne_tThirdPartyInvite : tPowerLevels ≠ tThirdPartyInvite := by decide

/-! ## State reads -/

theorem fetchCreate_eq_ok {f : Fetch} {c : Event} : fetchCreate f = .ok c ↔ f tCreate [] = some c := by
  unfold fetchCreate
  cases f tCreate [] <;> simp

/-! ## What an accepted event went through -/

/-- An accepted `m.room.member` event went through `check_room_member` with the state's create event. -/
theorem authCheckR_member {rules ev f} (hty : ev.type = tMember) (h : authCheckR rules ev f = .ok ()) :
    ∃ create, f tCreate [] = some create ∧ checkRoomMember rules ev create f = .ok () := by
  have e1 : (tMember == tCreate) = false := by decide
  have e2 : (tMember == tAliases) = false := by decide
  simp only [authCheckR, hty, e1, e2, Bool.and_false] at h
  simp at h
  obtain ⟨create, hc, -, h⟩ := h
  refine ⟨create, fetchCreate_eq_ok.mp hc, ?_⟩
  rcases h with ⟨-, -, h⟩ | ⟨-, h⟩ <;> exact h

/-- `check_room_member` on an event with state key `target` and readable membership `m`. -/
theorem checkRoomMember_eq {rules ev create f target m} (hsk : ev.stateKey = some target)
    (hm : contentMembership ev.content = .ok m) :
    checkRoomMember rules ev create f =
      (require (validUserId target) >>= fun _ =>
        if m == mJoin then checkMemberJoin rules ev target create f
        else if m == mInvite then checkMemberInvite rules ev target create f
        else if m == mLeave then checkMemberLeave rules ev target create f
        else if m == mBan then checkMemberBan rules ev target create f
        else if m == mKnock && rules.knocking then checkMemberKnock rules ev target f
        else .error ()) := by
  simp [checkRoomMember, hsk, hm, bind, Except.bind]

theorem member_join_inv {rules ev f target} (hty : ev.type = tMember) (hsk : ev.stateKey = some target)
    (hm : contentMembership ev.content = .ok mJoin) (h : authCheckR rules ev f = .ok ()) :
    ∃ create, f tCreate [] = some create ∧ validUserId target = true ∧
      checkMemberJoin rules ev target create f = .ok () := by
  obtain ⟨create, hc, h⟩ := authCheckR_member hty h
  rw [checkRoomMember_eq hsk hm] at h
  simp at h
  exact ⟨create, hc, h.1, h.2⟩

theorem member_invite_inv {rules ev f target} (hty : ev.type = tMember) (hsk : ev.stateKey = some target)
    (hm : contentMembership ev.content = .ok mInvite) (h : authCheckR rules ev f = .ok ()) :
    ∃ create, f tCreate [] = some create ∧ validUserId target = true ∧
      checkMemberInvite rules ev target create f = .ok () := by
  obtain ⟨create, hc, h⟩ := authCheckR_member hty h
  rw [checkRoomMember_eq hsk hm] at h
  simp [mInvite_ne_mJoin] at h
  exact ⟨create, hc, h.1, h.2⟩

theorem member_leave_inv {rules ev f target} (hty : ev.type = tMember) (hsk : ev.stateKey = some target)
    (hm : contentMembership ev.content = .ok mLeave) (h : authCheckR rules ev f = .ok ()) :
    ∃ create, f tCreate [] = some create ∧ validUserId target = true ∧
      checkMemberLeave rules ev target create f = .ok () := by
  obtain ⟨create, hc, h⟩ := authCheckR_member hty h
  rw [checkRoomMember_eq hsk hm] at h
  simp [mLeave_ne_mJoin, mLeave_ne_mInvite] at h
  exact ⟨create, hc, h.1, h.2⟩

theorem member_ban_inv {rules ev f target} (hty : ev.type = tMember) (hsk : ev.stateKey = some target)
    (hm : contentMembership ev.content = .ok mBan) (h : authCheckR rules ev f = .ok ()) :
    ∃ create, f tCreate [] = some create ∧ validUserId target = true ∧
      checkMemberBan rules ev target create f = .ok () := by
  obtain ⟨create, hc, h⟩ := authCheckR_member hty h
  rw [checkRoomMember_eq hsk hm] at h
  simp [mBan_ne_mJoin, mBan_ne_mInvite, mBan_ne_mLeave] at h
  exact ⟨create, hc, h.1, h.2⟩

theorem member_knock_inv {rules ev f target} (hty : ev.type = tMember) (hsk : ev.stateKey = some target)
    (hm : contentMembership ev.content = .ok mKnock) (h : authCheckR rules ev f = .ok ()) :
    validUserId target = true ∧ rules.knocking = true ∧ checkMemberKnock rules ev target f = .ok () := by
  obtain ⟨create, -, h⟩ := authCheckR_member hty h
  rw [checkRoomMember_eq hsk hm] at h
  simp [mKnock_ne_mJoin, mKnock_ne_mInvite, mKnock_ne_mLeave, mKnock_ne_mBan] at h
  obtain ⟨hv, h⟩ := h
  by_cases hk : rules.knocking = true
  · simp [hk] at h
    exact ⟨hv, hk, h⟩
  · simp [hk] at h

/-- An accepted event that is neither `m.room.create`, nor handled by the `m.room.aliases` special
case, nor `m.room.member`: the sender is joined and has a power level; the rest depends on the type. -/
theorem authCheckR_general {rules ev f} (h1 : ev.type ≠ tCreate) (h2 : ev.type ≠ tMember)
    (h3 : ¬ (rules.specialCaseRoomAliases = true ∧ ev.type = tAliases))
    (h : authCheckR rules ev f = .ok ()) :
    ∃ create creator sl, f tCreate [] = some create ∧
      userMembership f ev.sender = .ok mJoin ∧
      createCreator rules create = .ok creator ∧
      plUserLevel rules (fetchPowerLevels f) ev.sender creator = .ok sl ∧
      (if ev.type == tThirdPartyInvite then
          plIntOrDefault rules (fetchPowerLevels f) .invite >>= fun il => require (decide (sl ≥ il))
        else
          plEventLevel rules (fetchPowerLevels f) ev.type ev.stateKey.isSome >>= fun req =>
          require (decide (sl ≥ req)) >>= fun _ =>
          require (!foreignUserStateKey ev) >>= fun _ =>
          if ev.type == tPowerLevels then checkRoomPowerLevels rules ev (fetchPowerLevels f) sl
          else if rules.specialCaseRoomRedaction && ev.type == tRedaction then
            checkRoomRedaction rules ev (fetchPowerLevels f) sl
          else .ok ()) = .ok () := by
  have e1 : (ev.type == tCreate) = false := by simpa using h1
  have e2 : (ev.type == tMember) = false := by simpa using h2
  have e3 : (rules.specialCaseRoomAliases && ev.type == tAliases) = false := by
    cases hs : rules.specialCaseRoomAliases <;> simp_all
  simp only [authCheckR, e1, e2, e3] at h
  simp only [Bool.false_eq_true, if_false, bind_eq_ok, require_eq_ok] at h
  obtain ⟨create, hc, -, -, -, -, -, -, sm, hsm, -, hj, creator, hcr, sl, hsl, h⟩ := h
  refine ⟨create, creator, sl, fetchCreate_eq_ok.mp hc, ?_, hcr, hsl, h⟩
  have : sm = mJoin := by simpa using hj
  rw [← this]; exact hsm

/-! ## Power-level maps -/

theorem lastGet_some_mem {m : PLMap} {k : Str} {n : Int} (h : lastGet m k = some n) :
    k ∈ m.map (·.1) := by
  induction m generalizing n with
  | nil => simp [lastGet] at h
  | cons p t ih =>
    obtain ⟨k', v⟩ := p
    simp only [lastGet] at h
    cases ht : lastGet t k with
    | some x => simp [ih ht]
    | none =>
      simp only [ht] at h
      by_cases hk : k' = k
      · simp [hk]
      · simp [hk] at h

theorem bindLastGet_mem_plKeys {m : Option PLMap} {k : Str} {n : Int}
    (h : m.bind (lastGet · k) = some n) : k ∈ plKeys m := by
  cases m with
  | none => simp at h
  | some l => simp only [Option.bind_some] at h; simpa [plKeys] using lastGet_some_mem h

/-- `check_power_level_maps` passed: every entry of the new map is unchanged or at most the
sender's level; every entry of the current map is unchanged or not protected by `rej`. -/
theorem checkPowerLevelMaps_inv {cur new : Option PLMap} {sl : Int} {rej : Str → Int → Bool}
    (h : checkPowerLevelMaps cur new sl rej = true) :
    (∀ k n, new.bind (lastGet · k) = some n → cur.bind (lastGet · k) = some n ∨ n ≤ sl) ∧
    (∀ k c, cur.bind (lastGet · k) = some c → new.bind (lastGet · k) = some c ∨ rej k c = false) := by
  simp only [checkPowerLevelMaps, List.all_eq_true, List.mem_append] at h
  constructor
  · intro k n hn
    have hk := h k (Or.inr (bindLastGet_mem_plKeys hn))
    simp only [hn] at hk
    cases hc : cur.bind (lastGet · k) with
    | none => simp [hc] at hk; right; omega
    | some c =>
      simp only [hc] at hk
      by_cases hcn : c = n
      · left; simp [hcn]
      · right
        have : (some c == some n) = false := by simpa using hcn
        simp [this] at hk
        omega
  · intro k c hc
    have hk := h k (Or.inl (bindLastGet_mem_plKeys hc))
    simp only [hc] at hk
    cases hn : new.bind (lastGet · k) with
    | none => simp [hn] at hk; right; exact hk
    | some n =>
      simp only [hn] at hk
      by_cases hcn : c = n
      · left; simp [hcn]
      · right
        have : (some c == some n) = false := by simpa using hcn
        simp [this] at hk
        exact hk.1

theorem intFieldsMap_mem {rules : AuthRules} {c : Obj} :
    ∀ {l : List PLField} {m : List (PLField × Int)}, intFieldsMap rules c l = .ok m →
      ∀ p ∈ m, p.1 ∈ l := by
  intro l
  induction l with
  | nil => intro m h p hp; simp [intFieldsMap] at h; subst h; simp at hp
  | cons fld t ih =>
    intro m h p hp
    simp only [intFieldsMap, bind_eq_ok] at h
    obtain ⟨v, hv, rest, hrest, hm⟩ := h
    cases v with
    | none =>
      simp at hm; subst hm
      exact List.mem_cons_of_mem _ (ih hrest p hp)
    | some i =>
      simp at hm; subst hm
      rcases List.mem_cons.mp hp with rfl | hp'
      · simp
      · exact List.mem_cons_of_mem _ (ih hrest p hp')

/-- `int_fields_map` succeeded: every listed field parses, and looking it up gives its value. -/
theorem intFieldsMap_get {rules : AuthRules} {c : Obj} :
    ∀ {l : List PLField} {m : List (PLField × Int)}, intFieldsMap rules c l = .ok m → l.Nodup →
      ∀ fld ∈ l, ∃ v, getAsInt rules c fld = .ok v ∧ fieldsGet m fld = v := by
  intro l
  induction l with
  | nil => intro m _ _ fld hf; simp at hf
  | cons fld' t ih =>
    intro m h hnd fld hf
    simp only [intFieldsMap, bind_eq_ok] at h
    obtain ⟨v, hv, rest, hrest, hm⟩ := h
    have hnd' := List.nodup_cons.mp hnd
    by_cases hff : fld = fld'
    · subst hff
      refine ⟨v, hv, ?_⟩
      cases v with
      | none =>
        simp at hm; subst hm
        unfold fieldsGet
        have : rest.find? (·.1 = fld) = none := by
          rw [List.find?_eq_none]
          intro p hp hpe
          have := intFieldsMap_mem hrest p hp
          simp at hpe
          rw [hpe] at this
          exact hnd'.1 this
        simp [this]
      | some i =>
        simp at hm; subst hm
        simp [fieldsGet]
    · have hft : fld ∈ t := by
        rcases List.mem_cons.mp hf with h | h
        · exact absurd h hff
        · exact h
      obtain ⟨w, hw, hg⟩ := ih hrest hnd'.2 fld hft
      refine ⟨w, hw, ?_⟩
      cases v with
      | none => simp at hm; subst hm; exact hg
      | some i =>
        simp at hm; subst hm
        unfold fieldsGet at hg ⊢
        have : ¬ (fld' = fld) := fun e => hff e.symm
        simp [List.find?, this, hg]

theorem checkIntFields_inv {rules : AuthRules} {cc : Obj} {newInts : List (PLField × Int)} {sl : Int} :
    ∀ {l : List PLField}, checkIntFields rules cc newInts sl l = .ok () →
      ∀ fld ∈ l, ∃ c, getAsInt rules cc fld = .ok c ∧
        (c = fieldsGet newInts fld ∨
          (c.getD fld.default ≤ sl ∧ (fieldsGet newInts fld).getD fld.default ≤ sl)) := by
  intro l
  induction l with
  | nil => intro _ fld hf; simp at hf
  | cons fld' t ih =>
    intro h fld hf
    simp only [checkIntFields, bind_eq_ok] at h
    obtain ⟨c, hc, h⟩ := h
    by_cases hcn : (c == fieldsGet newInts fld') = true
    · simp only [hcn, if_true] at h
      rcases List.mem_cons.mp hf with rfl | hft
      · exact ⟨c, hc, Or.inl (by simpa using hcn)⟩
      · exact ih h fld hft
    · simp only [hcn] at h
      by_cases hbig : (decide (c.getD fld'.default > sl) || decide ((fieldsGet newInts fld').getD fld'.default > sl)) = true
      · simp only [hbig, if_true] at h
        simp at h
      · simp only [hbig] at h
        rcases List.mem_cons.mp hf with rfl | hft
        · refine ⟨c, hc, Or.inr ?_⟩
          simp at hbig
          omega
        · exact ih h fld hft

theorem PLField.mem_all (fld : PLField) : fld ∈ PLField.all := by
  cases fld <;> simp [PLField.all]

theorem PLField.all_nodup : PLField.all.Nodup := by decide

/-- What `check_room_power_levels` established when there is a current power-levels event. -/
theorem checkRoomPowerLevels_inv {rules : AuthRules} {ev cur : Event} {sl : Int}
    (h : checkRoomPowerLevels rules ev (some cur) sl = .ok ()) :
    ∃ newInts newEvents newNotifications newUsers curEvents curUsers,
      intFieldsMap rules ev.content PLField.all = .ok newInts ∧
      plEvents rules ev.content = .ok newEvents ∧
      plNotifications rules ev.content = .ok newNotifications ∧
      plUsers rules ev.content = .ok newUsers ∧
      checkIntFields rules cur.content newInts sl PLField.all = .ok () ∧
      plEvents rules cur.content = .ok curEvents ∧
      checkPowerLevelMaps curEvents newEvents sl (fun _ l => decide (l > sl)) = true ∧
      (rules.limitNotificationsPowerLevels = true →
        ∃ curNotifications, plNotifications rules cur.content = .ok curNotifications ∧
          checkPowerLevelMaps curNotifications newNotifications sl (fun _ l => decide (l > sl)) = true) ∧
      plUsers rules cur.content = .ok curUsers ∧
      checkPowerLevelMaps curUsers newUsers sl (fun u l => u ≠ ev.sender && decide (l ≥ sl)) = true := by
  simp only [checkRoomPowerLevels, bind_eq_ok, require_eq_ok] at h
  obtain ⟨newInts, h1, newEvents, h2, newNotifications, h3, newUsers, h4, u5, h5, curEvents, h6, -, h7, h⟩ := h
  refine ⟨newInts, newEvents, newNotifications, newUsers, curEvents, ?_⟩
  by_cases hl : rules.limitNotificationsPowerLevels = true
  · rw [if_pos hl] at h
    simp only [bind_eq_ok, require_eq_ok] at h
    obtain ⟨curN, h8, -, h9, curUsers, h10, h11⟩ := h
    exact ⟨curUsers, h1, h2, h3, h4, h5, h6, h7, fun _ => ⟨curN, h8, h9⟩, h10, h11⟩
  · rw [if_neg hl] at h
    simp only [bind_eq_ok, require_eq_ok] at h
    obtain ⟨curUsers, h10, h11⟩ := h
    exact ⟨curUsers, h1, h2, h3, h4, h5, h6, h7, fun hc => absurd hc hl, h10, h11⟩

end Ruma.Auth
