/-
  C11 — helper lemmas, part 5: parsing never panics; parsed values are well formed;
  parse → format → parse.
-/
import RumaModel.Lemmas.MatrixUriRoundTrip
namespace Ruma.MatrixUri
open Ruma Ruma.Spec.MatrixUri

theorem parseWithSigil_ne_panic (V : Validators) (s : Str) : parseWithSigil V s ≠ .panic := by
  unfold parseWithSigil
  intro h
  dsimp only at h
  repeat' split at h
  all_goals first | cases h | skip

theorem parseWithType_ne_panic (V : Validators) (s : Str) : parseWithType V s ≠ .panic := by
  unfold parseWithType
  intro h
  dsimp only at h
  repeat' split at h
  all_goals first | cases h | exact parseWithSigil_ne_panic V _ h

theorem splitOn_ne_nil (c : Nat) (s : Str) : splitOn c s ≠ [] := by simp [splitOn]

theorem parseTo_ne_panic (V : Validators) (s : Str) : parseTo V s ≠ .panic := by
  unfold parseTo
  intro h
  split at h
  · cases h
  · split at h
    · rename_i he; exact splitOn_ne_nil _ _ he
    · split at h
      · cases h
      · rename_i hp; exact parseWithSigil_ne_panic V _ hp
      · dsimp only at h
        repeat' (first | split at h | dsimp only at h)
        all_goals first | cases h | skip

theorem parseUri_ne_panic (U : UrlParser) (V : Validators) (s : Str) : parseUri U V s ≠ .panic := by
  unfold parseUri
  intro h
  split at h
  · cases h
  · split at h
    · cases h
    · split at h
      · cases h
      · rename_i hp; exact parseWithType_ne_panic V _ hp
      · dsimp only at h
        repeat' (first | split at h | dsimp only at h)
        all_goals first | cases h | skip

/-! ## parsed values are well formed -/

theorem hexVal_lt (c x : Nat) (h : hexVal c = some x) : x < 16 := by
  unfold hexVal at h
  repeat' split at h
  all_goals first | (cases h; omega) | cases h

theorem escapeAt_lt (t : Str) (v : Nat) (h : escapeAt t = some v) : v < 256 := by
  unfold escapeAt at h
  split at h
  · split at h
    · rename_i hx hy
      cases h
      have := hexVal_lt _ _ hx; have := hexVal_lt _ _ hy; omega
    · cases h
  · cases h

theorem Bytes.nil : Bytes [] := fun _ h => by simp at h
theorem Bytes.cons {b : Nat} {t : Str} (hb : b < 256) (ht : Bytes t) : Bytes (b :: t) := by
  intro x hx; simp at hx; rcases hx with rfl | hx
  · exact hb
  · exact ht x hx
theorem Bytes.head {b : Nat} {t : Str} (h : Bytes (b :: t)) : b < 256 := h b (by simp)
theorem Bytes.append {a b : Str} (ha : Bytes a) (hb : Bytes b) : Bytes (a ++ b) := by
  intro x hx; simp at hx; rcases hx with hx | hx
  · exact ha x hx
  · exact hb x hx
theorem Bytes.of_subset {a b : Str} (hb : Bytes b) (h : ∀ x ∈ a, x ∈ b) : Bytes a :=
  fun x hx => hb x (h x hx)

theorem bytes_decodeFrom (k : Nat) (s : Str) (h : Bytes s) : Bytes (decodeFrom k s) := by
  induction s generalizing k with
  | nil => simp [Bytes.nil]
  | cons b t ih =>
    cases k with
    | succ k => simpa using ih k h.tail
    | zero =>
      unfold decodeFrom
      split
      · split
        · rename_i v hv; exact Bytes.cons (escapeAt_lt t v hv) (ih 2 h.tail)
        · exact Bytes.cons (by omega) (ih 0 h.tail)
      · exact Bytes.cons h.head (ih 0 h.tail)

theorem bytes_percentDecode (s : Str) (h : Bytes s) : Bytes (percentDecode s) :=
  bytes_decodeFrom 0 s h

theorem bytes_lossyFrom (k : Nat) (s : Str) (h : Bytes s) : Bytes (lossyFrom k s) := by
  induction s generalizing k with
  | nil => cases k <;> simp [lossyFrom, Bytes.nil]
  | cons b t ih =>
    cases k with
    | succ k => simpa [lossyFrom] using ih k h.tail
    | zero =>
      simp only [lossyFrom]
      apply Bytes.append
      · split
        · exact Bytes.cons h.head (Bytes.of_subset h.tail (fun x hx => List.mem_of_mem_take hx))
        · unfold Bytes replacement; decide
      · exact ih _ h.tail

theorem isStr_formDecode (s : Str) (h : Bytes s) : IsStr (formDecode s) := by
  refine ⟨bytes_lossyFrom 0 _ (bytes_percentDecode _ ?_), validUtf8_utf8Lossy _⟩
  intro x hx
  simp only [List.mem_map] at hx
  obtain ⟨y, hy, rfl⟩ := hx
  split
  · omega
  · exact h y hy

theorem decodeUtf8_some (x d : Str) (hx : Bytes x) (h : decodeUtf8 x = some d) : IsStr d := by
  unfold decodeUtf8 at h
  split at h
  · cases h; exact ⟨bytes_percentDecode x hx, by assumption⟩
  · cases h

theorem mem_stripPrefixByte (c : Nat) (s : Str) : ∀ x ∈ stripPrefixByte c s, x ∈ s := by
  cases s with
  | nil => simp [stripPrefixByte]
  | cons b t =>
    simp only [stripPrefixByte]
    split
    · intro x hx; simp [hx]
    · intro x hx; exact hx

theorem mem_stripSuffixByte (c : Nat) (s : Str) : ∀ x ∈ stripSuffixByte c s, x ∈ s := by
  unfold stripSuffixByte
  split
  · exact fun x hx => List.dropLast_subset _ hx
  · exact fun x hx => hx

theorem mem_stripTypeSuffix (s : Str) : ∀ x ∈ stripTypeSuffix s, x ∈ s := by
  unfold stripTypeSuffix
  split
  · exact fun x hx => List.dropLast_subset _ hx
  · exact fun x hx => hx

theorem mem_splitOnce (c : Nat) (s a r : Str) (h : splitOnce c s = some (a, r)) :
    (∀ x ∈ a, x ∈ s) ∧ (∀ x ∈ r, x ∈ s) := by
  induction s generalizing a with
  | nil => simp [splitOnce] at h
  | cons b t ih =>
    unfold splitOnce at h
    split at h
    · cases h; exact ⟨by simp, fun x hx => by simp [hx]⟩
    · split at h
      · rename_i a' r' heq
        cases h
        have := ih a' heq
        exact ⟨fun x hx => by simp at hx; rcases hx with rfl | hx <;> simp [this.1 _, *],
          fun x hx => by simp [this.2 x hx]⟩
      · cases h

theorem mem_splitHT (c : Nat) (s : Str) :
    (∀ x ∈ (splitHT c s).1, x ∈ s) ∧ (∀ p ∈ (splitHT c s).2, ∀ x ∈ p, x ∈ s) := by
  induction s with
  | nil => simp [splitHT]
  | cons b t ih =>
    unfold splitHT
    split
    · refine ⟨by simp, ?_⟩
      intro p hp x hx
      simp at hp
      rcases hp with rfl | hp
      · simp [ih.1 x hx]
      · simp [ih.2 p hp x hx]
    · refine ⟨?_, ?_⟩
      · intro x hx; simp at hx; rcases hx with rfl | hx <;> simp [ih.1 _, *]
      · intro p hp x hx; simp [ih.2 p hp x hx]

theorem mem_splitOn (c : Nat) (s : Str) : ∀ p ∈ splitOn c s, ∀ x ∈ p, x ∈ s := by
  intro p hp x hx
  simp [splitOn] at hp
  rcases hp with rfl | hp
  · exact (mem_splitHT c s).1 x hx
  · exact (mem_splitHT c s).2 p hp x hx

theorem singleBranch_ok (V : Validators) (s : Str) (id : MatrixId) (hs : IsStr s)
    (h : singleBranch V s = .ok id) : MatrixIdOk V id := by
  unfold singleBranch at h
  split at h
  all_goals (try split at h)
  all_goals first | cases h | skip
  all_goals (rename_i hh hv; exact ⟨hs, hh, hv⟩)

theorem roomOrAliasOk_of (V : Validators) (s : Str) (hs : IsStr s) (h : V.roomOrAlias s = true) :
    RoomOrAliasOk V s := by
  unfold Validators.roomOrAlias at h
  split at h
  · rename_i hh; exact Or.inr ⟨hs, hh, h⟩
  · rename_i hh; exact Or.inl ⟨hs, hh, h⟩
  · cases h

theorem pairBranch_ok (V : Validators) (a b : Str) (id : MatrixId) (ha : IsStr a) (hb : IsStr b)
    (h : pairBranch V a b = .ok id) : MatrixIdOk V id := by
  unfold pairBranch at h
  split at h
  · rename_i hc
    simp only [Bool.and_eq_true, beq_iff_eq] at hc
    split at h
    · split at h
      · rename_i hr he; cases h
        exact ⟨roomOrAliasOk_of V a ha hr, hb, hc.2, he⟩
      · cases h
    · cases h
  · split at h
    · rename_i hc
      simp only [Bool.and_eq_true, beq_iff_eq] at hc
      split at h
      · split at h
        · rename_i hr he; cases h
          exact ⟨roomOrAliasOk_of V b hb hr, ha, hc.1, he⟩
        · cases h
      · cases h
    · cases h

theorem parseWithSigil_eq (V : Validators) (s0 : Str) :
    parseWithSigil V s0 =
      (let s := stripSuffixByte 47 (stripPrefixByte 47 s0)
       if s = [] then .err
       else if 1 < s.count 47 then .err
       else
         match splitOnce 47 s with
         | some (firstRaw, secondRaw) =>
           match decodeUtf8 firstRaw with
           | none => .err
           | some first =>
             match decodeUtf8 secondRaw with
             | none => .err
             | some second => pairBranch V first second
         | none =>
           match decodeUtf8 s with
           | none => .err
           | some id => singleBranch V id) := rfl

theorem parseWithSigil_ok (V : Validators) (s : Str) (id : MatrixId) (hs : Bytes s)
    (h : parseWithSigil V s = .ok id) : MatrixIdOk V id := by
  rw [parseWithSigil_eq] at h
  dsimp only at h
  have hsub : ∀ x ∈ stripSuffixByte 47 (stripPrefixByte 47 s), x ∈ s :=
    fun x hx => mem_stripPrefixByte 47 s x (mem_stripSuffixByte 47 _ x hx)
  split at h
  · cases h
  · split at h
    · cases h
    · split at h
      · rename_i a r heq
        have hm := mem_splitOnce 47 _ a r heq
        split at h
        · cases h
        · rename_i first hf
          split at h
          · cases h
          · rename_i second hsec
            exact pairBranch_ok V first second id
              (decodeUtf8_some a first (hs.of_subset (fun x hx => hsub x (hm.1 x hx))) hf)
              (decodeUtf8_some r second (hs.of_subset (fun x hx => hsub x (hm.2 x hx))) hsec) h
      · split at h
        · cases h
        · rename_i d hd
          exact singleBranch_ok V d id (decodeUtf8_some _ d (hs.of_subset hsub) hd) h

theorem sigilOfType_lt (ty : Str) (sg : Nat) (h : sigilOfType ty = some sg) : sg < 256 := by
  unfold sigilOfType at h
  repeat' split at h
  all_goals first | (cases h; omega) | cases h

theorem bytes_typeLoop (pieces : List Str) (acc id : Str) (hp : ∀ p ∈ pieces, Bytes p)
    (hacc : Bytes acc) (h : typeLoop pieces acc = some id) : Bytes id := by
  fun_induction typeLoop pieces acc with
  | case1 ty idw rest acc hnone => cases h
  | case2 ty idw rest acc sg hsg ih =>
    apply ih (fun p hp' => hp p (by simp [hp'])) _ h
    exact hacc.append (Bytes.cons (by omega) (Bytes.cons (sigilOfType_lt ty sg hsg) (hp idw (by simp))))
  | case3 pieces acc hne => cases h; exact hacc

theorem parseWithType_ok (V : Validators) (s : Str) (id : MatrixId) (hs : Bytes s)
    (h : parseWithType V s = .ok id) : MatrixIdOk V id := by
  unfold parseWithType at h
  dsimp only at h
  have hsub : ∀ x ∈ stripTypeSuffix (stripPrefixByte 47 s), x ∈ s :=
    fun x hx => mem_stripPrefixByte 47 s x (mem_stripTypeSuffix _ x hx)
  split at h
  · cases h
  · split at h
    · cases h
    · split at h
      · cases h
      · rename_i idtext hloop
        refine parseWithSigil_ok V idtext id ?_ h
        refine bytes_typeLoop _ [] idtext ?_ Bytes.nil hloop
        intro p hp
        exact hs.of_subset (fun x hx => hsub x (mem_splitOn 47 _ p hp x hx))

theorem mem_stripPrefix (p s r : Str) (h : stripPrefix p s = some r) : ∀ x ∈ r, x ∈ s := by
  induction p generalizing s with
  | nil => cases s <;> (simp [stripPrefix] at h; subst h; exact fun x hx => hx)
  | cons a p ih =>
    cases s with
    | nil => simp [stripPrefix] at h
    | cons b t =>
      simp only [stripPrefix] at h
      split at h
      · exact fun x hx => by simp [ih t h x hx]
      · cases h

theorem formPair_isStr (seq : Str) (h : Bytes seq) : IsStr (formPair seq).1 ∧ IsStr (formPair seq).2 := by
  unfold formPair
  split
  · rename_i n v heq
    have := mem_splitOnce 61 seq n v heq
    exact ⟨isStr_formDecode n (h.of_subset this.1), isStr_formDecode v (h.of_subset this.2)⟩
  · exact ⟨isStr_formDecode seq h, isStr_formDecode [] Bytes.nil⟩

theorem formParse_isStr (q : Str) (h : Bytes q) : ∀ kv ∈ formParse q, IsStr kv.1 ∧ IsStr kv.2 := by
  intro kv hkv
  simp only [formParse, List.mem_map, List.mem_filter] at hkv
  obtain ⟨seq, ⟨hseq, _⟩, rfl⟩ := hkv
  exact formPair_isStr seq (h.of_subset (mem_splitOn 38 q seq hseq))

theorem viaOfPairs_ok (V : Validators) (pairs : List (Str × Str)) (vs : List Str)
    (hp : ∀ kv ∈ pairs, IsStr kv.2) (h : viaOfPairs V pairs = some vs) :
    ∀ v ∈ vs, ServerOk V v := by
  induction pairs generalizing vs with
  | nil => simp [viaOfPairs] at h; subst h; simp
  | cons kv t ih =>
    obtain ⟨k, v⟩ := kv
    simp only [viaOfPairs] at h
    split at h
    · split at h
      · rename_i hsv
        split at h
        · rename_i vs' hvs'
          cases h
          intro x hx
          simp at hx
          rcases hx with rfl | hx
          · exact ⟨hp (k, x) (by simp), hsv⟩
          · exact ih vs' (fun kv hkv => hp kv (by simp [hkv])) hvs' x hx
        · cases h
      · cases h
    · cases h

theorem parseTo_ok (V : Validators) (s : Str) (u : ToUri) (hs : Bytes s)
    (h : parseTo V s = .ok u) : ToUriOk V u := by
  unfold parseTo at h
  split at h
  · cases h
  · rename_i s1 hs1
    have hb1 : Bytes (stripSuffixByte 47 s1) :=
      hs.of_subset (fun x hx => mem_stripPrefix _ s s1 hs1 x (mem_stripSuffixByte 47 s1 x hx))
    split at h
    · cases h
    · rename_i idsPart rest hsplit
      have hpieces : ∀ p ∈ idsPart :: rest, Bytes p := by
        intro p hp; rw [← hsplit] at hp
        exact hb1.of_subset (mem_splitOn 63 _ p hp)
      split at h
      · cases h
      · cases h
      · rename_i id hid
        have hidok := parseWithSigil_ok V idsPart id (hpieces idsPart (by simp)) hid
        dsimp only at h
        split at h
        · cases h
        · rename_i via hvia
          have hviaok : ∀ v ∈ via, ServerOk V v := by
            cases rest with
            | nil => simp at hvia; subst hvia; simp
            | cons q r =>
              exact viaOfPairs_ok V _ via
                (fun kv hkv => (formParse_isStr q (hpieces q (by simp)) kv hkv).2) hvia
          split at h
          · cases h
          · cases h; exact ⟨hidok, hviaok⟩

theorem ofStr_ok (s : Str) (h : IsStr s) : ActionOk (Action.ofStr s) := by
  unfold Action.ofStr
  split
  · trivial
  · split
    · trivial
    · exact ⟨h, by assumption, by assumption⟩

theorem queryLoop_ok (V : Validators) (pairs : List (Str × Str)) (acc via : List Str)
    (act action : Option Action) (hp : ∀ kv ∈ pairs, IsStr kv.2)
    (hacc : ∀ v ∈ acc, ServerOk V v) (hact : ∀ a, act = some a → ActionOk a)
    (h : queryLoop V pairs acc act = some (via, action)) :
    (∀ v ∈ via, ServerOk V v) ∧ ∀ a, action = some a → ActionOk a := by
  induction pairs generalizing acc act with
  | nil => simp [queryLoop] at h; obtain ⟨rfl, rfl⟩ := h; exact ⟨hacc, hact⟩
  | cons kv t ih =>
    obtain ⟨k, v⟩ := kv
    have hv : IsStr v := hp (k, v) (by simp)
    have ht : ∀ kv ∈ t, IsStr kv.2 := fun kv hkv => hp kv (by simp [hkv])
    simp only [queryLoop] at h
    split at h
    · split at h
      · rename_i hsv
        refine ih (acc ++ [v]) act ht ?_ hact h
        intro x hx
        simp at hx
        rcases hx with hx | rfl
        · exact hacc x hx
        · exact ⟨hv, hsv⟩
      · cases h
    · split at h
      · split at h
        · cases h
        · refine ih acc _ ht hacc ?_ h
          intro a ha; cases ha; exact ofStr_ok v hv
      · cases h

theorem parseUri_ok (U : UrlParser) (hU : UrlReturnsBytes U) (V : Validators) (s : Str) (u : Uri)
    (h : parseUri U V s = .ok u) : UriOk V u := by
  unfold parseUri at h
  split at h
  · cases h
  · rename_i url hurl
    have hb := hU s url hurl
    split at h
    · cases h
    · split at h
      · cases h
      · cases h
      · rename_i id hid
        have hidok := parseWithType_ok V url.path id hb.1 hid
        dsimp only at h
        split at h
        · cases h
        · rename_i via action hloop
          cases h
          have hpairs : ∀ kv ∈ (match url.query with | none => formParse [] | some q => formParse q),
              IsStr kv.2 := by
            intro kv hkv
            cases hq : url.query with
            | none => rw [hq] at hkv; exact (formParse_isStr [] Bytes.nil kv hkv).2
            | some q => rw [hq] at hkv; exact (formParse_isStr q (hb.2 q hq) kv hkv).2
          have := queryLoop_ok V _ [] via none action hpairs (by simp) (by simp) hloop
          exact ⟨hidok, this.1, this.2⟩

/-- parse → format → parse for `matrix.to`. -/
theorem parseTo_format_parse (V : Validators) (s : Str) (u : ToUri) (hs : Bytes s)
    (h : parseTo V s = .ok u) : parseTo V (formatTo u) = .ok u :=
  parseTo_formatTo V u (parseTo_ok V s u hs h)

/-- parse → format → parse for `matrix:`. -/
theorem parseUri_format_parse (U : UrlParser) (hU : UrlKeepsSafeText U) (hUb : UrlReturnsBytes U)
    (V : Validators) (s : Str) (u : Uri) (h : parseUri U V s = .ok u) :
    ∃ text, formatUri u = .ok text ∧ parseUri U V text = .ok u :=
  parseUri_formatUri U hU V u (parseUri_ok U hUb V s u h)
end Ruma.MatrixUri
